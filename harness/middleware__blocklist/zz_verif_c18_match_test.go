//go:build verif

package blocklist

// C18 — blocklist matching is exact and its persisted form converges to memory.
//
// Unit "match": bounded-exhaustive comparison of the REAL BlockList (built through
// the real configuration path loadInitial -> set -> setLocked) with a reference
// matcher on label slices written from the property text: every list of <= 3
// entries (plain / "*."-wildcard / whitelist forms over names of depth <= 3 on the
// label alphabet {a, b, notb, B}) x every query name of depth <= 4 incl. the root,
// for Exists() and for the ServeDNS reply inside a real middleware.Chain with a
// stub next handler.
//
// This file also holds the helpers shared by the "persist" and "crash" units.

import (
	"context"
	"encoding/json"
	"fmt"
	"net"
	"sort"
	"strings"
	"testing"
	"time"

	"github.com/miekg/dns"
	"github.com/semihalev/sdns/config"
	"github.com/semihalev/sdns/internal/mock"
	"github.com/semihalev/sdns/internal/verifshim/vkit"
	"github.com/semihalev/sdns/middleware"
	"github.com/semihalev/zlog/v2"
)

// ---------------------------------------------------------------- alphabet

var vkLabels = []string{"a", "b", "notb", "B"}

const (
	vkNull4 = "192.0.2.66"
	vkNull6 = "2001:db8::66"
)

// vkNames returns every FQDN with 1..maxDepth labels over vkLabels, shallowest
// first (so the first counterexample is the shortest); withRoot prepends ".".
func vkNames(maxDepth int, withRoot bool) []string {
	var out []string
	if withRoot {
		out = append(out, ".")
	}
	level := []string{""}
	for d := 1; d <= maxDepth; d++ {
		var next []string
		for _, suffix := range level {
			for _, l := range vkLabels {
				next = append(next, l+"."+suffix)
			}
		}
		// keep a stable, simple order: by first label then by suffix order
		out = append(out, next...)
		level = next
	}
	return out
}

// ---------------------------------------------------------------- reference matcher (from the property text)

// vkLabelsOf splits a name into lower-cased whole labels (root = no labels).
func vkLabelsOf(fqdn string) []string {
	s := strings.TrimSuffix(strings.ToLower(fqdn), ".")
	if s == "" {
		return nil
	}
	return strings.Split(s, ".")
}

// vkCovers: 0 = e is not q nor a parent of q; 1 = e is q itself; 2 = e is a strict parent of q.
func vkCovers(e, q []string) int {
	if len(e) > len(q) {
		return 0
	}
	off := len(q) - len(e)
	for i := range e {
		if e[i] != q[off+i] {
			return 0
		}
	}
	if off == 0 {
		return 1
	}
	return 2
}

// vkList is a configured list: names as written by the operator (mixed case kept).
type vkList struct {
	Plain []string `json:"plain,omitempty"`
	Wild  []string `json:"wild,omitempty"` // the x of "*.x"
	White []string `json:"white,omitempty"`
}

func (l vkList) String() string {
	var p []string
	for _, x := range l.Plain {
		p = append(p, x)
	}
	for _, x := range l.Wild {
		p = append(p, "*."+x)
	}
	for _, x := range l.White {
		p = append(p, "!"+x)
	}
	return "[" + strings.Join(p, " ") + "]"
}

// vkRefBlocked: blocked iff (q or a parent is a plain entry, or a strict parent is a
// wildcard entry) and neither q nor any parent is whitelisted.
func vkRefBlocked(l vkList, q string) bool {
	ql := vkLabelsOf(q)
	for _, w := range l.White {
		if vkCovers(vkLabelsOf(w), ql) != 0 {
			return false
		}
	}
	for _, p := range l.Plain {
		if vkCovers(vkLabelsOf(p), ql) != 0 {
			return true
		}
	}
	for _, w := range l.Wild {
		if vkCovers(vkLabelsOf(w), ql) == 2 {
			return true
		}
	}
	return false
}

// ---------------------------------------------------------------- building the real object

func vkQuietLogs() { zlog.SetLevel(zlog.LevelFatal) }

// vkBuild constructs a BlockList exactly as New does, minus the background
// refreshRemote goroutine (New = struct literal + loadInitial + `go refreshRemote`).
// loadInitial applies cfg.Whitelist, cfg.Blocklist and reads dir if it exists.
func vkBuild(l vkList, dir string) *BlockList {
	cfg := &config.Config{Nullroute: vkNull4, Nullroutev6: vkNull6, BlockListDir: dir}
	cfg.Whitelist = append([]string{}, l.White...)
	for _, p := range l.Plain {
		cfg.Blocklist = append(cfg.Blocklist, p)
	}
	for _, w := range l.Wild {
		cfg.Blocklist = append(cfg.Blocklist, "*."+w)
	}
	b := &BlockList{
		nullroute:  net.ParseIP(cfg.Nullroute),
		null6route: net.ParseIP(cfg.Nullroutev6),
		m:          make(map[string]bool),
		wild:       make(map[string]bool),
		w:          make(map[string]bool),
		cfg:        cfg,
	}
	b.loadInitial()
	return b
}

// vkMem is the in-memory list as a sorted slice of file-form entries ("x." / "*.x.").
func vkMem(b *BlockList) []string {
	out := make([]string, 0, len(b.m)+len(b.wild))
	for k := range b.m {
		out = append(out, k)
	}
	for k := range b.wild {
		out = append(out, "*."+k)
	}
	sort.Strings(out)
	return out
}

// ---------------------------------------------------------------- ServeDNS rig

type vkTransport struct {
	*mock.Writer
	writes int
	last   *dns.Msg
	raw    bool
}

func (t *vkTransport) WriteMsg(m *dns.Msg) error {
	t.writes++
	t.last = m
	return nil
}

func (t *vkTransport) Write(b []byte) (int, error) {
	t.writes++
	t.raw = true
	t.last = new(dns.Msg)
	_ = t.last.Unpack(b)
	return len(b), nil
}

type vkRig struct {
	cur          *BlockList
	ch           *middleware.Chain
	tr           *vkTransport
	nextCalls    int
	writesAtNext int
	reqAtNext    *dns.Msg
	sentinel     *dns.Msg
	// wire: the query arrives the way the UDP/TCP engines hand it on — parsed from its packet and not yet
	// decoded (Request.ParseWire + Chain.ResetWire) — instead of as a decoded message
	wire bool
}

func vkNewRig() *vkRig {
	r := &vkRig{tr: &vkTransport{Writer: mock.NewWriter("udp", "198.51.100.7:4242")}}
	bl := middleware.HandlerFunc(func(ctx context.Context, ch *middleware.Chain) { r.cur.ServeDNS(ctx, ch) })
	// stands for "cache / upstream": everything after the blocklist in the pipeline
	next := middleware.HandlerFunc(func(ctx context.Context, ch *middleware.Chain) {
		r.nextCalls++
		r.writesAtNext = r.tr.writes
		r.reqAtNext = ch.Request.Msg()
		_ = ch.Writer.WriteMsg(r.sentinel)
	})
	r.ch = middleware.NewChain([]middleware.Handler{bl, next})
	return r
}

func vkTypeClass(qt uint16) string {
	switch qt {
	case dns.TypeA:
		return "A"
	case dns.TypeAAAA:
		return "AAAA"
	}
	return "other"
}

// vkServe runs one query through [blocklist, next] and judges the reply.
// Returns (violation or "", outcome label).
func (r *vkRig) vkServe(b *BlockList, qname string, qtype uint16, wantBlocked bool) (string, string) {
	req := new(dns.Msg)
	req.Id = 0x4c18
	req.RecursionDesired = true
	req.Question = []dns.Question{{Name: qname, Qtype: qtype, Qclass: dns.ClassINET}}
	r.cur = b
	r.tr.writes, r.tr.last, r.tr.raw = 0, nil, false
	r.nextCalls, r.writesAtNext, r.reqAtNext = 0, 0, nil
	r.sentinel = &dns.Msg{MsgHdr: dns.MsgHdr{Id: 0x7e57, Response: true, Rcode: dns.RcodeRefused}}
	if r.wire {
		raw, err := req.Pack()
		if err != nil {
			return "", "wire-unpackable" // a name with no wire form cannot arrive in a packet
		}
		wreq := new(middleware.Request)
		if !wreq.ParseWire(raw, time.Now(), nil) {
			return "", "wire-unparsable"
		}
		r.ch.ResetWire(r.tr, wreq)
	} else {
		r.ch.Reset(r.tr, req)
	}
	r.ch.Next(context.Background())
	r.ch.Finish()

	if len(req.Question) != 1 || req.Question[0].Name != qname || req.Question[0].Qtype != qtype || req.Id != 0x4c18 {
		return fmt.Sprintf("the request message was modified: %v", req.Question), "req-modified"
	}
	if !wantBlocked {
		if r.nextCalls != 1 {
			return fmt.Sprintf("name is not blocked but the next handler ran %d times (want exactly 1)", r.nextCalls), "pass-broken"
		}
		if r.writesAtNext != 0 {
			return "name is not blocked but a response had already been written when the next handler ran", "pass-broken"
		}
		if !r.wire && r.reqAtNext != req {
			return "name is not blocked but the next handler saw a different request message", "pass-broken"
		}
		if r.wire && (r.reqAtNext == nil || len(r.reqAtNext.Question) != 1 || r.reqAtNext.Question[0] != req.Question[0] || r.reqAtNext.Id != req.Id) {
			return "name is not blocked but the next handler saw a different question than the packet carried", "pass-broken"
		}
		if r.tr.writes != 1 || r.tr.last != r.sentinel || r.sentinel.Rcode != dns.RcodeRefused || r.sentinel.Id != 0x7e57 ||
			len(r.sentinel.Answer) != 0 || len(r.sentinel.Ns) != 0 || len(r.sentinel.Extra) != 0 {
			return "name is not blocked but the downstream response was altered / duplicated", "pass-broken"
		}
		return "", "pass/" + vkTypeClass(qtype)
	}
	if r.nextCalls != 0 {
		return fmt.Sprintf("name is blocked but the next handler (cache/upstream side) was reached %d times", r.nextCalls), "blocked-leak"
	}
	if r.tr.writes != 1 || r.tr.last == nil {
		return fmt.Sprintf("name is blocked but %d responses were written (want exactly 1)", r.tr.writes), "blocked-noreply"
	}
	m := r.tr.last
	if !m.Response || m.Id != req.Id || m.Rcode != dns.RcodeSuccess || !m.Authoritative {
		return fmt.Sprintf("blocked reply header wrong: response=%v id=%#x rcode=%s aa=%v (want response, same id, NOERROR, aa)",
			m.Response, m.Id, dns.RcodeToString[m.Rcode], m.Authoritative), "blocked-header"
	}
	if len(m.Question) != 1 || m.Question[0] != req.Question[0] {
		return fmt.Sprintf("blocked reply does not echo the question: %v", m.Question), "blocked-question"
	}
	switch qtype {
	case dns.TypeA:
		if len(m.Answer) != 1 {
			return fmt.Sprintf("blocked A query: %d answer records (want 1 null-route A)", len(m.Answer)), "blocked-A-bad"
		}
		a, ok := m.Answer[0].(*dns.A)
		if !ok || !strings.EqualFold(a.Hdr.Name, qname) || a.Hdr.Rrtype != dns.TypeA || a.Hdr.Class != dns.ClassINET || !a.A.Equal(net.ParseIP(vkNull4)) {
			return fmt.Sprintf("blocked A query answered with %v (want %s A %s)", m.Answer[0], qname, vkNull4), "blocked-A-bad"
		}
	case dns.TypeAAAA:
		if len(m.Answer) != 1 {
			return fmt.Sprintf("blocked AAAA query: %d answer records (want 1 null-route AAAA)", len(m.Answer)), "blocked-AAAA-bad"
		}
		a, ok := m.Answer[0].(*dns.AAAA)
		if !ok || !strings.EqualFold(a.Hdr.Name, qname) || a.Hdr.Rrtype != dns.TypeAAAA || a.Hdr.Class != dns.ClassINET || !a.AAAA.Equal(net.ParseIP(vkNull6)) {
			return fmt.Sprintf("blocked AAAA query answered with %v (want %s AAAA %s)", m.Answer[0], qname, vkNull6), "blocked-AAAA-bad"
		}
	default:
		if len(m.Answer) != 0 {
			return fmt.Sprintf("blocked %s query: answer section not empty: %v", dns.TypeToString[qtype], m.Answer), "blocked-other-bad"
		}
	}
	return "", "blocked/" + vkTypeClass(qtype)
}

// ---------------------------------------------------------------- one (list, query) case

type vkMatchCase struct {
	Unit  string `json:"unit"`
	List  vkList `json:"list"`
	Query string `json:"query"`
	Qtype uint16 `json:"qtype"` // 0 = Exists() only
	Wire  bool   `json:"wire,omitempty"`
}

// vkJudge runs one case on fresh objects; "" = property holds.
func vkJudge(cs vkMatchCase) string {
	b := vkBuild(cs.List, "/nonexistent/verif-c18")
	want := vkRefBlocked(cs.List, cs.Query)
	if cs.Qtype == 0 {
		if got := b.Exists(cs.Query); got != want {
			return fmt.Sprintf("list %v: Exists(%q) = %v, reference matcher says blocked=%v", cs.List, cs.Query, got, want)
		}
		return ""
	}
	rig := vkNewRig()
	rig.wire = cs.Wire
	v, _ := rig.vkServe(b, cs.Query, cs.Qtype, want)
	if v != "" && cs.Wire {
		v = "wire-born request: " + v
	}
	if v != "" {
		return fmt.Sprintf("list %v, query %s %s (reference: blocked=%v): %s", cs.List, cs.Query, dns.TypeToString[cs.Qtype], want, v)
	}
	return ""
}

// ---------------------------------------------------------------- the enumeration

type vkEntry struct {
	form int // 0 plain, 1 wildcard, 2 whitelist
	name int // index into entry names
}

type vkMatchCfg struct {
	entryDepth int      // list entries: names of depth 1..entryDepth
	upperDepth int      // entry names containing the upper-case label "B" only up to this depth (it canonicalises to "b")
	maxSize    int      // lists of 0..maxSize entries
	serveAll   int      // lists of size <= serveAll: ServeDNS on every query x every qtype in qtypes
	serveDepth int      // larger lists: ServeDNS on queries of depth <= serveDepth, one qtype per case (rotating)
	qtypes     []uint16 // full set
	label      string
}

func vkRunMatch(c *vkit.Ctx, cfg vkMatchCfg, queries []string, qdepth []int) {
	var names []string
	for _, n := range vkNames(cfg.entryDepth, false) {
		if strings.Contains(n, "B") && len(vkLabelsOf(n)) > cfg.upperDepth {
			continue
		}
		names = append(names, n)
	}
	var entries []vkEntry
	// simplest first: by name (shallow first), then form
	for ni := range names {
		for f := 0; f < 3; f++ {
			entries = append(entries, vkEntry{form: f, name: ni})
		}
	}
	// reference cover table: cover[name][query] via the label-slice matcher
	qlabels := make([][]string, len(queries))
	for i, q := range queries {
		qlabels[i] = vkLabelsOf(q)
	}
	cover := make([][]uint8, len(names))
	for ni, n := range names {
		el := vkLabelsOf(n)
		cover[ni] = make([]uint8, len(queries))
		for qi := range queries {
			cover[ni][qi] = uint8(vkCovers(el, qlabels[qi]))
		}
	}
	rig := vkNewRig()
	c.Note(fmt.Sprintf("match[%s]: %d entry names (depth<=%d, mixed-case label only in names of depth<=%d) x 3 forms = %d entries, lists of <=%d entries, %d query names (depth<=4 incl. root); ServeDNS on all queries x %d qtypes for lists of <=%d entries, on queries of depth<=%d (rotating qtype) for larger lists",
		cfg.label, len(names), cfg.entryDepth, cfg.upperDepth, len(entries), cfg.maxSize, len(queries), len(cfg.qtypes), cfg.serveAll, cfg.serveDepth))

	idx := make([]int, 0, cfg.maxSize)
	want := make([]bool, len(queries))
	var listNo int64
	stop := false

	report := func(cs vkMatchCase, msg string) {
		// confirm on fresh objects
		again := vkJudge(cs)
		if again == "" {
			c.HarnessError("match violation did not reproduce on fresh objects: " + msg)
			stop = true
			return
		}
		key := fmt.Sprintf("match:%v|%s|%s", cs.List, cs.Query, vkQT(cs.Qtype))
		if cs.Wire {
			key += "|wire-born"
		}
		c.Violation(key, again, cs)
		if c.NumViolations() >= 12 {
			stop = true
		}
	}

	evalList := func() {
		listNo++
		var l vkList
		for _, ei := range idx {
			e := entries[ei]
			switch e.form {
			case 0:
				l.Plain = append(l.Plain, names[e.name])
			case 1:
				l.Wild = append(l.Wild, names[e.name])
			default:
				l.White = append(l.White, names[e.name])
			}
		}
		b := vkBuild(l, "/nonexistent/verif-c18")
		nBlocked := 0
		for qi := range queries {
			w := false
			white := false
			for _, ei := range idx {
				e := entries[ei]
				cv := cover[e.name][qi]
				switch e.form {
				case 0:
					w = w || cv != 0
				case 1:
					w = w || cv == 2
				default:
					white = white || cv != 0
				}
			}
			w = w && !white
			want[qi] = w
			if w {
				nBlocked++
			}
		}
		c.DistinctStr("states", "match|"+strings.Join(vkMem(b), ",")+"|"+strings.Join(l.White, ","))
		if nBlocked > 0 && nBlocked < len(queries) {
			c.DistinctStr("nontrivial", "match|"+l.String())
		}
		if listNo%40009 == 1 {
			c.Sample(map[string]any{"unit": "match", "list": l.String(), "blocked_names": nBlocked, "of": len(queries)})
		}
		var ev, exT, exF int64
		for qi, q := range queries {
			got := b.Exists(q)
			ev++
			if got {
				exT++
			} else {
				exF++
			}
			if got != want[qi] {
				report(vkMatchCase{Unit: "match", List: l, Query: q}, "")
				if stop {
					return
				}
				continue
			}
			if len(idx) <= cfg.serveAll {
				for _, qt := range cfg.qtypes {
					for _, wire := range []bool{false, true} {
						rig.wire = wire
						v, o := rig.vkServe(b, q, qt, want[qi])
						rig.wire = false
						ev++
						if wire {
							o = "wire:" + o
						}
						c.Outcome("serve:" + o)
						if v != "" {
							report(vkMatchCase{Unit: "match", List: l, Query: q, Qtype: qt, Wire: wire}, v)
							if stop {
								return
							}
						}
					}
				}
			} else if qdepth[qi] <= cfg.serveDepth {
				qt := cfg.qtypes[(int(listNo)+qi)%len(cfg.qtypes)]
				for _, wire := range []bool{false, true} {
					rig.wire = wire
					v, o := rig.vkServe(b, q, qt, want[qi])
					rig.wire = false
					ev++
					if wire {
						o = "wire:" + o
					}
					c.Outcome("serve:" + o)
					if v != "" {
						report(vkMatchCase{Unit: "match", List: l, Query: q, Qtype: qt, Wire: wire}, v)
						if stop {
							return
						}
					}
				}
			}
		}
		if exT > 0 {
			c.Outcome("exists:true")
		}
		if exF > 0 {
			c.Outcome("exists:false")
		}
		c.Add("evaluations", ev)
		c.Add("exists_true", exT)
		c.Add("exists_false", exF)
		c.Add("lists", 1)
	}

	var rec func(start int)
	rec = func(start int) {
		if stop {
			return
		}
		evalList()
		if len(idx) == cfg.maxSize {
			return
		}
		if len(idx) <= 1 && c.OverBudget() {
			c.Cap("match[" + cfg.label + "]: time budget reached")
			stop = true
			return
		}
		for i := start; i < len(entries) && !stop; i++ {
			idx = append(idx, i)
			rec(i + 1)
			idx = idx[:len(idx)-1]
		}
	}
	if c.Shard() == 0 {
		evalList() // the empty list
	}
	for i := 0; i < len(entries) && !stop; i++ {
		if !c.Mine(i) { // shard by the first (smallest) entry of the list
			continue
		}
		idx = append(idx[:0], i)
		rec(i + 1)
		idx = idx[:0]
	}
	c.Outcome("lists-of<=" + fmt.Sprint(cfg.maxSize) + "/" + cfg.label)
}

func vkQT(qt uint16) string {
	if qt == 0 {
		return "Exists"
	}
	return dns.TypeToString[qt]
}

func TestVerifC18Match(t *testing.T) {
	c := vkit.Init("C18/match")
	defer c.Close()
	vkQuietLogs()
	if c.Replay != nil {
		var cs vkMatchCase
		if err := json.Unmarshal(c.Replay, &cs); err != nil {
			c.HarnessError("bad replay: " + err.Error())
			return
		}
		if v := vkJudge(cs); v != "" {
			c.Violation(fmt.Sprintf("match:%v|%s|%s", cs.List, cs.Query, vkQT(cs.Qtype)), v, nil)
		}
		return
	}
	queries := vkNames(4, true)
	qdepth := make([]int, len(queries))
	for i, q := range queries {
		qdepth[i] = len(vkLabelsOf(q))
	}
	qtFull := []uint16{dns.TypeA, dns.TypeAAAA, dns.TypeMX, dns.TypeHTTPS, dns.TypeANY}
	if c.Quick() {
		vkRunMatch(c, vkMatchCfg{entryDepth: 3, upperDepth: 2, maxSize: 3, serveAll: 2, serveDepth: 1, qtypes: qtFull, label: "d3u2s3"}, queries, qdepth)
	} else {
		vkRunMatch(c, vkMatchCfg{entryDepth: 3, upperDepth: 3, maxSize: 3, serveAll: 2, serveDepth: 3, qtypes: qtFull, label: "d3s3"}, queries, qdepth)
		vkRunMatch(c, vkMatchCfg{entryDepth: 2, upperDepth: 2, maxSize: 4, serveAll: 0, serveDepth: 2, qtypes: qtFull, label: "d2s4"}, queries, qdepth)
	}
	// Exists must also accept the non-FQDN spelling of a name (API callers pass raw path params)
	for _, l := range []vkList{{Plain: []string{"a.b."}}, {Wild: []string{"b."}, White: []string{"a.b."}}} {
		if !c.Mine(0) {
			break
		}
		b := vkBuild(l, "/nonexistent/verif-c18")
		for _, q := range queries {
			if q == "." {
				continue
			}
			c.Add("evaluations", 1)
			if got, want := b.Exists(strings.TrimSuffix(q, ".")), vkRefBlocked(l, q); got != want {
				c.Violation(fmt.Sprintf("match:%v|%s|Exists-nofqdn", l, q), fmt.Sprintf("list %v: Exists(%q) = %v, reference says %v", l, strings.TrimSuffix(q, "."), got, want), nil)
			}
		}
	}
}
