//go:build verif

package blocklist

// C18 unit "refresh": the API mutations race the ONE-OFF START-UP REFRESH. New() starts
// `go b.refreshRemote()`, which about a second after start (later when remote lists are
// being fetched: up to the HTTP timeout) walks the blocklist directory once more with
// readBlocklists() — while the HTTP API is already serving Set / Remove / SetBatch /
// RemoveBatch. The statement speaks of "any interleaving of API additions, removals and
// batch updates": the refresh is sdns's own background task and must not break what those
// calls promise. Every schedule (preemption bounded) of one refresh thread — the body
// refreshRemote runs with no remote lists configured — against one or two API threads, on
// the real code with mu, saveMu and every file operation as scheduling points; the refresh
// is a no-op in the reference (the directory was loaded synchronously by New), so at
// quiescence the in-memory list must be explained by an order of the API operations alone,
// the persisted list must reload to exactly the in-memory list and the file on disk must at
// every point be the last complete list — the persist unit's oracle, unchanged.

import (
	"encoding/json"
	"fmt"
	"os"
	"strings"
	"testing"

	"github.com/semihalev/sdns/internal/verifshim/sched"
	"github.com/semihalev/sdns/internal/verifshim/vkit"
	"github.com/semihalev/sdns/internal/verifshim/vos"
)

func vkRefreshScenarios(thorough bool) []vkPScenario {
	ops := vkPersistOps(thorough)
	refresh := vkPOp{Op: "refresh"}
	prefills := [][]string{{"b.", "notb."}, nil, {"a.b.", "*.b."}}
	bound := 2
	if thorough {
		bound = 3
	}
	var out []vkPScenario
	for _, p := range prefills {
		for a := 0; a < len(ops); a++ {
			out = append(out, vkPScenario{Bound: bound, White: vkWhite, Prefill: p, Threads: []vkPOp{refresh, ops[a]}})
		}
	}
	tp := prefills[:1]
	if thorough {
		tp = prefills
	}
	for _, p := range tp {
		for a := 0; a < len(ops); a++ {
			for b := a; b < len(ops); b++ {
				out = append(out, vkPScenario{Bound: 2, White: vkWhite, Prefill: p, Threads: []vkPOp{refresh, ops[a], ops[b]}})
			}
		}
	}
	// first start: the directory does not exist until the refresh creates it, and the API is already serving
	for a := 0; a < len(ops); a++ {
		out = append(out, vkPScenario{Bound: bound, White: vkWhite, Fresh: true, Threads: []vkPOp{refresh, ops[a]}})
	}
	for a := 0; a < len(ops); a++ {
		for b := a; b < len(ops); b++ {
			out = append(out, vkPScenario{Bound: 2, White: vkWhite, Fresh: true, Threads: []vkPOp{refresh, ops[a], ops[b]}})
		}
	}
	for i := range out {
		out[i].Name = fmt.Sprintf("refresh-%d", i)
	}
	return out
}

func TestVerifC18Refresh(t *testing.T) {
	c := vkit.Init("C18/refresh")
	defer c.Close()
	vkQuietLogs()
	base := vkBaseDir()
	defer os.RemoveAll(base)
	defer func() { vos.Plan = nil }()
	side := &vkPSide{base: base, cache: map[string]vkReloadVerdict{}}
	if c.Replay != nil {
		var r struct {
			Scenario vkPScenario `json:"scenario"`
			Choices  []int       `json:"choices"`
		}
		if err := json.Unmarshal(c.Replay, &r); err != nil {
			c.HarnessError("bad replay: " + err.Error())
			return
		}
		run, v, _ := sched.RunOnce(sched.Config{Name: r.Scenario.Name, KeepTrace: true, Horizon: 5000}, vkPersistScenarioFn(r.Scenario, side), r.Choices)
		if run.Diverged != "" {
			c.HarnessError("replay diverged: " + run.Diverged)
			return
		}
		if v != "" {
			c.Violation("refresh:replay", v+"\n  trace: "+strings.Join(run.Trace, " "), nil)
		}
		return
	}
	scs := vkRefreshScenarios(c.Thorough())
	c.Note(fmt.Sprintf("refresh: %d scenarios (the start-up refresh against 1 and 2 single-operation API threads over %d operations)", len(scs), len(vkPersistOps(c.Thorough()))))
	for i, sc := range scs {
		if !c.Mine(i) {
			continue
		}
		if c.OverBudget() {
			c.Cap(fmt.Sprintf("refresh: time budget reached after scenario %d of %d in this shard's stride", i, len(scs)))
			break
		}
		res := sched.Explore(sched.Config{Name: sc.Name, Bound: sc.Bound, Horizon: 5000, Stop: c.OverBudget}, vkPersistScenarioFn(sc, side))
		if res.HarnessErr != "" {
			c.HarnessError(res.HarnessErr)
			return
		}
		c.Add("evaluations", int64(res.Executions))
		c.Add("traces", int64(res.Executions))
		c.Add("transitions", int64(res.Points))
		c.Add("scenarios", 1)
		c.Max("max_points", int64(res.MaxPoints))
		if !res.Exhaustive {
			c.Cap("refresh: exploration of " + sc.Name + " stopped by the time budget")
		}
		for o := range res.Outcomes {
			if c.DistinctStr("states", "refresh|"+sc.String()+"|"+o) && len(res.Outcomes) > 1 {
				c.DistinctStr("nontrivial", "refresh|"+sc.String()+"|"+o)
			}
		}
		c.Outcome(fmt.Sprintf("refresh:threads=%d bound=%d outcomes=%d", len(sc.Threads), sc.Bound, len(res.Outcomes)))
		if i%17 == 0 {
			c.Sample(map[string]any{"unit": "refresh", "scenario": sc.String(), "schedules": res.Executions, "distinct_outcomes": len(res.Outcomes), "max_points": res.MaxPoints, "preemption_bound": sc.Bound})
		}
		for _, v := range res.Violations {
			// the key names the class and whether the API thread adds or removes, not the whole scenario
			kind := "add"
			if strings.HasPrefix(sc.Threads[1].Op, "remove") {
				kind = "remove"
			}
			c.Violation("refresh:"+kind+":"+vkFirstLine(v.Message), fmt.Sprintf("%s\n  scenario: %s\n  schedule=%v\n  trace: %s", v.Message, sc, v.Choices, strings.Join(v.Trace, " ")),
				map[string]any{"scenario": sc, "choices": v.Choices})
			break
		}
		if c.NumViolations() >= 8 {
			break
		}
	}
}
