//go:build verif

package blocklist

// C18 unit "crash": sequential histories of API operations on a real BlockList
// (checked step by step against a set model); the vos log of the LAST persisting
// operation is turned into every process-crash prefix image and every power-loss
// image (crashfs) and each image is judged: `local` is absent (only if it never
// existed), byte-identical to the previous complete file, or byte-identical to the
// complete new file, and a restart loads the directory without error. Then fault
// enumeration: the k-th file operation of that persistence fails, for every k.
// Finally a sequential persist -> restart round trip over all small lists.

import (
	"bytes"
	"encoding/json"
	"fmt"
	"os" // the REAL os
	"path/filepath"
	"sort"
	"strings"
	"testing"

	"github.com/semihalev/sdns/internal/verifshim/crashfs"
	"github.com/semihalev/sdns/internal/verifshim/vkit"
	"github.com/semihalev/sdns/internal/verifshim/vos"
)

type vkCHist struct {
	White []string `json:"white"`
	Ops   []vkPOp  `json:"ops"`
}

func (h vkCHist) String() string {
	s := make([]string, len(h.Ops))
	for i, o := range h.Ops {
		s[i] = o.String()
	}
	return fmt.Sprintf("white=%v [%s]", h.White, strings.Join(s, " "))
}

const vkStaleTempKey = "crash-stale-temp:leftover-temp-file-is-parsed-as-a-list-on-restart"

type vkCrashSide struct {
	base      string
	cache     map[string]vkReloadVerdict
	identity  string
	idState   []string
	idWhite   []string
	stale     string
	staleHist vkCHist
	staleAt   int
}

func vkSnapshotDir(dir string) map[string][]byte {
	m := map[string][]byte{}
	ents, _ := os.ReadDir(dir)
	for _, e := range ents {
		if e.IsDir() {
			continue
		}
		p := filepath.Join(dir, e.Name())
		if b, err := os.ReadFile(p); err == nil {
			m[p] = b
		}
	}
	return m
}

// vkImageDigest names temp files uniformly (their real names are random).
func vkImageDigest(img crashfs.Image, root string) (string, bool) {
	var parts []string
	temp := false
	for p, d := range img.Files {
		rel, _ := filepath.Rel(root, p)
		if rel != "local" {
			temp = true
			rel = "temp"
		}
		ents, ok, _ := vkParseLocal(d)
		parts = append(parts, fmt.Sprintf("%s:%d:%v:%v", rel, len(d), ok, ents))
	}
	sort.Strings(parts)
	return strings.Join(parts, ";"), temp
}

// vkRunPrefix replays ops on a fresh directory, checking every step against the
// set model. Returns the instance, the model, and a violation.
func vkRunPrefix(base string, white []string, ops []vkPOp) (string, *BlockList, vkModel, string) {
	dir, err := os.MkdirTemp(base, "c")
	if err != nil {
		panic("vk: " + err.Error())
	}
	b := vkBuild(vkList{White: white}, dir)
	model := vkModel{}
	for i, o := range ops {
		if v := vkStep(b, model, white, o); v != "" {
			return dir, b, model, fmt.Sprintf("step %d %v: %s", i, o, v)
		}
	}
	return dir, b, model, ""
}

func vkStep(b *BlockList, model vkModel, white []string, o vkPOp) string {
	got := vkApplyReal(b, o)
	want := model.apply(o, white)
	if got != want {
		return fmt.Sprintf("returned %d, the list model says %d", got, want)
	}
	if mem := vkMem(b); strings.Join(mem, " ") != strings.Join(model.sorted(), " ") {
		return fmt.Sprintf("in-memory list is %v, the list model says %v", mem, model.sorted())
	}
	return ""
}

// vkCrashHistory runs one history; returns (key suffix, message) of a violation or "".
func vkCrashHistory(c *vkit.Ctx, side *vkCrashSide, h vkCHist, power bool, count bool) (string, string) {
	n := len(h.Ops)
	last := h.Ops[n-1]
	dir, b, model, v := vkRunPrefix(side.base, h.White, h.Ops[:n-1])
	defer os.RemoveAll(dir)
	if v != "" {
		return "api-model", v
	}
	prevFiles := vkSnapshotDir(dir)
	localPath := filepath.Join(dir, "local")
	prevLocal, prevExists := prevFiles[localPath]
	prevEntries, _, _ := vkParseLocal(prevLocal)
	plan := vos.NewPlan()
	vos.Plan = plan
	v = vkStep(b, model, h.White, last)
	vos.Plan = nil
	if v != "" {
		return "api-model", fmt.Sprintf("step %d %v: %s", n-1, last, v)
	}
	log := plan.Log
	if count {
		c.Add("traces", 1)
		c.Add("transitions", int64(len(log)))
	}
	if len(log) == 0 {
		if count {
			c.Outcome("crash:last-op-persists-nothing")
		}
		// nothing was written: the previous file must be untouched
		if now, ok := vkReadLocal(dir); ok != prevExists || !bytes.Equal(now, prevLocal) {
			return "noop-touched-file", "an operation that changed nothing rewrote the persisted list"
		}
		return "", ""
	}
	newLocal, newExists := vkReadLocal(dir)
	if !newExists {
		return "no-file", fmt.Sprintf("after %v completed there is no persisted list", last)
	}
	newEntries, _, _ := vkParseLocal(newLocal)
	// quiescent oracle (same as unit persist)
	verdict := vkReloadOracle(side.base, dir, b, h.White, side.cache)
	if verdict.behaviour != "" {
		return "reload", verdict.behaviour
	}
	if verdict.identity != "" && side.identity == "" {
		side.identity, side.idState, side.idWhite = verdict.identity, vkMem(b), h.White
	}

	// ---- crash images
	images := crashfs.ProcessCrash(log, prevFiles)
	if power {
		pl, complete := crashfs.PowerLoss(log, prevFiles, 4000)
		if !complete {
			c.Cap("crash: power-loss image cap (4000) hit for " + h.String())
		}
		images = append(images, pl...)
	}
	checked := map[string]bool{}
	for _, img := range images {
		dg, hasTemp := vkImageDigest(img, dir)
		if checked[dg] {
			continue
		}
		checked[dg] = true
		if count {
			c.Add("evaluations", 1)
			c.DistinctStr("states", "crash|"+h.String()+"|"+dg)
			if img.Prefix > 0 && img.Prefix < len(log) && hasTemp {
				c.DistinctStr("nontrivial", "crash|"+h.String()+"|"+dg)
			}
		}
		local, has := img.Files[localPath]
		label := ""
		switch {
		case !has:
			if prevExists {
				return "vanished", fmt.Sprintf("%s: the persisted list does not exist although a complete previous one did", img.Desc)
			}
			label = "absent"
		case prevExists && bytes.Equal(local, prevLocal):
			label = "previous"
		case bytes.Equal(local, newLocal):
			label = "new"
		default:
			prevDesc := "(none existed)"
			if prevExists {
				prevDesc = fmt.Sprintf("%q", prevLocal)
			}
			return "partial", fmt.Sprintf("%s: the persisted list is %q — neither the previous complete file %s nor the complete new file %q", img.Desc, local, prevDesc, newLocal)
		}
		if count {
			c.Outcome("crash:local=" + label)
		}
		d2, err := os.MkdirTemp(side.base, "m")
		if err != nil {
			panic("vk: " + err.Error())
		}
		if err := crashfs.Materialize(img, dir, d2); err != nil {
			panic("vk: " + err.Error())
		}
		fresh, err := vkLoad(d2, h.White)
		if err != nil {
			_ = os.RemoveAll(d2)
			return "restart-error", fmt.Sprintf("%s: restart cannot load the blocklist directory: %v", img.Desc, err)
		}
		// secondary (separately keyed): what a restart makes of a left-over temp file
		if hasTemp && side.stale == "" {
			old := vkSameBehaviour(fresh, nil, prevEntries, h.White)
			nw := vkSameBehaviour(fresh, nil, newEntries, h.White)
			msg := ""
			if old != "" && nw != "" {
				msg = fmt.Sprintf("%s: `local` is the intact previous file, yet a restart parses the left-over temp file too and ends up with %v — neither the previous list %v nor the new list %v. ", img.Desc, vkMem(fresh), prevEntries, newEntries)
			}
			// remove everything through the API of the restarted instance, restart again
			had := vkMem(fresh)
			fresh.RemoveBatch(had)
			if f3, err := vkLoad(d2, h.White); err == nil {
				if back := vkMem(f3); len(back) > 0 {
					msg += fmt.Sprintf("%s: after the restart loaded %v and RemoveBatch(%v) completed (persisted list now empty), the next restart blocks %v again — read from the left-over %s that nothing ever deletes", img.Desc, had, had, back, vkTempNames(d2))
				}
			}
			if msg != "" {
				side.stale, side.staleHist, side.staleAt = msg, h, img.Prefix
			}
		}
		_ = os.RemoveAll(d2)
	}

	// ---- fault enumeration: the k-th file operation of the last persistence fails
	for _, short := range []bool{false, true} {
		for k := 0; ; k++ {
			d3, b3, m3, v := vkRunPrefix(side.base, h.White, h.Ops[:n-1])
			if v != "" {
				_ = os.RemoveAll(d3)
				return "api-model", v
			}
			prev3, prevExists3 := vkReadLocal(d3)
			p := vos.NewPlan()
			p.FailAt = k
			p.ShortWrite = short
			vos.Plan = p
			v = vkStep(b3, m3, h.White, last)
			vos.Plan = nil
			failed := ""
			for _, op := range p.Log {
				if op.Fail {
					failed = op.Kind
				}
			}
			if failed == "" || (short && failed != "write") {
				_ = os.RemoveAll(d3)
				if failed == "" {
					break
				}
				continue
			}
			if count {
				c.Add("evaluations", 1)
				c.Add("traces", 1)
				c.Add("transitions", int64(len(p.Log)))
				c.Add("fault_runs", 1)
				c.Outcome("fault@" + failed)
			}
			key, msg := "", ""
			now, nowExists := vkReadLocal(d3)
			switch {
			case v != "":
				key, msg = "fault-memory", fmt.Sprintf("with the %s of persist failing: %s", failed, v)
			case nowExists != prevExists3 && !nowExists:
				key, msg = "fault-vanished", fmt.Sprintf("the %s of persist failed and the previous persisted list is gone", failed)
			case !bytes.Equal(now, prev3):
				if ents, ok, _ := vkParseLocal(now); !ok || strings.Join(ents, " ") != strings.Join(vkMem(b3), " ") {
					key, msg = "fault-partial", fmt.Sprintf("the %s of persist failed and the persisted list is %q — neither the previous complete file %q nor a complete list of memory %v", failed, now, prev3, vkMem(b3))
				}
			}
			if key == "" {
				if _, err := vkLoad(d3, h.White); err != nil {
					key, msg = "fault-restart-error", fmt.Sprintf("the %s of persist failed; restart cannot load the directory: %v", failed, err)
				}
			}
			if key == "" {
				// a later successful persist must converge
				follow := vkPOp{Op: "set", Keys: []string{"a.a.a."}}
				if v := vkStep(b3, m3, h.White, follow); v != "" {
					key, msg = "fault-memory", "follow-up "+follow.String()+": "+v
				} else if vd := vkReloadOracle(side.base, d3, b3, h.White, map[string]vkReloadVerdict{}); vd.behaviour != "" {
					key, msg = "fault-converge", fmt.Sprintf("the %s of persist failed once; after the next successful update: %s", failed, vd.behaviour)
				}
			}
			_ = os.RemoveAll(d3)
			if key != "" {
				return fmt.Sprintf("%s@%d", key, k), msg
			}
		}
	}
	return "", ""
}

func vkTempNames(dir string) []string {
	var n []string
	ents, _ := os.ReadDir(dir)
	for _, e := range ents {
		if e.Name() != "local" {
			n = append(n, e.Name())
		}
	}
	return n
}

func vkCrashOps(thorough bool) []vkPOp {
	ops := []vkPOp{
		{Op: "set", Keys: []string{"a.b."}},
		{Op: "set", Keys: []string{"b."}},
		{Op: "set", Keys: []string{"*.b."}},
		{Op: "set", Keys: []string{"notb."}},
		{Op: "remove", Keys: []string{"b."}},
		{Op: "remove", Keys: []string{"a.b."}},
		{Op: "setbatch", Keys: []string{"a.b.", "B.", "*.notb."}},
		{Op: "removebatch", Keys: []string{"b.", "*.b."}},
		{Op: "removebatch", Keys: []string{"a.b.", "notb."}},
	}
	if thorough {
		ops = append(ops,
			vkPOp{Op: "set", Keys: []string{"b.a.notb."}}, // whitelisted
			vkPOp{Op: "setbatch", Keys: []string{"notb", "b.a.notb."}},
			vkPOp{Op: "remove", Keys: []string{"*.B."}},
			vkPOp{Op: "set", Keys: []string{"a.a.b."}},
		)
	}
	return ops
}

func vkCrashHistories(thorough bool) []vkCHist {
	ops := vkCrashOps(thorough)
	maxLen := 3
	if thorough {
		maxLen = 4
	}
	var out []vkCHist
	var rec func(cur []vkPOp)
	rec = func(cur []vkPOp) {
		if len(cur) > 0 {
			out = append(out, vkCHist{White: vkWhite, Ops: append([]vkPOp{}, cur...)})
		}
		if len(cur) == maxLen {
			return
		}
		for _, o := range ops {
			rec(append(cur, o))
		}
	}
	rec(nil)
	// shortest first
	sort.SliceStable(out, func(i, j int) bool { return len(out[i].Ops) < len(out[j].Ops) })
	return out
}

// vkRoundTrip: persist -> restart for every list of <= maxSize entries (plain and
// wildcard forms over names of depth <= depth), built by one SetBatch.
func vkRoundTrip(c *vkit.Ctx, side *vkCrashSide, depth, maxSize int) {
	names := vkNames(depth, false)
	var entries []string
	for _, n := range names {
		entries = append(entries, n, "*."+n)
	}
	c.Note(fmt.Sprintf("roundtrip: all lists of <=%d entries over %d entries (plain + wildcard forms of names of depth<=%d), whitelist %v", maxSize, len(entries), depth, vkWhite))
	var idx []int
	stop := false
	eval := func() {
		keys := make([]string, len(idx))
		for i, e := range idx {
			keys[i] = entries[e]
		}
		dir, b, _, v := vkRunPrefix(side.base, vkWhite, []vkPOp{{Op: "setbatch", Keys: keys}})
		defer os.RemoveAll(dir)
		c.Add("evaluations", 1)
		c.Add("traces", 1)
		c.Add("transitions", 1)
		if v == "" {
			vd := vkReloadOracle(side.base, dir, b, vkWhite, side.cache)
			v = vd.behaviour
			if vd.identity != "" {
				c.Outcome("roundtrip:members-differ-after-restart")
				if side.identity == "" {
					side.identity, side.idState, side.idWhite = vd.identity, vkMem(b), vkWhite
				}
			} else {
				c.Outcome("roundtrip:identical")
			}
			if c.DistinctStr("states", "roundtrip|"+strings.Join(vkMem(b), " ")) && len(b.m)+len(b.wild) >= 2 {
				c.DistinctStr("nontrivial", "roundtrip|"+strings.Join(vkMem(b), " "))
			}
		}
		if v != "" {
			h := vkCHist{White: vkWhite, Ops: []vkPOp{{Op: "setbatch", Keys: keys}}}
			c.Violation("roundtrip:"+h.String()+":"+vkFirstLine(v), v, map[string]any{"unit": "crash", "hist": h})
			if c.NumViolations() >= 8 {
				stop = true
			}
		}
	}
	var rec func(start int)
	rec = func(start int) {
		if stop {
			return
		}
		eval()
		if len(idx) == maxSize {
			return
		}
		for i := start; i < len(entries) && !stop; i++ {
			idx = append(idx, i)
			rec(i + 1)
			idx = idx[:len(idx)-1]
		}
	}
	for i := 0; i < len(entries) && !stop; i++ {
		if !c.Mine(i) {
			continue
		}
		if c.OverBudget() {
			c.Cap("roundtrip: time budget reached")
			return
		}
		idx = append(idx[:0], i)
		rec(i + 1)
		idx = idx[:0]
	}
}

func TestVerifC18Crash(t *testing.T) {
	c := vkit.Init("C18/crash")
	defer c.Close()
	vkQuietLogs()
	base := vkBaseDir()
	defer os.RemoveAll(base)
	defer func() { vos.Plan = nil }()
	side := &vkCrashSide{base: base, cache: map[string]vkReloadVerdict{}}
	if c.Replay != nil {
		var r struct {
			Unit    string   `json:"unit"`
			Hist    vkCHist  `json:"hist"`
			Entries []string `json:"entries"`
			White   []string `json:"white"`
		}
		if err := json.Unmarshal(c.Replay, &r); err != nil {
			c.HarnessError("bad replay: " + err.Error())
			return
		}
		switch r.Unit {
		case "identity":
			if v := vkIdentityReplay(base, r.Entries, r.White); v != "" {
				c.Violation(vkIdentityKey, v, nil)
			}
		case "stale":
			vkCrashHistory(c, side, r.Hist, true, false)
			if side.stale != "" {
				c.Violation(vkStaleTempKey, side.stale, nil)
			}
		default:
			if k, v := vkCrashHistory(c, side, r.Hist, true, false); v != "" {
				c.Violation("crash:"+r.Hist.String()+":"+k, v, nil)
			}
		}
		return
	}
	hs := vkCrashHistories(c.Thorough())
	c.Note(fmt.Sprintf("crash: %d sequential histories (all sequences of 1-3 (thorough 1-4) operations over %d), process-crash prefixes + power-loss images + fault at every file operation (plain and short-write) of the last persistence", len(hs), len(vkCrashOps(c.Thorough()))))
	for i, h := range hs {
		if !c.Mine(i) {
			continue
		}
		if c.OverBudget() {
			c.Cap(fmt.Sprintf("crash: time budget reached at history %d of %d", i, len(hs)))
			break
		}
		k, v := vkCrashHistory(c, side, h, true, true)
		if v != "" {
			// confirm on fresh objects
			k2, v2 := vkCrashHistory(c, side, h, true, false)
			if v2 == "" || k2 != k {
				c.HarnessError(fmt.Sprintf("crash violation did not reproduce for %v: %s", h, v))
				return
			}
			c.Violation("crash:"+h.String()+":"+k, h.String()+": "+v, map[string]any{"unit": "crash", "hist": h})
			if c.NumViolations() >= 8 {
				break
			}
		}
		if i%211 == 0 {
			c.Sample(map[string]any{"unit": "crash", "history": h.String()})
		}
	}
	if c.Quick() {
		vkRoundTrip(c, side, 2, 3)
	} else {
		vkRoundTrip(c, side, 3, 2)
		vkRoundTrip(c, side, 2, 4)
	}
	if side.identity != "" {
		if v := vkIdentityReplay(base, side.idState, side.idWhite); v != "" {
			c.Violation(vkIdentityKey, v, map[string]any{"unit": "identity", "entries": side.idState, "white": side.idWhite})
		} else {
			c.HarnessError("reload-identity counterexample did not reproduce: " + side.identity)
		}
	}
	if side.stale != "" {
		s2 := &vkCrashSide{base: base, cache: map[string]vkReloadVerdict{}}
		vkCrashHistory(c, s2, side.staleHist, true, false)
		if s2.stale == "" {
			c.HarnessError("stale-temp counterexample did not reproduce: " + side.stale)
		} else {
			c.Violation(vkStaleTempKey, side.staleHist.String()+": "+side.stale, map[string]any{"unit": "stale", "hist": side.staleHist})
		}
	}
}
