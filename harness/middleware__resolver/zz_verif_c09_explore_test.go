//go:build verif

package resolver

// C09 — the two explorers: TestVerifC09Hist (BFS over event histories) and
// TestVerifC09Crash (every crash image of the persistence log of a refresh,
// for every state the BFS reaches within a smaller depth).

import (
	"encoding/json"
	"fmt"
	"strings"
	"testing"
	"time"

	"github.com/semihalev/sdns/internal/verifshim/vkit"
	"github.com/semihalev/sdns/internal/verifshim/vtime"
)

type vkC09ReplayT struct {
	Hist  []vkC09Ev `json:"hist"`
	Crash bool      `json:"crash,omitempty"`
	Power bool      `json:"power,omitempty"`
}

type vkC09Node struct {
	hist    []vkC09Ev
	faulted bool
}

func vkC09Nontrivial(w *vkC09World, o vkC09Obs) bool {
	return w.faults > 0 || !(len(o.I) == 1 && o.I["K1"])
}

func vkC09DoReplay(c *vkit.Ctx) {
	var r vkC09ReplayT
	if err := json.Unmarshal(c.Replay, &r); err != nil {
		c.HarnessError("bad replay: " + err.Error())
		return
	}
	v, w, _ := vkC09Replay(r.Hist)
	if v == nil && r.Crash {
		v = vkC09CrashExpand(c, r.Hist, w, r.Power)
	}
	if w != nil {
		w.stop()
	}
	if v != nil {
		if v.Key == "harness" {
			c.HarnessError(v.Msg)
			return
		}
		c.Violation(v.Key, "after ["+vkC09HistStr(r.Hist)+"]: "+v.Msg, r)
	}
}

// vkC09BFS explores event histories breadth-first with state-digest deduplication. With report it
// is the checking explorer (sharded on the first two events, violations reported after a fresh
// re-run); without it it only enumerates the reachable states (identically in every shard).
// vkC09BFSPrefix, when set, is the history every searched history starts with (search from a
// non-initial state); depths count the events after it.
var vkC09BFSPrefix []vkC09Ev

func vkC09BFS(c *vkit.Ctx, evs []vkC09Ev, maxDepth int, report bool) (all []vkC09Node, ok bool) {
	seen := map[string]bool{}
	frontier := []vkC09Node{{hist: append([]vkC09Ev{}, vkC09BFSPrefix...)}}
	all = append(all, frontier[0])
	start := time.Now()
	for depth := 1; depth <= maxDepth && len(frontier) > 0; depth++ {
		var next []vkC09Node
		for ni, n := range frontier {
			for ei, ev := range evs {
				// shard on the (first, second) event pair; depth 1 is replayed by every shard
				if report && depth == 2 && !c.Mine(ni*len(evs)+ei) {
					continue
				}
				if n.faulted && (ev.isFault() || ev.Kind == "corrupt") {
					continue // at most one injected fault per history (a crash may still follow)
				}
				if c.OverBudget() {
					c.Cap(fmt.Sprintf("time budget reached at depth %d", depth))
					return all, true
				}
				h := append(append([]vkC09Ev{}, n.hist...), ev)
				viol, w, outs := vkC09Replay(h)
				if report && (depth > 1 || c.Mine(0)) {
					c.Add("transitions", 1)
					c.Add("evaluations", 1)
					c.Add("traces", 1)
				}
				if viol != nil {
					if w != nil {
						w.stop()
					}
					if viol.Key == "harness" {
						c.HarnessError(viol.Msg + " in [" + vkC09HistStr(h) + "]")
						return all, false
					}
					if !report {
						continue
					}
					v2, w2, _ := vkC09Replay(h)
					if w2 != nil {
						w2.stop()
					}
					if v2 == nil || v2.Key != viol.Key {
						c.Add("dropped_unreproducible", 1)
						c.Note("dropped a non-reproducing observation: " + viol.Msg[:min(len(viol.Msg), 200)])
						continue
					}
					c.Violation(viol.Key, "after ["+vkC09HistStr(h)+"]: "+viol.Msg, vkC09ReplayT{Hist: h})
					continue // a violating state is not expanded
				}
				o := w.observe()
				d := w.digest(o)
				w.stop()
				if report {
					c.Outcome(outs[len(outs)-1])
				}
				if seen[d] {
					continue
				}
				seen[d] = true
				if report {
					c.DistinctStr("states", d)
					if vkC09Nontrivial(w, o) {
						c.DistinctStr("nontrivial", d)
					}
					c.Max("max_depth", int64(depth))
					if len(seen)%300 == 7 {
						c.Sample(map[string]any{"hist": vkC09HistStr(h), "state": d, "outcomes": outs})
					}
				}
				nn := vkC09Node{hist: h, faulted: n.faulted || ev.isFault() || ev.Kind == "corrupt"}
				next = append(next, nn)
				all = append(all, nn)
			}
		}
		frontier = next
		if report {
			fmt.Printf("C09 shard %d: depth %d done, %d states, frontier %d, %.1fs\n", c.Shard(), depth, len(seen), len(frontier), time.Since(start).Seconds())
		}
	}
	if report && len(frontier) == 0 {
		c.Note("C09/hist: frontier empty — every reachable state over the alphabet visited")
	}
	return all, true
}

func vkC09Finish(c *vkit.Ctx) {
	c.Add("resolvers_fresh", int64(vkC09Fresh))
	c.Add("resolvers_recycled", int64(vkC09Recycled))
	c.Add("transient_exchange_failures_replayed", int64(vkC09Transient))
}

func TestVerifC09Hist(t *testing.T) {
	c := vkit.Init("C09/hist")
	defer c.Close()
	if _, err := vkC09StartRoot(); err != nil {
		c.HarnessError("cannot start the scripted root: " + err.Error())
		return
	}
	if c.Replay != nil {
		vkC09DoReplay(c)
		return
	}
	maxDepth := 5
	if c.Thorough() {
		maxDepth = 7
	}
	vkC09BFS(c, vkC09Events(c.Thorough()), maxDepth, true)
	// second search, from a MATURE state (K1 and K2 both valid anchors: cosign, 31 days, cosign): what a
	// failed or skipped write of one refresh costs only shows several refreshes and a restart later, which
	// the search from the initial state does not reach within its depth
	vkC09BFSPrefix = []vkC09Ev{{Kind: "ref", Pub: "cosign"}, {Kind: "adv", D: 31}, {Kind: "ref", Pub: "cosign"}}
	var mature []vkC09Ev
	for _, p := range []string{"honest", "k2only", "k1gone", "revoke", "revself", "cosign"} {
		mature = append(mature, vkC09Ev{Kind: "ref", Pub: p})
	}
	mature = append(mature, vkC09Ev{Kind: "restart"}, vkC09Ev{Kind: "adv", D: 91})
	for _, p := range []string{"revoke", "revself"} {
		mature = append(mature, vkC09Ev{Kind: "ref", Pub: p, Fault: "dual"})
		for _, f := range []string{"w1", "w2"} {
			for _, op := range []string{"create", "rename"} {
				mature = append(mature, vkC09Ev{Kind: "ref", Pub: p, Fault: "fail", File: f, Op: op})
			}
		}
	}
	matureDepth := 4
	if c.Thorough() {
		matureDepth = 5
	}
	vkC09BFS(c, mature, matureDepth, true)
	vkC09BFSPrefix = nil
	vkC09Finish(c)
}

// TestVerifC09Carry: the same history search (shallower) in a key universe whose K1 and K2 have key
// tags that do not move by exactly 128 under the REVOKE bit (see vkC09CarryMode). Same oracle, same keys.
func TestVerifC09Carry(t *testing.T) {
	vkC09CarryMode = true
	c := vkit.Init("C09/carry")
	defer c.Close()
	if _, err := vkC09StartRoot(); err != nil {
		c.HarnessError("cannot start the scripted root: " + err.Error())
		return
	}
	if c.Replay != nil {
		vkC09DoReplay(c)
		return
	}
	var evs []vkC09Ev
	for _, ev := range vkC09Events(c.Thorough()) {
		// tag-collision publications need a colliding K3, which this universe does not have
		if ev.Kind == "ref" && strings.Contains(ev.Pub, "coll") || strings.Contains(ev.Pub, "shadow") || ev.Pub == "k2k3" {
			continue
		}
		evs = append(evs, ev)
	}
	maxDepth := 3
	if c.Thorough() {
		maxDepth = 5
	}
	vkC09BFS(c, evs, maxDepth, true)
	vkC09Finish(c)
}

// TestVerifC09Crash: for every fault-free state reached within depth D and every refresh event
// (thorough: also the refreshes with an injected write fault), the refresh is run, and if it
// persisted anything its file-operation log is expanded into every process-crash prefix
// (thorough: and every power-loss image); each image is restarted on (configuration still lists
// K1) and refreshed once with the honest publication and once with the last one.
// quick: only the refreshes that complete a revocation.
func TestVerifC09Crash(t *testing.T) {
	c := vkit.Init("C09/crash")
	defer c.Close()
	if _, err := vkC09StartRoot(); err != nil {
		c.HarnessError("cannot start the scripted root: " + err.Error())
		return
	}
	if c.Replay != nil {
		vkC09DoReplay(c)
		return
	}
	evs := vkC09Events(c.Thorough())
	var plain []vkC09Ev // base states: fault-free histories only
	for _, ev := range evs {
		if !ev.isFault() && ev.Kind != "corrupt" {
			plain = append(plain, ev)
		}
	}
	depth := 3
	nodes, ok := vkC09BFS(c, plain, depth, false)
	if !ok {
		return
	}
	fmt.Printf("C09/crash shard %d: %d base states within depth %d\n", c.Shard(), len(nodes), depth)
	idx := 0
	for _, n := range nodes {
		if n.faulted {
			continue
		}
		for _, ev := range evs {
			if ev.Kind != "ref" || (c.Quick() && ev.Fault != "") || ev.Fault == "tombloop" {
				continue
			}
			idx++
			if !c.Mine(idx) {
				continue
			}
			if c.OverBudget() {
				c.Cap("time budget reached during crash enumeration")
				vkC09Finish(c)
				return
			}
			h := append(append([]vkC09Ev{}, n.hist...), ev)
			viol, w, _ := vkC09Replay(h)
			c.Add("traces", 1)
			if viol != nil {
				if w != nil {
					w.stop()
				}
				if viol.Key == "harness" {
					c.HarnessError(viol.Msg + " in [" + vkC09HistStr(h) + "]")
					return
				}
				continue // reported by the hist unit
			}
			if !w.lastWrote || (c.Quick() && !w.lastRev) {
				w.stop()
				continue
			}
			cv := vkC09CrashExpand(c, h, w, c.Thorough())
			c.Add("crash_expansions", 1)
			w.stop()
			if cv != nil {
				if cv.Key == "harness" {
					c.HarnessError(cv.Msg + " in [" + vkC09HistStr(h) + "]")
					return
				}
				// reproduce on fresh state
				v2, w2, _ := vkC09Replay(h)
				var cv2 *vkC09Viol
				if v2 == nil {
					cv2 = vkC09CrashExpand(c, h, w2, c.Thorough())
				}
				if w2 != nil {
					w2.stop()
				}
				if cv2 == nil || cv2.Key != cv.Key {
					c.Add("dropped_unreproducible", 1)
					c.Note("dropped a non-reproducing crash observation: " + cv.Msg[:min(len(cv.Msg), 200)])
				} else {
					c.Violation(cv.Key, "after ["+vkC09HistStr(h)+"]: "+cv.Msg, vkC09ReplayT{Hist: h, Crash: true, Power: c.Thorough()})
				}
			}
			vtime.SetOffset(0)
		}
	}
	c.Add("crash_base_states", int64(len(nodes)))
	vkC09Finish(c)
}
