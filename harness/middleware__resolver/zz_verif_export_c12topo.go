//go:build verif

package resolver

// Export seam for C12/topo and C13/zone (overlay-injected, never part of a
// normal build): how many resolver goroutines are still busy. Read-only.

// VerifInflight reports the occupancy of the resolver's own pools: upstream
// attempts in flight (queryServer goroutines), wire-level lookups in flight,
// exploration probes that outlive their lookup, and detached IPv6
// NS-enrichment jobs. All zero means no goroutine of this resolver can still
// send an upstream packet.
func VerifInflight(h *DNSHandler) (attempts, lookups, probes, v6jobs int) {
	r := h.resolver
	return len(r.maxConcurrent), len(r.resolutionSlots), len(r.probeSlots), len(r.v6LookupSlots)
}
