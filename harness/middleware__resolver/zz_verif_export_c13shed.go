//go:build verif

package resolver

// Export seam for C13/shed (overlay-injected, never part of a normal build):
// force the resolver's two load-shedding limits to a chosen size and read
// their occupancy. The limiters themselves are the production ones
// (`resolutionSlots` channel, `zoneInflightLimiter`); only their capacity is
// replaced, exactly as the in-package C11 `lookup` unit does. Call the setters
// only while no request is in flight.

import "hash/maphash"

// VerifSetResolutionSlots replaces the global in-flight lookup pool by one of
// capacity n (n <= 0 keeps the pool NewResolver made).
func VerifSetResolutionSlots(h *DNSHandler, n int) {
	if n > 0 {
		h.resolver.resolutionSlots = make(chan struct{}, n)
	}
}

// VerifSetZoneQuota replaces the per-zone in-flight limiter by one that admits
// n concurrent lookups per zone (n <= 0 keeps the limiter NewResolver made).
func VerifSetZoneQuota(h *DNSHandler, n int) {
	if n > 0 {
		h.resolver.zoneInflight = newZoneInflightLimiter(n)
	}
}

// VerifShedLimits reports the capacity of the global pool and the per-zone quota.
func VerifShedLimits(h *DNSHandler) (slots int, perZone int) {
	r := h.resolver
	if r.zoneInflight != nil {
		perZone = int(r.zoneInflight.perZone)
	}
	return cap(r.resolutionSlots), perZone
}

// VerifShedCounts reads the process-wide load-shedding counters
// (dns_resolution_shed_total{scope=global|zone}): the resolver's own record
// that a lookup was refused at a capacity ceiling. Read-only.
func VerifShedCounts() (global, zone int64) {
	return shedGlobalCapacity.Value(), shedZoneCapacity.Value()
}

// VerifZoneInflight reports how many lookups currently hold a reservation in
// zone's quota bucket (same bucket selection as acquire). Read-only.
func VerifZoneInflight(h *DNSHandler, zone string) int {
	l := h.resolver.zoneInflight
	if l == nil {
		return 0
	}
	return int(l.buckets[maphash.String(l.seed, zone)%zoneInflightBuckets].Load())
}
