//go:build verif

package resolver

// Export seams for the authsim/h_resolver pipeline helper (overlay-injected,
// never part of a normal build). Nothing here changes resolver behaviour.

import (
	"github.com/miekg/dns"
	"github.com/semihalev/sdns/internal/authority"
	"github.com/semihalev/sdns/internal/cache"
)

// VerifSetResolveTarget installs the dial-target remap (the resolver's own
// hermetic-test seam).
func VerifSetResolveTarget(h *DNSHandler, f func(addr string) string) {
	if f == nil {
		h.resolver.resolveTarget.Store(nil)
		return
	}
	h.resolver.resolveTarget.Store(&f)
}

// VerifSetTrustAnchors replaces the live trust set (nil/empty = no anchors:
// the resolver must fail closed).
func VerifSetTrustAnchors(h *DNSHandler, keys []dns.RR) {
	r := h.resolver
	r.Lock()
	r.rootKeys = append([]dns.RR{}, keys...)
	r.Unlock()
}

func vkClearCache(c *cache.Cache) {
	if c == nil {
		return
	}
	var keys []uint64
	c.ForEach(func(k uint64, _ any) bool { keys = append(keys, k); return true })
	for _, k := range keys {
		c.Remove(k)
	}
}

// VerifResetState forgets everything the resolver learned: delegations, glue
// addresses, circuit-breaker history, singleflight bookkeeping, per-zone
// in-flight counters and the root servers' RTT / error statistics. It must be
// called only while no request is in flight.
func VerifResetState(h *DNSHandler) {
	r := h.resolver
	// in-place clear when the internal/authority export seam is part of the build
	// (harness/internal__authority/zz_verif_export_authsim.go), else a fresh table
	if c, ok := any(r.delegations).(interface{ VerifClear() }); ok {
		c.VerifClear()
	} else {
		r.delegations = authority.NewCache()
	}
	vkClearCache(r.glueV4)
	vkClearCache(r.glueV6)

	cb := r.circuitBreaker
	cb.mu.Lock()
	for k := range cb.failures {
		delete(cb.failures, k)
	}
	cb.mu.Unlock()

	sf := r.sfGroup
	sf.generationMu.Lock()
	for k := range sf.current {
		delete(sf.current, k)
	}
	sf.generationMu.Unlock()
	sf.tracking.Range(func(k, _ any) bool { sf.tracking.Delete(k); return true })

	if r.zoneInflight != nil {
		for i := range r.zoneInflight.buckets {
			r.zoneInflight.buckets[i].Store(0)
		}
	}
	// fresh root server objects: RTT estimates, error counters, fingerprint
	r.parseRootServers(r.cfg)
}

// VerifDelegations reports how many delegations are cached.
func VerifDelegations(h *DNSHandler) int {
	if c, ok := any(h.resolver.delegations).(interface{ VerifLen() int }); ok {
		return c.VerifLen()
	}
	return -1
}
