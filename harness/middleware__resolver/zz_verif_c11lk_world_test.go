//go:build verif

package resolver

// C11/lookup — machinery: scripted loopback authorities whose every reply is
// released by the harness, caller contexts whose Done() closes only when the
// harness says so (Deadline() is a real instant, so the upstream socket
// deadline is armed from it), a goroutine-snapshot based "nothing can move"
// detector, and one world = one fresh Resolver + one event order.
//
// Nothing here is an oracle on wall-clock time: the only real-time event is
// "the short budget's deadline instant passes"; the harness waits for it and
// then for its effects (observed through goroutine states, the resolver's own
// slot counters and the servers' query logs). Safety timeouts (30 s) are
// reported as harness errors, never as violations.

import (
	"context"
	"fmt"
	"net"
	"os"
	"reflect"
	"runtime"
	"sort"
	"strings"
	"sync"
	"sync/atomic"
	"time"
	"unsafe"

	"github.com/miekg/dns"
	"github.com/semihalev/sdns/config"
	"github.com/semihalev/sdns/internal/authority"
	"github.com/semihalev/sdns/internal/cache"
	"github.com/semihalev/sdns/middleware"
	"github.com/semihalev/sdns/middleware/resolver/dnssec"
	"github.com/semihalev/zlog/v2"
)

const (
	vkLKZone     = "example."
	vkLKQname    = "www.example."
	vkLKOccQname = "occ.example."
	vkLKTagCode  = 65001 // EDNS0 local option carrying the caller index (which caller's request led the lookup)
	vkLKOccTag   = 9     // caller index of the slot occupant in the capacity scenarios
	vkLKMaxSrv   = 3     // main servers; server index vkLKMaxSrv is the occupant's private authority
	vkLKSafety   = 30 * time.Second
	vkLKNetTO    = 10 * time.Second // upstream socket timeout: never fires inside a run (assumption, checked)
)

// ------------------------------------------------------------ caller context

// vkLKCtx is a caller's context. Deadline() is a real instant; Done() closes and
// Err() turns non-nil only when the harness fires it — the model of "the
// runtime's timer goroutine (or the client's cancel) has not run yet".
type vkLKCtx struct {
	mu        sync.Mutex
	deadline  time.Time
	done      chan struct{}
	err       error
	doneCalls atomic.Int64
}

func vkLKNewCtx(deadline time.Time) *vkLKCtx {
	return &vkLKCtx{deadline: deadline, done: make(chan struct{})}
}

func (c *vkLKCtx) Deadline() (time.Time, bool) { return c.deadline, true }
func (c *vkLKCtx) Done() <-chan struct{}       { c.doneCalls.Add(1); return c.done }
func (c *vkLKCtx) Value(any) any               { return nil }
func (c *vkLKCtx) Err() error {
	c.mu.Lock()
	defer c.mu.Unlock()
	return c.err
}

func (c *vkLKCtx) fire(err error) {
	c.mu.Lock()
	if c.err == nil {
		c.err = err
		close(c.done)
	}
	c.mu.Unlock()
}

func (c *vkLKCtx) fired() bool {
	c.mu.Lock()
	defer c.mu.Unlock()
	return c.err != nil
}

// ------------------------------------------------------------ scripted servers

type vkLKQuery struct {
	srv      int
	id       uint16
	from     *net.UDPAddr
	tag      int // caller index whose request led the lookup that sent this query (-1: none)
	q        dns.Question
	live     bool // the attempt that sent it is still waiting for the reply (harness bookkeeping)
	answered bool
}

type vkLKSrvT struct {
	idx  int
	pc   *net.UDPConn
	addr string
}

var (
	vkLKSrvs    []*vkLKSrvT
	vkLKSrvOnce sync.Once
	vkLKSrvErr  error
	vkLKCur     atomic.Pointer[vkLKWorld]
	vkLKStray   atomic.Int64
)

func (s *vkLKSrvT) vkLKSrvLoop() {
	buf := make([]byte, 4096)
	for {
		n, from, err := s.pc.ReadFromUDP(buf)
		if err != nil {
			return
		}
		m := new(dns.Msg)
		if m.Unpack(buf[:n]) != nil || len(m.Question) != 1 {
			continue
		}
		w := vkLKCur.Load()
		if w == nil {
			vkLKStray.Add(1)
			continue
		}
		tag := -1
		if opt := m.IsEdns0(); opt != nil {
			for _, o := range opt.Option {
				if l, ok := o.(*dns.EDNS0_LOCAL); ok && l.Code == vkLKTagCode && len(l.Data) == 1 {
					tag = int(l.Data[0])
				}
			}
		}
		w.mu.Lock()
		w.parked = append(w.parked, &vkLKQuery{srv: s.idx, id: m.Id, from: from, tag: tag, q: m.Question[0], live: true})
		w.mu.Unlock()
	}
}

func vkLKStartServers() error {
	vkLKSrvOnce.Do(func() {
		logger := zlog.NewStructured()
		logger.SetLevel(zlog.LevelFatal)
		zlog.SetDefault(logger)
		for i := 0; i <= vkLKMaxSrv; i++ {
			pc, err := net.ListenUDP("udp4", &net.UDPAddr{IP: net.IPv4(127, 0, 0, 1)})
			if err != nil {
				vkLKSrvErr = err
				return
			}
			s := &vkLKSrvT{idx: i, pc: pc, addr: pc.LocalAddr().String()}
			vkLKSrvs = append(vkLKSrvs, s)
			go s.vkLKSrvLoop()
		}
	})
	return vkLKSrvErr
}

// reply writes the scripted answer of kind ("OK" | "SF" | "RF") to q's sender.
func (s *vkLKSrvT) reply(q *vkLKQuery, kind string) error {
	m := new(dns.Msg)
	m.Id = q.id
	m.Response = true
	m.Authoritative = true
	m.Question = []dns.Question{q.q}
	switch kind {
	case "OK":
		m.Rcode = dns.RcodeSuccess
		m.Answer = []dns.RR{&dns.A{Hdr: dns.RR_Header{Name: q.q.Name, Rrtype: dns.TypeA, Class: dns.ClassINET, Ttl: 300},
			A: net.IPv4(192, 0, 2, byte(1+s.idx))}}
	case "SF":
		m.Rcode = dns.RcodeServerFailure
	case "RF":
		m.Rcode = dns.RcodeRefused
	default:
		return fmt.Errorf("no reply kind %q", kind)
	}
	b, err := m.Pack()
	if err != nil {
		return err
	}
	_, err = s.pc.WriteToUDP(b, q.from)
	return err
}

// ------------------------------------------------------------ resolver

// vkLKNewResolver builds the state NewResolver builds, minus its three
// never-ending background goroutines (run(), the singleflight cleanup ticker,
// the circuit-breaker cleanup ticker), so that "no goroutine of the resolver is
// left" can be decided exactly. vkLKDriftCheck compares it with a real one.
func vkLKNewResolver(cfg *config.Config) *Resolver {
	workPolicy := middleware.MustRecursionWorkPolicyFromConfig(cfg.RecursionFirewall)
	r := &Resolver{
		cfg:            cfg,
		delegations:    authority.NewCache(),
		rootServers:    new(authority.Servers),
		glueV4:         cache.New(1024),
		dnssec:         cfg.DNSSEC == "on",
		qnameMinLevel:  cfg.QnameMinLevel,
		netTimeout:     defaultTimeout,
		workPolicy:     workPolicy,
		sfGroup:        &SingleflightWrapper{current: make(map[string]*singleflightGeneration)},
		circuitBreaker: &circuitBreaker{failures: make(map[string]*serverFailure)},
		cryptoLimiter:  dnssec.NewCryptoLimiter(workPolicy.MaxConcurrentCrypto),
	}
	maxConcurrent := cfg.MaxConcurrentQueries
	if maxConcurrent == 0 {
		maxConcurrent = 1000
	}
	r.maxConcurrent = make(chan struct{}, maxConcurrent)
	r.resolutionSlots = make(chan struct{}, maxConcurrent)
	r.zoneInflight = newZoneInflightLimiter(max(maxConcurrent/16, 16))
	r.probeSlots = make(chan struct{}, maxInflightProbes)
	if cfg.Timeout.Duration > 0 {
		r.netTimeout = cfg.Timeout.Duration
	}
	r.parseRootServers(cfg)
	r.parseOutBoundAddrs(cfg)
	r.rootKeys = []dns.RR{}
	r.configuredRootKeys = []dns.RR{}
	return r
}

func vkLKCfg() *config.Config {
	cfg := new(config.Config)
	cfg.RootServers = []string{"127.0.0.1:1"} // never contacted: the harness calls groupLookup with its own authority set
	cfg.Maxdepth = 30
	cfg.Expire = 600
	cfg.CacheSize = 1024
	cfg.Timeout.Duration = vkLKNetTO
	cfg.DNSSEC = "off"
	return cfg
}

// vkLKDriftCheck: every field the real constructor fills must be filled by ours
// and the sizes that matter must agree.
func vkLKDriftCheck() string {
	cfg := vkLKCfg()
	real, mine := NewResolver(cfg), vkLKNewResolver(cfg)
	rv, mv := reflect.ValueOf(real).Elem(), reflect.ValueOf(mine).Elem()
	for i := 0; i < rv.NumField(); i++ {
		name := rv.Type().Field(i).Name
		if rv.Field(i).IsZero() != mv.Field(i).IsZero() {
			return fmt.Sprintf("constructor drift: field %s zero=%v in NewResolver, zero=%v in the harness copy", name, rv.Field(i).IsZero(), mv.Field(i).IsZero())
		}
	}
	if cap(real.maxConcurrent) != cap(mine.maxConcurrent) || cap(real.resolutionSlots) != cap(mine.resolutionSlots) ||
		cap(real.probeSlots) != cap(mine.probeSlots) || real.zoneInflight.perZone != mine.zoneInflight.perZone ||
		real.netTimeout != mine.netTimeout || real.dnssec != mine.dnssec || real.qnameMinLevel != mine.qnameMinLevel {
		return "constructor drift: limiter sizes / timeouts differ from NewResolver"
	}
	return ""
}

// vkLKSfCalls: number of calls the x/sync singleflight group still holds.
func vkLKSfCalls(w *SingleflightWrapper) int {
	g := reflect.ValueOf(&w.group).Elem()
	mu := (*sync.Mutex)(unsafe.Pointer(g.FieldByName("mu").UnsafeAddr()))
	mu.Lock()
	defer mu.Unlock()
	m := g.FieldByName("m")
	if !m.IsValid() || m.IsNil() {
		return 0
	}
	return m.Len()
}

// ------------------------------------------------------------ goroutine snapshot

type vkLKSnap struct {
	world   int  // goroutines of the resolver / the callers
	blocked bool // every one of them is parked (none running, runnable or in a syscall)
	exch    int  // parked in the socket read of (*Resolver).exchange
	lookup  int  // parked in the select of (*Resolver).lookup
	sig     string
	desc    []string // "state @ innermost sdns frame" per world goroutine
}

var vkLKWorldFrames = []string{
	"middleware/resolver.(*Resolver).", "middleware/resolver.(*SingleflightWrapper).", "sync/singleflight.",
	"internal/dnsclient.", "middleware/resolver.vkLKCallerRun", "middleware/resolver.(*vkLKWorld).start", // (a goroutine that has not run yet shows only its go-statement wrapper)
	"context.(*cancelCtx).propagateCancel",
	"context.(*afterFuncCtx)",
}

// background goroutines of the one real NewResolver instance built for the drift check
var vkLKBaselineFrames = []string{
	"middleware/resolver.(*Resolver).run(", "(*SingleflightWrapper).cleanupLoop(", "(*circuitBreaker).cleanup(",
	"middleware/resolver.vkLKSnapshot(",
}

var vkLKBlockedStates = map[string]bool{
	"select": true, "chan receive": true, "chan send": true, "IO wait": true, "semacquire": true,
	"sync.Mutex.Lock": true, "sync.RWMutex.RLock": true, "sync.RWMutex.Lock": true, "sync.Cond.Wait": true,
	"sync.WaitGroup.Wait": true,
}

var (
	vkLKStackBuf  = make([]byte, 1<<20)
	vkLKSnapCount int
	vkLKDebug     = os.Getenv("VERIF_DEBUG") != ""
)

func vkLKSnapshot() vkLKSnap {
	vkLKSnapCount++
	n := runtime.Stack(vkLKStackBuf, true)
	for n == len(vkLKStackBuf) {
		vkLKStackBuf = make([]byte, 2*len(vkLKStackBuf))
		n = runtime.Stack(vkLKStackBuf, true)
	}
	s := vkLKSnap{blocked: true}
	for _, blk := range strings.Split(string(vkLKStackBuf[:n]), "\n\n") {
		nl := strings.IndexByte(blk, '\n')
		if nl < 0 || !strings.HasPrefix(blk, "goroutine ") {
			continue
		}
		head, body := blk[:nl], blk[nl+1:]
		lb, rb := strings.IndexByte(head, '['), strings.LastIndexByte(head, ']')
		if lb < 0 || rb < lb {
			continue
		}
		state := head[lb+1 : rb]
		if c := strings.IndexByte(state, ','); c >= 0 {
			state = state[:c]
		}
		isWorld := false
		for _, f := range vkLKWorldFrames {
			if strings.Contains(body, f) {
				isWorld = true
				break
			}
		}
		if !isWorld {
			continue
		}
		base := false
		for _, f := range vkLKBaselineFrames {
			if strings.Contains(body, f) {
				base = true
				break
			}
		}
		if base {
			continue
		}
		s.world++
		if !vkLKBlockedStates[state] {
			s.blocked = false
		}
		inner := ""
		for _, ln := range strings.Split(body, "\n") {
			if strings.HasPrefix(ln, "\t") || strings.HasPrefix(ln, "created by ") {
				continue
			}
			if strings.Contains(ln, "semihalev/sdns/") || strings.HasPrefix(ln, "context.") || strings.Contains(ln, "singleflight.") {
				inner = ln
				if p := strings.LastIndexByte(inner, '('); p > 0 {
					inner = inner[:p]
				}
				if p := strings.LastIndexByte(inner, '/'); p >= 0 {
					inner = inner[p+1:]
				}
				break
			}
		}
		if state == "IO wait" && strings.Contains(body, "middleware/resolver.(*Resolver).exchange(") {
			s.exch++
		}
		if state == "select" && strings.HasSuffix(inner, "(*Resolver).lookup") {
			s.lookup++
		}
		s.desc = append(s.desc, state+" @ "+inner)
	}
	sort.Strings(s.desc)
	s.sig = strings.Join(s.desc, ";")
	return s
}

// ------------------------------------------------------------ world

type vkLKScenario struct {
	Cfg     string   `json:"cfg"`     // "std" | "capZ" (zone quota 1) | "capG" (resolutionSlots 1)
	Budgets string   `json:"budgets"` // one letter per caller in arrival order: S(hort) | L(ong)
	Servers []string `json:"servers"` // per authority: OK | SF | RF | DEAD (never replies)
	// Owned: every caller hands groupLookup a PRIVATE request copy and declares it lookup-owned, as
	// resolve() does for a QNAME-minimised question (several clients' different names minimise to the
	// same question, so they share one lookup while each must keep its own reply object).
	Owned bool `json:"owned,omitempty"`
}

func (s vkLKScenario) String() string {
	o := ""
	if s.Owned {
		o = "/owned"
	}
	return s.Cfg + "/" + s.Budgets + "/" + strings.Join(s.Servers, ",") + o
}

type vkLKCaller struct {
	owned    bool
	idx      int
	budget   byte
	ctx      *vkLKCtx
	req      *dns.Msg
	arrived  bool
	arrStep  int
	returned atomic.Bool
	retStep  int // step during whose settling the return was first observed
	resp     *dns.Msg
	err      error
	killStep int // step of the first executed event that ended this caller's own budget (-1: none)
	refused  bool
}

type vkLKWorld struct {
	sc        vkLKScenario
	r         *Resolver
	servers   *authority.Servers
	occServer *authority.Servers
	callers   []*vkLKCaller
	occ       *vkLKCaller
	mu        sync.Mutex
	parked    []*vkLKQuery
	answering [vkLKMaxSrv + 1]bool
	deadline  time.Time // D: the short budget's absolute deadline
	dlPassed  bool
	step      int
	maxWait   int // max number of main callers simultaneously unreturned at a stable point
	tags      map[int]bool
	base      vkLKSnap
	wedged    map[int]bool // caller idx -> still waiting after its own Done() closed and the world settled
	trans     int
	states    []string
	occHeldAt map[int]bool // caller idx -> the occupant held the slot when it arrived
	fails     *vkLKFailStore
}

// vkLKFailStore is the shared store the resolver publishes RFC 9520 zone failures to; it only records.
type vkLKFailStore struct {
	mu    sync.Mutex
	zones []string
}

func (s *vkLKFailStore) Get(*dns.Msg) (*dns.Msg, bool)               { return nil, false }
func (s *vkLKFailStore) SetFromResponse(*dns.Msg, bool, time.Time) {}
func (s *vkLKFailStore) ClearZoneFailure(dns.Question, string)     {}
func (s *vkLKFailStore) RecordZoneFailure(q dns.Question, zone string) {
	s.mu.Lock()
	s.zones = append(s.zones, zone+" (question "+q.Name+")")
	s.mu.Unlock()
}

func (s *vkLKFailStore) recorded() []string {
	s.mu.Lock()
	defer s.mu.Unlock()
	return append([]string{}, s.zones...)
}

type vkLKHarnessErr struct{ msg string }

func (e *vkLKHarnessErr) Error() string { return e.msg }

// vkLKSlotLeak: for vkLKLeakHold without interruption the upstream-concurrency semaphore held the same
// number of tokens, more than there were attempts reading from an authority, and the moment it is
// reported every goroutine of the world is parked. An attempt between "token taken" and "reading" is
// runnable for microseconds; a token that outlives every attempt by seconds has nobody left to hand it
// back: a leaked limiter slot (reproduced on fresh resolvers before it is reported).
type vkLKSlotLeak struct{ msg string }

func (e *vkLKSlotLeak) Error() string { return e.msg }

const vkLKLeakHold = 4 * time.Second

func vkLKNewWorld(sc vkLKScenario, T time.Duration) (*vkLKWorld, error) {
	if err := vkLKStartServers(); err != nil {
		return nil, &vkLKHarnessErr{"servers: " + err.Error()}
	}
	if len(sc.Servers) < 1 || len(sc.Servers) > vkLKMaxSrv {
		return nil, &vkLKHarnessErr{"bad server count"}
	}
	w := &vkLKWorld{sc: sc, tags: map[int]bool{}, occHeldAt: map[int]bool{}, wedged: map[int]bool{}}
	// Goroutines an earlier run left behind (only after that run was reported as a leak) are parked for
	// good; they are subtracted so the leak can be reproduced on further fresh resolvers.
	pre := vkLKSnapshot()
	if !pre.blocked {
		return nil, &vkLKHarnessErr{"world goroutines are running before the run: " + pre.sig}
	}
	w.base = pre
	w.r = vkLKNewResolver(vkLKCfg())
	w.fails = &vkLKFailStore{}
	var st middleware.Store = w.fails
	w.r.store.Store(&st)
	switch sc.Cfg {
	case "std":
	case "capZ":
		w.r.zoneInflight = newZoneInflightLimiter(1)
	case "capG":
		w.r.resolutionSlots = make(chan struct{}, 1)
	default:
		return nil, &vkLKHarnessErr{"bad cfg " + sc.Cfg}
	}
	w.servers = &authority.Servers{Zone: vkLKZone}
	for j := range sc.Servers {
		s := authority.NewServer(vkLKSrvs[j].addr, authority.IPv4)
		if len(sc.Servers) >= 3 {
			// a measured delegation: no exploration probe (a probe deliberately outlives its
			// lookup on a detached context), a fixed rank order, 25 ms fan-out steps
			s.Observe(time.Duration(10+j) * time.Millisecond)
		}
		w.servers.List = append(w.servers.List, s)
	}
	w.occServer = &authority.Servers{Zone: vkLKZone, List: []*authority.Server{authority.NewServer(vkLKSrvs[vkLKMaxSrv].addr, authority.IPv4)}}
	w.deadline = time.Now().Add(T)
	far := time.Now().Add(time.Hour)
	mk := func(idx int, budget byte, qname string) *vkLKCaller {
		dl := far
		if budget == 'S' {
			dl = w.deadline
		}
		req := new(dns.Msg)
		req.SetQuestion(qname, dns.TypeA)
		req.Id = uint16(1000 + idx)
		req.RecursionDesired = false
		req.SetEdns0(1232, false)
		opt := req.IsEdns0()
		opt.Option = append(opt.Option, &dns.EDNS0_LOCAL{Code: vkLKTagCode, Data: []byte{byte(idx)}})
		return &vkLKCaller{owned: sc.Owned, idx: idx, budget: budget, ctx: vkLKNewCtx(dl), req: req, killStep: -1, retStep: -1, arrStep: -1}
	}
	for i := 0; i < len(sc.Budgets); i++ {
		// every caller spells the name in its own letter case (0x20): a caller that shares another caller's upstream
		// lookup must still be handed a reply that carries ITS question
		spelled := []byte(vkLKQname)
		if i > 0 && i-1 < 3 {
			spelled[i-1] -= 'a' - 'A' // Www.example. / wWw.example. / wwW.example.
		}
		w.callers = append(w.callers, mk(i, sc.Budgets[i], string(spelled)))
	}
	if sc.Cfg != "std" {
		w.occ = mk(vkLKOccTag, 'L', vkLKOccQname)
	}
	vkLKCur.Store(w)
	return w, nil
}

// vkLKCallerRun is one client of groupLookup, set up the way Resolver.Resolve sets
// up a direct caller (NSEC3 memo, attempt guard, work ledger), with a shared
// (owned=false) request.
func vkLKCallerRun(r *Resolver, c *vkLKCaller, servers *authority.Servers) {
	var ctx context.Context = c.ctx
	ctx = dnssec.EnsureNSEC3HashMemo(ctx)
	ctx, _ = middleware.EnsureResolutionAttemptGuard(ctx)
	ctx, work := middleware.EnsureRecursionWork(ctx, r.workPolicy)
	rs := &resolveState{req: c.req, servers: servers, level: 1, requestID: c.req.Id, work: work}
	resp, err := r.groupLookup(ctx, rs, c.req, servers, c.owned)
	if err != nil {
		// what resolve() does with a failed lookup (not minimised): the real handleLookupError decides
		// whether this caller publishes a zone failure to the shared store (recorded by vkLKFailStore)
		resp, err = r.handleLookupError(ctx, err, rs, c.req, false)
	}
	middleware.FinishRecursionWork(ctx)
	c.resp, c.err = resp, err
	c.returned.Store(true)
}

// snap is a snapshot minus what was already parked before this world existed.
func (w *vkLKWorld) snap() vkLKSnap {
	s := vkLKSnapshot()
	if w.base.world == 0 {
		return s
	}
	s.world -= w.base.world
	s.exch -= w.base.exch
	s.lookup -= w.base.lookup
	rest := append([]string{}, w.base.desc...)
	var desc []string
	for _, d := range s.desc {
		hit := false
		for i, b := range rest {
			if b == d {
				rest = append(rest[:i], rest[i+1:]...)
				hit = true
				break
			}
		}
		if !hit {
			desc = append(desc, d)
		}
	}
	s.desc = desc
	s.sig = strings.Join(desc, ";")
	return s
}

func (w *vkLKWorld) liveCounts() (main, occ int, tag int) {
	tag = -1
	w.mu.Lock()
	defer w.mu.Unlock()
	for _, q := range w.parked {
		if q.live && !q.answered {
			if q.srv == vkLKMaxSrv {
				occ++
			} else {
				main++
				tag = q.tag
			}
		}
	}
	return
}

func (w *vkLKWorld) killMain(onlyTag int) {
	w.mu.Lock()
	for _, q := range w.parked {
		if q.srv != vkLKMaxSrv && (onlyTag < 0 || q.tag == onlyTag) && !q.answered {
			q.live = false
		}
	}
	w.mu.Unlock()
}

func (w *vkLKWorld) contacted(tag int) int {
	seen := map[int]bool{}
	w.mu.Lock()
	for _, q := range w.parked {
		if q.tag == tag && q.srv != vkLKMaxSrv {
			seen[q.srv] = true
		}
	}
	w.mu.Unlock()
	return len(seen)
}

func (w *vkLKWorld) budgetOf(tag int) byte {
	if tag >= 0 && tag < len(w.callers) {
		return w.callers[tag].budget
	}
	return 'L'
}

// nextAuto: the oldest live unanswered query parked at the lowest-index authority that has started answering.
func (w *vkLKWorld) nextAuto() *vkLKQuery {
	w.mu.Lock()
	defer w.mu.Unlock()
	var best *vkLKQuery
	for _, q := range w.parked {
		if q.answered || !w.answering[q.srv] {
			continue
		}
		if !q.live {
			q.answered = true // its sender is gone; nothing to deliver to
			continue
		}
		if best == nil || q.srv < best.srv {
			best = q
		}
	}
	return best
}

func (w *vkLKWorld) kindOf(srv int) string {
	if srv == vkLKMaxSrv {
		return "OK"
	}
	return w.sc.Servers[srv]
}

// settle waits until nothing in the world can move on its own: every goroutine
// of the resolver and of the callers is parked, every attempt parked in a socket
// read corresponds to a query the servers hold unanswered (nothing in flight in
// either direction), the fan-out has reached every authority it can reach, and no
// answering authority holds an unanswered live query (those are answered one at
// a time, lowest index first, each followed by a new settle).
func (w *vkLKWorld) settle() error {
	limit := time.Now().Add(vkLKSafety)
	streak, lastSig, why := 0, "", ""
	var heldSince time.Time // since when: all parked, same signature, slots > readers
	heldL := 0
	for spin := 0; ; spin++ {
		if spin > 0 {
			if spin < 8 {
				runtime.Gosched()
			} else {
				time.Sleep(time.Duration(min(spin, 40)) * 25 * time.Microsecond)
			}
		}
		if time.Now().After(limit) {
			s := w.snap()
			m, o, t := w.liveCounts()
			return &vkLKHarnessErr{fmt.Sprintf("settle timeout in %s step %d: %s [held %v]; slots=%d live(main=%d occ=%d tag=%d) goroutines: %s",
				w.sc, w.step, why, !heldSince.IsZero(), len(w.r.maxConcurrent), m, o, t, s.sig)}
		}
		s := w.snap()
		if !s.blocked {
			streak, why = 0, "a goroutine is runnable"
			// (a lookup's select wakes on its fan-out ticker and parks again: a surplus token is judged by
			// how long it outlives every attempt, not by an unbroken run of parked snapshots)
			if l := len(w.r.maxConcurrent); !heldSince.IsZero() && (l != heldL || s.exch >= l) {
				heldSince = time.Time{}
			}
			continue
		}
		L := len(w.r.maxConcurrent)
		main, occ, tag := w.liveCounts()
		kill := false
		switch {
		case s.exch != L:
			streak, why = 0, fmt.Sprintf("exchange readers %d != upstream slots %d", s.exch, L)
			if s.exch < L && (heldSince.IsZero() || L != heldL) {
				heldSince, heldL = time.Now(), L
			} else if s.exch < L && time.Since(heldSince) > vkLKLeakHold {
				return &vkLKSlotLeak{fmt.Sprintf("%d upstream-concurrency token(s) stayed taken for %v while only %d attempt(s) were reading from an authority and nothing else was running (%s)", L, vkLKLeakHold, s.exch, s.sig)}
			} else if s.exch > L {
				heldSince = time.Time{}
			}
			continue
		case s.exch == main+occ:
		case s.exch == occ && main > 0:
			kill = true // the lookup that owned the parked attempts ended: they were all interrupted
		default:
			streak, why = 0, fmt.Sprintf("exchange readers %d != unanswered live queries %d+%d", s.exch, main, occ)
			continue
		}
		if s.lookup > 0 && main > 0 && !kill && !(w.budgetOf(tag) == 'S' && w.dlPassed) && w.contacted(tag) < len(w.sc.Servers) {
			streak, why = 0, "fan-out timer pending"
			continue
		}
		if s.sig != lastSig {
			streak, lastSig = 1, s.sig
			why = "first stable snapshot"
			continue
		}
		streak++
		if streak < 2 {
			continue
		}
		if kill {
			w.killMain(-1)
		}
		// bookkeeping at the stable point
		unret := 0
		for _, c := range w.callers {
			if c.arrived && c.returned.Load() && c.retStep < 0 {
				c.retStep = w.step
			}
			if c.arrived && !c.returned.Load() {
				unret++
			}
		}
		if w.occ != nil && w.occ.arrived && w.occ.returned.Load() && w.occ.retStep < 0 {
			w.occ.retStep = w.step
		}
		if unret > w.maxWait {
			w.maxWait = unret
		}
		if q := w.nextAuto(); q != nil {
			w.mu.Lock()
			q.answered = true
			w.mu.Unlock()
			if err := vkLKSrvs[q.srv].reply(q, w.kindOf(q.srv)); err != nil {
				return &vkLKHarnessErr{"reply: " + err.Error()}
			}
			w.trans++
			streak, lastSig, why = 0, "", "a released reply is being consumed"
			continue
		}
		w.mu.Lock()
		for _, q := range w.parked {
			if q.tag >= 0 {
				w.tags[q.tag] = true
			}
		}
		w.mu.Unlock()
		return nil
	}
}

func (w *vkLKWorld) start(c *vkLKCaller, servers *authority.Servers) {
	c.arrived, c.arrStep = true, w.step
	go vkLKCallerRun(w.r, c, servers)
}

func (w *vkLKWorld) occHolds() bool {
	if w.occ == nil || !w.occ.arrived || w.occ.returned.Load() {
		return false
	}
	return true
}

// digest of the harness-visible state (for the distinct-state count)
func (w *vkLKWorld) digest() string {
	var b strings.Builder
	b.WriteString(w.sc.String())
	for _, c := range w.callers {
		switch {
		case !c.arrived:
			b.WriteString("|-")
		case !c.returned.Load():
			b.WriteString("|w")
		default:
			b.WriteString("|" + vkLKResultClass(c))
		}
		if c.ctx.fired() {
			b.WriteString("x")
		}
	}
	main, occ, tag := w.liveCounts()
	fmt.Fprintf(&b, "|a=%v|dl=%v|live=%d,%d,%d", w.answering, w.dlPassed, main, occ, tag)
	return b.String()
}

func vkLKResultClass(c *vkLKCaller) string {
	switch {
	case c.err != nil:
		switch {
		case c.err == context.DeadlineExceeded:
			return "err:deadline"
		case c.err == context.Canceled:
			return "err:canceled"
		case c.err == errZoneCapacity:
			return "err:zonecap"
		case c.err == errResolutionCapacity:
			return "err:globalcap"
		case isFatalError(c.err):
			return "err:fatal"
		}
		return "err:other"
	case c.resp == nil:
		return "nil"
	case c.resp.Rcode == dns.RcodeSuccess && len(c.resp.Answer) > 0:
		return "OK"
	default:
		return dns.RcodeToString[c.resp.Rcode]
	}
}

// exec performs one event and settles. late=true: the deadline instant had passed
// before an event that was to precede it could be completed (rerun with a longer T).
func (w *vkLKWorld) exec(ev string) (late bool, err error) {
	w.step++
	w.trans++
	preDL := !w.dlPassed && strings.ContainsRune(w.sc.Budgets, 'S')
	var doneOf *vkLKCaller
	switch {
	case ev == "dl":
		if d := time.Until(w.deadline); d > 0 {
			time.Sleep(d)
		}
		for time.Now().Before(w.deadline) {
			runtime.Gosched()
		}
		w.dlPassed = true
		for _, c := range w.callers {
			if c.budget == 'S' && c.killStep < 0 {
				c.killStep = w.step
			}
		}
		// every attempt of a short-budget leader ends with its socket deadline (a follower with a long
		// budget may already have re-entered and sent its own queries: those stay)
		for i, c := range w.callers {
			if c.budget == 'S' {
				w.killMain(i)
			}
		}
	case strings.HasPrefix(ev, "rep"):
		j := int(ev[3] - '0')
		if j < 0 || j >= len(w.sc.Servers) || w.sc.Servers[j] == "DEAD" {
			return false, &vkLKHarnessErr{"bad event " + ev}
		}
		w.answering[j] = true
	case ev == "relO":
		w.answering[vkLKMaxSrv] = true
	case strings.HasPrefix(ev, "arr"):
		i := int(ev[3] - '0')
		if i < 1 || i >= len(w.callers) || w.callers[i].arrived {
			return false, &vkLKHarnessErr{"bad event " + ev}
		}
		w.occHeldAt[i] = w.occHolds()
		w.start(w.callers[i], w.servers)
	case strings.HasPrefix(ev, "done"):
		i := int(ev[4] - '0')
		if i < 0 || i >= len(w.callers) || !w.callers[i].arrived {
			return false, &vkLKHarnessErr{"bad event " + ev}
		}
		c := w.callers[i]
		if c.killStep < 0 {
			c.killStep = w.step
		}
		cause := context.Canceled
		if w.dlPassed && c.budget == 'S' {
			cause = context.DeadlineExceeded
		}
		w.killMain(i) // the lookup it leads (if any) ends with it
		c.ctx.fire(cause)
		doneOf = c
	default:
		return false, &vkLKHarnessErr{"unknown event " + ev}
	}
	if err := w.settle(); err != nil {
		return false, err
	}
	if doneOf != nil && !doneOf.returned.Load() {
		w.wedged[doneOf.idx] = true // nothing can move any more and the caller whose context ended is still inside
	}
	if preDL && ev != "dl" && !time.Now().Before(w.deadline.Add(-2*time.Millisecond)) {
		return true, nil
	}
	w.states = append(w.states, w.digest())
	if vkLKDebug {
		sn := w.snap()
		fmt.Printf("  step %d %s: t-D=%v slots=%d %s || %s\n", w.step, ev, time.Since(w.deadline).Round(100*time.Microsecond), len(w.r.maxConcurrent), w.digest(), sn.sig)
	}
	return false, nil
}

// begin starts the occupant (capacity scenarios) and caller 0.
func (w *vkLKWorld) begin() error {
	if w.occ != nil {
		w.start(w.occ, w.occServer)
		if err := w.settle(); err != nil {
			return err
		}
		_, occ, _ := w.liveCounts()
		held := len(w.r.resolutionSlots) == 1
		if occ != 1 || !held || w.occ.returned.Load() {
			return &vkLKHarnessErr{"the occupant does not hold its slot"}
		}
	}
	w.occHeldAt[0] = w.occHolds()
	w.start(w.callers[0], w.servers)
	if err := w.settle(); err != nil {
		return err
	}
	w.states = append(w.states, w.digest())
	return nil
}

func (w *vkLKWorld) allReturned() bool {
	for _, c := range w.callers {
		if !c.arrived || !c.returned.Load() {
			return false
		}
	}
	return w.occ == nil || w.occ.returned.Load()
}

type vkLKLeak struct{ what, detail string }

// drain ends the run: whoever still waits is cancelled (models the end of load),
// then the resolver must return to quiescence. Returns the callers that did not
// return even after their own context ended, and what is left behind.
func (w *vkLKWorld) drain() (stuckCallers []int, leaks []vkLKLeak, err error) {
	w.step++
	all := append([]*vkLKCaller{}, w.callers...)
	if w.occ != nil {
		all = append(all, w.occ)
	}
	for _, c := range all {
		if c.arrived && !c.returned.Load() {
			if c.killStep < 0 {
				c.killStep = w.step
			}
			w.killMain(c.idx)
			c.ctx.fire(context.Canceled)
			if c == w.occ {
				w.mu.Lock()
				for _, q := range w.parked {
					if q.srv == vkLKMaxSrv {
						q.live = false
					}
				}
				w.mu.Unlock()
			}
			if err := w.settle(); err != nil {
				return nil, nil, err
			}
			if !c.returned.Load() {
				stuckCallers = append(stuckCallers, c.idx)
			}
		}
	}
	// quiescence: a bounded loop that yields; goroutines that are still runnable get time to finish,
	// goroutines that stay parked in resolver code with nobody left to wake them are stuck
	limit := time.Now().Add(vkLKSafety)
	var s vkLKSnap
	same, last := 0, ""
	for spin := 0; ; spin++ {
		s = w.snap()
		if s.world <= 0 {
			break
		}
		if s.blocked && s.sig == last {
			same++
			if same >= 20 {
				break
			}
		} else {
			same, last = 0, s.sig
		}
		if time.Now().After(limit) {
			return nil, nil, &vkLKHarnessErr{"world goroutines keep running after the drain: " + s.sig}
		}
		if spin < 8 {
			runtime.Gosched()
		} else {
			time.Sleep(100 * time.Microsecond)
		}
	}
	w.r.circuitBreaker.mu.RLock()
	nfail := len(w.r.circuitBreaker.failures)
	w.r.circuitBreaker.mu.RUnlock()
	if nfail != 0 {
		// no scripted authority ever fails on its own: a recorded upstream failure means the 10 s socket
		// timeout fired inside the run, i.e. the harness lost track of an attempt
		return nil, nil, &vkLKHarnessErr{fmt.Sprintf("the circuit breaker recorded an upstream failure in %s (step %d): the run outlived the upstream socket timeout", w.sc, w.step)}
	}
	if len(stuckCallers) == 0 {
		for _, d := range s.desc {
			leaks = append(leaks, vkLKLeak{"goroutine", d})
		}
	}
	if n := len(w.r.maxConcurrent); n != 0 {
		leaks = append(leaks, vkLKLeak{"upstream_slots", fmt.Sprint(n)})
	}
	if n := len(w.r.resolutionSlots); n != 0 {
		leaks = append(leaks, vkLKLeak{"resolution_slots", fmt.Sprint(n)})
	}
	if n := len(w.r.probeSlots); n != 0 {
		leaks = append(leaks, vkLKLeak{"probe_slots", fmt.Sprint(n)})
	}
	zi := int32(0)
	for i := range w.r.zoneInflight.buckets {
		zi += w.r.zoneInflight.buckets[i].Load()
	}
	if zi != 0 {
		leaks = append(leaks, vkLKLeak{"zone_inflight", fmt.Sprint(zi)})
	}
	sf := w.r.sfGroup
	sf.generationMu.Lock()
	cur := len(sf.current)
	sf.generationMu.Unlock()
	trk := 0
	sf.tracking.Range(func(_, _ any) bool { trk++; return true })
	if cur != 0 || trk != 0 {
		leaks = append(leaks, vkLKLeak{"singleflight_generation", fmt.Sprintf("current=%d tracking=%d", cur, trk)})
	}
	if n := vkLKSfCalls(sf); n != 0 {
		leaks = append(leaks, vkLKLeak{"singleflight_call", fmt.Sprint(n)})
	}
	return stuckCallers, leaks, nil
}

func (w *vkLKWorld) close() {
	vkLKCur.CompareAndSwap(w, nil)
}
