//go:build verif

package resolver

// Export seam for check C07, unit `race` (overlay-injected, never part of a
// normal build). The vkRace* functions are called from verif-only overlay
// patches of resolver.go (checks/C07.py, _RACE_PATCH); they only report to the
// harness and change nothing the resolver does. Without the patch they are
// never called.

import (
	"net/netip"
	"sync/atomic"
)

// VerifC07RaceHooks are the harness callbacks. Set them once, before the first
// resolution starts.
type VerifC07RaceHooks struct {
	// Hit: processDelegation found the referral's zone in the delegation table
	// (resolveWithCachedNameservers entered); level = rs.level before the increment.
	Hit func(zone string, level int)
	// Enter / Leave: a caller is about to wait in / has returned from the
	// singleflight call of groupLookup for key.
	Enter func(key string)
	Leave func(key string)
	// Flight: the leader closure of key started (+1) / returned (-1).
	Flight func(key string, d int)
}

var vkRaceHooks atomic.Pointer[VerifC07RaceHooks]

// VerifC07SetRaceHooks installs the callbacks (nil removes them).
func VerifC07SetRaceHooks(h *VerifC07RaceHooks) { vkRaceHooks.Store(h) }

func vkRaceHit(zone string, level int) {
	if h := vkRaceHooks.Load(); h != nil && h.Hit != nil {
		h.Hit(zone, level)
	}
}

func vkRaceEnter(key string) {
	if h := vkRaceHooks.Load(); h != nil && h.Enter != nil {
		h.Enter(key)
	}
}

func vkRaceLeave(key string) {
	if h := vkRaceHooks.Load(); h != nil && h.Leave != nil {
		h.Leave(key)
	}
}

func vkRaceFlight(key string, d int) {
	if h := vkRaceHooks.Load(); h != nil && h.Flight != nil {
		h.Flight(key, d)
	}
}

// VerifC07Glue returns the IPv4 addresses the NS-address (glue) cache holds for host.
func VerifC07Glue(h *DNSHandler, host string) []string {
	v, ok := h.resolver.getIPv4Cache(host)
	if !ok {
		return nil
	}
	out := make([]string, 0, len(v))
	for _, a := range v {
		out = append(out, netip.Addr(a).String())
	}
	return out
}
