//go:build verif

package resolver

// Export seam for check C08 (overlay-injected, never part of a normal build).
// Read-only: nothing here changes resolver behaviour.

import (
	"time"

	"github.com/miekg/dns"
	"github.com/semihalev/sdns/internal/cache"
)

// VerifC08Deleg is the raw (expiry-unfiltered) view of one cached delegation.
type VerifC08Deleg struct {
	Found     bool
	ExpiresAt time.Time
	Hosts     []string
	Addrs     []string
	DS        int
}

// VerifC08Delegation returns the stored delegation of zone in the CD bucket cd.
func VerifC08Delegation(h *DNSHandler, zone string, cd bool) VerifC08Deleg {
	key := cache.Key(dns.Question{Name: zone, Qtype: dns.TypeNS, Qclass: dns.ClassINET}, cd)
	d, ok := h.resolver.delegations.VerifC08Peek(key)
	if !ok {
		return VerifC08Deleg{}
	}
	return VerifC08Deleg{Found: true, ExpiresAt: d.ExpiresAt, Hosts: d.Hosts, Addrs: d.Addrs, DS: d.DS}
}

// VerifC08Glue reports whether the NS-address (glue) cache holds host.
func VerifC08Glue(h *DNSHandler, host string) bool {
	_, ok := h.resolver.getIPv4Cache(host)
	return ok
}
