//go:build verif

package resolver

// Export seam for check C08, unit `race` (overlay-injected, never part of a
// normal build). vkC08RaceHit is called from a verif-only overlay patch at the
// entry of resolveWithCachedNameservers (checks/C08.py, _RACE_PATCH): it only
// reports, and is never called without the patch. The singleflight hooks of
// the quiescence criterion are the ones of zz_verif_export_c07race.go.

import (
	"sync/atomic"
	"time"
)

// VerifC08RaceHit: processDelegation found the referral's zone in the delegation
// table. cachedExp = deadline of the table entry whose servers are about to be
// used; cut = rs.cutDeadline on entry = min(ancestor cut, lease of the referral
// this resolution has just observed).
type VerifC08RaceHit func(zone string, cachedExp, cut time.Time)

var vkC08RaceHook atomic.Pointer[VerifC08RaceHit]

// VerifC08SetRaceHit installs the callback (nil removes it).
func VerifC08SetRaceHit(f VerifC08RaceHit) {
	if f == nil {
		vkC08RaceHook.Store(nil)
		return
	}
	vkC08RaceHook.Store(&f)
}

func vkC08RaceHit(zone string, cachedExp, cut time.Time) {
	if f := vkC08RaceHook.Load(); f != nil {
		(*f)(zone, cachedExp, cut)
	}
}
