//go:build verif

package resolver

// C12 unit "v6budget": detached helper lookups belong to the request tree that started them. One client query
// meets a referral naming H name servers (A addresses available, no AAAA); with cfg.IPv6Access the resolver
// starts its detached IPv6 enrichment job for that referral, and every AAAA lookup of the job meets an F-way
// glue-less delegation tree L levels deep whose leaves do not exist. With the firewall off nothing but the
// structure bounds the work, so the number of name-server address lookups the whole tree starts — client path
// plus detached job, counted at the internal queryer — must stay within a constant that does not grow with H.
// The grid H x F is enumerated; the bound is twice the resolver's own per-tree allowance (maxNSAddrLookups),
// so the check does not pin the allowance itself. The authority's answers are a function of the question
// alone. Uses sdns's own in-package attack fixtures (recursion_attack_harness_test.go).

import (
	"context"
	"encoding/json"
	"fmt"
	"net"
	"strconv"
	"strings"
	"sync/atomic"
	"testing"
	"time"

	"github.com/miekg/dns"
	"github.com/semihalev/sdns/config"
	"github.com/semihalev/sdns/internal/authority"
	internalcache "github.com/semihalev/sdns/internal/cache"
	"github.com/semihalev/sdns/internal/verifshim/vkit"
	"github.com/semihalev/sdns/middleware"
)

type vkV6Case struct {
	Hosts  int `json:"hosts"`
	Fanout int `json:"fanout"`
	Levels int `json:"levels"`
}

func (c vkV6Case) String() string {
	return fmt.Sprintf("referral with %d NS hosts; AAAA lookups meet a %d-way glue-less tree, %d levels", c.Hosts, c.Fanout, c.Levels)
}

// vkV6Queryer stands in for the internal sub-pipeline (nesting cap 32, the real DNSHandler.handle under the
// same context) and counts the lookups the request tree starts.
type vkV6Queryer struct {
	handler *DNSHandler
	started atomic.Int64
}

type vkV6DepthKey struct{}

func (q *vkV6Queryer) Query(ctx context.Context, req *dns.Msg) (*dns.Msg, error) {
	if err := ctx.Err(); err != nil {
		return nil, err
	}
	depth, _ := ctx.Value(vkV6DepthKey{}).(int)
	if depth >= 32 {
		return nil, middleware.ErrMaxRecursion
	}
	ctx = context.WithValue(ctx, vkV6DepthKey{}, depth+1)
	q.started.Add(1)
	resp := q.handler.handle(ctx, req)
	if err := middleware.RequestLocalFailureForResponse(ctx, resp); err != nil {
		return nil, err
	}
	return resp, nil
}

// vkV6Run returns (lookups when the client was answered, lookups at quiescence, packets at the authority, error).
func vkV6Run(t *testing.T, cs vkV6Case) (int64, int64, int, string) {
	childIP := net.IPv4(192, 0, 2, 1)
	nxdomain := func() *dns.Msg {
		return &dns.Msg{MsgHdr: dns.MsgHdr{Authoritative: true, Rcode: dns.RcodeNameError}}
	}
	attacker := startAttackWireRecorder(t, func(q dns.Question) *dns.Msg {
		labels := dns.SplitDomainName(strings.ToLower(q.Name))
		if len(labels) != 3 || labels[2] != "test" {
			return nxdomain()
		}
		zone := labels[1]
		if zone == "v" {
			var referral []dns.RR
			for k := 0; k < cs.Hosts; k++ {
				referral = append(referral, &dns.NS{Hdr: dns.RR_Header{Name: "v.test.", Rrtype: dns.TypeNS, Class: dns.ClassINET, Ttl: 60},
					Ns: "ns.a" + string(rune('a'+k)) + ".test."})
			}
			return &dns.Msg{Ns: referral}
		}
		if !strings.HasPrefix(zone, "a") {
			return nxdomain()
		}
		// the referral's own name servers have an A record, straight from the root
		if len(zone) == 2 && labels[0] == "ns" && q.Qtype == dns.TypeA {
			m := &dns.Msg{Answer: []dns.RR{&dns.A{Hdr: dns.RR_Header{Name: q.Name, Rrtype: dns.TypeA, Class: dns.ClassINET, Ttl: 60}, A: childIP}}}
			m.Authoritative = true
			return m
		}
		if len(zone)-1 >= cs.Levels+1 {
			return nxdomain()
		}
		var referral []dns.RR
		for k := 0; k < cs.Fanout; k++ {
			referral = append(referral, &dns.NS{Hdr: dns.RR_Header{Name: zone + ".test.", Rrtype: dns.TypeNS, Class: dns.ClassINET, Ttl: 60},
				Ns: "ns." + zone + strconv.Itoa(k) + ".test."})
		}
		return &dns.Msg{Ns: referral}
	})
	child := startAttackWireRecorder(t, func(q dns.Question) *dns.Msg {
		m := &dns.Msg{Answer: []dns.RR{&dns.A{Hdr: dns.RR_Header{Name: q.Name, Rrtype: dns.TypeA, Class: dns.ClassINET, Ttl: 60}, A: net.IPv4(192, 0, 2, 200)}}}
		m.Authoritative = true
		return m
	})
	mapper := func(addr string) string {
		if addr == net.JoinHostPort(childIP.String(), "53") {
			return child.addr()
		}
		return addr
	}
	root := &authority.Servers{Zone: ".", List: []*authority.Server{authority.NewServer(attacker.addr(), authority.IPv4)}, CheckingDisable: true}
	r := newAttackHarnessResolver(root)
	r.resolveTarget.Store(&mapper)
	r.cfg.QueryTimeout = config.Duration{Duration: 8 * time.Second}
	r.cfg.IPv6Access = true
	r.glueV6 = internalcache.New(defaultCacheSize)
	handler := &DNSHandler{resolver: r, cfg: r.cfg}
	queryer := &vkV6Queryer{handler: handler}
	installAttackQueryer(r, queryer)

	req := new(dns.Msg)
	req.SetQuestion("www.v.test.", dns.TypeA)
	ctx, cancel := context.WithTimeout(context.Background(), 8*time.Second)
	resp := handler.handle(ctx, req)
	cancel()
	if resp == nil || resp.Rcode != dns.RcodeSuccess || len(resp.Answer) == 0 {
		return 0, 0, 0, fmt.Sprintf("the client path itself failed: %v", resp)
	}
	atReply := queryer.started.Load()
	// the detached job sleeps 2 s first; then wait until the counter has been still for 3 polls (or 40 s: the job's own timeout is 30 s)
	time.Sleep(2500 * time.Millisecond)
	last, still := int64(-1), 0
	for i := 0; i < 130 && still < 3; i++ {
		now := queryer.started.Load()
		if now == last {
			still++
		} else {
			still = 0
		}
		last = now
		time.Sleep(300 * time.Millisecond)
	}
	return atReply, queryer.started.Load(), int(attacker.count()), ""
}

func TestVerifC12V6Budget(t *testing.T) {
	c := vkit.Init("C12/v6budget")
	defer c.Close()
	judge := func(cs vkV6Case) (string, string) {
		atReply, total, packets, herr := vkV6Run(t, cs)
		if herr != "" {
			return "", herr
		}
		c.Add("evaluations", 1)
		c.Add("traces", 1)
		c.Outcome(fmt.Sprintf("hosts=%d lookups<=%d", cs.Hosts, (total+15)/16*16))
		c.DistinctStr("nontrivial", cs.String())
		c.Sample(map[string]any{"case": cs.String(), "lookups_when_answered": atReply, "lookups_total": total, "authority_packets": packets})
		if bound := int64(2 * maxNSAddrLookups); total > bound {
			return fmt.Sprintf("%s, firewall off, IPv6 access on: the request tree started %d name-server address lookups (%d when the client was answered, the rest from the detached IPv6 job; %d packets at the authority) — more than %d, and growing with the number of NS names in the referral: detached helper lookups are outside the tree's bound",
				cs, total, atReply, packets, bound), ""
		}
		return "", ""
	}
	if c.Replay != nil {
		var cs vkV6Case
		if err := json.Unmarshal(c.Replay, &cs); err != nil {
			c.HarnessError("bad replay: " + err.Error())
			return
		}
		v, h := judge(cs)
		if h != "" {
			c.HarnessError(h)
		} else if v != "" {
			c.Violation("v6budget:replay", v, cs)
		}
		return
	}
	hosts := []int{1, 3, 10}
	fans := []int{2, 3}
	if c.Thorough() {
		hosts = []int{1, 2, 3, 5, 10, 13}
		fans = []int{2, 3, 4}
	}
	n := 0
	for _, h := range hosts {
		for _, f := range fans {
			n++
			if !c.Mine(n) {
				continue
			}
			cs := vkV6Case{Hosts: h, Fanout: f, Levels: 4}
			v, herr := judge(cs)
			if herr != "" {
				c.HarnessError(cs.String() + ": " + herr)
				return
			}
			if v != "" {
				c.Violation(fmt.Sprintf("v6budget:hosts=%d|fan=%d", h, f), v, cs)
			}
		}
	}
}
