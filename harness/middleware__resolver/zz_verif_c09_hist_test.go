//go:build verif

package resolver

// C09 — root trust anchors change only as RFC 5011 permits, across crashes and faults.
//
// Explicit-state BFS over event histories on the REAL (*Resolver).AutoTA():
// every history is replayed on a fresh directory and a fresh Resolver built by
// NewResolver (a "restart" is another NewResolver on the same directory, with a
// configuration that still lists K1), against a scripted root on loopback, under
// the virtual clock (time -> vtime in the resolver, dnssec, dnsutil, middleware
// packages) and with every file operation of the persistence path going through
// vos (os -> vos in the resolver package): logged, and failable one by one.
//
// Oracle: a small RFC 5011 reference automaton per key, stepped only with
// publications authenticated by the reference's own trusted non-revoked set, and
// turned into a three-valued verdict per key (MUST be trusted / MUST NOT / MAY).
// Liveness is never demanded (promotion at day 30 and removal at day 90 are MAY);
// MUST is demanded only in histories without an injected fault or crash.

import (
	"bytes"
	"encoding/gob"
	"fmt"
	"os" // the REAL os (harness files are not import-rewritten)
	"path/filepath"
	"sort"
	"strings"
	"time"

	"github.com/miekg/dns"
	"github.com/semihalev/sdns/config"
	"github.com/semihalev/sdns/internal/verifshim/crashfs"
	"github.com/semihalev/sdns/internal/verifshim/vkit"
	"github.com/semihalev/sdns/internal/verifshim/vos"
	"github.com/semihalev/sdns/internal/verifshim/vtime"
	"github.com/semihalev/sdns/middleware/resolver/dnssec"
)

const vkDay = 24 * time.Hour

// ---------------------------------------------------------------- events

type vkC09Ev struct {
	Kind  string `json:"kind"`            // "ref" refresh | "adv" | "restart" | "corrupt"
	Pub   string `json:"pub,omitempty"`   // ref: publication name
	D     int    `json:"d,omitempty"`     // adv: days
	Fault string `json:"fault,omitempty"` // ref: "" | "fail" (one file op fails) | "dual" (both writes fail) | "tombloop" (store cannot be opened); corrupt: "tomb" | "state"
	File  string `json:"file,omitempty"`  // fail: "w1" | "w2" = first / second atomic write of the refresh (unchanged code: tombstones, then state)
	Op    string `json:"op,omitempty"`    // fail: create|write|sync|close|rename|syncdir
	N     int    `json:"n,omitempty"`     // fail/write: which write of that file; corrupt: shape 0..3
}

func (e vkC09Ev) String() string {
	switch e.Kind {
	case "adv":
		return fmt.Sprintf("adv(%dd)", e.D)
	case "restart":
		return "restart"
	case "corrupt":
		return fmt.Sprintf("corrupt(%s,shape%d)", e.Fault, e.N)
	}
	switch e.Fault {
	case "fail":
		return fmt.Sprintf("refresh(%s)!fail(%s.%s#%d)", e.Pub, e.File, e.Op, e.N)
	case "dual":
		return fmt.Sprintf("refresh(%s)!bothwritesfail", e.Pub)
	case "tombloop":
		return fmt.Sprintf("refresh(%s)!tombstones-unopenable", e.Pub)
	}
	return fmt.Sprintf("refresh(%s)", e.Pub)
}

func (e vkC09Ev) isFault() bool { return e.Fault != "" }

func vkC09HistStr(h []vkC09Ev) string {
	s := make([]string, len(h))
	for i, e := range h {
		s[i] = e.String()
	}
	return strings.Join(s, " ")
}

// vkC09Events builds the alphabet, simplest first.
func vkC09Events(thorough bool) []vkC09Ev {
	var evs []vkC09Ev
	pubs := []string{"honest", "intro", "cosign", "k2signs", "k2only", "k1gone", "revoke", "revself", "revintro", "revnoself",
		"collide", "collrev", "collrevonly", "forged", "unsigned", "revk2", "k2k3", "revshadow", "revshadow2", "riderch"}
	for _, p := range pubs {
		evs = append(evs, vkC09Ev{Kind: "ref", Pub: p})
	}
	for _, d := range []int{1, 29, 31, 89, 91} {
		evs = append(evs, vkC09Ev{Kind: "adv", D: d})
	}
	evs = append(evs, vkC09Ev{Kind: "restart"})
	// faults
	fpubs := []string{"revoke", "revself", "intro", "honest"}
	if thorough {
		fpubs = append(fpubs, "cosign", "k1gone", "revk2")
	}
	type fop struct {
		op string
		n  int
	}
	ops := []fop{{"create", 0}, {"write", 0}, {"write", 5}, {"sync", 0}, {"close", 0}, {"rename", 0}, {"syncdir", 0}}
	if thorough {
		ops = []fop{{"create", 0}, {"write", 0}, {"write", 1}, {"write", 2}, {"write", 3}, {"write", 4}, {"write", 5}, {"sync", 0}, {"close", 0}, {"rename", 0}, {"syncdir", 0}}
	}
	for _, p := range fpubs {
		evs = append(evs, vkC09Ev{Kind: "ref", Pub: p, Fault: "dual"})
		for _, f := range []string{"w1", "w2"} {
			for _, o := range ops {
				evs = append(evs, vkC09Ev{Kind: "ref", Pub: p, Fault: "fail", File: f, Op: o.op, N: o.n})
			}
		}
		evs = append(evs, vkC09Ev{Kind: "ref", Pub: p, Fault: "tombloop"})
	}
	shapes := []int{0, 1}
	if thorough {
		shapes = []int{0, 1, 2, 3}
	}
	for _, f := range []string{"tomb", "state"} {
		for _, s := range shapes {
			evs = append(evs, vkC09Ev{Kind: "corrupt", Fault: f, N: s})
		}
	}
	return evs
}

// ---------------------------------------------------------------- reference automaton (RFC 5011 §4)

const (
	vkStart = iota
	vkAddPend
	vkValid
	vkMissing
	vkRevoked
)

var vkC09StName = []string{"Start", "AddPend", "Valid", "Missing", "Revoked"}
var vkC09Bases = []string{"K1", "K2", "K3", "U"}

type vkC09RK struct {
	St    int
	Since time.Duration // virtual offset at which AddPend / Missing began
	// Volatile: revocation accepted while NEITHER record could be persisted. A restart cannot
	// remember it (Prev is restored); the same process must still not trust the key.
	Vol       bool
	Prev      int
	PrevSince time.Duration
}

type vkC09Ref struct {
	K          map[string]*vkC09RK
	Configured map[string]bool
}

func vkC09NewRef() *vkC09Ref {
	r := &vkC09Ref{K: map[string]*vkC09RK{}, Configured: map[string]bool{"K1": true}}
	for _, b := range vkC09Bases {
		r.K[b] = &vkC09RK{St: vkStart}
	}
	r.K["K1"].St = vkValid
	return r
}

func (r *vkC09Ref) clone() *vkC09Ref {
	n := &vkC09Ref{K: map[string]*vkC09RK{}, Configured: r.Configured}
	for b, k := range r.K {
		c := *k
		n.K[b] = &c
	}
	return n
}

func (r *vkC09Ref) trusted(b string) bool {
	k := r.K[b]
	return k != nil && (k.St == vkValid || k.St == vkMissing)
}

func (r *vkC09Ref) String() string {
	var p []string
	for _, b := range vkC09Bases {
		k := r.K[b]
		s := b + "=" + vkC09StName[k.St]
		if k.St == vkAddPend {
			s += fmt.Sprintf("@%d", vkC09CapDays(vtime.Offset()-k.Since, 31))
		}
		if k.St == vkMissing {
			s += fmt.Sprintf("@%d", vkC09CapDays(vtime.Offset()-k.Since, 91))
		}
		if k.Vol {
			s += "~vol"
		}
		p = append(p, s)
	}
	return strings.Join(p, ",")
}

func vkC09CapDays(d time.Duration, cap int) int {
	n := int((d + vkDay/2) / vkDay)
	if n > cap {
		n = cap
	}
	return n
}

// restart: what no record could capture is forgotten.
func (r *vkC09Ref) restart() {
	for _, k := range r.K {
		if k.St == vkRevoked && k.Vol {
			k.St, k.Since, k.Vol = k.Prev, k.PrevSince, false
		}
	}
}

type vkC09Step struct {
	Auth    string   // "full" | "revonly" | "none"
	Revoked []string // bases whose revocation this publication completes
	Present map[string]bool
	Labels  []string
}

// classify authenticates the publication against the reference's own trusted set.
func (r *vkC09Ref) classify(p *vkC09Pub, rejectedWhole bool) vkC09Step {
	st := vkC09Step{Auth: "none", Present: map[string]bool{}}
	if p.Rider != "" && rejectedWhole {
		// a DNSKEY record outside the signed RRset travels with it. The property leaves two readings open
		// and the reference follows the one the implementation reports having taken: refuse the response as
		// a whole (validation error: nothing may change), or drop the stray record and judge the signed
		// RRset on its own (below: the rider key is then simply absent from the publication). Either way
		// the rider never counts as published.
		return st
	}
	full := false
	for _, s := range p.Sigs {
		if !strings.HasSuffix(s, "r") && r.trusted(s) {
			full = true
		}
	}
	for _, k := range p.Keys {
		if strings.HasSuffix(k, "r") {
			b := vkC09Base(k)
			// a revocation no record could hold (Vol) is simply completed again when it is seen again
			if (r.trusted(b) || (r.K[b].St == vkRevoked && r.K[b].Vol)) && p.signedBy(k) {
				st.Revoked = append(st.Revoked, b)
			}
		} else {
			st.Present[k] = true
		}
	}
	switch {
	case full:
		st.Auth = "full"
	case len(st.Revoked) > 0:
		st.Auth = "revonly"
	}
	return st
}

// apply performs the transitions of an authenticated publication.
func (r *vkC09Ref) apply(st *vkC09Step, now time.Duration) {
	if st.Auth == "none" {
		st.Labels = append(st.Labels, "rejected-unauthenticated")
		return
	}
	for _, b := range st.Revoked {
		k := r.K[b]
		if k.St == vkRevoked {
			k.Vol = false
			st.Labels = append(st.Labels, "revocation-completed-again")
			continue
		}
		k.Prev, k.PrevSince = k.St, k.Since
		k.St = vkRevoked
		st.Labels = append(st.Labels, "revocation-completed")
	}
	if st.Auth != "full" {
		st.Labels = append(st.Labels, "revocation-only-authenticated")
		return
	}
	st.Labels = append(st.Labels, "accepted")
	for _, b := range vkC09Bases {
		k := r.K[b]
		if k.St == vkRevoked {
			continue
		}
		if st.Present[b] {
			switch k.St {
			case vkStart:
				k.St, k.Since = vkAddPend, now
				st.Labels = append(st.Labels, "addpend")
			case vkMissing:
				k.St = vkValid
				st.Labels = append(st.Labels, "returned-to-valid")
			}
		} else {
			switch k.St {
			case vkAddPend:
				k.St = vkStart
				st.Labels = append(st.Labels, "addpend-aborted")
			case vkValid:
				k.St, k.Since = vkMissing, now
				st.Labels = append(st.Labels, "missing")
			}
		}
	}
}

const (
	vkMay = iota
	vkMust
	vkMustNot
)

const vkSlack = time.Hour // events are whole days; real elapsed time per history is milliseconds

// verdict is the reference's demand on one key after the step.
func (r *vkC09Ref) verdict(b string, st *vkC09Step, now time.Duration) (int, string) {
	k := r.K[b]
	switch k.St {
	case vkRevoked:
		if k.Vol {
			return vkMustNot, "its self-signed revocation was accepted earlier in this process (no record could be persisted)"
		}
		return vkMustNot, "its self-signed revocation was accepted earlier"
	case vkStart:
		return vkMustNot, "it was never held for 30 days in accepted refreshes"
	case vkAddPend:
		if st != nil && st.Auth == "full" && st.Present[b] && now-k.Since >= 30*vkDay-vkSlack {
			return vkMay, ""
		}
		return vkMustNot, fmt.Sprintf("it has been pending for only %.1f days of uninterrupted presence in accepted refreshes (or this refresh cannot promote it)", float64(now-k.Since)/float64(vkDay))
	case vkValid:
		return vkMust, "it is a valid trust anchor"
	case vkMissing:
		if now-k.Since < 90*vkDay-vkSlack {
			return vkMust, fmt.Sprintf("it has merely been missing for %.1f days (< 90)", float64(now-k.Since)/float64(vkDay))
		}
		return vkMay, ""
	}
	return vkMay, ""
}

// ---------------------------------------------------------------- resolver instances

var (
	vkC09Fresh    int
	vkC09Recycled int
	vkC09Retired  []*Resolver
	vkC09Pool     []*Resolver
)

const vkC09FreshCap = 500 // NewResolver leaks its run() goroutine (a 50 ms poll loop); beyond this instances are recycled

func vkC09Cfg(dir string) *config.Config {
	u := vkC09Universe()
	cfg := new(config.Config)
	cfg.RootServers = []string{vkC09RootSrv.addr}
	cfg.RootKeys = []string{u.form("K1").String()}
	cfg.Maxdepth = 30
	cfg.Expire = 600
	cfg.CacheSize = 1024
	cfg.Timeout.Duration = 3 * time.Second
	cfg.Directory = dir
	cfg.DNSSEC = "on"
	return cfg
}

// vkC09LastReal: the last resolver handed out was built by the real NewResolver (not a recycled
// instance whose start-up state the harness rebuilt by hand).
var vkC09LastReal bool

func vkC09GetResolver(dir string) *Resolver {
	cfg := vkC09Cfg(dir)
	if vkC09Fresh < vkC09FreshCap || len(vkC09Pool) == 0 {
		vkC09Fresh++
		vkC09LastReal = true
		return NewResolver(cfg)
	}
	vkC09LastReal = false
	// recycled: the start-up state NewResolver builds, rebuilt on an old instance
	r := vkC09Pool[len(vkC09Pool)-1]
	vkC09Pool = vkC09Pool[:len(vkC09Pool)-1]
	vkC09Recycled++
	r.Lock()
	r.cfg = cfg
	r.rootKeys = []dns.RR{}
	for _, k := range cfg.RootKeys {
		rr, err := dns.NewRR(k)
		if err != nil {
			panic(err)
		}
		r.rootKeys = append(r.rootKeys, rr)
	}
	r.configuredRootKeys = append([]dns.RR(nil), r.rootKeys...)
	r.Unlock()
	r.parseRootServers(cfg)
	r.circuitBreaker = newCircuitBreaker()
	return r
}

func vkC09PutResolver(r *Resolver) {
	if r == nil {
		return
	}
	if vkC09Fresh >= vkC09FreshCap && len(vkC09Pool) < 8 {
		vkC09Pool = append(vkC09Pool, r)
		return
	}
	// the leaked run() goroutine keeps r alive: drop its large tables a few instances later
	vkC09Retired = append(vkC09Retired, r)
	if len(vkC09Retired) > 16 {
		old := vkC09Retired[0]
		vkC09Retired = vkC09Retired[1:]
		old.glueV4, old.glueV6, old.delegations = nil, nil, nil
	}
}

// ---------------------------------------------------------------- world

type vkC09Ent struct {
	State State
	First time.Time
}

type vkC09Obs struct {
	I        map[string]bool // trusted: form names in r.rootKeys
	State    map[string]vkC09Ent
	StateErr string // "" | "absent" | "corrupt"
	Tomb     map[string]bool // base names tombstoned
	TombErr  string // "" | "absent" | "corrupt" | "unopenable"
	Files    map[string][]byte
}

type vkC09World struct {
	dir       string
	r         *Resolver
	ref       *vkC09Ref
	faults    int  // injected faults that fired (incl. corruption, crash)
	faultKind string // first injected fault: dual | fail:tomb | fail:state | tombloop | corrupt:tomb | corrupt:state | crash
	lastPreDg string // digest before the last refresh
	lastResult string // AutoTA's own refresh-result metric for the last refresh
	faultsBeforeLast int
	fresh     bool // no AutoTA yet on this Resolver
	lastLog   []vos.Op
	lastPre   map[string][]byte
	lastRefB  *vkC09Ref // reference before the last refresh
	lastWrote bool
	lastRev   bool // the last refresh completed a revocation (reference)
	outcomes  []string
}

func vkC09ScratchBase() string {
	if st, err := os.Stat("/dev/shm"); err == nil && st.IsDir() {
		return "/dev/shm"
	}
	return os.TempDir()
}

func vkC09NewWorld() (*vkC09World, error) {
	if _, err := vkC09StartRoot(); err != nil {
		return nil, err
	}
	vtime.SetOffset(0)
	vos.Plan = nil
	dir, err := os.MkdirTemp(vkC09ScratchBase(), "vkc09-")
	if err != nil {
		return nil, err
	}
	w := &vkC09World{dir: dir, ref: vkC09NewRef()}
	w.r = vkC09GetResolver(dir)
	w.fresh = true
	return w, nil
}

func (w *vkC09World) stop() {
	vos.Plan = nil
	vkC09PutResolver(w.r)
	w.r = nil
	_ = os.RemoveAll(w.dir)
	_ = os.RemoveAll(w.dir + ".away")
}

func (w *vkC09World) statePath() string { return filepath.Join(w.dir, stateFile) }
func (w *vkC09World) tombPath() string  { return filepath.Join(w.dir, tombstoneFile) }

func vkC09Snapshot(dir string) map[string][]byte {
	m := map[string][]byte{}
	ents, _ := os.ReadDir(dir)
	for _, e := range ents {
		p := filepath.Join(dir, e.Name())
		if e.Type()&os.ModeSymlink != 0 {
			t, _ := os.Readlink(p)
			m[p] = []byte("symlink:" + t)
			continue
		}
		if e.IsDir() {
			continue
		}
		if b, err := os.ReadFile(p); err == nil {
			m[p] = b
		}
	}
	return m
}

func vkC09SameFiles(a, b map[string][]byte) bool {
	if len(a) != len(b) {
		return false
	}
	for p, d := range a {
		if e, ok := b[p]; !ok || !bytes.Equal(d, e) {
			return false
		}
	}
	return true
}

func (w *vkC09World) observe() vkC09Obs {
	u := vkC09Universe()
	o := vkC09Obs{I: map[string]bool{}, State: map[string]vkC09Ent{}, Tomb: map[string]bool{}}
	w.r.RLock()
	for _, rr := range w.r.rootKeys {
		if k, ok := rr.(*dns.DNSKEY); ok {
			o.I[u.nameOf(k)] = true
		}
	}
	w.r.RUnlock()
	o.Files = vkC09Snapshot(w.dir)
	if b, err := os.ReadFile(w.statePath()); err != nil {
		o.StateErr = "absent"
	} else {
		ta := make(TrustAnchors)
		if err := gob.NewDecoder(bytes.NewReader(b)).Decode(&ta); err != nil {
			o.StateErr = "corrupt"
		} else {
			for _, e := range ta {
				o.State[u.nameOf(e.DNSKey)] = vkC09Ent{State: e.State, First: e.FirstSeen}
			}
		}
	}
	if fi, err := os.Lstat(w.tombPath()); err != nil {
		o.TombErr = "absent"
	} else if fi.Mode()&os.ModeSymlink != 0 {
		o.TombErr = "unopenable"
	} else {
		b, _ := os.ReadFile(w.tombPath())
		tb := make(Tombstones)
		if err := gob.NewDecoder(bytes.NewReader(b)).Decode(&tb); err != nil {
			o.TombErr = "corrupt"
		} else {
			for _, e := range tb {
				o.Tomb[vkC09Base(u.nameOf(e.DNSKey))] = true
			}
		}
	}
	return o
}

// digest: reference state + the implementation's live anchors + decoded files. Ages are kept
// only where the code compares them (pending vs 30 d, missing vs 90 d), capped past the threshold.
func (w *vkC09World) digest(o vkC09Obs) string {
	now := vtime.Now()
	var p []string
	p = append(p, "ref:"+w.ref.String(), "I:"+vkC09SortedJoin(o.I))
	var st []string
	for n, e := range o.State {
		s := fmt.Sprintf("%s=%s", n, e.State.String())
		switch e.State {
		case StateAddPend:
			s += fmt.Sprintf("@%d", vkC09CapDays(now.Sub(e.First), 31))
		case StateMissing:
			s += fmt.Sprintf("@%d", vkC09CapDays(now.Sub(e.First), 91))
		}
		st = append(st, s)
	}
	sort.Strings(st)
	p = append(p, "state["+o.StateErr+"]:"+strings.Join(st, ","))
	p = append(p, "tomb["+o.TombErr+"]:"+vkC09SortedJoin(o.Tomb))
	if w.fresh {
		p = append(p, "fresh-process")
	}
	if w.faults > 0 {
		p = append(p, "faulted")
	}
	return strings.Join(p, " | ")
}

// ---------------------------------------------------------------- faults

var vkC09WritesPerFile = 6 // gob emits 5 type-definition chunks + 1 value per atomicGobWrite (verified on every log)

func vkC09Corrupt(shape int, valid []byte) []byte {
	switch shape {
	case 0:
		return []byte{}
	case 1: // truncated
		if len(valid) > 8 {
			return append([]byte(nil), valid[:len(valid)/2]...)
		}
		return []byte{0x0d, 0x7f, 0x04}
	case 2: // flipped header byte
		if len(valid) > 8 {
			b := append([]byte(nil), valid...)
			b[1] ^= 0x55
			return b
		}
		return []byte{0xff, 0xff, 0xff, 0xff}
	default: // a well-formed gob stream of a foreign type
		var buf bytes.Buffer
		_ = gob.NewEncoder(&buf).Encode(map[string]int{"x": 1})
		return buf.Bytes()
	}
}

// vkC09ResultCounters reads AutoTA's refresh-result metrics (exactly one is incremented per run).
func vkC09ResultCounters() [6]int64 {
	return [6]int64{taRefreshSuccess.Value(), taRefreshWorkBudget.Value(), taRefreshTimeout.Value(),
		taRefreshQueryError.Value(), taRefreshValidationError.Value(), taRefreshPersistenceError.Value()}
}

func vkC09ResultDiff(a, b [6]int64) string {
	names := []string{"success", "work_budget", "timeout", "query_error", "validation_error", "persistence_error"}
	var out []string
	for i := range a {
		if b[i] != a[i] {
			out = append(out, names[i])
		}
	}
	return strings.Join(out, "+")
}

// ---------------------------------------------------------------- applying events

type vkC09Viol struct {
	Key string
	Msg string
}

func (w *vkC09World) faultTag() string {
	if w.faults > 0 {
		return "with-fault"
	}
	return "no-fault"
}

func (w *vkC09World) apply(ev vkC09Ev) (*vkC09Viol, string) {
	switch ev.Kind {
	case "adv":
		vtime.Advance(time.Duration(ev.D) * vkDay)
		return nil, "advance"
	case "restart":
		vkC09PutResolver(w.r)
		w.r = vkC09GetResolver(w.dir)
		w.fresh = true
		w.ref.restart()
		if vkC09LastReal {
			// what the new process trusts between start-up and its first refresh: a key the revocation
			// store on disk lists must not be among it ("never published as a trust anchor again - not
			// after restarts … configuration that still lists it")
			o := w.observe()
			if o.TombErr == "" {
				for form := range o.I {
					if b := vkC09Base(form); o.Tomb[b] {
						return &vkC09Viol{Key: "a-revoked-key-trusted|at-startup|" + b,
							Msg: fmt.Sprintf("after the restart, before any refresh, the new process trusts %v although the revocation store on disk lists %s as revoked", vkC09SortedKeys(o.I), b)}, "restart"
					}
				}
			}
		}
		return nil, "restart"
	case "corrupt":
		path := w.statePath()
		if ev.Fault == "tomb" {
			path = w.tombPath()
		}
		old, _ := os.ReadFile(path)
		if err := os.WriteFile(path, vkC09Corrupt(ev.N, old), 0o644); err != nil {
			return &vkC09Viol{Key: "harness", Msg: "harness: " + err.Error()}, "harness"
		}
		w.faults++
		if w.faultKind == "" {
			w.faultKind = "corrupt:" + ev.Fault
		}
		return nil, "corrupt-" + ev.Fault
	case "ref":
		return w.refresh(ev)
	}
	return &vkC09Viol{Key: "harness", Msg: "harness: unknown event " + ev.Kind}, "harness"
}

func (w *vkC09World) refresh(ev vkC09Ev) (*vkC09Viol, string) {
	pub := vkC09PubByName(ev.Pub)
	if pub == nil {
		return &vkC09Viol{Key: "harness", Msg: "harness: unknown publication " + ev.Pub}, "harness"
	}
	root := vkC09RootSrv
	root.cur.Store(pub)
	pre := w.observe()
	refBefore := w.ref.clone()
	w.faultsBeforeLast = w.faults
	w.lastPreDg = w.digest(pre)

	// ---- install the fault
	plan := vos.NewPlan()
	var loopSaved []byte
	loopHad := false
	switch ev.Fault {
	case "fail":
		per := map[string]int{"create": 1, "write": vkC09WritesPerFile, "sync": 1, "close": 1, "rename": 1, "syncdir": 1}
		at := ev.N
		if ev.File == "w2" {
			at += per[ev.Op]
		}
		if ev.Op == "close" { // closes of the files AutoTA reads come first
			if pre.StateErr == "" {
				at++
			}
			if pre.TombErr == "" || pre.TombErr == "corrupt" {
				at++
			}
		}
		plan.FailKinds = map[string]bool{ev.Op: true}
		plan.FailAt = at
	case "dual":
		// both atomicGobWrite calls fail at CreateTemp: the directory is moved away between
		// AutoTA's reads (done before the query is sent) and its writes (after the answer).
		dir := w.dir
		h := func() { _ = os.Rename(dir, dir+".away") }
		root.hook.Store(&h)
	case "tombloop":
		// the tombstone store exists but cannot be opened (ELOOP): an open error that is not ENOENT
		if b, err := os.ReadFile(w.tombPath()); err == nil {
			loopSaved, loopHad = b, true
		}
		_ = os.Remove(w.tombPath())
		if err := os.Symlink(tombstoneFile, w.tombPath()); err != nil {
			return &vkC09Viol{Key: "harness", Msg: "harness: " + err.Error()}, "harness"
		}
	}
	q0 := root.queries.Load()
	res0 := vkC09ResultCounters()
	vos.Plan = plan
	w.r.AutoTA()
	vos.Plan = nil
	root.hook.Store(nil)
	asked := root.queries.Load() > q0
	w.lastResult = vkC09ResultDiff(res0, vkC09ResultCounters())
	fired, failedFile := false, ""
	switch ev.Fault {
	case "fail":
		seg, segFile := 0, ""
		for _, op := range plan.Log {
			if op.Kind == "create" {
				seg++
				segFile = "state"
				if strings.Contains(filepath.Base(op.Path), tombstoneFile) {
					segFile = "tomb"
				}
			}
			if op.Fail {
				fired = true
				failedFile = segFile
				want := 1
				if ev.File == "w2" {
					want = 2
				}
				if op.Kind != ev.Op || seg != want || !strings.Contains(op.Path, w.dir) {
					return &vkC09Viol{Key: "harness", Msg: fmt.Sprintf("harness: fault %v hit op %s %s (atomic write #%d)", ev, op.Kind, op.Path, seg)}, "harness"
				}
			}
		}
	case "dual":
		if _, err := os.Stat(w.dir + ".away"); err == nil {
			fired = true
			if err := os.Rename(w.dir+".away", w.dir); err != nil {
				return &vkC09Viol{Key: "harness", Msg: "harness: " + err.Error()}, "harness"
			}
		}
	case "tombloop":
		fired = true
		if fi, err := os.Lstat(w.tombPath()); err == nil && fi.Mode()&os.ModeSymlink != 0 {
			// untouched by the implementation: the transient condition ends, the old store is back
			_ = os.Remove(w.tombPath())
			if loopHad {
				_ = os.WriteFile(w.tombPath(), loopSaved, 0o644)
			}
		}
	}
	if fired {
		w.faults++
		if w.faultKind == "" {
			w.faultKind = ev.Fault
			if ev.Fault == "fail" {
				w.faultKind += ":" + failedFile
			}
		}
	}
	// persistence log (from the first create on) for crash enumeration
	w.lastLog, w.lastPre, w.lastRefB = nil, pre.Files, refBefore
	for i, op := range plan.Log {
		if op.Kind == "create" {
			w.lastLog = plan.Log[i:]
			break
		}
	}
	w.lastWrote = len(w.lastLog) > 0
	// sanity: layout of the log the fault indices rely on
	if ev.Fault == "" && w.lastWrote {
		nw, files := 0, 0
		for _, op := range w.lastLog {
			if op.Kind == "write" {
				nw++
			}
			if op.Kind == "create" {
				files++
			}
		}
		// (an implementation may skip rewriting a store that did not change: one file is as legitimate as two)
		if files < 1 || files > 2 || nw != files*vkC09WritesPerFile {
			return &vkC09Viol{Key: "harness", Msg: fmt.Sprintf("harness: unexpected persistence log layout: %d files, %d writes", files, nw)}, "harness"
		}
	}
	w.fresh = false
	post := w.observe()
	return w.judge(ev, pub, pre, post, asked, fired)
}

// judge steps the reference and compares.
func (w *vkC09World) judge(ev vkC09Ev, pub *vkC09Pub, pre, post vkC09Obs, asked, fired bool) (*vkC09Viol, string) {
	now := vtime.Offset()
	w.lastRev = false
	ft := w.faultTag()
	// (e) corrupt revocation store: fail closed, nothing else happens
	if pre.TombErr == "corrupt" {
		if len(post.I) != 0 {
			return &vkC09Viol{Key: "e-corrupt-tombstones-not-failclosed|" + vkC09SortedJoin(post.I),
				Msg: fmt.Sprintf("the tombstone store is corrupt (undecodable) but validation still trusts [%s] instead of failing closed", vkC09SortedJoin(post.I))}, ""
		}
		return nil, "failclosed-corrupt-tombstones"
	}
	switch w.lastResult {
	case "timeout", "query_error", "work_budget":
		// the loopback exchange itself failed (machine overloaded): not a verdict, the history is replayed
		return &vkC09Viol{Key: "transient", Msg: "transient: AutoTA reported " + w.lastResult}, "transient"
	}
	if !asked {
		return &vkC09Viol{Key: "harness", Msg: "harness: AutoTA did not query the scripted root (result " + w.lastResult + ")"}, "harness"
	}
	st := w.ref.classify(pub, strings.Contains(w.lastResult, "validation_error"))
	w.ref.apply(&st, now)
	if len(st.Revoked) > 0 {
		w.lastRev = true
		if ev.Fault == "dual" && fired {
			for _, b := range st.Revoked {
				w.ref.K[b].Vol = true
			}
		}
	}
	label := strings.Join(st.Labels, "+")
	if fired {
		label += "/fault:" + ev.Fault
		if ev.Fault == "fail" {
			label += ":" + ev.File + "." + ev.Op
		}
	}
	// (e) both writes failed during a new revocation: fail closed
	if ev.Fault == "dual" && fired && len(st.Revoked) > 0 && len(post.I) != 0 {
		return &vkC09Viol{Key: "e-unpersisted-revocation-not-failclosed|" + vkC09SortedJoin(post.I),
			Msg: fmt.Sprintf("neither record of the new revocation of %v could be persisted but validation still trusts [%s]", st.Revoked, vkC09SortedJoin(post.I))}, ""
	}
	// per-key verdicts
	for _, b := range vkC09Bases {
		v, why := w.ref.verdict(b, &st, now)
		k := w.ref.K[b]
		in := post.I[b]
		if post.I[b+"r"] {
			return &vkC09Viol{Key: "a-revoked-form-trusted|" + b, Msg: "the REVOKED form of " + b + " is in the live trust set"}, ""
		}
		switch {
		case v == vkMustNot && in:
			fc := vkC09FaultClass(ev, fired, w)
			who := "|" + b + "|no-fault"
			if fc != "" {
				who = fc // fault-induced classes are keyed by the fault, not by the key they happen to hit
			}
			key := "c-untrusted-key-trusted" + who
			if k.St == vkRevoked {
				key = "a-revoked-key-trusted" + who
				for _, rb := range st.Revoked {
					if rb == b { // the very refresh that carries the revocation
						key = "a-revocation-ignored|" + b + "|pub=" + pub.Name
						if fired {
							key += "|fault=" + ev.Fault
						}
					}
				}
			} else if k.St == vkAddPend {
				key = "c-key-trusted-before-holddown" + who
			} else if pb := w.lastRefB.K[b]; pb.St == vkAddPend && st.Auth == "full" && !st.Present[b] && vkC09TagCollides(pub, b) {
				// pending key absent from this accepted set, but another published key has its key tag
				key = "c-absent-pending-key-promoted-by-colliding-tag|" + b
			}
			// every divergence that follows a revocation no record could hold has that one root cause
			for _, vb := range vkC09Bases {
				if vk := w.ref.K[vb]; vk.St == vkRevoked && vk.Vol {
					key = "a-unpersisted-revocation-forgotten-in-process"
				}
			}
			return &vkC09Viol{Key: key,
				Msg: fmt.Sprintf("%s is in the live trust set [%s] although %s (reference: %s; after publication %s; files {%s})", b, vkC09SortedJoin(post.I), why, w.ref.String(), pub.Name, vkC09ObsStr(post))}, ""
		case v == vkMust && !in && w.faults == 0:
			return &vkC09Viol{Key: "d-trusted-key-dropped|" + b + "|" + vkC09StName[k.St],
				Msg: fmt.Sprintf("%s is not in the live trust set [%s] although %s (reference: %s; after publication %s; files {%s})", b, vkC09SortedJoin(post.I), why, w.ref.String(), pub.Name, vkC09ObsStr(post))}, ""
		case v == vkMay:
			// the reference follows the implementation's permitted choice
			switch k.St {
			case vkAddPend:
				if in {
					k.St = vkValid
					label += "+promoted"
				}
			case vkMissing:
				// removal happens only in a fully authenticated refresh that lacks the key, and shows
				// in the state file (an empty trust set alone may just be a fail-closed clear)
				_, listed := post.State[b]
				gone := st.Auth == "full" && !st.Present[b] && !in && post.StateErr == "" && !listed
				if gone && !w.ref.Configured[b] {
					k.St = vkStart
					label += "+removed-after-90d"
				} else if gone {
					label += "+configured-key-removed-after-90d"
				}
			}
		}
	}
	for n := range post.I {
		known := false
		for _, b := range vkC09Bases {
			if n == b {
				known = true
			}
		}
		if !known {
			return &vkC09Viol{Key: "c-foreign-key-trusted|" + n, Msg: "live trust set contains " + n}, ""
		}
	}
	// (a) an accepted revocation leaves a record (tombstone, or the Revoked marker in the state file)
	// unless neither file could be written
	// (like every MUST-type demand: only in histories without an injected fault)
	if w.faults == 0 {
		for _, b := range st.Revoked {
			pe, had := pre.State[b]
			known := pre.I[b] || (had && (pe.State == StateValid || pe.State == StateMissing))
			rec := post.Tomb[b] || post.State[b].State == StateRevoked
			if known && !rec {
				key := "a-revocation-ignored|" + b + "|pub=" + pub.Name
				if fired {
					key += "|fault=" + ev.Fault
				}
				return &vkC09Viol{Key: key, Msg: fmt.Sprintf("publication %s carries the self-signed revocation of trust anchor %s in a set the reference accepts (%s), but no record of the revocation exists afterwards: {%s}", pub.Name, b, st.Auth, vkC09ObsStr(post))}, ""
			}
		}
	}
	// In a history with an injected fault the implementation may legitimately not know the key as an
	// anchor any more; a revocation it did not record is then not held against it later.
	if w.faults > 0 && !(ev.Fault == "dual" && fired) {
		for _, b := range st.Revoked {
			if k := w.ref.K[b]; !post.Tomb[b] && post.State[b].State != StateRevoked && k.St == vkRevoked && !k.Vol {
				k.St, k.Since = k.Prev, k.PrevSince
				label += "+revocation-not-recorded(fault-history)"
			}
		}
	}
	// (b) a response no trusted key authenticates changes nothing
	if st.Auth == "none" {
		if !vkC09SameFiles(pre.Files, post.Files) && ev.Fault != "tombloop" {
			bkey := "b-unauthenticated-changed-files|" + pub.Name + "|" + ft
			for _, vb := range vkC09Bases {
				// the set was authenticated by a key whose accepted revocation no record could hold
				if vk := w.ref.K[vb]; vk.St == vkRevoked && vk.Vol && pub.signedBy(vb) {
					bkey = "a-unpersisted-revocation-forgotten-in-process"
				}
			}
			return &vkC09Viol{Key: bkey,
				Msg: fmt.Sprintf("publication %s is authenticated by no currently trusted key (reference trusts %s) but the state files changed: before {%s} after {%s}",
					pub.Name, w.refTrusted(), vkC09ObsStr(pre), vkC09ObsStr(post))}, ""
		}
	}
	// (b') revocation-only authentication changes nothing but that revocation
	if st.Auth == "revonly" && pre.StateErr == "" && post.StateErr == "" {
		rev := map[string]bool{}
		for _, b := range st.Revoked {
			rev[b] = true
		}
		for n, e := range pre.State {
			if rb := w.lastRefB.K[vkC09Base(n)]; rev[vkC09Base(n)] || e.State == StateRevoked || e.State == StateRemoved || (rb != nil && rb.St == vkRevoked) {
				continue // the revoked key itself / a marker that only waits for its tombstone / a stale record of a revoked key
			}
			if e2, ok := post.State[n]; !ok || e2.State != e.State || !e2.First.Equal(e.First) {
				return &vkC09Viol{Key: "b-revocation-only-changed-other-key|" + n + "|" + ft,
					Msg: fmt.Sprintf("publication %s is authenticated only by the revoked key's self-signature, yet the record of %s changed: before {%s} after {%s}", pub.Name, n, vkC09ObsStr(pre), vkC09ObsStr(post))}, ""
			}
		}
		for n := range post.State {
			if _, ok := pre.State[n]; !ok && !rev[vkC09Base(n)] {
				return &vkC09Viol{Key: "b-revocation-only-added-key|" + n + "|" + ft,
					Msg: fmt.Sprintf("publication %s is authenticated only by the revoked key's self-signature, yet %s entered the state file: after {%s}", pub.Name, n, vkC09ObsStr(post))}, ""
			}
		}
	}
	// (e) unopenable store: the property text demands fail closed
	if ev.Fault == "tombloop" && len(post.I) != 0 {
		return &vkC09Viol{Key: "e-unopenable-tombstones-not-failclosed",
			Msg: fmt.Sprintf("the tombstone store could not be opened (ELOOP, not ENOENT) but validation trusts [%s] and the store was overwritten (tombstones now: [%s])", vkC09SortedJoin(post.I), vkC09SortedJoin(post.Tomb))}, ""
	}
	if len(post.I) == 0 {
		label += "+trustset-empty"
	}
	return nil, label
}

// vkC09FaultClass names the first injected fault of the history (part of violation keys).
func vkC09FaultClass(ev vkC09Ev, fired bool, w *vkC09World) string {
	switch w.faultKind {
	case "":
		return ""
	case "dual", "fail:state":
		return "|fault=state-write-failed"
	}
	return "|fault=" + w.faultKind
}

// vkC09TagCollides reports whether the publication holds a key (any form) with the key tag of b's plain form.
func vkC09TagCollides(pub *vkC09Pub, b string) bool {
	u := vkC09Universe()
	t := dnssec.KeyTag(u.form(b))
	for _, f := range pub.Keys {
		if vkC09Base(f) != b && dnssec.KeyTag(u.form(f)) == t {
			return true
		}
	}
	return false
}

func (w *vkC09World) refTrusted() string {
	m := map[string]bool{}
	for _, b := range vkC09Bases {
		if w.ref.trusted(b) {
			m[b] = true
		}
	}
	return "[" + vkC09SortedJoin(m) + "]"
}

func vkC09ObsStr(o vkC09Obs) string {
	var st []string
	for n, e := range o.State {
		st = append(st, fmt.Sprintf("%s=%s(first seen %s ago)", n, e.State.String(), vtime.Now().Sub(e.First).Round(time.Hour)))
	}
	sort.Strings(st)
	return fmt.Sprintf("state[%s]: %s; tombstones[%s]: %s; trusted: [%s]", o.StateErr, strings.Join(st, ","), o.TombErr, vkC09SortedJoin(o.Tomb), vkC09SortedJoin(o.I))
}

// vkC09Replay runs a history on a fresh world (again, if the loopback exchange itself failed).
func vkC09Replay(h []vkC09Ev) (*vkC09Viol, *vkC09World, []string) {
	for attempt := 0; ; attempt++ {
		v, w, outs := vkC09ReplayOnce(h)
		if v != nil && v.Key == "transient" && attempt < 4 {
			if w != nil {
				w.stop()
			}
			vkC09Transient++
			time.Sleep(time.Duration(50*(attempt+1)) * time.Millisecond)
			continue
		}
		if v != nil && v.Key == "transient" {
			v.Key, v.Msg = "harness", "harness: "+v.Msg+" five times in a row"
		}
		return v, w, outs
	}
}

var vkC09Transient int

func vkC09ReplayOnce(h []vkC09Ev) (*vkC09Viol, *vkC09World, []string) {
	w, err := vkC09NewWorld()
	if err != nil {
		return &vkC09Viol{Key: "harness", Msg: "harness: " + err.Error()}, nil, nil
	}
	var outs []string
	for i, ev := range h {
		v, o := w.apply(ev)
		outs = append(outs, o)
		if v != nil {
			v.Msg = fmt.Sprintf("step %d %v: %s", i+1, ev, v.Msg)
			return v, w, outs
		}
	}
	return nil, w, outs
}

// ---------------------------------------------------------------- crash enumeration

// vkC09CrashExpand takes the persistence log of the LAST refresh of history h (already replayed in
// w), builds every crash image, restarts a new Resolver on each (configuration still lists K1) and
// runs one refresh with each recovery publication.
func vkC09CrashExpand(c *vkit.Ctx, h []vkC09Ev, w *vkC09World, power bool) *vkC09Viol {
	if !w.lastWrote {
		return nil
	}
	log, pre, refB, refA := w.lastLog, w.lastPre, w.lastRefB, w.ref.clone()
	// d = the point from which some record of this refresh is reported complete: the end of the first
	// atomicGobWrite (a run of operations starting with a create) in which no operation failed
	d := len(log) + 1
	for i := 0; i < len(log); {
		j, ok := i+1, !log[i].Fail
		for j < len(log) && log[j].Kind != "create" {
			ok = ok && !log[j].Fail
			j++
		}
		if ok && log[i].Kind == "create" {
			d = j
			break
		}
		i = j
	}
	images := crashfs.ProcessCrash(log, pre)
	if power {
		pl, complete := crashfs.PowerLoss(log, pre, 4000)
		if !complete {
			c.Cap("power-loss image enumeration capped at 4000 images for one refresh")
		}
		images = append(images, pl...)
	}
	offset := vtime.Offset()
	lastPub := h[len(h)-1].Pub
	recov := []string{"honest", lastPub}
	if lastPub == "honest" {
		recov = []string{"honest", "cosign"}
	}
	seenImg := map[string]bool{}
	for _, img := range images {
		// identical directory contents are judged once per durability class: the same bytes are a legal
		// outcome before the first record is complete and a lost revocation after it
		ik := fmt.Sprintf("%v|%s", img.Prefix >= d, vkC09ImageKey(img, w.dir))
		if seenImg[ik] {
			continue
		}
		seenImg[ik] = true
		c.DistinctStr("crash_images", fmt.Sprintf("%s|%d|%s", vkC09HistStr(h), img.Prefix, ik))
		for _, rp := range recov {
			// Merged reference: every key keeps the more permissive of its before/after state. A revocation
			// completed by the crashed refresh must have survived once k >= d (a crash between or after the
			// two writes); before that either world is legal, so both are tried.
			cands := []*vkC09Ref{vkC09MergeRef(refB, refA, true)}
			if img.Prefix < d {
				cands = append(cands, vkC09MergeRef(refB, refA, false))
			}
			var first *vkC09Viol
			passed := false
			for _, ref := range cands {
				cw := &vkC09World{ref: ref.clone(), faults: w.faults + 1, faultKind: "crash", fresh: true}
				if w.faultKind != "" {
					cw.faultKind = w.faultKind + "+crash"
				}
				dir, err := os.MkdirTemp(vkC09ScratchBase(), "vkc09c-")
				if err != nil {
					return &vkC09Viol{Key: "harness", Msg: "harness: " + err.Error()}
				}
				cw.dir = dir
				if err := crashfs.Materialize(img, w.dir, dir); err != nil {
					cw.stop()
					return &vkC09Viol{Key: "harness", Msg: "harness: " + err.Error()}
				}
				vtime.SetOffset(offset)
				cw.r = vkC09GetResolver(dir)
				v, out := cw.apply(vkC09Ev{Kind: "ref", Pub: rp})
				for attempt := 0; v != nil && v.Key == "transient" && attempt < 4; attempt++ {
					// the exchange failed before anything was written: same instance, same directory, again
					vkC09Transient++
					time.Sleep(time.Duration(50*(attempt+1)) * time.Millisecond)
					cw.ref, cw.faults = ref.clone(), w.faults+1
					v, out = cw.apply(vkC09Ev{Kind: "ref", Pub: rp})
				}
				if v != nil && v.Key == "transient" {
					v.Key, v.Msg = "harness", "harness: "+v.Msg+" five times in a row"
				}
				c.Add("evaluations", 1)
				c.Add("transitions", 1)
				c.Add("crash_recoveries", 1)
				if v == nil {
					o := cw.observe()
					dg := "crash:" + cw.digest(o)
					c.DistinctStr("states", dg)
					c.DistinctStr("nontrivial", dg)
					kind := "process-crash"
					if strings.HasPrefix(img.Desc, "power loss") {
						kind = "power-loss"
					}
					dur := "before-first-record-durable"
					if img.Prefix >= d {
						dur = "between-or-after-the-writes"
					}
					c.Outcome(fmt.Sprintf("recovered-from-%s-prefix-%02d(%s)->%s", kind, img.Prefix, dur, out))
				}
				cw.stop()
				if v != nil && v.Key == "harness" {
					return v
				}
				if v == nil {
					passed = true
					break
				}
				if first == nil {
					first = v
				}
			}
			if !passed && first != nil {
				first.Key = "crash|" + first.Key
				first.Msg = fmt.Sprintf("crash during the last refresh (%s; persistence log has %d operations, first record reported complete before operation %d), restart with K1 still configured, then refresh(%s): %s", img.Desc, len(log), d, rp, first.Msg)
				return first
			}
		}
	}
	return nil
}

func vkC09ImageKey(img crashfs.Image, root string) string {
	var parts []string
	for p, d := range img.Files {
		n := filepath.Base(p)
		if i := strings.Index(n, ".tmp."); i >= 0 {
			n = n[:i] + ".tmp"
		}
		parts = append(parts, fmt.Sprintf("%s=%x", n, vkit.Hash(string(d))))
	}
	sort.Strings(parts)
	return strings.Join(parts, ";")
}

func vkC09Rank(k *vkC09RK) int {
	switch k.St {
	case vkValid, vkMissing:
		return 3
	case vkAddPend:
		return 2
	case vkStart:
		return 1
	}
	return 0
}

// vkC09MergeRef builds the reference a restart after a crash is judged against. landed says whether a
// revocation completed by the crashed refresh reached the disk.
func vkC09MergeRef(before, after *vkC09Ref, landed bool) *vkC09Ref {
	m := before.clone()
	for _, b := range vkC09Bases {
		kb, ka := before.K[b], after.K[b]
		newRev := ka.St == vkRevoked && !ka.Vol && (kb.St != vkRevoked || kb.Vol)
		switch {
		case newRev && landed:
			c := *ka
			m.K[b] = &c
		case newRev, kb.St == vkRevoked:
			c := *kb
			m.K[b] = &c
		default:
			best := kb
			if vkC09Rank(ka) > vkC09Rank(kb) || (ka.St == vkAddPend && kb.St == vkAddPend && ka.Since < kb.Since) {
				best = ka
			}
			c := *best
			m.K[b] = &c
		}
	}
	// revocations no record could hold are forgotten by the restart
	m.restart()
	return m
}


func vkC09SortedKeys(m map[string]bool) []string {
	var out []string
	for k := range m {
		out = append(out, k)
	}
	sort.Strings(out)
	return out
}
