//go:build verif

package resolver

// C11/lookup — the explorer: for every scenario (limiter configuration x caller
// budgets in arrival order x authority scripts) every order of the events
//
//	arr<i>   caller i (i>=1) arrives              rep<j>  authority j starts answering
//	dl       the short budget's deadline passes   done<i> caller i's Done() closes (before dl: a
//	relO     the slot occupant's authority answers         cancel; after dl: deadline exceeded)
//
// is run on a fresh Resolver through the real groupLookup -> singleflight ->
// lookup -> queryServer -> exchange path. Orders that share a prefix after which
// every caller has already returned are run once.
//
// Reference ("what the caller would get alone with its own budget"): a useful
// answer iff some authority of kind OK answers inside that budget.

import (
	"encoding/json"
	"fmt"
	"sort"
	"strings"
	"testing"
	"time"

	"github.com/semihalev/sdns/internal/verifshim/vkit"
)

type vkLKReplayT struct {
	Scenario vkLKScenario `json:"scenario"`
	Order    []string     `json:"order"`
}

type vkLKViol struct{ key, msg string }

type vkLKResult struct {
	executed   int // events executed before every caller had returned (== len(order) if never early)
	early      bool
	viols      []vkLKViol
	outcome    string
	nontrivial bool
	trans      int
	states     []string
	lateReruns int
}

func vkLKEvents(sc vkLKScenario) []string {
	var ev []string
	for j, k := range sc.Servers {
		if k != "DEAD" {
			ev = append(ev, fmt.Sprintf("rep%d", j))
		}
	}
	if sc.Cfg != "std" {
		ev = append(ev, "relO")
	}
	for i := 1; i < len(sc.Budgets); i++ {
		ev = append(ev, fmt.Sprintf("arr%d", i))
	}
	if strings.ContainsRune(sc.Budgets, 'S') {
		ev = append(ev, "dl")
	}
	for i := 0; i < len(sc.Budgets); i++ {
		if sc.Budgets[i] == 'S' {
			ev = append(ev, fmt.Sprintf("done%d", i))
		}
	}
	return ev
}

func vkLKHas(list []string, s string) bool {
	for _, x := range list {
		if x == s {
			return true
		}
	}
	return false
}

// allowed: callers arrive in index order; a caller's Done() cannot close before it exists.
func vkLKAllowed(prefix []string, ev string) bool {
	switch {
	case strings.HasPrefix(ev, "arr"):
		i := int(ev[3] - '0')
		return i == 1 || vkLKHas(prefix, fmt.Sprintf("arr%d", i-1))
	case strings.HasPrefix(ev, "done"):
		i := int(ev[4] - '0')
		return i == 0 || vkLKHas(prefix, fmt.Sprintf("arr%d", i))
	}
	return true
}

func vkLKInitialT(sc vkLKScenario, order []string) time.Duration {
	before := 0
	for _, e := range order {
		if e == "dl" {
			break
		}
		before++
	}
	T := 30*time.Millisecond + time.Duration(before)*15*time.Millisecond
	if len(sc.Servers) >= 3 {
		T += 120 * time.Millisecond
	}
	return T
}

// vkLKRunOnce runs one (scenario, order) on a fresh world.
func vkLKRunOnce(sc vkLKScenario, order []string, T time.Duration) (res vkLKResult, late bool, err error) {
	w, err := vkLKNewWorld(sc, T)
	if err != nil {
		return res, false, err
	}
	defer w.close()
	if err := w.begin(); err != nil {
		if sl, ok := err.(*vkLKSlotLeak); ok {
			_, _, _ = w.drain()
			res.outcome = sc.Budgets + ":slot-held"
			res.viols = append(res.viols, vkLKViol{"lookup/leak/upstream_slots_midrun", fmt.Sprintf("%s/%s: after the first caller started: %s", sc.Cfg, sc.Budgets, sl.msg)})
			return res, false, nil
		}
		return res, false, err
	}
	if strings.ContainsRune(sc.Budgets, 'S') && !time.Now().Before(w.deadline.Add(-2*time.Millisecond)) {
		_, _, _ = w.drain() // the deadline instant passed while the first caller was still being started
		return res, true, nil
	}
	ansStep := map[int]int{}
	trigger := map[int]string{0: "start"}
	fullOrder := true
	for k, ev := range order {
		if w.allReturned() {
			if strings.ContainsRune(sc.Budgets, 'S') && !w.dlPassed && !time.Now().Before(w.deadline.Add(-2*time.Millisecond)) {
				_, _, _ = w.drain() // cannot tell whether they returned before the deadline instant: rerun
				return res, true, nil
			}
			res.early, fullOrder = true, false
			break
		}
		l, err := w.exec(ev)
		if sl, ok := err.(*vkLKSlotLeak); ok {
			_, _, _ = w.drain()
			res.executed = k + 1
			res.outcome = sc.Budgets + ":slot-held"
			res.viols = append(res.viols, vkLKViol{"lookup/leak/upstream_slots_midrun", fmt.Sprintf("%s/%s: after event %s: %s", sc.Cfg, sc.Budgets, ev, sl.msg)})
			return res, false, nil
		}
		if err != nil {
			return res, false, err
		}
		if l {
			// end the world cleanly before the rerun
			_, _, _ = w.drain()
			return res, true, nil
		}
		trigger[w.step] = ev
		if strings.HasPrefix(ev, "rep") {
			ansStep[int(ev[3]-'0')] = w.step
		}
		res.executed = k + 1
	}
	if fullOrder && w.allReturned() {
		// nothing: ran to the end
	}
	// who still waits although everything that could help it has happened
	waitingAtEnd := map[int]bool{}
	for _, c := range w.callers {
		if c.arrived && !c.returned.Load() {
			waitingAtEnd[c.idx] = true
		}
	}
	occWaiting := w.occ != nil && !w.occ.returned.Load()
	stuck, leaks, err := w.drain()
	if err != nil {
		return res, false, err
	}
	res.trans, res.states = w.trans, w.states
	res.nontrivial = w.maxWait >= 2 || len(w.tags) >= 2

	okServer := false
	for _, k := range sc.Servers {
		if k == "OK" {
			okServer = true
		}
	}
	add := func(key, msg string) {
		for _, v := range res.viols {
			if v.key == key {
				return
			}
		}
		res.viols = append(res.viols, vkLKViol{key, msg})
	}
	base := sc.Cfg + "/" + sc.Budgets
	var classes []string
	for _, c := range w.callers {
		who := fmt.Sprintf("c%d%c", c.idx, c.budget)
		if !c.arrived {
			classes = append(classes, "-")
			continue
		}
		cls := vkLKResultClass(c)
		classes = append(classes, cls)
		for _, s := range stuck {
			if s == c.idx {
				add("lookup/wedged/"+string(c.budget), fmt.Sprintf("%s: caller %s did not return although its own context had ended", base, who))
			}
		}
		if w.wedged[c.idx] {
			add("lookup/wedged/"+string(c.budget), fmt.Sprintf("%s: caller %s was still inside groupLookup after its own Done() had closed and nothing else could move", base, who))
		}
		if !c.returned.Load() {
			continue
		}
		if c.resp != nil && (c.resp.Id != c.req.Id || len(c.resp.Question) != 1 || c.resp.Question[0] != c.req.Question[0]) {
			add("lookup/wrong_reply", fmt.Sprintf("%s: caller %s (id %d) received a reply with id %d question %v", base, who, c.req.Id, c.resp.Id, c.resp.Question))
		}
		expectRefusal := sc.Cfg != "std" && w.occHeldAt[c.idx]
		// reference: what this caller would obtain alone with its own budget
		refUseful := false
		switch {
		case expectRefusal:
		case c.budget == 'L':
			refUseful = okServer
		default:
			for j, k := range sc.Servers {
				if st, ok := ansStep[j]; ok && k == "OK" && c.retStep >= 0 && st <= c.retStep {
					refUseful = true
				}
			}
		}
		live := c.killStep < 0 || (c.retStep >= 0 && c.retStep < c.killStep)
		if waitingAtEnd[c.idx] && fullOrder && c.budget == 'L' && refUseful {
			add("lookup/wedged_live",
				fmt.Sprintf("%s: caller %s was still waiting after every event although an authority that answers NOERROR was answering", base, who))
			continue
		}
		if live && cls != "OK" && refUseful {
			add("lookup/live_caller_failed/"+cls+"@"+strings.TrimRight(trigger[c.retStep], "0123456789"),
				fmt.Sprintf("%s: caller %s, whose own context was live (no deadline passed, Done() open), got %s when event %q was processed; alone with its own budget it obtains the NOERROR answer",
					base, who, cls, trigger[c.retStep]))
		}
	}
	if w.occ != nil {
		relExecuted := false
		for _, e := range order[:res.executed] {
			if e == "relO" {
				relExecuted = true
			}
		}
		oc := vkLKResultClass(w.occ)
		classes = append(classes, "occ:"+oc)
		if relExecuted && (occWaiting || oc != "OK") {
			add("lookup/occupant_failed", base+": the lookup that held the capacity slot got "+oc+" after its authority answered NOERROR")
		}
	}
	// C13: a zone failure is shared state; it may be published only for a zone every one of whose
	// servers failed to give a usable response. An authority scripted OK answers every query it is
	// asked as soon as it is allowed to: whatever ended the lookup, that server did not fail.
	if zf := w.fails.recorded(); len(zf) > 0 && okServer {
		add("lookup/zone_failure_published", fmt.Sprintf("%s: a zone failure was published to the shared store for %v although an authority of that zone answers NOERROR whenever asked (servers %v): only a caller's own budget ended", base, zf, sc.Servers))
	}
	for _, l := range leaks {
		d := l.what
		if l.what == "goroutine" {
			d += ":" + l.detail
		}
		add("lookup/leak/"+d, base+": after every caller returned and every context ended: "+l.what+" left = "+l.detail)
	}
	res.outcome = sc.Budgets + ":" + strings.Join(classes, ",")
	return res, false, nil
}

// vkLKRun runs a case, rerunning with a longer short budget while the harness itself was too slow
// to place the pre-deadline events before the deadline instant.
func vkLKRun(sc vkLKScenario, order []string) (vkLKResult, error) {
	T := vkLKInitialT(sc, order)
	reruns := 0
	for {
		res, late, err := vkLKRunOnce(sc, order, T)
		if err != nil {
			return res, err
		}
		if !late {
			res.lateReruns = reruns
			return res, nil
		}
		reruns++
		if reruns > 6 {
			return res, &vkLKHarnessErr{fmt.Sprintf("cannot place the events of %s %v before a %v deadline", sc, order, T)}
		}
		T *= 2
	}
}

// ------------------------------------------------------------ scenario space

func vkLKTuples(alpha []string, n int) [][]string {
	if n == 0 {
		return [][]string{{}}
	}
	var out [][]string
	for _, t := range vkLKTuples(alpha, n-1) {
		for _, a := range alpha {
			out = append(out, append(append([]string{}, t...), a))
		}
	}
	return out
}

func vkLKScenarios(thorough bool) []vkLKScenario {
	var out []vkLKScenario
	alpha := []string{"OK", "SF", "RF", "DEAD"}
	addStd := func(budgets []string, n int) {
		for _, b := range budgets {
			for _, t := range vkLKTuples(alpha, n) {
				out = append(out, vkLKScenario{Cfg: "std", Budgets: b, Servers: t})
			}
		}
	}
	addCap := func(budgets []string, a []string) {
		for _, cfg := range []string{"capZ", "capG"} {
			for _, b := range budgets {
				for _, t := range vkLKTuples(a, 2) {
					out = append(out, vkLKScenario{Cfg: cfg, Budgets: b, Servers: t})
				}
			}
		}
	}
	// simplest first
	addStd([]string{"L", "S", "LL", "SL", "LS"}, 2)
	addCap([]string{"L", "LL"}, []string{"OK", "SF"})
	// lookup-owned (QNAME-minimised) requests sharing one lookup
	for _, b := range []string{"LL", "SL", "LS"} {
		for _, t := range [][]string{{"OK", "OK"}, {"OK", "SF"}, {"SF", "OK"}, {"SF", "SF"}, {"RF", "DEAD"}} {
			out = append(out, vkLKScenario{Cfg: "std", Budgets: b, Servers: t, Owned: true})
		}
	}
	if thorough {
		for _, b := range []string{"LLL", "SLL"} {
			for _, t := range vkLKTuples(alpha, 2) {
				out = append(out, vkLKScenario{Cfg: "std", Budgets: b, Servers: t, Owned: true})
			}
		}
		addCap([]string{"SL", "LS"}, []string{"OK", "SF", "DEAD"})
		addStd([]string{"L", "S", "SL", "LS"}, 3)
		addStd([]string{"SS", "LLL", "SLL", "LSL", "LLS"}, 2)
		addStd([]string{"SSL", "SLS", "LSS"}, 2)
		addStd([]string{"LL", "SLL"}, 3)
	}
	return out
}

// ------------------------------------------------------------ exploration

type vkLKExplorer struct {
	c         *vkit.Ctx
	confirmed map[string]bool
	stop      bool
}

func (e *vkLKExplorer) handle(sc vkLKScenario, order []string, res vkLKResult) {
	c := e.c
	c.Add("evaluations", 1)
	c.Add("traces", 1)
	c.Add("transitions", int64(res.trans))
	c.Add("late_reruns", int64(res.lateReruns))
	for _, s := range res.states {
		c.DistinctStr("states", s)
	}
	if res.nontrivial {
		c.DistinctStr("nontrivial", sc.String()+"|"+strings.Join(order[:res.executed], " "))
	}
	c.Outcome(res.outcome)
	c.Sample(map[string]any{"scenario": sc, "order": order[:res.executed], "outcome": res.outcome})
	for _, v := range res.viols {
		if e.confirmed[v.key] {
			c.Add("violating_runs_known_key", 1)
			continue
		}
		// reproduce on fresh worlds before reporting
		repro := 0
		for k := 0; k < 5; k++ {
			r2, err := vkLKRun(sc, order)
			if err != nil {
				c.HarnessError(err.Error())
				e.stop = true
				return
			}
			for _, v2 := range r2.viols {
				if v2.key == v.key {
					repro++
					break
				}
			}
		}
		if repro < 5 {
			c.Add("dropped_unreproducible", 1)
			c.Note(fmt.Sprintf("not reproducible (%d/5): %s in %s %v", repro, v.key, sc, order))
			continue
		}
		e.confirmed[v.key] = true
		c.Violation(v.key, fmt.Sprintf("%s [scenario %s, events %s] (reproduced 5/5 on fresh resolvers)", v.msg, sc, strings.Join(order[:res.executed], " ")),
			vkLKReplayT{Scenario: sc, Order: order})
	}
}

func (e *vkLKExplorer) scenario(sc vkLKScenario, work *int) {
	events := vkLKEvents(sc)
	terminal := map[string]bool{}
	hasTerminalPrefix := func(p []string) bool {
		for k := 1; k <= len(p); k++ {
			if terminal[strings.Join(p[:k], " ")] {
				return true
			}
		}
		return false
	}
	var dfs func(prefix []string, used []bool)
	dfs = func(prefix []string, used []bool) {
		if e.stop {
			return
		}
		if len(prefix) == len(events) {
			if e.c.OverBudget() {
				e.c.Cap("time budget reached in " + sc.Cfg + "/" + sc.Budgets + fmt.Sprintf(" with %d authorities", len(sc.Servers)))
				e.stop = true
				return
			}
			order := append([]string{}, prefix...)
			t0 := time.Now()
			n0 := vkLKSnapCount
			res, err := vkLKRun(sc, order)
			if vkLKDebug {
				fmt.Printf("run %s %v: %v, %d snapshots, outcome %s\n", sc, order, time.Since(t0).Round(time.Millisecond), vkLKSnapCount-n0, res.outcome)
			}
			if err != nil {
				e.c.HarnessError(err.Error())
				e.stop = true
				return
			}
			if res.early {
				terminal[strings.Join(order[:res.executed], " ")] = true
			}
			e.handle(sc, order, res)
			return
		}
		for i, ev := range events {
			if used[i] || !vkLKAllowed(prefix, ev) {
				continue
			}
			if len(prefix) == 0 {
				mine := e.c.Mine(*work)
				*work++
				if !mine {
					continue
				}
			}
			np := append(append([]string{}, prefix...), ev)
			if hasTerminalPrefix(np) {
				e.c.Add("orders_covered_by_a_finished_prefix", 1)
				continue
			}
			used[i] = true
			dfs(np, used)
			used[i] = false
		}
	}
	if len(events) == 0 {
		mine := e.c.Mine(*work)
		*work++
		if mine {
			dfs(nil, nil)
		}
		return
	}
	dfs(nil, make([]bool, len(events)))
}

func TestVerifC11Lookup(t *testing.T) { vkLKMain("C11/lookup", "") }

// TestVerifC13Lookup: the same exploration restricted to the scenarios in which a request-local ending
// (a short budget, or a capacity limit of 1) can meet an authority that answers NOERROR — judged for
// "a zone failure is published only when every server of the zone failed" (key lookup/zone_failure_published).
func TestVerifC13Lookup(t *testing.T) { vkLKMain("C13/sharedlookup", "c13") }

// TestVerifC10Lookup: the same exploration restricted to the scenarios with at least two callers of one lookup (each spells the
// name in its own letter case and carries its own ID and option tag) — judged for "each reply carries that query's ID and
// question … under shared upstream lookups" (key lookup/wrong_reply).
func TestVerifC10Lookup(t *testing.T) { vkLKMain("C10/sharedlookup", "c10") }

func vkLKMain(unit string, mode string) {
	c13 := mode == "c13"
	c := vkit.Init(unit)
	defer c.Close()
	if err := vkLKStartServers(); err != nil {
		c.HarnessError("servers: " + err.Error())
		return
	}
	if d := vkLKDriftCheck(); d != "" {
		c.HarnessError(d)
		return
	}
	if c.Replay != nil {
		var r vkLKReplayT
		if err := json.Unmarshal(c.Replay, &r); err != nil {
			c.HarnessError("bad replay: " + err.Error())
			return
		}
		seen := map[string]vkLKViol{}
		for k := 0; k < 3; k++ {
			res, err := vkLKRun(r.Scenario, r.Order)
			if err != nil {
				c.HarnessError(err.Error())
				return
			}
			c.Add("evaluations", 1)
			c.Outcome(res.outcome)
			for _, v := range res.viols {
				seen[v.key] = v
			}
		}
		keys := make([]string, 0, len(seen))
		for k := range seen {
			keys = append(keys, k)
		}
		sort.Strings(keys)
		for _, k := range keys {
			c.Violation(k, seen[k].msg, r)
		}
		return
	}
	e := &vkLKExplorer{c: c, confirmed: map[string]bool{}}
	work := 0
	for _, sc := range vkLKScenarios(c.Thorough()) {
		if e.stop {
			break
		}
		if c13 {
			ok := false
			for _, k := range sc.Servers {
				ok = ok || k == "OK"
			}
			if !ok || (sc.Cfg == "std" && !strings.ContainsRune(sc.Budgets, 'S')) {
				continue
			}
		}
		if mode == "c10" && len(sc.Budgets) < 2 {
			continue
		}
		e.scenario(sc, &work)
	}
	if n := vkLKStray.Load(); n != 0 {
		c.Note(fmt.Sprintf("%d upstream queries arrived outside any run", n))
	}
}
