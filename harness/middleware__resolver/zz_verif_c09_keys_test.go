//go:build verif

package resolver

// C09 — shared machinery: deterministic root keys (incl. a key-tag collision
// pair found by search), the table of root DNSKEY publications, and a scripted
// root server on loopback (UDP+TCP) that answers `. DNSKEY` with the RRset and
// RRSIGs of the publication selected for the current step.

import (
	"crypto/ed25519"
	"crypto/sha256"
	"encoding/base64"
	"fmt"
	"net"
	"sort"
	"strings"
	"sync"
	"sync/atomic"
	"time"

	"github.com/miekg/dns"
	"github.com/semihalev/sdns/middleware/resolver/dnssec"
	"github.com/semihalev/zlog/v2"
)

const (
	vkC09TTL = 172800
	// seeds: K1/K2/U/Z are arbitrary; vkC09SeedK3 was found by vkC09FindCollision
	// (KeyTag(K3)==KeyTag(K1), hence KeyTag(K3 revoked)==KeyTag(K1 revoked)); it is
	// re-verified at start-up and searched again if the constant ever goes stale.
	vkC09SeedK1 = 1
	vkC09SeedK2 = 2
	vkC09SeedU  = 3
	vkC09SeedZ  = 4
	vkC09SeedK3 = 115531
)

// vkC09Key is one key pair; forms (plain / revoked) share the material.
type vkC09Key struct {
	name string
	priv ed25519.PrivateKey
	pub  string // base64 public key
}

func vkC09MkKey(name string, seed uint32) *vkC09Key {
	h := sha256.Sum256([]byte(fmt.Sprintf("vk-c09-key-%d", seed)))
	priv := ed25519.NewKeyFromSeed(h[:])
	return &vkC09Key{name: name, priv: priv, pub: base64.StdEncoding.EncodeToString(priv.Public().(ed25519.PublicKey))}
}

func (k *vkC09Key) rr(flags uint16) *dns.DNSKEY {
	return &dns.DNSKEY{Hdr: dns.RR_Header{Name: ".", Rrtype: dns.TypeDNSKEY, Class: dns.ClassINET, Ttl: vkC09TTL},
		Flags: flags, Protocol: 3, Algorithm: dns.ED25519, PublicKey: k.pub}
}

// vkC09Keys is the fixed key universe. Form names: "K1" (flags 257), "K1r"
// (flags 385 = revoked), ..., "Z" (flags 256, a ZSK present in every set).
type vkC09KeysT struct {
	k     map[string]*vkC09Key // by base name
	byPub map[string]string    // public key -> base name
	sigMu sync.Mutex
	sigs  map[string]*dns.RRSIG
	incep uint32
	expir uint32
}

var (
	vkC09K     *vkC09KeysT
	vkC09KOnce sync.Once
	// vkC09CarryMode (set before the universe is first built; unit "carry"): K1 and K2 are keys whose
	// key tag does NOT grow by exactly 128 when the REVOKE bit is set — the RFC 4034 B checksum folds a
	// carry (about one key in 512). Code that finds "the key this revocation belongs to" by tag
	// arithmetic instead of by key material misses them.
	vkC09CarryMode bool
)

// vkC09FindCarry returns the first seed >= from whose plain and revoked key tags differ by something else than 128.
func vkC09FindCarry(name string, from uint32) uint32 {
	for seed := from; seed < from+200000; seed++ {
		k := vkC09MkKey(name, seed)
		if dnssec.KeyTag(k.rr(257|DNSKEYFlagRevoke)) != dnssec.KeyTag(k.rr(257))+DNSKEYFlagRevoke {
			return seed
		}
	}
	panic("vk c09: no carry key found")
}

func vkC09FindCollision(target uint16) uint32 {
	for seed := uint32(100000); seed < 100000+4000000; seed++ {
		k := vkC09MkKey("K3", seed)
		if dnssec.KeyTag(k.rr(257)) == target {
			return seed
		}
	}
	return 0
}

func vkC09Universe() *vkC09KeysT {
	vkC09KOnce.Do(func() {
		u := &vkC09KeysT{k: map[string]*vkC09Key{}, byPub: map[string]string{}, sigs: map[string]*dns.RRSIG{}}
		u.k["K1"] = vkC09MkKey("K1", vkC09SeedK1)
		u.k["K2"] = vkC09MkKey("K2", vkC09SeedK2)
		if vkC09CarryMode {
			s1 := vkC09FindCarry("K1", 1000)
			u.k["K1"] = vkC09MkKey("K1", s1)
			u.k["K2"] = vkC09MkKey("K2", vkC09FindCarry("K2", s1+1))
		}
		u.k["U"] = vkC09MkKey("U", vkC09SeedU)
		u.k["Z"] = vkC09MkKey("Z", vkC09SeedZ)
		t1 := dnssec.KeyTag(u.k["K1"].rr(257))
		k3 := vkC09MkKey("K3", vkC09SeedK3)
		if vkC09CarryMode {
			k3 = vkC09MkKey("K3", 5) // no tag collision in this universe: K3 is just a third key
		} else if dnssec.KeyTag(k3.rr(257)) != t1 {
			seed := vkC09FindCollision(t1)
			if seed == 0 {
				panic("vk c09: no key-tag collision found")
			}
			fmt.Printf("vk c09: NOTE collision seed constant stale; found seed %d for tag %d\n", seed, t1)
			k3 = vkC09MkKey("K3", seed)
		}
		u.k["K3"] = k3
		for n, k := range u.k {
			u.byPub[k.pub] = n
		}
		// One fixed signature window per process: it contains the real clock
		// (miekg's RRSIG.ValidityPeriod(time.Time{}) reads the REAL clock) and
		// every virtual instant a history can reach (<= 7 advances of <= 91 d).
		now := time.Now()
		u.incep = uint32(now.Add(-48 * time.Hour).Unix())
		u.expir = uint32(now.Add(3 * 365 * 24 * time.Hour).Unix())
		vkC09K = u
	})
	return vkC09K
}

// form returns the DNSKEY record of a form name ("K1", "K1r", "Z").
func (u *vkC09KeysT) form(name string) *dns.DNSKEY {
	base, flags := name, uint16(257)
	if strings.HasSuffix(name, "r") {
		base, flags = strings.TrimSuffix(name, "r"), 257|DNSKEYFlagRevoke
	}
	if base == "Z" {
		flags = 256
	}
	k := u.k[base]
	if k == nil {
		panic("vk c09: unknown key form " + name)
	}
	return k.rr(flags)
}

// nameOf maps a DNSKEY back to its form name ("?..." if foreign).
func (u *vkC09KeysT) nameOf(k *dns.DNSKEY) string {
	if k == nil {
		return "?nil"
	}
	n, ok := u.byPub[k.PublicKey]
	if !ok || k.Algorithm != dns.ED25519 || k.Protocol != 3 {
		return fmt.Sprintf("?%d", dnssec.KeyTag(k))
	}
	switch k.Flags {
	case 257, 256:
		return n
	case 257 | DNSKEYFlagRevoke:
		return n + "r"
	}
	return fmt.Sprintf("%s/flags%d", n, k.Flags)
}

// baseOf strips the revoked marker of a form name.
func vkC09Base(form string) string { return strings.TrimSuffix(form, "r") }

// ------------------------------------------------------------ publications

// vkC09Pub is one root DNSKEY publication: the KSK forms in the RRset (the ZSK
// "Z" is always added) and the forms whose RRSIG accompanies it. Special:
// Mode "servfail" answers SERVFAIL, "nosig" publishes the set without RRSIGs.
type vkC09Pub struct {
	Name string
	Keys []string
	Sigs []string
	// Rider: a DNSKEY record of this form appended to the answer OUTSIDE the signed RRset — owner ".",
	// but class CH ("ch") or, in class IN, owned by another name ("owner"): the response as a whole is
	// then not an authenticated DNSKEY set.
	Rider     string
	RiderKind string
}

// simplest first
var vkC09PubsAll = []vkC09Pub{
	{Name: "honest", Keys: []string{"K1"}, Sigs: []string{"K1"}},                          // K1 only, signed by K1
	{Name: "intro", Keys: []string{"K1", "K2"}, Sigs: []string{"K1"}},                     // K2 introduced, signed by K1
	{Name: "cosign", Keys: []string{"K1", "K2"}, Sigs: []string{"K1", "K2"}},              // both sign
	{Name: "k2signs", Keys: []string{"K1", "K2"}, Sigs: []string{"K2"}},                   // signed by K2 only
	{Name: "k2only", Keys: []string{"K2"}, Sigs: []string{"K2"}},                          // K1 removed, K2 signs
	{Name: "k1gone", Keys: []string{"K2"}, Sigs: []string{"K1"}},                          // K1 removed from the set it still signs
	{Name: "revoke", Keys: []string{"K1r", "K2"}, Sigs: []string{"K1r", "K2"}},            // K1 revoked, signed by revoked K1 and K2
	{Name: "revself", Keys: []string{"K1r"}, Sigs: []string{"K1r"}},                       // K1 revoked, only its self-signature
	{Name: "revintro", Keys: []string{"K1r", "K2"}, Sigs: []string{"K1r"}},                // revocation-only authenticated set that also carries K2
	{Name: "revnoself", Keys: []string{"K1r", "K2"}, Sigs: []string{"K2"}},                // REVOKE bit without the self-signature
	{Name: "collide", Keys: []string{"K1", "K3"}, Sigs: []string{"K1"}},                   // K3 has K1's key tag
	{Name: "collrev", Keys: []string{"K1", "K3r"}, Sigs: []string{"K1", "K3r"}},           // self-signed revoked K3 has revoked-K1's key tag
	{Name: "collrevonly", Keys: []string{"K3r"}, Sigs: []string{"K3r"}},                   // the same, nothing else
	{Name: "forged", Keys: []string{"K1", "U"}, Sigs: []string{"U"}},                      // signed by an unknown key
	{Name: "unsigned", Keys: []string{"K1", "K2"}, Sigs: nil},                             // no RRSIG at all
	{Name: "revk2", Keys: []string{"K1", "K2r"}, Sigs: []string{"K1", "K2r"}},             // K2 revoked (self-signed), K1 signs too
	{Name: "k2k3", Keys: []string{"K2", "K3"}, Sigs: []string{"K2"}},                      // K1 gone, its tag reused by K3
	{Name: "revshadow", Keys: []string{"K1r", "K3r", "K2"}, Sigs: []string{"K1r", "K2"}},  // revoked K1 and a colliding revoked K3 in one set
	{Name: "revshadow2", Keys: []string{"K3r", "K1r", "K2"}, Sigs: []string{"K1r", "K2"}}, // the same in the other record order
	{Name: "riderch", Keys: []string{"K1"}, Sigs: []string{"K1"}, Rider: "K2", RiderKind: "ch"},       // genuine signed set + an unsigned ". CH DNSKEY" carrying K2
}

func vkC09PubByName(n string) *vkC09Pub {
	for i := range vkC09PubsAll {
		if vkC09PubsAll[i].Name == n {
			return &vkC09PubsAll[i]
		}
	}
	return nil
}

func (p *vkC09Pub) has(form string) bool {
	for _, k := range p.Keys {
		if k == form {
			return true
		}
	}
	return false
}

func (p *vkC09Pub) signedBy(form string) bool {
	for _, k := range p.Sigs {
		if k == form {
			return true
		}
	}
	return false
}

// rrset builds the DNSKEY RRset of the publication in the listed order.
func (u *vkC09KeysT) rrset(p *vkC09Pub) []dns.RR {
	var out []dns.RR
	for _, k := range p.Keys {
		out = append(out, u.form(k))
	}
	out = append(out, u.form("Z"))
	return out
}

// sign returns the (cached; Ed25519 is deterministic) RRSIG of form over the publication's RRset.
func (u *vkC09KeysT) sign(p *vkC09Pub, form string) *dns.RRSIG {
	u.sigMu.Lock()
	defer u.sigMu.Unlock()
	ck := p.Name + "|" + form
	if s, ok := u.sigs[ck]; ok {
		return dns.Copy(s).(*dns.RRSIG)
	}
	key := u.form(form)
	sig := &dns.RRSIG{Hdr: dns.RR_Header{Name: ".", Rrtype: dns.TypeRRSIG, Class: dns.ClassINET, Ttl: vkC09TTL},
		TypeCovered: dns.TypeDNSKEY, Algorithm: dns.ED25519, Labels: 0, OrigTtl: vkC09TTL,
		Expiration: u.expir, Inception: u.incep, KeyTag: key.KeyTag(), SignerName: "."}
	if err := sig.Sign(u.k[vkC09Base(form)].priv, u.rrset(p)); err != nil {
		panic("vk c09: sign: " + err.Error())
	}
	u.sigs[ck] = sig
	return dns.Copy(sig).(*dns.RRSIG)
}

// ------------------------------------------------------------ scripted root

type vkC09Root struct {
	addr    string
	udp     *dns.Server
	tcp     *dns.Server
	cur     atomic.Pointer[vkC09Pub]
	hook    atomic.Pointer[func()] // runs once inside the handler (between AutoTA's reads and writes)
	queries atomic.Int64
}

var (
	vkC09RootSrv  *vkC09Root
	vkC09RootOnce sync.Once
	vkC09RootErr  error
)

func (s *vkC09Root) handle(w dns.ResponseWriter, req *dns.Msg) {
	m := new(dns.Msg)
	m.SetReply(req)
	m.Authoritative = true
	if opt := req.IsEdns0(); opt != nil {
		m.SetEdns0(4096, opt.Do())
	}
	p := s.cur.Load()
	if len(req.Question) != 1 || req.Question[0].Name != "." || req.Question[0].Qtype != dns.TypeDNSKEY || p == nil {
		m.Rcode = dns.RcodeServerFailure
		_ = w.WriteMsg(m)
		return
	}
	s.queries.Add(1)
	if h := s.hook.Swap(nil); h != nil {
		(*h)()
	}
	u := vkC09Universe()
	m.Answer = u.rrset(p)
	for _, f := range p.Sigs {
		m.Answer = append(m.Answer, u.sign(p, f))
	}
	if p.Rider != "" {
		rider := dns.Copy(u.form(p.Rider))
		if p.RiderKind == "ch" {
			rider.Header().Class = dns.ClassCHAOS
		} else {
			rider.Header().Name = "rider."
		}
		m.Answer = append(m.Answer, rider)
	}
	_ = w.WriteMsg(m)
}

func vkC09StartRoot() (*vkC09Root, error) {
	vkC09RootOnce.Do(func() {
		logger := zlog.NewStructured()
		logger.SetLevel(zlog.LevelFatal)
		zlog.SetDefault(logger)
		for attempt := 0; attempt < 50; attempt++ {
			pc, err := net.ListenPacket("udp", "127.0.0.1:0")
			if err != nil {
				vkC09RootErr = err
				continue
			}
			addr := pc.LocalAddr().String()
			l, err := net.Listen("tcp", addr)
			if err != nil {
				_ = pc.Close()
				vkC09RootErr = err
				continue
			}
			s := &vkC09Root{addr: addr}
			h := dns.HandlerFunc(s.handle)
			ready := make(chan struct{}, 2)
			s.udp = &dns.Server{PacketConn: pc, Handler: h, NotifyStartedFunc: func() { ready <- struct{}{} }}
			s.tcp = &dns.Server{Listener: l, Handler: h, NotifyStartedFunc: func() { ready <- struct{}{} }}
			go func() { _ = s.udp.ActivateAndServe() }()
			go func() { _ = s.tcp.ActivateAndServe() }()
			<-ready
			<-ready
			vkC09RootSrv, vkC09RootErr = s, nil
			return
		}
	})
	return vkC09RootSrv, vkC09RootErr
}

func vkC09SortedJoin(m map[string]bool) string {
	var s []string
	for k, v := range m {
		if v {
			s = append(s, k)
		}
	}
	sort.Strings(s)
	return strings.Join(s, "+")
}
