//go:build verif

package wire

// C15 — message grammar: reflection-driven record fillings for every
// constructor in dns.TypeToRR, EDNS0 options, SVCB parameters, foreign and nil
// records, names, sizes. Also the deep dump (immutability oracle) and the
// alias-preserving clone (reference input).

import (
	"fmt"
	"net"
	"reflect"
	"sort"
	"strings"

	"github.com/miekg/dns"
)

// ---------------------------------------------------------------- names

var (
	vkLabel63 = strings.Repeat("l", 63)
	vkName255 = strings.Repeat("a", 63) + "." + strings.Repeat("b", 63) + "." + strings.Repeat("c", 63) + "." + strings.Repeat("d", 61) + "."
	vkNames   = []struct{ id, name string }{
		{"apex", "example.org."},
		{"sub", "a.example.org."},
		{"root", "."},
		{"mixed", "Host.Example.org."},
		{"l63", vkLabel63 + ".example.org."},
		{"n255", vkName255},
		{"esc", `a\.b\065\000.example.org.`},
		{"other", "ns.other.net."},
		{"label64", strings.Repeat("x", 64) + ".example.org."},
		{"n256", "e" + vkName255},
		{"nofqdn", "example.org"},
		{"empty", ""},
		{"dotdot", "a..example.org."},
	}
)

func vkName(id string) string {
	for _, n := range vkNames {
		if n.id == id {
			return n.name
		}
	}
	panic("vk: unknown name " + id)
}

// ---------------------------------------------------------------- foreign types

// vkWrapRR embeds a library record: it satisfies dns.RR by promotion but is
// declared outside the library.
type vkWrapRR struct{ dns.RR }

type vkForeignOpt struct{ *dns.EDNS0_NSID }
type vkForeignSVCB struct{ *dns.SVCBAlpn }

type vkPrivData struct{ b []byte }

func (d *vkPrivData) String() string       { return fmt.Sprintf("%x", d.b) }
func (d *vkPrivData) Parse([]string) error { return nil }
func (d *vkPrivData) Pack(b []byte) (int, error) {
	if len(b) < len(d.b) {
		return 0, dns.ErrBuf
	}
	return copy(b, d.b), nil
}
func (d *vkPrivData) Unpack(b []byte) (int, error) { d.b = append([]byte{}, b...); return len(b), nil }
func (d *vkPrivData) Copy(dst dns.PrivateRdata) error {
	dst.(*vkPrivData).b = append([]byte{}, d.b...)
	return nil
}
func (d *vkPrivData) Len() int { return len(d.b) }

const vkPrivType = 65280

func vkRegisterPrivate() {
	dns.PrivateHandle("VKPRIV", vkPrivType, func() dns.PrivateRdata { return &vkPrivData{} })
}

func vkPrivateRR() dns.RR {
	rr := dns.TypeToRR[vkPrivType]().(*dns.PrivateRR)
	rr.Hdr = dns.RR_Header{Name: "p.example.org.", Rrtype: vkPrivType, Class: dns.ClassINET, Ttl: 60}
	rr.Data = &vkPrivData{b: []byte{1, 2, 3, 4}}
	return rr
}

// vkInadmissible is the harness's own statement of what the packer may not
// touch: nil, typed-nil, PrivateRR, anything declared outside the library, and
// OPT/SVCB records carrying such a value.
func vkInadmissible(rr dns.RR) bool {
	if rr == nil {
		return true
	}
	v := reflect.ValueOf(rr)
	if v.Kind() == reflect.Pointer && v.IsNil() {
		return true
	}
	switch x := rr.(type) {
	case vkWrapRR, *vkWrapRR, *dns.PrivateRR:
		return true
	case *dns.OPT:
		for _, o := range x.Option {
			if o == nil {
				return true
			}
			if _, ok := o.(vkForeignOpt); ok {
				return true
			}
			if ov := reflect.ValueOf(o); ov.Kind() == reflect.Pointer && ov.IsNil() {
				return true
			}
		}
	case *dns.SVCB:
		return vkInadmissibleSVCB(x.Value)
	case *dns.HTTPS:
		return vkInadmissibleSVCB(x.Value)
	}
	return false
}

func vkInadmissibleSVCB(vs []dns.SVCBKeyValue) bool {
	for _, v := range vs {
		if v == nil {
			return true
		}
		if _, ok := v.(vkForeignSVCB); ok {
			return true
		}
		if rv := reflect.ValueOf(v); rv.Kind() == reflect.Pointer && rv.IsNil() {
			return true
		}
	}
	return false
}

func vkMsgInadmissible(m *dns.Msg) bool {
	for _, sec := range [][]dns.RR{m.Answer, m.Ns, m.Extra} {
		for _, rr := range sec {
			if vkInadmissible(rr) {
				return true
			}
		}
	}
	return false
}

// ---------------------------------------------------------------- reflection filler

var vkHexFields = map[string]bool{"Nsid": true, "Cookie": true, "Version": true}

func vkFillString(name, tag string, variant int) string {
	pick := func(a, b string) string {
		if variant == 1 {
			return a
		}
		return b
	}
	switch {
	case strings.Contains(tag, "domain-name") || name == "AgentDomain":
		return pick("host.example.org.", "Other.Example.NET.")
	case strings.HasPrefix(tag, "size-hex") || tag == "hex" || vkHexFields[name]:
		return pick("0a1b2c3d", "DEADBEEF00112233445566778899aabbccddeeff")
	case strings.HasPrefix(tag, "size-base64") || tag == "base64":
		return pick("dmVyaWY=", "AQIDBAUGBwgJCgsMDQ4PEBESExQVFhcYGRobHB0eHyA=")
	case strings.HasPrefix(tag, "size-base32"):
		return pick("1AVVQN74SG75UKFVF25DGCETHGQ638EK", "VVVVVVVVVVVVVVVVVVVVVVVVVVVVVVVV")
	case tag == "octet":
		return pick("octet", `oc\"t\\e\000t`)
	case tag == "ipsechost" || tag == "amtrelayhost":
		return pick("gw.example.org.", ".")
	}
	return pick("text", strings.Repeat("t", 200))
}

func vkFillValue(f reflect.Value, name, tag string, variant, idx int) {
	if !f.CanSet() {
		return
	}
	switch f.Kind() {
	case reflect.String:
		f.SetString(vkFillString(name, tag, variant))
	case reflect.Uint8, reflect.Uint16, reflect.Uint32, reflect.Uint64:
		n := uint64(idx + variant)
		if variant == 2 {
			n = 0x81 + uint64(idx)*0x1111
		}
		if tag == "uint48" {
			n &= 0xFFFFFFFFFFFF
		}
		f.SetUint(n & (1<<uint(f.Type().Bits()) - 1))
	case reflect.Int, reflect.Int32, reflect.Int64:
		f.SetInt(int64(idx + variant))
	case reflect.Bool:
		f.SetBool(variant == 2)
	case reflect.Struct:
		vkFillStruct(f, variant)
	case reflect.Slice:
		et := f.Type().Elem()
		switch et.Kind() {
		case reflect.Uint8:
			var b []byte
			switch {
			case tag == "a" || name == "IP" || name == "Mask":
				b = []byte{192, 0, 2, byte(variant)}
				if name == "Mask" {
					b = []byte{255, 255, 255, 0}
				}
			case tag == "aaaa":
				b = net.ParseIP("2001:db8::" + fmt.Sprint(variant))
			case name == "Address" || name == "GatewayAddr":
				b = []byte{198, 51, 100, byte(variant)}
				if variant == 2 {
					b = net.ParseIP("2001:db8:1::2")
				}
			default:
				b = []byte{1, 2, 3}
				if variant == 2 {
					b = []byte(strings.Repeat("\xee", 40))
				}
			}
			f.SetBytes(append([]byte{}, b...))
		case reflect.String:
			var s []string
			if strings.Contains(tag, "domain-name") {
				s = []string{"rvs1.example.org.", "rvs2.example.org."}[:variant]
			} else if variant == 1 {
				s = []string{"one"}
			} else {
				s = []string{"two two", "", strings.Repeat("z", 255)}
			}
			f.Set(reflect.ValueOf(s).Convert(f.Type()))
		case reflect.Uint16:
			vals := []uint16{1, 2, 46}
			if variant == 2 {
				vals = []uint16{1, 28, 257, 65280}
			}
			s := reflect.MakeSlice(f.Type(), len(vals), len(vals))
			for i, v := range vals {
				s.Index(i).SetUint(uint64(v))
			}
			f.Set(s)
		case reflect.Slice: // []net.IP
			if et.Elem().Kind() == reflect.Uint8 {
				s := reflect.MakeSlice(f.Type(), variant, variant)
				for i := 0; i < variant; i++ {
					ip := []byte{192, 0, 2, byte(10 + i)}
					if strings.Contains(name, "6") || strings.Contains(f.Type().String(), "6") {
						ip = net.ParseIP(fmt.Sprintf("2001:db8::%d", i+1))
					}
					s.Index(i).SetBytes(ip)
				}
				f.Set(s)
			}
		case reflect.Struct:
			s := reflect.MakeSlice(f.Type(), variant, variant)
			for i := 0; i < variant; i++ {
				vkFillStruct(s.Index(i), 1+(variant+i)%2)
			}
			f.Set(s)
		case reflect.Interface:
			switch et.Name() {
			case "EDNS0":
				o := &dns.EDNS0_NSID{Code: dns.EDNS0NSID, Nsid: "abcd"}
				f.Set(reflect.ValueOf([]dns.EDNS0{o}))
			case "SVCBKeyValue":
				f.Set(reflect.ValueOf([]dns.SVCBKeyValue{&dns.SVCBAlpn{Alpn: []string{"h2"}}}))
			}
		}
	}
}

func vkFillStruct(v reflect.Value, variant int) {
	t := v.Type()
	for i := 0; i < v.NumField(); i++ {
		sf := t.Field(i)
		if sf.Name == "Hdr" || !sf.IsExported() {
			continue
		}
		vkFillValue(v.Field(i), sf.Name, sf.Tag.Get("dns"), variant, i)
	}
}

// vkTypes: every constructor the library registers (minus the harness's own
// private type), ascending.
func vkTypes() []uint16 {
	var ts []uint16
	for t := range dns.TypeToRR {
		if t != vkPrivType {
			ts = append(ts, t)
		}
	}
	sort.Slice(ts, func(i, j int) bool { return ts[i] < ts[j] })
	return ts
}

// vkRecord builds type t with filling variant 0 (as constructed), 1 or 2.
func vkRecord(t uint16, variant int, owner string) (rr dns.RR, ok bool) {
	defer func() {
		if p := recover(); p != nil {
			rr, ok = nil, false
		}
	}()
	mk, found := dns.TypeToRR[t]
	if !found {
		return nil, false
	}
	rr = mk()
	v := reflect.ValueOf(rr)
	if v.Kind() != reflect.Pointer || v.IsNil() {
		return nil, false
	}
	if variant > 0 {
		vkFillStruct(v.Elem(), variant)
	}
	*rr.Header() = dns.RR_Header{Name: owner, Rrtype: t, Class: dns.ClassINET, Ttl: 300 + uint32(variant)}
	if t == dns.TypeOPT {
		*rr.Header() = dns.RR_Header{Name: ".", Rrtype: t, Class: 1232, Ttl: 0}
	}
	return rr, true
}

var vkCanned = []string{
	"a.example.org. 300 IN A 192.0.2.1",
	"a.example.org. 300 IN AAAA 2001:db8::1",
	"example.org. 300 IN NS ns1.example.org.",
	"www.example.org. 300 IN CNAME a.example.org.",
	"example.org. 3600 IN SOA ns1.example.org. hostmaster.example.org. 2024010101 7200 3600 1209600 300",
	"example.org. 300 IN MX 10 mail.example.org.",
	`example.org. 300 IN TXT "v=spf1 -all" "second string"`,
	`long.example.org. 300 IN TXT "` + strings.Repeat("x", 255) + `" "` + strings.Repeat("y", 255) + `"`,
	"_sip._tcp.example.org. 300 IN SRV 10 60 5060 sip.example.org.",
	"1.2.0.192.in-addr.arpa. 300 IN PTR a.example.org.",
	"sub.example.org. 300 IN DNAME example.net.",
	"example.org. 300 IN DS 12345 8 2 E2D3C916F6DEEAC73294E8268FB5885044A833FC5459588F4A9184CFC41A5766",
	"example.org. 300 IN DNSKEY 257 3 13 mdsswUyr3DPW132mOi8V9xESWE8jTo0dxCjjnopKl+GqJxpVXckHAeF+KkxLbxILfDLUT0rAK9iUzy1L53eKGQ==",
	"a.example.org. 300 IN RRSIG A 13 3 300 20300101000000 20200101000000 12345 example.org. mdsswUyr3DPW132mOi8V9xESWE8jTo0dxCjjnopKl+GqJxpVXckHAeF+KkxLbxILfDLUT0rAK9iUzy1L53eKGQ==",
	"a.example.org. 300 IN NSEC b.example.org. A AAAA RRSIG NSEC TYPE65280",
	"1avvqn74sg75ukfvf25dgcethgq638ek.example.org. 300 IN NSEC3 1 1 10 AABBCCDD 75B9ID679QQOV6LDFHD8OCSHSSSB6JVQ A RRSIG",
	"example.org. 300 IN NSEC3PARAM 1 0 10 AABBCCDD",
	`example.org. 300 IN CAA 0 issue "letsencrypt.org"`,
	"_443._tcp.example.org. 300 IN TLSA 3 1 1 E2D3C916F6DEEAC73294E8268FB5885044A833FC5459588F4A9184CFC41A5766",
	`_svc.example.org. 300 IN SVCB 1 svc.example.org. alpn="h2,h3" port=8443 ipv4hint=192.0.2.1 ipv6hint=2001:db8::1`,
	`example.org. 300 IN HTTPS 1 . alpn="h3" no-default-alpn`,
	`example.org. 300 IN HTTPS 0 alias.example.org.`,
	`example.org. 300 IN NAPTR 100 10 "u" "E2U+sip" "!^.*$!sip:info@example.org!" .`,
	"example.org. 300 IN LOC 52 22 23.000 N 4 53 32.000 E -2.00m 0.00m 10000m 10m",
	`example.org. 300 IN URI 10 1 "https://example.org/"`,
	"example.org. 300 IN SSHFP 4 2 E2D3C916F6DEEAC73294E8268FB5885044A833FC5459588F4A9184CFC41A5766",
	`example.org. 300 IN HINFO "cpu" "os"`,
	"example.org. 300 IN RP mbox.example.org. txt.example.org.",
	"example.org. 300 IN APL 1:192.0.2.0/24 !2:2001:db8::/32",
	"example.org. 300 IN CSYNC 66 3 A NS AAAA",
	"example.org. 300 IN ZONEMD 2018031900 1 1 FEBE3D4CE2EC2FFA4BA99D46CD69D6D29711E55217057BEE7EB1A7B641A47BA7FED2DD5B97AE499FAFA4F22C6BD647DE",
	"example.org. 300 IN IPSECKEY 10 1 2 192.0.2.38 AQNRU3mG7TVTO2BkR47usntb102uFJtugbo6BSGvgqt4AQ==",
	"example.org. 300 IN IPSECKEY 10 3 2 gw.example.org. AQNRU3mG7TVTO2BkR47usntb102uFJtugbo6BSGvgqt4AQ==",
	"example.org. 300 IN AMTRELAY 10 1 3 relay.example.org.",
	"example.org. 300 IN HIP 2 200100107B1A74DF365639CC39F1D578 AwEAAbdxyhNuSutc5EMzxTs9LBPCIkOFH8cIvM4p9+LrV4e19WzK00+CI6zBCQTdtWsuxKbWIy87UOoJTwkUs7lBu+Upr1gsNrut79ryra+bSRGQb1slImA8YVJyuIDsj7kwzG7jnERNqnWxZ48AWkskmdHaVDP4BcelrTI3rMXdXF5D rvs1.example.org. rvs2.example.org.",
	"example.org. 300 IN OPENPGPKEY mQENBFVHm5sBCAD",
	"example.org. 300 IN EUI48 00-00-5e-00-53-2a",
	"example.org. 300 IN KX 10 kx.example.org.",
	"example.org. 300 IN AFSDB 1 afs.example.org.",
	"example.org. 300 IN MINFO r.example.org. e.example.org.",
	"example.org. 300 IN TYPE4711 \\# 4 0A000001",
	"example.org. 0 NONE A 192.0.2.1",
	"example.org. 0 CH TXT \"chaos\"",
}

// ---------------------------------------------------------------- EDNS0 / SVCB alphabets

func vkOptKinds() []func() dns.EDNS0 {
	return []func() dns.EDNS0{
		func() dns.EDNS0 { return &dns.EDNS0_NSID{Code: dns.EDNS0NSID} },
		func() dns.EDNS0 { return &dns.EDNS0_SUBNET{Code: dns.EDNS0SUBNET} },
		func() dns.EDNS0 { return &dns.EDNS0_COOKIE{Code: dns.EDNS0COOKIE} },
		func() dns.EDNS0 { return &dns.EDNS0_UL{Code: dns.EDNS0UL} },
		func() dns.EDNS0 { return &dns.EDNS0_LLQ{Code: dns.EDNS0LLQ} },
		func() dns.EDNS0 { return &dns.EDNS0_DAU{Code: dns.EDNS0DAU} },
		func() dns.EDNS0 { return &dns.EDNS0_DHU{Code: dns.EDNS0DHU} },
		func() dns.EDNS0 { return &dns.EDNS0_N3U{Code: dns.EDNS0N3U} },
		func() dns.EDNS0 { return &dns.EDNS0_EXPIRE{Code: dns.EDNS0EXPIRE} },
		func() dns.EDNS0 { return &dns.EDNS0_LOCAL{Code: dns.EDNS0LOCALSTART} },
		func() dns.EDNS0 { return &dns.EDNS0_TCP_KEEPALIVE{Code: dns.EDNS0TCPKEEPALIVE} },
		func() dns.EDNS0 { return &dns.EDNS0_PADDING{} },
		func() dns.EDNS0 { return &dns.EDNS0_EDE{} },
		func() dns.EDNS0 { return &dns.EDNS0_ESU{Code: dns.EDNS0ESU} },
		func() dns.EDNS0 { return &dns.EDNS0_REPORTING{Code: dns.EDNS0REPORTING} },
		func() dns.EDNS0 { return &dns.EDNS0_ZONEVERSION{Code: dns.EDNS0ZONEVERSION} },
	}
}

// vkOption builds option kind k with filling variant 0/1/2.
func vkOption(k, variant int) dns.EDNS0 {
	o := vkOptKinds()[k]()
	if variant > 0 {
		v := reflect.ValueOf(o).Elem()
		t := v.Type()
		for i := 0; i < v.NumField(); i++ {
			if t.Field(i).Name == "Code" {
				continue
			}
			vkFillValue(v.Field(i), t.Field(i).Name, "", variant, i)
		}
		switch x := o.(type) {
		case *dns.EDNS0_SUBNET:
			x.Family = uint16(variant)
			if variant == 1 {
				x.SourceNetmask, x.Address = 24, net.IP{192, 0, 2, 0}
			} else {
				x.SourceNetmask, x.Address = 56, net.ParseIP("2001:db8:aa::")
			}
			x.SourceScope = 0
		case *dns.EDNS0_LOCAL:
			x.Code = dns.EDNS0LOCALSTART + uint16(variant)
		}
	}
	return o
}

func vkSVCBKinds() []func(variant int) dns.SVCBKeyValue {
	return []func(int) dns.SVCBKeyValue{
		func(v int) dns.SVCBKeyValue {
			return &dns.SVCBMandatory{Code: []dns.SVCBKey{dns.SVCB_ALPN, dns.SVCB_PORT}[:v]}
		},
		func(v int) dns.SVCBKeyValue { return &dns.SVCBAlpn{Alpn: []string{"h2", "h3"}[:v]} },
		func(v int) dns.SVCBKeyValue { return &dns.SVCBNoDefaultAlpn{} },
		func(v int) dns.SVCBKeyValue { return &dns.SVCBPort{Port: uint16(443 * v)} },
		func(v int) dns.SVCBKeyValue {
			return &dns.SVCBIPv4Hint{Hint: []net.IP{{192, 0, 2, 1}, {192, 0, 2, 2}}[:v]}
		},
		func(v int) dns.SVCBKeyValue { return &dns.SVCBECHConfig{ECH: []byte("ech-config-bytes")[:8*v]} },
		func(v int) dns.SVCBKeyValue {
			return &dns.SVCBIPv6Hint{Hint: []net.IP{net.ParseIP("2001:db8::1"), net.ParseIP("2001:db8::2")}[:v]}
		},
		func(v int) dns.SVCBKeyValue { return &dns.SVCBDoHPath{Template: "/dns-query{?dns}"[:8*v]} },
		func(v int) dns.SVCBKeyValue { return &dns.SVCBOhttp{} },
		func(v int) dns.SVCBKeyValue {
			return &dns.SVCBLocal{KeyCode: dns.SVCBKey(65280 + v), Data: []byte("local")[:2*v]}
		},
	}
}

// ---------------------------------------------------------------- deep dump & alias-preserving clone

func vkDumpValue(b *strings.Builder, v reflect.Value, depth int) {
	if depth > 12 {
		b.WriteString("<deep>")
		return
	}
	switch v.Kind() {
	case reflect.Invalid:
		b.WriteString("<nil>")
	case reflect.Pointer, reflect.Interface:
		if v.IsNil() {
			b.WriteString("nil:" + v.Type().String())
			return
		}
		if v.Kind() == reflect.Interface {
			b.WriteString(v.Elem().Type().String())
		}
		b.WriteByte('&')
		vkDumpValue(b, v.Elem(), depth+1)
	case reflect.Struct:
		b.WriteByte('{')
		for i := 0; i < v.NumField(); i++ {
			b.WriteString(v.Type().Field(i).Name)
			b.WriteByte('=')
			vkDumpValue(b, v.Field(i), depth+1)
			b.WriteByte(';')
		}
		b.WriteByte('}')
	case reflect.Slice, reflect.Array:
		if v.Kind() == reflect.Slice && v.IsNil() {
			b.WriteString("nilslice")
			return
		}
		fmt.Fprintf(b, "[%d:", v.Len())
		if v.Type().Elem().Kind() == reflect.Uint8 {
			for i := 0; i < v.Len(); i++ {
				fmt.Fprintf(b, "%02x", v.Index(i).Uint())
			}
		} else {
			for i := 0; i < v.Len(); i++ {
				vkDumpValue(b, v.Index(i), depth+1)
				b.WriteByte(',')
			}
		}
		b.WriteByte(']')
	case reflect.String:
		fmt.Fprintf(b, "%q", v.String())
	case reflect.Bool:
		fmt.Fprintf(b, "%v", v.Bool())
	case reflect.Int, reflect.Int8, reflect.Int16, reflect.Int32, reflect.Int64:
		fmt.Fprintf(b, "%d", v.Int())
	case reflect.Uint, reflect.Uint8, reflect.Uint16, reflect.Uint32, reflect.Uint64, reflect.Uintptr:
		fmt.Fprintf(b, "%d", v.Uint())
	case reflect.Func:
		fmt.Fprintf(b, "func(nil=%v)", v.IsNil())
	case reflect.Map:
		fmt.Fprintf(b, "map(len=%d)", v.Len())
	default:
		b.WriteString(v.Kind().String())
	}
}

// vkDump is a deep, pointer-following rendering of the whole message: header,
// questions, every record and every nested option, nil-ness of slices included.
func vkDump(m *dns.Msg) string {
	var b strings.Builder
	vkDumpValue(&b, reflect.ValueOf(m), 0)
	return b.String()
}

// vkClone copies a message deeply while preserving which slots share one
// record object, so the library packs the same aliasing structure.
func vkClone(m *dns.Msg) *dns.Msg {
	c := new(dns.Msg)
	c.MsgHdr = m.MsgHdr
	c.Compress = m.Compress
	if m.Question != nil {
		c.Question = append([]dns.Question{}, m.Question...)
	}
	seen := map[dns.RR]dns.RR{}
	one := func(rr dns.RR) dns.RR {
		if rr == nil {
			return nil
		}
		if v := reflect.ValueOf(rr); v.Kind() == reflect.Pointer && v.IsNil() {
			return rr
		}
		if w, ok := rr.(vkWrapRR); ok {
			if w.RR == nil {
				return w
			}
			return vkWrapRR{dns.Copy(w.RR)}
		}
		if w, ok := rr.(*vkWrapRR); ok {
			if w.RR == nil {
				return &vkWrapRR{}
			}
			return &vkWrapRR{dns.Copy(w.RR)}
		}
		if c, ok := seen[rr]; ok {
			return c
		}
		var cp dns.RR
		switch x := rr.(type) {
		case *dns.OPT:
			// dns.Copy calls each option's copy(); a nil or foreign option must survive as is
			o := &dns.OPT{Hdr: x.Hdr}
			if x.Option != nil {
				o.Option = make([]dns.EDNS0, len(x.Option))
				for i, e := range x.Option {
					o.Option[i] = vkCloneOpt(e)
				}
			}
			cp = o
		case *dns.SVCB:
			s := &dns.SVCB{Hdr: x.Hdr, Priority: x.Priority, Target: x.Target, Value: vkCloneSVCB(x.Value)}
			cp = s
		case *dns.HTTPS:
			s := &dns.HTTPS{SVCB: dns.SVCB{Hdr: x.Hdr, Priority: x.Priority, Target: x.Target, Value: vkCloneSVCB(x.Value)}}
			cp = s
		default:
			cp = dns.Copy(rr)
		}
		seen[rr] = cp
		return cp
	}
	sec := func(in []dns.RR) []dns.RR {
		if in == nil {
			return nil
		}
		out := make([]dns.RR, len(in))
		for i, rr := range in {
			out[i] = one(rr)
		}
		return out
	}
	c.Answer, c.Ns, c.Extra = sec(m.Answer), sec(m.Ns), sec(m.Extra)
	return c
}

func vkCloneOpt(e dns.EDNS0) dns.EDNS0 {
	if e == nil {
		return nil
	}
	if f, ok := e.(vkForeignOpt); ok {
		n := *f.EDNS0_NSID
		return vkForeignOpt{&n}
	}
	v := reflect.ValueOf(e)
	if v.Kind() == reflect.Pointer && v.IsNil() {
		return e
	}
	n := reflect.New(v.Elem().Type())
	n.Elem().Set(v.Elem())
	for i := 0; i < n.Elem().NumField(); i++ {
		f := n.Elem().Field(i)
		if f.Kind() == reflect.Slice && !f.IsNil() && f.CanSet() {
			cp := reflect.MakeSlice(f.Type(), f.Len(), f.Len())
			reflect.Copy(cp, f)
			f.Set(cp)
		}
	}
	return n.Interface().(dns.EDNS0)
}

func vkCloneSVCB(in []dns.SVCBKeyValue) []dns.SVCBKeyValue {
	if in == nil {
		return nil
	}
	out := make([]dns.SVCBKeyValue, len(in))
	for i, v := range in {
		switch {
		case v == nil:
		case func() bool { _, ok := v.(vkForeignSVCB); return ok }():
			a := *v.(vkForeignSVCB).SVCBAlpn
			out[i] = vkForeignSVCB{&a}
		default:
			rv := reflect.ValueOf(v)
			if rv.Kind() == reflect.Pointer && rv.IsNil() {
				out[i] = v
				continue
			}
			n := reflect.New(rv.Elem().Type())
			n.Elem().Set(rv.Elem())
			for j := 0; j < n.Elem().NumField(); j++ {
				f := n.Elem().Field(j)
				if f.Kind() == reflect.Slice && !f.IsNil() && f.CanSet() {
					cp := reflect.MakeSlice(f.Type(), f.Len(), f.Len())
					reflect.Copy(cp, f)
					f.Set(cp)
				}
			}
			out[i] = n.Interface().(dns.SVCBKeyValue)
		}
	}
	return out
}

// vkHasDomainName reports whether type t's RDATA carries a domain name
// (compressible or not), judged from the library's struct tags.
func vkHasDomainName(t uint16) bool {
	mk, ok := dns.TypeToRR[t]
	if !ok {
		return false
	}
	var walk func(rt reflect.Type) bool
	walk = func(rt reflect.Type) bool {
		for i := 0; i < rt.NumField(); i++ {
			f := rt.Field(i)
			if f.Name == "Hdr" {
				continue
			}
			if strings.Contains(f.Tag.Get("dns"), "domain-name") {
				return true
			}
			if f.Type.Kind() == reflect.Struct && walk(f.Type) {
				return true
			}
		}
		return false
	}
	return walk(reflect.TypeOf(mk()).Elem())
}
