//go:build verif

package wire

// C15 — the pooled packer is byte-identical to the library and side-effect
// free. Bounded-exhaustive differential enumeration of a message grammar;
// every message is packed (1) through whatever pooled state the previous case
// left (forced LIFO reuse), (2) again after two polluting packs that share its
// names / overflow the pooled dictionary, and (3) through PackClone; each
// result is compared with dns.Msg.Pack on an alias-preserving deep copy.

import (
	"bytes"
	"encoding/json"
	"errors"
	"fmt"
	"strings"
	"testing"

	"github.com/miekg/dns"
	"github.com/semihalev/sdns/internal/verifshim/vkit"
	"github.com/semihalev/sdns/internal/verifshim/vsync"
)

type vkTryRes struct {
	handled  bool
	err      error
	consumed int
	body     []byte
	capLen   [2]int
	panicMsg string
}

func vkTry(m *dns.Msg, consumeErr error) (res vkTryRes) {
	defer func() {
		if p := recover(); p != nil {
			res.panicMsg = fmt.Sprint(p)
		}
	}()
	res.handled, res.err = TryPack(m, func(b []byte) error {
		res.consumed++
		res.body = append([]byte{}, b...)
		res.capLen = [2]int{cap(b), len(b)}
		return consumeErr
	})
	return
}

func vkLibPack(m *dns.Msg) (b []byte, err error, panicMsg string) {
	defer func() {
		if p := recover(); p != nil {
			b, err, panicMsg = nil, nil, fmt.Sprint(p)
		}
	}()
	b, err = m.Pack()
	return
}

func vkClonePack(m *dns.Msg) (b []byte, err error, panicMsg string) {
	defer func() {
		if p := recover(); p != nil {
			b, err, panicMsg = nil, nil, fmt.Sprint(p)
		}
	}()
	b, err = PackClone(m)
	return
}

// ---------------------------------------------------------------- polluters

func vkPolluterShared() *dns.Msg {
	m := new(dns.Msg)
	m.Id, m.Response, m.Compress = 0xEEEE, true, true
	m.Question = []dns.Question{{Name: "example.org.", Qtype: dns.TypeTXT, Qclass: dns.ClassINET}}
	for _, n := range vkNames[:8] {
		m.Answer = append(m.Answer, &dns.TXT{Hdr: dns.RR_Header{Name: n.name, Rrtype: dns.TypeTXT, Class: dns.ClassINET, Ttl: 0xEEEEEEEE},
			Txt: []string{strings.Repeat("\xee", 200)}})
		m.Ns = append(m.Ns, &dns.NS{Hdr: dns.RR_Header{Name: n.name, Rrtype: dns.TypeNS, Class: dns.ClassINET, Ttl: 1}, Ns: "host.example.org."})
	}
	for _, n := range []string{"host.example.org.", "Other.Example.NET.", "rvs1.example.org.", "gw.example.org.", "p.example.org."} {
		m.Extra = append(m.Extra, &dns.A{Hdr: dns.RR_Header{Name: n, Rrtype: dns.TypeA, Class: dns.ClassINET, Ttl: 1}, A: []byte{0xee, 0xee, 0xee, 0xee}})
	}
	return m
}

func vkPolluterManyNames() *dns.Msg {
	m := new(dns.Msg)
	m.Id, m.Response, m.Compress, m.Rcode = 0xDDDD, true, true, 0xFFF
	m.Question = []dns.Question{{Name: "a.example.org.", Qtype: dns.TypeA, Qclass: dns.ClassINET}}
	for i := 0; i < 90; i++ {
		m.Answer = append(m.Answer, &dns.A{Hdr: dns.RR_Header{Name: fmt.Sprintf("n%d.a.example.org.", i), Rrtype: dns.TypeA, Class: dns.ClassINET, Ttl: 0xDDDDDDDD}, A: []byte{0xdd, 0xdd, 0xdd, 0xdd}})
	}
	o := &dns.OPT{Hdr: dns.RR_Header{Name: ".", Rrtype: dns.TypeOPT, Class: 4096, Ttl: 0x00008000}}
	o.Option = []dns.EDNS0{&dns.EDNS0_PADDING{Padding: bytes.Repeat([]byte{0xdd}, 300)}, &dns.EDNS0_NSID{Code: dns.EDNS0NSID, Nsid: "dddddddd"}}
	m.Extra = []dns.RR{o}
	return m
}

// ---------------------------------------------------------------- one case

type vkVerdict struct {
	viol    string
	label   string
	handled bool
}

func vkDeclineWhy(m *dns.Msg, refErr error, refPanic string) string {
	switch {
	case m.Rcode < 0 || m.Rcode > 0xFFF:
		return "rcode-out-of-range"
	case vkMsgInadmissible(m):
		return "inadmissible-record"
	case refPanic != "":
		return "library-panics"
	case refErr != nil:
		return "library-error"
	}
	probe := *m
	probe.Compress = false
	if probe.Len() > 4096 {
		return "over-4096-uncompressed"
	}
	return "other"
}

func vkHex(b []byte) string {
	if len(b) > 96 {
		return fmt.Sprintf("%x...(%d octets)", b[:96], len(b))
	}
	return fmt.Sprintf("%x", b)
}

func vkFirstDiff(a, b []byte) int {
	n := len(a)
	if len(b) < n {
		n = len(b)
	}
	for i := 0; i < n; i++ {
		if a[i] != b[i] {
			return i
		}
	}
	return n
}

// vkEval runs the whole oracle on one message (built fresh by build).
func vkEval(build func() *dns.Msg) vkVerdict {
	m := build()
	if m == nil {
		res := vkTry(nil, nil)
		if res.panicMsg != "" || res.handled || res.consumed != 0 || res.err != nil {
			return vkVerdict{viol: fmt.Sprintf("TryPack(nil message): handled=%v consumed=%d err=%v %s", res.handled, res.consumed, res.err, res.panicMsg)}
		}
		return vkVerdict{label: "declined:nil-message"}
	}
	refBytes, refErr, refPanic := vkLibPack(vkClone(m))
	before := vkDump(m)
	res := vkTry(m, nil)
	if res.panicMsg != "" {
		return vkVerdict{viol: "TryPack panicked: " + res.panicMsg}
	}
	if after := vkDump(m); after != before {
		return vkVerdict{viol: fmt.Sprintf("TryPack (handled=%v) modified the message", res.handled)}
	}
	if res.handled {
		switch {
		case res.consumed != 1:
			return vkVerdict{viol: fmt.Sprintf("handled but consume called %d times", res.consumed)}
		case res.err != nil:
			return vkVerdict{viol: "handled with an error the consumer did not return: " + res.err.Error()}
		case refPanic != "":
			return vkVerdict{viol: "handled a message on which the library panics (" + refPanic + ")"}
		case refErr != nil:
			return vkVerdict{viol: "handled a message the library refuses to pack (" + refErr.Error() + "): emitted " + vkHex(res.body)}
		case !bytes.Equal(res.body, refBytes):
			return vkVerdict{viol: fmt.Sprintf("bytes differ from dns.Msg.Pack at offset %d: packer %s / library %s", vkFirstDiff(res.body, refBytes), vkHex(res.body), vkHex(refBytes))}
		case res.capLen[0] != res.capLen[1]:
			return vkVerdict{viol: fmt.Sprintf("consume received a slice with cap %d > len %d: the tail of the pooled buffer is reachable", res.capLen[0], res.capLen[1])}
		}
	} else {
		switch {
		case res.consumed != 0:
			return vkVerdict{viol: "declined after handing bytes to consume"}
		case res.err != nil:
			return vkVerdict{viol: "declined with an error: " + res.err.Error()}
		}
	}

	// reuse: pollute the pooled state, pack again, demand the same result
	for pi, pol := range []func() *dns.Msg{vkPolluterShared, vkPolluterManyNames} {
		pr := vkTry(pol(), nil)
		if pr.panicMsg != "" || !pr.handled {
			return vkVerdict{viol: fmt.Sprintf("harness: polluter %d was not handled (%s)", pi, pr.panicMsg)}
		}
		again := vkTry(m, nil)
		switch {
		case again.panicMsg != "":
			return vkVerdict{viol: fmt.Sprintf("TryPack panicked on reuse after polluter %d: %s", pi, again.panicMsg)}
		case again.handled != res.handled:
			return vkVerdict{viol: fmt.Sprintf("handled=%v on first pack but %v after polluter %d went through the pooled state", res.handled, again.handled, pi)}
		case !bytes.Equal(again.body, res.body):
			return vkVerdict{viol: fmt.Sprintf("bytes depend on the previously packed message (polluter %d): offset %d, now %s / before %s", pi, vkFirstDiff(again.body, res.body), vkHex(again.body), vkHex(res.body))}
		case again.handled && again.capLen[0] != again.capLen[1]:
			return vkVerdict{viol: "cap > len on reuse"}
		}
		if vkDump(m) != before {
			return vkVerdict{viol: "TryPack modified the message on reuse"}
		}
	}

	// the consumer's error travels back with handled=true
	sentinel := errors.New("vk-consumer-error")
	if res.handled {
		ce := vkTry(m, sentinel)
		if ce.panicMsg != "" || !ce.handled || ce.err != sentinel || ce.consumed != 1 {
			return vkVerdict{viol: fmt.Sprintf("consumer error not reported as (true, err): handled=%v err=%v consumed=%d %s", ce.handled, ce.err, ce.consumed, ce.panicMsg)}
		}
	}

	// PackClone: the library's bytes whether or not the fast path took it
	if refPanic == "" {
		m2 := build()
		b2 := vkDump(m2)
		owned, cerr, cpanic := vkClonePack(m2)
		switch {
		case cpanic != "":
			return vkVerdict{viol: "PackClone panicked where the library does not: " + cpanic}
		case refErr != nil && cerr == nil:
			return vkVerdict{viol: "PackClone succeeded where the library errors (" + refErr.Error() + ")"}
		case refErr == nil && cerr != nil:
			return vkVerdict{viol: "PackClone failed (" + cerr.Error() + ") where the library packs"}
		case refErr == nil && !bytes.Equal(owned, refBytes):
			return vkVerdict{viol: fmt.Sprintf("PackClone bytes differ from dns.Msg.Pack at offset %d: %s / %s", vkFirstDiff(owned, refBytes), vkHex(owned), vkHex(refBytes))}
		case refErr == nil && cap(owned) != len(owned):
			return vkVerdict{viol: "PackClone returned a slice with spare capacity"}
		}
		if refErr == nil {
			// the caller keeps these bytes (cache entry): later packs must not reach them
			vkTry(vkPolluterShared(), nil)
			vkTry(vkPolluterManyNames(), nil)
			if !bytes.Equal(owned, refBytes) {
				return vkVerdict{viol: "PackClone's result changed when later messages were packed: it aliases the pooled buffer"}
			}
		}
		if !vkMsgInadmissible(m2) && vkDump(m2) != b2 {
			return vkVerdict{viol: "PackClone modified a message made of library records"}
		}
	}
	if res.handled {
		return vkVerdict{label: "handled", handled: true}
	}
	return vkVerdict{label: "declined:" + vkDeclineWhy(m, refErr, refPanic)}
}

// ---------------------------------------------------------------- runner

type vkRun struct {
	c      *vkit.Ctx
	only   string
	n      int
	halted bool
}

func (r *vkRun) stop() bool {
	if r.halted {
		return true
	}
	if r.only == "" && (r.c.OverBudget() || r.c.NumViolations() > 25) {
		if r.c.OverBudget() {
			r.c.Cap("time budget reached")
		}
		r.halted = true
	}
	return r.halted
}

// do evaluates one named case if it belongs to this shard.
func (r *vkRun) do(key string, build func() *dns.Msg) {
	if r.only != "" {
		if key != r.only {
			return
		}
	} else {
		r.n++
		if !r.c.Mine(r.n/8) || r.stop() {
			return
		}
	}
	c := r.c
	var v vkVerdict
	func() {
		defer func() {
			if p := recover(); p != nil {
				v = vkVerdict{viol: fmt.Sprintf("harness: building or judging the case panicked: %v", p)}
			}
		}()
		v = vkEval(build)
	}()
	c.Add("evaluations", 1)
	if strings.HasPrefix(v.viol, "harness:") {
		c.HarnessError(key + ": " + v.viol)
		return
	}
	if v.viol != "" {
		var v2 vkVerdict
		func() {
			defer func() { recover() }()
			v2 = vkEval(build)
		}()
		if v2.viol == "" {
			c.HarnessError(key + ": violation did not reproduce on a fresh message: " + v.viol)
			return
		}
		c.Violation(key, key+": "+v.viol, map[string]any{"case": key})
		return
	}
	group := key[:strings.Index(key, "|")]
	c.Outcome(group + ":" + v.label)
	if v.handled {
		c.DistinctStr("nontrivial", key)
		c.Add("handled", 1)
		if r.n%4001 == 0 {
			c.Sample(map[string]any{"case": key, "outcome": v.label})
		}
	} else {
		c.Add("declined", 1)
	}
}

func TestVerifC15(t *testing.T) {
	c := vkit.Init("C15/diff")
	defer c.Close()
	vsync.PoolLIFO = true
	vkRegisterPrivate()
	r := &vkRun{c: c}
	thorough := c.Thorough()
	if c.Replay != nil {
		var p struct {
			Case string `json:"case"`
		}
		if err := json.Unmarshal(c.Replay, &p); err != nil || p.Case == "" {
			c.HarnessError("bad replay payload")
			return
		}
		r.only, thorough = p.Case, true
	}
	defer func() {
		if p := recover(); p != nil {
			c.HarnessError(fmt.Sprintf("harness panic: %v", p))
		}
	}()
	vkGrammar(r, thorough)
	if r.only != "" && c.NumViolations() == 0 {
		c.Note("replayed case " + r.only + ": property held")
	}
}
