//go:build verif

package wire

// C15 unit "conc": two or three threads pack through the shared pool under the
// controlled scheduler; the consume callback yields while it holds the pooled
// buffer, so every placement of the other threads' complete packs inside that
// window is executed. The borrowed bytes must stay the library's bytes for the
// whole callback, and every pack must still be byte-identical.

import (
	"bytes"
	"encoding/json"
	"fmt"
	"testing"

	"github.com/miekg/dns"
	"github.com/semihalev/sdns/internal/verifshim/sched"
	"github.com/semihalev/sdns/internal/verifshim/vkit"
	"github.com/semihalev/sdns/internal/verifshim/vsync"
)

type vkConcMsg struct {
	id string
	mk func() *dns.Msg
}

func vkConcMsgs() []vkConcMsg {
	sh := vkShapes()
	return []vkConcMsg{
		{"small-answer", sh[4].build},
		{"referral+opt", func() *dns.Msg { m := sh[6].build(); m.Compress = true; return m }},
		{"big-shared", vkPolluterShared},
		{"big-manynames-ext", vkPolluterManyNames},
		{"ext-rcode", func() *dns.Msg {
			m := new(dns.Msg)
			m.Id, m.Response, m.Compress, m.Rcode = 4, true, true, 23
			m.Question = []dns.Question{vkQ("example.org.", dns.TypeA)}
			m.Extra = []dns.RR{vkOPT(0)}
			return m
		}},
		{"too-big(declined)", func() *dns.Msg { return vkSized(5000, true, false, 0) }},
		// declined AFTER the pack state was taken from the pool: a record the decoder accepts and the packer refuses
		// (an SVCB alpn list holding an empty alpn-id) — whatever the decline path does with the state, it must
		// reach the pool exactly once
		{"unpackable-svcb(declined late)", func() *dns.Msg {
			m := new(dns.Msg)
			m.Id, m.Response, m.Compress = 9, true, true
			m.Question = []dns.Question{vkQ("svc.example.org.", dns.TypeSVCB)}
			m.Answer = []dns.RR{&dns.SVCB{Hdr: dns.RR_Header{Name: "svc.example.org.", Rrtype: dns.TypeSVCB, Class: dns.ClassINET, Ttl: 60}, Priority: 1, Target: "t.example.org.",
				Value: []dns.SVCBKeyValue{&dns.SVCBAlpn{Alpn: []string{""}}}}}
			return m
		}},
	}
}

type vkConcScenario struct {
	Threads [][]int `json:"threads"` // message indices per thread
}

func (s vkConcScenario) String() string { return fmt.Sprint(s.Threads) }

func vkConcFn(sc vkConcScenario, msgs []vkConcMsg) sched.Scenario {
	return func(r *sched.Run) func() (string, string) {
		var viol string
		handledCount := 0
		fail := func(s string) {
			if viol == "" {
				viol = s
			}
		}
		// a fresh pool per execution: drain whatever the previous execution left
		packStatePool = vsync.Pool{New: func() any { return new(packState) }}
		for ti, list := range sc.Threads {
			ti, list := ti, list
			r.Go(fmt.Sprintf("T%d", ti), func() {
				for _, mi := range list {
					m := msgs[mi].mk()
					want, werr := vkClone(m).Pack()
					before := vkDump(m)
					handled, err := TryPack(m, func(b []byte) error {
						if cap(b) != len(b) {
							fail(fmt.Sprintf("T%d %s: cap %d > len %d", ti, msgs[mi].id, cap(b), len(b)))
						}
						first := append([]byte{}, b...)
						r.Point("consume-holds-buffer")
						if !bytes.Equal(b, first) {
							fail(fmt.Sprintf("T%d %s: the borrowed buffer changed while consume was running (another pack wrote into it)", ti, msgs[mi].id))
						}
						r.Point("consume-holds-buffer-2")
						if !bytes.Equal(b, want) {
							fail(fmt.Sprintf("T%d %s: bytes differ from dns.Msg.Pack inside consume", ti, msgs[mi].id))
						}
						return nil
					})
					if err != nil {
						fail(fmt.Sprintf("T%d %s: error %v", ti, msgs[mi].id, err))
					}
					if handled && werr != nil {
						fail(fmt.Sprintf("T%d %s: handled a message the library refuses", ti, msgs[mi].id))
					}
					if handled {
						handledCount++
					}
					if vkDump(m) != before {
						fail(fmt.Sprintf("T%d %s: message modified", ti, msgs[mi].id))
					}
				}
			})
		}
		return func() (string, string) { return viol, fmt.Sprintf("handled=%d", handledCount) }
	}
}

func vkConcScenarios(thorough bool) []vkConcScenario {
	n := len(vkConcMsgs())
	var out []vkConcScenario
	for a := 0; a < n; a++ {
		for b := 0; b < n; b++ {
			out = append(out, vkConcScenario{Threads: [][]int{{a}, {b}}})
			out = append(out, vkConcScenario{Threads: [][]int{{a, b}, {b}}})
		}
	}
	if thorough {
		for a := 0; a < n; a++ {
			for b := 0; b < n; b++ {
				for c := 0; c < n; c++ {
					out = append(out, vkConcScenario{Threads: [][]int{{a}, {b}, {c}}})
					out = append(out, vkConcScenario{Threads: [][]int{{a, c}, {b, a}}})
				}
			}
		}
	}
	return out
}

func TestVerifC15Conc(t *testing.T) {
	c := vkit.Init("C15/conc")
	defer c.Close()
	vsync.PoolLIFO = true
	msgs := vkConcMsgs()
	bound := 2
	if c.Thorough() {
		bound = 3
	}
	if c.Replay != nil {
		var p struct {
			Scenario vkConcScenario `json:"scenario"`
			Choices  []int          `json:"choices"`
		}
		if err := json.Unmarshal(c.Replay, &p); err != nil {
			c.HarnessError("bad replay payload")
			return
		}
		_, v, _ := sched.RunOnce(sched.Config{Name: p.Scenario.String(), Horizon: 5000, KeepTrace: true}, vkConcFn(p.Scenario, msgs), p.Choices)
		if v != "" {
			c.Violation("conc:"+p.Scenario.String(), v, nil)
		}
		return
	}
	for i, sc := range vkConcScenarios(c.Thorough()) {
		if !c.Mine(i) {
			continue
		}
		if c.OverBudget() {
			c.Cap("time budget reached")
			break
		}
		res := sched.Explore(sched.Config{Name: sc.String(), Bound: bound, Horizon: 5000, Stop: c.OverBudget}, vkConcFn(sc, msgs))
		if res.HarnessErr != "" {
			c.HarnessError(res.HarnessErr)
			return
		}
		c.Add("evaluations", int64(res.Executions))
		c.Add("schedules", int64(res.Executions))
		c.Max("max_points", int64(res.MaxPoints))
		if !res.Exhaustive {
			c.Cap("execution cap in " + sc.String())
		}
		for o := range res.Outcomes {
			c.Outcome("conc:" + o)
		}
		if res.Executions > 1 {
			c.DistinctStr("nontrivial", "conc|"+sc.String())
		}
		if i%37 == 0 {
			c.Sample(map[string]any{"scenario": sc.String(), "schedules": res.Executions, "preemption_bound": bound})
		}
		for _, v := range res.Violations {
			c.Violation("conc:"+sc.String(), fmt.Sprintf("%s (schedule %v)", v.Message, v.Choices), map[string]any{"scenario": sc, "choices": v.Choices})
			break
		}
	}
}
