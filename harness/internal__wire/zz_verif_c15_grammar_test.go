//go:build verif

package wire

// C15 — the enumerated grammar. Every case has a stable key and a builder that
// returns a fresh message.

import (
	"fmt"
	"net"
	"strings"

	"github.com/miekg/dns"
)

func vkQ(name string, t uint16) dns.Question {
	return dns.Question{Name: name, Qtype: t, Qclass: dns.ClassINET}
}

func vkA(owner string, last byte) *dns.A {
	return &dns.A{Hdr: dns.RR_Header{Name: owner, Rrtype: dns.TypeA, Class: dns.ClassINET, Ttl: 300}, A: []byte{192, 0, 2, last}}
}

func vkNS(owner, target string) *dns.NS {
	return &dns.NS{Hdr: dns.RR_Header{Name: owner, Rrtype: dns.TypeNS, Class: dns.ClassINET, Ttl: 3600}, Ns: target}
}

func vkOPT(ttl uint32, opts ...dns.EDNS0) *dns.OPT {
	return &dns.OPT{Hdr: dns.RR_Header{Name: ".", Rrtype: dns.TypeOPT, Class: 1232, Ttl: ttl}, Option: opts}
}

// ---------------------------------------------------------------- headers

type vkHdr struct {
	id    string
	apply func(m *dns.Msg)
}

func vkHeaders() []vkHdr {
	h := []vkHdr{
		{"plain", func(m *dns.Msg) {}},
		{"qr", func(m *dns.Msg) { m.Response = true }},
		{"aa", func(m *dns.Msg) { m.Authoritative = true }},
		{"tc", func(m *dns.Msg) { m.Truncated = true }},
		{"rd", func(m *dns.Msg) { m.RecursionDesired = true }},
		{"ra", func(m *dns.Msg) { m.RecursionAvailable = true }},
		{"z", func(m *dns.Msg) { m.Zero = true }},
		{"ad", func(m *dns.Msg) { m.AuthenticatedData = true }},
		{"cd", func(m *dns.Msg) { m.CheckingDisabled = true }},
		{"all", func(m *dns.Msg) {
			m.Response, m.Authoritative, m.Truncated, m.RecursionDesired = true, true, true, true
			m.RecursionAvailable, m.Zero, m.AuthenticatedData, m.CheckingDisabled = true, true, true, true
		}},
		{"id0", func(m *dns.Msg) { m.Id = 0 }},
		{"idffff", func(m *dns.Msg) { m.Id = 0xFFFF }},
	}
	for _, op := range []int{1, 2, 4, 5, 6, 15, 16, 31, 32, -1} {
		op := op
		h = append(h, vkHdr{fmt.Sprintf("op%d", op), func(m *dns.Msg) { m.Opcode = op }})
	}
	return h
}

var vkRcodes = []int{0, 1, 15, 16, 23, 255, 256, 4095, 4096, -1, 1 << 20}

// ---------------------------------------------------------------- shapes

type vkShape struct {
	id    string
	build func() *dns.Msg
}

func vkShapes() []vkShape {
	return []vkShape{
		{"header-only", func() *dns.Msg { return new(dns.Msg) }},
		{"q1", func() *dns.Msg {
			m := new(dns.Msg)
			m.Question = []dns.Question{vkQ("example.org.", dns.TypeA)}
			return m
		}},
		{"q2", func() *dns.Msg {
			m := new(dns.Msg)
			m.Question = []dns.Question{vkQ("example.org.", dns.TypeA), vkQ("a.example.org.", dns.TypeAAAA)}
			return m
		}},
		{"q2-same", func() *dns.Msg {
			m := new(dns.Msg)
			m.Question = []dns.Question{vkQ("example.org.", dns.TypeA), vkQ("example.org.", dns.TypeA)}
			return m
		}},
		{"q1+an", func() *dns.Msg {
			m := new(dns.Msg)
			m.Question = []dns.Question{vkQ("a.example.org.", dns.TypeA)}
			m.Answer = []dns.RR{vkA("a.example.org.", 1)}
			return m
		}},
		{"q1+opt", func() *dns.Msg {
			m := new(dns.Msg)
			m.Question = []dns.Question{vkQ("example.org.", dns.TypeA)}
			m.Extra = []dns.RR{vkOPT(0x8000)}
			return m
		}},
		{"referral+opt", func() *dns.Msg {
			m := new(dns.Msg)
			m.Question = []dns.Question{vkQ("www.a.example.org.", dns.TypeA)}
			m.Ns = []dns.RR{vkNS("a.example.org.", "ns1.a.example.org."), vkNS("a.example.org.", "ns2.a.example.org.")}
			m.Extra = []dns.RR{vkA("ns1.a.example.org.", 53), vkA("ns2.a.example.org.", 54), vkOPT(0, &dns.EDNS0_COOKIE{Code: dns.EDNS0COOKIE, Cookie: "0011223344556677"})}
			return m
		}},
		{"an-only", func() *dns.Msg { m := new(dns.Msg); m.Answer = []dns.RR{vkA("a.example.org.", 1)}; return m }},
		{"opt-stale-ext", func() *dns.Msg {
			m := new(dns.Msg)
			m.Question = []dns.Question{vkQ("example.org.", dns.TypeA)}
			m.Extra = []dns.RR{vkOPT(0xAB018000)}
			return m
		}},
		{"empty-nonnil-sections", func() *dns.Msg {
			m := new(dns.Msg)
			m.Question, m.Answer, m.Ns, m.Extra = []dns.Question{}, []dns.RR{}, []dns.RR{}, []dns.RR{}
			return m
		}},
	}
}

// ---------------------------------------------------------------- the grammar

func vkGrammar(r *vkRun, thorough bool) {
	// G1 header x rcode x shape x compress
	shapes := vkShapes()
	for _, h := range vkHeaders() {
		for _, rc := range vkRcodes {
			for _, s := range shapes {
				for _, comp := range []bool{false, true} {
					h, rc, s, comp := h, rc, s, comp
					r.do(fmt.Sprintf("hdr|%s|rc%d|%s|c%v", h.id, rc, s.id, comp), func() *dns.Msg {
						m := s.build()
						m.Id = 0x1234
						h.apply(m)
						m.Rcode, m.Compress = rc, comp
						return m
					})
				}
			}
		}
	}
	if r.stop() {
		return
	}
	vkGrammarRecords(r, thorough)
	vkGrammarOPT(r, thorough)
	vkGrammarSVCB(r, thorough)
	vkGrammarNames(r, thorough)
	vkGrammarSizes(r, thorough)
	vkGrammarForeign(r)
	vkGrammarSequences(r, thorough)
}

// G2 every library record type x filling x section x context x compress.
func vkGrammarRecords(r *vkRun, thorough bool) {
	types := vkTypes()
	skipped := 0
	owners := []string{"sub", "apex", "root", "n255", "l63", "mixed", "esc", "label64"}
	contexts := []string{"alone", "with-q", "after-a", "twice", "both-fillings", "rdata-owner-ns"}
	for _, t := range types {
		if _, ok := vkRecord(t, 1, "a.example.org."); !ok {
			skipped++
			continue
		}
		for variant := 0; variant <= 2; variant++ {
			for _, oid := range owners {
				for sec := 0; sec < 3; sec++ {
					for _, ctx := range contexts {
						for _, comp := range []bool{true, false} {
							if r.stop() {
								return
							}
							t, variant, oid, sec, ctx, comp := t, variant, oid, sec, ctx, comp
							key := fmt.Sprintf("rr|%s(%d)|fill%d|own-%s|sec%d|%s|c%v", dns.TypeToString[t], t, variant, oid, sec, ctx, comp)
							r.do(key, func() *dns.Msg {
								owner := vkName(oid)
								rr, _ := vkRecord(t, variant, owner)
								m := new(dns.Msg)
								m.Id, m.Response, m.Compress = 7, true, comp
								var list []dns.RR
								switch ctx {
								case "alone":
									list = []dns.RR{rr}
								case "with-q":
									m.Question = []dns.Question{vkQ(owner, t)}
									list = []dns.RR{rr}
								case "after-a":
									m.Question = []dns.Question{vkQ("host.example.org.", dns.TypeA)}
									list = []dns.RR{vkA("host.example.org.", 9), rr, vkA("Other.Example.NET.", 8)}
								case "twice":
									m.Question = []dns.Question{vkQ(owner, t)}
									list = []dns.RR{rr, rr}
								case "both-fillings":
									other, _ := vkRecord(t, 3-max(variant, 1), owner)
									list = []dns.RR{rr, other, vkNS(owner, "host.example.org.")}
								case "rdata-owner-ns":
									m.Question = []dns.Question{vkQ("example.org.", dns.TypeNS)}
									list = []dns.RR{vkNS("example.org.", "host.example.org."), vkNS("example.org.", "Other.Example.NET."), rr}
								}
								switch sec {
								case 0:
									m.Answer = list
								case 1:
									m.Ns = list
								default:
									m.Extra = list
								}
								return m
							})
						}
					}
				}
			}
		}
	}
	// ordered pairs of types: later records compress against names the earlier ones wrote
	for _, t1 := range types {
		for _, t2 := range types {
			for _, fills := range [][2]int{{1, 1}, {1, 2}, {2, 1}, {2, 2}} {
				for _, comp := range []bool{true, false} {
					if r.stop() {
						return
					}
					t1, t2, fills, comp := t1, t2, fills, comp
					r.do(fmt.Sprintf("rrpair|%d|%d|f%d%d|c%v", t1, t2, fills[0], fills[1], comp), func() *dns.Msg {
						a, _ := vkRecord(t1, fills[0], "host.example.org.")
						b, _ := vkRecord(t2, fills[1], "Other.Example.NET.")
						m := new(dns.Msg)
						m.Id, m.Response, m.Compress = 8, true, comp
						m.Question = []dns.Question{vkQ("example.org.", t1)}
						m.Answer, m.Ns, m.Extra = []dns.RR{a, b}, []dns.RR{b}, []dns.RR{a, vkOPT(0x8000)}
						return m
					})
				}
			}
		}
	}
	// ordered triples, one per section; quick: types that carry domain names
	tripleTypes := types
	if !thorough {
		tripleTypes = nil
		for _, t := range types {
			if vkHasDomainName(t) {
				tripleTypes = append(tripleTypes, t)
			}
		}
	}
	tripleFills := [][3]int{{1, 2, 1}, {2, 1, 2}}
	if thorough {
		tripleFills = [][3]int{{1, 2, 1}, {2, 1, 2}, {1, 1, 2}, {2, 2, 1}}
	}
	for _, t1 := range tripleTypes {
		for _, t2 := range tripleTypes {
			for _, t3 := range tripleTypes {
				for _, f := range tripleFills {
					for _, comp := range []bool{true, false} {
						if r.stop() {
							return
						}
						if !comp && f[0] == 2 {
							continue
						}
						t1, t2, t3, f, comp := t1, t2, t3, f, comp
						r.do(fmt.Sprintf("rrtriple|%d|%d|%d|f%d%d%d|c%v", t1, t2, t3, f[0], f[1], f[2], comp), func() *dns.Msg {
							a, _ := vkRecord(t1, f[0], "host.example.org.")
							b, _ := vkRecord(t2, f[1], "a.example.org.")
							c, _ := vkRecord(t3, f[2], "Other.Example.NET.")
							m := new(dns.Msg)
							m.Id, m.Response, m.Compress = 8, true, comp
							m.Question = []dns.Question{vkQ("a.example.org.", t2)}
							m.Answer, m.Ns, m.Extra = []dns.RR{a}, []dns.RR{b}, []dns.RR{c}
							return m
						})
					}
				}
			}
		}
	}
	r.c.Note(fmt.Sprintf("record triples over %d types", len(tripleTypes)))
	// canned presentation-format records
	for i, line := range vkCanned {
		for sec := 0; sec < 3; sec++ {
			for _, comp := range []bool{true, false} {
				for _, withQ := range []bool{true, false} {
					i, line, sec, comp, withQ := i, line, sec, comp, withQ
					r.do(fmt.Sprintf("canned|%d|sec%d|c%v|q%v", i, sec, comp, withQ), func() *dns.Msg {
						rr, err := dns.NewRR(line)
						if err != nil || rr == nil {
							panic(fmt.Sprintf("canned record %d does not parse: %v", i, err))
						}
						m := new(dns.Msg)
						m.Id, m.Response, m.Compress = 9, true, comp
						if withQ {
							m.Question = []dns.Question{vkQ(rr.Header().Name, rr.Header().Rrtype)}
						}
						list := []dns.RR{rr, dns.Copy(rr), vkA("a.example.org.", 3)}
						switch sec {
						case 0:
							m.Answer = list
						case 1:
							m.Ns = list
						default:
							m.Extra = list
						}
						return m
					})
				}
			}
		}
	}
	r.c.Note(fmt.Sprintf("record group: %d registered types, %d could not be constructed and were skipped, %d canned records", len(types), skipped, len(vkCanned)))
}

// G3 OPT: every option kind x filling, pairs, all, rcodes, stale TTL bits, placement, aliasing.
func vkGrammarOPT(r *vkRun, thorough bool) {
	nk := len(vkOptKinds())
	ttls := []uint32{0, 0x8000, 0xFF000000, 0xAB018000}
	rcs := []int{0, 1, 15, 16, 23, 4095}
	withQ := func(m *dns.Msg) *dns.Msg {
		m.Id, m.Response = 11, true
		m.Question = []dns.Question{vkQ("example.org.", dns.TypeA)}
		return m
	}
	for k := 0; k < nk; k++ {
		for variant := 0; variant <= 2; variant++ {
			for _, ttl := range ttls {
				for _, rc := range rcs {
					for _, comp := range []bool{true, false} {
						k, variant, ttl, rc, comp := k, variant, ttl, rc, comp
						r.do(fmt.Sprintf("opt|single|k%d|fill%d|ttl%x|rc%d|c%v", k, variant, ttl, rc, comp), func() *dns.Msg {
							m := withQ(new(dns.Msg))
							m.Rcode, m.Compress = rc, comp
							m.Answer = []dns.RR{vkA("example.org.", 1)}
							m.Extra = []dns.RR{vkOPT(ttl, vkOption(k, variant))}
							return m
						})
					}
				}
			}
		}
	}
	for k1 := 0; k1 < nk; k1++ {
		for k2 := 0; k2 < nk; k2++ {
			for _, rc := range []int{0, 16} {
				k1, k2, rc := k1, k2, rc
				r.do(fmt.Sprintf("opt|pair|k%d|k%d|rc%d", k1, k2, rc), func() *dns.Msg {
					m := withQ(new(dns.Msg))
					m.Rcode, m.Compress = rc, true
					m.Extra = []dns.RR{vkA("ns.example.org.", 1), vkOPT(0x8000, vkOption(k1, 1), vkOption(k2, 2))}
					return m
				})
			}
		}
	}
	all := func(variant int) []dns.EDNS0 {
		var o []dns.EDNS0
		for k := 0; k < nk; k++ {
			o = append(o, vkOption(k, variant))
		}
		return o
	}
	type place struct {
		id    string
		build func(rc int, comp bool) *dns.Msg
	}
	places := []place{
		{"all-options", func(rc int, comp bool) *dns.Msg {
			m := withQ(new(dns.Msg))
			m.Extra = []dns.RR{vkOPT(0, all(1)...)}
			return m
		}},
		{"all-options-x2-fill2", func(rc int, comp bool) *dns.Msg {
			m := withQ(new(dns.Msg))
			m.Extra = []dns.RR{vkOPT(0, append(all(2), all(1)...)...)}
			return m
		}},
		{"no-options-nil-slice", func(rc int, comp bool) *dns.Msg {
			m := withQ(new(dns.Msg))
			m.Extra = []dns.RR{&dns.OPT{Hdr: dns.RR_Header{Name: ".", Rrtype: dns.TypeOPT, Class: 512}}}
			return m
		}},
		{"opt-first-then-a", func(rc int, comp bool) *dns.Msg {
			m := withQ(new(dns.Msg))
			m.Extra = []dns.RR{vkOPT(0x8000, vkOption(0, 1)), vkA("example.org.", 2)}
			return m
		}},
		{"opt-in-answer-only", func(rc int, comp bool) *dns.Msg {
			m := withQ(new(dns.Msg))
			m.Answer = []dns.RR{vkOPT(0x12000000, vkOption(0, 1))}
			return m
		}},
		{"opt-in-ns-only", func(rc int, comp bool) *dns.Msg {
			m := withQ(new(dns.Msg))
			m.Ns = []dns.RR{vkOPT(0x12000000, vkOption(2, 1))}
			return m
		}},
		{"opt-in-answer-and-extra-distinct", func(rc int, comp bool) *dns.Msg {
			m := withQ(new(dns.Msg))
			m.Answer = []dns.RR{vkOPT(0x12000000, vkOption(0, 1))}
			m.Extra = []dns.RR{vkOPT(0x34000000, vkOption(2, 1))}
			return m
		}},
		{"two-opts-in-extra", func(rc int, comp bool) *dns.Msg {
			m := withQ(new(dns.Msg))
			m.Extra = []dns.RR{vkOPT(0x12000000, vkOption(0, 1)), vkA("example.org.", 2), vkOPT(0x34008000, vkOption(2, 2))}
			return m
		}},
		{"three-opts-in-extra", func(rc int, comp bool) *dns.Msg {
			m := withQ(new(dns.Msg))
			m.Extra = []dns.RR{vkOPT(0x12000000), vkOPT(0x34000000), vkOPT(0x56000000)}
			return m
		}},
		{"same-opt-twice-in-extra", func(rc int, comp bool) *dns.Msg {
			m := withQ(new(dns.Msg))
			o := vkOPT(0x12008000, vkOption(0, 1))
			m.Extra = []dns.RR{o, vkA("example.org.", 2), o}
			return m
		}},
		{"same-opt-in-answer-ns-extra", func(rc int, comp bool) *dns.Msg {
			m := withQ(new(dns.Msg))
			o := vkOPT(0x12008000, vkOption(0, 1))
			m.Answer, m.Ns, m.Extra = []dns.RR{o}, []dns.RR{o}, []dns.RR{o}
			return m
		}},
		{"first-opt-aliased-in-answer-last-selected", func(rc int, comp bool) *dns.Msg {
			m := withQ(new(dns.Msg))
			o1, o2 := vkOPT(0x12000000), vkOPT(0x34000000)
			m.Answer = []dns.RR{o1}
			m.Extra = []dns.RR{o1, o2}
			return m
		}},
		{"opt-named", func(rc int, comp bool) *dns.Msg {
			m := withQ(new(dns.Msg))
			o := vkOPT(0)
			o.Hdr.Name = "example.org."
			m.Extra = []dns.RR{o}
			return m
		}},
		{"opt-struct-typed-a", func(rc int, comp bool) *dns.Msg {
			m := withQ(new(dns.Msg))
			o := vkOPT(0x12000000, vkOption(0, 1))
			o.Hdr.Rrtype = dns.TypeA
			m.Extra = []dns.RR{o}
			return m
		}},
		{"a-struct-typed-opt", func(rc int, comp bool) *dns.Msg {
			m := withQ(new(dns.Msg))
			a := vkA("example.org.", 1)
			a.Hdr.Rrtype = dns.TypeOPT
			m.Extra = []dns.RR{a}
			return m
		}},
		{"a-struct-typed-opt-before-real-opt", func(rc int, comp bool) *dns.Msg {
			m := withQ(new(dns.Msg))
			a := vkA("example.org.", 1)
			a.Hdr.Rrtype = dns.TypeOPT
			m.Extra = []dns.RR{a, vkOPT(0)}
			return m
		}},
		{"nil-option", func(rc int, comp bool) *dns.Msg {
			m := withQ(new(dns.Msg))
			m.Extra = []dns.RR{vkOPT(0, vkOption(0, 1), nil)}
			return m
		}},
		{"typed-nil-option", func(rc int, comp bool) *dns.Msg {
			m := withQ(new(dns.Msg))
			m.Extra = []dns.RR{vkOPT(0, (*dns.EDNS0_NSID)(nil))}
			return m
		}},
		{"foreign-option", func(rc int, comp bool) *dns.Msg {
			m := withQ(new(dns.Msg))
			m.Extra = []dns.RR{vkOPT(0, vkForeignOpt{&dns.EDNS0_NSID{Code: dns.EDNS0NSID, Nsid: "ab"}})}
			return m
		}},
		{"foreign-option-in-unselected-opt", func(rc int, comp bool) *dns.Msg {
			m := withQ(new(dns.Msg))
			m.Answer = []dns.RR{vkOPT(0, vkForeignOpt{&dns.EDNS0_NSID{Code: dns.EDNS0NSID, Nsid: "ab"}})}
			m.Extra = []dns.RR{vkOPT(0)}
			return m
		}},
	}
	for _, p := range places {
		for _, rc := range rcs {
			for _, comp := range []bool{true, false} {
				p, rc, comp := p, rc, comp
				r.do(fmt.Sprintf("opt|place|%s|rc%d|c%v", p.id, rc, comp), func() *dns.Msg {
					m := p.build(rc, comp)
					m.Rcode, m.Compress = rc, comp
					return m
				})
			}
		}
	}
}

// G4 SVCB/HTTPS with each parameter kind.
func vkGrammarSVCB(r *vkRun, thorough bool) {
	kinds := vkSVCBKinds()
	mk := func(https bool, target string, vals ...dns.SVCBKeyValue) dns.RR {
		s := dns.SVCB{Hdr: dns.RR_Header{Name: "_svc.example.org.", Rrtype: dns.TypeSVCB, Class: dns.ClassINET, Ttl: 300}, Priority: 1, Target: target, Value: vals}
		if https {
			s.Hdr.Rrtype = dns.TypeHTTPS
			return &dns.HTTPS{SVCB: s}
		}
		return &s
	}
	msg := func(comp bool, rr dns.RR) *dns.Msg {
		m := new(dns.Msg)
		m.Id, m.Response, m.Compress = 13, true, comp
		m.Question = []dns.Question{vkQ("_svc.example.org.", rr.Header().Rrtype)}
		m.Answer = []dns.RR{rr, vkA("svc.example.org.", 1)}
		return m
	}
	for _, https := range []bool{false, true} {
		for _, target := range []string{"svc.example.org.", ".", "_svc.example.org."} {
			for _, comp := range []bool{true, false} {
				for k := range kinds {
					for v := 0; v <= 2; v++ {
						https, target, comp, k, v := https, target, comp, k, v
						r.do(fmt.Sprintf("svcb|https%v|t-%s|c%v|k%d|v%d", https, target, comp, k, v), func() *dns.Msg {
							return msg(comp, mk(https, target, kinds[k](v)))
						})
					}
					for k2 := range kinds {
						https, target, comp, k, k2 := https, target, comp, k, k2
						if target != "svc.example.org." && !thorough {
							continue
						}
						r.do(fmt.Sprintf("svcb|https%v|t-%s|c%v|pair%d-%d", https, target, comp, k, k2), func() *dns.Msg {
							return msg(comp, mk(https, target, kinds[k](1), kinds[k2](2)))
						})
					}
				}
				https, target, comp := https, target, comp
				r.do(fmt.Sprintf("svcb|https%v|t-%s|c%v|all", https, target, comp), func() *dns.Msg {
					var vals []dns.SVCBKeyValue
					for k := range kinds {
						vals = append(vals, kinds[k](2))
					}
					return msg(comp, mk(https, target, vals...))
				})
				r.do(fmt.Sprintf("svcb|https%v|t-%s|c%v|none", https, target, comp), func() *dns.Msg { return msg(comp, mk(https, target)) })
				r.do(fmt.Sprintf("svcb|https%v|t-%s|c%v|nil-value", https, target, comp), func() *dns.Msg {
					return msg(comp, mk(https, target, kinds[1](1), nil))
				})
				r.do(fmt.Sprintf("svcb|https%v|t-%s|c%v|typed-nil-value", https, target, comp), func() *dns.Msg {
					return msg(comp, mk(https, target, (*dns.SVCBAlpn)(nil)))
				})
				r.do(fmt.Sprintf("svcb|https%v|t-%s|c%v|foreign-value", https, target, comp), func() *dns.Msg {
					return msg(comp, mk(https, target, vkForeignSVCB{&dns.SVCBAlpn{Alpn: []string{"h2"}}}))
				})
			}
		}
	}
}

// G5 names: question x owner x rdata name.
func vkGrammarNames(r *vkRun, thorough bool) {
	q2s := append([]struct{ id, name string }{{"none", ""}}, vkNames...)
	for _, q2 := range q2s {
		for _, qn := range vkNames {
			for _, on := range vkNames {
				for _, rn := range vkNames {
					for _, comp := range []bool{true, false} {
						if r.stop() {
							return
						}
						q2, qn, on, rn, comp := q2, qn, on, rn, comp
						r.do(fmt.Sprintf("names|q2-%s|q-%s|o-%s|r-%s|c%v", q2.id, qn.id, on.id, rn.id, comp), func() *dns.Msg {
							m := new(dns.Msg)
							m.Id, m.Response, m.Compress = 17, true, comp
							m.Question = []dns.Question{vkQ(qn.name, dns.TypeNS)}
							if q2.id != "none" {
								m.Question = append(m.Question, vkQ(q2.name, dns.TypeA))
							}
							m.Answer = []dns.RR{vkNS(on.name, rn.name)}
							m.Ns = []dns.RR{&dns.SRV{Hdr: dns.RR_Header{Name: rn.name, Rrtype: dns.TypeSRV, Class: dns.ClassINET, Ttl: 1}, Port: 53, Target: on.name}}
							m.Extra = []dns.RR{vkA(rn.name, 1)}
							return m
						})
					}
				}
			}
		}
	}
}

// vkSized builds a message whose UNCOMPRESSED length is exactly want.
func vkSized(want int, comp, opt bool, rcode int) *dns.Msg {
	m := new(dns.Msg)
	m.Id, m.Response, m.Compress, m.Rcode = 19, true, comp, rcode
	m.Question = []dns.Question{vkQ("example.org.", dns.TypeTXT)}
	if opt {
		m.Extra = []dns.RR{vkOPT(0x8000, &dns.EDNS0_NSID{Code: dns.EDNS0NSID, Nsid: "aabb"})}
	}
	txt := func(n int) *dns.TXT {
		return &dns.TXT{Hdr: dns.RR_Header{Name: "example.org.", Rrtype: dns.TypeTXT, Class: dns.ClassINET, Ttl: 5}, Txt: []string{strings.Repeat("s", n)}}
	}
	for m.Len()+300 < want {
		m.Answer = append(m.Answer, txt(255))
	}
	for n := 0; n <= 255; n++ {
		m.Answer = append(m.Answer, txt(n))
		if m.Len() == want {
			return m
		}
		if m.Len() > want && n == 0 {
			break
		}
		m.Answer = m.Answer[:len(m.Answer)-1]
	}
	// two short records to close the gap
	for a := 0; a <= 255; a++ {
		for b := 0; b <= 40; b++ {
			m.Answer = append(m.Answer, txt(a), txt(b))
			if m.Len() == want {
				return m
			}
			m.Answer = m.Answer[:len(m.Answer)-2]
		}
	}
	panic(fmt.Sprintf("cannot size a message to %d", want))
}

// G6 sizes straddling the 4096-octet pooled buffer.
func vkGrammarSizes(r *vkRun, thorough bool) {
	lo, hi := 4080, 4112
	if thorough {
		lo, hi = 3990, 4200
	}
	for want := lo; want <= hi; want++ {
		for _, comp := range []bool{true, false} {
			for _, opt := range []bool{false, true} {
				for _, rc := range []int{0, 16} {
					want, comp, opt, rc := want, comp, opt, rc
					r.do(fmt.Sprintf("size|len%d|c%v|opt%v|rc%d", want, comp, opt, rc), func() *dns.Msg { return vkSized(want, comp, opt, rc) })
				}
			}
		}
	}
	for _, want := range []int{512, 1232, 2048, 4000, 8192, 20000, 65535, 70000} {
		for _, comp := range []bool{true, false} {
			want, comp := want, comp
			r.do(fmt.Sprintf("size|len%d|c%v|optfalse|rc0", want, comp), func() *dns.Msg { return vkSized(want, comp, false, 0) })
		}
	}
}

// G7 nil, typed-nil, private and foreign records in every position.
func vkGrammarForeign(r *vkRun) {
	bad := []struct {
		id string
		mk func() dns.RR
	}{
		{"nil", func() dns.RR { return nil }},
		{"typed-nil-a", func() dns.RR { return (*dns.A)(nil) }},
		{"typed-nil-opt", func() dns.RR { return (*dns.OPT)(nil) }},
		{"private", vkPrivateRR},
		{"wrapped-a", func() dns.RR { return vkWrapRR{vkA("a.example.org.", 1)} }},
		{"wrapped-a-ptr", func() dns.RR { return &vkWrapRR{vkA("a.example.org.", 1)} }},
		{"wrapped-opt", func() dns.RR { return vkWrapRR{vkOPT(0)} }},
		{"wrapped-nil", func() dns.RR { return vkWrapRR{} }},
	}
	for _, b := range bad {
		for sec := 0; sec < 3; sec++ {
			for pos := 0; pos < 3; pos++ {
				for _, withOpt := range []bool{false, true} {
					for _, rc := range []int{0, 16} {
						b, sec, pos, withOpt, rc := b, sec, pos, withOpt, rc
						r.do(fmt.Sprintf("foreign|%s|sec%d|pos%d|opt%v|rc%d", b.id, sec, pos, withOpt, rc), func() *dns.Msg {
							m := new(dns.Msg)
							m.Id, m.Response, m.Compress, m.Rcode = 23, true, true, rc
							m.Question = []dns.Question{vkQ("a.example.org.", dns.TypeA)}
							list := []dns.RR{vkA("a.example.org.", 1), vkA("a.example.org.", 2)}
							x := b.mk()
							switch pos {
							case 0:
								list = append([]dns.RR{x}, list...)
							case 1:
								list = []dns.RR{list[0], x, list[1]}
							default:
								list = append(list, x)
							}
							switch sec {
							case 0:
								m.Answer = list
							case 1:
								m.Ns = list
							default:
								m.Extra = list
							}
							if withOpt {
								m.Extra = append(m.Extra, vkOPT(0x8000))
							}
							return m
						})
					}
				}
			}
		}
	}
	r.do("foreign|nil-msg|", func() *dns.Msg { return nil })
	vkGrammarOddAddresses(r)
}

// G7b records whose address fields hold a value of the wrong length or family, as code that builds
// records from net.IP values can produce them (the library skips or pads such fields while packing:
// whatever the pooled buffer held there before must not show through).
func vkGrammarOddAddresses(r *vkRun) {
	v6 := net.ParseIP("2001:db8::1")
	hdr := func(t uint16) dns.RR_Header {
		return dns.RR_Header{Name: "a.example.org.", Rrtype: t, Class: dns.ClassINET, Ttl: 300}
	}
	odd := []struct {
		id string
		mk func() dns.RR
	}{
		{"a-holds-v6", func() dns.RR { return &dns.A{Hdr: hdr(dns.TypeA), A: v6} }},
		{"a-nil", func() dns.RR { return &dns.A{Hdr: hdr(dns.TypeA)} }},
		{"a-5-octets", func() dns.RR { return &dns.A{Hdr: hdr(dns.TypeA), A: net.IP{1, 2, 3, 4, 5}} }},
		{"a-3-octets", func() dns.RR { return &dns.A{Hdr: hdr(dns.TypeA), A: net.IP{1, 2, 3}} }},
		{"aaaa-holds-v4", func() dns.RR { return &dns.AAAA{Hdr: hdr(dns.TypeAAAA), AAAA: net.IP{192, 0, 2, 1}} }},
		{"aaaa-nil", func() dns.RR { return &dns.AAAA{Hdr: hdr(dns.TypeAAAA)} }},
		{"aaaa-15-octets", func() dns.RR { return &dns.AAAA{Hdr: hdr(dns.TypeAAAA), AAAA: make(net.IP, 15)} }},
		{"l32-holds-v6", func() dns.RR { return &dns.L32{Hdr: hdr(dns.TypeL32), Preference: 10, Locator32: v6} }},
		{"ipseckey-gw1-holds-v6", func() dns.RR {
			return &dns.IPSECKEY{Hdr: hdr(dns.TypeIPSECKEY), Precedence: 10, GatewayType: 1, Algorithm: 2, GatewayAddr: v6, PublicKey: "AQNRU3mG7TVTO2BkR47usntb102uFJtugbo6BSGvgqt4AQ=="}
		}},
		{"ipseckey-gw2-holds-v4", func() dns.RR {
			return &dns.IPSECKEY{Hdr: hdr(dns.TypeIPSECKEY), Precedence: 10, GatewayType: 2, Algorithm: 2, GatewayAddr: net.IP{192, 0, 2, 1}, PublicKey: "AQNRU3mG7TVTO2BkR47usntb102uFJtugbo6BSGvgqt4AQ=="}
		}},
		{"amtrelay-gw1-holds-v6", func() dns.RR {
			return &dns.AMTRELAY{Hdr: hdr(dns.TypeAMTRELAY), Precedence: 10, GatewayType: 1, GatewayAddr: v6}
		}},
		{"apl-odd", func() dns.RR {
			return &dns.APL{Hdr: hdr(dns.TypeAPL), Prefixes: []dns.APLPrefix{{Network: net.IPNet{IP: v6, Mask: net.CIDRMask(24, 32)}}}}
		}},
	}
	for _, o := range odd {
		for sec := 0; sec < 3; sec++ {
			for _, comp := range []bool{false, true} {
				o, sec, comp := o, sec, comp
				r.do(fmt.Sprintf("oddaddr|%s|sec%d|c%v", o.id, sec, comp), func() *dns.Msg {
					m := new(dns.Msg)
					m.Id, m.Response, m.Compress = 29, true, comp
					m.Question = []dns.Question{vkQ("a.example.org.", dns.TypeA)}
					list := []dns.RR{vkA("a.example.org.", 1), o.mk(), vkA("a.example.org.", 2)}
					switch sec {
					case 0:
						m.Answer = list
					case 1:
						m.Ns = list
					default:
						m.Extra = list
					}
					return m
				})
			}
		}
	}
}

// G8 sequences of 2-3 packs through one pooled state (on top of the reuse every case already gets).
func vkGrammarSequences(r *vkRun, thorough bool) {
	reps := []struct {
		id string
		mk func() *dns.Msg
	}{
		{"big-shared", vkPolluterShared},
		{"big-manynames-ext", vkPolluterManyNames},
		{"q-only", func() *dns.Msg {
			m := new(dns.Msg)
			m.Id, m.Compress = 1, true
			m.Question = []dns.Question{vkQ("example.org.", dns.TypeA)}
			return m
		}},
		{"small-answer", func() *dns.Msg {
			m := new(dns.Msg)
			m.Id, m.Response, m.Compress = 2, true, true
			m.Question = []dns.Question{vkQ("a.example.org.", dns.TypeA)}
			m.Answer = []dns.RR{vkA("a.example.org.", 1)}
			return m
		}},
		{"small-answer-nocompress", func() *dns.Msg {
			m := new(dns.Msg)
			m.Id, m.Response = 3, true
			m.Question = []dns.Question{vkQ("a.example.org.", dns.TypeA)}
			m.Answer = []dns.RR{vkA("a.example.org.", 1)}
			return m
		}},
		{"referral", func() *dns.Msg { return vkShapes()[6].build() }},
		{"ext-rcode", func() *dns.Msg {
			m := new(dns.Msg)
			m.Id, m.Response, m.Compress, m.Rcode = 4, true, true, 23
			m.Question = []dns.Question{vkQ("example.org.", dns.TypeA)}
			m.Extra = []dns.RR{vkOPT(0)}
			return m
		}},
		{"ext-rcode-no-opt(declined)", func() *dns.Msg {
			m := new(dns.Msg)
			m.Id, m.Response, m.Rcode = 5, true, 23
			m.Question = []dns.Question{vkQ("example.org.", dns.TypeA)}
			return m
		}},
		{"too-big(declined)", func() *dns.Msg { return vkSized(5000, true, false, 0) }},
		{"exactly-4096", func() *dns.Msg { return vkSized(4096, true, true, 0) }},
		{"nil-record(declined)", func() *dns.Msg {
			m := new(dns.Msg)
			m.Id, m.Compress = 6, true
			m.Answer = []dns.RR{vkA("a.example.org.", 1), nil}
			return m
		}},
		{"bad-name(declined-midway)", func() *dns.Msg {
			m := new(dns.Msg)
			m.Id, m.Compress = 7, true
			m.Question = []dns.Question{vkQ("a.example.org.", dns.TypeA)}
			m.Answer = []dns.RR{vkA("a.example.org.", 1), vkNS("host.example.org.", strings.Repeat("x", 64)+".example.org.")}
			return m
		}},
		{"header-only", func() *dns.Msg { return new(dns.Msg) }},
		// a record that fails HALF-WAY (owner, type, class, TTL already written, the target name cannot be encoded), with loud
		// header values: whatever the failed record left past the last whole record must be gone before the next pack
		{"bad-name-loud(declined-midway)", func() *dns.Msg {
			m := new(dns.Msg)
			m.Id, m.Compress = 9, true
			m.Question = []dns.Question{vkQ("a.example.org.", dns.TypeA)}
			bad := vkNS("a.example.org.", strings.Repeat("x", 64)+".example.org.")
			bad.Hdr.Class, bad.Hdr.Ttl = 0xfffe, 0xfffefdfc
			m.Answer = []dns.RR{vkA("a.example.org.", 1), bad}
			return m
		}},
		// probes whose address field is skipped by the library's encoder (4 octets the pack does not write)
		{"probe-a-holds-v6", func() *dns.Msg {
			m := new(dns.Msg)
			m.Id, m.Response, m.Compress = 10, true, true
			m.Question = []dns.Question{vkQ("a.example.org.", dns.TypeA)}
			m.Answer = []dns.RR{vkA("a.example.org.", 1),
				&dns.A{Hdr: dns.RR_Header{Name: "a.example.org.", Rrtype: dns.TypeA, Class: dns.ClassINET, Ttl: 300}, A: net.ParseIP("2001:db8::1")},
				vkA("a.example.org.", 2)}
			return m
		}},
		{"probe-l32-holds-v6", func() *dns.Msg {
			m := new(dns.Msg)
			m.Id, m.Response, m.Compress = 11, true, true
			m.Question = []dns.Question{vkQ("a.example.org.", dns.TypeA)}
			m.Answer = []dns.RR{&dns.L32{Hdr: dns.RR_Header{Name: "a.example.org.", Rrtype: dns.TypeL32, Class: dns.ClassINET, Ttl: 300}, Preference: 10, Locator32: net.ParseIP("2001:db8::1")},
				vkA("a.example.org.", 2)}
			return m
		}},
		{"svcb", func() *dns.Msg {
			m := new(dns.Msg)
			m.Id, m.Response, m.Compress = 8, true, true
			rr, _ := dns.NewRR(vkCanned[19])
			m.Question = []dns.Question{vkQ(rr.Header().Name, dns.TypeSVCB)}
			m.Answer = []dns.RR{rr}
			return m
		}},
	}
	n := len(reps)
	for i := 0; i < n; i++ {
		for j := 0; j < n; j++ {
			kmax := 0
			if thorough || (i < 6 && j < 6) {
				kmax = n
			}
			for k := -1; k < kmax; k++ {
				i, j, k := i, j, k
				key := fmt.Sprintf("seq|%s|%s", reps[i].id, reps[j].id)
				if k >= 0 {
					key += "|" + reps[k].id
				}
				// the judged message is the LAST of the sequence; the earlier ones pass
				// through the pooled state first, inside the builder
				r.do(key, func() *dns.Msg {
					vkTry(reps[i].mk(), nil)
					if k >= 0 {
						vkTry(reps[j].mk(), nil)
						return reps[k].mk()
					}
					return reps[j].mk()
				})
			}
		}
	}
}
