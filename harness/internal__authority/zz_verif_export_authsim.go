//go:build verif

package authority

// Export seam for the authsim/h_resolver pipeline helper (overlay-injected,
// never part of a normal build).

// VerifClear drops every cached delegation.
func (n *Cache) VerifClear() {
	var keys []uint64
	n.cache.ForEach(func(k uint64, _ any) bool { keys = append(keys, k); return true })
	for _, k := range keys {
		n.cache.Remove(k)
	}
}

// VerifLen reports the number of cached delegations (expired ones included).
func (n *Cache) VerifLen() int { return n.cache.Len() }
