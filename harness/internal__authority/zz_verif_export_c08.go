//go:build verif

package authority

// Export seam for check C08 (overlay-injected, never part of a normal build):
// raw read access to the delegation table without the expiry-on-read filter.

import "time"

// VerifC08Deleg is the raw view of one stored delegation.
type VerifC08Deleg struct {
	ExpiresAt time.Time
	Hosts     []string
	Addrs     []string
	DS        int
	Zone      string
}

// VerifC08Peek returns the stored delegation under key, expired or not.
func (n *Cache) VerifC08Peek(key uint64) (VerifC08Deleg, bool) {
	el, ok := n.cache.Get(key)
	if !ok {
		return VerifC08Deleg{}, false
	}
	d := el.(*Delegation)
	out := VerifC08Deleg{ExpiresAt: d.ExpiresAt, DS: len(d.DSSet)}
	if s := d.Servers; s != nil {
		s.RLock()
		out.Zone = s.Zone
		out.Hosts = append(out.Hosts, s.Hosts...)
		for _, srv := range s.List {
			if srv != nil {
				out.Addrs = append(out.Addrs, srv.Addr)
			}
		}
		s.RUnlock()
	}
	return out, true
}
