//go:build verif

package authority

// Export seam for C12/topo and C13/zone (overlay-injected, never part of a
// normal build): pins the ranking's only source of randomness (the package's
// own test seam randN) so that the order in which a delegation's servers are
// tried is a function of the delegation alone.

// VerifSetRandN installs f as the ranking's random source (nil restores the
// default). Must not be called while a resolution is in flight.
func VerifSetRandN(f func(n int) int) {
	if f == nil {
		randN = vkDefaultRandN
		return
	}
	randN = f
}

var vkDefaultRandN = randN
