//go:build verif

package doh

// C03/jsonentry — "Names are keyed identically whether they arrive as wire labels or presentation text, including
// escaped and non-printable octets." The DNS-over-HTTPS JSON API is where presentation text typed by a client enters:
// whatever HandleJSON hands to the pipeline is what every cache key, failure record and subtree cut is computed from.
// For every octet value 0..255 placed in a label — raw, as a \DDD escape, and as a backslash escape — and for every
// pair of distinct octets, the name the handler passes on must be exactly the spelling the wire decoder gives the same
// name (pack -> unpack), so that one owner name has one spelling and two owner names never share one.

import (
	"encoding/json"
	"fmt"
	"net/http"
	"net/http/httptest"
	"net/url"
	"testing"

	"github.com/miekg/dns"
	"github.com/semihalev/sdns/internal/verifshim/vkit"
)

// vkJSONAsk sends ?name=<name>&type=A through the real HandleJSON and returns the question name the pipeline saw.
func vkJSONAsk(name string) (seen string, status int) {
	h := HandleJSON(func(req *dns.Msg) *dns.Msg {
		if len(req.Question) == 1 {
			seen = req.Question[0].Name
		}
		m := new(dns.Msg)
		m.SetReply(req)
		return m
	})
	r := httptest.NewRequest(http.MethodGet, "https://doh.test/dns-query?name="+url.QueryEscape(name)+"&type=A", nil)
	w := httptest.NewRecorder()
	h(w, r)
	return seen, w.Code
}

// vkWireSpelling: the reference — what the wire decoder calls the name that `text` packs to ("" = not a name).
func vkWireSpelling(text string) string {
	buf := make([]byte, 300)
	off, err := dns.PackDomainName(dns.Fqdn(text), buf, 0, nil, false)
	if err != nil {
		return ""
	}
	s, _, err := dns.UnpackDomainName(buf[:off], 0)
	if err != nil {
		return ""
	}
	return s
}

func vkJSONCase(text string) string {
	want := vkWireSpelling(text)
	seen, status := vkJSONAsk(text)
	switch {
	case want == "" && seen != "":
		return fmt.Sprintf("name %q is not a domain name, yet the pipeline was handed %q", text, seen)
	case want == "":
		return ""
	case seen == "":
		return fmt.Sprintf("name %q (wire spelling %q) was refused with status %d", text, want, status)
	case seen != want:
		return fmt.Sprintf("name %q reached the pipeline as %q; the wire decoder spells the same name %q — one owner name, two spellings (and two owners can share one after text canonicalisation)", text, seen, want)
	}
	return ""
}

func TestVerifC03JSONEntry(t *testing.T) {
	c := vkit.Init("C03/jsonentry")
	defer c.Close()
	if c.Replay != nil {
		var r struct {
			Text string `json:"text"`
		}
		if json.Unmarshal(c.Replay, &r) != nil {
			c.HarnessError("bad replay")
			return
		}
		if v := vkJSONCase(r.Text); v != "" {
			c.Violation("jsonentry:replay", v, r)
		}
		return
	}
	n := 0
	try := func(class, text string) {
		n++
		if !c.Mine(n) {
			return
		}
		c.Add("evaluations", 1)
		v := vkJSONCase(text)
		if v == "" {
			c.Outcome(class + ":ok")
			c.DistinctStr("nontrivial", text)
			return
		}
		c.Violation("jsonentry:"+class, v, map[string]any{"text": text})
	}
	for b := 0; b < 256; b++ {
		raw := "x" + string([]byte{byte(b)}) + "y.example."
		cls := "raw-octet-ascii"
		switch {
		case b >= 0x80:
			cls = "raw-octet-high"
		case b < 0x21 || b == 0x7f:
			cls = "raw-octet-control"
		case b == '.' || b == '\\':
			cls = "raw-octet-special"
		}
		try(cls, raw)
		try("ddd-escape", fmt.Sprintf("x\\%03dy.example.", b))
		if b >= 0x21 && b < 0x7f {
			try("char-escape", "x\\"+string([]byte{byte(b)})+"y.example.")
		}
	}
	// two octets: every pair of high octets must stay apart
	for a := 0x80; a < 0x100; a += 5 {
		for b := 0x80; b < 0x100; b += 7 {
			try("raw-octet-high-pair", "p"+string([]byte{byte(a), byte(b)})+".example.")
		}
	}
	for _, s := range []string{"example", "Example.COM", ".", "a..b.", "toolong" + string(make([]byte, 70)) + ".example."} {
		try("shape", s)
	}
}
