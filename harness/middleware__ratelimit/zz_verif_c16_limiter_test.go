//go:build verif

package ratelimit

// C16/limiter — the per-client limiter store (a bounded table of C16's list)
// behaves as a map under every schedule: a key yields the limiter most
// recently created for it unless it was evicted or cleaned up, distinct keys
// (zero included) never alias, occupancy never exceeds the capacity, an insert
// never evicts the key it is writing, and at quiescence Len() equals the
// number of reachable entries. Threads call the real Get / Cleanup / Len; the
// store's RWMutex and the entries' atomics are the scheduling points.
// "Writers never wait on a global lock" is judged here too: with ample capacity
// (no eviction to coordinate) two threads inserting DIFFERENT keys must not take
// one and the same exclusive lock. This store is one map behind one RWMutex, so
// they do — reported as a finding (listed in KNOWN_FINDINGS.json: the repair is a
// sharded store, not a small patch); the segment tables pass the same test in unit conc.

import (
	"encoding/json"
	"fmt"
	"sort"
	"strings"
	"sync"
	"testing"
	"time"

	"github.com/semihalev/sdns/internal/verifshim/sched"
	"github.com/semihalev/sdns/internal/verifshim/vkit"
	"github.com/semihalev/sdns/internal/verifshim/vsync"
)

type vkLSOp struct {
	Op string `json:"op"` // get, cleanup-all, cleanup-none, len
	K  int    `json:"k,omitempty"`
}

func (o vkLSOp) String() string {
	if o.Op == "get" {
		return fmt.Sprintf("get(k%d)", o.K)
	}
	return o.Op
}

type vkLSScenario struct {
	Name    string     `json:"name"`
	Cap     int        `json:"cap"`
	Pre     []int      `json:"pre"`
	Threads [][]vkLSOp `json:"threads"`
}

func (s vkLSScenario) String() string {
	var b strings.Builder
	fmt.Fprintf(&b, "cap=%d pre=%v", s.Cap, s.Pre)
	for i, t := range s.Threads {
		fmt.Fprintf(&b, " T%d=%v", i, t)
	}
	return b.String()
}

var vkLSKeys = []uint64{0, 1, 1 << 63, 0xfeedfacecafebeef}

type vkLSCall struct {
	T         int
	Op        vkLSOp
	Call, Ret int
	Got       *limiter
	N         int
}

type vkLSWorld struct {
	s     *LimiterStore
	sc    vkLSScenario
	clock func() int
	mu    sync.Mutex
	hist  []vkLSCall
	names map[*limiter]string
	// curKey[t]: the key thread t is inserting / fetching right now (-1 = none); lockKeys: keys whose Get took
	// the store's exclusive lock in this execution
	curKey   []int
	lockKeys map[int]bool
}

func (w *vkLSWorld) name(l *limiter) string {
	if l == nil {
		return "nil"
	}
	w.mu.Lock()
	defer w.mu.Unlock()
	if n, ok := w.names[l]; ok {
		return n
	}
	n := fmt.Sprintf("L%d", len(w.names))
	w.names[l] = n
	return n
}

func (w *vkLSWorld) do(t int, o vkLSOp) {
	c := vkLSCall{T: t, Op: o, Call: w.clock()}
	switch o.Op {
	case "get":
		if t < len(w.curKey) {
			w.curKey[t] = o.K
		}
		c.Got = w.s.Get(vkLSKeys[o.K])
		if t < len(w.curKey) {
			w.curKey[t] = -1
		}
	case "cleanup-all":
		w.s.Cleanup(-time.Hour) // cutoff in the future: every entry is older
	case "cleanup-none":
		w.s.Cleanup(time.Hour)
	case "len":
		c.N = w.s.Len()
	}
	c.Ret = w.clock()
	w.mu.Lock()
	w.hist = append(w.hist, c)
	w.mu.Unlock()
}

// state: key index -> limiter identity
type vkLSState map[int]*limiter

func (s vkLSState) clone() vkLSState {
	c := vkLSState{}
	for k, v := range s {
		c[k] = v
	}
	return c
}

func (w *vkLSWorld) key(s vkLSState) string {
	ks := make([]int, 0, len(s))
	for k := range s {
		ks = append(ks, k)
	}
	sort.Ints(ks)
	var b strings.Builder
	for _, k := range ks {
		fmt.Fprintf(&b, "k%d=%s ", k, w.name(s[k]))
	}
	return b.String()
}

// step returns the possible successor states of one call, or nil if its result is impossible.
func (w *vkLSWorld) step(s vkLSState, c vkLSCall, created map[*limiter]bool) []vkLSState {
	switch c.Op.Op {
	case "get":
		if cur, ok := s[c.Op.K]; ok {
			if cur != c.Got {
				return nil // a present key must yield its current limiter
			}
			return []vkLSState{s}
		}
		// absent: a fresh limiter (never handed out before in this linearisation) is created
		if created[c.Got] {
			return nil
		}
		var out []vkLSState
		if len(s) < w.sc.Cap {
			n := s.clone()
			n[c.Op.K] = c.Got
			out = append(out, n)
		} else {
			// at capacity: exactly one OTHER key makes room (never the key being written)
			for victim := range s {
				n := s.clone()
				delete(n, victim)
				n[c.Op.K] = c.Got
				out = append(out, n)
			}
		}
		return out
	case "cleanup-all":
		return []vkLSState{{}}
	case "cleanup-none":
		return []vkLSState{s}
	case "len":
		if c.N != len(s) {
			return nil
		}
		return []vkLSState{s}
	}
	return nil
}

func (w *vkLSWorld) linearizable(init vkLSState, final vkLSState) bool {
	calls := w.hist
	n := len(calls)
	used := make([]bool, n)
	created := map[*limiter]bool{}
	for _, l := range init {
		created[l] = true
	}
	fk := w.key(final)
	var rec func(states []vkLSState, done int) bool
	rec = func(states []vkLSState, done int) bool {
		if done == n {
			for _, s := range states {
				if w.key(s) == fk {
					return true
				}
			}
			return false
		}
		for i := 0; i < n; i++ {
			if used[i] {
				continue
			}
			ok := true
			for j := 0; j < n; j++ {
				if !used[j] && j != i && calls[j].Ret < calls[i].Call {
					ok = false
					break
				}
			}
			if !ok {
				continue
			}
			var next []vkLSState
			seen := map[string]bool{}
			for _, s := range states {
				for _, s2 := range w.step(s, calls[i], created) {
					if k := w.key(s2); !seen[k] {
						seen[k] = true
						next = append(next, s2)
					}
				}
			}
			if len(next) == 0 {
				continue
			}
			fresh := calls[i].Op.Op == "get" && !created[calls[i].Got]
			if fresh {
				created[calls[i].Got] = true
			}
			used[i] = true
			if rec(next, done+1) {
				return true
			}
			used[i] = false
			if fresh {
				delete(created, calls[i].Got)
			}
		}
		return false
	}
	return rec([]vkLSState{init}, 0)
}

func (w *vkLSWorld) snapshot() vkLSState {
	st := vkLSState{}
	for ki, k := range vkLSKeys {
		if tl, ok := w.s.limiters[k]; ok {
			st[ki] = tl.limiter
		}
	}
	return st
}

func vkLSBuild(sc vkLSScenario) (*vkLSWorld, vkLSState) {
	w := &vkLSWorld{s: NewLimiterStore(sc.Cap, 10), sc: sc, names: map[*limiter]string{}}
	for _, k := range sc.Pre {
		w.s.Get(vkLSKeys[k])
	}
	return w, w.snapshot()
}

func (w *vkLSWorld) histStr() string {
	var b strings.Builder
	for _, c := range w.hist {
		fmt.Fprintf(&b, "T%d %v", c.T, c.Op)
		if c.Op.Op == "get" {
			fmt.Fprintf(&b, "->%s", w.name(c.Got))
		}
		if c.Op.Op == "len" {
			fmt.Fprintf(&b, "->%d", c.N)
		}
		fmt.Fprintf(&b, "@[%d,%d]; ", c.Call, c.Ret)
	}
	return b.String()
}

func vkLSScenarioFn(sc vkLSScenario) sched.Scenario {
	return func(r *sched.Run) func() (string, string) {
		w, init := vkLSBuild(sc)
		w.clock = r.StepCount
		w.curKey = make([]int, len(sc.Threads))
		for i := range w.curKey {
			w.curKey[i] = -1
		}
		w.lockKeys = map[int]bool{}
		vsync.LockMonitor = func(ev string, obj any) {
			if ev != "lock" || obj != any(&w.s.mu) {
				return
			}
			if t := r.Current().ID; t >= 0 && t < len(w.curKey) && w.curKey[t] >= 0 {
				w.lockKeys[w.curKey[t]] = true
			}
		}
		r.Monitor = func() string {
			if n := len(w.s.limiters); n > sc.Cap {
				return fmt.Sprintf("occupancy %d exceeds the capacity %d", n, sc.Cap)
			}
			return ""
		}
		for ti, ops := range sc.Threads {
			ti, ops := ti, ops
			r.Go(fmt.Sprintf("T%d", ti), func() {
				for _, o := range ops {
					w.do(ti, o)
				}
			})
		}
		return func() (string, string) {
			final := w.snapshot()
			outcome := w.key(final)
			if w.s.Len() != len(final) || len(w.s.limiters) != len(final) {
				return fmt.Sprintf("at quiescence Len()=%d, table holds %d, reachable %d (%s)", w.s.Len(), len(w.s.limiters), len(final), w.histStr()), outcome
			}
			if len(final) > sc.Cap {
				return fmt.Sprintf("at quiescence %d entries exceed the capacity %d", len(final), sc.Cap), outcome
			}
			seen := map[*limiter]int{}
			for k, l := range final {
				if o, dup := seen[l]; dup {
					return fmt.Sprintf("keys k%d and k%d alias one limiter", o, k), outcome
				}
				seen[l] = k
			}
			if sc.Cap >= 100 && len(w.lockKeys) > 1 {
				var ks []string
				for k := range w.lockKeys {
					ks = append(ks, fmt.Sprintf("k%d", k))
				}
				sort.Strings(ks)
				return fmt.Sprintf("writers inserting different keys take one store-wide exclusive lock (global lock): keys %v, capacity %d, %d entries — each waits for the other although they touch different keys", ks, sc.Cap, len(final)), outcome
			}
			if !w.linearizable(init, final) {
				return fmt.Sprintf("history is not explainable by a map with capacity %d: start {%s} final {%s}: %s", sc.Cap, w.key(init), w.key(final), w.histStr()), outcome
			}
			return "", outcome
		}
	}
}

func vkLSScenarios(thorough bool) []vkLSScenario {
	ops := []vkLSOp{{Op: "get", K: 0}, {Op: "get", K: 1}, {Op: "get", K: 2}, {Op: "cleanup-all"}, {Op: "cleanup-none"}, {Op: "len"}}
	if thorough {
		ops = append(ops, vkLSOp{Op: "get", K: 3})
	}
	type pre struct {
		cap int
		pre []int
	}
	pres := []pre{{2, nil}, {2, []int{0, 1}}, {1, []int{0}}, {100, []int{0}}}
	var out []vkLSScenario
	for _, p := range pres {
		for a := 0; a < len(ops); a++ {
			for b := a; b < len(ops); b++ {
				out = append(out, vkLSScenario{Cap: p.cap, Pre: p.pre, Threads: [][]vkLSOp{{ops[a]}, {ops[b]}}})
				for c := b; c < len(ops); c++ {
					out = append(out, vkLSScenario{Cap: p.cap, Pre: p.pre, Threads: [][]vkLSOp{{ops[a]}, {ops[b]}, {ops[c]}}})
				}
			}
		}
		two := [][]vkLSOp{{{Op: "get", K: 0}, {Op: "get", K: 0}}, {{Op: "get", K: 1}, {Op: "get", K: 0}}, {{Op: "get", K: 2}, {Op: "len"}}, {{Op: "cleanup-all"}, {Op: "get", K: 0}}}
		for a := range two {
			for b := a; b < len(two); b++ {
				out = append(out, vkLSScenario{Cap: p.cap, Pre: p.pre, Threads: [][]vkLSOp{two[a], two[b]}})
			}
		}
	}
	for i := range out {
		out[i].Name = fmt.Sprintf("ls-%d", i)
	}
	return out
}

func vkLSFreeRun(sc vkLSScenario) {
	w, _ := vkLSBuild(sc)
	w.clock = func() int { return 0 }
	var wg sync.WaitGroup
	for ti, ops := range sc.Threads {
		ti, ops := ti, ops
		wg.Add(1)
		go func() {
			defer wg.Done()
			for _, o := range ops {
				w.do(ti, o)
			}
		}()
	}
	wg.Wait()
}

func TestVerifC16Limiter(t *testing.T) {
	c := vkit.Init("C16/limiter")
	defer c.Close()
	if c.Replay != nil {
		var r struct {
			Scenario vkLSScenario `json:"scenario"`
			Choices  []int        `json:"choices"`
		}
		if err := json.Unmarshal(c.Replay, &r); err != nil {
			c.HarnessError("bad replay: " + err.Error())
			return
		}
		run, v, _ := sched.RunOnce(sched.Config{Name: r.Scenario.Name, KeepTrace: true}, vkLSScenarioFn(r.Scenario), r.Choices)
		if run.Diverged != "" {
			c.HarnessError("replay diverged: " + run.Diverged)
			return
		}
		if v != "" {
			c.Violation("limiter:"+r.Scenario.String(), v+"\n  trace: "+strings.Join(run.Trace, " "), nil)
		}
		return
	}
	scs := vkLSScenarios(c.Thorough())
	if vkit.FreeRun() {
		for i, sc := range scs {
			if !c.Mine(i) {
				continue
			}
			for rep := 0; rep < 20; rep++ {
				vkLSFreeRun(sc)
				c.Add("free_executions", 1)
			}
		}
		return
	}
	bound := 2
	if c.Thorough() {
		bound = 3
	}
	for i, sc := range scs {
		if !c.Mine(i) {
			continue
		}
		if c.OverBudget() {
			c.Cap(fmt.Sprintf("time budget reached after %d scenarios of this shard", i))
			break
		}
		res := sched.Explore(sched.Config{Name: sc.Name, Bound: bound, Horizon: 5000, Stop: c.OverBudget}, vkLSScenarioFn(sc))
		if res.HarnessErr != "" {
			c.HarnessError(res.HarnessErr)
			return
		}
		c.Add("evaluations", int64(res.Executions))
		c.Add("traces", int64(res.Executions))
		c.Add("transitions", int64(res.Points))
		c.Add("scenarios", 1)
		if !res.Exhaustive {
			c.Cap("execution cap in " + sc.Name)
		}
		for o := range res.Outcomes {
			if c.DistinctStr("states", sc.String()+"|"+o) && len(res.Outcomes) > 1 {
				c.DistinctStr("nontrivial", sc.String()+"|"+o)
			}
		}
		c.Outcome(fmt.Sprintf("outcomes=%d", len(res.Outcomes)))
		if i%61 == 0 {
			c.Sample(map[string]any{"scenario": sc.String(), "schedules": res.Executions, "distinct_outcomes": len(res.Outcomes), "preemption_bound": bound})
		}
		for _, v := range res.Violations {
			msg := v.Message
			if j := strings.IndexAny(msg, ":("); j > 0 {
				msg = msg[:j]
			}
			c.Violation("limiter:"+sc.String()+":"+strings.TrimSpace(msg), fmt.Sprintf("%s\n  schedule=%v\n  trace: %s", v.Message, v.Choices, strings.Join(v.Trace, " ")),
				map[string]any{"scenario": sc, "choices": v.Choices})
			break
		}
	}
}
