//go:build verif

package waitgroup

// C11/waitgroup — every interleaving (preemption bound 2/3) of 3 threads that
// run the cache's leader/follower protocol (middleware/cache/cache.go,
// Cache.ServeDNS dedup loop) on the REAL WaitGroup, compiled against the
// vsync shim so that every mutex operation is a scheduling point.
//
// What is modelled and what is real:
//   - JoinGeneration / Regroup / DoneGeneration / Generation.Err are the real
//     functions; their sync.RWMutex / sync.Mutex are vsync (scheduling points).
//   - "follower waits on generation.Done()" is a channel wait in production.
//     A managed thread must not block on a channel, so the wait is
//     r.Block(pred) with pred = generation.ctx.Err() != nil, read in-package.
//     The generation's own context/timer is real but armed with a 1 h timeout
//     so it never fires; "timed-out" generations are hand-built with an
//     already-expired deadline context (Err()==DeadlineExceeded, no timer).
//   - The protocol around the calls (wake -> look at shared result -> regroup
//     at most once when the request is a failure probe, else proceed alone) is
//     a transcription of the cache loop; whether a leader "fills the cache" is
//     a scenario parameter.

import (
	"context"
	"encoding/json"
	"errors"
	"fmt"
	"sort"
	"strings"
	"testing"
	"time"

	"github.com/semihalev/sdns/internal/verifshim/sched"
	"github.com/semihalev/sdns/internal/verifshim/vkit"
)

const vkKey uint64 = 0xC11

type vkWGScenario struct {
	Name string `json:"name"`
	// Pre: "none"; "tombstone" = a timed-out generation is still registered and
	// its (old) leader calls DoneGeneration at an arbitrary moment; "replaced" =
	// hand-built state for DoneGeneration's documented identity contract: the
	// registered generation is a live one led by thread L0 while an old,
	// timed-out, no longer registered generation's leader calls DoneGeneration.
	// (JoinGeneration/Regroup keep a timed-out generation registered as a
	// tombstone, so this state is not reachable through them today; the
	// contract "removes it only if it is still the current value" is what the
	// cache's deferred DoneGeneration relies on.)
	Pre string `json:"pre"`
	// Probe[i]: thread i is an expired-failure probe (may Regroup once);
	// otherwise an ordinary follower that proceeds alone after the wake-up.
	Probe []bool `json:"probe"`
	// Fill[n]: the n-th elected leader publishes a result followers can use.
	Fill []bool `json:"fill"`
	// OtherKey: thread 2 uses a different key (must be independent).
	OtherKey bool `json:"other_key,omitempty"`
}

func (s vkWGScenario) String() string {
	var b strings.Builder
	fmt.Fprintf(&b, "pre=%s probe=", s.Pre)
	for _, p := range s.Probe {
		if p {
			b.WriteByte('P')
		} else {
			b.WriteByte('O')
		}
	}
	b.WriteString(" fill=")
	for _, f := range s.Fill {
		if f {
			b.WriteByte('y')
		} else {
			b.WriteByte('n')
		}
	}
	if s.OtherKey {
		b.WriteString(" otherkey")
	}
	return b.String()
}

type vkGenInfo struct {
	id         int
	key        uint64
	leaders    int  // how many callers were told "you are the leader"
	leaderBusy bool // the leader has not yet called DoneGeneration
	detached   bool // hand-built generation that is deliberately not registered
	filled     bool // leader published a usable result
	regroupTo  map[*Generation]bool
	regroupLdr int
}

type vkWGWorld struct {
	wg      *WaitGroup
	sc      vkWGScenario
	gens    map[*Generation]*vkGenInfo
	order   []*Generation
	elected int
	final   []string
	log     []string
	bad     string
}

func (w *vkWGWorld) info(g *Generation, key uint64) *vkGenInfo {
	gi := w.gens[g]
	if gi == nil {
		gi = &vkGenInfo{id: len(w.order), key: key, regroupTo: map[*Generation]bool{}}
		w.gens[g] = gi
		w.order = append(w.order, g)
	}
	return gi
}

func (w *vkWGWorld) fail(format string, a ...any) {
	if w.bad == "" {
		w.bad = fmt.Sprintf(format, a...)
	}
}

func vkExpiredGeneration() *Generation {
	ctx, cancel := context.WithDeadline(context.Background(), time.Unix(1, 0))
	return &Generation{ctx: ctx, dups: 1, cancel: cancel}
}

// lead is what a leader does: work, optionally publish, DoneGeneration.
func (w *vkWGWorld) lead(r *sched.Run, t int, key uint64, g *Generation) string {
	gi := w.info(g, key)
	n := w.elected
	w.elected++
	fill := n < len(w.sc.Fill) && w.sc.Fill[n]
	r.Point("leader-work")
	if fill {
		gi.filled = true
	}
	gi.leaderBusy = false
	w.wg.DoneGeneration(key, g)
	if fill {
		return "lead+fill"
	}
	return "lead"
}

// client transcribes the cache dedup loop for one request.
func (w *vkWGWorld) client(r *sched.Run, t int, key uint64, probe bool) string {
	var previous *Generation
	regroups := 0
	for {
		var (
			g      *Generation
			leader bool
		)
		if previous != nil && probe {
			if regroups >= 1 { // maxFailureProbeRegroups
				return "limit"
			}
			g, leader = w.wg.Regroup(key, previous)
			regroups++
			if g == nil {
				w.fail("Regroup returned a nil generation")
				return "nil"
			}
			pi := w.info(previous, key)
			pi.regroupTo[g] = true
			if leader {
				pi.regroupLdr++
			}
			w.log = append(w.log, fmt.Sprintf("T%d regroup g%d->g%d leader=%v", t, pi.id, w.info(g, key).id, leader))
		} else {
			g, leader = w.wg.JoinGeneration(key)
			if g == nil {
				w.fail("JoinGeneration returned a nil generation")
				return "nil"
			}
			w.log = append(w.log, fmt.Sprintf("T%d join g%d leader=%v", t, w.info(g, key).id, leader))
		}
		gi := w.info(g, key)
		if leader {
			gi.leaders++
			gi.leaderBusy = true
			if gi.leaders > 1 {
				w.fail("generation g%d has %d leaders", gi.id, gi.leaders)
			}
			return w.lead(r, t, key, g)
		}
		// follower: wait for the generation to end
		r.Block("gen.Done", func() bool { return g.ctx.Err() != nil })
		if gi.leaderBusy && !errors.Is(g.Err(), context.DeadlineExceeded) {
			w.fail("follower T%d of g%d was released while its leader is still working (generation ended by someone else)", t, gi.id)
		}
		if gi.filled {
			return "hit"
		}
		timedOut := errors.Is(g.Err(), context.DeadlineExceeded)
		if probe && timedOut {
			return "tlimit"
		}
		if !probe {
			return "own" // ordinary follower: runs the upstream chain itself
		}
		previous = g
	}
}

func vkWGScenarioFn(sc vkWGScenario) sched.Scenario {
	return func(r *sched.Run) func() (string, string) {
		w := &vkWGWorld{wg: New(time.Hour), sc: sc, gens: map[*Generation]*vkGenInfo{}}
		nThreads := len(sc.Probe)
		w.final = make([]string, nThreads+1)
		var old *Generation
		var live *Generation
		switch sc.Pre {
		case "tombstone":
			old = vkExpiredGeneration()
			w.wg.groups[vkKey] = old
			gi := w.info(old, vkKey)
			gi.leaders, gi.leaderBusy = 1, true
		case "replaced":
			old = vkExpiredGeneration()
			gi := w.info(old, vkKey)
			gi.leaders, gi.leaderBusy, gi.detached = 1, true, true
			var ldr bool
			live, ldr = w.wg.JoinGeneration(vkKey) // pass-through mode: no run active yet
			if !ldr {
				w.fail("setup: first JoinGeneration was not the leader")
			}
			li := w.info(live, vkKey)
			li.leaders, li.leaderBusy = 1, true
		}
		// invariant evaluated at every scheduling point
		r.Monitor = func() string {
			if w.bad != "" {
				return w.bad
			}
			for _, g := range w.order {
				gi := w.gens[g]
				if !gi.leaderBusy || gi.detached {
					continue
				}
				if w.wg.groups[gi.key] != g {
					return fmt.Sprintf("generation g%d was unregistered while its leader is still working (registered now: %v)", gi.id, w.wg.groups[gi.key] != nil)
				}
				if err := g.ctx.Err(); err != nil && !errors.Is(err, context.DeadlineExceeded) {
					return fmt.Sprintf("generation g%d was ended (%v) while its leader is still working", gi.id, err)
				}
			}
			return ""
		}
		for t := 0; t < nThreads; t++ {
			t := t
			key := vkKey
			if sc.OtherKey && t == 2 {
				key = vkKey + 1
			}
			if sc.Pre == "replaced" && t == 0 {
				r.Go("L0", func() { w.final[0] = w.lead(r, 0, vkKey, live) })
				continue
			}
			r.Go(fmt.Sprintf("T%d", t), func() { w.final[t] = w.client(r, t, key, sc.Probe[t]) })
		}
		if old != nil {
			r.Go("OLD", func() {
				gi := w.info(old, vkKey)
				gi.leaderBusy = false
				w.wg.DoneGeneration(vkKey, old)
				w.final[nThreads] = "old-done"
			})
		}
		return func() (string, string) {
			fin := append([]string{}, w.final...)
			sort.Strings(fin)
			outcome := fmt.Sprintf("%s gens=%d", strings.Join(fin, ","), len(w.order))
			if w.bad != "" {
				return w.bad + " | " + strings.Join(w.log, "; "), outcome
			}
			for i, f := range w.final {
				if f == "" && (i < nThreads || old != nil) {
					return fmt.Sprintf("thread %d never finished | %s", i, strings.Join(w.log, "; ")), outcome
				}
			}
			for _, g := range w.order {
				gi := w.gens[g]
				if gi.leaders != 1 {
					return fmt.Sprintf("generation g%d has %d leaders | %s", gi.id, gi.leaders, strings.Join(w.log, "; ")), outcome
				}
				if len(gi.regroupTo) > 1 || gi.regroupLdr > 1 {
					return fmt.Sprintf("the followers of generation g%d regrouped onto %d different generations (%d leaders): the cohort split | %s",
						gi.id, len(gi.regroupTo), gi.regroupLdr, strings.Join(w.log, "; ")), outcome
				}
				if g.ctx.Err() == nil {
					return fmt.Sprintf("generation g%d is still open at quiescence (leaked timer/context) | %s", gi.id, strings.Join(w.log, "; ")), outcome
				}
			}
			if n := len(w.wg.groups); n != 0 {
				return fmt.Sprintf("%d generation(s) still registered at quiescence | %s", n, strings.Join(w.log, "; ")), outcome
			}
			if w.wg.Get(vkKey) != 0 {
				return "Get(key) != 0 at quiescence", outcome
			}
			return "", outcome
		}
	}
}

func vkWGScenarios() []vkWGScenario {
	var out []vkWGScenario
	probes := [][]bool{{true, true, true}, {true, true, false}, {true, false, false}, {false, false, false}}
	fills := [][]bool{{false, false}, {false, true}, {true, false}, {true, true}}
	for _, pre := range []string{"none", "tombstone", "replaced"} {
		for _, p := range probes {
			for _, f := range fills {
				out = append(out, vkWGScenario{Pre: pre, Probe: p, Fill: f})
			}
		}
	}
	out = append(out, vkWGScenario{Pre: "none", Probe: []bool{true, true, true}, Fill: []bool{false, false}, OtherKey: true})
	out = append(out, vkWGScenario{Pre: "tombstone", Probe: []bool{true, true, true}, Fill: []bool{false, false}, OtherKey: true})
	for i := range out {
		out[i].Name = fmt.Sprintf("wg-%d", i)
	}
	return out
}

func TestVerifC11WG(t *testing.T) {
	c := vkit.Init("C11/waitgroup")
	defer c.Close()
	if c.Replay != nil {
		var rp struct {
			Scenario vkWGScenario `json:"scenario"`
			Choices  []int        `json:"choices"`
		}
		if err := json.Unmarshal(c.Replay, &rp); err != nil {
			c.HarnessError("bad replay: " + err.Error())
			return
		}
		run, v, _ := sched.RunOnce(sched.Config{Name: rp.Scenario.Name, KeepTrace: true}, vkWGScenarioFn(rp.Scenario), rp.Choices)
		if run.Diverged != "" {
			c.HarnessError("replay diverged: " + run.Diverged)
			return
		}
		if v != "" {
			c.Violation("wg:"+rp.Scenario.String()+":"+vkFirst(v), v+"\n  trace: "+strings.Join(run.Trace, " "), nil)
		}
		return
	}
	bound := 2
	if c.Thorough() {
		bound = 3
	}
	for i, sc := range vkWGScenarios() {
		if !c.Mine(i) {
			continue
		}
		if c.OverBudget() {
			c.Cap(fmt.Sprintf("time budget reached before scenario %d", i))
			break
		}
		res := sched.Explore(sched.Config{Name: sc.Name, Bound: bound, Horizon: 3000, Stop: c.OverBudget}, vkWGScenarioFn(sc))
		if res.HarnessErr != "" {
			c.HarnessError(res.HarnessErr)
			return
		}
		c.Add("evaluations", int64(res.Executions))
		c.Add("traces", int64(res.Executions))
		c.Add("transitions", int64(res.Points))
		c.Add("scenarios", 1)
		c.Max("max_points", int64(res.MaxPoints))
		if !res.Exhaustive {
			c.Cap("time budget reached inside " + sc.Name)
		}
		for o := range res.Outcomes {
			c.Outcome(o)
			if c.DistinctStr("states", sc.String()+"|"+o) && len(res.Outcomes) > 1 {
				c.DistinctStr("nontrivial", sc.String()+"|"+o)
			}
		}
		if i%11 == 0 {
			c.Sample(map[string]any{"scenario": sc.String(), "schedules": res.Executions, "distinct_outcomes": len(res.Outcomes), "preemption_bound": bound})
		}
		for _, v := range res.Violations {
			c.Violation("wg:"+sc.String()+":"+vkFirst(v.Message), fmt.Sprintf("%s\n  schedule=%v\n  trace: %s", v.Message, v.Choices, strings.Join(v.Trace, " ")),
				map[string]any{"scenario": sc, "choices": v.Choices})
			break
		}
	}
}

func vkFirst(s string) string {
	if i := strings.Index(s, " | "); i > 0 {
		s = s[:i]
	}
	if i := strings.IndexAny(s, "\n"); i > 0 {
		s = s[:i]
	}
	if len(s) > 140 {
		s = s[:140]
	}
	return s
}
