//go:build verif

package views

// C17 unit "views" — per-client views answer by the same containment rule as
// the access list, first matching view in declaration order; a
// resolver-internal sub-query is never answered by a view.
//
// Bounded-exhaustive: every ordered triple (with repetition; thorough: also
// every ordered 4-tuple) of network lists from a pool (overlapping, nested,
// host bits, mixed families, malformed) becomes the Networks of views #0,#1,#2
// in declaration order; view #i answers www.example.org A with 192.0.2.(i+1).
// Every source x {udp,tcp,doh,doq} x {decoded, wire-born} is run through the
// REAL views handler in front of a counting stub.
//
// Oracle: want = least i such that some parsable CIDR of view i contains the
// unmapped source (netip.Prefix.Contains; validity stated by hand). If such i
// exists the reply carries exactly view i's address and the stub is not
// reached; otherwise the stub is reached once. Internal sinks are exercised
// and recorded as outcomes only (judged end to end by unit "pipeline").

import (
	"context"
	"encoding/json"
	"fmt"
	"net"
	"net/netip"
	"strings"
	"testing"
	"time"

	"github.com/miekg/dns"
	"github.com/semihalev/sdns/config"
	"github.com/semihalev/sdns/internal/verifshim/vkit"
	"github.com/semihalev/sdns/middleware"
	"github.com/semihalev/zlog/v2"
)

type vkNet struct {
	s     string
	valid bool
}

// vkPool: network lists a view can carry.
var vkPool = [][]vkNet{
	{{"10.0.0.16/28", true}},
	{{"10.0.0.24/29", true}, {"2001:db8:0:1::/64", true}},
	{{"10.0.0.0/24", true}, {"bogus/0", false}},
	{{"10.0.0.37/28", true}, {"2001:db8:0:1:8000::/65", true}}, // host bits -> .32/28
	{{"0.0.0.0/0", true}},
	{{"::/0", true}},
	{{"10.0.0.16/33", false}, {"10.0.0.16", false}}, // nothing parsable: matches nobody
}

func vkPoolStrs(i int) []string {
	var out []string
	for _, n := range vkPool[i] {
		out = append(out, n.s)
	}
	return out
}

func vkPoolContains(i int, a netip.Addr) bool {
	for _, n := range vkPool[i] {
		if !n.valid {
			continue
		}
		if netip.MustParsePrefix(n.s).Masked().Contains(a.Unmap()) {
			return true
		}
	}
	return false
}

type vkSrc struct {
	name string
	ip   net.IP
	addr netip.Addr
}

func vkSources() []vkSrc {
	var out []vkSrc
	v4 := func(a, b, c, d byte) {
		ad := netip.AddrFrom4([4]byte{a, b, c, d})
		out = append(out, vkSrc{name: ad.String(), ip: net.IP{a, b, c, d}, addr: ad})
		out = append(out, vkSrc{name: "::ffff:" + ad.String(), ip: net.IPv4(a, b, c, d), addr: ad})
	}
	for _, q := range [][4]byte{{10, 0, 0, 15}, {10, 0, 0, 16}, {10, 0, 0, 23}, {10, 0, 0, 24}, {10, 0, 0, 31},
		{10, 0, 0, 32}, {10, 0, 0, 47}, {10, 0, 0, 48}, {10, 0, 1, 0}, {198, 51, 100, 7}} {
		v4(q[0], q[1], q[2], q[3])
	}
	for _, s := range []string{"2001:db8:0:0:ffff:ffff:ffff:ffff", "2001:db8:0:1::", "2001:db8:0:1:7fff:ffff:ffff:ffff",
		"2001:db8:0:1:8000::", "2001:db8:0:1:ffff:ffff:ffff:ffff", "2001:db8:0:2::"} {
		ad := netip.MustParseAddr(s)
		b := ad.As16()
		out = append(out, vkSrc{name: s, ip: append(net.IP(nil), b[:]...), addr: ad})
	}
	return out
}

type vkTransport struct {
	remote   net.Addr
	proto    string
	internal bool
	msgs     []*dns.Msg
	raw      int
}

func (t *vkTransport) LocalAddr() net.Addr {
	return &net.UDPAddr{IP: net.IPv4(192, 0, 2, 53), Port: 53}
}
func (t *vkTransport) RemoteAddr() net.Addr { return t.remote }
func (t *vkTransport) WriteMsg(m *dns.Msg) error {
	t.msgs = append(t.msgs, m)
	return nil
}
func (t *vkTransport) Write(b []byte) (int, error) {
	m := new(dns.Msg)
	if err := m.Unpack(b); err != nil {
		t.raw++
		return len(b), nil
	}
	t.msgs = append(t.msgs, m)
	return len(b), nil
}
func (t *vkTransport) Close() error   { return nil }
func (t *vkTransport) Proto() string  { return t.proto }
func (t *vkTransport) Internal() bool { return t.internal }

var vkTransports = []string{"udp", "tcp", "doh", "doq", "internal-flag", "internal-sentinel"}

func vkIsInternal(kind string) bool { return strings.HasPrefix(kind, "internal") }

func vkNewTransport(kind string, ip net.IP) *vkTransport {
	switch kind {
	case "udp":
		return &vkTransport{remote: &net.UDPAddr{IP: ip, Port: 40000}}
	case "tcp":
		return &vkTransport{remote: &net.TCPAddr{IP: ip, Port: 40000}}
	case "doh":
		return &vkTransport{remote: &net.TCPAddr{IP: ip, Port: 40000}, proto: "doh"}
	case "doq":
		return &vkTransport{remote: &net.UDPAddr{IP: ip, Port: 40000}, proto: "doq"}
	case "internal-flag":
		return &vkTransport{remote: &net.TCPAddr{IP: ip, Port: 0}, proto: "tcp", internal: true}
	case "internal-sentinel":
		return &vkTransport{remote: &net.TCPAddr{IP: net.IPv4(127, 0, 0, 255), Port: 0}}
	}
	return nil
}

var vkEntries = []string{"msg", "wire"}

const vkStubAddr = "203.0.113.99"

type vkStub struct{ calls int }

func (s *vkStub) Name() string { return "vkstub" }
func (s *vkStub) ServeDNS(ctx context.Context, ch *middleware.Chain) {
	s.calls++
	req := ch.Request.Msg()
	if req == nil {
		return
	}
	m := new(dns.Msg)
	m.SetReply(req)
	rr, _ := dns.NewRR("www.example.org. 60 IN A " + vkStubAddr)
	m.Answer = []dns.RR{rr}
	_ = ch.Writer.WriteMsg(m)
	ch.Cancel()
}

// vkCurShapes[i] is the answer shape of declared view i in the configuration being built and judged
// (nil = every view answers): 0 its own A answer, 1 no answers at all, 2 only an unparsable answer
// line, 3 an answer for another name. A first-matching view WITHOUT a record for the question still
// decides: the query goes downstream, later views never get a say.
var vkCurShapes []int

func vkShape(i int) int {
	if i < len(vkCurShapes) {
		return vkCurShapes[i]
	}
	return 0
}

func vkBuild(cfgIdx []int) *Views {
	cfg := &config.Config{}
	for i, pi := range cfgIdx {
		var answers []string
		switch vkShape(i) {
		case 0:
			answers = []string{fmt.Sprintf("www.example.org. 60 IN A 192.0.2.%d", i+1)}
		case 1:
		case 2:
			answers = []string{"www.example.org. 60 IN A not-an-address"}
		case 3:
			answers = []string{fmt.Sprintf("other.example.org. 60 IN A 192.0.2.%d", i+1)}
		}
		cfg.Views = append(cfg.Views, config.ViewConfig{
			Zone:     fmt.Sprintf("view%d", i),
			Networks: vkPoolStrs(pi),
			Answers:  answers,
		})
	}
	return New(cfg)
}

type vkCase struct {
	Views     []int  `json:"views"` // pool index per declared view
	Shapes    []int  `json:"shapes,omitempty"`
	Src       string `json:"src"`
	Transport string `json:"transport"`
	Entry     string `json:"entry"`
}

func (k vkCase) key() string {
	if len(k.Shapes) > 0 {
		return fmt.Sprintf("views:%v shapes=%v src=%s %s/%s", k.Views, k.Shapes, k.Src, k.Transport, k.Entry)
	}
	return fmt.Sprintf("views:%v src=%s %s/%s", k.Views, k.Src, k.Transport, k.Entry)
}

// vkRun returns the A addresses written to the transport (one string per reply) and stub calls.
func vkRun(v *Views, src vkSrc, transport, entry string) ([]string, int, string) {
	stub := &vkStub{}
	ch := middleware.NewChain([]middleware.Handler{v, stub})
	tr := vkNewTransport(transport, src.ip)
	q := new(dns.Msg)
	q.SetQuestion("www.example.org.", dns.TypeA)
	if entry == "msg" {
		ch.Reset(tr, q)
	} else {
		raw, err := q.Pack()
		if err != nil {
			return nil, 0, "pack: " + err.Error()
		}
		req := new(middleware.Request)
		if !req.ParseWire(raw, time.Now(), nil) {
			return nil, 0, "ParseWire refused a plain query"
		}
		ch.ResetWire(tr, req)
		ch.AllowDirectPack()
	}
	ch.Next(context.Background())
	var replies []string
	for _, m := range tr.msgs {
		var as []string
		for _, rr := range m.Answer {
			if a, ok := rr.(*dns.A); ok {
				as = append(as, a.A.String())
			} else {
				as = append(as, rr.String())
			}
		}
		replies = append(replies, strings.Join(as, ","))
	}
	if tr.raw > 0 {
		replies = append(replies, "<undecodable>")
	}
	ch.Finish()
	return replies, stub.calls, ""
}

// vkWant: index of the view that must answer, or -1.
func vkWant(cfgIdx []int, src vkSrc, transport string) int {
	if vkIsInternal(transport) {
		return -1
	}
	for i, pi := range cfgIdx {
		if vkPoolContains(pi, src.addr) {
			return i
		}
	}
	return -1
}

func vkJudge(want int, replies []string, calls int) string {
	if want < 0 {
		if calls != 1 {
			return fmt.Sprintf("no view applies, yet the downstream handler ran %d time(s), want 1 (replies %v)", calls, replies)
		}
		if len(replies) != 1 || replies[0] != vkStubAddr {
			return fmt.Sprintf("no view applies, yet the client got %v instead of the downstream answer", replies)
		}
		return ""
	}
	if vkShape(want) != 0 {
		// the first matching view has no record for this question: downstream answers, nobody else
		if calls != 1 || len(replies) != 1 || replies[0] != vkStubAddr {
			return fmt.Sprintf("first matching view in declaration order is #%d, which holds no record for the question: the query must go downstream, but the client got %v (downstream ran %d time(s))", want, replies, calls)
		}
		return ""
	}
	exp := fmt.Sprintf("192.0.2.%d", want+1)
	if len(replies) != 1 || replies[0] != exp {
		return fmt.Sprintf("first matching view in declaration order is #%d (answer %s) but the client got %v", want, exp, replies)
	}
	if calls != 0 {
		return fmt.Sprintf("view #%d answered but the downstream handler also ran %d time(s)", want, calls)
	}
	return ""
}

func TestVerifC17Views(t *testing.T) {
	c := vkit.Init("C17/views")
	defer c.Close()
	zlog.SetLevel(zlog.LevelFatal)
	for _, p := range vkPool {
		for _, n := range p {
			_, err := netip.ParsePrefix(n.s)
			if n.valid != (err == nil) {
				c.HarnessError("pool entry validity flag wrong: " + n.s)
				return
			}
		}
	}
	srcs := vkSources()
	srcBy := map[string]vkSrc{}
	for _, s := range srcs {
		srcBy[s.name] = s
	}
	if c.Replay != nil {
		var k vkCase
		if err := json.Unmarshal(c.Replay, &k); err != nil {
			c.HarnessError("bad replay: " + err.Error())
			return
		}
		src, ok := srcBy[k.Src]
		if !ok {
			c.HarnessError("unknown replay source " + k.Src)
			return
		}
		vkCurShapes = k.Shapes
		r, n, e := vkRun(vkBuild(k.Views), src, k.Transport, k.Entry)
		if e != "" {
			c.HarnessError(e)
			return
		}
		if v := vkJudge(vkWant(k.Views, src, k.Transport), r, n); v != "" && !vkIsInternal(k.Transport) {
			c.Violation(k.key(), k.key()+": "+v, nil)
		}
		return
	}

	var cfgs [][]int
	np := len(vkPool)
	lens := []int{1, 2, 3}
	if c.Thorough() {
		lens = []int{1, 2, 3, 4}
	}
	for _, l := range lens {
		var g func(cur []int)
		g = func(cur []int) {
			if len(cur) == l {
				cfgs = append(cfgs, append([]int(nil), cur...))
				return
			}
			for i := 0; i < np; i++ {
				g(append(cur, i))
			}
		}
		g(nil)
	}
	c.Note(fmt.Sprintf("views: pool of %d network lists, %d view declarations (all ordered tuples, lengths %v), %d sources, %d transports, %d entry paths",
		np, len(cfgs), lens, len(srcs), len(vkTransports), len(vkEntries)))

	var evals int64
	for ci, cfgIdx := range cfgs {
		if !c.Mine(ci) {
			continue
		}
		if c.OverBudget() {
			c.Cap("views: time budget hit")
			break
		}
		variants := [][]int{nil}
		if len(cfgIdx) <= 2 || c.Thorough() && len(cfgIdx) <= 3 {
			for pos := range cfgIdx {
				for shape := 1; shape <= 3; shape++ {
					sh := make([]int, len(cfgIdx))
					sh[pos] = shape
					variants = append(variants, sh)
				}
			}
		}
		winners := map[int]bool{}
		for _, shapes := range variants {
			vkCurShapes = shapes
			v := vkBuild(cfgIdx)
			for _, src := range srcs {
				for _, tr := range vkTransports {
					want := vkWant(cfgIdx, src, tr)
					for _, en := range vkEntries {
						r, n, e := vkRun(v, src, tr, en)
						if e != "" {
							c.HarnessError(e)
							return
						}
						evals++
						if vkIsInternal(tr) {
							// recorded, not judged here: unit "pipeline" judges internal
							// sub-queries end to end through the real Queryer
							if n == 1 && len(r) == 1 && r[0] == vkStubAddr {
								c.Outcome("internal-sink-falls-through(not judged here):" + tr)
							} else {
								c.Outcome("internal-sink-answered-by-view(not judged here):" + tr)
							}
							continue
						}
						if msg := vkJudge(want, r, n); msg != "" {
							k := vkCase{Views: cfgIdx, Shapes: shapes, Src: src.name, Transport: tr, Entry: en}
							r2, n2, _ := vkRun(vkBuild(cfgIdx), src, tr, en)
							if vkJudge(want, r2, n2) == "" {
								c.HarnessError("views violation did not reproduce: " + k.key())
								return
							}
							c.Violation(k.key(), k.key()+": "+msg, k)
							if c.NumViolations() >= 3 {
								c.Add("evaluations", evals)
								return
							}
							continue
						}
						switch {
						case want < 0:
							c.Outcome("no-view:falls-through")
						default:
							c.Outcome(fmt.Sprintf("view#%d-answers", want))
							// was a later view also matching? (first-match matters)
							later := false
							for j := want + 1; j < len(cfgIdx); j++ {
								if vkPoolContains(cfgIdx[j], src.addr) {
									later = true
								}
							}
							if later {
								c.Outcome("first-of-several-matching")
							}
							winners[want] = true
						}
					}
				}
			}
		}
		vkCurShapes = nil
		// non-trivial: at least two different views win for different sources
		if len(winners) >= 2 {
			c.DistinctStr("nontrivial", fmt.Sprintf("views|%v", cfgIdx))
		}
		if ci%53 == 7 {
			c.Sample(map[string]any{"views": cfgIdx, "networks": func() [][]string {
				var o [][]string
				for _, pi := range cfgIdx {
					o = append(o, vkPoolStrs(pi))
				}
				return o
			}()})
		}
	}
	c.Add("evaluations", evals)
}
