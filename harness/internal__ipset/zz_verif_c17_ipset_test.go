//go:build verif

package ipset

// C17 unit "ipset" — membership is exactly "the address lies in at least one
// configured CIDR".
//
// Bounded-exhaustive: EVERY ordered list (with repetition) of <=3 (quick) /
// <=4 (thorough) entries drawn from a fixed universe of CIDR strings (IPv4
// prefixes on 10.0.0.16/28 and its neighbours with lengths 0,1,27..32 incl.
// host bits set; IPv6 prefixes straddling the 64-bit word boundary with
// lengths 0,1,63,64,65,127,128; malformed strings) is compiled with the real
// ipset.New, and EVERY probe address (whole /28, boundaries +-1, v4-mapped
// forms, v6 word-boundary addresses, invalid slices) is looked up through the
// API accesslist/views use (ContainsIP on a net.IP) and through Contains.
//
// Oracle: a naive scan written on raw bytes — an address is a member iff for
// some VALID universe entry of the same family (after unmapping ::ffff:a.b.c.d
// to a.b.c.d) its first `bits` bits equal the entry's base. The universe
// table states family/base/bits by hand, so the oracle never parses a CIDR
// string; it is cross-checked once against netip.Prefix.Contains.

import (
	"encoding/json"
	"fmt"
	"net"
	"net/netip"
	"strings"
	"testing"

	"github.com/semihalev/sdns/internal/verifshim/vkit"
)

type vkEntry struct {
	s     string
	valid bool
	v6    bool
	base  [16]byte // first 4 bytes used for v4
	bits  int
	// mapped: an IPv4 CIDR written in IPv4-mapped form (::ffff:a.b.c.d/96+n, what an operator copies out of a
	// dual-stack socket's log): it names a.b.c.d/n — the reading net.ParseCIDR + IPNet.Contains always gave it
	mapped bool
}

func vkV4m(s string, a, b, c, d byte, bits int) vkEntry {
	e := vkV4(s, a, b, c, d, bits)
	e.mapped = true
	return e
}

func vkV4(s string, a, b, c, d byte, bits int) vkEntry {
	e := vkEntry{s: s, valid: true, bits: bits}
	e.base = [16]byte{a, b, c, d}
	return e
}

func vkV6(s string, w [8]uint16, bits int) vkEntry {
	e := vkEntry{s: s, valid: true, v6: true, bits: bits}
	for i, x := range w {
		e.base[2*i] = byte(x >> 8)
		e.base[2*i+1] = byte(x)
	}
	return e
}

func vkBad(s string) vkEntry { return vkEntry{s: s} }

// vkUniverse: simplest first. The hand-written base is the address exactly as
// written in the string (host bits included); the oracle compares only the
// leading `bits` bits, which is what "lies in the CIDR" means.
func vkUniverse() []vkEntry {
	f := uint16(0xffff)
	return []vkEntry{
		// /32
		vkV4("10.0.0.16/32", 10, 0, 0, 16, 32),
		vkV4("10.0.0.19/32", 10, 0, 0, 19, 32),
		vkV4("10.0.0.24/32", 10, 0, 0, 24, 32),
		vkV4("10.0.0.31/32", 10, 0, 0, 31, 32),
		// /31
		vkV4("10.0.0.18/31", 10, 0, 0, 18, 31),
		vkV4("10.0.0.22/31", 10, 0, 0, 22, 31),
		vkV4("10.0.0.30/31", 10, 0, 0, 30, 31),
		vkV4("10.0.0.25/31", 10, 0, 0, 25, 31), // host bit set -> .24/31
		// /30
		vkV4("10.0.0.16/30", 10, 0, 0, 16, 30),
		vkV4("10.0.0.20/30", 10, 0, 0, 20, 30),
		vkV4("10.0.0.28/30", 10, 0, 0, 28, 30),
		vkV4("10.0.0.23/30", 10, 0, 0, 23, 30), // host bits -> .20/30
		// /29
		vkV4("10.0.0.16/29", 10, 0, 0, 16, 29),
		vkV4("10.0.0.24/29", 10, 0, 0, 24, 29),
		vkV4("10.0.0.29/29", 10, 0, 0, 29, 29), // host bits -> .24/29
		// /28
		vkV4("10.0.0.16/28", 10, 0, 0, 16, 28),
		vkV4("10.0.0.0/28", 10, 0, 0, 0, 28),   // adjacent below
		vkV4("10.0.0.32/28", 10, 0, 0, 32, 28), // adjacent above
		vkV4("10.0.0.21/28", 10, 0, 0, 21, 28), // host bits -> .16/28
		// /27
		vkV4("10.0.0.0/27", 10, 0, 0, 0, 27),
		vkV4("10.0.0.32/27", 10, 0, 0, 32, 27),
		vkV4("10.0.0.17/27", 10, 0, 0, 17, 27), // host bits -> .0/27
		// /1, /0
		vkV4("0.0.0.0/1", 0, 0, 0, 0, 1),
		vkV4("128.0.0.0/1", 128, 0, 0, 0, 1),
		vkV4("10.0.0.16/1", 10, 0, 0, 16, 1), // host bits -> 0.0.0.0/1
		vkV4("0.0.0.0/0", 0, 0, 0, 0, 0),
		// IPv6 /128
		vkV6("2001:db8:0:1::/128", [8]uint16{0x2001, 0xdb8, 0, 1, 0, 0, 0, 0}, 128),
		vkV6("2001:db8:0:1:ffff:ffff:ffff:ffff/128", [8]uint16{0x2001, 0xdb8, 0, 1, f, f, f, f}, 128),
		vkV6("2001:db8:0:2::/128", [8]uint16{0x2001, 0xdb8, 0, 2, 0, 0, 0, 0}, 128),
		vkV6("2001:db8:0:1:8000::/128", [8]uint16{0x2001, 0xdb8, 0, 1, 0x8000, 0, 0, 0}, 128),
		// /127
		vkV6("2001:db8:0:1::/127", [8]uint16{0x2001, 0xdb8, 0, 1, 0, 0, 0, 0}, 127),
		vkV6("2001:db8:0:1:ffff:ffff:ffff:fffe/127", [8]uint16{0x2001, 0xdb8, 0, 1, f, f, f, 0xfffe}, 127),
		vkV6("2001:db8:0:2::1/127", [8]uint16{0x2001, 0xdb8, 0, 2, 0, 0, 0, 1}, 127), // host bit
		// /65
		vkV6("2001:db8:0:1::/65", [8]uint16{0x2001, 0xdb8, 0, 1, 0, 0, 0, 0}, 65),
		vkV6("2001:db8:0:1:8000::/65", [8]uint16{0x2001, 0xdb8, 0, 1, 0x8000, 0, 0, 0}, 65),
		vkV6("2001:db8:0:2::/65", [8]uint16{0x2001, 0xdb8, 0, 2, 0, 0, 0, 0}, 65),
		// /64
		vkV6("2001:db8:0:1::/64", [8]uint16{0x2001, 0xdb8, 0, 1, 0, 0, 0, 0}, 64),
		vkV6("2001:db8:0:2::/64", [8]uint16{0x2001, 0xdb8, 0, 2, 0, 0, 0, 0}, 64),
		vkV6("2001:db8:0:1::5/64", [8]uint16{0x2001, 0xdb8, 0, 1, 0, 0, 0, 5}, 64), // host bits
		// /63
		vkV6("2001:db8::/63", [8]uint16{0x2001, 0xdb8, 0, 0, 0, 0, 0, 0}, 63),
		vkV6("2001:db8:0:2::/63", [8]uint16{0x2001, 0xdb8, 0, 2, 0, 0, 0, 0}, 63),
		vkV6("2001:db8:0:1::/63", [8]uint16{0x2001, 0xdb8, 0, 1, 0, 0, 0, 0}, 63), // host bit -> 2001:db8::/63
		// /1, /0
		vkV6("::/1", [8]uint16{}, 1),
		vkV6("8000::/1", [8]uint16{0x8000}, 1),
		vkV6("::/0", [8]uint16{}, 0),
		// an IPv6 host entry at the very bottom of the space (::/96, where IPv4 numbers live when read as 128-bit values)
		vkV6("::1/128", [8]uint16{0, 0, 0, 0, 0, 0, 0, 1}, 128),
		// IPv4 CIDRs in IPv4-mapped spelling
		vkV4m("::ffff:10.0.0.19/128", 10, 0, 0, 19, 32),
		vkV4m("::ffff:10.0.0.21/124", 10, 0, 0, 21, 28), // host bits -> 10.0.0.16/28
		vkV4m("::ffff:0:0/96", 0, 0, 0, 0, 0),
		// malformed — unparsable under any CIDR grammar
		vkBad(""),
		vkBad("10.0.0.16"),
		vkBad("10.0.0.16/33"),
		vkBad("2001:db8:0:1::/129"),
		vkBad("bogus/0"),
	}
}

type vkProbe struct {
	name string
	ip   net.IP     // as handed to ContainsIP
	addr netip.Addr // as handed to Contains (may be invalid)
	// oracle view after unmapping
	valid bool
	v6    bool
	b     [16]byte
	fam   string // v4 | mapped | v6 | invalid
}

func vkProbes() []vkProbe {
	var ps []vkProbe
	add4 := func(a, b, c, d byte) {
		s := fmt.Sprintf("%d.%d.%d.%d", a, b, c, d)
		raw4 := net.IP{a, b, c, d}
		p := vkProbe{name: s, ip: raw4, addr: netip.AddrFrom4([4]byte{a, b, c, d}), valid: true, fam: "v4"}
		p.b = [16]byte{a, b, c, d}
		ps = append(ps, p)
		// the 16-byte form net.UDPAddr/TCPAddr usually carry, i.e. ::ffff:a.b.c.d
		m := vkProbe{name: "::ffff:" + s, ip: net.IPv4(a, b, c, d), valid: true, fam: "mapped"}
		var b16 [16]byte
		copy(b16[:], net.IPv4(a, b, c, d))
		m.addr = netip.AddrFrom16(b16)
		m.b = [16]byte{a, b, c, d}
		ps = append(ps, m)
	}
	for d := 16; d <= 31; d++ {
		add4(10, 0, 0, byte(d))
	}
	for _, q := range [][4]byte{{10, 0, 0, 15}, {10, 0, 0, 32}, {10, 0, 0, 0}, {10, 0, 0, 47}, {10, 0, 0, 48},
		{10, 0, 0, 63}, {10, 0, 0, 64}, {9, 255, 255, 255}, {10, 0, 1, 16}, {0, 0, 0, 0}, {127, 255, 255, 255},
		{128, 0, 0, 0}, {255, 255, 255, 255}} {
		add4(q[0], q[1], q[2], q[3])
	}
	add6 := func(w [8]uint16) {
		var b [16]byte
		for i, x := range w {
			b[2*i] = byte(x >> 8)
			b[2*i+1] = byte(x)
		}
		a := netip.AddrFrom16(b)
		ip := make(net.IP, 16)
		copy(ip, b[:])
		ps = append(ps, vkProbe{name: a.String(), ip: ip, addr: a, valid: true, v6: true, b: b, fam: "v6"})
	}
	f := uint16(0xffff)
	for _, w := range [][8]uint16{
		{0, 0, 0, 0, 0, 0, 0, 0}, {0, 0, 0, 0, 0, 0, 0, 1},
		{0x7fff, f, f, f, f, f, f, f}, {0x8000, 0, 0, 0, 0, 0, 0, 0}, {f, f, f, f, f, f, f, f},
		{0x2001, 0xdb7, f, f, f, f, f, f},
		{0x2001, 0xdb8, 0, 0, 0, 0, 0, 0}, {0x2001, 0xdb8, 0, 0, f, f, f, f},
		{0x2001, 0xdb8, 0, 1, 0, 0, 0, 0}, {0x2001, 0xdb8, 0, 1, 0, 0, 0, 1}, {0x2001, 0xdb8, 0, 1, 0, 0, 0, 2},
		{0x2001, 0xdb8, 0, 1, 0, 0, 0, 5},
		{0x2001, 0xdb8, 0, 1, 0x7fff, f, f, f}, {0x2001, 0xdb8, 0, 1, 0x8000, 0, 0, 0}, {0x2001, 0xdb8, 0, 1, 0x8000, 0, 0, 1},
		{0x2001, 0xdb8, 0, 1, f, f, f, 0xfffd}, {0x2001, 0xdb8, 0, 1, f, f, f, 0xfffe}, {0x2001, 0xdb8, 0, 1, f, f, f, f},
		{0x2001, 0xdb8, 0, 2, 0, 0, 0, 0}, {0x2001, 0xdb8, 0, 2, 0, 0, 0, 1}, {0x2001, 0xdb8, 0, 2, 0, 0, 0, 2},
		{0x2001, 0xdb8, 0, 2, 0x7fff, f, f, f}, {0x2001, 0xdb8, 0, 2, 0x8000, 0, 0, 0}, {0x2001, 0xdb8, 0, 2, f, f, f, f},
		{0x2001, 0xdb8, 0, 3, 0, 0, 0, 0}, {0x2001, 0xdb8, 0, 3, f, f, f, f}, {0x2001, 0xdb8, 0, 4, 0, 0, 0, 0},
		// looks like an IPv4 number in the low word but is NOT v4-mapped
		{0, 0, 0, 0, 0, 0, 0x0a00, 0x0011},
		{0, 0, 0, 0, 0, 0, 0, 2}, {0, 0, 0, 0, 0, 0, 0x0a00, 0x001f}, {0, 0, 0, 0, 0, 0, 0x0808, 0x0808},
	} {
		add6(w)
	}
	// invalid slices: never members
	ps = append(ps, vkProbe{name: "nil", ip: nil, fam: "invalid"})
	ps = append(ps, vkProbe{name: "5-byte", ip: net.IP{10, 0, 0, 17, 0}, fam: "invalid"})
	return ps
}

func vkBitsEqual(a, b *[16]byte, bits int) bool {
	full := bits / 8
	for i := 0; i < full; i++ {
		if a[i] != b[i] {
			return false
		}
	}
	if r := bits % 8; r != 0 {
		mask := byte(0xff) << uint(8-r)
		if a[full]&mask != b[full]&mask {
			return false
		}
	}
	return true
}

// vkMember[e][p]: probe p lies in universe entry e (false for malformed entries).
func vkMemberTable(u []vkEntry, ps []vkProbe) [][]bool {
	t := make([][]bool, len(u))
	for i := range u {
		t[i] = make([]bool, len(ps))
		if !u[i].valid {
			continue
		}
		for j := range ps {
			p := &ps[j]
			if !p.valid || p.v6 != u[i].v6 {
				continue
			}
			t[i][j] = vkBitsEqual(&u[i].base, &p.b, u[i].bits)
		}
	}
	return t
}

// vkSelfCheck cross-checks the hand-written table with net/netip once.
func vkSelfCheck(u []vkEntry, ps []vkProbe, t [][]bool) string {
	for i, e := range u {
		pf, err := netip.ParsePrefix(e.s)
		if e.valid != (err == nil) {
			return fmt.Sprintf("universe entry %q: table says valid=%v, netip.ParsePrefix err=%v", e.s, e.valid, err)
		}
		if !e.valid {
			if _, _, err2 := net.ParseCIDR(e.s); err2 == nil {
				return fmt.Sprintf("universe entry %q is meant to be malformed but net.ParseCIDR accepts it", e.s)
			}
			continue
		}
		for j, p := range ps {
			if !p.valid {
				continue
			}
			got := pf.Contains(p.addr.Unmap())
			if e.mapped {
				_, n, err := net.ParseCIDR(e.s)
				if err != nil {
					return fmt.Sprintf("universe entry %q: net.ParseCIDR err=%v", e.s, err)
				}
				got = n.Contains(net.IP(p.addr.Unmap().AsSlice()))
			}
			if got != t[i][j] {
				return fmt.Sprintf("oracle table disagrees with the library for %q contains %s: table %v library %v", e.s, p.name, t[i][j], got)
			}
		}
	}
	return ""
}

// vkEval builds the real set for the list (indices into u) and compares every
// probe; returns "" or the first divergence. in/out are membership counts.
func vkEvalList(u []vkEntry, ps []vkProbe, t [][]bool, list []int, strs []string, each func(pi int, want bool)) string {
	strs = strs[:0]
	for _, i := range list {
		strs = append(strs, u[i].s)
	}
	set, bad := New(strs)
	_ = bad
	for pi := range ps {
		want := false
		for _, i := range list {
			if t[i][pi] {
				want = true
				break
			}
		}
		got := set.ContainsIP(ps[pi].ip)
		if got != want {
			return fmt.Sprintf("ipset.New(%q).ContainsIP(%s) = %v, but a per-prefix scan says %v", strs, ps[pi].name, got, want)
		}
		if ps[pi].valid {
			if g2 := set.Contains(ps[pi].addr); g2 != want {
				return fmt.Sprintf("ipset.New(%q).Contains(%s) = %v, but a per-prefix scan says %v", strs, ps[pi].name, g2, want)
			}
		}
		if each != nil {
			each(pi, want)
		}
	}
	return ""
}

func vkListKey(u []vkEntry, list []int) string {
	s := make([]string, len(list))
	for i, x := range list {
		s[i] = u[x].s
	}
	return "[" + strings.Join(s, " ") + "]"
}

func TestVerifC17Ipset(t *testing.T) {
	c := vkit.Init("C17/ipset")
	defer c.Close()
	u := vkUniverse()
	ps := vkProbes()
	tab := vkMemberTable(u, ps)
	if msg := vkSelfCheck(u, ps, tab); msg != "" {
		c.HarnessError(msg)
		return
	}
	byStr := map[string]int{}
	for i, e := range u {
		byStr[e.s] = i
	}

	if c.Replay != nil {
		var r struct {
			List []string `json:"list"`
		}
		if err := json.Unmarshal(c.Replay, &r); err != nil {
			c.HarnessError("bad replay: " + err.Error())
			return
		}
		var list []int
		for _, s := range r.List {
			i, ok := byStr[s]
			if !ok {
				c.HarnessError("replay entry not in universe: " + s)
				return
			}
			list = append(list, i)
		}
		if v := vkEvalList(u, ps, tab, list, nil, nil); v != "" {
			c.Violation("ipset:"+vkListKey(u, list), v, nil)
		}
		return
	}

	maxLen := 3
	if c.Thorough() {
		maxLen = 4
	}
	nbad := 0
	for _, e := range u {
		if !e.valid {
			nbad++
		}
	}
	c.Note(fmt.Sprintf("ipset: universe of %d CIDR strings (%d malformed), %d probe addresses, all ordered lists with repetition of length 0..%d",
		len(u), nbad, len(ps), maxLen))

	n := len(u)
	strs := make([]string, 0, 4)
	var evals int64
	run := func(list []int) bool {
		inN, outN := 0, 0
		nvalid := 0
		for _, i := range list {
			if u[i].valid {
				nvalid++
			}
		}
		v := vkEvalList(u, ps, tab, list, strs, func(pi int, want bool) {
			if want {
				inN++
			} else {
				outN++
			}
		})
		evals += int64(len(ps))
		if v != "" {
			// confirm on a fresh set
			if v2 := vkEvalList(u, ps, tab, list, nil, nil); v2 == "" {
				c.HarnessError("ipset divergence did not reproduce: " + v)
				return false
			}
			ss := make([]string, len(list))
			for i, x := range list {
				ss[i] = u[x].s
			}
			c.Violation("ipset:"+vkListKey(u, list), v, map[string]any{"list": ss})
			return c.NumViolations() < 3
		}
		// non-trivial: >=2 parsable entries and the probes are split (some in, some out)
		if nvalid >= 2 && inN > 0 && outN > 0 {
			c.DistinctStr("nontrivial", vkListKey(u, list))
		}
		return true
	}

	// outcome labels by probe family, tallied locally (cheap) and flushed once
	type oc struct{ in, out int64 }
	fam := map[string]*oc{"v4": {}, "mapped": {}, "v6": {}, "invalid": {}}
	tally := func(list []int) {
		for pi := range ps {
			want := false
			for _, i := range list {
				if tab[i][pi] {
					want = true
					break
				}
			}
			if want {
				fam[ps[pi].fam].in++
			} else {
				fam[ps[pi].fam].out++
			}
		}
	}

	list := make([]int, 0, 5)
	samples := 0
	// rec evaluates every extension of the current list (the list itself was
	// evaluated by the caller), depth first, up to maxLen.
	var rec func() bool
	rec = func() bool {
		if len(list) == maxLen {
			return true
		}
		for i := 0; i < n; i++ {
			list = append(list, i)
			ok := run(list)
			if ok {
				tally(list)
				if samples < 2 && len(list) == maxLen && list[0] != list[1] {
					samples++
					c.Sample(map[string]any{"list": vkListKey(u, list)})
				}
				ok = rec()
			}
			list = list[:len(list)-1]
			if !ok {
				return false
			}
		}
		return true
	}
	// Phase A — shard 0 owns every list of length 0, 1 and 2, shortest first,
	// so the first counterexample the driver prints is a shortest one.
	stop := false
	if c.Mine(0) {
		if !run(list) {
			stop = true
		} else {
			tally(list)
		}
		for l := 1; l <= 2 && l <= maxLen && !stop; l++ {
			idx := make([]int, l)
			for !stop {
				list = append(list[:0], idx...)
				if !run(list) {
					stop = true
					break
				}
				tally(list)
				k := l - 1
				for k >= 0 {
					idx[k]++
					if idx[k] < n {
						break
					}
					idx[k] = 0
					k--
				}
				if k < 0 {
					break
				}
			}
		}
	}
	// Phase B — lists of length >= 3, sharded on the first two entries.
	work := 0
	for i := 0; i < n && !stop; i++ {
		for j := 0; j < n; j++ {
			mine := c.Mine(work)
			work++
			if !mine {
				continue
			}
			list = append(list[:0], i, j)
			if !rec() {
				stop = true
				break
			}
		}
		if c.OverBudget() {
			c.Cap("ipset: time budget hit")
			break
		}
	}
	// thorough: additionally every ordered list of exactly 5 entries over a
	// 20-entry sub-universe (the nesting / adjacency / boundary core).
	if c.Thorough() && c.NumViolations() == 0 {
		subS := []string{"10.0.0.16/32", "10.0.0.31/32", "10.0.0.18/31", "10.0.0.16/30", "10.0.0.28/30", "10.0.0.24/29",
			"10.0.0.16/28", "10.0.0.32/28", "10.0.0.21/28", "10.0.0.0/27", "0.0.0.0/1", "0.0.0.0/0",
			"2001:db8:0:1::/128", "2001:db8:0:1:ffff:ffff:ffff:fffe/127", "2001:db8:0:1:8000::/65", "2001:db8:0:1::/64",
			"2001:db8:0:2::/64", "2001:db8::/63", "::/1", "bogus/0"}
		var sub []int
		for _, x := range subS {
			i, ok := byStr[x]
			if !ok {
				c.HarnessError("sub-universe entry not in universe: " + x)
				return
			}
			sub = append(sub, i)
		}
		c.Note(fmt.Sprintf("ipset: plus all ordered lists of exactly 5 entries over a %d-entry sub-universe", len(sub)))
		var rec5 func() bool
		rec5 = func() bool {
			if len(list) == 5 {
				if !run(list) {
					return false
				}
				tally(list)
				return true
			}
			for _, i := range sub {
				list = append(list, i)
				ok := rec5()
				list = list[:len(list)-1]
				if !ok {
					return false
				}
			}
			return true
		}
		w5 := 0
	outer5:
		for _, i := range sub {
			for _, j := range sub {
				mine := c.Mine(w5)
				w5++
				if !mine {
					continue
				}
				list = append(list[:0], i, j)
				if !rec5() {
					break outer5
				}
				if c.OverBudget() {
					c.Cap("ipset: time budget hit in length-5 pass")
					break outer5
				}
			}
		}
	}
	c.Add("evaluations", evals)
	for k, v := range fam {
		if v.in > 0 {
			c.Outcome(k + ":member")
			c.Add("probe_"+k+"_member", v.in)
		}
		if v.out > 0 {
			c.Outcome(k + ":not-member")
			c.Add("probe_"+k+"_not_member", v.out)
		}
	}
}
