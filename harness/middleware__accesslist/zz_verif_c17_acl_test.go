//go:build verif

package accesslist

// C17 unit "acl" — a query whose source address is outside the configured
// access list gets NO reply and causes NO downstream work, on every transport
// and on both the wire-born and decoded entry paths.
//
// Bounded-exhaustive: every ordered list (length 1..2 quick / 1..3 thorough)
// over a universe of CIDR strings (nested, host bits, mixed families, /0,
// malformed) x every source address x {udp, tcp, dot, doh, doq} x {decoded
// entry, wire-born entry, wire-born inline, wire-born replay} x 2 query
// shapes is run through the REAL accesslist handler placed in front of a
// counting stub that answers.
//
// Oracle: member = some parsable entry's netip.Prefix contains the unmapped
// source (validity is stated by hand per entry). Not a member => zero bytes /
// messages reach the transport AND the stub is never invoked. Member => the
// stub is reached exactly once (and its answer reaches the transport once).
// Resolver-internal sub-query sinks (Internal()==true, or the legacy sentinel
// 127.0.0.255:0) are exercised too, but only recorded as an outcome: whether
// internal sub-queries escape client policy is judged end to end by unit
// "pipeline" (real Queryer, real sub-pipeline).

import (
	"context"
	"encoding/json"
	"fmt"
	"net"
	"net/netip"
	"strings"
	"testing"
	"time"

	"github.com/miekg/dns"
	"github.com/semihalev/sdns/config"
	"github.com/semihalev/sdns/internal/verifshim/vkit"
	"github.com/semihalev/sdns/middleware"
	"github.com/semihalev/zlog/v2"
)

type vkCIDR struct {
	s     string
	valid bool
	pf    netip.Prefix
}

func vkUniverse() []vkCIDR {
	mk := func(s string, valid bool) vkCIDR {
		e := vkCIDR{s: s, valid: valid}
		if valid {
			e.pf = netip.MustParsePrefix(s).Masked()
		}
		return e
	}
	return []vkCIDR{
		mk("10.0.0.16/28", true),
		mk("10.0.0.24/29", true), // nested in the /28
		mk("10.0.0.37/28", true), // host bits -> 10.0.0.32/28, adjacent
		mk("2001:db8:0:1::/64", true),
		mk("2001:db8:0:1:8000::/65", true), // nested, upper half
		mk("128.0.0.0/1", true),
		mk("0.0.0.0/0", true),
		mk("::/0", true),
		mk("bogus/0", false),
		mk("10.0.0.16/33", false),
		mk("10.0.0.16", false),
	}
}

type vkSrc struct {
	name string
	ip   net.IP
	addr netip.Addr
}

func vkSources() []vkSrc {
	var out []vkSrc
	v4 := func(a, b, c, d byte) {
		ad := netip.AddrFrom4([4]byte{a, b, c, d})
		out = append(out, vkSrc{name: ad.String(), ip: net.IP{a, b, c, d}, addr: ad})
		// 16-byte (v4-mapped) form, as the dual-stack socket layer reports it
		out = append(out, vkSrc{name: "::ffff:" + ad.String(), ip: net.IPv4(a, b, c, d), addr: ad})
	}
	for _, q := range [][4]byte{{10, 0, 0, 15}, {10, 0, 0, 16}, {10, 0, 0, 23}, {10, 0, 0, 24}, {10, 0, 0, 31},
		{10, 0, 0, 32}, {10, 0, 0, 47}, {10, 0, 0, 48}, {127, 255, 255, 255}, {128, 0, 0, 0}, {198, 51, 100, 7}} {
		v4(q[0], q[1], q[2], q[3])
	}
	for _, s := range []string{"2001:db8:0:0:ffff:ffff:ffff:ffff", "2001:db8:0:1::", "2001:db8:0:1:7fff:ffff:ffff:ffff",
		"2001:db8:0:1:8000::", "2001:db8:0:1:ffff:ffff:ffff:ffff", "2001:db8:0:2::", "::1"} {
		ad := netip.MustParseAddr(s)
		b := ad.As16()
		out = append(out, vkSrc{name: s, ip: append(net.IP(nil), b[:]...), addr: ad})
	}
	return out
}

// vkTransport is a middleware.Transport that only counts what reaches it.
type vkTransport struct {
	remote    net.Addr
	proto     string
	writes    int // Write + WriteMsg calls
	lastRcode int
	internal  bool
}

// Internal is what middleware.BufferWriter (the internal sub-query sink) reports.
func (t *vkTransport) Internal() bool { return t.internal }

func (t *vkTransport) LocalAddr() net.Addr {
	return &net.UDPAddr{IP: net.IPv4(192, 0, 2, 53), Port: 53}
}
func (t *vkTransport) RemoteAddr() net.Addr { return t.remote }
func (t *vkTransport) WriteMsg(m *dns.Msg) error {
	t.writes++
	t.lastRcode = m.Rcode
	return nil
}
func (t *vkTransport) Write(b []byte) (int, error) {
	t.writes++
	return len(b), nil
}
func (t *vkTransport) Close() error  { return nil }
func (t *vkTransport) Proto() string { return t.proto }

// the last two are resolver-internal sub-query sinks: one flagged the way
// middleware.BufferWriter is, one carrying only the legacy sentinel address.
var vkTransports = []string{"udp", "tcp", "dot", "doh", "doq", "internal-flag", "internal-sentinel"}

func vkIsInternal(kind string) bool { return strings.HasPrefix(kind, "internal") }

func vkNewTransport(kind string, ip net.IP) *vkTransport {
	switch kind {
	case "udp":
		return &vkTransport{remote: &net.UDPAddr{IP: ip, Port: 40000}}
	case "tcp":
		return &vkTransport{remote: &net.TCPAddr{IP: ip, Port: 40000}}
	case "dot":
		return &vkTransport{remote: &net.TCPAddr{IP: ip, Port: 40000}, proto: "tcp"}
	case "doh":
		return &vkTransport{remote: &net.TCPAddr{IP: ip, Port: 40000}, proto: "doh"}
	case "doq":
		return &vkTransport{remote: &net.UDPAddr{IP: ip, Port: 40000}, proto: "doq"}
	case "internal-flag":
		return &vkTransport{remote: &net.TCPAddr{IP: ip, Port: 0}, proto: "tcp", internal: true}
	case "internal-sentinel":
		return &vkTransport{remote: &net.TCPAddr{IP: net.IPv4(127, 0, 0, 255), Port: 0}}
	}
	return nil
}

var vkEntries = []string{"msg", "wire", "wire-inline", "wire-replay"}

type vkStub struct{ calls int }

func (s *vkStub) Name() string { return "vkstub" }
func (s *vkStub) ServeDNS(ctx context.Context, ch *middleware.Chain) {
	s.calls++
	req := ch.Request.Msg()
	if req == nil {
		return
	}
	m := new(dns.Msg)
	m.SetReply(req)
	_ = ch.Writer.WriteMsg(m)
	ch.Cancel()
}

func vkQuery(shape int) *dns.Msg {
	m := new(dns.Msg)
	m.SetQuestion("www.example.org.", dns.TypeA)
	m.Id = 0x1234
	if shape == 1 {
		m.SetEdns0(1232, true)
	}
	return m
}

type vkCase struct {
	List      []string `json:"list"`
	Src       string   `json:"src"`
	Transport string   `json:"transport"`
	Entry     string   `json:"entry"`
	Shape     int      `json:"shape"`
}

func (k vkCase) key() string {
	return fmt.Sprintf("acl:[%s] src=%s %s/%s q%d", strings.Join(k.List, " "), k.Src, k.Transport, k.Entry, k.Shape)
}

// vkRun executes one case on fresh objects; returns (writes, stubCalls, error text).
func vkRun(a *List, src vkSrc, transport, entry string, shape int) (int, int, string) {
	stub := &vkStub{}
	ch := middleware.NewChain([]middleware.Handler{a, stub})
	tr := vkNewTransport(transport, src.ip)
	q := vkQuery(shape)
	if entry == "msg" {
		ch.Reset(tr, q)
	} else {
		raw, err := q.Pack()
		if err != nil {
			return 0, 0, "pack: " + err.Error()
		}
		req := new(middleware.Request)
		if !req.ParseWire(raw, time.Now(), nil) {
			return 0, 0, "ParseWire refused a plain query"
		}
		ch.ResetWire(tr, req)
		ch.AllowDirectPack()
		switch entry {
		case "wire-inline":
			ch.SetInlineOnly()
		case "wire-replay":
			ch.SetReplay()
		}
	}
	ch.Next(context.Background())
	ch.Finish()
	return tr.writes, stub.calls, ""
}

func vkJudge(member bool, writes, calls int) string {
	return vkJudge2(member, false, writes, calls)
}

func vkJudge2(member, internal bool, writes, calls int) string {
	if internal {
		// Not judged at handler level: in sdns an internal sub-query never
		// reaches this handler at all (it is excluded from the internal
		// sub-pipeline); unit "pipeline" judges that end to end. The handler's
		// own Internal() pass-through is a second line of defence only.
		return ""
	}
	if !member {
		if writes != 0 {
			return fmt.Sprintf("source is outside the access list but %d reply write(s) reached the transport", writes)
		}
		if calls != 0 {
			return fmt.Sprintf("source is outside the access list but the downstream handler ran %d time(s)", calls)
		}
		return ""
	}
	if calls != 1 {
		return fmt.Sprintf("source is inside the access list but the downstream handler ran %d time(s), want exactly 1", calls)
	}
	if writes != 1 {
		return fmt.Sprintf("source is inside the access list but %d reply write(s) reached the transport, want the stub's 1", writes)
	}
	return ""
}

func vkMember(u map[string]vkCIDR, list []string, addr netip.Addr) bool {
	for _, s := range list {
		e := u[s]
		if e.valid && e.pf.Contains(addr.Unmap()) {
			return true
		}
	}
	return false
}

func TestVerifC17ACL(t *testing.T) {
	c := vkit.Init("C17/acl")
	defer c.Close()
	zlog.SetLevel(zlog.LevelFatal)
	uni := vkUniverse()
	byS := map[string]vkCIDR{}
	for _, e := range uni {
		byS[e.s] = e
		if !e.valid {
			if _, err := netip.ParsePrefix(e.s); err == nil {
				c.HarnessError("universe entry meant to be malformed parses: " + e.s)
				return
			}
		}
	}
	srcs := vkSources()
	srcBy := map[string]vkSrc{}
	for _, s := range srcs {
		srcBy[s.name] = s
	}

	if c.Replay != nil {
		var k vkCase
		if err := json.Unmarshal(c.Replay, &k); err != nil {
			c.HarnessError("bad replay: " + err.Error())
			return
		}
		a := New(&config.Config{AccessList: append([]string(nil), k.List...)})
		src, ok := srcBy[k.Src]
		if !ok {
			c.HarnessError("unknown replay source " + k.Src)
			return
		}
		w, n, e := vkRun(a, src, k.Transport, k.Entry, k.Shape)
		if e != "" {
			c.HarnessError(e)
			return
		}
		if v := vkJudge2(vkMember(byS, k.List, src.addr), vkIsInternal(k.Transport), w, n); v != "" {
			c.Violation(k.key(), k.key()+": "+v, nil)
		}
		return
	}

	maxLen := 2
	if c.Thorough() {
		maxLen = 3
	}
	c.Note(fmt.Sprintf("acl: %d CIDR strings, lists of length 1..%d, %d sources, %d transports, %d entry paths, 2 query shapes",
		len(uni), maxLen, len(srcs), len(vkTransports), len(vkEntries)))

	var lists [][]string
	// simplest first: order by length
	for l := 1; l <= maxLen; l++ {
		var g func(cur []string)
		g = func(cur []string) {
			if len(cur) == l {
				lists = append(lists, append([]string(nil), cur...))
				return
			}
			for _, e := range uni {
				g(append(cur, e.s))
			}
		}
		g(nil)
	}

	var evals int64
	for li, list := range lists {
		if !c.Mine(li) {
			continue
		}
		if c.OverBudget() {
			c.Cap("acl: time budget hit")
			break
		}
		a := New(&config.Config{AccessList: append([]string(nil), list...)})
		nIn, nOut := 0, 0
		for _, src := range srcs {
			member := vkMember(byS, list, src.addr)
			for _, tr := range vkTransports {
				for _, en := range vkEntries {
					for shape := 0; shape < 2; shape++ {
						w, n, e := vkRun(a, src, tr, en, shape)
						if e != "" {
							c.HarnessError(e)
							return
						}
						evals++
						v := vkJudge2(member, vkIsInternal(tr), w, n)
						if v != "" {
							k := vkCase{List: list, Src: src.name, Transport: tr, Entry: en, Shape: shape}
							a2 := New(&config.Config{AccessList: append([]string(nil), list...)})
							w2, n2, _ := vkRun(a2, src, tr, en, shape)
							if vkJudge2(member, vkIsInternal(tr), w2, n2) == "" {
								c.HarnessError("acl violation did not reproduce: " + k.key())
								return
							}
							c.Violation(k.key(), k.key()+": "+v, k)
							if c.NumViolations() >= 3 {
								c.Add("evaluations", evals)
								return
							}
							continue
						}
						if vkIsInternal(tr) {
							if n == 1 {
								c.Outcome("internal-sink-passes(not judged here):" + tr + "/" + en)
							} else {
								c.Outcome("internal-sink-subjected-to-list(not judged here):" + tr + "/" + en)
							}
						} else if member {
							c.Outcome("allowed:" + tr + "/" + en)
						} else {
							c.Outcome("denied:" + tr + "/" + en)
						}
					}
				}
			}
			if member {
				nIn++
			} else {
				nOut++
			}
		}
		// non-trivial: the list both admits and refuses some source
		if nIn > 0 && nOut > 0 {
			c.DistinctStr("nontrivial", "acl|"+strings.Join(list, " "))
		}
		if li%97 == 5 {
			c.Sample(map[string]any{"list": list, "sources_allowed": nIn, "sources_denied": nOut})
		}
	}
	c.Add("evaluations", evals)
}
