//go:build verif

package server

// The real forwarder in the server world: cfg.ForwarderServers names a scripted upstream on
// loopback (UDP and TCP), the forwarder handler is registered right behind failover (where the
// resolver and the forwarder sit in the default chain) and the stub stays behind it, unreachable
// while the forwarder answers.

import (
	"net"
	"strings"
	"sync"

	"github.com/miekg/dns"
)

// vkFwdUp is the scripted upstream: how it shapes the header and question of its reply is chosen
// by the first label of the query name (see vkFwdDeviations).
type vkFwdUp struct {
	mu      sync.Mutex
	queries int
	udp     *dns.Server
	tcp     *dns.Server
	addr    string
}

// vkFwdDeviations: what an upstream may do to the header / question it sends back while still being
// accepted by the forwarder's client (same ID, same question up to letter case).
var vkFwdDeviations = []string{"plain", "lcq", "ucq", "qr0", "op", "rd0", "ra0", "z", "aa", "tc0ad"}

func (u *vkFwdUp) handle(w dns.ResponseWriter, req *dns.Msg) {
	u.mu.Lock()
	u.queries++
	u.mu.Unlock()
	m := new(dns.Msg)
	m.SetReply(req)
	m.RecursionAvailable = true
	q := req.Question[0]
	m.Answer = []dns.RR{&dns.A{Hdr: dns.RR_Header{Name: q.Name, Rrtype: dns.TypeA, Class: dns.ClassINET, Ttl: 300}, A: net.IPv4(192, 0, 2, 80)}}
	if q.Qtype != dns.TypeA {
		m.Answer = nil
	}
	dev := strings.ToLower(strings.SplitN(q.Name, ".", 2)[0])
	switch dev {
	case "lcq":
		m.Question[0].Name = strings.ToLower(q.Name)
	case "ucq":
		m.Question[0].Name = strings.ToUpper(q.Name)
	case "qr0":
		m.Response = false
	case "op":
		m.Opcode = dns.OpcodeUpdate
	case "rd0":
		m.RecursionDesired = !req.RecursionDesired
	case "ra0":
		m.RecursionAvailable = false
	case "z":
		m.Zero = true
	case "aa":
		m.Authoritative = true
	case "tc0ad":
		m.AuthenticatedData = true
	}
	_ = w.WriteMsg(m)
}

func vkStartFwdUp() (*vkFwdUp, error) {
	u := &vkFwdUp{}
	pc, err := net.ListenPacket("udp", "127.0.0.1:0")
	if err != nil {
		return nil, err
	}
	u.addr = pc.LocalAddr().String()
	l, err := net.Listen("tcp", u.addr)
	if err != nil {
		_ = pc.Close()
		return nil, err
	}
	h := dns.HandlerFunc(u.handle)
	u.udp = &dns.Server{PacketConn: pc, Handler: h}
	u.tcp = &dns.Server{Listener: l, Handler: h}
	go func() { _ = u.udp.ActivateAndServe() }()
	go func() { _ = u.tcp.ActivateAndServe() }()
	return u, nil
}

func (u *vkFwdUp) stop() {
	_ = u.udp.Shutdown()
	_ = u.tcp.Shutdown()
}
