//go:build verif

package server

// The real forwarder in the server world: cfg.ForwarderServers names a scripted upstream on
// loopback (UDP and TCP), the forwarder handler is registered right behind failover (where the
// resolver and the forwarder sit in the default chain) and the stub stays behind it, unreachable
// while the forwarder answers.

import (
	"net"
	"strings"
	"sync"
	"time"

	"github.com/miekg/dns"
)

// vkFwdUp is the scripted upstream: how it shapes the header and question of its reply is chosen
// by the first label of the query name (see vkFwdDeviations).
type vkFwdUp struct {
	mu      sync.Mutex
	queries int
	udp     *dns.Server
	tcp     *dns.Server
	addr    string
}

// vkFwdDeviations: what an upstream may do to the header / question it sends back while still being
// accepted by the forwarder's client (same ID, same question up to letter case).
var vkFwdDeviations = []string{"plain", "lcq", "ucq", "qr0", "op", "rd0", "ra0", "z", "aa", "tc0ad",
	// what the answer carries beyond the asked records
	"rrsig", "nsec", "optall", "optnoask", "big", "strayopt"}

// vkFwdMisbehaviours: what an upstream may do instead of answering (C11: silence, slowness, truncation,
// garbage, answers to the wrong question). "+t" forms behave only on UDP and answer properly over TCP.
var vkFwdMisbehaviours = []string{"servfail", "refused", "wrongq", "wrongid", "garbage", "noq", "twice", "tc", "tcboth", "slow", "silent"}

func (u *vkFwdUp) handle(w dns.ResponseWriter, req *dns.Msg) {
	u.mu.Lock()
	u.queries++
	u.mu.Unlock()
	_, overTCP := w.RemoteAddr().(*net.TCPAddr)
	switch strings.ToLower(strings.SplitN(req.Question[0].Name, ".", 2)[0]) {
	case "silent":
		return
	case "slow":
		time.Sleep(700 * time.Millisecond)
	case "servfail", "refused":
		m := new(dns.Msg)
		m.SetRcode(req, dns.RcodeServerFailure)
		if strings.HasPrefix(strings.ToLower(req.Question[0].Name), "refused") {
			m.Rcode = dns.RcodeRefused
		}
		_ = w.WriteMsg(m)
		return
	case "wrongq":
		m := new(dns.Msg)
		m.SetReply(req)
		m.Question[0].Name = "other." + req.Question[0].Name
		m.Answer = []dns.RR{&dns.A{Hdr: dns.RR_Header{Name: m.Question[0].Name, Rrtype: dns.TypeA, Class: dns.ClassINET, Ttl: 300}, A: net.IPv4(192, 0, 2, 66)}}
		_ = w.WriteMsg(m)
		return
	case "wrongid":
		m := new(dns.Msg)
		m.SetReply(req)
		m.Id = req.Id + 1
		m.Answer = []dns.RR{&dns.A{Hdr: dns.RR_Header{Name: req.Question[0].Name, Rrtype: dns.TypeA, Class: dns.ClassINET, Ttl: 300}, A: net.IPv4(192, 0, 2, 66)}}
		_ = w.WriteMsg(m)
		return
	case "garbage":
		_, _ = w.Write([]byte{byte(req.Id >> 8), byte(req.Id), 0x81, 0x80, 0xff, 0xff, 0xff})
		return
	case "noq":
		m := new(dns.Msg)
		m.SetReply(req)
		m.Question = nil
		_ = w.WriteMsg(m)
		return
	case "tc", "tcboth":
		if !overTCP || strings.HasPrefix(strings.ToLower(req.Question[0].Name), "tcboth") {
			m := new(dns.Msg)
			m.SetReply(req)
			m.Truncated = true
			_ = w.WriteMsg(m)
			return
		}
	case "twice":
		m := new(dns.Msg)
		m.SetReply(req)
		m.Answer = []dns.RR{&dns.A{Hdr: dns.RR_Header{Name: req.Question[0].Name, Rrtype: dns.TypeA, Class: dns.ClassINET, Ttl: 300}, A: net.IPv4(192, 0, 2, 81)}}
		_ = w.WriteMsg(m)
	}
	m := new(dns.Msg)
	m.SetReply(req)
	m.RecursionAvailable = true
	q := req.Question[0]
	m.Answer = []dns.RR{&dns.A{Hdr: dns.RR_Header{Name: q.Name, Rrtype: dns.TypeA, Class: dns.ClassINET, Ttl: 300}, A: net.IPv4(192, 0, 2, 80)}}
	if q.Qtype != dns.TypeA {
		m.Answer = nil
	}
	dev := strings.ToLower(strings.SplitN(q.Name, ".", 2)[0])
	switch dev {
	case "lcq":
		m.Question[0].Name = strings.ToLower(q.Name)
	case "ucq":
		m.Question[0].Name = strings.ToUpper(q.Name)
	case "qr0":
		m.Response = false
	case "op":
		m.Opcode = dns.OpcodeUpdate
	case "rd0":
		m.RecursionDesired = !req.RecursionDesired
	case "ra0":
		m.RecursionAvailable = false
	case "z":
		m.Zero = true
	case "aa":
		m.Authoritative = true
	case "tc0ad":
		m.AuthenticatedData = true
	case "rrsig": // DNSSEC records whether or not anybody asked for them, and AD
		m.AuthenticatedData = true
		m.Answer = append(m.Answer, &dns.RRSIG{Hdr: dns.RR_Header{Name: q.Name, Rrtype: dns.TypeRRSIG, Class: dns.ClassINET, Ttl: 300},
			TypeCovered: q.Qtype, Algorithm: 13, Labels: uint8(dns.CountLabel(q.Name)), OrigTtl: 300, Expiration: 4102444800, Inception: 1600000000, KeyTag: 1, SignerName: "t.", Signature: "AAAA"})
	case "nsec":
		m.Answer = nil
		m.Ns = []dns.RR{
			&dns.SOA{Hdr: dns.RR_Header{Name: "t.", Rrtype: dns.TypeSOA, Class: dns.ClassINET, Ttl: 300}, Ns: "ns.t.", Mbox: "h.t.", Serial: 1, Refresh: 1, Retry: 1, Expire: 1, Minttl: 300},
			&dns.NSEC{Hdr: dns.RR_Header{Name: q.Name, Rrtype: dns.TypeNSEC, Class: dns.ClassINET, Ttl: 300}, NextDomain: "zz." + q.Name, TypeBitMap: []uint16{dns.TypeMX, dns.TypeRRSIG, dns.TypeNSEC}},
		}
	case "optall", "optnoask": // an OPT with the upstream's own cookie, keepalive, subnet, padding and an unknown option
		if dev == "optnoask" || req.IsEdns0() != nil {
			m.Extra = append(m.Extra, vkFwdOPT())
		}
	case "strayopt": // an OPT record outside the additional section
		m.Ns = append(m.Ns, vkFwdOPT())
	case "big":
		m.Answer = nil
		for i := 0; i < 9; i++ {
			m.Answer = append(m.Answer, &dns.TXT{Hdr: dns.RR_Header{Name: q.Name, Rrtype: dns.TypeTXT, Class: dns.ClassINET, Ttl: 300}, Txt: []string{strings.Repeat(string(rune('a'+i)), 200)}})
		}
		if q.Qtype != dns.TypeTXT {
			m.Answer = m.Answer[:0]
			for i := 0; i < 120; i++ {
				m.Answer = append(m.Answer, &dns.A{Hdr: dns.RR_Header{Name: q.Name, Rrtype: dns.TypeA, Class: dns.ClassINET, Ttl: 300}, A: net.IPv4(192, 0, 2, byte(i+1))})
			}
		}
	}
	_ = w.WriteMsg(m)
}

func vkFwdOPT() *dns.OPT {
	o := &dns.OPT{Hdr: dns.RR_Header{Name: ".", Rrtype: dns.TypeOPT}}
	o.SetUDPSize(4096)
	o.Option = []dns.EDNS0{
		&dns.EDNS0_COOKIE{Code: dns.EDNS0COOKIE, Cookie: "aaaaaaaaaaaaaaaabbbbbbbbbbbbbbbb"},
		&dns.EDNS0_TCP_KEEPALIVE{Code: dns.EDNS0TCPKEEPALIVE, Timeout: 77},
		&dns.EDNS0_SUBNET{Code: dns.EDNS0SUBNET, Family: 1, SourceNetmask: 24, SourceScope: 24, Address: net.IPv4(198, 51, 100, 0)},
		&dns.EDNS0_PADDING{Padding: make([]byte, 16)},
		&dns.EDNS0_LOCAL{Code: 65001, Data: []byte("up")},
	}
	return o
}

func vkStartFwdUp() (*vkFwdUp, error) {
	u := &vkFwdUp{}
	var pc net.PacketConn
	var l net.Listener
	var err error
	// the same port number on UDP and TCP: the TCP one may be taken by another process, so try again
	for attempt := 0; attempt < 100; attempt++ {
		if pc, err = net.ListenPacket("udp", "127.0.0.1:0"); err != nil {
			continue
		}
		u.addr = pc.LocalAddr().String()
		if l, err = net.Listen("tcp", u.addr); err == nil {
			break
		}
		_ = pc.Close()
	}
	if err != nil {
		return nil, err
	}
	h := dns.HandlerFunc(u.handle)
	u.udp = &dns.Server{PacketConn: pc, Handler: h}
	u.tcp = &dns.Server{Listener: l, Handler: h}
	go func() { _ = u.udp.ActivateAndServe() }()
	go func() { _ = u.tcp.ActivateAndServe() }()
	return u, nil
}

func (u *vkFwdUp) stop() {
	_ = u.udp.Shutdown()
	_ = u.tcp.Shutdown()
}
