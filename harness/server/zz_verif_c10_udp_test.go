//go:build verif && linux && (amd64 || arm64)

package server

// C10/udp — the step-level UDP exploration of zz_verif_c11_udp_test.go
// restricted to scenarios in which at least two different client sockets send
// (so recycled slabs, staged lengths and raw socket addresses cross clients).
// The oracle is the same per-datagram judgement: a datagram reaches only the
// socket whose query it answers, carries that query's ID/question/marker, and
// contains no label bytes of another client.

import (
	"testing"

	"github.com/semihalev/sdns/internal/verifshim/vkit"
)

func TestVerifC10UDP(t *testing.T) {
	c := vkit.Init("C10/udp")
	defer c.Close()
	vkUDPExplore(c, "c10udp", 2)
}
