//go:build verif

package server

// Shared server-level harness for C05 (wire fast path == decoded path) and
// C06 (every reply respects what the client sent and negotiated): the REAL
// default middleware chain up to and including the cache, a scripted upstream
// stub in the resolver's place, and the REAL Server entry points driven with
// the REAL transport job types (udpJob / tcpJob) so the strict wire path, its
// leases and the header-level accept/reject code all run.

import (
	"net/http/httptest"
	"net/http"
	"encoding/base64"
	"bytes"
	"context"
	"encoding/binary"
	"fmt"
	"net"
	"net/netip"
	"os"
	"path/filepath"
	"sort"
	"strings"
	"time"

	"github.com/miekg/dns"
	"github.com/semihalev/sdns/config"
	"github.com/semihalev/sdns/internal/dnsclient"
	"github.com/semihalev/sdns/internal/wire"
	"github.com/semihalev/sdns/middleware"
	"github.com/semihalev/sdns/middleware/defaults"
	"github.com/semihalev/sdns/middleware/forwarder"
	"github.com/semihalev/zlog/v2"
)

func init() {
	logger := zlog.NewStructured()
	logger.SetLevel(zlog.LevelFatal)
	zlog.SetDefault(logger)
}

// vkUp is the scripted upstream standing in for failover/resolver/forwarder.
type vkUp struct {
	calls  int
	last   *dns.Msg
	ctx    context.Context // context of the exchange currently being answered (for provenance marks)
	script map[string]func(req *dns.Msg) *dns.Msg // by lower-case qname
}

func (s *vkUp) Name() string { return "vkupstream" }

func (s *vkUp) ServeDNS(ctx context.Context, ch *middleware.Chain) {
	req := ch.Request.Msg()
	s.calls++
	if req == nil || len(req.Question) == 0 {
		ch.Cancel()
		return
	}
	s.last = req.Copy()
	s.ctx = ctx
	var resp *dns.Msg
	if f := s.script[strings.ToLower(req.Question[0].Name)]; f != nil {
		resp = f(req)
	} else {
		// unscripted: a truncated marker answer, never cached, so asking changes nothing
		resp = new(dns.Msg)
		resp.SetReply(req)
		resp.RecursionAvailable = true
		resp.Truncated = true
	}
	if resp != nil {
		_ = ch.Writer.WriteMsg(resp)
	}
	ch.Cancel()
}

type vkSrvCfg struct {
	Name      string
	Cookie    bool
	NSID      bool
	RateLimit int  // per-client limit (0 = off)
	EntryRL   int  // per-entry cache rate limit
	Prefetch  bool
	NoRFC8198 bool
	NoRFC9520 bool
	Hosts     bool
	ECS       bool
	ACL       []string // access list (nil = everyone)
	DNS64     bool     // dns64 with the well-known prefix
	// Forward: the real forwarder handler stands behind failover, configured with a scripted upstream on
	// loopback (zz_verif_srv_fwd_test.go)
	Forward bool
}

type vkSrvWorld struct {
	s    *Server
	up   *vkUp
	cfg  *config.Config
	dir  string
	udp  *net.UDPConn
	spec vkSrvCfg
	fwd  *vkFwdUp

	// The owned transports recycle their job slabs (and the per-request slots inside them)
	// from one client's query to the next; the harness does the same: ONE udp slab taken from
	// and released to a real engine's cache, one tcp job per size class.
	ue      *udpEngine
	te      *tcpEngine
	tcpJobs map[bool]*tcpJob
	// primer, when set, is served on the same slab from another client immediately before
	// every strict / inline serve (its reply is discarded): whatever per-request state the
	// slab keeps must not reach the next client's reply.
	primer []byte
}

var vkPrimerClient = netip.MustParseAddrPort("203.0.113.9:5353")

// vkPrimerPkt is a strict-path-eligible EDNS query (DO, AD, large size, NSID request) with a cookie distinct
// from the alphabet's.
// vkPrimerPkts: the other client's queries served on the slab just before. The second one is answered with AD=1 and a
// signed RRset: its reply leaves every header bit a later reply could inherit, and more bytes, on the slab.
func vkPrimerPkts() [][]byte { return [][]byte{vkPrimerPkt(), vkPrimerPktFor("sig.t.")} }

func vkPrimerPkt() []byte { return vkPrimerPktFor("hit.t.") }

func vkPrimerPktFor(name string) []byte {
	p := vkBasePkt(name, dns.TypeA)
	p.ID = 0x7e57
	p.AD = true
	p.OPT, p.DO, p.Size = true, true, 4096
	p.Options = []string{"cookie8b", "nsid"}
	return p.build()
}

func (w *vkSrvWorld) udpSlab() *udpJob {
	if w.ue == nil {
		w.ue = newUDPEngine(w.s, []*net.UDPConn{w.udp}, false, 1, 64, resourcePlan{})
		w.ue.slabCap = 1
	}
	j := w.ue.take(0)
	if j == nil {
		panic("vk: the harness's single UDP slab is still leased")
	}
	return j
}

func (w *vkSrvWorld) tcpSlab(large bool) *tcpJob {
	if w.te == nil {
		w.te = &tcpEngine{handler: w.s}
		w.tcpJobs = map[bool]*tcpJob{}
	}
	if w.tcpJobs[large] == nil {
		w.tcpJobs[large] = newTCPJob(w.te, large)
	}
	return w.tcpJobs[large]
}

func vkNewSrvWorld(spec vkSrvCfg) *vkSrvWorld {
	dir, err := os.MkdirTemp("", "vk-srv-")
	if err != nil {
		panic(err)
	}
	cfg := &config.Config{
		Expire: 600, CacheSize: 4096, Maxdepth: 30, DNSSEC: "on",
		RootServers: []string{"192.0.2.1:53"}, Directory: dir,
		Nullroute: "0.0.0.0", Nullroutev6: "::0",
		AccessList:   []string{"0.0.0.0/0", "::0/0"},
		EmptyZones:   []string{"10.in-addr.arpa."},
		Bind:         "127.0.0.1:0",
		BlockListDir: filepath.Join(dir, "bl"),
	}
	cfg.Timeout.Duration = 2 * time.Second
	cfg.QueryTimeout.Duration = 5 * time.Second
	if spec.ACL != nil {
		cfg.AccessList = spec.ACL
	}
	if spec.Cookie {
		cfg.CookieSecret = "6c6f6f6b61686172646c6f6f6b6168617264"
	}
	if spec.NSID {
		cfg.NSID = "vk-nsid"
	}
	cfg.ClientRateLimit = spec.RateLimit
	cfg.RateLimit = spec.EntryRL
	if spec.Prefetch {
		cfg.Prefetch = 50
	}
	f := false
	if spec.NoRFC8198 {
		cfg.RFC8198 = &f
	}
	if spec.NoRFC9520 {
		cfg.RFC9520 = &f
	}
	if spec.Hosts {
		hp := filepath.Join(dir, "hosts")
		_ = os.WriteFile(hp, []byte("192.0.2.77 hosts.t\n2001:db8::77 hosts.t\n"), 0o644)
		cfg.HostsFile = hp
	}
	if spec.ECS {
		cfg.ECS.Enabled = true
	}
	if spec.DNS64 {
		cfg.DNS64.Enabled = true
		cfg.DNS64.Prefixes = []string{"64:ff9b::/96"}
	}
	var fwd *vkFwdUp
	if spec.Forward {
		if fwd, err = vkStartFwdUp(); err != nil {
			panic(err)
		}
		cfg.ForwarderServers = []string{fwd.addr}
		cfg.DNSSEC = "off"
	}
	up := &vkUp{script: map[string]func(*dns.Msg) *dns.Msg{}}
	middleware.Reset()
	defaults.RegisterUpTo("failover")
	if spec.Forward {
		middleware.Register("forwarder", func(c *config.Config) middleware.Handler { return forwarder.New(c) })
	}
	middleware.Register("vkupstream", func(*config.Config) middleware.Handler { return up })
	p := middleware.DefaultRegistry.Build(cfg)
	middleware.VerifAutoWire(p)
	w := &vkSrvWorld{s: &Server{cfg: cfg, pipeline: p, inlineReady: true}, up: up, cfg: cfg, dir: dir, spec: spec, fwd: fwd}
	pc, err := net.ListenUDP("udp", &net.UDPAddr{IP: net.IPv4(127, 0, 0, 1)})
	if err != nil {
		panic(err)
	}
	w.udp = pc
	return w
}

func (w *vkSrvWorld) close() {
	if w.fwd != nil {
		w.fwd.stop()
	}
	_ = w.udp.Close()
	for _, h := range w.s.pipeline.Handlers() {
		if st, ok := h.(interface{ Stop() }); ok {
			st.Stop()
		}
	}
	_ = os.RemoveAll(w.dir)
}

// ---------------------------------------------------------------- paths

type vkPath string

const (
	vkPathStrict    vkPath = "strict"         // ServeRaw on the real job transport: wire-born strict path
	vkPathInline    vkPath = "inline+replay"  // ServeRawInline, then ServeRawReplay if handed off (UDP reader fast path)
	vkPathDecoded   vkPath = "decoded"        // ServeRaw on a transport without strict slots: decoded entry, direct pack
	vkPathServeMsg  vkPath = "servemsg"       // ServeMsg (decoded message API, no byte-sink capability)
	vkPathDoHPost   vkPath = "doh-post"       // the real Server.ServeHTTP: RFC 8484 POST application/dns-message
	vkPathDoHGet    vkPath = "doh-get"        // the real Server.ServeHTTP: RFC 8484 GET ?dns=<base64url>
)

// vkPlain is an owned-transport look-alike WITHOUT strict slots: the decoded entry.
type vkPlain struct {
	remote, local net.Addr
	out           [][]byte
	proto         string
}

func (p *vkPlain) LocalAddr() net.Addr  { return p.local }
func (p *vkPlain) RemoteAddr() net.Addr { return p.remote }
func (p *vkPlain) Close() error         { return nil }
func (p *vkPlain) Proto() string        { return p.proto }
func (p *vkPlain) Write(b []byte) (int, error) {
	p.out = append(p.out, append([]byte(nil), b...))
	return len(b), nil
}
func (p *vkPlain) WriteMsg(m *dns.Msg) error {
	b, err := m.Pack()
	if err != nil {
		return err
	}
	_, err = p.Write(b)
	return err
}

// vkConn is an in-memory net.Conn capturing what the TCP stream writes.
type vkConn struct {
	remote, local net.Addr
	wr            bytes.Buffer
}

func (c *vkConn) Read([]byte) (int, error)         { return 0, fmt.Errorf("vk: no read") }
func (c *vkConn) Write(b []byte) (int, error)      { return c.wr.Write(b) }
func (c *vkConn) Close() error                     { return nil }
func (c *vkConn) LocalAddr() net.Addr              { return c.local }
func (c *vkConn) RemoteAddr() net.Addr             { return c.remote }
func (c *vkConn) SetDeadline(time.Time) error      { return nil }
func (c *vkConn) SetReadDeadline(time.Time) error  { return nil }
func (c *vkConn) SetWriteDeadline(time.Time) error { return nil }

type vkResult struct {
	replies [][]byte // payloads the client would receive (0 or 1 expected)
	up      int      // upstream (stub) invocations
	lastUp  *dns.Msg
	handoff bool
	// inlineUp: upstream (stub) invocations that happened DURING the inline pass of the UDP reader
	// (ServeRawInline), i.e. on the goroutine that reads the socket
	inlineUp int
}

// serve runs one raw packet through the chosen entry path on transport proto ("udp"/"tcp")
// from client address addr, including the engines' header-level accept/reject step.
func (w *vkSrvWorld) serve(path vkPath, proto string, client netip.AddrPort, raw []byte) vkResult {
	before := w.up.calls
	w.up.last = nil
	res := vkResult{}
	now := time.Now()
	switch {
	case path == vkPathDoHPost || path == vkPathDoHGet:
		var hr *http.Request
		if path == vkPathDoHPost {
			hr = httptest.NewRequest(http.MethodPost, "https://doh.test/dns-query", bytes.NewReader(raw))
			hr.Header.Set("Content-Type", "application/dns-message")
		} else {
			hr = httptest.NewRequest(http.MethodGet, "https://doh.test/dns-query?dns="+base64.RawURLEncoding.EncodeToString(raw), nil)
		}
		hr.RemoteAddr = client.String()
		rec := httptest.NewRecorder()
		w.s.ServeHTTP(rec, hr)
		if rec.Code == http.StatusOK && rec.Header().Get("Content-Type") == "application/dns-message" {
			res.replies = [][]byte{append([]byte(nil), rec.Body.Bytes()...)}
		}
	case path == vkPathServeMsg:
		m := new(dns.Msg)
		if err := m.Unpack(raw); err != nil {
			break // a transport that decodes first never reaches ServeMsg with garbage
		}
		pl := &vkPlain{proto: proto}
		pl.remote, pl.local = vkAddr(proto, client), vkAddr(proto, netip.MustParseAddrPort("127.0.0.1:53"))
		w.s.ServeMsg(context.Background(), pl, m)
		res.replies = pl.out
	case proto == "udp":
		header, ok := wire.ParseHeader(raw)
		if !ok {
			break // engines drop what has no header
		}
		verdict := acceptHeader(header)
		if path == vkPathDecoded {
			pl := &vkPlain{}
			pl.remote, pl.local = vkAddr(proto, client), vkAddr(proto, netip.MustParseAddrPort("127.0.0.1:53"))
			switch verdict {
			case acceptIgnore:
			case acceptNotImplemented, acceptFormatError:
				_, _ = pl.Write(vkBareReject(raw, verdict))
			default:
				if !w.s.ServeRaw(pl, raw, now) {
					_, _ = pl.Write(vkBareReject(raw, acceptFormatError))
				}
			}
			res.replies = pl.out
			break
		}
		inlineUp := 0
		run := func(cl netip.AddrPort, pkt []byte) (tx [][]byte, handoff bool) {
			j := w.udpSlab()
			j.transition(udpJobFree, udpJobReading)
			j.pc = w.udp
			// the remote address arrives as the kernel's raw sockaddr and goes through the engine's own
			// decoder (batched reader's finishRecv): what it refuses is dropped, as finishRecv drops it
			if !vkIngressRemote(j, cl) {
				j.release(udpJobReading)
				return nil, false
			}
			j.rawSALen = 0 // (this harness reads the staged reply; nothing is sent through the raw sockaddr)
			j.rxLen = copy(j.rx[:], pkt)
			j.readTime = now
			w.ue.inFlight.Add(1)
			j.transition(udpJobReading, udpJobServing)
			j.burst = &udpTXBurst{}
			h, hok := wire.ParseHeader(pkt)
			v := acceptIgnore
			if hok {
				v = acceptHeader(h)
			}
			switch v {
			case acceptIgnore:
			case acceptNotImplemented, acceptFormatError:
				j.rejectInPlace(v)
			default:
				if path == vkPathInline {
					upBefore := w.up.calls
					inlineDone := w.s.ServeRawInline(j, j.rx[:j.rxLen], now)
					inlineUp += w.up.calls - upBefore
					if !inlineDone && j.txLen == 0 {
						handoff = true
						if !w.s.ServeRawReplay(j, j.rx[:j.rxLen], now) {
							j.rejectInPlace(acceptFormatError)
						}
					}
				} else if !w.s.ServeRaw(j, j.rx[:j.rxLen], now) {
					j.rejectInPlace(acceptFormatError)
				}
			}
			if j.txLen > 0 {
				tx = [][]byte{append([]byte(nil), j.tx[:j.txLen]...)}
			}
			j.burst = nil
			j.release(udpJobServing) // the engine's own scrub between two clients
			return tx, handoff
		}
		if w.primer != nil {
			run(vkPrimerClient, w.primer)
		}
		_ = verdict
		inlineUp = 0
		res.replies, res.handoff = run(client, raw)
		res.inlineUp = inlineUp
	case proto == "tcp":
		conn := &vkConn{remote: vkAddr(proto, client), local: vkAddr(proto, netip.MustParseAddrPort("127.0.0.1:53"))}
		if path == vkPathDecoded {
			header, ok := wire.ParseHeader(raw)
			if !ok {
				break
			}
			pl := &vkPlain{remote: conn.remote, local: conn.local}
			switch verdict := acceptHeader(header); verdict {
			case acceptIgnore:
			case acceptNotImplemented, acceptFormatError:
				_, _ = pl.Write(vkBareReject(raw, verdict))
			default:
				if !w.s.ServeRaw(pl, raw, now) {
					_, _ = pl.Write(vkBareReject(raw, acceptFormatError))
				}
			}
			res.replies = pl.out
			break
		}
		runTCP := func(cn *vkConn, pkt []byte) bool {
			j := w.tcpSlab(largeClass(len(pkt)))
			if len(pkt) > len(j.rx) {
				return false
			}
			// exactly what serveConn sets per frame
			j.conn = cn
			j.stream = &tcpStream{}
			j.stream.reset(cn)
			j.written = false
			j.readTime = now
			copy(j.rx, pkt)
			w.te.serveFrame(j, len(pkt))
			_ = j.stream.flush()
			return true
		}
		if w.primer != nil {
			runTCP(&vkConn{remote: vkAddr(proto, vkPrimerClient), local: conn.local}, w.primer)
		}
		if !runTCP(conn, raw) {
			break
		}
		// split the captured stream into frames
		b := conn.wr.Bytes()
		for len(b) >= dnsclient.FramePrefixLen {
			n := int(binary.BigEndian.Uint16(b[:2]))
			if len(b) < 2+n {
				res.replies = append(res.replies, []byte("TORN-FRAME"))
				break
			}
			res.replies = append(res.replies, append([]byte(nil), b[2:2+n]...))
			b = b[2+n:]
		}
	}
	res.up = w.up.calls - before
	res.lastUp = w.up.last
	return res
}

func vkAddr(proto string, ap netip.AddrPort) net.Addr {
	if proto == "tcp" {
		return net.TCPAddrFromAddrPort(ap)
	}
	return net.UDPAddrFromAddrPort(ap)
}

// vkBareReject mirrors what every engine writes for a header-level rejection (udpJob/tcpJob.rejectInPlace).
func vkBareReject(raw []byte, verdict acceptVerdict) []byte {
	j := &udpJob{}
	j.rxLen = copy(j.rx[:], raw)
	j.burst = &udpTXBurst{}
	j.rejectInPlace(verdict)
	return append([]byte(nil), j.tx[:j.txLen]...)
}

// ---------------------------------------------------------------- canonical reply form

type vkCanon struct {
	Dropped bool
	Header  string
	Rcode   int
	Q       string
	Answer  []string
	Ns      []string
	Extra   []string
	EDNS    string
	Opts    []string
	Len     int
	Err     string
}

func (c vkCanon) String() string {
	if c.Dropped {
		return "<no reply>"
	}
	if c.Err != "" {
		return "<undecodable reply: " + c.Err + ">"
	}
	return fmt.Sprintf("%s rcode=%d q=%s an=%v ns=%v ar=%v edns=%s opts=%v", c.Header, c.Rcode, c.Q, c.Answer, c.Ns, c.Extra, c.EDNS, c.Opts)
}

// vkCanonReply decodes a reply into the form the two paths are compared in:
// header bits, rcode, question, every section as a sorted list of records with
// lower-cased owner names and TTLs, EDNS version/size/DO and the option multiset.
func vkCanonReply(replies [][]byte) vkCanon {
	if len(replies) == 0 {
		return vkCanon{Dropped: true}
	}
	if len(replies) > 1 {
		return vkCanon{Err: fmt.Sprintf("%d replies for one query", len(replies))}
	}
	m := new(dns.Msg)
	if err := m.Unpack(replies[0]); err != nil {
		return vkCanon{Err: err.Error(), Len: len(replies[0])}
	}
	c := vkCanon{Len: len(replies[0])}
	c.Header = fmt.Sprintf("id=%d qr=%v op=%d aa=%v tc=%v rd=%v ra=%v z=%v ad=%v cd=%v", m.Id, m.Response, m.Opcode, m.Authoritative, m.Truncated,
		m.RecursionDesired, m.RecursionAvailable, m.Zero, m.AuthenticatedData, m.CheckingDisabled)
	c.Rcode = m.Rcode
	for _, q := range m.Question {
		c.Q += fmt.Sprintf("%s/%d/%d;", q.Name, q.Qtype, q.Qclass)
	}
	sec := func(rrs []dns.RR) []string {
		var out []string
		for _, rr := range rrs {
			if rr.Header().Rrtype == dns.TypeOPT {
				continue
			}
			// names compare case-insensitively: a compression pointer into the client's own
			// question spelling changes the letter case of whatever suffix it replaces —
			// owner names and names inside rdata alike — which is a compression difference
			out = append(out, strings.ToLower(rr.String()))
		}
		sort.Strings(out)
		return out
	}
	c.Answer, c.Ns, c.Extra = sec(m.Answer), sec(m.Ns), sec(m.Extra)
	nopt := 0
	for _, rr := range m.Extra {
		if opt, ok := rr.(*dns.OPT); ok {
			nopt++
			c.EDNS += fmt.Sprintf("v%d size=%d do=%v xr=%d;", opt.Version(), opt.UDPSize(), opt.Do(), opt.ExtendedRcode())
			for _, o := range opt.Option {
				c.Opts = append(c.Opts, fmt.Sprintf("%d:%s", o.Option(), o.String()))
			}
		}
	}
	sort.Strings(c.Opts)
	return c
}
