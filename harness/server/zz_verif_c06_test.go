//go:build verif

package server

import (
	"strings"
	"fmt"
	"net/netip"
	"testing"

	"github.com/miekg/dns"
	"github.com/semihalev/sdns/internal/verifshim/vkit"
	"github.com/semihalev/sdns/internal/wire"
)

func vkHeaderOf(raw []byte) (wire.Header, bool) { return wire.ParseHeader(raw) }

// vkC06Judge pushes the packet through every entry path and judges every reply against the packet SPEC.
func vkC06Judge(w *vkSrvWorld, cs vkSrvCase) (string, string) {
	raw := cs.Pkt.build()
	client := netip.MustParseAddrPort(cs.Client)
	paths := []vkPath{vkPathDecoded, vkPathStrict, vkPathServeMsg}
	if w.primer != nil {
		paths = []vkPath{vkPathStrict} // only the slab-owning paths see a primer
	}
	if cs.Proto == "udp" {
		paths = append(paths, vkPathInline)
	} else if w.primer == nil {
		// DNS over HTTPS: the real ServeHTTP in front of the same pipeline (a stream transport)
		paths = append(paths, vkPathDoHPost, vkPathDoHGet)
	}
	decodable := new(dns.Msg).Unpack(raw) == nil
	outcome := ""
	for _, p := range paths {
		if p == vkPathServeMsg {
			// entered only with a decoded message by transports applying their own accept rules
			if !decodable || cs.Pkt.QR || cs.Pkt.Opcode != 0 {
				continue
			}
		}
		r := w.serve(p, cs.Proto, client, raw)
		jcs := cs
		if p == vkPathDoHPost || p == vkPathDoHGet {
			jcs.Proto = "doh" // no keepalive negotiation, no datagram size limit
		}
		if v, o := vkC06Reply(jcs, p, raw, decodable, r); v != "" {
			return fmt.Sprintf("path %s: %s", p, v), "violation"
		} else if outcome == "" {
			outcome = o
		}
	}
	return "", outcome
}

func vkC06Reply(cs vkSrvCase, path vkPath, raw []byte, decodable bool, r vkResult) (string, string) {
	p := cs.Pkt
	if len(r.replies) > 1 {
		return fmt.Sprintf("%d replies to one query", len(r.replies)), ""
	}
	doh := path == vkPathDoHPost || path == vkPathDoHGet || path == vkPath("doq") // neither a datagram nor a stream listener
	if p.QR && !doh { // (the "responses are never answered" clause names the datagram and stream listeners)
		if len(r.replies) != 0 {
			return "a packet that is itself a response (QR=1) was answered", ""
		}
		return "", "ignored-response"
	}
	if len(r.replies) == 0 {
		// silence is only REQUIRED for responses; for everything else the statement demands specific rcodes
		switch {
		case path == vkPathDoHPost || path == vkPathDoHGet || path == vkPath("doq"):
			// an HTTP error status (no DNS reply) — the FORMERR/NOTIMP clause names the datagram and stream listeners
		case p.Opcode != 0 && path != vkPathServeMsg:
			return fmt.Sprintf("opcode %d query got no reply (NOTIMP required)", p.Opcode), ""
		case path != vkPathServeMsg && len(raw) >= 12 && (!decodable || vkRealQD(raw) != 1):
			return "bad section count / undecodable body got no reply (FORMERR required)", ""
		}
		return "", "no-reply"
	}
	body := r.replies[0]
	if string(body) == "TORN-FRAME" {
		return "reply frame torn", ""
	}
	if len(body) < 12 {
		return fmt.Sprintf("reply shorter than a DNS header (%d bytes)", len(body)), ""
	}
	m := new(dns.Msg)
	if err := m.Unpack(body); err != nil {
		return "reply does not decode: " + err.Error(), ""
	}
	// 1. always: QR, ID, opcode
	if !m.Response {
		return "reply without QR: " + m.String(), ""
	}
	wantID := p.ID
	if cs.Proto == "doq" {
		wantID = 0 // RFC 9250 4.2.1: the Message ID is 0 over DoQ
	}
	if m.Id != wantID {
		return fmt.Sprintf("reply ID %d != %d (query ID %d, transport %s)", m.Id, wantID, p.ID, cs.Proto), ""
	}
	if m.Opcode != p.Opcode {
		return fmt.Sprintf("reply opcode %d != query opcode %d", m.Opcode, p.Opcode), ""
	}
	// required verdicts
	switch {
	case p.Opcode != 0 && (!decodable || vkRealQD(raw) != 1):
		// both clauses apply and the statement gives neither precedence: either verdict satisfies it
		if m.Rcode != dns.RcodeNotImplemented && m.Rcode != dns.RcodeFormatError {
			return fmt.Sprintf("non-query opcode %d with bad counts answered with %s, NOTIMP or FORMERR required", p.Opcode, dns.RcodeToString[m.Rcode]), ""
		}
	case p.Opcode != 0:
		if m.Rcode != dns.RcodeNotImplemented {
			return fmt.Sprintf("non-query opcode %d answered with %s, NOTIMP required", p.Opcode, dns.RcodeToString[m.Rcode]), ""
		}
	case !decodable || vkRealQD(raw) != 1:
		if m.Rcode != dns.RcodeFormatError {
			return fmt.Sprintf("bad section count / undecodable body answered with %s, FORMERR required", dns.RcodeToString[m.Rcode]), ""
		}
	case p.OPT && !p.OPT2 && p.OPTName == "" && p.Version != 0:
		if m.Rcode != dns.RcodeBadVers {
			return fmt.Sprintf("EDNS version %d answered with %s, BADVERS required", p.Version, dns.RcodeToString[m.Rcode]), ""
		}
	}
	bare := len(m.Question) == 0 && (m.Rcode == dns.RcodeFormatError || m.Rcode == dns.RcodeNotImplemented)
	if bare {
		return "", "bare-" + dns.RcodeToString[m.Rcode]
	}
	// 2. question echo
	if len(m.Question) != 1 {
		return fmt.Sprintf("reply carries %d questions", len(m.Question)), ""
	}
	if decodable {
		q := new(dns.Msg)
		_ = q.Unpack(raw)
		if len(q.Question) >= 1 {
			if m.Question[0] != q.Question[0] {
				return fmt.Sprintf("reply question %v does not echo the query's %v", m.Question[0], q.Question[0]), ""
			}
		}
	}
	// 3. OPT only if asked
	opt := m.IsEdns0()
	queryHasOPT := p.OPT
	if opt != nil && !queryHasOPT {
		return "reply carries OPT although the query had none: " + m.String(), ""
	}
	// an OPT is an OPT wherever it sits: a TYPE 41 record in the answer or authority section reaches the client too
	for si, sec := range [][]dns.RR{m.Answer, m.Ns} {
		for _, rr := range sec {
			if rr.Header().Rrtype != dns.TypeOPT {
				continue
			}
			where := []string{"answer", "authority"}[si]
			if !queryHasOPT {
				return "reply carries an OPT record (in its " + where + " section) although the query had none: " + m.String(), ""
			}
			if o, ok := rr.(*dns.OPT); ok {
				for _, e := range o.Option {
					if ck, ok := e.(*dns.EDNS0_COOKIE); ok && ck.Cookie == "aaaaaaaaaaaaaaaabbbbbbbbbbbbbbbb" {
						return "the upstream's cookie was relayed to the client inside an OPT record in the " + where + " section: " + m.String(), ""
					}
				}
			}
		}
	}
	// 4. DNSSEC records only with DO or for an RRSIG question
	if !(p.OPT && p.DO) && p.Qtype != dns.TypeRRSIG {
		for _, sec := range [][]dns.RR{m.Answer, m.Ns} {
			for _, rr := range sec {
				switch rr.Header().Rrtype {
				case dns.TypeRRSIG, dns.TypeNSEC, dns.TypeNSEC3:
					return fmt.Sprintf("reply carries %s although DO was not set: %s", dns.TypeToString[rr.Header().Rrtype], m.String()), ""
				}
			}
		}
	}
	// 5. AD discipline
	if m.AuthenticatedData && (p.CD || (!(p.OPT && p.DO) && !p.AD)) {
		return fmt.Sprintf("reply has AD=1 although the client set CD=%v, DO=%v, AD=%v: %s", p.CD, p.OPT && p.DO, p.AD, m.String()), ""
	}
	// 6. options
	if opt != nil {
		sent := map[string]bool{}
		for _, o := range p.Options {
			sent[o] = true
		}
		sentCookie := sent["cookie8"] || sent["cookie24"] || sent["cookie7"] || sent["cookie41"] || sent["cookie8b"]
		// the options of EVERY OPT record the reply carries (IsEdns0 only shows the last one)
		var allOptions []dns.EDNS0
		for _, rr := range m.Extra {
			if o, ok := rr.(*dns.OPT); ok {
				allOptions = append(allOptions, o.Option...)
			}
		}
		for _, o := range allOptions {
			switch o.Option() {
			case dns.EDNS0SUBNET:
				return "reply carries a client-subnet option: " + m.String(), ""
			case dns.EDNS0TCPKEEPALIVE:
				if cs.Proto != "tcp" || !(sent["keepalive0"] || sent["keepalive2"] || sent["keepalive1"]) {
					return "reply carries a keepalive option the client did not negotiate on this transport: " + m.String(), ""
				}
				if ka, ok := o.(*dns.EDNS0_TCP_KEEPALIVE); ok && ka.Timeout == 77 {
					return "the upstream's keepalive value was reflected to the client: " + m.String(), ""
				}
			case dns.EDNS0PADDING:
				return "reply reflects the client's padding option: " + m.String(), ""
			case 65001:
				return "reply reflects a foreign/unknown client option: " + m.String(), ""
			case dns.EDNS0COOKIE:
				if !sentCookie {
					return "reply carries a cookie although the client sent none: " + m.String(), ""
				}
				if ck, ok := o.(*dns.EDNS0_COOKIE); ok && ck.Cookie == "aaaaaaaaaaaaaaaabbbbbbbbbbbbbbbb" {
					return "the upstream's cookie was relayed to the client: " + m.String(), ""
				}
				// the server cookie is returned only AGAINST THE CLIENT COOKIE SENT: its client half is the client's own
				if ck, ok := o.(*dns.EDNS0_COOKIE); ok {
					var wants []string
					if sent["cookie8"] || sent["cookie24"] {
						wants = append(wants, "0102030405060708")
					}
					if sent["cookie8b"] {
						wants = append(wants, "0909090909090909")
					}
					if sent["cookie41"] { // over-long cookie of 41 zero octets: its first 8 octets are still what the client sent
						wants = append(wants, "0000000000000000")
					}
					if sent["cookie7"] {
						wants = append(wants, "01020304050607")
					}
					okc := len(wants) == 0
					for _, wnt := range wants {
						okc = okc || strings.HasPrefix(ck.Cookie, wnt)
					}
					want := strings.Join(wants, " or ")
					if !okc {
						return fmt.Sprintf("reply cookie %s does not start with the client cookie sent (%s): another request's cookie", ck.Cookie, want), ""
					}
				}
			case dns.EDNS0NSID:
				if !sent["nsid"] {
					return "reply carries NSID although the client did not ask: " + m.String(), ""
				}
			}
		}
	}
	// 7. UDP size
	if cs.Proto == "udp" {
		adv := 512
		if p.OPT {
			adv = int(p.Size) // (a second OPT in the alphabet advertises the same size)
		}
		limit := adv
		if limit > 1232 {
			limit = 1232
		}
		if limit < 512 {
			limit = 512
		}
		if len(body) > limit && !(m.Truncated && len(m.Answer) == 0 && len(m.Ns) == 0 && vkNonOPT(m.Extra) == 0) {
			return fmt.Sprintf("UDP reply of %d bytes exceeds the negotiated %d and is not a TC=1 reply holding only question and OPT", len(body), limit), ""
		}
	}
	return "", "ok:" + dns.RcodeToString[m.Rcode]
}

func vkNonOPT(rrs []dns.RR) int {
	n := 0
	for _, rr := range rrs {
		if rr.Header().Rrtype != dns.TypeOPT {
			n++
		}
	}
	return n
}

func vkRealQD(raw []byte) int {
	h, ok := wire.ParseHeader(raw)
	if !ok {
		return -1
	}
	return int(h.QDCount)
}

func TestVerifC06(t *testing.T) {
	c := vkit.Init("C06/sweep")
	defer c.Close()
	vkSrvSweep(c, "c06")
}
