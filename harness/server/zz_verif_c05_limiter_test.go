//go:build verif

package server

// C05/limiter — the side effects later queries can see: per-client limiter
// tokens and the remembered cookie. Every sequence of <= 3 cookie-shaped
// queries (transport x {no OPT, OPT, cookie A, cookie B, A or B echoed with
// the server half last received, A with a wrong server half}) followed by a
// tail of plain probes (which count the tokens left) is played once per entry
// path, each path from its OWN client address (its own limiter bucket, the
// same cache), and every step's observable reply is compared with the decoded
// path's: whether the query was answered, the rcode (BADCOOKIE agreement),
// the cookie returned (client half, server half valid for that client),
// hand-off to resolution, and how many probes the bucket still admits.

import (
	"encoding/hex"
	"encoding/json"
	"fmt"
	"net/netip"
	"strings"
	"testing"

	"github.com/miekg/dns"
	"github.com/semihalev/sdns/internal/dnsutil"
	"github.com/semihalev/sdns/internal/verifshim/vkit"
)

type vkLimStep struct {
	Proto string `json:"proto"`
	Kind  string `json:"kind"` // noopt, opt, A, B, A+srv, B+srv, A+bad, A+srv|B, B|A+srv, A|B (two cookie options)
}

func (s vkLimStep) String() string { return s.Proto + ":" + s.Kind }

const vkLimRate = 6

var (
	vkLimCookieA = "a1a2a3a4a5a6a7a8"
	vkLimCookieB = "b1b2b3b4b5b6b7b8"
	vkLimPaths   = []vkPath{vkPathDecoded, vkPathStrict, vkPathServeMsg, vkPathInline}
	vkLimClients = map[vkPath]string{
		vkPathDecoded: "198.51.100.11:4000", vkPathStrict: "198.51.100.12:4000",
		vkPathServeMsg: "198.51.100.13:4000", vkPathInline: "198.51.100.14:4000",
	}
)

func vkLimQuery(id uint16, kind string, lastSrv map[string]string) []byte {
	m := new(dns.Msg)
	m.SetQuestion("hit.t.", dns.TypeA)
	m.Id = id
	if kind != "noopt" {
		opt := &dns.OPT{Hdr: dns.RR_Header{Name: ".", Rrtype: dns.TypeOPT}}
		opt.SetUDPSize(1232)
		ck := ""
		switch kind {
		case "A":
			ck = vkLimCookieA
		case "B":
			ck = vkLimCookieB
		case "A+srv":
			ck = vkLimCookieA
			if s := lastSrv[vkLimCookieA]; s != "" {
				ck = s
			}
		case "B+srv":
			ck = vkLimCookieB
			if s := lastSrv[vkLimCookieB]; s != "" {
				ck = s
			}
		case "A+bad":
			ck = vkLimCookieA + strings.Repeat("5c", 32)
		case "A+srv|B", "B|A+srv", "A|B":
			// TWO cookie options in one OPT: whichever of them a path goes by, every path must go by the same
			a := vkLimCookieA
			if s := lastSrv[vkLimCookieA]; s != "" && kind != "A|B" {
				a = s
			}
			first, second := a, vkLimCookieB
			if kind == "B|A+srv" {
				first, second = vkLimCookieB, a
			}
			opt.Option = []dns.EDNS0{&dns.EDNS0_COOKIE{Code: dns.EDNS0COOKIE, Cookie: first}, &dns.EDNS0_COOKIE{Code: dns.EDNS0COOKIE, Cookie: second}}
		}
		if ck != "" {
			opt.Option = []dns.EDNS0{&dns.EDNS0_COOKIE{Code: dns.EDNS0COOKIE, Cookie: ck}}
		}
		m.Extra = []dns.RR{opt}
	}
	b, err := m.Pack()
	if err != nil {
		panic(err)
	}
	return b
}

// vkLimPlay plays the history on one path and returns one observation per step plus the tail count.
func vkLimPlay(w *vkSrvWorld, path vkPath, hist []vkLimStep) []string {
	client := netip.MustParseAddrPort(vkLimClients[path])
	ip := client.Addr().String()
	lastSrv := map[string]string{}
	var obs []string
	serve := func(proto string, raw []byte) vkResult {
		p := path
		if p == vkPathInline && proto != "udp" {
			p = vkPathStrict // the inline pass exists on the datagram reader only
		}
		return w.serve(p, proto, client, raw)
	}
	for i, st := range hist {
		r := serve(st.Proto, vkLimQuery(uint16(0x5100+i), st.Kind, lastSrv))
		o := "silent"
		if len(r.replies) > 1 {
			o = fmt.Sprintf("%d-replies", len(r.replies))
		} else if len(r.replies) == 1 {
			m := new(dns.Msg)
			if err := m.Unpack(r.replies[0]); err != nil {
				o = "undecodable"
			} else {
				o = "rcode=" + dns.RcodeToString[m.Rcode]
				if m.Rcode == dns.RcodeBadCookie {
					o = "rcode=BADCOOKIE"
				}
				if opt := m.IsEdns0(); opt != nil {
					for _, op := range opt.Option {
						if ck, ok := op.(*dns.EDNS0_COOKIE); ok {
							half := ck.Cookie
							if len(half) > 16 {
								half = half[:16]
							}
							valid := ck.Cookie == dnsutil.GenerateServerCookie(w.cfg.CookieSecret, ip, half)
							o += fmt.Sprintf(" cookie(client=%s server-valid=%v)", half, valid)
							if valid {
								lastSrv[half] = ck.Cookie
							}
						}
					}
				}
			}
		}
		if r.up > 0 {
			o += " +resolution"
		}
		obs = append(obs, o)
	}
	// tail: plain datagram probes count the tokens the bucket still holds
	left := 0
	for i := 0; i < vkLimRate+1; i++ {
		if r := serve("udp", vkLimQuery(uint16(0x5200+i), "noopt", nil)); len(r.replies) == 1 {
			left++
		}
	}
	obs = append(obs, fmt.Sprintf("probes-admitted=%d", left))
	return obs
}

func vkLimRun(hist []vkLimStep) (string, string) {
	w := vkNewSrvWorld(vkSrvCfg{Name: "client-ratelimit", RateLimit: vkLimRate, Cookie: true})
	defer w.close()
	vkSeedWorld(w)
	ref := vkLimPlay(w, vkPathDecoded, hist)
	for _, p := range vkLimPaths[1:] {
		got := vkLimPlay(w, p, hist)
		for i := range ref {
			if got[i] != ref[i] {
				what := fmt.Sprintf("step %d", i)
				if i == len(ref)-1 {
					what = "the tail of plain probes"
				} else {
					what += " (" + hist[i].String() + ")"
				}
				return fmt.Sprintf("path %s and the decoded path disagree at %s: %s has [%s], decoded has [%s]; full: %v vs %v", p, what, p, got[i], ref[i], got, ref), strings.Join(ref, " | ")
			}
		}
	}
	return "", strings.Join(ref, " | ")
}

func TestVerifC05Limiter(t *testing.T) {
	c := vkit.Init("C05/limiter")
	defer c.Close()
	if c.Replay != nil {
		var r struct {
			Hist []vkLimStep `json:"hist"`
		}
		if json.Unmarshal(c.Replay, &r) != nil {
			c.HarnessError("bad replay")
			return
		}
		if v, _ := vkLimRun(r.Hist); v != "" {
			c.Violation("limiter:replay", v, r)
		}
		return
	}
	var steps []vkLimStep
	for _, proto := range []string{"udp", "tcp"} {
		for _, k := range []string{"noopt", "opt", "A", "B", "A+srv", "B+srv", "A+bad"} {
			steps = append(steps, vkLimStep{proto, k})
		}
	}
	depth := 3
	var hists [][]vkLimStep
	var rec func(cur []vkLimStep)
	rec = func(cur []vkLimStep) {
		if len(cur) > 0 {
			hists = append(hists, append([]vkLimStep{}, cur...))
		}
		if len(cur) == depth {
			return
		}
		for _, s := range steps {
			rec(append(cur, s))
		}
	}
	rec(nil)
	// histories ending in a query with two cookie options (every shorter history in front of it)
	base := append([][]vkLimStep{nil}, hists...)
	for _, h := range base {
		if len(h) >= depth {
			continue
		}
		for _, proto := range []string{"udp", "tcp"} {
			for _, k := range []string{"A+srv|B", "B|A+srv", "A|B"} {
				hists = append(hists, append(append([]vkLimStep{}, h...), vkLimStep{proto, k}))
			}
		}
	}
	if c.Thorough() {
		// depth 4 over the cookie-bearing steps only
		var core []vkLimStep
		for _, s := range steps {
			if s.Kind != "noopt" && s.Kind != "opt" {
				core = append(core, s)
			}
		}
		var rec4 func(cur []vkLimStep)
		rec4 = func(cur []vkLimStep) {
			if len(cur) == 4 {
				hists = append(hists, append([]vkLimStep{}, cur...))
				return
			}
			for _, s := range core {
				rec4(append(cur, s))
			}
		}
		rec4(nil)
	}
	for i, h := range hists {
		if !c.Mine(i) {
			continue
		}
		if c.OverBudget() {
			c.Cap("time budget")
			break
		}
		v, out := vkLimRun(h)
		c.Add("evaluations", 1)
		c.Outcome(out[strings.LastIndex(out, "|")+1:])
		if strings.Contains(out, "BADCOOKIE") || strings.Contains(out, "silent") {
			c.DistinctStr("nontrivial", out)
		}
		if i%401 == 0 {
			c.Sample(map[string]any{"hist": fmt.Sprint(h), "decoded": out})
		}
		if v != "" {
			if v2, _ := vkLimRun(h); v2 == "" {
				c.Add("dropped_unreproducible", 1)
				continue
			}
			key := "limiter:" + v[:strings.Index(v, " and the decoded")] + ":a step's reply"
			if strings.Contains(v, "tail of plain probes") {
				key = "limiter:" + v[:strings.Index(v, " and the decoded")] + ":tokens left"
			}
			c.Violation(key, fmt.Sprintf("after %v: %s", h, v), map[string]any{"hist": h})
			if c.NumViolations() > 6 {
				break
			}
		}
	}
	_ = hex.EncodeToString
}
