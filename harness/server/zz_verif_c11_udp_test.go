//go:build verif && linux && (amd64 || arm64)

package server

// C11/udp and C10/udp — the real UDP engine driven step by step from ONE
// goroutine over REAL loopback sockets.
//
// No reader or worker goroutine runs. The harness calls the engine's own step
// functions in every order the job ownership state machine allows:
//
//	R.arm      reader cycle start: take() slabs up to the admission cap and
//	           udpBatchReader.arm() them
//	R.recv(k)  the harness plays the kernel for recvmmsg: it fills the armed
//	           iovec/sockaddr/length of the next k pending datagrams exactly as
//	           the kernel would (payload into job.rx, sockaddr_in of the real
//	           client socket, msg_len), nothing else
//	R.shed(k)  no slab could be armed (cap reached): the next k datagrams are
//	           consumed and dropped (udpBatchReader.shed's effect)
//	R.finish   the real udpBatchReader.finishRecv for the next message of the
//	           batch (-> real serveInline, or enqueue)
//	R.flush    end of the reader cycle: the real flushTX of the reader's burst,
//	           then the unfilled slots are re-armed at the front
//	W.serve    worker step: pop e.ready, the real udpEngine.serve on the worker burst
//	W.flush    the real flushTX of the worker burst; enabled exactly when the
//	           real worker loop would flush (ready queue empty)
//
// Sends are real (sendmmsg / WriteMsgUDPAddrPort on the engine socket). After
// every step the harness sends a sentinel datagram from the engine socket to
// every client socket and reads each client up to its sentinel, so "nothing
// was sent" is observed without any timeout (loopback preserves order per
// socket pair).
//
// Not driven: the portable one-datagram reader (udpEngine.reader), the real
// worker()/run() loop bodies (their step order is what the harness
// enumerates), overflow goroutines (the queue is never full), wildcard
// pktinfo.

import (
	"bytes"
	"encoding/binary"
	"encoding/json"
	"fmt"
	"net"
	"net/netip"
	"strings"
	"testing"
	"time"

	"github.com/miekg/dns"
	"github.com/semihalev/sdns/internal/verifshim/vkit"
	"github.com/semihalev/sdns/middleware"
	"golang.org/x/sys/unix"
)

// ringOnly hides the server's inline contract so that every query takes the ring.
type vkRingOnly struct{ s *Server }

func (r vkRingOnly) ServeRaw(w middleware.Transport, raw []byte, t time.Time) bool {
	return r.s.ServeRaw(w, raw, t)
}

type vkUDPClient struct {
	tag  string
	sock *net.UDPConn
	addr netip.AddrPort
	got  [][]byte
}

type vkUDPNet struct {
	pc      *net.UDPConn
	clients []*vkUDPClient
	seq     uint32
}

func vkNewUDPNet(tags []string) (*vkUDPNet, error) {
	pc, err := net.ListenUDP("udp4", &net.UDPAddr{IP: net.IPv4(127, 0, 0, 1)})
	if err != nil {
		return nil, err
	}
	n := &vkUDPNet{pc: pc}
	for _, t := range tags {
		s, err := net.ListenUDP("udp4", &net.UDPAddr{IP: net.IPv4(127, 0, 0, 1)})
		if err != nil {
			return nil, err
		}
		n.clients = append(n.clients, &vkUDPClient{tag: t, sock: s, addr: s.LocalAddr().(*net.UDPAddr).AddrPort()})
	}
	return n, nil
}

// observe delivers a sentinel to every client and drains each up to it.
func (n *vkUDPNet) observe() string {
	n.seq++
	var sentinel [16]byte
	copy(sentinel[:], "VK-SENTINEL-")
	binary.BigEndian.PutUint32(sentinel[12:], n.seq)
	for _, cl := range n.clients {
		if _, err := n.pc.WriteToUDPAddrPort(sentinel[:], cl.addr); err != nil {
			return "sentinel send failed: " + err.Error()
		}
	}
	buf := make([]byte, 8192)
	for _, cl := range n.clients {
		for {
			_ = cl.sock.SetReadDeadline(time.Now().Add(30 * time.Second))
			k, _, err := cl.sock.ReadFromUDPAddrPort(buf)
			if err != nil {
				return "client " + cl.tag + " did not receive its sentinel within 30s: " + err.Error()
			}
			if k == 16 && bytes.Equal(buf[:12], sentinel[:12]) {
				if binary.BigEndian.Uint32(buf[12:16]) == n.seq {
					break
				}
				continue // an older sentinel cannot exist, but be lenient
			}
			cl.got = append(cl.got, append([]byte{}, buf[:k]...))
		}
	}
	return ""
}

// ---- one datagram of the scenario

type vkDgram struct {
	Kind   string `json:"k"` // hit miss malf qr notify panic
	Client int    `json:"c"`
	// Bad: the datagram claims a class-E source address (240.0.0.1), so the kernel refuses every
	// send to it (EINVAL) — a send fault in the middle of a batch. (A source PORT of 0, the earlier trigger, is dropped at ingress since /repo 447d345.) The other clients' replies must
	// still go out exactly once and nothing may leak.
	Bad bool `json:"bad,omitempty"`
}

type vkUDPCase struct {
	Dgrams []vkDgram `json:"dgrams"`
	Cap    int       `json:"cap"`
	Inline bool      `json:"inline"`
	Sched  []int     `json:"sched"`
}

func (c vkUDPCase) String() string {
	var s []string
	for _, d := range c.Dgrams {
		bad := ""
		if d.Bad {
			bad = "!classE"
		}
		s = append(s, fmt.Sprintf("%s@%d%s", d.Kind, d.Client, bad))
	}
	return fmt.Sprintf("[%s] cap=%d inline=%v sched=%v", strings.Join(s, " "), c.Cap, c.Inline, c.Sched)
}

type vkUDPRun struct {
	w      *vkSrvWorld
	net    *vkUDPNet
	e      *udpEngine
	r      *udpBatchReader
	wb     udpTXBurst
	frames []vkFrame
	dg     []vkDgram
	status []string // "", "admitted", "shed"
	next   int      // next pending datagram
	held   int      // armed slots
	armed  bool     // R.arm done for this cycle
	batch  int      // messages in the current batch
	fin    int      // messages of the batch already finished
	slot   []int    // datagram index armed into batch slot i
	trace  []string
	npts   []int // number of options at every choice point
}

var vkUDPTags = []string{vkTagA, vkTagB, "cccccccc"}

func (u *vkUDPRun) options() []string {
	var o []string
	switch {
	case u.batch > 0 && u.fin < u.batch:
		o = append(o, "R.finish")
	case u.batch > 0:
		o = append(o, "R.flush")
	case !u.armed:
		o = append(o, "R.arm")
	case u.next < len(u.dg):
		lim := len(u.dg) - u.next
		kind := "R.shed"
		if u.held > 0 {
			kind = "R.recv"
			if u.held < lim {
				lim = u.held
			}
		}
		for k := 1; k <= lim; k++ {
			o = append(o, fmt.Sprintf("%s%d", kind, k))
		}
	}
	if len(u.e.ready) > 0 {
		o = append(o, "W.serve")
	} else if u.wb.n > 0 {
		o = append(o, "W.flush")
	}
	return o
}

func (u *vkUDPRun) step(op string) string {
	e, r := u.e, u.r
	switch {
	case op == "R.arm":
		for u.held < udpBatchSize {
			j := e.take(r.idx)
			if j == nil {
				break
			}
			j.transition(udpJobFree, udpJobReading)
			r.arm(j, u.held)
			u.held++
		}
		u.armed = true
	case strings.HasPrefix(op, "R.shed"):
		k := int(op[6] - '0')
		for i := 0; i < k; i++ {
			u.status[u.next] = "shed"
			u.next++
		}
		u.armed = false // shed() returns to the top of the cycle
	case strings.HasPrefix(op, "R.recv"):
		k := int(op[6] - '0')
		u.slot = u.slot[:0]
		for i := 0; i < k; i++ {
			d := u.next
			u.next++
			u.status[d] = "admitted"
			u.slot = append(u.slot, d)
			// ---- the kernel's part of recvmmsg, nothing more
			j := r.jobs[i]
			payload := u.frames[d].Raw
			copy(j.rx[:], payload)
			h := &r.hdrs[i]
			h.dlen = uint32(len(payload))
			h.hdr.Flags = 0
			sa := r.names[i][:]
			for x := range sa {
				sa[x] = 0
			}
			ap := u.net.clients[u.dg[d].Client].addr
			binary.NativeEndian.PutUint16(sa[0:2], unix.AF_INET)
			binary.BigEndian.PutUint16(sa[2:4], ap.Port())
			a4 := ap.Addr().As4()
			if u.dg[d].Bad {
				a4 = [4]byte{240, 0, 0, 1}
			}
			copy(sa[4:8], a4[:])
			h.hdr.Namelen = unix.SizeofSockaddrInet4
		}
		u.batch, u.fin = k, 0
	case op == "R.finish":
		r.finishRecv(u.fin, time.Now())
		u.fin++
	case op == "R.flush":
		if r.txBurst.n > 0 {
			e.flushTX(&r.txBurst)
		}
		m := 0
		for i := u.batch; i < u.held; i++ {
			r.arm(r.jobs[i], m)
			m++
		}
		u.held = m
		u.batch, u.fin = 0, 0
		u.armed = false
	case op == "W.serve":
		j := <-e.ready
		e.serve(j, &u.wb)
		if u.wb.full() {
			e.flushTX(&u.wb)
		}
	case op == "W.flush":
		e.flushTX(&u.wb)
	default:
		return "unknown step " + op
	}
	return ""
}

// judge checks what every client has received so far. final demands that
// every admitted query has been answered.
func (u *vkUDPRun) judge(final bool) string {
	for ci, cl := range u.net.clients {
		answered := map[int]int{}
		for _, g := range cl.got {
			where := fmt.Sprintf("client %s received a datagram (%d bytes, id %#04x)", cl.tag, len(g), vkID(g))
			for oi, other := range u.net.clients {
				if oi != ci && bytes.Contains(g, []byte(other.tag)) {
					return fmt.Sprintf("%s that contains client %s's bytes", where, other.tag)
				}
			}
			if len(g) < 12 {
				return where + " shorter than a DNS header"
			}
			// which of this client's datagrams does it answer?
			match := -1
			for d := range u.dg {
				if u.dg[d].Client == ci && u.frames[d].ID == vkID(g) {
					match = d
				}
			}
			if match < 0 {
				return where + " that answers none of its queries (another client's reply, or a leftover)"
			}
			f := u.frames[match]
			if u.status[match] != "admitted" {
				return fmt.Sprintf("%s for its %s query that was never admitted (%s)", where, f.Kind, u.status[match])
			}
			if f.Expect == "none" {
				return fmt.Sprintf("%s in reply to a QR=1 packet that must be ignored", where)
			}
			answered[match]++
			if answered[match] > 1 {
				return fmt.Sprintf("%s: second reply to its %s query", where, f.Kind)
			}
			ff := f
			if ff.Expect == "panic" {
				ff.Expect = "answer"
			}
			framed := make([]byte, 2+len(g))
			binary.BigEndian.PutUint16(framed, uint16(len(g)))
			copy(framed[2:], g)
			if v := vkJudgeStream(cl.tag, []vkFrame{ff}, framed, nil); v != "" {
				return v
			}
		}
		if final {
			for d := range u.dg {
				f := u.frames[d]
				if u.dg[d].Client != ci || u.status[d] != "admitted" || f.Expect == "none" || f.Expect == "panic" || u.dg[d].Bad {
					continue // (a reply to the refused destination cannot be delivered)
				}
				if answered[d] != 1 {
					return fmt.Sprintf("client %s: admitted %s query (id %#04x) received %d replies", cl.tag, f.Kind, f.ID, answered[d])
				}
			}
		}
	}
	return ""
}

func vkID(b []byte) uint16 {
	if len(b) < 2 {
		return 0
	}
	return binary.BigEndian.Uint16(b)
}

// vkRunUDPCase executes one schedule (choices beyond Sched default to 0).
func vkRunUDPCase(w *vkSrvWorld, net_ *vkUDPNet, tc vkUDPCase) (viol, herr, outcome string, npts []int) {
	var handler rawHandler = w.srv
	if !tc.Inline {
		handler = vkRingOnly{w.srv}
	}
	e := newUDPEngine(handler, []*net.UDPConn{net_.pc}, false, 1, 64, resourcePlan{})
	if e.txConns == nil || e.txConns[net_.pc] == nil {
		return "", "engine has no raw send handle for the socket", "", nil
	}
	e.slabCap = int64(tc.Cap)
	u := &vkUDPRun{w: w, net: net_, e: e, dg: tc.Dgrams, status: make([]string, len(tc.Dgrams))}
	u.r = newUDPBatchReader(e, 0, net_.pc, e.txConns[net_.pc])
	u.wb.slot = 0
	for _, cl := range net_.clients {
		cl.got = nil
	}
	for i, d := range tc.Dgrams {
		u.frames = append(u.frames, vkMakeFrame(d.Kind, vkUDPTags[d.Client], i))
	}
	defer w.purge(u.frames)
	for pt := 0; ; pt++ {
		opts := u.options()
		if len(opts) == 0 {
			break
		}
		ch := 0
		if pt < len(tc.Sched) {
			ch = tc.Sched[pt]
		}
		if ch >= len(opts) {
			return "", fmt.Sprintf("schedule choice %d at point %d out of range (%v)", ch, pt, opts), "", nil
		}
		u.npts = append(u.npts, len(opts))
		u.trace = append(u.trace, opts[ch])
		if pt > 200 {
			return "", "schedule does not terminate: " + strings.Join(u.trace, " "), "", nil
		}
		var pmsg string
		func() {
			defer func() {
				if x := recover(); x != nil {
					pmsg = fmt.Sprint(x)
				}
			}()
			if h := u.step(opts[ch]); h != "" {
				herr = h
			}
		}()
		if herr != "" {
			return "", herr, "", nil
		}
		if pmsg != "" {
			return fmt.Sprintf("engine panicked at step %s: %s [%s]", opts[ch], pmsg, strings.Join(u.trace, " ")), "", "panic", u.npts
		}
		// only the flush steps can put datagrams on the wire; anything sent
		// elsewhere is still seen (and judged) at the next observation
		if strings.HasSuffix(opts[ch], "flush") {
			if h := net_.observe(); h != "" {
				return "", h, "", nil
			}
			if v := u.judge(false); v != "" {
				return fmt.Sprintf("%s [after %s]", v, strings.Join(u.trace, " ")), "", "violation", u.npts
			}
		}
	}
	if h := net_.observe(); h != "" {
		return "", h, "", nil
	}
	if v := u.judge(true); v != "" {
		return fmt.Sprintf("%s [%s]", v, strings.Join(u.trace, " ")), "", "violation", u.npts
	}
	// the reader still holds its armed, unfilled slabs: that is its idle state
	if n := e.inFlight.Load(); n != 0 {
		return fmt.Sprintf("inFlight=%d after every datagram was served and sent (server never reads as quiescent) [%s]", n, strings.Join(u.trace, " ")), "", "violation", u.npts
	}
	if n := e.leased.Load(); n != int64(u.held) {
		return fmt.Sprintf("%d slabs leased while the reader holds %d [%s]", n, u.held, strings.Join(u.trace, " ")), "", "violation", u.npts
	}
	for i := 0; i < u.held; i++ {
		u.r.jobs[i].release(udpJobReading)
	}
	if n := e.leased.Load(); n != 0 {
		return fmt.Sprintf("%d slabs still leased after the reader released its holdover", n), "", "violation", u.npts
	}
	live := 0
	for i := range e.cache.shards {
		for _, j := range e.cache.shards[i].idle {
			live++
			if j.state != udpJobFree || j.burst != nil {
				return fmt.Sprintf("an idle slab is not free: state=%d burst=%v", j.state, j.burst != nil), "", "violation", u.npts
			}
		}
	}
	if live > tc.Cap {
		return fmt.Sprintf("%d slabs exist for an admission cap of %d", live, tc.Cap), "", "violation", u.npts
	}
	nshed, nrep := 0, 0
	for _, s := range u.status {
		if s == "shed" {
			nshed++
		}
	}
	for _, cl := range net_.clients {
		nrep += len(cl.got)
	}
	return "", "", fmt.Sprintf("replies=%d shed=%d slabs=%d", nrep, nshed, live), u.npts
}

func (w *vkSrvWorld) warmUDP(n *vkUDPNet) string {
	for ci := range n.clients {
		tc := vkUDPCase{Dgrams: []vkDgram{{Kind: "miss", Client: ci}}, Cap: 2, Inline: true}
		// a miss whose name is the client's hit name
		e := newUDPEngine(w.srv, []*net.UDPConn{n.pc}, false, 1, 64, resourcePlan{})
		e.slabCap = 2
		f := vkMakeFrame("miss", vkUDPTags[ci], 0)
		f.Name = fmt.Sprintf("hit.%s.c10.test.", vkUDPTags[ci])
		f.Raw = vkQueryBytes(f.Name, 0x7700|uint16(ci), 0)
		j := e.take(0)
		j.transition(udpJobFree, udpJobReading)
		j.rxLen = copy(j.rx[:], f.Raw)
		j.readTime = time.Now()
		j.setRemote(n.clients[ci].addr)
		j.pc = n.pc
		e.enqueue(j)
		e.serve(<-e.ready, nil)
		_ = tc
		if h := n.observe(); h != "" {
			return h
		}
		if len(n.clients[ci].got) != 1 || n.clients[ci].got[0][3]&0xf != 0 {
			return fmt.Sprintf("UDP warm-up for %s not answered", f.Name)
		}
		n.clients[ci].got = nil
	}
	return ""
}

func vkUDPExplore(c *vkit.Ctx, unit string, minClients int) {
	nClients := 2
	caps := []int{1, 2}
	kinds := []string{"hit", "miss", "malf", "qr", "notify", "panic", "eager"}
	core := []string{"hit", "miss", "qr", "malf"}
	if c.Thorough() {
		nClients = 3
		caps = []int{1, 2, 3}
	}
	newWorld := func() (*vkSrvWorld, *vkUDPNet, string) {
		w := vkNewSrvWorld()
		n, err := vkNewUDPNet(vkUDPTags[:nClients])
		if err != nil {
			return nil, nil, "cannot open loopback sockets: " + err.Error()
		}
		return w, n, w.warmUDP(n)
	}
	if c.Replay != nil {
		var tc vkUDPCase
		if err := json.Unmarshal(c.Replay, &tc); err != nil {
			c.HarnessError("bad replay: " + err.Error())
			return
		}
		w, n, h := newWorld()
		if h != "" {
			c.HarnessError(h)
			return
		}
		v, h, _, _ := vkRunUDPCase(w, n, tc)
		if h != "" {
			c.HarnessError(h)
		} else if v != "" {
			c.Violation(unit+":"+tc.String(), v, nil)
		}
		return
	}
	w, n, h := newWorld()
	if h != "" {
		c.HarnessError(h)
		return
	}
	// datagram sequences: shortest first
	var seqs [][]vkDgram
	var rec func(cur []vkDgram, depth int)
	rec = func(cur []vkDgram, depth int) {
		if len(cur) == depth {
			used := map[int]bool{}
			maxc := -1
			for _, d := range cur {
				used[d.Client] = true
				if d.Client > maxc+1 {
					return // clients are symmetric: first use in index order
				}
				if d.Client > maxc {
					maxc = d.Client
				}
			}
			if len(used) >= minClients || len(cur) < minClients {
				seqs = append(seqs, append([]vkDgram{}, cur...))
			}
			return
		}
		for _, k := range kinds {
			for cl := 0; cl < nClients; cl++ {
				rec(append(cur, vkDgram{Kind: k, Client: cl}), depth)
			}
		}
	}
	rec(nil, 1)
	rec(nil, 2)
	all := kinds
	if c.Thorough() {
		rec(nil, 3)
		kinds = core
		rec(nil, 4)
	} else {
		kinds = core
		rec(nil, 3)
	}
	kinds = all
	// refused-destination family: one datagram of a 2-3 datagram burst came from an address the kernel refuses to send to
	{
		var base [][]vkDgram
		seqs, base = base, seqs
		kinds = []string{"hit", "miss"}
		rec(nil, 2)
		rec(nil, 3)
		kinds = all
		seqs, base = base, seqs
		for _, b := range base {
			for pos := range b {
				d := append([]vkDgram{}, b...)
				d[pos].Bad = true
				seqs = append(seqs, d)
			}
		}
	}
	// per-request EDNS state of a reused slab: cookie-carrying and cookie-less EDNS queries of
	// different clients through the same slabs
	kinds = []string{"ckhit", "edhit"}
	rec(nil, 2)
	rec(nil, 3)
	kinds = all
	stop := false
	for si, dg := range seqs {
		if !c.Mine(si) || stop {
			continue
		}
		if c.OverBudget() {
			c.Cap("time budget reached")
			break
		}
		for _, cp := range caps {
			for _, inline := range []bool{true, false} {
				// odometer over the schedule tree
				var sched []int
				nsched := 0
				for {
					tc := vkUDPCase{Dgrams: dg, Cap: cp, Inline: inline, Sched: sched}
					v, h, out, npts := vkRunUDPCase(w, n, tc)
					if h != "" {
						c.HarnessError(tc.String() + ": " + h)
						return
					}
					nsched++
					c.Add("evaluations", 1)
					c.Add("traces", 1)
					c.Add("transitions", int64(len(npts)))
					c.Outcome(out)
					full := make([]int, len(npts))
					copy(full, sched)
					key := fmt.Sprintf("%v|%d|%v|%v", dg, cp, inline, full)
					c.DistinctStr("states", key)
					if len(dg) >= 2 {
						c.DistinctStr("nontrivial", key)
					}
					if v != "" {
						tc.Sched = full
						w2, n2, h2 := newWorld()
						if h2 != "" {
							c.HarnessError(h2)
							return
						}
						v2, _, _, _ := vkRunUDPCase(w2, n2, tc)
						n2.close()
						if v2 == "" {
							c.HarnessError(fmt.Sprintf("%s: violation did not reproduce on a fresh world: %s", tc, v))
							return
						}
						c.Violation(unit+":"+tc.String(), v2, tc)
						n.close()
						if w, n, h = newWorld(); h != "" {
							c.HarnessError(h)
							return
						}
						if c.NumViolations() >= 8 {
							stop = true
						}
						break
					}
					// next schedule
					i := len(full) - 1
					for i >= 0 && full[i]+1 >= npts[i] {
						i--
					}
					if i < 0 {
						break
					}
					sched = append(append([]int{}, full[:i]...), full[i]+1)
				}
				if si%53 == 0 {
					c.Sample(map[string]any{"datagrams": vkUDPCase{Dgrams: dg}.String(), "cap": cp, "inline": inline, "schedules": nsched})
				}
			}
		}
	}
	n.close()
}

func (n *vkUDPNet) close() {
	_ = n.pc.Close()
	for _, cl := range n.clients {
		_ = cl.sock.Close()
	}
}

func TestVerifC11UDP(t *testing.T) {
	c := vkit.Init("C11/udp")
	defer c.Close()
	vkUDPExplore(c, "udp", 1)
}

var _ = dns.TypeTXT
