//go:build verif

package server

// C06/edesize — the UDP size clause at its boundary for replies that carry
// an Extended DNS Error: cached EDE-bearing answers of EVERY body size in a
// window below and across each negotiated limit (512 and 1232), asked with
// the matching advertised sizes (with and without cookie / NSID, DO on/off)
// through every UDP entry path. Every byte the writer adds on top of the
// stored body (OPT, EDE, cookie, NSID) counts against the client's buffer.

import (
	"fmt"
	"net/netip"
	"strings"
	"testing"

	"github.com/miekg/dns"
	"github.com/semihalev/sdns/internal/verifshim/vkit"
)

func vkEDESizeName(i int) string { return fmt.Sprintf("es%04d.t.", i) }

// vkEDESizeSeed installs and admits one EDE-bearing TXT answer per text length in lens.
func vkEDESizeSeed(w *vkSrvWorld, lens []int) {
	for _, l := range lens {
		l := l
		name := vkEDESizeName(l)
		w.up.script[name] = func(req *dns.Msg) *dns.Msg {
			m := vkReplyTo(req)
			if req.Question[0].Qtype != dns.TypeTXT {
				m.Truncated = true
				return m
			}
			var txt []string
			for rest := l; rest > 0; rest -= 255 {
				n := rest
				if n > 255 {
					n = 255
				}
				txt = append(txt, strings.Repeat("x", n))
			}
			m.Answer = []dns.RR{&dns.TXT{Hdr: dns.RR_Header{Name: req.Question[0].Name, Rrtype: dns.TypeTXT, Class: dns.ClassINET, Ttl: 300}, Txt: txt}}
			opt := &dns.OPT{Hdr: dns.RR_Header{Name: ".", Rrtype: dns.TypeOPT}}
			opt.SetUDPSize(1232)
			opt.Option = []dns.EDNS0{&dns.EDNS0_EDE{InfoCode: dns.ExtendedErrorCodeStaleAnswer, ExtraText: "vk stale answer"}}
			m.Extra = []dns.RR{opt}
			return m
		}
		p := vkBasePkt(name, dns.TypeTXT)
		p.OPT, p.DO, p.Size = true, true, 4096
		w.serve(vkPathDecoded, "tcp", netip.MustParseAddrPort("198.51.100.7:5300"), p.build())
	}
}

func TestVerifC06EDESize(t *testing.T) {
	c := vkit.Init("C06/edesize")
	defer c.Close()
	var lens []int
	for l := 380; l <= 490; l++ { // replies from ~70 bytes below 512 to just above it
		lens = append(lens, l)
	}
	for l := 1095; l <= 1210; l++ { // the same around 1232
		lens = append(lens, l)
	}
	type variant struct {
		size uint16
		opts []string
		do   bool
	}
	variants := []variant{{512, nil, false}, {512, nil, true}, {512, []string{"cookie8"}, false}, {512, []string{"nsid"}, false}, {512, []string{"cookie8", "nsid"}, true},
		{1232, nil, false}, {1232, []string{"cookie8", "nsid"}, true}, {600, nil, false}, {0, nil, false}}
	n := 0
	for _, cfg := range vkSrvConfigs(c.Thorough())[:2] {
		n++
		if !c.Mine(n) {
			continue
		}
		w := vkNewSrvWorld(cfg)
		vkSeedWorld(w)
		vkEDESizeSeed(w, lens)
		for _, l := range lens {
			if c.OverBudget() {
				c.Cap("time budget")
				break
			}
			for _, v := range variants {
				p := vkBasePkt(vkEDESizeName(l), dns.TypeTXT)
				if v.size > 0 {
					p.OPT, p.Size, p.DO, p.Options = true, v.size, v.do, v.opts
				}
				cs := vkSrvCase{Cfg: cfg, Proto: "udp", Pkt: p, Client: vkSrvClient}
				v1, out := vkC06Judge(w, cs)
				c.Add("evaluations", 1)
				c.Outcome(out)
				c.DistinctStr("nontrivial", cs.key())
				if l%37 == 0 && v.size == 512 && v.opts == nil {
					c.Sample(map[string]any{"case": cs.key(), "outcome": out})
				}
				if v1 != "" {
					w2 := vkNewSrvWorld(cfg)
					vkSeedWorld(w2)
					vkEDESizeSeed(w2, []int{l})
					_, _ = vkC06Judge(w2, cs)
					v2, _ := vkC06Judge(w2, cs)
					w2.close()
					if v2 == "" {
						c.Add("dropped_unreproducible", 1)
						continue
					}
					c.Violation(fmt.Sprintf("c06:edesize:%s @size=%d/opts=%s", strings.SplitN(v2, ":", 2)[0], v.size, strings.Join(v.opts, "+")), v2+"\n    case: "+cs.key(), cs)
					if c.NumViolations() > 6 {
						w.close()
						return
					}
				}
			}
		}
		w.close()
	}
}
