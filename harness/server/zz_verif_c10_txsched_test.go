//go:build verif && linux && (amd64 || arm64)

package server

// C10/txsched — concurrent SENDERS of the real UDP engine under the controlled
// scheduler (lib/sched): every interleaving, up to a preemption bound, of the
// goroutines that put replies on the wire — overflow serves, pool workers and
// a batch reader's inline cycle — over REAL loopback sockets.
//
// The engine is compiled with sync -> vsync and sync/atomic -> vatomic (every
// lock and atomic of package server is a scheduling point) and with one
// verif-only scheduling point, sched.IOPoint, placed by an overlay patch
// immediately before each send (rc.Write(s.writeFn) = sendmmsg in sendGroup,
// WriteMsgUDPAddrPort in udpJob.Write / sendDirect). A thread parked there has
// armed everything its send will read; the explorer decides who runs next.
//
// What is real and what is replicated:
//   - jobs are produced by the engine's own reader steps in a first, sequential
//     reader cycle (take -> arm -> the harness plays the kernel's part of
//     recvmmsg exactly as C11/udp does -> real finishRecv -> real serveInline /
//     enqueue); the ready queue is deep enough to take them all;
//   - an OVERFLOW serve is what enqueueCounted starts when the queue is full:
//     `e.overflowG.Add(1); go e.serveOverflow(j)`. The `go` statement cannot be
//     intercepted, so the harness takes the job off the queue again and runs
//     exactly those two calls as a managed thread (the Add at thread start);
//   - a WORKER thread is the real e.worker(slot) body on the ready queue holding
//     its jobs, already closed (the shutdown shape: the loop never blocks);
//   - a READER thread is a second reader cycle on the reader's own burst slot:
//     take/arm up to the cap, kernel part, real finishRecv (inline serve) per
//     message, real flushTX of the reader burst, survivors re-armed.
//
// Oracle (at quiescence, content only): the per-datagram judgement of C10/udp —
// every client socket received exactly one reply per admitted query of its
// own (ID, question, marker), no byte of another client's label, nothing else —
// plus the engine end state (inFlight 0, leases home, barriers drained).

import (
	"bytes"
	"encoding/binary"
	"encoding/json"
	"fmt"
	"net"
	"os"
	"runtime"
	"strings"
	"sync/atomic"
	"testing"
	"time"

	"github.com/miekg/dns"
	"github.com/semihalev/sdns/internal/verifshim/sched"
	"github.com/semihalev/sdns/internal/verifshim/vkit"
	"golang.org/x/sys/unix"
)

type vkTXDgram struct {
	Kind   string `json:"k"`
	Client int    `json:"c"`
	// To: "ovf" = served by its own overflow goroutine; "queue" = waits in the
	// ready queue for the worker threads; "reader" = arrives in the reader
	// thread's cycle (inline engines only).
	To string `json:"to"`
}

type vkTXScenario struct {
	Name    string      `json:"name"`
	Inline  bool        `json:"inline"`
	Dgrams  []vkTXDgram `json:"dgrams"`
	Workers int         `json:"workers"`
	Reader  bool        `json:"reader"`
	Spare   int         `json:"spare"` // idle slabs beyond one per datagram
}

func (s vkTXScenario) String() string {
	var d []string
	for _, g := range s.Dgrams {
		d = append(d, fmt.Sprintf("%s@%d>%s", g.Kind, g.Client, g.To))
	}
	return fmt.Sprintf("[%s] workers=%d reader=%v inline=%v spare=%d", strings.Join(d, " "), s.Workers, s.Reader, s.Inline, s.Spare)
}

// vkTXWorld is shared by the executions of one exploration: the server world
// (pipeline + cache) and the sockets. The engine is built fresh per execution.
type vkTXWorld struct {
	w     *vkSrvWorld
	net   *vkUDPNet
	dirty bool // the previous execution did not reach its check: client sockets may hold datagrams

	// per-execution
	ioEvents []vkTXIOEvent
	execs    *atomic.Int64
}

type vkTXIOEvent struct {
	thread  string
	kind    string
	resumed bool
}

func vkNewTXWorld() (*vkTXWorld, string) {
	w := vkNewSrvWorld()
	n, err := vkNewUDPNet(vkUDPTags)
	if err != nil {
		return nil, "cannot open loopback sockets: " + err.Error()
	}
	if h := w.warmUDP(n); h != "" {
		return nil, h
	}
	return &vkTXWorld{w: w, net: n, execs: new(atomic.Int64)}, ""
}

// vkTXKernelFill is the kernel's part of recvmmsg for batch slot i (as in C11/udp).
func vkTXKernelFill(r *udpBatchReader, i int, payload []byte, from *vkUDPClient) {
	j := r.jobs[i]
	copy(j.rx[:], payload)
	h := &r.hdrs[i]
	h.dlen = uint32(len(payload))
	h.hdr.Flags = 0
	sa := r.names[i][:]
	for x := range sa {
		sa[x] = 0
	}
	binary.NativeEndian.PutUint16(sa[0:2], unix.AF_INET)
	binary.BigEndian.PutUint16(sa[2:4], from.addr.Port())
	a4 := from.addr.Addr().As4()
	copy(sa[4:8], a4[:])
	h.hdr.Namelen = unix.SizeofSockaddrInet4
}

// vkTXObservation is everything the check looked at, rendered: equal strings = equal observations.
type vkTXResult struct {
	obs      string
	ioOrder  string
	overlaps int // I/O windows of two different threads that overlapped
}

func vkTXScenarioFn(tw *vkTXWorld, sc vkTXScenario, out *vkTXResult) sched.Scenario {
	return func(r *sched.Run) func() (string, string) {
		tw.execs.Add(1)
		fail := func(msg string) func() (string, string) {
			// a broken set-up must never look like a verdict: no threads, and the
			// check reports it under a label the driver turns into a harness error
			return func() (string, string) { return "HARNESS: " + msg, "harness" }
		}
		n := tw.net
		if tw.dirty {
			if h := n.observe(); h != "" {
				return fail(h)
			}
		}
		for _, cl := range n.clients {
			cl.got = nil
		}
		tw.dirty = true
		tw.ioEvents = tw.ioEvents[:0]

		var handler rawHandler = tw.w.srv
		if !sc.Inline {
			handler = vkRingOnly{tw.w.srv}
		}
		workers := sc.Workers
		if workers < 1 {
			workers = 1
		}
		e := newUDPEngine(handler, []*net.UDPConn{n.pc}, false, workers, 64, resourcePlan{})
		if e.txConns == nil || e.txConns[n.pc] == nil {
			return fail("engine has no raw send handle for the socket")
		}
		if sc.Inline != (e.inline != nil) {
			return fail("engine inline mode does not match the scenario")
		}
		cp := len(sc.Dgrams) + sc.Spare
		e.slabCap = int64(cp)
		// a mature engine: its slabs exist and sit idle in the reader's shard
		{
			var js []*udpJob
			for i := 0; i < cp; i++ {
				j := e.take(0)
				if j == nil {
					return fail("cannot take a slab below the cap")
				}
				j.transition(udpJobFree, udpJobReading)
				js = append(js, j)
			}
			for _, j := range js {
				j.release(udpJobReading)
			}
		}
		rd := newUDPBatchReader(e, 0, n.pc, e.txConns[n.pc])

		u := &vkUDPRun{w: tw.w, net: n, e: e, r: rd, status: make([]string, len(sc.Dgrams))}
		for i, d := range sc.Dgrams {
			u.dg = append(u.dg, vkDgram{Kind: d.Kind, Client: d.Client})
			u.frames = append(u.frames, vkTXFrame(d.Kind, vkUDPTags[d.Client], i))
		}
		tw.w.purge(u.frames)

		// ---- first reader cycle (sequential): the datagrams that go to the ring
		var first, second []int
		for i, d := range sc.Dgrams {
			if d.To == "reader" {
				second = append(second, i)
			} else {
				first = append(first, i)
			}
		}
		for slot, d := range first {
			j := e.take(rd.idx)
			if j == nil {
				return fail("first reader cycle: no slab")
			}
			j.transition(udpJobFree, udpJobReading)
			rd.arm(j, slot)
			vkTXKernelFill(rd, slot, u.frames[d].Raw, n.clients[sc.Dgrams[d].Client])
			u.status[d] = "admitted"
		}
		now := time.Now()
		for slot := range first {
			rd.finishRecv(slot, now)
		}
		if rd.txBurst.n != 0 {
			return fail("first reader cycle staged a reply inline: a datagram routed to the ring was served by the reader")
		}
		if len(e.ready) != len(first) {
			return fail(fmt.Sprintf("first reader cycle queued %d of %d jobs", len(e.ready), len(first)))
		}
		var ovf []*udpJob
		var ovfIdx []int
		var queued []*udpJob
		for _, d := range first {
			j := <-e.ready
			if sc.Inline && !j.replay {
				return fail("an inline engine queued a job that is not a replay")
			}
			if sc.Dgrams[d].To == "ovf" {
				ovf = append(ovf, j)
				ovfIdx = append(ovfIdx, d)
			} else {
				queued = append(queued, j)
			}
		}
		for _, j := range queued {
			e.ready <- j
		}
		if sc.Workers > 0 {
			close(e.ready) // the worker loop then never blocks: it drains and returns
		} else if len(queued) > 0 {
			return fail("queued datagrams without worker threads")
		}

		if os.Getenv("VERIF_DEBUG") != "" {
			// where does every scheduling point come from?
			r.Monitor = func() string {
				pc := make([]uintptr, 12)
				fr := runtime.CallersFrames(pc[:runtime.Callers(3, pc)])
				var at []string
				for {
					f, more := fr.Next()
					if !strings.Contains(f.Function, "verifshim") {
						at = append(at, fmt.Sprintf("%s:%d", f.Function[strings.LastIndex(f.Function, "/")+1:], f.Line))
					}
					if !more || len(at) >= 4 {
						break
					}
				}
				fmt.Fprintf(os.Stderr, "  point %-10s %s\n", r.Current().Name, strings.Join(at, " < "))
				return ""
			}
		}

		// ---- threads
		for k, j := range ovf {
			j := j
			r.Go(fmt.Sprintf("ovf%d", ovfIdx[k]), func() {
				e.overflowG.Add(1) // enqueueCounted: e.overflowG.Add(1); go e.serveOverflow(j)
				e.serveOverflow(j)
			})
		}
		for s := 0; s < sc.Workers; s++ {
			s := s
			r.Go(fmt.Sprintf("worker%d", s), func() {
				e.workerG.Add(1) // start(): e.workerG.Add(1); go e.worker(i)
				e.worker(s)
			})
		}
		held := 0
		if sc.Reader {
			r.Go("reader", func() {
				pending := second
				for len(pending) > 0 {
					for held < udpBatchSize {
						j := e.take(rd.idx)
						if j == nil {
							break
						}
						j.transition(udpJobFree, udpJobReading)
						rd.arm(j, held)
						held++
					}
					if held == 0 {
						// shed(): the whole pending batch is consumed into scratch and dropped
						for _, d := range pending {
							u.status[d] = "shed"
						}
						return
					}
					k := held
					if k > len(pending) {
						k = len(pending)
					}
					for i := 0; i < k; i++ {
						d := pending[i]
						vkTXKernelFill(rd, i, u.frames[d].Raw, n.clients[sc.Dgrams[d].Client])
						u.status[d] = "admitted"
					}
					pending = pending[k:]
					at := time.Now()
					for i := 0; i < k; i++ {
						rd.finishRecv(i, at)
					}
					if rd.txBurst.n > 0 {
						e.flushTX(&rd.txBurst)
					}
					m := 0
					for i := k; i < held; i++ {
						rd.arm(rd.jobs[i], m)
						m++
					}
					held = m
				}
			})
		}

		return func() (string, string) {
			res := vkTXResult{}
			defer func() {
				if out != nil {
					*out = res
				}
			}()
			if h := n.observe(); h != "" {
				return "HARNESS: " + h, "harness"
			}
			tw.dirty = false
			// what the wire showed
			var ob []string
			for _, cl := range n.clients {
				var g []string
				for _, p := range cl.got {
					g = append(g, fmt.Sprintf("%04x/%d/%d", vkID(p), len(p), vkRcodeOf(p)))
				}
				ob = append(ob, cl.tag[:1]+":"+strings.Join(g, ","))
			}
			// which sends overlapped
			parked := map[string]bool{}
			var order []string
			for _, ev := range tw.ioEvents {
				if !ev.resumed {
					if len(parked) > 0 {
						res.overlaps++
					}
					parked[ev.thread] = true
				} else {
					delete(parked, ev.thread)
					order = append(order, ev.thread+"."+ev.kind)
				}
			}
			res.ioOrder = strings.Join(order, ">")
			nshed := 0
			for _, s := range u.status {
				if s == "shed" {
					nshed++
				}
			}
			live := 0
			verdict := func() string {
				if v := u.judge(true); v != "" {
					return v
				}
				if x := e.inFlight.Load(); x != 0 {
					return fmt.Sprintf("inFlight=%d after every thread finished (the engine never reads as quiescent)", x)
				}
				if x := e.leased.Load(); x != int64(held) {
					return fmt.Sprintf("%d slabs leased while the reader holds %d", x, held)
				}
				for i := 0; i < held; i++ {
					rd.jobs[i].release(udpJobReading)
				}
				if x := e.leased.Load(); x != 0 {
					return fmt.Sprintf("%d slabs still leased after the reader released its holdover", x)
				}
				if x := e.overflowG.ModelCount(); x != 0 {
					return fmt.Sprintf("overflow barrier counts %d after every overflow serve returned", x)
				}
				if x := e.workerG.ModelCount(); x != 0 {
					return fmt.Sprintf("worker barrier counts %d after every worker returned", x)
				}
				seen := map[*udpJob]bool{}
				for i := range e.cache.shards {
					for _, j := range e.cache.shards[i].idle {
						live++
						if seen[j] {
							return "a slab is parked twice in the idle cache"
						}
						seen[j] = true
						if j.state != udpJobFree || j.burst != nil || j.txLen != 0 {
							return fmt.Sprintf("an idle slab is not clean: state=%d burst=%v txLen=%d", j.state, j.burst != nil, j.txLen)
						}
					}
				}
				if live != cp {
					return fmt.Sprintf("%d slabs parked for %d that exist (admission cap %d)", live, cp, cp)
				}
				for si := range e.txSenders {
					for k, j := range e.txSenders[si].jobs {
						if j != nil {
							return fmt.Sprintf("send slot %d still references a job at index %d after its burst was released", si, k)
						}
					}
				}
				return ""
			}()
			res.obs = strings.Join(ob, " ") + fmt.Sprintf(" shed=%d", nshed)
			tw.w.purge(u.frames)
			outcome := fmt.Sprintf("%s | wire-order %s", res.obs, res.ioOrder)
			if verdict != "" {
				res.obs += " !! " + verdict
			}
			return verdict, outcome
		}
	}
}

// vkTXFrame adds one kind to the shared alphabet: "status" is a query with opcode STATUS, which the
// engine rejects at header level (rejectInPlace, a bare 12-byte NOTIMP) — on a worker, an overflow
// serve and an inline reader pass alike.
func vkTXFrame(kind, tag string, pos int) vkFrame {
	if kind != "status" {
		return vkMakeFrame(kind, tag, pos)
	}
	f := vkMakeFrame("notify", tag, pos)
	f.Kind = "status"
	f.Raw[2] = (f.Raw[2] &^ 0x78) | byte(dns.OpcodeStatus<<3)
	return f
}

func vkRcodeOf(p []byte) int {
	if len(p) < 4 {
		return -1
	}
	return int(p[3] & 0xf)
}

// ---- scenario list (simplest first)

func vkTXScenarios(thorough bool) []vkTXScenario {
	ring := []string{"hit", "miss", "status"}
	inl := []string{"hit", "status"} // kinds an inline pass finishes on the reader (a miss or a bad body is handed off)
	ring3 := ring // alphabet of the three-datagram families
	if thorough {
		ring = []string{"hit", "miss", "status", "edhit", "malf", "qr"}
		ring3 = []string{"hit", "miss", "status", "malf"}
		inl = []string{"hit", "status", "edhit", "qr"}
	}
	var out []vkTXScenario
	add := func(s vkTXScenario) {
		s.Name = fmt.Sprintf("tx-%d", len(out))
		out = append(out, s)
	}
	// every assignment of kinds to the given routes; datagram i comes from client i%3
	combos := func(routes []string, kinds [][]string, f func(d []vkTXDgram)) {
		var rec func(cur []vkTXDgram)
		rec = func(cur []vkTXDgram) {
			if len(cur) == len(routes) {
				f(append([]vkTXDgram{}, cur...))
				return
			}
			for _, k := range kinds[len(cur)] {
				rec(append(cur, vkTXDgram{Kind: k, Client: len(cur) % 3, To: routes[len(cur)]}))
			}
		}
		rec(nil)
	}
	rep := func(k []string, n int) [][]string {
		var o [][]string
		for i := 0; i < n; i++ {
			o = append(o, k)
		}
		return o
	}
	miss := []string{"miss"}
	// ring-only engine
	combos([]string{"ovf", "ovf"}, rep(ring, 2), func(d []vkTXDgram) { add(vkTXScenario{Dgrams: d}) })
	combos([]string{"queue", "ovf"}, rep(ring, 2), func(d []vkTXDgram) { add(vkTXScenario{Dgrams: d, Workers: 1}) })
	combos([]string{"queue", "queue"}, rep(ring, 2), func(d []vkTXDgram) { add(vkTXScenario{Dgrams: d, Workers: 2}) })
	// inline engine: what reaches the ring is a handed-off miss (replay)
	combos([]string{"ovf", "ovf"}, rep(miss, 2), func(d []vkTXDgram) { add(vkTXScenario{Dgrams: d, Inline: true}) })
	for _, spare := range []int{0, 1} {
		combos([]string{"reader", "ovf"}, [][]string{inl, miss}, func(d []vkTXDgram) {
			add(vkTXScenario{Dgrams: d, Inline: true, Reader: true, Spare: spare})
		})
		combos([]string{"reader", "queue"}, [][]string{inl, miss}, func(d []vkTXDgram) {
			add(vkTXScenario{Dgrams: d, Inline: true, Reader: true, Workers: 1, Spare: spare})
		})
	}
	// three datagrams
	combos([]string{"ovf", "ovf", "ovf"}, rep(ring3, 3), func(d []vkTXDgram) { add(vkTXScenario{Dgrams: d}) })
	combos([]string{"queue", "queue", "ovf"}, rep(ring3, 3), func(d []vkTXDgram) { add(vkTXScenario{Dgrams: d, Workers: 1}) })
	combos([]string{"queue", "queue", "queue"}, rep(ring3, 3), func(d []vkTXDgram) { add(vkTXScenario{Dgrams: d, Workers: 2}) })
	for _, spare := range []int{0, 1} {
		combos([]string{"reader", "reader", "ovf"}, [][]string{inl, inl, miss}, func(d []vkTXDgram) {
			add(vkTXScenario{Dgrams: d, Inline: true, Reader: true, Spare: spare})
		})
		combos([]string{"reader", "queue", "ovf"}, [][]string{inl, miss, miss}, func(d []vkTXDgram) {
			add(vkTXScenario{Dgrams: d, Inline: true, Reader: true, Workers: 1, Spare: spare})
		})
	}
	if thorough {
		combos([]string{"queue", "queue", "ovf", "ovf"}, rep([]string{"hit", "miss", "status"}, 4), func(d []vkTXDgram) {
			add(vkTXScenario{Dgrams: d, Workers: 2})
		})
	}
	return out
}

// ---- driver

type vkTXReplay struct {
	Scenario vkTXScenario `json:"scenario"`
	Choices  []int        `json:"choices"`
}

func vkTXInstallHook(tw *vkTXWorld) {
	sched.IOHook = func(r *sched.Run, t *sched.Thread, kind string, resumed bool) {
		tw.ioEvents = append(tw.ioEvents, vkTXIOEvent{thread: t.Name, kind: kind, resumed: resumed})
	}
}

// vkTXFresh runs one schedule on a brand-new world.
func vkTXFresh(sc vkTXScenario, choices []int, horizon int) (viol, obs, herr string, trace []string) {
	tw, h := vkNewTXWorld()
	if h != "" {
		return "", "", h, nil
	}
	defer tw.net.close()
	vkTXInstallHook(tw)
	var res vkTXResult
	run, v, _ := sched.RunOnce(sched.Config{Name: sc.Name, Horizon: horizon, KeepTrace: true}, vkTXScenarioFn(tw, sc, &res), choices)
	if run.Diverged != "" {
		return "", "", "schedule diverged on a fresh world: " + run.Diverged, nil
	}
	if strings.HasPrefix(v, "HARNESS: ") {
		return "", "", v, nil
	}
	if res.obs == "" {
		res.obs = "aborted: " + v
	}
	return v, res.obs, "", run.Trace
}

func vkTXKey(sc vkTXScenario, msg string) string {
	return "txsched:" + sc.String() + ":" + vkTXFirst(msg)
}

func vkTXFirst(s string) string {
	if i := strings.IndexAny(s, "\n"); i > 0 {
		s = s[:i]
	}
	if len(s) > 160 {
		s = s[:160]
	}
	return s
}

func TestVerifC10TxSched(t *testing.T) {
	c := vkit.Init("C10/txsched")
	defer c.Close()
	const horizon = 4000
	if c.Replay != nil {
		var rp vkTXReplay
		if err := json.Unmarshal(c.Replay, &rp); err != nil {
			c.HarnessError("bad replay: " + err.Error())
			return
		}
		v, _, h, trace := vkTXFresh(rp.Scenario, rp.Choices, horizon)
		if h != "" {
			c.HarnessError(h)
		} else if v != "" {
			c.Violation(vkTXKey(rp.Scenario, v), v+"\n  trace: "+strings.Join(trace, " "), nil)
		}
		return
	}
	bound := 2
	if c.Thorough() {
		bound = 3
	}
	tw, h := vkNewTXWorld()
	if h != "" {
		c.HarnessError(h)
		return
	}
	defer func() { tw.net.close() }()
	vkTXInstallHook(tw)

	// a managed thread that blocks on something the scheduler does not own would hang the
	// process: turn that into a loud machinery error
	stopWatch := make(chan struct{})
	defer close(stopWatch)
	execs := tw.execs
	go func() {
		last, idle := int64(-1), 0
		for {
			select {
			case <-stopWatch:
				return
			case <-time.After(5 * time.Second):
			}
			if x := execs.Load(); x != last {
				last, idle = x, 0
				continue
			}
			if idle++; idle >= 12 {
				buf := make([]byte, 1<<20)
				buf = buf[:runtime.Stack(buf, true)]
				fmt.Fprintf(os.Stderr, "%s\n", buf)
				c.HarnessError("no execution finished for 60 s: a managed thread is blocked outside the scheduler (goroutine dump on stderr)")
				c.Close()
				os.Exit(2)
			}
		}
	}()

	scs := vkTXScenarios(c.Thorough())
	for i, sc := range scs {
		if !c.Mine(i) {
			continue
		}
		if c.OverBudget() {
			c.Cap(fmt.Sprintf("time budget reached before scenario %d of %d", i, len(scs)))
			break
		}
		var res vkTXResult
		nontrivial := 0
		scen := vkTXScenarioFn(tw, sc, &res)
		counting := func(r *sched.Run) func() (string, string) {
			check := scen(r)
			return func() (string, string) {
				v, o := check()
				if res.overlaps > 0 {
					nontrivial++
					c.DistinctStr("nontrivial", sc.String()+"|"+sched.FormatSchedule(r.Choices))
				}
				return v, o
			}
		}
		er := sched.Explore(sched.Config{Name: sc.Name, Bound: bound, Horizon: horizon, Stop: c.OverBudget}, counting)
		if er.HarnessErr != "" {
			c.HarnessError(sc.String() + ": " + er.HarnessErr)
			return
		}
		c.Add("evaluations", int64(er.Executions))
		c.Add("traces", int64(er.Executions))
		c.Add("transitions", int64(er.Points))
		c.Add("scenarios", 1)
		c.Add("overlapping_send_schedules", int64(nontrivial))
		c.Max("max_points", int64(er.MaxPoints))
		if !er.Exhaustive {
			c.Cap("time budget reached inside a scenario")
		}
		if _, bad := er.Outcomes["harness"]; bad {
			for _, v := range er.Violations {
				if strings.HasPrefix(v.Message, "HARNESS: ") {
					c.HarnessError(sc.String() + ": " + v.Message)
					return
				}
			}
			c.HarnessError(sc.String() + ": set-up failed")
			return
		}
		for o := range er.Outcomes {
			c.Outcome(o)
			c.DistinctStr("states", sc.String()+"|"+o)
		}
		if i%7 == 0 {
			c.Sample(map[string]any{"scenario": sc.String(), "schedules": er.Executions, "overlapping_send_schedules": nontrivial,
				"max_points_per_execution": er.MaxPoints, "distinct_outcomes": len(er.Outcomes), "preemption_bound": bound})
		}
		for _, v := range er.Violations {
			// (Explore already re-ran it once from its own schedule.) Same world, twice: identical observations.
			var o1, o2 vkTXResult
			_, v1, _ := sched.RunOnce(sched.Config{Name: sc.Name, Horizon: horizon}, vkTXScenarioFn(tw, sc, &o1), v.Choices)
			_, v2, _ := sched.RunOnce(sched.Config{Name: sc.Name, Horizon: horizon}, vkTXScenarioFn(tw, sc, &o2), v.Choices)
			if v1 == "" || v2 == "" || o1.obs != o2.obs {
				c.HarnessError(fmt.Sprintf("%s schedule=%v: not deterministic on replay: %q / %q (first: %s)", sc, v.Choices, o1.obs+v1, o2.obs+v2, v.Message))
				return
			}
			// fresh world, 3 of 3
			msg := ""
			for k := 0; k < 3; k++ {
				fv, fo, fh, _ := vkTXFresh(sc, v.Choices, horizon)
				if fh != "" {
					c.HarnessError(fh)
					return
				}
				if fv == "" {
					c.HarnessError(fmt.Sprintf("%s schedule=%v: violation did not reproduce on fresh world %d/3: %s", sc, v.Choices, k+1, v.Message))
					return
				}
				if k == 0 {
					msg = fv + " {" + fo + "}"
				}
			}
			vkTXInstallHook(tw)
			c.Violation(vkTXKey(sc, v.Message), fmt.Sprintf("%s\n  scenario %s\n  schedule=%v\n  trace: %s", msg, sc, v.Choices, strings.Join(v.Trace, " ")),
				vkTXReplay{Scenario: sc, Choices: v.Choices})
			break
		}
		if c.NumViolations() >= 6 {
			break
		}
	}
}

var _ = bytes.Equal
