//go:build verif

package server

// C11/acquire — the TCP engine's slab admission under contention: every order
// of the events around a connection waiting for an admission token
// {the holder returns its token, the waiter's deadline passes BY THE CLOCK
// (its timer has not fired yet), the waiter's timer fires, the engine closes}
// on the real tcpEngine.acquire / put, for both size classes. Afterwards every
// leased slab is returned and the engine must read as quiescent: every token
// home ("no held slabs or leaked limiter slots"). The package's time is the
// virtual clock (Now shifts, timers stay real), which separates "the clock is
// past the deadline" from "the timer has fired" deterministically.

import (
	"bytes"
	"encoding/json"
	"fmt"
	"net"
	"runtime"
	"strings"
	"testing"
	stdtime "time"

	"github.com/semihalev/sdns/internal/verifshim/vkit"
	"github.com/semihalev/sdns/internal/verifshim/vtime"
)

type vkAcqConn struct{ wr bytes.Buffer }

func (c *vkAcqConn) Read([]byte) (int, error)            { return 0, fmt.Errorf("vk: no read") }
func (c *vkAcqConn) Write(b []byte) (int, error)         { return c.wr.Write(b) }
func (c *vkAcqConn) Close() error                        { return nil }
func (c *vkAcqConn) LocalAddr() net.Addr                 { return &net.TCPAddr{IP: net.IPv4(127, 0, 0, 1), Port: 53} }
func (c *vkAcqConn) RemoteAddr() net.Addr                { return &net.TCPAddr{IP: net.IPv4(198, 51, 100, 7), Port: 4000} }
func (c *vkAcqConn) SetDeadline(stdtime.Time) error      { return nil }
func (c *vkAcqConn) SetReadDeadline(stdtime.Time) error  { return nil }
func (c *vkAcqConn) SetWriteDeadline(stdtime.Time) error { return nil }

type vkAcqCase struct {
	Large  bool     `json:"large"`
	Staged bool     `json:"staged"` // the waiter has a reply staged when it starts waiting
	Events []string `json:"events"` // tok, clk, tmr, close
}

func (c vkAcqCase) String() string {
	return fmt.Sprintf("large=%v staged=%v %v", c.Large, c.Staged, c.Events)
}

// vkAcqParked reports whether some goroutine is parked in the select of tcpEngine.acquire.
func vkAcqParked() bool {
	buf := make([]byte, 1<<20)
	n := runtime.Stack(buf, true)
	for _, g := range strings.Split(string(buf[:n]), "\n\n") {
		if strings.Contains(g, "(*tcpEngine).acquire") && strings.Contains(strings.SplitN(g, "\n", 2)[0], "[select") {
			return true
		}
	}
	return false
}

func vkAcqRun(cs vkAcqCase) (viol, herr, outcome string) {
	vtime.SetOffset(0)
	defer vtime.SetOffset(0)
	e := newTCPEngine(nil, "tcp", 1, resourcePlan{tcpLargeJobs: 1})
	length := 100
	if cs.Large {
		length = tcpSmallFrame + 100
	}
	hold := &tcpStream{}
	hold.reset(&vkAcqConn{})
	ja := e.acquire(hold, vtime.Now().Add(stdtime.Hour), length)
	if ja == nil {
		return "", "the holder could not take the only token of an idle engine", ""
	}
	ws := &tcpStream{}
	ws.reset(&vkAcqConn{})
	if cs.Staged {
		if err := ws.stage([]byte("0123456789ab")); err != nil {
			return "", "stage failed: " + err.Error(), ""
		}
	}
	usesTimer := false
	for _, ev := range cs.Events {
		if ev == "tmr" {
			usesTimer = true
		}
	}
	budget := stdtime.Hour
	if usesTimer {
		budget = 60 * stdtime.Millisecond // the real timer is the event
	}
	deadline := vtime.Now().Add(budget)
	done := make(chan *tcpJob, 1)
	go func() { done <- e.acquire(ws, deadline, length) }()
	safety := stdtime.Now().Add(30 * stdtime.Second)
	for !vkAcqParked() {
		select {
		case j := <-done:
			done <- j
			return "", "the waiter returned before any event although the only token is held", ""
		default:
		}
		if stdtime.Now().After(safety) {
			return "", "the waiter never parked in acquire", ""
		}
		runtime.Gosched()
	}
	var got *tcpJob
	returned, holderBack := false, false
	timerFired, closed := false, false
	await := func() bool {
		select {
		case got = <-done:
			returned = true
			return true
		case <-stdtime.After(30 * stdtime.Second):
			return false
		}
	}
	for _, ev := range cs.Events {
		if returned {
			break
		}
		switch ev {
		case "tok":
			e.put(ja)
			holderBack = true
			if !await() {
				return "wedged: a token came home but the waiting connection never left acquire", "", "wedged"
			}
		case "clk":
			vtime.Advance(2 * stdtime.Hour) // the clock is past the deadline; the (real) timer has not fired
		case "tmr":
			timerFired = true
			if !await() {
				return "wedged: the waiter's budget ran out but it never left acquire", "", "wedged"
			}
		case "close":
			close(e.closing)
			closed = true
			if !await() {
				return "wedged: the engine closed but the waiter never left acquire", "", "wedged"
			}
		}
	}
	if !returned {
		// nothing in this order releases the waiter: release it and require it to come back
		if !holderBack {
			e.put(ja)
			holderBack = true
		}
		if !await() {
			return "wedged: the waiter never returned", "", "wedged"
		}
	}
	outcome = "slab"
	if got == nil {
		outcome = "refused"
		if !timerFired && !closed {
			// (a refusal needs the budget to have run out or the engine to close)
			clk := false
			for _, ev := range cs.Events {
				clk = clk || ev == "clk"
			}
			if !clk {
				return "the waiter was refused although its budget had not run out and the engine was open", "", outcome
			}
		}
	} else {
		e.put(got)
	}
	if !holderBack {
		e.put(ja)
	}
	if !e.quiesced() {
		return fmt.Sprintf("after every slab was returned the engine is not quiescent: small tokens %d/%d, large tokens %d/%d (an admission token leaked; waiter outcome: %s)",
			len(e.smallTokens), cap(e.smallTokens), len(e.largeTokens), cap(e.largeTokens), outcome), "", outcome
	}
	return "", "", outcome
}

func TestVerifC11Acquire(t *testing.T) {
	c := vkit.Init("C11/acquire")
	defer c.Close()
	if c.Replay != nil {
		var cs vkAcqCase
		if json.Unmarshal(c.Replay, &cs) != nil {
			c.HarnessError("bad replay")
			return
		}
		v, h, _ := vkAcqRun(cs)
		if h != "" {
			c.HarnessError(h)
		} else if v != "" {
			c.Violation("acquire:"+cs.String(), v, cs)
		}
		return
	}
	orders := [][]string{{"tok"}, {"clk", "tok"}, {"tmr", "tok"}, {"close", "tok"}, {"clk", "close", "tok"}, {"clk", "clk", "tok"}, {"tmr", "close"}, {"tok", "close"}}
	n := 0
	for _, large := range []bool{false, true} {
		for _, staged := range []bool{false, true} {
			for _, ord := range orders {
				n++
				if !c.Mine(n) {
					continue
				}
				cs := vkAcqCase{Large: large, Staged: staged, Events: ord}
				v, h, out := vkAcqRun(cs)
				if h != "" {
					c.HarnessError(cs.String() + ": " + h)
					return
				}
				c.Add("evaluations", 1)
				c.Add("traces", 1)
				c.Add("transitions", int64(len(ord)))
				c.Outcome(out)
				c.DistinctStr("states", cs.String()+"|"+out)
				if len(ord) > 1 {
					c.DistinctStr("nontrivial", cs.String())
				}
				c.Sample(map[string]any{"case": cs.String(), "outcome": out})
				if v != "" {
					v2, _, _ := vkAcqRun(cs)
					if v2 == "" {
						c.Add("dropped_unreproducible", 1)
						continue
					}
					c.Violation("acquire:"+strings.Join(ord, ",")+fmt.Sprintf("|large=%v", large), v2+" — "+cs.String(), cs)
				}
			}
		}
	}
}
