//go:build verif

package server

// Shared world for the server-engine units of C11 and C10: a real Server
// (built in-package, no listeners) whose pipeline is the real
// [edns, cache, marker-stub] chain, behind the real tcpEngine. Connections
// are scripted in-memory net.Conns whose Read blocks on a harness gate and
// announces "parked", so quiescence is exact and no oracle uses time.

import (
	"bytes"
	"context"
	"encoding/binary"
	"fmt"
	"io"
	"net"
	"os"
	"strings"
	"sync"
	"time"

	"github.com/miekg/dns"
	"github.com/semihalev/sdns/config"
	"github.com/semihalev/sdns/internal/verifshim/vsync"
	"github.com/semihalev/sdns/middleware"
	"github.com/semihalev/sdns/middleware/cache"
	"github.com/semihalev/sdns/middleware/edns"
	"github.com/semihalev/zlog/v2"
)

func init() {
	logger := zlog.NewStructured()
	logger.SetLevel(zlog.LevelFatal)
	zlog.SetDefault(logger)
	// every sync.Pool of the rewritten packages hands out the object released last
	vsync.PoolLIFO = true
}

// vkSlowFor: how long the stub takes for names starting with "slow" — longer than tcpQueryWait / tcpWriteWait (2 s).
const vkSlowFor = 3 * time.Second

const vkDeadlineSlack = 500 * time.Millisecond

// ---- marker stub: the "upstream"

type vkMStub struct {
	mu    sync.Mutex
	calls int
}

func (s *vkMStub) Name() string { return "vkmstub" }

func vkMarker(name string, id uint16) string {
	return fmt.Sprintf("vk|%s|%04x", strings.ToLower(name), id)
}

func (s *vkMStub) ServeDNS(ctx context.Context, ch *middleware.Chain) {
	req := ch.Request.Msg()
	s.mu.Lock()
	s.calls++
	s.mu.Unlock()
	if req == nil || len(req.Question) != 1 {
		ch.Cancel()
		return
	}
	q := req.Question[0]
	if strings.HasPrefix(q.Name, "slow") {
		time.Sleep(vkSlowFor) // a resolution that outlasts the connection's per-frame and write allowances
	}
	m := new(dns.Msg)
	m.SetReply(req)
	m.RecursionAvailable = true
	m.Answer = []dns.RR{&dns.TXT{Hdr: dns.RR_Header{Name: q.Name, Rrtype: dns.TypeTXT, Class: q.Qclass, Ttl: 3600},
		Txt: []string{vkMarker(q.Name, req.Id)}}}
	if strings.HasPrefix(q.Name, "huge") {
		// a reply beyond 8 KiB (what the stream stages at once): 45 filler records behind the marker
		for i := 0; i < 45; i++ {
			m.Answer = append(m.Answer, &dns.TXT{Hdr: dns.RR_Header{Name: q.Name, Rrtype: dns.TypeTXT, Class: q.Qclass, Ttl: 3600},
				Txt: []string{strings.Repeat(string(rune('a'+i%26)), 200)}})
		}
	}
	_ = ch.Writer.WriteMsg(m)
	ch.Cancel()
	if strings.HasPrefix(q.Name, "panic") {
		panic("vk: scripted handler panic after the reply was written")
	}
}

func (s *vkMStub) count() int {
	s.mu.Lock()
	defer s.mu.Unlock()
	return s.calls
}

// ---- a handler that answers and still continues the chain (a legal use of
// the handler contract): for names starting with "eager" it writes the
// marker answer and calls Next, so on an inline UDP pass the reply is staged
// AND the cache marks the query for handoff.

type vkEager struct{}

func (vkEager) Name() string { return "vkeager" }

func (vkEager) ServeDNS(ctx context.Context, ch *middleware.Chain) {
	r := ch.Request
	eager := false
	if r.Undecoded() {
		n := r.WireName()
		eager = len(n) > 6 && string(n[1:6]) == "eager"
	} else if m := r.Msg(); m != nil && len(m.Question) == 1 {
		eager = strings.HasPrefix(m.Question[0].Name, "eager")
	}
	if eager {
		if req := r.Msg(); req != nil && len(req.Question) == 1 {
			q := req.Question[0]
			m := new(dns.Msg)
			m.SetReply(req)
			m.RecursionAvailable = true
			m.Answer = []dns.RR{&dns.TXT{Hdr: dns.RR_Header{Name: q.Name, Rrtype: dns.TypeTXT, Class: q.Qclass, Ttl: 3600},
				Txt: []string{vkMarker(q.Name, req.Id)}}}
			_ = ch.Writer.WriteMsg(m)
		}
	}
	ch.Next(ctx)
}

// ---- server world

type vkSrvWorld struct {
	srv   *Server
	cache *cache.Cache
	stub  *vkMStub
	tcp   *tcpEngine
}

func vkSrvConfig() *config.Config {
	cfg := &config.Config{Expire: 600, CacheSize: 4096, Maxdepth: 30, DNSSEC: "on"}
	cfg.Timeout.Duration = 2 * time.Second
	cfg.QueryTimeout.Duration = 30 * time.Second
	return cfg
}

func vkNewSrvWorld() *vkSrvWorld {
	cfg := vkSrvConfig()
	w := &vkSrvWorld{cache: cache.New(cfg), stub: &vkMStub{}}
	hs := []middleware.Handler{edns.New(cfg), vkEager{}, w.cache, w.stub}
	p := middleware.VerifNewPipeline(hs, middleware.RecursionWorkPolicy{})
	w.cache.SetQueryer(middleware.NewPipelineQueryer(p))
	w.srv = &Server{cfg: cfg, pipeline: p, inlineReady: true}
	return w
}

// newTCP builds the real TCP engine with `conns` small slabs and `conns` large slabs.
func (w *vkSrvWorld) newTCP(conns int) {
	w.tcp = newTCPEngine(w.srv, "tcp", conns, resourcePlan{tcpConns: conns, tcpSmallJobs: conns, tcpLargeJobs: conns})
}

// ---- scripted connection

type vkConn struct {
	tag     string
	inbox   chan []byte
	ev      chan string // "parked" | "exit"
	pending []byte
	mu      sync.Mutex
	out     []byte
	writes  int
	closed  bool
	remote  *net.TCPAddr
	// dl: the deadline on the connection (absolute, as on a socket). A write attempted more than vkDeadlineSlack
	// after it fails with an i/o timeout, as a socket's would. Every deadline the engine arms lies 2 s or more
	// ahead, so only a deadline left over from an earlier step of the connection — or a stall of this machine
	// of 2.5 s between arming and writing, twice in a row (violations are re-run in a fresh world) — gets there.
	dl          time.Time
	staleWrites int
}

func vkNewConn(tag string, n int) *vkConn {
	return &vkConn{tag: tag, inbox: make(chan []byte), ev: make(chan string, 8),
		remote: &net.TCPAddr{IP: net.IPv4(198, 51, 100, byte(20+n)), Port: 50000 + n}}
}

func (c *vkConn) Read(p []byte) (int, error) {
	c.mu.Lock()
	closed := c.closed
	c.mu.Unlock()
	if closed {
		return 0, net.ErrClosed
	}
	if len(c.pending) == 0 {
		c.ev <- "parked"
		chunk, ok := <-c.inbox
		if !ok {
			return 0, io.EOF
		}
		c.pending = chunk
	}
	n := copy(p, c.pending)
	c.pending = c.pending[n:]
	return n, nil
}

func (c *vkConn) Write(b []byte) (int, error) {
	c.mu.Lock()
	defer c.mu.Unlock()
	if c.closed {
		// a real socket refuses writes after Close: what the engine writes from then on never reaches the peer
		return 0, net.ErrClosed
	}
	if !c.dl.IsZero() && time.Now().After(c.dl.Add(vkDeadlineSlack)) {
		c.staleWrites++
		return 0, os.ErrDeadlineExceeded
	}
	c.out = append(c.out, b...)
	c.writes++
	return len(b), nil
}

func (c *vkConn) Close() error {
	c.mu.Lock()
	c.closed = true
	c.mu.Unlock()
	return nil
}
func (c *vkConn) LocalAddr() net.Addr               { return &net.TCPAddr{IP: net.IPv4(127, 0, 0, 1), Port: 53} }
func (c *vkConn) RemoteAddr() net.Addr              { return c.remote }
func (c *vkConn) SetDeadline(t time.Time) error     { return c.SetWriteDeadline(t) }
func (c *vkConn) SetReadDeadline(t time.Time) error { return nil }
func (c *vkConn) SetWriteDeadline(t time.Time) error {
	c.mu.Lock()
	c.dl = t
	c.mu.Unlock()
	return nil
}

func (c *vkConn) output() ([]byte, int) {
	c.mu.Lock()
	defer c.mu.Unlock()
	return append([]byte{}, c.out...), c.writes
}

// start registers the conn with the engine and runs the real serveConn; it
// returns once the connection goroutine is parked in its first Read.
func (w *vkSrvWorld) start(c *vkConn) string {
	w.tcp.register(c)
	go func() {
		w.tcp.serveConn(c)
		c.ev <- "exit"
	}()
	ev, herr := c.wait()
	if herr != "" {
		return herr
	}
	if ev != "parked" {
		return "connection goroutine exited before its first Read"
	}
	return ""
}

func (c *vkConn) wait() (string, string) {
	select {
	case ev := <-c.ev:
		return ev, ""
	case <-time.After(30 * time.Second):
		return "", "connection " + c.tag + " neither parked in Read nor exited within 30s (engine blocked on something the harness does not own)"
	}
}

// deliver hands the parked connection its next read and waits until it is
// parked again ("parked") or has left serveConn ("exit").
func (c *vkConn) deliver(chunk []byte) (string, string) {
	c.inbox <- append([]byte{}, chunk...)
	return c.wait()
}

// eof makes the parked Read return io.EOF (peer closed) and waits for exit.
func (c *vkConn) eof() string {
	close(c.inbox)
	for {
		ev, herr := c.wait()
		if herr != "" {
			return herr
		}
		if ev == "exit" {
			return ""
		}
	}
}

// ---- frames

type vkFrame struct {
	Kind   string
	Name   string
	ID     uint16
	Raw    []byte // DNS payload (without the 2-byte length prefix)
	Expect string // answer | formerr | notimp | none | hangup
}

var vkFrameKinds = []string{"hit", "miss", "malf", "qr", "notify", "short", "big2048", "big2049", "big4200", "panic", "eager", "ckhit", "edhit"}

// vkHitKind: the frame asks the client's pre-cached name.
func vkHitKind(k string) bool { return k == "hit" || k == "ckhit" || k == "edhit" || k == "hugehit" }

// vkEDNSQueryBytes is a query with an OPT record and, when cookie is set, an
// EDNS COOKIE option whose 8 client bytes are the given text.
func vkEDNSQueryBytes(name string, id uint16, cookie string) []byte {
	m := new(dns.Msg)
	m.SetQuestion(name, dns.TypeTXT)
	m.Id = id
	opt := &dns.OPT{Hdr: dns.RR_Header{Name: ".", Rrtype: dns.TypeOPT}}
	opt.SetUDPSize(1232)
	if cookie != "" {
		opt.Option = []dns.EDNS0{&dns.EDNS0_COOKIE{Code: dns.EDNS0COOKIE, Cookie: fmt.Sprintf("%x", []byte(cookie)[:8])}}
	}
	m.Extra = []dns.RR{opt}
	b, err := m.Pack()
	if err != nil {
		panic(err)
	}
	return b
}

func vkQueryBytes(name string, id uint16, total int) []byte {
	m := new(dns.Msg)
	m.SetQuestion(name, dns.TypeTXT)
	m.Id = id
	if total > 0 {
		opt := &dns.OPT{Hdr: dns.RR_Header{Name: ".", Rrtype: dns.TypeOPT}}
		opt.SetUDPSize(1232)
		m.Extra = []dns.RR{opt}
		base, err := m.Pack()
		if err != nil {
			panic(err)
		}
		pad := total - len(base) - 4
		if pad < 0 {
			panic("vk: padded size too small")
		}
		opt.Option = []dns.EDNS0{&dns.EDNS0_PADDING{Padding: make([]byte, pad)}}
	}
	b, err := m.Pack()
	if err != nil {
		panic(err)
	}
	if total > 0 && len(b) != total {
		panic(fmt.Sprintf("vk: padded query is %d bytes, want %d", len(b), total))
	}
	return b
}

// vkMakeFrame builds frame `kind` for client tag at sequence position pos.
func vkMakeFrame(kind, tag string, pos int) vkFrame {
	ki := 0
	for i, k := range vkFrameKinds {
		if k == kind {
			ki = i
		}
	}
	id := uint16(tag[0])<<8 | uint16(pos)<<4 | uint16(ki)
	f := vkFrame{Kind: kind, ID: id, Name: fmt.Sprintf("%s%d.%s.c10.test.", kind, pos, tag), Expect: "answer"}
	switch kind {
	case "hit":
		f.Name = fmt.Sprintf("hit.%s.c10.test.", tag)
		f.Raw = vkQueryBytes(f.Name, id, 0)
	case "ckhit":
		// EDNS query carrying a client cookie made of the client's own 8 tag bytes:
		// per-request EDNS state of a reused slab must not reach the next client
		f.Name = fmt.Sprintf("hit.%s.c10.test.", tag)
		f.Raw = vkEDNSQueryBytes(f.Name, id, tag)
	case "edhit":
		f.Name = fmt.Sprintf("hit.%s.c10.test.", tag)
		f.Raw = vkEDNSQueryBytes(f.Name, id, "")
	case "hugehit":
		// a cached ~9.5 KiB answer (warmed by warmHuge): served on the strict path like any hit
		f.Name = fmt.Sprintf("hugehit.%s.c10.test.", tag)
		f.Raw = vkQueryBytes(f.Name, id, 0)
	case "miss", "eager", "slow", "huge":
		f.Raw = vkQueryBytes(f.Name, id, 0)
	case "panic":
		// the handler answers and then panics: the engine drops the connection;
		// the reply may or may not have left (at most once), nothing follows
		f.Raw = vkQueryBytes(f.Name, id, 0)
		f.Expect = "panic"
	case "big2048":
		f.Raw = vkQueryBytes(f.Name, id, 2048)
	case "big2049":
		f.Raw = vkQueryBytes(f.Name, id, 2049)
	case "big4200":
		f.Raw = vkQueryBytes(f.Name, id, 4200)
	case "malf":
		// well-formed header (QD=1), body is a label that runs past the end
		f.Raw = append(vkQueryBytes(f.Name, id, 0)[:12], 63, 'x', 'y', 'z')
		f.Expect = "formerr"
	case "qr":
		f.Raw = vkQueryBytes(f.Name, id, 0)
		f.Raw[2] |= 0x80
		f.Expect = "none"
	case "notify":
		f.Raw = vkQueryBytes(f.Name, id, 0)
		f.Raw[2] = (f.Raw[2] &^ 0x78) | byte(dns.OpcodeNotify<<3)
		f.Expect = "notimp"
	case "short":
		f.Raw = []byte{byte(id >> 8), byte(id), 1, 0, 0}
		f.Expect = "hangup"
	default:
		panic("vk: unknown frame kind " + kind)
	}
	return f
}

func (f vkFrame) framed() []byte {
	b := make([]byte, 2+len(f.Raw))
	binary.BigEndian.PutUint16(b, uint16(len(f.Raw)))
	copy(b[2:], f.Raw)
	return b
}

// warm makes sure the per-client "hit" name is cached, through the engine
// itself on a throw-away connection.
func (w *vkSrvWorld) warm(tags ...string) string {
	for i, tag := range tags {
		f := vkMakeFrame("miss", tag, 0)
		f.Name = fmt.Sprintf("hit.%s.c10.test.", tag)
		f.Raw = vkQueryBytes(f.Name, 0x7700|uint16(i), 0)
		c := vkNewConn("warm", 90+i)
		if h := w.start(c); h != "" {
			return h
		}
		if _, h := c.deliver(f.framed()); h != "" {
			return h
		}
		if h := c.eof(); h != "" {
			return h
		}
		out, _ := c.output()
		if len(out) < 14 || out[5]&0x0f != 0 {
			return fmt.Sprintf("warm-up query for %s was not answered NOERROR (%d bytes)", f.Name, len(out))
		}
	}
	return ""
}

// warmHuge caches the per-client "hugehit" name (~9.5 KiB answer), through the engine itself.
func (w *vkSrvWorld) warmHuge(tags ...string) string {
	for i, tag := range tags {
		name := fmt.Sprintf("hugehit.%s.c10.test.", tag)
		f := vkFrame{Raw: vkQueryBytes(name, 0x7800|uint16(i), 0)}
		c := vkNewConn("warmhuge", 95+i)
		if h := w.start(c); h != "" {
			return h
		}
		if _, h := c.deliver(f.framed()); h != "" {
			return h
		}
		if h := c.eof(); h != "" {
			return h
		}
		out, _ := c.output()
		if len(out) < 8192 || out[5]&0x0f != 0 {
			return fmt.Sprintf("warm-up query for %s was not answered NOERROR with the large answer (%d bytes)", name, len(out))
		}
	}
	return ""
}

// purge removes the run's miss-type names so the next run misses again.
func (w *vkSrvWorld) purge(frames []vkFrame) {
	for _, f := range frames {
		if (f.Expect == "answer" || f.Expect == "panic") && !vkHitKind(f.Kind) {
			w.cache.Purge(dns.Question{Name: f.Name, Qtype: dns.TypeTXT, Qclass: dns.ClassINET})
		}
	}
}

// ---- oracle for one connection

// vkSplitFrames parses a stream-transport output into whole frames.
func vkSplitFrames(out []byte) ([][]byte, string) {
	var frames [][]byte
	for off := 0; off < len(out); {
		if len(out)-off < 2 {
			return frames, fmt.Sprintf("output ends with a dangling byte at offset %d (not a whole length prefix)", off)
		}
		l := int(binary.BigEndian.Uint16(out[off:]))
		if off+2+l > len(out) {
			return frames, fmt.Sprintf("frame at offset %d announces %d bytes but only %d follow", off, l, len(out)-off-2)
		}
		frames = append(frames, out[off+2:off+2+l])
		off += 2 + l
	}
	return frames, ""
}

// vkJudgeStream checks the bytes one connection received against the queries
// that were completely delivered to it (in order). foreign are the byte
// patterns of other clients that must not occur anywhere.
func vkJudgeStream(tag string, complete []vkFrame, out []byte, foreign [][]byte) string {
	return vkJudgeStreamAt(tag, complete, out, foreign, true)
}

// vkJudgeStreamAt with all=false accepts a (whole-frame) prefix of the
// expected replies: used while the connection is parked in the middle of a
// frame body, where the engine deliberately keeps earlier replies staged.
func vkJudgeStreamAt(tag string, complete []vkFrame, out []byte, foreign [][]byte, all bool) string {
	var expect []vkFrame
	optionalLast := false
	for _, f := range complete {
		if f.Expect == "hangup" {
			break
		}
		if f.Expect == "panic" {
			f.Expect = "answer"
			expect = append(expect, f)
			optionalLast = true
			break
		}
		if f.Expect != "none" {
			expect = append(expect, f)
		}
	}
	frames, bad := vkSplitFrames(out)
	if bad != "" {
		return "connection " + tag + ": " + bad
	}
	if optionalLast && len(frames) == len(expect)-1 {
		expect = expect[:len(expect)-1]
	}
	if len(frames) != len(expect) && (all || len(frames) > len(expect)) {
		return fmt.Sprintf("connection %s: %d replies for %d admitted queries (%s)", tag, len(frames), len(expect), vkDescribe(frames))
	}
	for i, f := range expect[:len(frames)] {
		r := frames[i]
		where := fmt.Sprintf("connection %s: reply %d (to %s id %#04x)", tag, i, f.Kind, f.ID)
		if len(r) < 12 {
			return where + ": shorter than a DNS header"
		}
		if id := binary.BigEndian.Uint16(r); id != f.ID {
			return fmt.Sprintf("%s carries ID %#04x (replies out of order or not its own)", where, id)
		}
		for _, pat := range foreign {
			if bytes.Contains(r, pat) {
				return fmt.Sprintf("%s contains another client's bytes %q", where, pat)
			}
		}
		m := new(dns.Msg)
		if err := m.Unpack(r); err != nil {
			return fmt.Sprintf("%s does not parse: %v", where, err)
		}
		if !m.Response {
			return where + " has QR=0"
		}
		if len(r) == 12 && !bytes.Equal(r[4:12], make([]byte, 8)) {
			return fmt.Sprintf("%s is a bare header whose section counts %x announce records it does not carry (stale bytes of an earlier reply)", where, r[4:12])
		}
		switch f.Expect {
		case "formerr":
			if m.Rcode != dns.RcodeFormatError {
				return fmt.Sprintf("%s: rcode %s, want FORMERR", where, dns.RcodeToString[m.Rcode])
			}
		case "notimp":
			if m.Rcode != dns.RcodeNotImplemented {
				return fmt.Sprintf("%s: rcode %s, want NOTIMP", where, dns.RcodeToString[m.Rcode])
			}
		case "answer":
			if m.Rcode != dns.RcodeSuccess || len(m.Question) != 1 || !strings.EqualFold(m.Question[0].Name, f.Name) || m.Question[0].Qtype != dns.TypeTXT {
				return fmt.Sprintf("%s: not an answer to its question: %s", where, strings.ReplaceAll(m.String(), "\n", " | "))
			}
			if f.Kind == "huge" || f.Kind == "hugehit" {
				// the marker plus its 45 filler records, in whatever order the cache hands them out
				if len(m.Answer) != 46 || len(r) < 8192 {
					return fmt.Sprintf("%s: %d answer records in %d bytes, want the marker and its 45 filler records (> 8 KiB)", where, len(m.Answer), len(r))
				}
				for i, rr := range m.Answer {
					if t, ok := rr.(*dns.TXT); ok && len(t.Txt) == 1 && strings.HasPrefix(t.Txt[0], "vk|") {
						m.Answer[0], m.Answer[i] = m.Answer[i], m.Answer[0]
						break
					}
				}
				m.Answer = m.Answer[:1]
			}
			if len(m.Answer) != 1 {
				return fmt.Sprintf("%s: %d answer records, want the 1 marker record", where, len(m.Answer))
			}
			txt, ok := m.Answer[0].(*dns.TXT)
			if !ok || len(txt.Txt) != 1 || !strings.EqualFold(txt.Hdr.Name, f.Name) {
				return fmt.Sprintf("%s: answer is not its marker record: %v", where, m.Answer[0])
			}
			wantPrefix := "vk|" + strings.ToLower(f.Name) + "|"
			if !strings.HasPrefix(txt.Txt[0], wantPrefix) {
				return fmt.Sprintf("%s: marker %q is not for %s", where, txt.Txt[0], f.Name)
			}
			if !vkHitKind(f.Kind) && txt.Txt[0] != vkMarker(f.Name, f.ID) {
				return fmt.Sprintf("%s: marker %q, want %q (another query's answer)", where, txt.Txt[0], vkMarker(f.Name, f.ID))
			}
		}
	}
	return ""
}

func vkDescribe(frames [][]byte) string {
	var s []string
	for _, r := range frames {
		if len(r) >= 4 {
			s = append(s, fmt.Sprintf("id=%#04x rcode=%d len=%d", binary.BigEndian.Uint16(r), r[3]&0xf, len(r)))
		} else {
			s = append(s, fmt.Sprintf("len=%d", len(r)))
		}
	}
	return strings.Join(s, "; ")
}

// vkTCPQuiesced asserts that the engine holds nothing after all connections left.
func (w *vkSrvWorld) tcpQuiesced() string {
	e := w.tcp
	if !e.quiesced() {
		return fmt.Sprintf("admission tokens not home after every connection left: small %d/%d large %d/%d",
			len(e.smallTokens), cap(e.smallTokens), len(e.largeTokens), cap(e.largeTokens))
	}
	if n := e.active.Load(); n != 0 {
		return fmt.Sprintf("engine still counts %d active connections", n)
	}
	e.mu.Lock()
	nc := len(e.conns)
	e.mu.Unlock()
	if nc != 0 {
		return fmt.Sprintf("%d connections still registered", nc)
	}
	for _, cache := range []*slabCache[tcpJob]{&e.smallCache, &e.largeCache} {
		for i := range cache.shards {
			sh := &cache.shards[i]
			sh.mu.Lock()
			for _, j := range sh.idle {
				if j.leased.Load() || j.conn != nil || j.stream != nil {
					sh.mu.Unlock()
					return "an idle slab is still leased or still points at a connection/stream"
				}
			}
			sh.mu.Unlock()
		}
	}
	if live := e.smallCache.size(); live > cap(e.smallTokens) {
		return fmt.Sprintf("%d small slabs exist for %d tokens", live, cap(e.smallTokens))
	}
	return ""
}
