//go:build verif && !linux

package server

import "net/netip"

func vkIngressRemote(j *udpJob, cl netip.AddrPort) bool { j.setRemote(cl); return true }
