//go:build verif

package server

// C05/casesize — path equivalence at the datagram size limit for queries whose name is not
// in the case the answer was stored in (DNS 0x20: forwarders and stub resolvers randomise
// the case of the query name). The two paths encode the same cached answer differently —
// the byte path keeps the stored compression pointers into the question, the message path
// re-packs — so their wire sizes differ; the property lets them differ in compression and
// owner-name case only, NOT in whether the client gets the records or an empty TC=1 reply.
// Enumerated: cached answers with every record count in a window around each limit (512
// without OPT, 1232 with OPT) x query-name spelling {as stored, upper, mixed} x UDP entry
// path; each path's reply is reduced to (rcode, TC, record counts per section).

import (
	"encoding/json"
	"fmt"
	"net/netip"
	"strings"
	"testing"

	"github.com/miekg/dns"
	"github.com/semihalev/sdns/internal/verifshim/vkit"
)

func vkCaseSizeName(n int) string { return fmt.Sprintf("boundary%03d.example.t.", n) }

func vkCaseSizeSeed(w *vkSrvWorld, counts []int) {
	for _, n := range counts {
		n := n
		name := vkCaseSizeName(n)
		w.up.script[name] = func(req *dns.Msg) *dns.Msg {
			m := vkReplyTo(req)
			if req.Question[0].Qtype != dns.TypeA {
				m.Truncated = true
				return m
			}
			for i := 0; i < n; i++ {
				m.Answer = append(m.Answer, &dns.A{Hdr: dns.RR_Header{Name: name, Rrtype: dns.TypeA, Class: dns.ClassINET, Ttl: 300}, A: []byte{10, 7, byte(i / 250), byte(1 + i%250)}})
			}
			return m
		}
		p := vkBasePkt(name, dns.TypeA)
		p.OPT, p.Size = true, 4096
		w.serve(vkPathDecoded, "tcp", netip.MustParseAddrPort("198.51.100.7:5300"), p.build())
	}
}

type vkCaseSizeCase struct {
	N     int    `json:"n"`
	Spell string `json:"spell"` // stored | upper | mixed
	OPT   bool   `json:"opt"`
}

func vkSpell(name, how string) string {
	switch how {
	case "upper":
		return strings.ToUpper(name)
	case "mixed":
		b := []byte(name)
		for i := range b {
			if i%2 == 0 && b[i] >= 'a' && b[i] <= 'z' {
				b[i] -= 32
			}
		}
		return string(b)
	}
	return name
}

func vkCaseSizeShape(r vkResult) string {
	if len(r.replies) != 1 {
		return fmt.Sprintf("%d-replies", len(r.replies))
	}
	m := new(dns.Msg)
	if err := m.Unpack(r.replies[0]); err != nil {
		return "undecodable"
	}
	return fmt.Sprintf("rcode=%s tc=%v an=%d ns=%d", dns.RcodeToString[m.Rcode], m.Truncated, len(m.Answer), len(m.Ns))
}

func vkCaseSizeRun(w *vkSrvWorld, cs vkCaseSizeCase) (viol, outcome string) {
	p := vkBasePkt(vkSpell(vkCaseSizeName(cs.N), cs.Spell), dns.TypeA)
	if cs.OPT {
		p.OPT, p.Size = true, 1232
	}
	raw := p.build()
	client := netip.MustParseAddrPort(vkSrvClient)
	ref := vkCaseSizeShape(w.serve(vkPathDecoded, "udp", client, raw))
	for _, path := range []vkPath{vkPathStrict, vkPathInline, vkPathServeMsg} {
		got := vkCaseSizeShape(w.serve(path, "udp", client, raw))
		if got != ref {
			return fmt.Sprintf("query %s (%d cached A records, OPT=%v): path %s answers [%s], the decoded path [%s]", p.Name, cs.N, cs.OPT, path, got, ref), "diverge"
		}
	}
	return "", ref
}

func TestVerifC05CaseSize(t *testing.T) {
	c := vkit.Init("C05/casesize")
	defer c.Close()
	var counts []int
	for n := 22; n <= 34; n++ { // 12 + 38 + 16n octets: 512 falls at n = 28..29
		counts = append(counts, n)
	}
	for n := 66; n <= 78; n++ { // with OPT (11 octets): 1232 falls at n = 73
		counts = append(counts, n)
	}
	w := vkNewSrvWorld(vkSrvCfg{Name: "plain"})
	defer w.close()
	vkSeedWorld(w)
	vkCaseSizeSeed(w, counts)
	if c.Replay != nil {
		var cs vkCaseSizeCase
		if json.Unmarshal(c.Replay, &cs) != nil {
			c.HarnessError("bad replay")
			return
		}
		if v, _ := vkCaseSizeRun(w, cs); v != "" {
			c.Violation("casesize:replay", v, cs)
		}
		return
	}
	i := 0
	for _, n := range counts {
		for _, spell := range []string{"stored", "upper", "mixed"} {
			for _, opt := range []bool{false, true} {
				i++
				if !c.Mine(i) {
					continue
				}
				cs := vkCaseSizeCase{N: n, Spell: spell, OPT: opt}
				v, out := vkCaseSizeRun(w, cs)
				c.Add("evaluations", 1)
				c.Outcome(out)
				if strings.Contains(out, "tc=true") {
					c.DistinctStr("nontrivial", fmt.Sprint(cs))
				}
				c.Sample(map[string]any{"case": fmt.Sprint(cs), "decoded": out})
				if v == "" {
					continue
				}
				if v2, _ := vkCaseSizeRun(w, cs); v2 == "" {
					c.Add("dropped_unreproducible", 1)
					continue
				}
				limit := "512"
				if opt {
					limit = "1232"
				}
				c.Violation(fmt.Sprintf("casesize:truncation-differs|n=%d|spell=%s|limit=%s", n, spell, limit), v, cs)
			}
		}
	}
}
