//go:build verif

package server

// C17/server — the access list at the real server entries, with the transports'
// slabs RECYCLED from one client to the next (as the engines recycle them):
// every ordered sequence of <= 3 clients (inside / outside the list, IPv4, IPv6,
// IPv4-mapped IPv6) through every entry path and transport on ONE world. A
// client outside the list gets no reply and causes no cache lookup and no
// upstream traffic; a client inside gets exactly one reply — whatever address
// the slab served before.

import (
	"encoding/json"
	"fmt"
	"net/netip"
	"strings"
	"testing"

	"github.com/miekg/dns"
	"github.com/semihalev/sdns/internal/verifshim/vkit"
)

type vkACLClient struct {
	Name  string
	Addr  string
	Allow bool
}

var vkACLList = []string{"198.51.100.0/24", "2001:db8::/32", "bogus-entry", "10.0.0.0/33"}

var vkACLClients = []vkACLClient{
	{"in4", "198.51.100.77:40000", true},
	{"out4", "203.0.113.9:5353", false},
	{"edge4", "198.51.101.0:40000", false}, // first address past the range
	{"in6", "[2001:db8::1]:40000", true},
	{"out6", "[2001:db9::1]:40000", false},
	{"mapped-in", "[::ffff:198.51.100.5]:40000", true}, // an IPv4-mapped source counts as IPv4
	{"mapped-out", "[::ffff:203.0.113.9]:40000", false},
	// the address/port pair sdns uses internally to mark its own sub-queries, arriving from the network
	{"sentinel-out", "127.0.0.255:0", false},
}

type vkACLCase struct {
	Path   string `json:"path"`
	Proto  string `json:"proto"`
	Seq    []int  `json:"seq"`
	Target string `json:"target"`
	OPT    bool   `json:"opt"`
	// Shape: "" well-formed | "qd0" no question | "op5" opcode UPDATE | "trunc" body cut inside the question:
	// packets the transports reject by themselves (FORMERR / NOTIMP) before any handler runs
	Shape string `json:"shape,omitempty"`
}

func (c vkACLCase) String() string {
	var n []string
	for _, i := range c.Seq {
		n = append(n, vkACLClients[i].Name)
	}
	return fmt.Sprintf("%s/%s %s opt=%v %s[%s]", c.Path, c.Proto, c.Target, c.OPT, c.Shape, strings.Join(n, " "))
}

func vkACLStats(w *vkSrvWorld) (int64, int64) {
	h, ok := w.s.pipeline.Get("cache").(interface{ Stats() map[string]any })
	if !ok {
		return 0, 0
	}
	st := h.Stats()
	return vkAsInt(st["hits"]), vkAsInt(st["misses"])
}

func vkAsInt(v any) int64 {
	switch x := v.(type) {
	case int64:
		return x
	case uint64:
		return int64(x)
	case int:
		return int64(x)
	}
	return -1
}

func vkACLRun(w *vkSrvWorld, cs vkACLCase) (string, string) {
	var outs []string
	for step, ci := range cs.Seq {
		cl := vkACLClients[ci]
		p := vkBasePkt(cs.Target, dns.TypeA)
		p.ID = uint16(0x6100 + step)
		if cs.OPT {
			p.OPT, p.DO, p.Size = true, true, 1232
		}
		switch cs.Shape {
		case "qd0":
			p.QD = 0
		case "op5":
			p.Opcode = 5
		case "trunc":
			p.NameForm = "trunc"
		}
		h0, m0 := vkACLStats(w)
		r := w.serve(vkPath(cs.Path), cs.Proto, netip.MustParseAddrPort(cl.Addr), p.build())
		h1, m1 := vkACLStats(w)
		where := fmt.Sprintf("step %d (%s, %s)", step, cl.Name, cl.Addr)
		if cl.Allow && cs.Shape != "" {
			// what an ALLOWED client gets for a packet the transport rejects by itself is C06's business
			outs = append(outs, fmt.Sprintf("allowed:%d", len(r.replies)))
			continue
		}
		if cl.Allow {
			if len(r.replies) != 1 {
				return fmt.Sprintf("%s: a client inside the access list received %d replies", where, len(r.replies)), ""
			}
			m := new(dns.Msg)
			if err := m.Unpack(r.replies[0]); err != nil || m.Id != p.ID || !m.Response {
				return fmt.Sprintf("%s: reply to an allowed client is not its own (err=%v)", where, err), ""
			}
			outs = append(outs, "answered")
			continue
		}
		if len(r.replies) != 0 {
			return fmt.Sprintf("%s: a client outside the access list %v was answered", where, vkACLList), ""
		}
		if r.up != 0 {
			return fmt.Sprintf("%s: a denied query caused %d upstream exchange(s)", where, r.up), ""
		}
		if h1 != h0 || m1 != m0 {
			return fmt.Sprintf("%s: a denied query caused a cache lookup (hits %d->%d, misses %d->%d)", where, h0, h1, m0, m1), ""
		}
		outs = append(outs, "silent")
	}
	return "", strings.Join(outs, ",")
}

func TestVerifC17Server(t *testing.T) {
	c := vkit.Init("C17/server")
	defer c.Close()
	newWorld := func() *vkSrvWorld {
		w := vkNewSrvWorld(vkSrvCfg{Name: "acl", ACL: vkACLList, Cookie: true})
		vkSeedWorld(w)
		return w
	}
	if c.Replay != nil {
		var cs vkACLCase
		if json.Unmarshal(c.Replay, &cs) != nil {
			c.HarnessError("bad replay")
			return
		}
		w := newWorld()
		defer w.close()
		if v, _ := vkACLRun(w, cs); v != "" {
			c.Violation("server:replay", v, cs)
		}
		return
	}
	var seqs [][]int
	var rec func(cur []int)
	rec = func(cur []int) {
		if len(cur) > 0 {
			seqs = append(seqs, append([]int{}, cur...))
		}
		if len(cur) == 3 {
			return
		}
		for i := range vkACLClients {
			rec(append(cur, i))
		}
	}
	rec(nil)
	type pp struct{ path, proto string }
	var entries []pp
	for _, proto := range []string{"udp", "tcp"} {
		for _, p := range []vkPath{vkPathDecoded, vkPathStrict, vkPathServeMsg} {
			entries = append(entries, pp{string(p), proto})
		}
	}
	entries = append(entries, pp{string(vkPathInline), "udp"}, pp{string(vkPathDoHPost), "tcp"}, pp{string(vkPathDoHGet), "tcp"})
	w := newWorld()
	defer func() { w.close() }()
	n := 0
	type tgt struct{ name, shape string }
	targets := []tgt{{"hit.t.", ""}, {"unscripted-miss.t.", ""}, {"hit.t.", "qd0"}, {"hit.t.", "op5"}, {"hit.t.", "trunc"}}
	for _, e := range entries {
		for _, tg := range targets {
			target := tg.name
			for _, opt := range []bool{false, true} {
				if tg.shape != "" && opt {
					continue
				}
				for _, sq := range seqs {
					if tg.shape != "" && len(sq) > 2 {
						continue
					}
					n++
					if !c.Mine(n) {
						continue
					}
					if c.OverBudget() {
						c.Cap("time budget")
						return
					}
					if e.proto != "udp" || (e.path != string(vkPathStrict) && e.path != string(vkPathInline)) {
						// a source port of 0 exists on datagrams only, and only the engine paths run the engine's
						// own ingress decoding of the remote address
						skip := false
						for _, ci := range sq {
							skip = skip || vkACLClients[ci].Name == "sentinel-out"
						}
						if skip {
							continue
						}
					}
					cs := vkACLCase{Path: e.path, Proto: e.proto, Seq: sq, Target: target, OPT: opt, Shape: tg.shape}
					v, out := vkACLRun(w, cs)
					c.Add("evaluations", 1)
					c.Outcome(out)
					if strings.Contains(out, "answered") && strings.Contains(out, "silent") {
						c.DistinctStr("nontrivial", cs.String())
					}
					if n%997 == 0 {
						c.Sample(map[string]any{"case": cs.String(), "outcome": out})
					}
					if v != "" {
						w2 := newWorld()
						v2, _ := vkACLRun(w2, cs)
						w2.close()
						if v2 == "" {
							c.Add("dropped_unreproducible", 1)
							continue
						}
						key := v2
						if i := strings.Index(key, ": "); i > 0 {
							key = key[i+2:]
						}
						if i := strings.IndexAny(key, "[(0123456789"); i > 0 {
							key = strings.TrimSpace(key[:i])
						}
						if cs.Shape != "" {
							key = "rejected-before-the-list(" + cs.Shape + "):" + key
						}
						c.Violation("server:"+e.path+"/"+e.proto+":"+key, v2+"\n    case: "+cs.String(), cs)
						if c.NumViolations() > 40 {
							return
						}
					}
				}
			}
		}
	}
}
