//go:build verif && linux

package server

import (
	"encoding/binary"
	"net/netip"

	"golang.org/x/sys/unix"
)

// vkIngressRemote hands the client address to the job the way the batched reader does: as the raw
// sockaddr the kernel wrote, through the engine's own setRemoteRaw.
func vkIngressRemote(j *udpJob, cl netip.AddrPort) bool {
	var sa [unix.SizeofSockaddrInet6]byte
	n := 0
	a := cl.Addr()
	if a.Is4() {
		binary.NativeEndian.PutUint16(sa[0:2], unix.AF_INET)
		binary.BigEndian.PutUint16(sa[2:4], cl.Port())
		a4 := a.As4()
		copy(sa[4:8], a4[:])
		n = unix.SizeofSockaddrInet4
	} else {
		binary.NativeEndian.PutUint16(sa[0:2], unix.AF_INET6)
		binary.BigEndian.PutUint16(sa[2:4], cl.Port())
		a16 := a.As16()
		copy(sa[8:24], a16[:])
		n = unix.SizeofSockaddrInet6
	}
	return j.setRemoteRaw(sa[:n])
}
