//go:build verif

package server

import (
	"bytes"
	"encoding/binary"
	"fmt"
	"strings"

	"github.com/miekg/dns"
)

// vkPkt is a query packet SPEC; build() renders the exact bytes. The spec is the
// ground truth C06 judges replies against (independent of sdns's own parsing).
type vkPkt struct {
	ID     uint16 `json:"id"`
	QR     bool   `json:"qr,omitempty"`
	Opcode int    `json:"opcode,omitempty"`
	AA     bool   `json:"aa,omitempty"`
	TC     bool   `json:"tc,omitempty"`
	RD     bool   `json:"rd,omitempty"`
	RA     bool   `json:"ra,omitempty"`
	Z      bool   `json:"z,omitempty"`
	AD     bool   `json:"ad,omitempty"`
	CD     bool   `json:"cd,omitempty"`
	Rcode  int    `json:"rcode,omitempty"`

	// counts written in the header; -1 = the real number of items rendered
	QD, AN, NS, AR int

	Name     string `json:"name"`  // presentation name of the (first) question
	NameForm string `json:"nform"` // "", "ptr" (compression pointer to offset 12... self), "trunc" (cut mid-name)
	Qtype    uint16 `json:"qtype"`
	Qclass   uint16 `json:"qclass"`
	SecondQ  bool   `json:"q2,omitempty"`

	AnRR bool `json:"anrr,omitempty"` // one A record in the answer section of the query
	NsRR bool `json:"nsrr,omitempty"`

	OPT      bool     `json:"opt,omitempty"`
	Version  uint8    `json:"ver,omitempty"`
	ExtRcode uint8    `json:"xr,omitempty"`
	DO       bool     `json:"do,omitempty"`
	Size     uint16   `json:"size,omitempty"`
	Options  []string `json:"options,omitempty"` // see optionBytes
	OPTName  string   `json:"optname,omitempty"` // non-root OPT owner when set
	OPT2     bool     `json:"opt2,omitempty"`    // a second OPT record
	Trailing int      `json:"trailing,omitempty"`
	BadRDLen bool     `json:"badrdlen,omitempty"`
	ExtraA   bool     `json:"extra_a,omitempty"` // an ordinary A record in the additional section
}

func (p vkPkt) String() string {
	var f []string
	for _, x := range []struct {
		on bool
		n  string
	}{{p.QR, "QR"}, {p.AA, "AA"}, {p.TC, "TC"}, {p.RD, "RD"}, {p.RA, "RA"}, {p.Z, "Z"}, {p.AD, "AD"}, {p.CD, "CD"}} {
		if x.on {
			f = append(f, x.n)
		}
	}
	s := fmt.Sprintf("id=%d op=%d [%s] %s%s %d/%d", p.ID, p.Opcode, strings.Join(f, ","), p.Name, p.NameForm, p.Qtype, p.Qclass)
	if p.QD != -1 || p.AN != -1 || p.NS != -1 || p.AR != -1 {
		s += fmt.Sprintf(" counts=%d/%d/%d/%d", p.QD, p.AN, p.NS, p.AR)
	}
	if p.SecondQ || p.AnRR || p.NsRR || p.ExtraA {
		s += fmt.Sprintf(" q2=%v an=%v ns=%v xa=%v", p.SecondQ, p.AnRR, p.NsRR, p.ExtraA)
	}
	if p.OPT {
		s += fmt.Sprintf(" OPT{v%d xr%d do=%v size=%d %v name=%q second=%v badrdlen=%v}", p.Version, p.ExtRcode, p.DO, p.Size, p.Options, p.OPTName, p.OPT2, p.BadRDLen)
	}
	if p.Trailing > 0 {
		s += fmt.Sprintf(" +%dB", p.Trailing)
	}
	return s
}

func vkBasePkt(name string, qtype uint16) vkPkt {
	return vkPkt{ID: 0x4a4b, RD: true, QD: -1, AN: -1, NS: -1, AR: -1, Name: name, Qtype: qtype, Qclass: dns.ClassINET}
}

func vkPackName(name string) []byte {
	buf := make([]byte, 300)
	n, err := dns.PackDomainName(name, buf, 0, nil, false)
	if err != nil {
		panic(fmt.Sprintf("vk: bad name %q: %v", name, err))
	}
	return buf[:n]
}

func vkOptionBytes(kind string) []byte {
	opt := func(code uint16, data []byte) []byte {
		b := make([]byte, 4, 4+len(data))
		binary.BigEndian.PutUint16(b[0:], code)
		binary.BigEndian.PutUint16(b[2:], uint16(len(data)))
		return append(b, data...)
	}
	cc := []byte{1, 2, 3, 4, 5, 6, 7, 8}
	switch kind {
	case "cookie8":
		return opt(10, cc)
	case "cookie24":
		return opt(10, append(append([]byte{}, cc...), []byte("0123456789abcdef")...))
	case "cookie7":
		return opt(10, cc[:7])
	case "cookie41":
		return opt(10, make([]byte, 41))
	case "cookie8b":
		return opt(10, []byte{9, 9, 9, 9, 9, 9, 9, 9})
	case "nsid":
		return opt(3, nil)
	case "ecs4":
		return opt(8, []byte{0, 1, 24, 0, 10, 1, 2})
	case "ecs6":
		return opt(8, []byte{0, 2, 56, 0, 0x20, 0x01, 0x0d, 0xb8, 0, 1, 0})
	case "ecsfam0":
		return opt(8, []byte{0, 0, 0, 0})
	case "ecsbadmask":
		return opt(8, []byte{0, 1, 40, 0, 10, 1, 2, 3})
	case "padding":
		return opt(12, []byte("PADDINGPADDING"))
	case "keepalive0":
		return opt(11, nil)
	case "keepalive2":
		return opt(11, []byte{0, 100})
	case "keepalive1":
		return opt(11, []byte{7})
	case "unknown":
		return opt(65001, []byte("client-private-token"))
	case "ede":
		return opt(15, []byte{0, 13, 'x'})
	}
	panic("vk: unknown option kind " + kind)
}

// build renders the packet bytes.
func (p vkPkt) build() []byte {
	b := make([]byte, 12, 512)
	binary.BigEndian.PutUint16(b[0:], p.ID)
	var f uint16
	if p.QR {
		f |= 1 << 15
	}
	f |= uint16(p.Opcode&0xF) << 11
	for _, x := range []struct {
		on  bool
		bit uint
	}{{p.AA, 10}, {p.TC, 9}, {p.RD, 8}, {p.RA, 7}, {p.Z, 6}, {p.AD, 5}, {p.CD, 4}} {
		if x.on {
			f |= 1 << x.bit
		}
	}
	f |= uint16(p.Rcode & 0xF)
	binary.BigEndian.PutUint16(b[2:], f)
	qd, an, ns, ar := 0, 0, 0, 0
	question := func(name string) {
		switch p.NameForm {
		case "ptr":
			// a compression pointer as the question name (points at itself: the only target a
			// one-question query offers) — never strict-eligible, undecodable for the library
			b = append(b, 0xC0, 12)
		case "trunc":
			wn := vkPackName(name)
			b = append(b, wn[:len(wn)/2]...)
			return
		case "len255", "len256", "len257":
			// a well-formed label sequence whose wire length (root octet included) is exactly 255 (the longest
			// legal name), 256 and 257 octets: three 63-octet labels and one of 61 / 62 / 63
			last := map[string]int{"len255": 61, "len256": 62, "len257": 63}[p.NameForm]
			for i, n := range []int{63, 63, 63, last} {
				b = append(b, byte(n))
				b = append(b, bytes.Repeat([]byte{byte('a' + i)}, n)...)
			}
			b = append(b, 0)
		default:
			b = append(b, vkPackName(name)...)
		}
		b = binary.BigEndian.AppendUint16(b, p.Qtype)
		b = binary.BigEndian.AppendUint16(b, p.Qclass)
		qd++
	}
	if p.QD != 0 || p.Name != "" {
		if !(p.QD == 0 && p.Name == "") {
			question(p.Name)
		}
	}
	if p.NameForm == "trunc" {
		binary.BigEndian.PutUint16(b[4:], 1)
		return b
	}
	if p.SecondQ {
		b = append(b, vkPackName("second.t.")...)
		b = binary.BigEndian.AppendUint16(b, dns.TypeA)
		b = binary.BigEndian.AppendUint16(b, dns.ClassINET)
		qd++
	}
	arec := func() {
		b = append(b, vkPackName("rr.t.")...)
		b = binary.BigEndian.AppendUint16(b, dns.TypeA)
		b = binary.BigEndian.AppendUint16(b, dns.ClassINET)
		b = binary.BigEndian.AppendUint32(b, 60)
		b = binary.BigEndian.AppendUint16(b, 4)
		b = append(b, 192, 0, 2, 200)
	}
	if p.AnRR {
		arec()
		an++
	}
	if p.NsRR {
		arec()
		ns++
	}
	if p.ExtraA {
		arec()
		ar++
	}
	optrec := func() {
		if p.OPTName != "" {
			b = append(b, vkPackName(p.OPTName)...)
		} else {
			b = append(b, 0)
		}
		b = binary.BigEndian.AppendUint16(b, dns.TypeOPT)
		b = binary.BigEndian.AppendUint16(b, p.Size)
		ttl := uint32(p.ExtRcode)<<24 | uint32(p.Version)<<16
		if p.DO {
			ttl |= 1 << 15
		}
		b = binary.BigEndian.AppendUint32(b, ttl)
		var rdata []byte
		for _, o := range p.Options {
			rdata = append(rdata, vkOptionBytes(o)...)
		}
		rdlen := len(rdata)
		if p.BadRDLen {
			rdlen += 3
		}
		b = binary.BigEndian.AppendUint16(b, uint16(rdlen))
		b = append(b, rdata...)
		ar++
	}
	if p.OPT {
		optrec()
	}
	if p.OPT2 {
		optrec()
	}
	for i := 0; i < p.Trailing; i++ {
		b = append(b, 0xEE)
	}
	set := func(off int, spec, real int) {
		if spec >= 0 {
			real = spec
		}
		binary.BigEndian.PutUint16(b[off:], uint16(real))
	}
	set(4, p.QD, qd)
	set(6, p.AN, an)
	set(8, p.NS, ns)
	set(10, p.AR, ar)
	return b
}

// vkPacketAlphabet enumerates packet shapes for one target name.
func vkPacketAlphabet(name string, thorough bool) []vkPkt {
	var out []vkPkt
	add := func(mod func(*vkPkt)) {
		p := vkBasePkt(name, dns.TypeA)
		mod(&p)
		out = append(out, p)
	}
	add(func(p *vkPkt) {})
	// every header flag alone, RD/CD/AD cube, opcodes, rcode junk
	add(func(p *vkPkt) { p.RD = false })
	add(func(p *vkPkt) { p.QR = true })
	add(func(p *vkPkt) { p.AA = true })
	add(func(p *vkPkt) { p.TC = true })
	add(func(p *vkPkt) { p.RA = true })
	add(func(p *vkPkt) { p.Z = true })
	add(func(p *vkPkt) { p.Rcode = 3 })
	for i := 0; i < 8; i++ {
		i := i
		add(func(p *vkPkt) { p.CD = i&1 != 0; p.AD = i&2 != 0; p.OPT = i&4 != 0; p.DO = i&4 != 0; p.Size = 1232 })
		add(func(p *vkPkt) { p.CD = i&1 != 0; p.AD = i&2 != 0; p.OPT = i&4 != 0; p.DO = false; p.Size = 4096 })
	}
	for op := 1; op < 16; op++ {
		op := op
		add(func(p *vkPkt) { p.Opcode = op })
	}
	// a response stays a response whatever else is wrong with it: QR x every opcode, bad counts, bad EDNS version
	for op := 1; op < 16; op++ {
		op := op
		add(func(p *vkPkt) { p.QR = true; p.Opcode = op })
	}
	add(func(p *vkPkt) { p.QR = true; p.QD = 0 })
	add(func(p *vkPkt) { p.QR = true; p.QD = 2 })
	add(func(p *vkPkt) { p.QR = true; p.AnRR = true })
	add(func(p *vkPkt) { p.QR = true; p.TC = true; p.Rcode = 2 })
	add(func(p *vkPkt) { p.QR = true; p.OPT = true; p.Size = 1232; p.Version = 1 })
	add(func(p *vkPkt) { p.QR = true; p.Opcode = 5; p.QD = 0; p.Trailing = 3 })
	// section counts
	add(func(p *vkPkt) { p.QD = 0 })
	add(func(p *vkPkt) { p.QD = 2 })
	add(func(p *vkPkt) { p.SecondQ = true })
	add(func(p *vkPkt) { p.AN = 1 })
	add(func(p *vkPkt) { p.AnRR = true })
	add(func(p *vkPkt) { p.NsRR = true })
	add(func(p *vkPkt) { p.AN = 2 })
	add(func(p *vkPkt) { p.NS = 2 })
	add(func(p *vkPkt) { p.AR = 1 })
	add(func(p *vkPkt) { p.AR = 3 })
	add(func(p *vkPkt) { p.ExtraA = true })
	add(func(p *vkPkt) { p.ExtraA = true; p.OPT = true; p.Size = 1232 })
	add(func(p *vkPkt) { p.Name = ""; p.QD = 0 })
	// question shapes
	for _, qt := range []uint16{dns.TypeAAAA, dns.TypeTXT, dns.TypeANY, 65280, dns.TypeRRSIG, dns.TypeDS, dns.TypeCNAME, dns.TypeNSEC, dns.TypeAXFR} {
		qt := qt
		add(func(p *vkPkt) { p.Qtype = qt })
		add(func(p *vkPkt) { p.Qtype = qt; p.OPT = true; p.DO = true; p.Size = 1232 })
	}
	add(func(p *vkPkt) { p.Qclass = dns.ClassCHAOS })
	add(func(p *vkPkt) { p.Qclass = 65 })
	add(func(p *vkPkt) { p.Qclass = dns.ClassANY })
	add(func(p *vkPkt) { p.Name = strings.ToUpper(name) })
	add(func(p *vkPkt) { p.NameForm = "ptr" })
	add(func(p *vkPkt) { p.NameForm = "trunc" })
	add(func(p *vkPkt) { p.NameForm = "len255" })
	add(func(p *vkPkt) { p.NameForm = "len256" })
	add(func(p *vkPkt) { p.NameForm = "len257" })
	add(func(p *vkPkt) { p.Trailing = 5 })
	// OPT shapes
	add(func(p *vkPkt) { p.OPT = true; p.Size = 0 })
	add(func(p *vkPkt) { p.OPT = true; p.Size = 512 })
	add(func(p *vkPkt) { p.OPT = true; p.Size = 300; p.DO = true })
	add(func(p *vkPkt) { p.OPT = true; p.Size = 65535 })
	add(func(p *vkPkt) { p.OPT = true; p.Size = 1232; p.Version = 1 })
	add(func(p *vkPkt) {
		p.OPT = true
		p.Size = 1232
		p.Version = 1
		p.Options = []string{"ecs4", "cookie8", "padding"}
	})
	add(func(p *vkPkt) { p.OPT = true; p.Size = 1232; p.ExtRcode = 1 })
	add(func(p *vkPkt) { p.OPT = true; p.Size = 1232; p.OPTName = "x." })
	add(func(p *vkPkt) { p.OPT = true; p.Size = 1232; p.OPT2 = true })
	add(func(p *vkPkt) { p.OPT = true; p.Size = 1232; p.BadRDLen = true })
	add(func(p *vkPkt) { p.OPT = true; p.Size = 1232; p.Trailing = 4 })
	optKinds := []string{"cookie8", "cookie24", "cookie7", "cookie41", "nsid", "ecs4", "ecs6", "ecsfam0", "ecsbadmask", "padding", "keepalive0", "keepalive2", "keepalive1", "unknown", "ede"}
	for _, k := range optKinds {
		k := k
		add(func(p *vkPkt) { p.OPT = true; p.Size = 1232; p.Options = []string{k} })
		add(func(p *vkPkt) { p.OPT = true; p.Size = 1232; p.DO = true; p.Options = []string{k} })
	}
	add(func(p *vkPkt) { p.OPT = true; p.Size = 1232; p.Options = []string{"cookie8", "cookie8b"} })
	add(func(p *vkPkt) {
		p.OPT = true
		p.Size = 1232
		p.Options = []string{"cookie24", "nsid", "padding", "unknown"}
	})
	add(func(p *vkPkt) {
		p.OPT = true
		p.Size = 1232
		p.DO = true
		p.Options = []string{"nsid", "keepalive0", "ecs4"}
	})
	add(func(p *vkPkt) { p.OPT = true; p.Size = 1232; p.CD = true; p.Options = []string{"cookie8", "ecs4"} })
	if thorough {
		for i := 0; i < len(optKinds); i++ {
			for j := i + 1; j < len(optKinds); j++ {
				a, c := optKinds[i], optKinds[j]
				add(func(p *vkPkt) { p.OPT = true; p.Size = 1232; p.Options = []string{a, c} })
			}
		}
		for fl := 0; fl < 128; fl++ {
			fl := fl
			add(func(p *vkPkt) {
				p.AA, p.TC, p.RD, p.RA, p.Z, p.AD, p.CD = fl&1 != 0, fl&2 != 0, fl&4 != 0, fl&8 != 0, fl&16 != 0, fl&32 != 0, fl&64 != 0
			})
		}
	}
	return out
}
