//go:build verif

package server

// C11/tcp — one scripted connection on the real TCP engine + real server
// entry (Server.ServeRaw) + real [edns, cache, stub] pipeline.
//
// Space: sequences of pipelined frames x segmentations of the byte stream into
// reads x close points (the peer closes after k bytes; every run ends with the
// peer closing). Oracle: the bytes written to the connection are a sequence of
// whole length-prefixed frames, exactly one per admitted query that was
// completely delivered, in query order, each with its query's ID (and
// question + marker for answers); nothing for QR=1 frames; nothing after a
// sub-header frame; afterwards every admission token is home, no connection
// is registered, no idle slab is leased or points at a connection.

import (
	"encoding/json"
	"fmt"
	"sort"
	"strings"
	"testing"

	"github.com/semihalev/sdns/internal/verifshim/vkit"
)

type vkTCPCase struct {
	Kinds []string `json:"kinds"`
	Cuts  []int    `json:"cuts"`  // ascending byte offsets where one read ends and the next begins
	Close int      `json:"close"` // the peer closes after this many bytes
}

func (c vkTCPCase) String() string {
	return fmt.Sprintf("[%s] cuts=%v close=%d", strings.Join(c.Kinds, ","), c.Cuts, c.Close)
}

const vkTagA = "aaaaaaaa"
const vkTagB = "bbbbbbbb"

func vkBuildFrames(kinds []string, tag string) ([]vkFrame, []byte, []int) {
	var frames []vkFrame
	var stream []byte
	var ends []int
	for i, k := range kinds {
		f := vkMakeFrame(k, tag, i)
		frames = append(frames, f)
		stream = append(stream, f.framed()...)
		ends = append(ends, len(stream))
	}
	return frames, stream, ends
}

// vkRunTCPCase executes one case; returns violation, harness error, outcome label.
func vkRunTCPCase(w *vkSrvWorld, tc vkTCPCase) (string, string, string) {
	frames, stream, ends := vkBuildFrames(tc.Kinds, vkTagA)
	if tc.Close > len(stream) || tc.Close < 1 {
		return "", fmt.Sprintf("bad close point %d for %d bytes", tc.Close, len(stream)), ""
	}
	stream = stream[:tc.Close]
	var complete []vkFrame
	for i, e := range ends {
		if e <= tc.Close {
			complete = append(complete, frames[i])
		}
	}
	defer w.purge(frames)
	w.newTCP(1) // fresh engine per case (slabs, stream pool, tokens)
	before := w.stub.count()
	c := vkNewConn(vkTagA, 0)
	if h := w.start(c); h != "" {
		return "", h, ""
	}
	prev := 0
	exited := false
	bounds := append(append([]int{}, tc.Cuts...), tc.Close)
	for _, b := range bounds {
		if b <= prev || b > tc.Close {
			return "", fmt.Sprintf("bad cut %d (prev %d)", b, prev), ""
		}
		ev, h := c.deliver(stream[prev:b])
		if h != "" {
			return "", h, ""
		}
		prev = b
		if ev == "exit" {
			exited = true
			break
		}
		// The connection is parked in Read. If what it waits for is the start
		// of a frame (or the second half of a length prefix), every reply to
		// the queries delivered so far must already be on the wire: the client
		// may be waiting for exactly those before it sends more. Parked inside
		// a frame body the engine may keep them staged (tcp_stream.go: "a
		// client that stalls mid-frame delays only itself").
		var sofar []vkFrame
		last := 0
		for i, e := range ends {
			if e <= b {
				sofar = append(sofar, frames[i])
				last = e
			}
		}
		mid, _ := c.output()
		if v := vkJudgeStreamAt(vkTagA, sofar, mid, nil, b-last < 2); v != "" {
			return fmt.Sprintf("while the connection waits for more input after %d bytes: %s", b, v), "", "violation"
		}
	}
	if !exited {
		if h := c.eof(); h != "" {
			return "", h, ""
		}
	}
	out, writes := c.output()
	stubCalls := w.stub.count() - before
	if v := vkJudgeStream(vkTagA, complete, out, nil); v != "" {
		return v, "", "violation"
	}
	if v := w.tcpQuiesced(); v != "" {
		return "after the connection closed: " + v, "", "violation"
	}
	wantStub := 0
	for _, f := range complete {
		if f.Expect == "hangup" {
			break
		}
		if f.Expect == "answer" && !vkHitKind(f.Kind) {
			wantStub++
		}
	}
	_ = wantStub
	frs, _ := vkSplitFrames(out)
	return "", "", fmt.Sprintf("replies=%d writes=%d early-exit=%v stub=%d", len(frs), writes, exited && prev < tc.Close, stubCalls)
}

// vkInteresting returns the stream offsets worth cutting/closing at.
func vkInteresting(frames []vkFrame) []int {
	set := map[int]bool{}
	off := 0
	for _, f := range frames {
		fl := 2 + len(f.Raw)
		for _, r := range []int{1, 2, 3, 14, fl / 2, fl - 1, fl, 4096, 4097, 4098} {
			if r >= 1 && r <= fl {
				set[off+r] = true
			}
		}
		off += fl
	}
	var out []int
	for p := range set {
		out = append(out, p)
	}
	sort.Ints(out)
	return out
}

func vkAllKindSeqs(kinds []string, n int) [][]string {
	if n == 0 {
		return [][]string{nil}
	}
	var out [][]string
	for _, pre := range vkAllKindSeqs(kinds, n-1) {
		for _, k := range kinds {
			out = append(out, append(append([]string{}, pre...), k))
		}
	}
	return out
}

// vkSubsets calls fn for every ascending subset of pos (restricted to < limit) of size <= k.
func vkSubsets(pos []int, limit, k int, fn func([]int) bool) bool {
	var cur []int
	var rec func(start int) bool
	rec = func(start int) bool {
		if !fn(append([]int{}, cur...)) {
			return false
		}
		if len(cur) == k {
			return true
		}
		for i := start; i < len(pos) && pos[i] < limit; i++ {
			cur = append(cur, pos[i])
			if !rec(i + 1) {
				return false
			}
			cur = cur[:len(cur)-1]
		}
		return true
	}
	return rec(0)
}

func TestVerifC11TCP(t *testing.T) {
	c := vkit.Init("C11/tcp")
	defer c.Close()
	newWorld := func() (*vkSrvWorld, string) {
		w := vkNewSrvWorld()
		w.newTCP(1)
		return w, w.warm(vkTagA)
	}
	if c.Replay != nil {
		var tc vkTCPCase
		if err := json.Unmarshal(c.Replay, &tc); err != nil {
			c.HarnessError("bad replay: " + err.Error())
			return
		}
		w, h := newWorld()
		if h != "" {
			c.HarnessError(h)
			return
		}
		v, h, _ := vkRunTCPCase(w, tc)
		if h != "" {
			c.HarnessError(h)
		} else if v != "" {
			c.Violation("tcp:"+tc.String(), v, nil)
		}
		return
	}
	w, h := newWorld()
	if h != "" {
		c.HarnessError(h)
		return
	}
	small := []string{"hit", "miss", "malf", "qr", "notify", "short"}
	all := vkFrameKinds
	type plan struct {
		seqs     [][]string
		allPos   bool // every byte offset is a cut/close candidate
		maxCuts  int
		closeCut int // max cuts used together with an early close point
	}
	var plans []plan
	if c.Quick() {
		plans = []plan{
			{seqs: append(vkAllKindSeqs(small, 1), vkAllKindSeqs(small, 2)...), allPos: true, maxCuts: 2, closeCut: 1},
			{seqs: append(append(vkAllKindSeqs(all, 1), vkAllKindSeqs(all, 2)...), vkAllKindSeqs(all[:8], 3)...), maxCuts: 2, closeCut: 2},
		}
	} else {
		plans = []plan{
			{seqs: append(vkAllKindSeqs(small, 1), vkAllKindSeqs(small, 2)...), allPos: true, maxCuts: 3, closeCut: 2},
			{seqs: vkAllKindSeqs(all[:8], 4), maxCuts: 1, closeCut: 1},
			{seqs: append(append(vkAllKindSeqs(all, 1), vkAllKindSeqs(all, 2)...), vkAllKindSeqs(all, 3)...), maxCuts: 5, closeCut: 3},
		}
	}
	item := 0
	stop := false
	runCase := func(tc vkTCPCase, frames []vkFrame, ends []int) {
		v, h, out := vkRunTCPCase(w, tc)
		if h != "" {
			c.HarnessError(tc.String() + ": " + h)
			stop = true
			return
		}
		c.Add("evaluations", 1)
		c.Add("traces", 1)
		c.Add("transitions", int64(len(tc.Cuts)+2))
		c.Outcome(out)
		// state = which frame/offset class every read boundary falls into
		var cls []string
		inside := false
		for _, b := range append(append([]int{}, tc.Cuts...), tc.Close) {
			fi, start := 0, 0
			for fi < len(ends) && ends[fi] < b {
				start = ends[fi]
				fi++
			}
			rel := b - start
			k := "body"
			switch {
			case fi < len(ends) && b == ends[fi]:
				k = "end"
			case rel == 1:
				k = "half-prefix"
			case rel == 2:
				k = "prefix"
			case rel < 14:
				k = "header"
			}
			if k != "end" {
				inside = true
			}
			cls = append(cls, fmt.Sprintf("%d:%s", fi, k))
		}
		key := strings.Join(tc.Kinds, ",") + "|" + strings.Join(cls, " ")
		c.DistinctStr("states", key)
		if inside && len(tc.Kinds) >= 2 {
			c.DistinctStr("nontrivial", key)
		}
		if v != "" {
			w2, h2 := newWorld()
			if h2 != "" {
				c.HarnessError(h2)
				stop = true
				return
			}
			v2, _, _ := vkRunTCPCase(w2, tc)
			if v2 == "" {
				c.HarnessError(fmt.Sprintf("%s: violation did not reproduce on a fresh world: %s", tc, v))
				stop = true
				return
			}
			c.Violation("tcp:"+tc.String(), v2, tc)
			// the shared world may be damaged (leaked token): replace it
			w, h2 = newWorld()
			if h2 != "" {
				c.HarnessError(h2)
				stop = true
			}
		}
	}
	for pi, p := range plans {
		for _, kinds := range p.seqs {
			frames, stream, ends := vkBuildFrames(kinds, vkTagA)
			n := len(stream)
			var pos []int
			if p.allPos {
				for i := 1; i < n; i++ {
					pos = append(pos, i)
				}
			} else {
				pos = vkInteresting(frames)
			}
			closes := append([]int{}, pos...)
			if len(closes) == 0 || closes[len(closes)-1] != n {
				closes = append(closes, n)
			}
			for _, cl := range closes {
				item++
				if !c.Mine(item) || stop {
					continue
				}
				if c.OverBudget() {
					c.Cap(fmt.Sprintf("time budget reached in plan %d", pi))
					stop = true
					continue
				}
				k := p.maxCuts
				if cl != n {
					k = p.closeCut
				}
				vkSubsets(pos, cl, k, func(cuts []int) bool {
					runCase(vkTCPCase{Kinds: kinds, Cuts: cuts, Close: cl}, frames, ends)
					return !stop && c.NumViolations() < 20
				})
				if c.NumViolations() >= 20 {
					stop = true
				}
			}
			if item%500 == 0 && !stop {
				c.Sample(map[string]any{"frames": strings.Join(kinds, ","), "stream_bytes": n, "cut_candidates": len(pos)})
			}
		}
	}
}
