//go:build verif

package server

// C10/slabhistory — "a reply contains no byte of any other client's query or reply … under slab and
// buffer reuse". The engines serve every client from recycled slabs whose receive and transmit buffers
// still hold the previous client's packet and reply. Whatever the byte path composes in place (cached
// answers, alias compositions, subtree cuts, cached failures, in-place rejections, byte-built OPT) must
// not depend on what the slab held before.
//
// For every ordered pair (previous client's query P, this client's query V) over targets × packet
// shapes, on every slab-owning entry path and both transports of the real server entry: the reply to V
// served right after P on the same slab must be BYTE-IDENTICAL to the reply to V on a slab that has
// served nothing yet (new engine, zeroed buffers; same world, same cache state, same path). P's client differs in address, ID, cookie.
// A difference is re-run on fresh worlds (rules out TTL second boundaries and state the sweep left).

import (
	"bytes"
	"encoding/json"
	"fmt"
	"net/netip"
	"os"
	"testing"

	"github.com/miekg/dns"
	"github.com/semihalev/sdns/internal/verifshim/vkit"
)

type vkSlabCase struct {
	Cfg   vkSrvCfg `json:"cfg"`
	Path  vkPath   `json:"path"`
	Proto string   `json:"proto"`
	Prev  vkPkt    `json:"prev"`
	Pkt   vkPkt    `json:"pkt"`
}

func (c vkSlabCase) String() string {
	return fmt.Sprintf("%s %s/%s prev=%s pkt=%s", c.Cfg.Name, c.Path, c.Proto, c.Prev.String(), c.Pkt.String())
}

// vkSlabShapes: the packet shapes of one target used on both sides of a pair.
func vkSlabShapes(target string) []vkPkt {
	var out []vkPkt
	add := func(mod func(*vkPkt)) {
		p := vkBasePkt(target, dns.TypeA)
		mod(&p)
		out = append(out, p)
	}
	add(func(p *vkPkt) {})
	add(func(p *vkPkt) { p.AD = true; p.OPT, p.DO, p.Size = true, true, 4096; p.Options = []string{"cookie8b", "nsid"} })
	add(func(p *vkPkt) { p.CD = true; p.OPT, p.Size = true, 1232 })
	return out
}

func vkSlabRun(w *vkSrvWorld, cs vkSlabCase) (diff string, outcome string) {
	client := netip.MustParseAddrPort(vkSrvClient)
	raw := cs.Pkt.build()
	prev := cs.Prev
	prev.ID = 0x7e57
	// reference: slabs that have served nothing yet (new engines: zeroed buffers). A slab that "only" served this
	// client before is no reference: a bit the byte path fails to clear survives from reply to reply.
	w.primer = nil
	_ = w.serve(cs.Path, cs.Proto, client, raw) // warm-up, discarded: a first ask may admit the answer to the cache
	w.ue, w.te, w.tcpJobs = nil, nil, nil
	clean := w.serve(cs.Path, cs.Proto, client, raw)
	w.primer = prev.build()
	dirty := w.serve(cs.Path, cs.Proto, client, raw)
	w.primer = nil
	if len(clean.replies) != len(dirty.replies) {
		return fmt.Sprintf("%d replies on a fresh slab, %d after the other client's query", len(clean.replies), len(dirty.replies)), "violation"
	}
	for i := range clean.replies {
		a, b := clean.replies[i], dirty.replies[i]
		if bytes.Equal(a, b) {
			continue
		}
		at := 0
		for at < len(a) && at < len(b) && a[at] == b[at] {
			at++
		}
		ma, mb := new(dns.Msg), new(dns.Msg)
		_ = ma.Unpack(a)
		_ = mb.Unpack(b)
		return fmt.Sprintf("reply differs at octet %d (fresh slab: %d octets % x…, after the other client: %d octets % x…)\n    fresh: %s\n    after: %s",
			at, len(a), a[:min(len(a), 16)], len(b), b[:min(len(b), 16)], vkOneLine(ma), vkOneLine(mb)), "violation"
	}
	return "", fmt.Sprintf("replies=%d handoff=%v", len(clean.replies), clean.handoff)
}

func vkOneLine(m *dns.Msg) string {
	s := m.String()
	out := make([]byte, 0, len(s))
	for i := 0; i < len(s); i++ {
		if s[i] == '\n' {
			out = append(out, ' ', '|', ' ')
		} else {
			out = append(out, s[i])
		}
	}
	return string(out)
}

func TestVerifC10SlabHistory(t *testing.T) {
	c := vkit.Init("C10/slabhistory")
	defer c.Close()
	if c.Replay != nil {
		var cs vkSlabCase
		if json.Unmarshal(c.Replay, &cs) != nil {
			c.HarnessError("bad replay")
			return
		}
		w := vkNewSrvWorld(cs.Cfg)
		defer w.close()
		vkSeedWorld(w)
		_, _ = vkSlabRun(w, cs)
		if v, _ := vkSlabRun(w, cs); v != "" {
			c.Violation("slabhistory:replay", v+"\n    case: "+cs.String(), cs)
		}
		return
	}
	cfgs := []vkSrvCfg{{Name: "cookie+nsid+hosts", Cookie: true, NSID: true, Hosts: true}}
	if c.Thorough() {
		cfgs = vkSrvConfigs(true)
	}
	type pp struct {
		path  vkPath
		proto string
	}
	entries := []pp{{vkPathStrict, "udp"}, {vkPathInline, "udp"}, {vkPathDecoded, "udp"}, {vkPathStrict, "tcp"}, {vkPathDecoded, "tcp"}}
	n := 0
	for _, cfg := range cfgs {
		var w *vkSrvWorld
		for _, prevT := range vkSrvTargets {
			for _, prev := range vkSlabShapes(prevT) {
				n++
				if !c.Mine(n) {
					continue
				}
				if c.OverBudget() {
					c.Cap("time budget")
					return
				}
				if w == nil {
					w = vkNewSrvWorld(cfg)
					vkSeedWorld(w)
					defer func(w *vkSrvWorld) { w.close() }(w)
				}
				for _, target := range vkSrvTargets {
					for _, pkt := range vkSlabShapes(target) {
						for _, e := range entries {
							cs := vkSlabCase{Cfg: cfg, Path: e.path, Proto: e.proto, Prev: prev, Pkt: pkt}
							v, out := vkSlabRun(w, cs)
							c.Add("evaluations", 1)
							if v != "" {
								// fresh worlds, twice (the first serve of a packet may itself change shared state)
								ok := 0
								for rep := 0; rep < 2; rep++ {
									w2 := vkNewSrvWorld(cfg)
									vkSeedWorld(w2)
									_, _ = vkSlabRun(w2, cs)
									if v2, _ := vkSlabRun(w2, cs); v2 != "" {
										ok++
										v = v2
									}
									w2.close()
								}
								if ok < 2 {
									c.Add("dropped_unreproducible", 1)
									if os.Getenv("VERIF_SLAB_DEBUG") != "" {
										fmt.Println("DROPPED", cs.String(), "\n   ", v)
									}
									continue
								}
								c.Violation(fmt.Sprintf("slabhistory:%s/%s:@%s after @%s", e.path, e.proto, target, prevT), v+"\n    case: "+cs.String(), cs)
								if c.NumViolations() > 12 {
									return
								}
								continue
							}
							c.Outcome(out)
							c.DistinctStr("nontrivial", cs.String())
						}
					}
				}
			}
		}
	}
}
