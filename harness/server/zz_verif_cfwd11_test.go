//go:build verif

package server

// C11 unit "forward": exactly one reply per admitted query on the FORWARDER route, whatever the upstream
// does. The real forwarder behind the real cache (server world, spec.Forward) talks to a scripted upstream on
// loopback that, instead of answering, stays silent, is slow, truncates (on UDP only / on both transports),
// sends garbage, answers another question or under another ID, answers without a question, answers twice, or
// fails with SERVFAIL / REFUSED. Every (misbehaviour x transport x entry path x client variant) is served
// twice on a name of its own; each serve must produce exactly one reply which the C06 reply oracle accepts,
// within the configured query timeout plus a wide margin (the margin only catches a wedge, not jitter), and
// after the whole run the process returns to its goroutine baseline.

import (
	"encoding/json"
	"fmt"
	"net/netip"
	"runtime"
	"testing"
	"time"

	"github.com/miekg/dns"
	"github.com/semihalev/sdns/internal/verifshim/vkit"
)

func vkC11FwdRun(w *vkSrvWorld, cs vkFwdCase, serial int) (viol, outcome string) {
	p := vkFwdPkt(cs, serial)
	raw := p.build()
	jcs := vkSrvCase{Cfg: w.spec, Proto: cs.Proto, Pkt: p, Client: vkSrvClient}
	if cs.Path == vkPathDoHPost || cs.Path == vkPathDoHGet {
		jcs.Proto = "doh"
	}
	client := netip.MustParseAddrPort(vkSrvClient)
	limit := w.cfg.QueryTimeout.Duration + 6*time.Second
	for round, what := range []string{"first serve", "second serve"} {
		t0 := time.Now()
		r := w.serve(cs.Path, cs.Proto, client, raw)
		el := time.Since(t0)
		if len(r.replies) != 1 {
			return fmt.Sprintf("%s: %d replies to an admitted query (exactly 1 required)", what, len(r.replies)), "violation"
		}
		if v, _ := vkC06Reply(jcs, cs.Path, raw, true, r); v != "" {
			return what + ": " + v, "violation"
		}
		if el > limit {
			return fmt.Sprintf("%s: the reply took %v (query timeout %v)", what, el.Round(time.Millisecond), w.cfg.QueryTimeout.Duration), "violation"
		}
		m := new(dns.Msg)
		_ = m.Unpack(r.replies[0])
		if round > 0 {
			outcome += ";"
		}
		outcome += dns.RcodeToString[m.Rcode]
		if m.Truncated {
			outcome += "+tc"
		}
	}
	return "", outcome
}

func vkC11FwdCfg() vkSrvCfg { return vkSrvCfg{Name: "forward", Forward: true} }

func TestVerifC11Forward(t *testing.T) {
	c := vkit.Init("C11/forward")
	defer c.Close()
	if c.Replay != nil {
		var cs vkFwdCase
		if err := json.Unmarshal(c.Replay, &cs); err != nil {
			c.HarnessError("bad replay: " + err.Error())
			return
		}
		w := vkNewSrvWorld(vkC11FwdCfg())
		defer w.close()
		if v, _ := vkC11FwdRun(w, cs, 1); v != "" {
			c.Violation("c11:forward:replay", v+"\n    case: "+cs.String(), cs)
		}
		return
	}
	base := runtime.NumGoroutine()
	w := vkNewSrvWorld(vkC11FwdCfg())
	w.cfg.Timeout.Duration = 2 * time.Second
	variants := []string{"rd", "do"}
	if c.Thorough() {
		variants = []string{"rd", "do", "cd", "opt"}
	}
	n, serial := 0, 0
	stop := false
	for _, dev := range vkFwdMisbehaviours {
		for _, proto := range []string{"udp", "tcp"} {
			paths := []vkPath{vkPathDecoded, vkPathStrict, vkPathServeMsg}
			if proto == "udp" {
				paths = append(paths, vkPathInline)
			} else {
				paths = append(paths, vkPathDoHPost)
			}
			for _, variant := range variants {
				if (dev == "silent" || dev == "slow") && variant != "rd" && !c.Thorough() {
					continue // seconds per case: one client variant in the quick tier
				}
				for _, path := range paths {
					n++
					if stop || !c.Mine(n) {
						continue
					}
					if c.OverBudget() {
						c.Cap("time budget")
						stop = true
						continue
					}
					serial++
					cs := vkFwdCase{Dev: dev, Qtype: dns.TypeA, Proto: proto, Variant: variant, Path: path}
					v, out := vkC11FwdRun(w, cs, serial+c.Shard()*100000)
					c.Add("evaluations", 2)
					c.Outcome(dev + ":" + out)
					c.DistinctStr("nontrivial", cs.String())
					if n%17 == 0 {
						c.Sample(map[string]any{"case": cs.String(), "outcome": out})
					}
					if v == "" {
						continue
					}
					w2 := vkNewSrvWorld(vkC11FwdCfg())
					v2, _ := vkC11FwdRun(w2, cs, 1)
					w2.close()
					if v2 == "" {
						c.Add("dropped_unreproducible", 1)
						continue
					}
					c.Violation(fmt.Sprintf("c11:forward:%s:%s/%s", dev, proto, path), v2+"\n    case: "+cs.String(), cs)
					if c.NumViolations() > 8 {
						stop = true
					}
				}
			}
		}
	}
	w.close()
	// quiescence: nothing of the served queries may still be running (the scripted upstream is stopped too)
	deadline := time.Now().Add(20 * time.Second)
	left := 0
	for {
		left = runtime.NumGoroutine() - base
		if left <= 2 || time.Now().After(deadline) {
			break
		}
		time.Sleep(200 * time.Millisecond)
	}
	c.Note(fmt.Sprintf("goroutines above the baseline after the run: %d", left))
	if left > 2 {
		buf := make([]byte, 1<<16)
		buf = buf[:runtime.Stack(buf, true)]
		c.Violation("c11:forward:goroutines-left", fmt.Sprintf("%d goroutines above the baseline 20 s after the last query was answered and the world closed\n%s", left, buf), nil)
	}
}
