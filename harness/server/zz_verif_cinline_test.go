//go:build verif

package server

// C11/inlinepass — the inline pass of the UDP reader (Server.ServeRawInline runs on the goroutine
// that reads the socket) may finish a query from what is at hand or decline it for a worker; it
// must never start work that waits on an upstream: a reader parked behind one client's resolution
// keeps every other client's datagram in the socket buffer for up to the whole query timeout.
// Enumerated: configurations {plain, cookies+NSID+hosts file, DNS64 with the well-known prefix,
// client rate limit} x the packet alphabet of the server sweep on a set of targets that includes
// DNS64 candidates (AAAA of a name without AAAA, PTR of a synthesised address) x recycled-slab
// primers; oracle: the upstream stub is not entered while ServeRawInline runs.

import (
	"encoding/json"
	"fmt"
	"net/netip"
	"testing"

	"github.com/miekg/dns"
	"github.com/semihalev/sdns/internal/verifshim/vkit"
)

const vkPTR64 = "7.0.0.0.0.0.2.0.0.0.0.c.0.0.0.0.0.0.0.0.0.0.0.0.0.0.0.0.b.9.f.f.4.6.0.0.ip6.arpa." // 64:ff9b::c000:207 = 192.0.2.7

type vkInlineCase struct {
	Cfg vkSrvCfg `json:"cfg"`
	Pkt vkPkt    `json:"pkt"`
}

func vkInlineRun(w *vkSrvWorld, cs vkInlineCase) (string, string) {
	r := w.serve(vkPathInline, "udp", netip.MustParseAddrPort(vkSrvClient), cs.Pkt.build())
	out := fmt.Sprintf("replies=%d handoff=%v up=%d", len(r.replies), r.handoff, r.up)
	if r.inlineUp > 0 {
		return fmt.Sprintf("config %s, packet %v: the inline pass (ServeRawInline, on the socket reader) entered the upstream %d time(s) before returning (handoff=%v)", cs.Cfg.Name, cs.Pkt, r.inlineUp, r.handoff), out
	}
	return "", out
}

func TestVerifC11InlinePass(t *testing.T) {
	c := vkit.Init("C11/inlinepass")
	defer c.Close()
	cfgs := []vkSrvCfg{{Name: "plain"}, {Name: "cookie+nsid+hosts", Cookie: true, NSID: true, Hosts: true},
		{Name: "dns64", DNS64: true}, {Name: "dns64+cookie", DNS64: true, Cookie: true}, {Name: "client-ratelimit", RateLimit: 100000, Cookie: true}}
	if c.Replay != nil {
		var cs vkInlineCase
		if json.Unmarshal(c.Replay, &cs) != nil {
			c.HarnessError("bad replay")
			return
		}
		w := vkNewSrvWorld(cs.Cfg)
		defer w.close()
		vkSeedWorld(w)
		if v, _ := vkInlineRun(w, cs); v != "" {
			c.Violation("inlinepass:replay", v, cs)
		}
		return
	}
	targets := []string{"hit.t.", "miss.t.", "cn.t.", "nx.t.", "hosts.t.", "sf.t.", vkPTR64, "1.10.in-addr.arpa."}
	n := 0
	for _, cfg := range cfgs {
		n++
		if !c.Mine(n) {
			continue
		}
		w := vkNewSrvWorld(cfg)
		vkSeedWorld(w)
		for _, tg := range targets {
			pkts := vkPacketAlphabet(tg, false)
			for _, qt := range []uint16{dns.TypeAAAA, dns.TypePTR} {
				qt := qt
				p := vkBasePkt(tg, qt)
				pkts = append(pkts, p)
				p2 := p
				p2.OPT, p2.Size, p2.DO = true, 1232, true
				pkts = append(pkts, p2)
				p3 := p
				p3.CD = true
				pkts = append(pkts, p3)
			}
			for _, p := range pkts {
				if c.OverBudget() {
					c.Cap("time budget")
					w.close()
					return
				}
				cs := vkInlineCase{Cfg: cfg, Pkt: p}
				v, out := vkInlineRun(w, cs)
				c.Add("evaluations", 1)
				c.Outcome(out)
				if out != "replies=1 handoff=false up=0" {
					c.DistinctStr("nontrivial", fmt.Sprintf("%s|%v", cfg.Name, p))
				}
				if v == "" {
					continue
				}
				w2 := vkNewSrvWorld(cfg)
				vkSeedWorld(w2)
				v2, _ := vkInlineRun(w2, cs)
				w2.close()
				if v2 == "" {
					c.Add("dropped_unreproducible", 1)
					continue
				}
				c.Violation(fmt.Sprintf("inlinepass:upstream-entered|cfg=%s|qtype=%s", cfg.Name, dns.TypeToString[p.Qtype]), v, cs)
				if c.NumViolations() > 8 {
					w.close()
					return
				}
			}
		}
		w.close()
	}
}
