//go:build verif

package server

// C06/doq — the packet alphabet through a REAL DNS-over-QUIC server (the real
// doq.Server on a loopback socket in front of the same pipeline; a real QUIC
// client opens one stream per query). Every reply is judged against the packet
// spec like on the other entries; over DoQ the reply ID must be 0.

import (
	"context"
	"crypto/ecdsa"
	"crypto/elliptic"
	"crypto/rand"
	"crypto/tls"
	"crypto/x509"
	"crypto/x509/pkix"
	"encoding/binary"
	"fmt"
	"io"
	"math/big"
	"net"
	"testing"
	"time"

	"github.com/miekg/dns"
	"github.com/quic-go/quic-go"
	"github.com/semihalev/sdns/internal/verifshim/vkit"
	"github.com/semihalev/sdns/server/doq"
)

func vkSelfSigned() (tls.Certificate, error) {
	key, err := ecdsa.GenerateKey(elliptic.P256(), rand.Reader)
	if err != nil {
		return tls.Certificate{}, err
	}
	tmpl := x509.Certificate{SerialNumber: big.NewInt(1), Subject: pkix.Name{CommonName: "vk-doq"},
		NotBefore: time.Now().Add(-time.Hour), NotAfter: time.Now().Add(24 * time.Hour),
		KeyUsage: x509.KeyUsageDigitalSignature, ExtKeyUsage: []x509.ExtKeyUsage{x509.ExtKeyUsageServerAuth}, DNSNames: []string{"localhost"}}
	der, err := x509.CreateCertificate(rand.Reader, &tmpl, &tmpl, &key.PublicKey, key)
	if err != nil {
		return tls.Certificate{}, err
	}
	return tls.Certificate{Certificate: [][]byte{der}, PrivateKey: key}, nil
}

type vkDoQ struct {
	srv  *doq.Server
	pc   net.PacketConn
	conn *quic.Conn
	addr string
}

func vkStartDoQ(w *vkSrvWorld) (*vkDoQ, error) {
	cert, err := vkSelfSigned()
	if err != nil {
		return nil, err
	}
	pc, err := net.ListenPacket("udp", "127.0.0.1:0")
	if err != nil {
		return nil, err
	}
	d := &vkDoQ{srv: &doq.Server{Handler: w.s}, pc: pc, addr: pc.LocalAddr().String()}
	go func() { _ = d.srv.Serve(pc, &tls.Config{Certificates: []tls.Certificate{cert}}) }()
	return d, nil
}

func (d *vkDoQ) dial() error {
	ctx, cancel := context.WithTimeout(context.Background(), 20*time.Second)
	defer cancel()
	var err error
	for i := 0; i < 50; i++ {
		d.conn, err = quic.DialAddr(ctx, d.addr, &tls.Config{InsecureSkipVerify: true, NextProtos: []string{"doq"}}, &quic.Config{})
		if err == nil {
			return nil
		}
		time.Sleep(20 * time.Millisecond) // the listener goroutine may not be up yet
	}
	return err
}

// ask sends one query on its own stream and returns the reply payloads (0 or 1) — or an
// error when the server ended the connection (protocol error), after which it redials.
func (d *vkDoQ) ask(raw []byte) ([][]byte, error) {
	if d.conn == nil {
		if err := d.dial(); err != nil {
			return nil, err
		}
	}
	ctx, cancel := context.WithTimeout(context.Background(), 30*time.Second)
	defer cancel()
	st, err := d.conn.OpenStreamSync(ctx)
	if err != nil {
		d.conn = nil
		return nil, err
	}
	frame := make([]byte, 2+len(raw))
	binary.BigEndian.PutUint16(frame, uint16(len(raw)))
	copy(frame[2:], raw)
	if _, err := st.Write(frame); err != nil {
		d.conn = nil
		return nil, err
	}
	_ = st.Close()
	_ = st.SetReadDeadline(time.Now().Add(30 * time.Second))
	b, err := io.ReadAll(st)
	if err != nil {
		d.conn = nil
		return nil, err
	}
	var out [][]byte
	for len(b) >= 2 {
		n := int(binary.BigEndian.Uint16(b))
		if len(b) < 2+n {
			out = append(out, []byte("TORN-FRAME"))
			break
		}
		out = append(out, append([]byte(nil), b[2:2+n]...))
		b = b[2+n:]
	}
	return out, nil
}

func (d *vkDoQ) close() {
	if d.conn != nil {
		_ = d.conn.CloseWithError(0, "")
	}
	_ = d.srv.Shutdown()
	_ = d.pc.Close()
}

func TestVerifC06DoQ(t *testing.T) {
	c := vkit.Init("C06/doq")
	defer c.Close()
	n := 0
	for _, cfg := range vkSrvConfigs(c.Thorough()) {
		w := vkNewSrvWorld(cfg)
		vkSeedWorld(w)
		d, err := vkStartDoQ(w)
		if err != nil {
			c.HarnessError("cannot start the DoQ server: " + err.Error())
			w.close()
			return
		}
		for ti, target := range vkSrvTargets {
			n++
			if !c.Mine(n) {
				continue
			}
			if c.OverBudget() {
				c.Cap("time budget")
				break
			}
			for pi, pkt := range vkPacketAlphabet(target, c.Thorough()) {
				raw := pkt.build()
				if len(raw) < 12 || new(dns.Msg).Unpack(raw) != nil {
					continue // DoQ ends the connection with a protocol error for what it cannot decode
				}
				cs := vkSrvCase{Cfg: cfg, Proto: "doq", Pkt: pkt, Client: vkSrvClient}
				replies, err := d.ask(raw)
				c.Add("evaluations", 1)
				if err != nil {
					c.Outcome("connection-ended")
					continue
				}
				v, o := vkC06Reply(cs, vkPath("doq"), raw, true, vkResult{replies: replies})
				c.Outcome("doq:" + o)
				if o != "no-reply" {
					c.DistinctStr("nontrivial", cs.key())
				}
				if pi == 5 && ti%5 == 0 {
					c.Sample(map[string]any{"case": cs.key(), "outcome": o})
				}
				if v != "" {
					// reproduce on a fresh world and connection
					w2 := vkNewSrvWorld(cfg)
					vkSeedWorld(w2)
					d2, err2 := vkStartDoQ(w2)
					v2 := ""
					if err2 == nil {
						_, _ = d2.ask(raw)
						if r2, e2 := d2.ask(raw); e2 == nil {
							v2, _ = vkC06Reply(cs, vkPath("doq"), raw, true, vkResult{replies: r2})
						}
						d2.close()
					}
					w2.close()
					if v2 == "" {
						c.Add("dropped_unreproducible", 1)
						continue
					}
					c.Violation("c06:"+vkSrvClass("c06", cs, "path doq: "+v2), "path doq: "+v2+"\n    case: "+cs.key(), cs)
					if c.NumViolations() > 8 {
						break
					}
				}
			}
		}
		d.close()
		w.close()
	}
	_ = fmt.Sprint
}
