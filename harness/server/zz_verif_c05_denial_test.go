//go:build verif

package server

// C05/denial — the wire ladder's cached-failure rung versus the decoded ladder's
// aggressive-denial rung (RFC 8198 before RFC 9520).
//
// The decoded ladder evaluates cached NSEC / NSEC3 proofs BEFORE it looks at a
// cached resolution failure; the wire ladder serves the cached failure from bytes
// when the failure's "miss witness" (the denial zones' snapshot pointers at the
// time the failing question was handed to resolution) still holds. Whether that
// short-cut is observable depends on the HISTORY that built the cache, so this
// unit enumerates histories instead of cache states:
//
//	alphabet  P3  a validated NSEC3 ring of zone h.<k>.t. is admitted (apex, w, delegation n)
//	          Pn  validated NSEC intervals of the child zone n.h.<k>.t. are admitted (apex->a, f->m)
//	          Pc  as Pn, plus a stale interval a->m of the same zone that has 2 s left
//	              (it overlaps f->m: while it lives, names between f and m are not provable)
//	          T   the clock advances 3 s (past the stale interval, inside the 5 s failure backoff)
//	          Q:<name>   the client's question for <name>; the upstream FAILS (SERVFAIL) for it
//	          Q:<name>!  the same while every DNSSEC crypto slot is taken (the NSEC3 evaluator starves)
//
// Every history is played once PER ENTRY PATH, each path in a world of its own
// (same cache construction, same clock offsets): all Q steps of that world enter
// through the path under test, everything else is identical. The per-step replies
// (decoded message form, as in the sweep), the hand-off to resolution and the
// number of failures left behind must agree with the decoded entry's world.
// Playing each path in its own world matters: a decoded-path lookup prunes
// expired proof records and republishes the zone snapshot, i.e. it repairs the
// very state the wire path would trip over.
//
// Worlds are shared by a BATCH of histories (building one costs more than playing
// a history, and every world leaves a delayed block-list goroutine behind): history
// number j of a batch lives under its own label k<j>.t., so its zones, failures and
// witnesses share no name, ancestor zone or cache key with the others, and a batch
// stays below the proof cache's global bound (128 records). A divergence found in a
// batch is reported only if it reproduces with that history alone on fresh worlds.

import (
	"encoding/json"
	"fmt"
	"net/netip"
	"os"
	"sort"
	"strings"
	"testing"
	"time"

	"github.com/miekg/dns"
	"github.com/semihalev/sdns/internal/verifshim/vkit"
	"github.com/semihalev/sdns/internal/verifshim/vtime"
	"github.com/semihalev/sdns/middleware"
	"github.com/semihalev/sdns/middleware/resolver/dnssec"
)

const (
	vkDnSalt  = "CAFE"
	vkDnIter  = 1
	vkDnStale = 2 // TTL of the stale interval (seconds)
	vkDnStep  = 3 * time.Second
	vkDnBatch = 12 // histories per world: <= 8 proof records each, the proof cache holds 128
)

// question names of the alphabet: name -> qtype
var vkDnQ = map[string]uint16{
	"w": dns.TypeMX, // w.h.<k>.t. exists in the NSEC3 ring with {A}: NODATA is provable from P3
	"x": dns.TypeA,  // x.h.<k>.t. does not exist: NXDOMAIN is provable from P3
	"h": dns.TypeA,  // h.n.h.<k>.t.: between f and m - provable from Pn, not while a->m overlaps
	"a": dns.TypeMX, // a.n.h.<k>.t.: exists in the stale interval with {A}: NODATA provable from Pc only
	"b": dns.TypeA,  // b.n.h.<k>.t.: between a and f: covered by the stale interval only
}

// vkDnZones are the two zones of one history: an NSEC3-signed zone and its NSEC-signed child.
type vkDnZones struct{ z3, zn string }

func vkDnZonesOf(slot int) vkDnZones {
	z3 := fmt.Sprintf("h.k%d.t.", slot)
	return vkDnZones{z3: z3, zn: "n." + z3}
}

func (z vkDnZones) qname(n string) string {
	switch n {
	case "w", "x":
		return n + "." + z.z3
	}
	return n + "." + z.zn
}

func vkDnSig(owner string, covered uint16, zone string, ttl uint32) *dns.RRSIG {
	return &dns.RRSIG{
		Hdr:         dns.RR_Header{Name: owner, Rrtype: dns.TypeRRSIG, Class: dns.ClassINET, Ttl: ttl},
		TypeCovered: covered, Algorithm: dns.ECDSAP256SHA256, Labels: uint8(dns.CountLabel(owner)), OrigTtl: ttl,
		Expiration: 2208988800, Inception: 1577836800, KeyTag: 12345, SignerName: zone, Signature: "AA==",
	}
}

func vkDnSOA(zone string) []dns.RR {
	soa := &dns.SOA{Hdr: dns.RR_Header{Name: zone, Rrtype: dns.TypeSOA, Class: dns.ClassINET, Ttl: 300},
		Ns: "ns." + zone, Mbox: "h." + zone, Serial: 1, Refresh: 7200, Retry: 3600, Expire: 1209600, Minttl: 300}
	return []dns.RR{soa, vkDnSig(zone, dns.TypeSOA, zone, 300)}
}

func vkDnNSEC(owner, next, zone string, ttl uint32, types ...uint16) []dns.RR {
	n := &dns.NSEC{Hdr: dns.RR_Header{Name: owner, Rrtype: dns.TypeNSEC, Class: dns.ClassINET, Ttl: ttl}, NextDomain: next, TypeBitMap: types}
	return []dns.RR{n, vkDnSig(owner, dns.TypeNSEC, zone, ttl)}
}

// vkDnRing builds the complete NSEC3 chain of the zone z3 = {apex, w (A), n (delegation)}.
func vkDnRing(z vkDnZones) []dns.RR {
	type member struct {
		hash  string
		types []uint16
	}
	ms := []member{
		{dns.HashName(z.z3, dns.SHA1, vkDnIter, vkDnSalt), []uint16{dns.TypeNS, dns.TypeSOA, dns.TypeRRSIG, dns.TypeDNSKEY, dns.TypeNSEC3PARAM}},
		{dns.HashName("w."+z.z3, dns.SHA1, vkDnIter, vkDnSalt), []uint16{dns.TypeA, dns.TypeRRSIG}},
		{dns.HashName(z.zn, dns.SHA1, vkDnIter, vkDnSalt), []uint16{dns.TypeNS, dns.TypeDS, dns.TypeRRSIG}},
	}
	sort.Slice(ms, func(i, j int) bool { return ms[i].hash < ms[j].hash })
	var out []dns.RR
	for i, m := range ms {
		owner := strings.ToLower(m.hash) + "." + z.z3
		out = append(out, &dns.NSEC3{
			Hdr:  dns.RR_Header{Name: owner, Rrtype: dns.TypeNSEC3, Class: dns.ClassINET, Ttl: 300},
			Hash: dns.SHA1, Flags: 0, Iterations: vkDnIter, SaltLength: uint8(len(vkDnSalt) / 2), Salt: vkDnSalt,
			HashLength: 20, NextDomain: ms[(i+1)%len(ms)].hash, TypeBitMap: m.types,
		}, vkDnSig(owner, dns.TypeNSEC3, z.z3, 300))
	}
	return out
}

type vkDnWorld struct {
	*vkSrvWorld
	lim *dnssec.CryptoLimiter
}

func vkDnNewWorld(cfg vkSrvCfg) *vkDnWorld {
	w := &vkDnWorld{vkSrvWorld: vkNewSrvWorld(cfg), lim: dnssec.NewCryptoLimiter(1)}
	// the resolver owns the process-wide DNSSEC crypto gate and hands it to the cache; the resolver is not part of
	// this world, so the harness provides the real gate type with ONE slot (taken = saturated)
	set, ok := w.s.pipeline.Get("cache").(middleware.DNSSECCryptoLimiterSetter)
	if !ok {
		panic("vk: the cache handler takes no DNSSEC crypto limiter")
	}
	set.SetDNSSECCryptoLimiter(w.lim)
	return w
}

// install scripts the upstream for one history's zones: proof-bearing answers exist for type AAAA of three
// owners (marked as locally validated, as the resolver marks them); every other question FAILS upstream.
func (w *vkDnWorld) install(z vkDnZones) {
	proof := func(zone string, kind middleware.ValidatedNegativeProofKind, ns func() []dns.RR) func(*dns.Msg) *dns.Msg {
		return func(req *dns.Msg) *dns.Msg {
			m := vkReplyTo(req)
			if req.Question[0].Qtype != dns.TypeAAAA {
				m.Rcode = dns.RcodeServerFailure
				return m
			}
			m.AuthenticatedData = true
			m.Ns = append(vkDnSOA(zone), ns()...)
			middleware.MarkValidatedNegativeProofResponse(w.up.ctx, m, middleware.ValidatedNegativeProof{
				Subject: req.Question[0].Name, Zone: zone, Kind: kind, Aggressive: true})
			return m
		}
	}
	fail := func(req *dns.Msg) *dns.Msg {
		m := vkReplyTo(req)
		m.Rcode = dns.RcodeServerFailure
		return m
	}
	sc := w.up.script
	for n := range vkDnQ {
		sc[z.qname(n)] = fail
	}
	sc["w."+z.z3] = proof(z.z3, middleware.ValidatedNegativeProofNSEC3, func() []dns.RR { return vkDnRing(z) })
	sc["f."+z.zn] = proof(z.zn, middleware.ValidatedNegativeProofNSEC, func() []dns.RR {
		return append(vkDnNSEC(z.zn, "a."+z.zn, z.zn, 300, dns.TypeNS, dns.TypeSOA, dns.TypeRRSIG, dns.TypeNSEC, dns.TypeDNSKEY),
			vkDnNSEC("f."+z.zn, "m."+z.zn, z.zn, 300, dns.TypeA, dns.TypeRRSIG, dns.TypeNSEC)...)
	})
	sc["a."+z.zn] = proof(z.zn, middleware.ValidatedNegativeProofNSEC, func() []dns.RR {
		return vkDnNSEC("a."+z.zn, "m."+z.zn, z.zn, vkDnStale, dns.TypeA, dns.TypeRRSIG, dns.TypeNSEC)
	})
}

var vkDnAdmin = netip.MustParseAddrPort("198.51.100.7:5300")

func (w *vkDnWorld) admit(owner string) {
	p := vkBasePkt(owner, dns.TypeAAAA)
	p.OPT, p.DO, p.Size = true, true, 4096
	w.serve(vkPathDecoded, "tcp", vkDnAdmin, p.build())
}

func (w *vkDnWorld) failures() int {
	if h, ok := w.s.pipeline.Get("cache").(interface{ Stats() map[string]any }); ok {
		if n, ok := h.Stats()["failure_size"].(int); ok {
			return n
		}
	}
	return -1
}

type vkDnObs struct {
	Reply string
	Up    bool
	Rcode string
}

// vkDnPlay plays a batch of histories on ONE fresh world, history j under the label k<j>; Q steps enter through
// path/proto. One observation per Q step plus a closing one (failures the history left behind).
func vkDnPlay(cfg vkSrvCfg, hists [][]string, path vkPath, proto string, opt bool) [][]vkDnObs {
	vtime.SetOffset(0) // no other world is alive: every lane's world sees the same offsets at the same steps
	w := vkDnNewWorld(cfg)
	defer w.close()
	client := netip.MustParseAddrPort(vkSrvClient)
	out := make([][]vkDnObs, len(hists))
	for j, hist := range hists {
		z := vkDnZonesOf(j)
		w.install(z)
		before := w.failures()
		var obs []vkDnObs
		for i, op := range hist {
			switch {
			case op == "P3":
				w.admit("w." + z.z3)
			case op == "Pn":
				w.admit("f." + z.zn)
			case op == "Pc":
				w.admit("f." + z.zn)
				w.admit("a." + z.zn)
			case op == "T":
				vtime.Advance(vkDnStep)
			case strings.HasPrefix(op, "Q:"):
				n := strings.TrimSuffix(op[2:], "!")
				p := vkBasePkt(z.qname(n), vkDnQ[n])
				p.ID = uint16(0x6d00 + i)
				if opt {
					p.OPT, p.DO, p.Size = true, true, 1232
				}
				var release func()
				if strings.HasSuffix(op, "!") {
					rel, ok := w.lim.TryAcquire()
					if !ok {
						panic("vk: crypto slot already taken")
					}
					release = rel
				}
				r := w.serve(path, proto, client, p.build())
				if release != nil {
					release()
				}
				c := vkCanonReply(r.replies)
				rc := "dropped"
				if !c.Dropped {
					rc = dns.RcodeToString[c.Rcode]
					if c.Err != "" {
						rc = "undecodable"
					}
				}
				obs = append(obs, vkDnObs{Reply: c.String(), Up: r.up > 0, Rcode: rc})
			default:
				panic("vk: unknown op " + op)
			}
		}
		// what is cached at the end, as far as a later query can tell: the failures this history recorded (the number
		// of proof records is not compared - pruning expired ones is invisible to clients)
		obs = append(obs, vkDnObs{Reply: fmt.Sprintf("<end of history: %d cached failures recorded>", w.failures()-before), Rcode: "end"})
		out[j] = obs
	}
	return out
}

type vkDnLane struct {
	Path  vkPath
	Proto string
}

var vkDnLanes = []vkDnLane{{vkPathDecoded, "udp"}, {vkPathStrict, "udp"}, {vkPathInline, "udp"}, {vkPathServeMsg, "udp"}, {vkPathDecoded, "tcp"}, {vkPathStrict, "tcp"}}

type vkDnCase struct {
	Cfg  vkSrvCfg `json:"cfg"`
	Hist []string `json:"hist"`
	OPT  bool     `json:"opt"`
	TCP  bool     `json:"tcp"` // also the two stream lanes
}

type vkDnVerdict struct {
	viol, lane, outcome string
	nontrivial          bool
}

// vkDnJudge plays the batch on every lane and returns, per history, the first divergence from the decoded entry
// of the same transport.
func vkDnJudge(cfg vkSrvCfg, hists [][]string, opt, tcp bool) []vkDnVerdict {
	lanes := vkDnLanes[:4]
	if tcp {
		lanes = vkDnLanes
	}
	res := make([]vkDnVerdict, len(hists))
	ref := map[string][][]vkDnObs{}
	for _, ln := range lanes {
		all := vkDnPlay(cfg, hists, ln.Path, ln.Proto, opt)
		if ln.Path == vkPathDecoded {
			ref[ln.Proto] = all
			if ln.Proto == "udp" {
				for j, obs := range all {
					var rcs []string
					for _, o := range obs[:len(obs)-1] {
						x := o.Rcode
						if o.Up {
							x += "+res"
						} else {
							res[j].nontrivial = true // answered from the cache: a synthesized denial or a cached failure
						}
						rcs = append(rcs, x)
					}
					res[j].outcome = strings.Join(rcs, ",")
				}
			}
			continue
		}
		name := string(ln.Path) + "/" + ln.Proto
		for j, obs := range all {
			if res[j].viol != "" {
				continue
			}
			want := ref[ln.Proto][j]
			for i := range want {
				switch {
				case obs[i].Reply != want[i].Reply && i == len(want)-1:
					res[j].viol = fmt.Sprintf("%s and the decoded entry leave different failure state behind: %s, decoded: %s", name, obs[i].Reply, want[i].Reply)
				case obs[i].Reply != want[i].Reply:
					res[j].viol = fmt.Sprintf("%s and the decoded entry disagree on the reply to question #%d of the history\n    %-13s: %s\n    decoded      : %s",
						name, i+1, ln.Path, obs[i].Reply, want[i].Reply)
				case obs[i].Up != want[i].Up:
					res[j].viol = fmt.Sprintf("%s handed question #%d of the history to resolution: %v, the decoded entry: %v", name, i+1, obs[i].Up, want[i].Up)
				default:
					continue
				}
				res[j].lane = name
				break
			}
		}
	}
	return res
}

// vkDnAlphabet, simplest first: questions with a free evaluator, then the admissions, the clock, the starved questions.
func vkDnAlphabet(names []string) (ops []string, questions map[string]bool) {
	questions = map[string]bool{}
	for _, n := range names {
		ops = append(ops, "Q:"+n)
	}
	ops = append(ops, "P3", "Pn", "Pc", "T")
	for _, n := range names {
		ops = append(ops, "Q:"+n+"!")
	}
	for _, o := range ops {
		questions[o] = strings.HasPrefix(o, "Q:")
	}
	return ops, questions
}

// vkDnHistories: every sequence over the alphabet of length 1..depth that ends in a question
// (a history ending in an admission or a clock step observes nothing its prefix did not), shortest first.
func vkDnHistories(names []string, depth int) [][]string {
	ops, isQ := vkDnAlphabet(names)
	var out [][]string
	for d := 1; d <= depth; d++ {
		var rec func(cur []string)
		rec = func(cur []string) {
			if len(cur) == d {
				if isQ[cur[d-1]] {
					out = append(out, append([]string{}, cur...))
				}
				return
			}
			for _, o := range ops {
				rec(append(cur, o))
			}
		}
		rec(nil)
	}
	return out
}

// vkDnStaleExpires: a failure for the name the stale interval overlaps (h: between f and m) is recorded while that
// interval lives, and the clock then passes the interval's expiry - the subsequence Pc .. Q:h .. T. The unchanged
// tree violates for such histories (see the unit's note in checks/C05.py): they are enumerated only under
// VERIF_C05_DENIAL_ALL=1. Every other history with Pc and T stays in the default run.
func vkDnStaleExpires(h []string) bool {
	stage := 0
	for _, o := range h {
		switch {
		case stage == 0 && o == "Pc":
			stage = 1
		case stage == 1 && (o == "Q:h" || o == "Q:h!"):
			stage = 2
		case stage == 2 && o == "T":
			return true
		}
	}
	return false
}

func TestVerifC05Denial(t *testing.T) {
	c := vkit.Init("C05/denial")
	defer c.Close()
	// world construction touches the file system (config directory, block lists): sixteen shards doing that on a
	// loaded disk cost 50x what the histories themselves cost, a memory-backed directory does not
	if st, err := os.Stat("/dev/shm"); err == nil && st.IsDir() {
		_ = os.Setenv("TMPDIR", "/dev/shm")
	}
	if c.Replay != nil {
		var cs vkDnCase
		if json.Unmarshal(c.Replay, &cs) != nil {
			c.HarnessError("bad replay")
			return
		}
		if v := vkDnJudge(cs.Cfg, [][]string{cs.Hist}, cs.OPT, cs.TCP)[0]; v.viol != "" {
			c.Violation("denial:replay:"+v.lane, fmt.Sprintf("after %v: %s", cs.Hist, v.viol), cs)
		}
		return
	}
	all := os.Getenv("VERIF_C05_DENIAL_ALL") != "0" // every history since /repo 67f9696 repaired the expiring-record class (=0 leaves it out)
	maxViol := 4 // per shard
	if all {
		maxViol = 60
	}
	type plan struct {
		cfg   vkSrvCfg
		names []string
		depth int
		opt   bool
		tcp   bool
	}
	core, wide := []string{"w", "x", "h", "a"}, []string{"w", "x", "h", "a", "b"}
	plain := vkSrvCfg{Name: "plain"}
	plans := []plan{{plain, wide, 4, true, true}, {plain, core, 4, false, false}}
	if c.Thorough() {
		plans = []plan{{plain, wide, 4, true, true}, {plain, wide, 4, false, true},
			{vkSrvCfg{Name: "cookie+nsid+hosts", Cookie: true, NSID: true, Hosts: true}, wide, 4, true, true},
			{plain, wide, 5, true, false}}
	}
	i, off, dropped := 0, 0, 0
	for _, pl := range plans {
		var mine [][]string
		for _, h := range vkDnHistories(pl.names, pl.depth) {
			if vkDnStaleExpires(h) && !all {
				if off++; c.Mine(off) {
					c.Add("switched_off", 1)
				}
				continue
			}
			i++
			if c.Mine(i) {
				mine = append(mine, h)
			}
		}
		lanes := 4
		if pl.tcp {
			lanes = 6
		}
		for at := 0; at < len(mine); at += vkDnBatch {
			if c.OverBudget() {
				c.Cap("time budget")
				return
			}
			batch := mine[at:min(at+vkDnBatch, len(mine))]
			for j, v := range vkDnJudge(pl.cfg, batch, pl.opt, pl.tcp) {
				h := batch[j]
				hs := strings.Join(h, " ")
				c.Add("evaluations", int64(lanes))
				c.Add("histories", 1)
				c.Outcome(v.outcome)
				if v.nontrivial {
					c.DistinctStr("nontrivial", fmt.Sprintf("%s|%v|%s", pl.cfg.Name, pl.opt, hs))
				}
				if (at+j)%301 == 0 {
					c.Sample(map[string]any{"cfg": pl.cfg.Name, "opt": pl.opt, "hist": hs, "decoded": v.outcome})
				}
				if v.viol == "" {
					continue
				}
				// a divergence must reproduce with this history alone on fresh worlds (rules out a TTL second boundary
				// between two lanes and anything the batch's other histories left in the world)
				v2 := vkDnJudge(pl.cfg, [][]string{h}, pl.opt, pl.tcp)[0]
				if v2.viol == "" || v2.lane != v.lane {
					if c.Add("dropped_unreproducible", 1); dropped < 2 {
						dropped++
						c.Note(fmt.Sprintf("not reproduced alone (dropped): [%s] %.400s", hs, v.viol))
					}
					continue
				}
				c.Violation(fmt.Sprintf("denial:%s:%s opt=%v [%s]", v2.lane, pl.cfg.Name, pl.opt, hs),
					fmt.Sprintf("after the history [%s] (config %s, OPT %v): %s", hs, pl.cfg.Name, pl.opt, v2.viol),
					vkDnCase{Cfg: pl.cfg, Hist: h, OPT: pl.opt, TCP: pl.tcp})
				if c.NumViolations() > maxViol {
					return
				}
			}
		}
	}
}
