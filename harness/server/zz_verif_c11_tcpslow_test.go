//go:build verif

package server

// C11/tcpslow — a resolution that takes longer than the connection's own allowances. The TCP engine keeps
// one deadline per connection, refreshed per frame (tcpQueryWait, 2 s) and per write (tcpWriteWait, 2 s); a
// query whose resolution outlasts them is still an admitted query and is owed its one reply (the only bound
// the statement gives is the query timeout, 30 s here). Frames for which the scripted upstream takes 2.3 s
// are mixed with ordinary ones in every order and segmentation; the scripted connection fails writes under a
// deadline that had already passed when it was armed, exactly as a socket would. Oracle: the C11/tcp stream
// oracle, unchanged (one whole frame per completely delivered admitted query, in query order).

import (
	"encoding/json"
	"fmt"
	"testing"

	"github.com/semihalev/sdns/internal/verifshim/vkit"
)

func TestVerifC11TCPSlow(t *testing.T) {
	c := vkit.Init("C11/tcpslow")
	defer c.Close()
	newWorld := func() (*vkSrvWorld, string) {
		w := vkNewSrvWorld()
		w.newTCP(1)
		return w, w.warm(vkTagA)
	}
	w, h := newWorld()
	if h != "" {
		c.HarnessError(h)
		return
	}
	if c.Replay != nil {
		var tc vkTCPCase
		if err := json.Unmarshal(c.Replay, &tc); err != nil {
			c.HarnessError("bad replay: " + err.Error())
			return
		}
		v, h, _ := vkRunTCPCase(w, tc)
		if h != "" {
			c.HarnessError(h)
		} else if v != "" {
			c.Violation("tcpslow:"+tc.String(), v, nil)
		}
		return
	}
	seqs := [][]string{{"slow"}, {"slow", "miss"}, {"miss", "slow"}, {"hit", "slow"}, {"slow", "hit"}, {"slow", "slow"}}
	if c.Thorough() {
		seqs = append(seqs, []string{"miss", "slow", "miss"}, []string{"slow", "miss", "slow"}, []string{"slow", "qr", "miss"}, []string{"big2049", "slow"}, []string{"slow", "big2049"})
	}
	n := 0
	for _, kinds := range seqs {
		frames, stream, ends := vkBuildFrames(kinds, vkTagA)
		_ = frames
		// segmentations: everything in one read; one cut at every frame boundary and one byte into every frame
		cutSets := [][]int{nil}
		for i, e := range ends[:len(ends)-1] {
			cutSets = append(cutSets, []int{e})
			if c.Thorough() || i == 0 {
				cutSets = append(cutSets, []int{e + 1})
			}
		}
		for _, cuts := range cutSets {
			n++
			if !c.Mine(n) {
				continue
			}
			if c.OverBudget() {
				c.Cap("time budget")
				return
			}
			tc := vkTCPCase{Kinds: kinds, Cuts: cuts, Close: len(stream)}
			v, h, out := vkRunTCPCase(w, tc)
			if h != "" {
				c.HarnessError(tc.String() + ": " + h)
				return
			}
			c.Add("evaluations", 1)
			c.Add("traces", 1)
			c.Outcome(out)
			c.DistinctStr("nontrivial", tc.String())
			c.Sample(map[string]any{"case": tc.String(), "outcome": out})
			if v != "" {
				// confirm in a fresh world
				w2, h2 := newWorld()
				if h2 != "" {
					c.HarnessError(h2)
					return
				}
				v2, _, _ := vkRunTCPCase(w2, tc)
				if v2 == "" {
					c.Add("dropped_unreproducible", 1)
					continue
				}
				c.Violation("tcpslow:"+tc.String(), fmt.Sprintf("%s (upstream takes %v for the frames marked slow)", v2, vkSlowFor), tc)
				if c.NumViolations() > 6 {
					return
				}
			}
		}
	}
}
