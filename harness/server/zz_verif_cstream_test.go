//go:build verif

package server

// C10/stream — "on a stream connection replies to pipelined queries arrive
// whole, one per query, in query order": the real tcpStream staging buffer
// driven with every sequence of <= 3 (thorough 4) operations from
// {stage(payload of length n), flush} where n ranges over the lengths around
// every boundary of the drain buffer (empty, half, full minus/plus the frame
// prefix, larger than the buffer). What reaches the connection must parse as
// exactly the staged payloads, each whole, in order.

import (
	"bytes"
	"encoding/binary"
	"encoding/json"
	"fmt"
	"net"
	"net/netip"
	"testing"
	"time"

	"github.com/semihalev/sdns/internal/verifshim/vkit"
)

// vkMemConn is an in-memory net.Conn capturing what the stream writes.
type vkMemConn struct {
	remote, local net.Addr
	wr            bytes.Buffer
}

func (c *vkMemConn) Read([]byte) (int, error)         { return 0, fmt.Errorf("vk: no read") }
func (c *vkMemConn) Write(b []byte) (int, error)      { return c.wr.Write(b) }
func (c *vkMemConn) Close() error                     { return nil }
func (c *vkMemConn) LocalAddr() net.Addr              { return c.local }
func (c *vkMemConn) RemoteAddr() net.Addr             { return c.remote }
func (c *vkMemConn) SetDeadline(time.Time) error      { return nil }
func (c *vkMemConn) SetReadDeadline(time.Time) error  { return nil }
func (c *vkMemConn) SetWriteDeadline(time.Time) error { return nil }

type vkStreamCase struct {
	Ops []int `json:"ops"` // >0: stage a payload of that length; 0: flush
}

func vkStreamPayload(idx, n int) []byte {
	b := make([]byte, n)
	for i := range b {
		b[i] = byte(idx*61 + i*7 + 1)
	}
	return b
}

func vkStreamRun(cs vkStreamCase) string {
	conn := &vkMemConn{remote: net.TCPAddrFromAddrPort(netip.MustParseAddrPort("198.51.100.77:40000")), local: net.TCPAddrFromAddrPort(netip.MustParseAddrPort("127.0.0.1:53"))}
	s := &tcpStream{}
	s.reset(conn)
	var want [][]byte
	for i, op := range cs.Ops {
		if op == 0 {
			if err := s.flush(); err != nil {
				return "flush failed: " + err.Error()
			}
			continue
		}
		p := vkStreamPayload(i, op)
		if err := s.stage(p); err != nil {
			return fmt.Sprintf("stage(%d) failed: %v", op, err)
		}
		want = append(want, p)
	}
	if err := s.flush(); err != nil {
		return "final flush failed: " + err.Error()
	}
	b := conn.wr.Bytes()
	for i, w := range want {
		if len(b) < 2 {
			return fmt.Sprintf("reply %d of %d missing from the stream (%d bytes left)", i, len(want), len(b))
		}
		n := int(binary.BigEndian.Uint16(b))
		if n != len(w) {
			return fmt.Sprintf("reply %d announces %d bytes, its payload has %d (stream desynchronised)", i, n, len(w))
		}
		if len(b) < 2+n {
			return fmt.Sprintf("reply %d is torn: %d of %d payload bytes on the stream", i, len(b)-2, n)
		}
		if !bytes.Equal(b[2:2+n], w) {
			return fmt.Sprintf("reply %d does not carry its own bytes (another reply's bytes inside it)", i)
		}
		b = b[2+n:]
	}
	if len(b) != 0 {
		return fmt.Sprintf("%d stray bytes after the last reply", len(b))
	}
	return ""
}

func TestVerifC10Stream(t *testing.T) {
	c := vkit.Init("C10/stream")
	defer c.Close()
	if c.Replay != nil {
		var cs vkStreamCase
		if json.Unmarshal(c.Replay, &cs) != nil {
			c.HarnessError("bad replay")
			return
		}
		if v := vkStreamRun(cs); v != "" {
			c.Violation("stream:replay", v, cs)
		}
		return
	}
	probe := &tcpStream{}
	probe.reset(&vkMemConn{})
	D := len(probe.drain)
	if D < 64 {
		c.HarnessError(fmt.Sprintf("unexpected drain buffer size %d", D))
		return
	}
	set := map[int]bool{0: true}
	for _, base := range []int{0, D / 2, D} {
		for d := -6; d <= 4; d++ {
			if n := base + d; n > 0 && n <= 65535 {
				set[n] = true
			}
		}
	}
	for _, n := range []int{12, 100, D / 3, D/3 - 2, D/3 - 1, 65535} {
		set[n] = true
	}
	var alpha []int
	for n := range set {
		alpha = append(alpha, n)
	}
	// deterministic order
	for i := range alpha {
		for j := i + 1; j < len(alpha); j++ {
			if alpha[j] < alpha[i] {
				alpha[i], alpha[j] = alpha[j], alpha[i]
			}
		}
	}
	depth := 3
	if c.Thorough() {
		depth = 4
	}
	n := 0
	var rec func(cur []int)
	rec = func(cur []int) {
		if len(cur) > 0 {
			n++
			if c.Mine(n) {
				cs := vkStreamCase{Ops: append([]int{}, cur...)}
				v := vkStreamRun(cs)
				c.Add("evaluations", 1)
				total := 0
				for _, x := range cur {
					total += x
				}
				switch {
				case total+2*len(cur) > D:
					c.Outcome("spans-the-buffer")
					c.DistinctStr("nontrivial", fmt.Sprint(cur))
				default:
					c.Outcome("fits-the-buffer")
				}
				if n%5003 == 0 {
					c.Sample(map[string]any{"ops": cur, "drain": D})
				}
				if v != "" {
					c.Violation(fmt.Sprintf("stream:%v", cur), v+fmt.Sprintf(" (ops %v, drain buffer %d)", cur, D), cs)
				}
			}
		}
		if len(cur) == depth || c.NumViolations() > 6 || c.OverBudget() {
			return
		}
		for _, a := range alpha {
			rec(append(cur, a))
		}
	}
	rec(nil)
}
