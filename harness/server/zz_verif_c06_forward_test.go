//go:build verif

package server

// C06 unit "forward": the reply clauses on the FORWARDER route. The real forwarder handler stands where the
// default chain has it, behind the real cache, and talks to a scripted upstream on loopback which — while
// keeping the ID and the question (up to letter case), i.e. everything the forwarder's client insists on —
// shapes the header of its answer in every way an upstream can: question re-spelled in lower / upper case,
// QR clear, another opcode, RD flipped, RA clear, the Z bit, AA, AD. Every (deviation x name spelling x
// qtype x transport x client flag variant x entry path) is served twice on a name of its own: the first
// serve is a forwarder miss, the second a cache hit; both replies are judged by the sweep's oracle
// (QR, ID, opcode, question echoed as the client spelled it, OPT/DNSSEC/AD discipline, size).

import (
	"encoding/json"
	"fmt"
	"net/netip"
	"strings"
	"testing"

	"github.com/miekg/dns"
	"github.com/semihalev/sdns/internal/verifshim/vkit"
)

type vkFwdCase struct {
	Dev     string `json:"dev"`
	Mixed   bool   `json:"mixed"`
	Qtype   uint16 `json:"qtype"`
	Proto   string `json:"proto"`
	Variant string `json:"variant"`
	Path    vkPath `json:"path"`
}

func (c vkFwdCase) String() string {
	return fmt.Sprintf("upstream=%s mixed-case=%v %s %s client=%s path=%s", c.Dev, c.Mixed, dns.TypeToString[c.Qtype], c.Proto, c.Variant, c.Path)
}

var vkFwdVariants = []string{"rd", "rd0", "do", "cd", "ad", "opt"}

func vkFwdPkt(cs vkFwdCase, serial int) vkPkt {
	dev := cs.Dev
	rest := fmt.Sprintf("n%d.fwd.t.", serial)
	if cs.Mixed {
		dev = strings.ToUpper(dev[:1]) + dev[1:]
		rest = fmt.Sprintf("N%d.fWd.T.", serial)
	}
	p := vkBasePkt(dev+"."+rest, cs.Qtype)
	switch cs.Variant {
	case "rd0":
		p.RD = false
	case "do":
		p.OPT, p.DO, p.Size = true, true, 1232
	case "cd":
		p.CD = true
	case "ad":
		p.AD = true
	case "opt":
		p.OPT, p.Size = true, 4096
	case "do+ad":
		p.OPT, p.DO, p.Size, p.AD = true, true, 1232, true
	case "do+cd":
		p.OPT, p.DO, p.Size, p.CD = true, true, 1232, true
	case "cookie+nsid":
		p.OPT, p.Size, p.Options = true, 1232, []string{"cookie8", "nsid"}
	case "opt512":
		p.OPT, p.Size = true, 512
	}
	return p
}

// vkFwdRun serves the case's packet twice (miss, then hit) on a fresh name; returns the first violation.
func vkFwdRun(w *vkSrvWorld, cs vkFwdCase, serial int) (viol, outcome string) {
	p := vkFwdPkt(cs, serial)
	raw := p.build()
	jcs := vkSrvCase{Cfg: w.spec, Proto: cs.Proto, Pkt: p, Client: vkSrvClient}
	if cs.Path == vkPathDoHPost || cs.Path == vkPathDoHGet {
		jcs.Proto = "doh"
	}
	client := netip.MustParseAddrPort(vkSrvClient)
	for round, what := range []string{"first serve (forwarder miss)", "second serve"} {
		w.fwd.mu.Lock()
		before := w.fwd.queries
		w.fwd.mu.Unlock()
		r := w.serve(cs.Path, cs.Proto, client, raw)
		w.fwd.mu.Lock()
		asked := w.fwd.queries - before
		w.fwd.mu.Unlock()
		v, o := vkC06Reply(jcs, cs.Path, raw, true, r)
		if v != "" {
			return what + ": " + v, "violation"
		}
		if round == 0 {
			outcome = fmt.Sprintf("%s/upstream-asked=%v", o, asked > 0)
		} else {
			outcome += fmt.Sprintf(";%s/upstream-asked=%v", o, asked > 0)
		}
	}
	return "", outcome
}

func vkFwdCfg() vkSrvCfg { return vkSrvCfg{Name: "forward", Cookie: true, NSID: true, Forward: true} }

func TestVerifC06Forward(t *testing.T) {
	c := vkit.Init("C06/forward")
	defer c.Close()
	if c.Replay != nil {
		var cs vkFwdCase
		if err := json.Unmarshal(c.Replay, &cs); err != nil {
			c.HarnessError("bad replay: " + err.Error())
			return
		}
		w := vkNewSrvWorld(vkFwdCfg())
		defer w.close()
		if v, _ := vkFwdRun(w, cs, 1); v != "" {
			c.Violation("c06:forward:replay", v+"\n    case: "+cs.String(), cs)
		}
		return
	}
	w := vkNewSrvWorld(vkFwdCfg())
	defer w.close()
	serial := 0
	n := 0
	for _, dev := range vkFwdDeviations {
		for _, mixed := range []bool{false, true} {
			for _, qt := range []uint16{dns.TypeA, dns.TypeTXT} {
				for _, proto := range []string{"udp", "tcp"} {
					paths := []vkPath{vkPathDecoded, vkPathStrict, vkPathServeMsg}
					if proto == "udp" {
						paths = append(paths, vkPathInline)
					} else {
						paths = append(paths, vkPathDoHPost, vkPathDoHGet)
					}
					variants := vkFwdVariants
					if c.Thorough() {
						variants = append(append([]string{}, variants...), "do+ad", "do+cd", "cookie+nsid", "opt512")
					}
					for _, variant := range variants {
						for _, path := range paths {
							n++
							if !c.Mine(n) {
								continue
							}
							if c.OverBudget() {
								c.Cap("time budget")
								return
							}
							serial++
							cs := vkFwdCase{Dev: dev, Mixed: mixed, Qtype: qt, Proto: proto, Variant: variant, Path: path}
							v, out := vkFwdRun(w, cs, serial+c.Shard()*100000)
							c.Add("evaluations", 2)
							c.Outcome(out)
							c.DistinctStr("nontrivial", cs.String())
							if n%211 == 0 {
								c.Sample(map[string]any{"case": cs.String(), "outcome": out})
							}
							if v == "" {
								continue
							}
							// confirm in a fresh world
							w2 := vkNewSrvWorld(vkFwdCfg())
							v2, _ := vkFwdRun(w2, cs, 1)
							w2.close()
							if v2 == "" {
								c.Add("dropped_unreproducible", 1)
								continue
							}
							clause := strings.SplitN(strings.SplitN(v2, ": ", 2)[1], " ", 4)
							c.Violation(fmt.Sprintf("c06:forward:%s:%s", dev, strings.Join(clause[:min(3, len(clause))], " ")), v2+"\n    case: "+cs.String(), cs)
							if c.NumViolations() > 12 {
								return
							}
						}
					}
				}
			}
		}
	}
}
