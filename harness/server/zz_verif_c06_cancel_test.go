//go:build verif

package server

// C06/cancel — replies written by handlers that sit IN FRONT of the edns handler (they end
// the chain with Chain.CancelWithRcode before the edns response writer is installed):
// today that is the rate limiter's BADCOOKIE. Such a reply is a reply like any other: it
// must stay within what the client negotiated and reflect nothing of the client's options
// but the cookie.
//
// A BADCOOKIE needs a two-packet history from one client address: a first query with
// client cookie A (the limiter remembers the server cookie it handed out), then a second
// with another cookie. Enumerated: second packet = client cookie B x every option kind of
// the packet alphabet (alone and in pairs) x {DO, CD, advertised size, EDNS version,
// additional A record} x entry path (decoded, strict, inline; datagram transport — the
// limiter answers BADCOOKIE over UDP only), each history from its own client address.
// Every reply is judged by the C06 reply judge.

import (
	"encoding/json"
	"fmt"
	"net/netip"
	"testing"

	"github.com/miekg/dns"
	"github.com/semihalev/sdns/internal/verifshim/vkit"
)

type vkCancelCase struct {
	Path vkPath `json:"path"`
	Pkt  vkPkt  `json:"pkt"`
	N    int    `json:"n"`
}

func vkCancelRun(w *vkSrvWorld, cs vkCancelCase) (viol string, outcome string) {
	client := netip.AddrPortFrom(netip.AddrFrom4([4]byte{198, 51, byte(100 + cs.N/250%3), byte(1 + cs.N%250)}), 4000)
	first := vkBasePkt("hit.t.", dns.TypeA)
	first.OPT, first.Size, first.Options = true, 1232, []string{"cookie8"}
	first.ID = 0x3131
	r1 := w.serve(cs.Path, "udp", client, first.build())
	if len(r1.replies) != 1 {
		return fmt.Sprintf("harness: the first query of the history got %d replies", len(r1.replies)), ""
	}
	raw := cs.Pkt.build()
	r2 := w.serve(cs.Path, "udp", client, raw)
	sc := vkSrvCase{Cfg: w.spec, Proto: "udp", Pkt: cs.Pkt, Client: client.String()}
	decodable := new(dns.Msg).Unpack(raw) == nil
	v, o := vkC06Reply(sc, cs.Path, raw, decodable, r2)
	if v != "" {
		return fmt.Sprintf("path %s, second query of client %s (first: cookie8): %s", cs.Path, client.Addr(), v), "violation"
	}
	if len(r2.replies) == 1 {
		m := new(dns.Msg)
		if m.Unpack(r2.replies[0]) == nil && m.Rcode == dns.RcodeBadCookie {
			o = "BADCOOKIE"
		}
	}
	return "", o
}

func TestVerifC06Cancel(t *testing.T) {
	c := vkit.Init("C06/cancel")
	defer c.Close()
	newWorld := func() *vkSrvWorld {
		w := vkNewSrvWorld(vkSrvCfg{Name: "client-ratelimit", RateLimit: 100000, Cookie: true})
		vkSeedWorld(w)
		return w
	}
	w := newWorld()
	defer func() { w.close() }()
	if c.Replay != nil {
		var cs vkCancelCase
		if json.Unmarshal(c.Replay, &cs) != nil {
			c.HarnessError("bad replay")
			return
		}
		if v, _ := vkCancelRun(w, cs); v != "" {
			c.Violation("cancel:replay", v, cs)
		}
		return
	}
	optKinds := []string{"nsid", "ecs4", "ecs6", "ecsfam0", "ecsbadmask", "padding", "keepalive0", "keepalive2", "unknown", "ede"}
	var pkts []vkPkt
	add := func(mod func(*vkPkt)) {
		p := vkBasePkt("hit.t.", dns.TypeA)
		p.OPT, p.Size, p.Options = true, 1232, []string{"cookie8b"}
		mod(&p)
		pkts = append(pkts, p)
	}
	add(func(p *vkPkt) {})
	for _, k := range optKinds {
		k := k
		add(func(p *vkPkt) { p.Options = append(p.Options, k) })
		add(func(p *vkPkt) { p.Options = append([]string{k}, p.Options...) })
		add(func(p *vkPkt) { p.Options = append(p.Options, k); p.DO = true })
	}
	if c.Thorough() {
		for i := range optKinds {
			for j := i + 1; j < len(optKinds); j++ {
				a, b := optKinds[i], optKinds[j]
				add(func(p *vkPkt) { p.Options = append(p.Options, a, b) })
			}
		}
	}
	add(func(p *vkPkt) { p.Size = 4096 })
	add(func(p *vkPkt) { p.Size = 512 })
	add(func(p *vkPkt) { p.Size = 0 })
	add(func(p *vkPkt) { p.Size = 65535; p.DO = true })
	add(func(p *vkPkt) { p.CD = true })
	add(func(p *vkPkt) { p.AD = true })
	add(func(p *vkPkt) { p.Version = 1 })
	add(func(p *vkPkt) { p.ExtraA = true })
	add(func(p *vkPkt) { p.Options = []string{"cookie24"} })
	add(func(p *vkPkt) { p.Options = []string{"cookie41"} })
	add(func(p *vkPkt) { p.Name = "miss.t." })
	add(func(p *vkPkt) { p.Qtype = dns.TypeRRSIG })
	n := 0
	for _, path := range []vkPath{vkPathDecoded, vkPathStrict, vkPathInline} {
		for _, p := range pkts {
			n++
			if !c.Mine(n) {
				continue
			}
			if c.OverBudget() {
				c.Cap("time budget")
				return
			}
			cs := vkCancelCase{Path: path, Pkt: p, N: n}
			v, out := vkCancelRun(w, cs)
			c.Add("evaluations", 1)
			c.Outcome(out)
			if out == "BADCOOKIE" {
				c.DistinctStr("nontrivial", fmt.Sprintf("%s|%v", path, p))
			}
			if n%17 == 0 {
				c.Sample(map[string]any{"path": path, "second": fmt.Sprint(p), "outcome": out})
			}
			if v == "" {
				continue
			}
			if len(v) > 8 && v[:8] == "harness:" {
				c.HarnessError(v)
				return
			}
			// reproduce on a fresh world (and a fresh client address)
			w2 := newWorld()
			cs2 := cs
			cs2.N = n + 5000
			v2, _ := vkCancelRun(w2, cs2)
			w2.close()
			if v2 == "" {
				c.Add("dropped_unreproducible", 1)
				continue
			}
			what := "other"
			for _, k := range []string{"client-subnet", "padding", "foreign/unknown", "keepalive", "NSID", "exceeds the negotiated", "BADVERS", "cookie"} {
				if containsStr(v, k) {
					what = k
					break
				}
			}
			c.Violation(fmt.Sprintf("cancel:%s:%s", path, what), v, cs)
			if c.NumViolations() > 12 {
				return
			}
		}
	}
}

func containsStr(s, sub string) bool {
	for i := 0; i+len(sub) <= len(s); i++ {
		if s[i:i+len(sub)] == sub {
			return true
		}
	}
	return false
}
