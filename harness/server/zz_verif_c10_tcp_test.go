//go:build verif

package server

// C10/tcp — two scripted connections (clients A and B) served alternately by
// the same real TCP engine, with every sync.Pool in LIFO mode and the slab
// ring as small as the constructor allows (1 or 2 slabs per class), so
// the job slab, the per-connection stream, the chain, the edns/cache writers
// and the pack state one client releases are exactly what the other client
// gets next.
//
// Space: frame sequences of both clients x one cut per client stream x every
// interleaving of the read deliveries and the two peer-close events.
// Oracle: every frame a connection receives is a whole frame answering ITS
// query (ID, question, marker, in order) and contains no occurrence of the
// other client's label bytes anywhere; ignored / malformed / panicking
// requests leave nothing behind for the other client; afterwards the engine
// is quiescent.

import (
	"encoding/json"
	"fmt"
	"strings"
	"testing"

	"github.com/semihalev/sdns/internal/verifshim/vkit"
)

type vkC10Case struct {
	Slabs  int      `json:"slabs"`
	KindsA []string `json:"a"`
	KindsB []string `json:"b"`
	CutA   int      `json:"cut_a"` // 0 = whole stream in one read
	CutB   int      `json:"cut_b"`
	Order  string   `json:"order"` // string over {a,b}: whose next event (read, read, close) happens
	// Seq: connection A lives and DIES (the peer closes after CloseA bytes, possibly in the middle of a frame or of a
	// length prefix) before connection B is accepted: B draws the stream, slab and pooled objects A has just released
	Seq    bool `json:"seq,omitempty"`
	CloseA int  `json:"close_a,omitempty"`
}

func (c vkC10Case) String() string {
	if c.Seq {
		return fmt.Sprintf("slabs=%d seq A=[%s] cut=%d close=%d then B=[%s]", c.Slabs, strings.Join(c.KindsA, ","), c.CutA, c.CloseA, strings.Join(c.KindsB, ","))
	}
	return fmt.Sprintf("slabs=%d A=[%s]@%d B=[%s]@%d order=%s", c.Slabs, strings.Join(c.KindsA, ","), c.CutA, strings.Join(c.KindsB, ","), c.CutB, c.Order)
}

type vkC10Client struct {
	tag      string
	conn     *vkConn
	frames   []vkFrame
	stream   []byte
	ends     []int
	chunks   [][]byte
	next     int  // next chunk index; len(chunks) = close event
	sent     int  // bytes delivered
	exited   bool
	closed   bool
}

func (cl *vkC10Client) complete() []vkFrame {
	var out []vkFrame
	for i, e := range cl.ends {
		if e <= cl.sent {
			out = append(out, cl.frames[i])
		}
	}
	return out
}

// holdsSlab reports whether the parked connection is inside a frame body (it
// then owns a job slab until the body completes).
func (cl *vkC10Client) holdsSlab() bool {
	if cl.exited || cl.closed {
		return false
	}
	last := 0
	for _, e := range cl.ends {
		if e <= cl.sent {
			last = e
		}
	}
	return cl.sent-last >= 2
}

func vkRunC10Case(w *vkSrvWorld, tc vkC10Case) (viol, herr, outcome string, skipped bool) {
	mk := func(tag string, kinds []string, cut, n int) *vkC10Client {
		cl := &vkC10Client{tag: tag}
		cl.frames, cl.stream, cl.ends = vkBuildFrames(kinds, tag)
		if cut > 0 && cut < len(cl.stream) {
			cl.chunks = [][]byte{cl.stream[:cut], cl.stream[cut:]}
		} else {
			cl.chunks = [][]byte{cl.stream}
		}
		cl.conn = vkNewConn(tag, n)
		return cl
	}
	a, b := mk(vkTagA, tc.KindsA, tc.CutA, 1), mk(vkTagB, tc.KindsB, tc.CutB, 2)
	// a fresh engine per case: slabs, streams and tokens start empty, so a
	// case never depends on what an earlier case left in a slab
	w.newTCP(tc.Slabs)
	defer func() { w.purge(a.frames); w.purge(b.frames) }()
	for _, cl := range []*vkC10Client{a, b} {
		if h := w.start(cl.conn); h != "" {
			return "", h, "", false
		}
	}
	foreign := map[string][][]byte{vkTagA: {[]byte(vkTagB)}, vkTagB: {[]byte(vkTagA)}}
	finish := func(cl *vkC10Client) string {
		if !cl.exited && !cl.closed {
			cl.closed = true
			return cl.conn.eof()
		}
		return ""
	}
	for _, who := range tc.Order {
		cl, other := a, b
		if who == 'b' {
			cl, other = b, a
		}
		if cl.exited || cl.closed {
			continue
		}
		if cl.next >= len(cl.chunks) {
			if h := finish(cl); h != "" {
				return "", h, "", false
			}
			continue
		}
		if tc.Slabs == 1 && other.holdsSlab() {
			// With a single slab this delivery could need the slab the other
			// connection holds inside its frame body; the engine would then
			// wait on real time. Not part of the explored space.
			_ = finish(a)
			_ = finish(b)
			return "", "", "", true
		}
		chunk := cl.chunks[cl.next]
		cl.next++
		ev, h := cl.conn.deliver(chunk)
		if h != "" {
			return "", h, "", false
		}
		cl.sent += len(chunk)
		if ev == "exit" {
			cl.exited = true
			continue
		}
		last := 0
		for _, e := range cl.ends {
			if e <= cl.sent {
				last = e
			}
		}
		mid, _ := cl.conn.output()
		if v := vkJudgeStreamAt(cl.tag, cl.complete(), mid, foreign[cl.tag], cl.sent-last < 2); v != "" {
			_ = finish(a)
			_ = finish(b)
			return "while waiting for more input: " + v, "", "violation", false
		}
	}
	for _, cl := range []*vkC10Client{a, b} {
		if h := finish(cl); h != "" {
			return "", h, "", false
		}
	}
	nrep := 0
	for _, cl := range []*vkC10Client{a, b} {
		out, _ := cl.conn.output()
		if v := vkJudgeStream(cl.tag, cl.complete(), out, foreign[cl.tag]); v != "" {
			return v, "", "violation", false
		}
		fr, _ := vkSplitFrames(out)
		nrep += len(fr)
	}
	if v := w.tcpQuiesced(); v != "" {
		return "after both connections closed: " + v, "", "violation", false
	}
	return "", "", fmt.Sprintf("replies=%d slabs-live=%d", nrep, w.tcp.smallCache.size()+w.tcp.largeCache.size()), false
}

// vkRunC10Seq: A's whole life first (reads up to CloseA, one cut, peer close), then B's.
func vkRunC10Seq(w *vkSrvWorld, tc vkC10Case) (viol, herr, outcome string) {
	fa, sa, ea := vkBuildFrames(tc.KindsA, vkTagA)
	fb, sb, _ := vkBuildFrames(tc.KindsB, vkTagB)
	if tc.CloseA < 1 || tc.CloseA > len(sa) {
		return "", fmt.Sprintf("bad close point %d", tc.CloseA), ""
	}
	w.newTCP(tc.Slabs)
	defer func() { w.purge(fa); w.purge(fb) }()
	ca := vkNewConn(vkTagA, 1)
	if h := w.start(ca); h != "" {
		return "", h, ""
	}
	exited := false
	bounds := []int{tc.CloseA}
	if tc.CutA > 0 && tc.CutA < tc.CloseA {
		bounds = []int{tc.CutA, tc.CloseA}
	}
	prev := 0
	for _, b := range bounds {
		ev, h := ca.deliver(sa[prev:b])
		if h != "" {
			return "", h, ""
		}
		prev = b
		if ev == "exit" {
			exited = true
			break
		}
	}
	if !exited {
		if h := ca.eof(); h != "" {
			return "", h, ""
		}
	}
	var completeA []vkFrame
	for i, e := range ea {
		if e <= prev {
			completeA = append(completeA, fa[i])
		}
	}
	cb := vkNewConn(vkTagB, 2)
	if h := w.start(cb); h != "" {
		return "", h, ""
	}
	if ev, h := cb.deliver(sb); h != "" {
		return "", h, ""
	} else if ev != "exit" {
		if h := cb.eof(); h != "" {
			return "", h, ""
		}
	}
	outA, _ := ca.output()
	outB, _ := cb.output()
	if v := vkJudgeStream(vkTagA, completeA, outA, [][]byte{[]byte(vkTagB)}); v != "" {
		return "connection A: " + v, "", "violation"
	}
	if v := vkJudgeStream(vkTagB, fb, outB, [][]byte{[]byte(vkTagA)}); v != "" {
		return "connection B, accepted after A had gone: " + v, "", "violation"
	}
	if v := w.tcpQuiesced(); v != "" {
		return "after both connections closed: " + v, "", "violation"
	}
	frs, _ := vkSplitFrames(outB)
	return "", "", fmt.Sprintf("seq: residue=%d repliesB=%d", len(sa[:prev])-func() int {
		last := 0
		for _, e := range ea {
			if e <= prev {
				last = e
			}
		}
		return last
	}(), len(frs))
}

// vkInterleavings lists every merge of na events of 'a' with nb events of 'b'.
func vkInterleavings(na, nb int) []string {
	if na == 0 {
		return []string{strings.Repeat("b", nb)}
	}
	if nb == 0 {
		return []string{strings.Repeat("a", na)}
	}
	var out []string
	for _, s := range vkInterleavings(na-1, nb) {
		out = append(out, "a"+s)
	}
	for _, s := range vkInterleavings(na, nb-1) {
		out = append(out, "b"+s)
	}
	return out
}

func TestVerifC10TCP(t *testing.T) {
	c := vkit.Init("C10/tcp")
	defer c.Close()
	worlds := map[int]*vkSrvWorld{}
	world := func(slabs int, fresh bool) (*vkSrvWorld, string) {
		if w := worlds[slabs]; w != nil && !fresh {
			return w, ""
		}
		w := vkNewSrvWorld()
		w.newTCP(slabs)
		if !fresh {
			worlds[slabs] = w
		}
		return w, w.warm(vkTagA, vkTagB)
	}
	if c.Replay != nil {
		var tc vkC10Case
		if err := json.Unmarshal(c.Replay, &tc); err != nil {
			c.HarnessError("bad replay: " + err.Error())
			return
		}
		w, h := world(tc.Slabs, true)
		if h != "" {
			c.HarnessError(h)
			return
		}
		var v string
		if tc.Seq {
			v, h, _ = vkRunC10Seq(w, tc)
		} else {
			v, h, _, _ = vkRunC10Case(w, tc)
		}
		if h != "" {
			c.HarnessError(h)
		} else if v != "" {
			c.Violation("c10tcp:"+tc.String(), v, nil)
		}
		return
	}
	kinds := []string{"hit", "miss", "malf", "qr", "notify", "panic"}
	seqs1 := vkAllKindSeqs(kinds, 1)
	seqs2 := vkAllKindSeqs(kinds, 2)
	type pair struct{ a, b [][]string }
	pairs := []pair{{seqs1, seqs1}, {seqs2, seqs1}, {seqs1, seqs2}}
	if c.Thorough() {
		kinds = append(kinds, "big2048", "big2049", "short")
		seqs1 = vkAllKindSeqs(kinds, 1)
		seqs2 = vkAllKindSeqs(kinds, 2)
		pairs = []pair{{seqs1, seqs1}, {seqs2, seqs1}, {seqs1, seqs2}, {seqs2, seqs2}}
	}
	// per-request EDNS state of a reused slab: one client sends a cookie, the other an EDNS
	// query without one (both orders, one or two frames each)
	ck := [][]string{{"ckhit"}, {"ckhit", "ckhit"}, {"hit", "ckhit"}, {"ckhit", "miss"}}
	ed := [][]string{{"edhit"}, {"edhit", "edhit"}, {"ckhit"}, {"hit", "edhit"}}
	pairs = append(pairs, pair{ck, ed}, pair{ed, ck})
	cutsOf := func(kk []string) []int {
		frames, _, _ := vkBuildFrames(kk, vkTagA)
		return append([]int{0}, vkInteresting(frames)...)
	}
	item := 0
	stop := false
	// sequential family: A is closed by its peer at every interesting offset (whole frames, mid-prefix, mid-body), one cut,
	// then B is accepted and sends its frames
	for _, ka := range append(append([][]string{}, seqs1...), seqs2...) {
		for _, kb := range [][]string{{"hit"}, {"miss"}, {"hit", "miss"}} {
			item++
			if !c.Mine(item) || stop {
				continue
			}
			if c.OverBudget() {
				c.Cap("time budget reached")
				stop = true
				continue
			}
			fr, st, _ := vkBuildFrames(ka, vkTagA)
			closes := append(vkInteresting(fr), len(st))
			for _, slabs := range []int{1, 2} {
				w, h := world(slabs, false)
				if h != "" {
					c.HarnessError(h)
					return
				}
				for _, cl := range closes {
					if cl > len(st) {
						continue
					}
					for _, cut := range []int{0, 1, 3} {
						tc := vkC10Case{Slabs: slabs, Seq: true, KindsA: ka, KindsB: kb, CutA: cut, CloseA: cl}
						v, h, out := vkRunC10Seq(w, tc)
						if h != "" {
							c.HarnessError(tc.String() + ": " + h)
							return
						}
						c.Add("evaluations", 1)
						c.Add("traces", 1)
						c.Outcome(out)
						c.DistinctStr("states", "seq|"+tc.String())
						if strings.Contains(out, "residue=") && !strings.Contains(out, "residue=0 ") {
							c.DistinctStr("nontrivial", "seq|"+tc.String())
						}
						if v != "" {
							w2, h2 := world(slabs, true)
							if h2 != "" {
								c.HarnessError(h2)
								return
							}
							if v2, _, _ := vkRunC10Seq(w2, tc); v2 == "" {
								c.Add("dropped_unreproducible", 1)
								continue
							}
							c.Violation("c10tcp:seq:"+strings.Join(ka, ",")+">"+strings.Join(kb, ","), v+"\n    case: "+tc.String(), tc)
							if c.NumViolations() > 6 {
								stop = true
							}
						}
					}
				}
			}
		}
	}
	for _, p := range pairs {
		for _, ka := range p.a {
			for _, kb := range p.b {
				item++
				if !c.Mine(item) || stop {
					continue
				}
				if c.OverBudget() {
					c.Cap("time budget reached")
					stop = true
					continue
				}
				for _, slabs := range []int{1, 2} {
					w, h := world(slabs, false)
					if h != "" {
						c.HarnessError(h)
						return
					}
					for _, ca := range cutsOf(ka) {
						for _, cb := range cutsOf(kb) {
							na, nb := 2, 2
							if ca > 0 {
								na = 3
							}
							if cb > 0 {
								nb = 3
							}
							for _, ord := range vkInterleavings(na, nb) {
								if stop {
									break
								}
								tc := vkC10Case{Slabs: slabs, KindsA: ka, KindsB: kb, CutA: ca, CutB: cb, Order: ord}
								v, h, out, skipped := vkRunC10Case(w, tc)
								if h != "" {
									c.HarnessError(tc.String() + ": " + h)
									return
								}
								if skipped {
									c.Add("skipped_single_slab_contention", 1)
									continue
								}
								c.Add("evaluations", 1)
								c.Add("traces", 1)
								c.Add("transitions", int64(len(ord)))
								c.Outcome(out)
								key := fmt.Sprintf("%d|%s|%s|%v|%v|%s", slabs, strings.Join(ka, ","), strings.Join(kb, ","), ca > 0, cb > 0, ord)
								c.DistinctStr("states", key)
								if strings.Contains(ord[:len(ord)-1], "ab") && strings.Contains(ord, "ba") {
									c.DistinctStr("nontrivial", key)
								}
								if v != "" {
									w2, h2 := world(slabs, true)
									if h2 != "" {
										c.HarnessError(h2)
										return
									}
									v2, _, _, _ := vkRunC10Case(w2, tc)
									if v2 == "" {
										c.HarnessError(fmt.Sprintf("%s: violation did not reproduce on a fresh world: %s", tc, v))
										return
									}
									c.Violation("c10tcp:"+tc.String(), v2, tc)
									delete(worlds, slabs)
									if w, h = world(slabs, false); h != "" {
										c.HarnessError(h)
										return
									}
									if c.NumViolations() >= 10 {
										stop = true
									}
								}
							}
						}
					}
				}
				if item%97 == 0 {
					c.Sample(map[string]any{"a": strings.Join(ka, ","), "b": strings.Join(kb, ",")})
				}
			}
		}
	}
}
