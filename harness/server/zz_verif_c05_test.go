//go:build verif

package server

// C05 — wire fast path and decoded path are observationally equivalent.
// C06 — every reply respects what the client sent and negotiated.
//
// One sweep serves both: (config x cache state x packet shape x transport) is
// enumerated completely; every packet is pushed through every entry path of the
// real Server (strict wire-born, reader-inline + worker-replay, decoded entry,
// ServeMsg). C05 compares the decoded replies and the upstream hand-off of the
// paths pairwise; C06 judges every single reply against the packet SPEC.

import (
	"encoding/json"
	"fmt"
	"net/netip"
	"strings"
	"testing"

	"github.com/miekg/dns"
	"github.com/semihalev/sdns/internal/verifshim/vkit"
	"github.com/semihalev/sdns/middleware"
)

// ---------------------------------------------------------------- cache states

func vkRR(s string) dns.RR {
	rr, err := dns.NewRR(s)
	if err != nil {
		panic(err)
	}
	return rr
}

func vkReplyTo(req *dns.Msg) *dns.Msg {
	m := new(dns.Msg)
	m.SetReply(req)
	m.RecursionAvailable = true
	return m
}

// vkSeedWorld installs the upstream scripts and admits the generated upstream
// responses by asking through the decoded entry (so admission itself is the real code).
func vkSeedWorld(w *vkSrvWorld) {
	soa := "t. 300 IN SOA ns.t. h.t. 1 7200 3600 1209600 300"
	sc := w.up.script
	defer func() {
		// only (name, A) — and hit.t./AAAA — are admitted state; any other type is answered
		// TC=1 (never cached) so that serving a packet cannot change the cache between paths
		for name, f := range sc {
			name, f := name, f
			sc[name] = func(req *dns.Msg) *dns.Msg {
				qt := req.Question[0].Qtype
				if req.Question[0].Qclass == dns.ClassINET && (qt == dns.TypeA || (name == "hit.t." && qt == dns.TypeAAAA)) {
					return f(req)
				}
				m := vkReplyTo(req)
				m.Truncated = true
				return m
			}
		}
	}()
	sc["hit.t."] = func(req *dns.Msg) *dns.Msg {
		m := vkReplyTo(req)
		switch req.Question[0].Qtype {
		case dns.TypeA:
			m.Answer = []dns.RR{vkRR("hit.t. 300 IN A 192.0.2.10"), vkRR("hit.t. 300 IN A 192.0.2.11")}
		case dns.TypeAAAA:
			m.Answer = []dns.RR{vkRR("hit.t. 300 IN AAAA 2001:db8::10")}
		default:
			m.Ns = []dns.RR{vkRR(soa)}
		}
		return m
	}
	sc["cn.t."] = func(req *dns.Msg) *dns.Msg {
		m := vkReplyTo(req)
		m.Answer = []dns.RR{vkRR("cn.t. 300 IN CNAME hit.t.")}
		return m
	}
	// an alias whose upstream answer carried a real (non-OPT) additional record and, for cnns.t., an
	// authority section: every section of the stored alias must reach the client on every path
	sc["cnx.t."] = func(req *dns.Msg) *dns.Msg {
		m := vkReplyTo(req)
		m.Answer = []dns.RR{vkRR("cnx.t. 300 IN CNAME hit.t.")}
		m.Extra = []dns.RR{vkRR("ns1.t. 300 IN A 192.0.2.53")}
		return m
	}
	sc["cnns.t."] = func(req *dns.Msg) *dns.Msg {
		m := vkReplyTo(req)
		m.Answer = []dns.RR{vkRR("cnns.t. 300 IN CNAME hit.t.")}
		m.Ns = []dns.RR{vkRR("t. 300 IN NS ns1.t.")}
		m.Extra = []dns.RR{vkRR("ns1.t. 300 IN A 192.0.2.53")}
		return m
	}
	// validated alias (AD=1) whose target was validated when the alias was admitted and is
	// re-admitted unvalidated afterwards: the only way both stored pieces end up AD=1 / AD=0
	tgtAD := true
	sc["tgt.t."] = func(req *dns.Msg) *dns.Msg {
		m := vkReplyTo(req)
		m.AuthenticatedData = tgtAD
		m.Answer = []dns.RR{vkRR("tgt.t. 300 IN A 192.0.2.70")}
		return m
	}
	sc["cnad.t."] = func(req *dns.Msg) *dns.Msg {
		m := vkReplyTo(req)
		m.AuthenticatedData = true
		m.Answer = []dns.RR{vkRR("cnad.t. 300 IN CNAME tgt.t.")}
		return m
	}
	defer func() {
		// after everything is admitted: the target loses its validated status
		tgtAD = false
		if pg, ok := w.s.pipeline.Get("cache").(interface{ Purge(dns.Question) }); ok {
			pg.Purge(dns.Question{Name: "tgt.t.", Qtype: dns.TypeA, Qclass: dns.ClassINET})
		}
		client := netip.MustParseAddrPort("198.51.100.7:5300")
		for _, cd := range []bool{false, true} {
			p := vkBasePkt("tgt.t.", dns.TypeA)
			p.OPT, p.DO, p.Size, p.CD = true, true, 4096, cd
			w.serve(vkPathDecoded, "tcp", client, p.build())
		}
	}()
	sc["cnsig.t."] = func(req *dns.Msg) *dns.Msg { // unvalidated alias pointing at a validated, signed target
		m := vkReplyTo(req)
		m.Answer = []dns.RR{vkRR("cnsig.t. 300 IN CNAME sig.t.")}
		return m
	}
	sc["cnu.t."] = func(req *dns.Msg) *dns.Msg {
		m := vkReplyTo(req)
		m.Answer = []dns.RR{vkRR("cnu.t. 300 IN CNAME uncached.t.")}
		return m
	}
	sc["uncached.t."] = func(req *dns.Msg) *dns.Msg {
		m := vkReplyTo(req)
		m.Answer = []dns.RR{vkRR("uncached.t. 300 IN A 192.0.2.20")}
		m.Truncated = true // passes through, never cached: the alias target stays uncached
		return m
	}
	sc["sig.t."] = func(req *dns.Msg) *dns.Msg {
		m := vkReplyTo(req)
		m.AuthenticatedData = true
		m.Answer = []dns.RR{vkRR("sig.t. 300 IN A 192.0.2.30"),
			vkRR("sig.t. 300 IN RRSIG A 13 2 300 20400101000000 20200101000000 12345 t. AAAA")}
		return m
	}
	// an exact entry BELOW the name whose NXDOMAIN cut is admitted afterwards (the zone changed in between): the
	// exact entry answers first on every path, whatever the later rungs of the ladder hold for the name
	sc["keep.nx.t."] = func(req *dns.Msg) *dns.Msg {
		m := vkReplyTo(req)
		m.AuthenticatedData = true
		m.Answer = []dns.RR{vkRR("keep.nx.t. 300 IN A 192.0.2.31"),
			vkRR("keep.nx.t. 300 IN RRSIG A 13 3 300 20400101000000 20200101000000 12345 t. AAAA")}
		for i := 0; i < 40; i++ { // large enough to exceed a 512-octet client's limit
			m.Answer = append(m.Answer, vkRR(fmt.Sprintf("keep.nx.t. 300 IN A 192.0.3.%d", i+1)))
		}
		return m
	}
	sc["nx.t."] = func(req *dns.Msg) *dns.Msg {
		m := vkReplyTo(req)
		m.Rcode = dns.RcodeNameError
		m.AuthenticatedData = true
		m.Ns = []dns.RR{vkRR(soa), vkRR("t. 300 IN RRSIG SOA 13 1 300 20400101000000 20200101000000 12345 t. AAAA"),
			vkRR("nw.t. 300 IN NSEC ny.t. A RRSIG NSEC"), vkRR("nw.t. 300 IN RRSIG NSEC 13 2 300 20400101000000 20200101000000 12345 t. AAAA"),
			vkRR("t. 300 IN NSEC a0.t. NS SOA RRSIG NSEC DNSKEY"), vkRR("t. 300 IN RRSIG NSEC 13 1 300 20400101000000 20200101000000 12345 t. AAAA")}
		// locally validated denial: admits the RFC 8020 subtree cut and the RFC 8198 proof
		middleware.MarkValidatedNegativeProofResponse(w.up.ctx, m, middleware.ValidatedNegativeProof{
			Subject: "nx.t.", Zone: "t.", Kind: middleware.ValidatedNegativeProofNSEC, Aggressive: true})
		return m
	}
	sc["nd.t."] = func(req *dns.Msg) *dns.Msg {
		m := vkReplyTo(req)
		m.Ns = []dns.RR{vkRR(soa)}
		return m
	}
	// denials of an UNSIGNED-looking upstream: NSEC / NSEC3 records without any RRSIG next to them (a NODATA and a positive
	// answer carrying them): still DNSSEC records a client without DO must not be shown, whatever decides "has DNSSEC"
	sc["nsecraw.t."] = func(req *dns.Msg) *dns.Msg {
		m := vkReplyTo(req)
		m.Ns = []dns.RR{vkRR(soa), vkRR("nsecraw.t. 300 IN NSEC nsecraw2.t. TXT NSEC"),
			vkRR("0p9mhaveqvm6t7vbl5lop2u3t2rp3tom.t. 300 IN NSEC3 1 0 0 - 0p9mhaveqvm6t7vbl5lop2u3t2rp3ton TXT")}
		return m
	}
	sc["nsecpos.t."] = func(req *dns.Msg) *dns.Msg {
		m := vkReplyTo(req)
		m.Answer = []dns.RR{vkRR("nsecpos.t. 300 IN A 192.0.2.43")}
		m.Ns = []dns.RR{vkRR("nsecpos.t. 300 IN NSEC nsecpos2.t. A NSEC")}
		return m
	}
	sc["ede.t."] = func(req *dns.Msg) *dns.Msg {
		m := vkReplyTo(req)
		m.Answer = []dns.RR{vkRR("ede.t. 300 IN A 192.0.2.40")}
		opt := &dns.OPT{Hdr: dns.RR_Header{Name: ".", Rrtype: dns.TypeOPT}}
		opt.SetUDPSize(1232)
		opt.Option = []dns.EDNS0{&dns.EDNS0_EDE{InfoCode: dns.ExtendedErrorCodeStaleAnswer, ExtraText: "vk stale"},
			&dns.EDNS0_SUBNET{Code: dns.EDNS0SUBNET, Family: 1, SourceNetmask: 24, SourceScope: 0, Address: []byte{10, 1, 2, 0}},
			&dns.EDNS0_TCP_KEEPALIVE{Code: dns.EDNS0TCPKEEPALIVE, Timeout: 77},
			&dns.EDNS0_COOKIE{Code: dns.EDNS0COOKIE, Cookie: "aaaaaaaaaaaaaaaabbbbbbbbbbbbbbbb"}}
		m.Extra = []dns.RR{opt}
		return m
	}
	sc["big.t."] = func(req *dns.Msg) *dns.Msg {
		m := vkReplyTo(req)
		for i := 0; i < 110; i++ {
			m.Answer = append(m.Answer, vkRR(fmt.Sprintf("big.t. 300 IN A 192.0.%d.%d", 3+i/200, i%200+1)))
		}
		return m
	}
	sc["mid.t."] = func(req *dns.Msg) *dns.Msg { // just around 512 bytes
		m := vkReplyTo(req)
		for i := 0; i < 30; i++ {
			m.Answer = append(m.Answer, vkRR(fmt.Sprintf("mid.t. 300 IN A 192.0.5.%d", i+1)))
		}
		return m
	}
	sc["xtra.t."] = func(req *dns.Msg) *dns.Msg { // small answer, additional section beyond any UDP size
		m := vkReplyTo(req)
		m.Answer = []dns.RR{vkRR("xtra.t. 300 IN A 192.0.2.50")}
		for i := 0; i < 110; i++ {
			m.Extra = append(m.Extra, vkRR(fmt.Sprintf("glue%d.xtra.t. 300 IN A 192.0.6.%d", i, i+1)))
		}
		return m
	}
	sc["optup.t."] = func(req *dns.Msg) *dns.Msg { // never cached (TC): the upstream's own OPT, AD and signatures pass the writer chain
		m := vkReplyTo(req)
		m.Truncated = true
		m.AuthenticatedData = true
		m.Answer = []dns.RR{vkRR("optup.t. 300 IN A 192.0.2.60"),
			vkRR("optup.t. 300 IN RRSIG A 13 2 300 20400101000000 20200101000000 12345 t. AAAA")}
		opt := &dns.OPT{Hdr: dns.RR_Header{Name: ".", Rrtype: dns.TypeOPT}}
		opt.SetUDPSize(1232)
		opt.Option = []dns.EDNS0{
			&dns.EDNS0_SUBNET{Code: dns.EDNS0SUBNET, Family: 1, SourceNetmask: 24, SourceScope: 24, Address: []byte{10, 1, 2, 0}},
			&dns.EDNS0_TCP_KEEPALIVE{Code: dns.EDNS0TCPKEEPALIVE, Timeout: 77},
			&dns.EDNS0_COOKIE{Code: dns.EDNS0COOKIE, Cookie: "aaaaaaaaaaaaaaaabbbbbbbbbbbbbbbb"}}
		m.Extra = []dns.RR{opt}
		return m
	}
	sc["opt2up.t."] = func(req *dns.Msg) *dns.Msg { // as optup.t., but the upstream's options sit in a FIRST OPT, an empty second OPT follows
		m := sc["optup.t."](req)
		if len(m.Extra) == 1 {
			second := &dns.OPT{Hdr: dns.RR_Header{Name: ".", Rrtype: dns.TypeOPT}}
			second.SetUDPSize(1232)
			m.Extra = append(m.Extra, second)
		}
		for _, rr := range m.Answer {
			rr.Header().Name = "opt2up.t."
		}
		return m
	}
	// a handler below the edns handler PANICS: the recovery middleware (first in the chain) answers SERVFAIL
	sc["boom.t."] = func(req *dns.Msg) *dns.Msg { panic("vk: scripted handler panic for boom.t.") }
	// a broken/hostile upstream puts an OPT record (its own cookie, size 4096) into the AUTHORITY / ANSWER section
	vkStrayOPT := func() dns.RR {
		o := &dns.OPT{Hdr: dns.RR_Header{Name: ".", Rrtype: dns.TypeOPT}}
		o.SetUDPSize(4096)
		o.Option = append(o.Option, &dns.EDNS0_COOKIE{Code: dns.EDNS0COOKIE, Cookie: "aaaaaaaaaaaaaaaabbbbbbbbbbbbbbbb"})
		return o
	}
	sc["optns.t."] = func(req *dns.Msg) *dns.Msg {
		m := vkReplyTo(req)
		if req.Question[0].Qtype == dns.TypeA {
			m.Answer = []dns.RR{&dns.A{Hdr: dns.RR_Header{Name: "optns.t.", Rrtype: dns.TypeA, Class: dns.ClassINET, Ttl: 300}, A: netip.MustParseAddr("192.0.2.41").AsSlice()}}
		}
		m.Ns = append(m.Ns, vkStrayOPT())
		return m
	}
	sc["optan.t."] = func(req *dns.Msg) *dns.Msg {
		m := vkReplyTo(req)
		if req.Question[0].Qtype == dns.TypeA {
			m.Answer = []dns.RR{&dns.A{Hdr: dns.RR_Header{Name: "optan.t.", Rrtype: dns.TypeA, Class: dns.ClassINET, Ttl: 300}, A: netip.MustParseAddr("192.0.2.42").AsSlice()}}
		}
		m.Answer = append(m.Answer, vkStrayOPT())
		return m
	}
	sc["sf.t."] = func(req *dns.Msg) *dns.Msg {
		m := vkReplyTo(req)
		m.Rcode = dns.RcodeServerFailure
		return m
	}
	sc["ref.t."] = func(req *dns.Msg) *dns.Msg {
		m := vkReplyTo(req)
		m.Rcode = dns.RcodeRefused
		return m
	}
	// admission: ask each once through the decoded entry, DO set so the complete answer is stored
	client := netip.MustParseAddrPort("198.51.100.7:5300")
	for _, n := range []string{"hit.t.", "sig.t.", "tgt.t.", "cn.t.", "cnx.t.", "cnns.t.", "cnad.t.", "cnsig.t.", "cnu.t.", "keep.nx.t.", "nx.t.", "nd.t.", "ede.t.", "big.t.", "mid.t.", "xtra.t.", "sf.t.", "ref.t.", "nsecraw.t.", "nsecpos.t."} {
		for _, cd := range []bool{false, true} {
			p := vkBasePkt(n, dns.TypeA)
			p.OPT, p.DO, p.Size, p.CD = true, true, 4096, cd
			w.serve(vkPathDecoded, "tcp", client, p.build())
		}
	}
	p := vkBasePkt("hit.t.", dns.TypeAAAA)
	w.serve(vkPathDecoded, "tcp", client, p.build())
}

var vkSrvTargets = []string{"hit.t.", "cn.t.", "cnx.t.", "cnns.t.", "cnad.t.", "tgt.t.", "cnsig.t.", "cnu.t.", "sig.t.", "nx.t.", "x.nx.t.", "keep.nx.t.", "nxa.t.", "nd.t.", "ede.t.", "big.t.", "mid.t.", "xtra.t.", "optup.t.", "opt2up.t.", "sf.t.", "ref.t.", "miss.t.", "hosts.t.", "1.10.in-addr.arpa.", ".", "boom.t.", "optns.t.", "optan.t.", "nsecraw.t.", "nsecpos.t."}

func vkSrvConfigs(thorough bool) []vkSrvCfg {
	cfgs := []vkSrvCfg{
		{Name: "plain"},
		{Name: "cookie+nsid+hosts", Cookie: true, NSID: true, Hosts: true},
		{Name: "no8198-no9520", NoRFC8198: true, NoRFC9520: true, Cookie: true},
		{Name: "ecs", ECS: true}, // client-subnet forwarding on for every client: the request OPT then carries a subnet of sdns's own making
	}
	if thorough {
		cfgs = append(cfgs, vkSrvCfg{Name: "prefetch+ecs", Prefetch: true, ECS: true, NSID: true}, vkSrvCfg{Name: "entry-ratelimit", EntryRL: 100000, Cookie: true})
	}
	return cfgs
}

type vkSrvCase struct {
	Cfg    vkSrvCfg `json:"cfg"`
	Proto  string   `json:"proto"`
	Pkt    vkPkt    `json:"pkt"`
	Client string   `json:"client"`
}

func (c vkSrvCase) key() string { return fmt.Sprintf("%s|%s|%v", c.Cfg.Name, c.Proto, c.Pkt) }

const vkSrvClient = "198.51.100.77:40000"

// vkComparable strips what legitimately differs between two serves of the same packet.
func vkComparable(c vkCanon) string { return c.String() }

// vkC05Compare runs the packet on every path and returns a description of the first divergence.
func vkC05Compare(w *vkSrvWorld, cs vkSrvCase) (string, string, map[vkPath]vkCanon, map[vkPath]vkResult) {
	raw := cs.Pkt.build()
	client := netip.MustParseAddrPort(cs.Client)
	paths := []vkPath{vkPathDecoded, vkPathStrict, vkPathServeMsg}
	if w.primer != nil {
		paths = []vkPath{vkPathDecoded, vkPathStrict} // only the slab-owning paths see a primer
	}
	if cs.Proto == "udp" {
		paths = append(paths, vkPathInline)
	}
	canon := map[vkPath]vkCanon{}
	results := map[vkPath]vkResult{}
	for _, p := range paths {
		r := w.serve(p, cs.Proto, client, raw)
		results[p] = r
		canon[p] = vkCanonReply(r.replies)
	}
	ref := canon[vkPathDecoded]
	outcome := "reply:" + dns.RcodeToString[ref.Rcode]
	if ref.Dropped {
		outcome = "dropped"
	}
	if results[vkPathDecoded].up > 0 {
		outcome += "+resolution"
	}
	for _, p := range paths[1:] {
		if p == vkPathServeMsg {
			// ServeMsg is entered only by transports that decoded the packet and applied their own
			// accept rules; header-level drops/rejects of the owned engines have no counterpart there
			if m := new(dns.Msg); m.Unpack(raw) != nil {
				continue
			}
			h, _ := vkHeaderOf(raw)
			if acceptHeader(h) != acceptOK {
				continue
			}
		}
		if vkComparable(canon[p]) != vkComparable(ref) {
			return fmt.Sprintf("path %s and the decoded path disagree on the reply\n    %-8s: %s\n    decoded : %s", p, p, canon[p], ref), outcome, canon, results
		}
		if (results[p].up > 0) != (results[vkPathDecoded].up > 0) {
			return fmt.Sprintf("path %s handed the query to resolution %d time(s), the decoded path %d time(s)", p, results[p].up, results[vkPathDecoded].up), outcome, canon, results
		}
	}
	return "", outcome, canon, results
}

func TestVerifC05(t *testing.T) {
	c := vkit.Init("C05/sweep")
	defer c.Close()
	vkSrvSweep(c, "c05")
}

func vkSrvSweep(c *vkit.Ctx, mode string) {
	judge := func(w *vkSrvWorld, cs vkSrvCase) (string, string) {
		if mode == "c05" {
			v, o, _, _ := vkC05Compare(w, cs)
			return v, o
		}
		return vkC06Judge(w, cs)
	}
	if c.Replay != nil {
		var cs vkSrvCase
		if json.Unmarshal(c.Replay, &cs) != nil {
			c.HarnessError("bad replay")
			return
		}
		w := vkNewSrvWorld(cs.Cfg)
		defer w.close()
		vkSeedWorld(w)
		v, _ := judge(w, cs)
		for _, pr := range vkPrimerPkts() {
			if v == "" {
				w.primer = pr
				v, _ = judge(w, cs)
			}
		}
		if v != "" {
			c.Violation(mode+":replay", v, cs)
		}
		return
	}
	i := 0
	for _, cfg := range vkSrvConfigs(c.Thorough()) {
		var w *vkSrvWorld
		for _, target := range vkSrvTargets {
			for _, proto := range []string{"udp", "tcp"} {
				i++
				if !c.Mine(i) {
					continue
				}
				if w == nil {
					w = vkNewSrvWorld(cfg)
					vkSeedWorld(w)
					if h, ok := w.s.pipeline.Get("cache").(interface{ Stats() map[string]any }); ok {
						st := h.Stats()
						c.Note(fmt.Sprintf("config %s seeded: positive=%v failures=%v cuts=%v proofs=%v", cfg.Name, st["positive_size"], st["failure_size"], st["nxdomain_cut_size"], st["denial_proof_size"]))
					}
				}
				for pi, pkt := range vkPacketAlphabet(target, c.Thorough()) {
					cs := vkSrvCase{Cfg: cfg, Proto: proto, Pkt: pkt, Client: vkSrvClient}
					c.Add("evaluations", 1)
					// reproduce runs the case on a fresh world (rules out TTL second boundaries, stale state and
					// whatever history the sweep left on the recycled slab). The packet is served once first and
					// that round discarded: a packet whose first serve itself changes shared state (e.g. records
					// a failure for a new ECS audience) would otherwise make the path that runs first look different.
					reproduce := func(primer []byte) string {
						w2 := vkNewSrvWorld(cfg)
						vkSeedWorld(w2)
						w2.primer = primer
						_, _ = judge(w2, cs)
						v2, _ := judge(w2, cs)
						w2.close()
						return v2
					}
					v, outcome := judge(w, cs)
					if v != "" {
						if v = reproduce(nil); v == "" {
							c.Add("dropped_unreproducible", 1)
						}
					}
					for pri, pr := range vkPrimerPkts() {
						if v != "" {
							break
						}
						// the same packet on a slab that has just served another client's EDNS query
						// (slab reuse is how the engines run); the second primer's reply carries AD=1 and a signed RRset
						w.primer = pr
						pv, o2 := judge(w, cs)
						w.primer = nil
						c.Add("evaluations", 1)
						c.Outcome(fmt.Sprintf("primed%d:%s", pri, o2))
						if pv != "" {
							if pv = reproduce(pr); pv == "" {
								c.Add("dropped_unreproducible", 1)
							} else {
								v = "after another client's EDNS query on the same slab: " + pv
							}
						}
					}
					c.Outcome(outcome)
					if !strings.HasPrefix(outcome, "dropped") {
						c.DistinctStr("nontrivial", cs.key())
					}
					if pi == 17 && proto == "udp" {
						c.Sample(map[string]any{"case": cs.key(), "outcome": outcome})
					}
					if v != "" {
						c.Violation(mode+":"+vkSrvClass(mode, cs, v), v+"\n    case: "+cs.key(), cs)
					}
				}
			}
		}
		if w != nil {
			w.close()
		}
	}
}

// vkSrvClass builds a stable violation class key: what differs, on which kind of packet.
func vkSrvClass(mode string, cs vkSrvCase, v string) string {
	first := strings.SplitN(v, "\n", 2)[0]
	if i := strings.Index(first, ":"); i > 0 && mode == "c06" {
		first = first[:i]
	}
	if len(first) > 90 {
		first = first[:90]
	}
	shape := cs.Pkt.Name
	if cs.Pkt.OPT {
		shape += fmt.Sprintf("/opt(v%d,%s)", cs.Pkt.Version, strings.Join(cs.Pkt.Options, "+"))
	}
	if cs.Pkt.Opcode != 0 {
		shape += fmt.Sprintf("/op%d", cs.Pkt.Opcode)
	}
	return first + " @" + shape + "/" + cs.Proto
}
