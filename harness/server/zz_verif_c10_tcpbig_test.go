//go:build verif

package server

// C10/tcpbig — replies of very different sizes pipelined on one connection. The stream stages small replies
// and sends a reply that exceeds its staging room by itself; whatever it does, the frames must leave in query
// order, each whole and each its own query's. Frames whose reply is ~9.5 KiB (45 filler records next to the
// marker answer; "huge" = resolved on a miss, "hugehit" = served from the cache on the strict path) are mixed with cached and uncached small ones in every order of up to three
// frames, delivered in one read and cut at / one byte after every frame boundary. Oracle: the C11/tcp stream
// oracle, unchanged (one whole frame per completely delivered admitted query, in query order, with its ID,
// question and marker).

import (
	"encoding/json"
	"testing"

	"github.com/semihalev/sdns/internal/verifshim/vkit"
)

func TestVerifC10TCPBig(t *testing.T) {
	c := vkit.Init("C10/tcpbig")
	defer c.Close()
	w := vkNewSrvWorld()
	w.newTCP(1)
	if h := w.warm(vkTagA); h != "" {
		c.HarnessError(h)
		return
	}
	if h := w.warmHuge(vkTagA); h != "" {
		c.HarnessError(h)
		return
	}
	if c.Replay != nil {
		var tc vkTCPCase
		if err := json.Unmarshal(c.Replay, &tc); err != nil {
			c.HarnessError("bad replay: " + err.Error())
			return
		}
		v, h, _ := vkRunTCPCase(w, tc)
		if h != "" {
			c.HarnessError(h)
		} else if v != "" {
			c.Violation("tcpbig:"+tc.String(), v, nil)
		}
		return
	}
	kinds := []string{"hit", "miss", "huge", "hugehit"}
	if c.Thorough() {
		kinds = []string{"hit", "miss", "huge", "hugehit", "edhit", "big2049", "qr", "malf"}
	}
	var seqs [][]string
	for n := 1; n <= 3; n++ {
		for _, s := range vkAllKindSeqs(kinds, n) {
			has := false
			for _, k := range s {
				has = has || k == "huge" || k == "hugehit"
			}
			if has {
				seqs = append(seqs, s)
			}
		}
	}
	n := 0
	for _, ks := range seqs {
		_, stream, ends := vkBuildFrames(ks, vkTagA)
		cutSets := [][]int{nil}
		for _, e := range ends[:len(ends)-1] {
			cutSets = append(cutSets, []int{e}, []int{e + 1})
		}
		if len(ends) == 3 {
			cutSets = append(cutSets, []int{ends[0], ends[1]})
		}
		for _, cuts := range cutSets {
			n++
			if !c.Mine(n) {
				continue
			}
			if c.OverBudget() {
				c.Cap("time budget")
				return
			}
			tc := vkTCPCase{Kinds: ks, Cuts: cuts, Close: len(stream)}
			v, h, out := vkRunTCPCase(w, tc)
			if h != "" {
				c.HarnessError(tc.String() + ": " + h)
				return
			}
			c.Add("evaluations", 1)
			c.Add("traces", 1)
			c.Outcome(out)
			c.DistinctStr("nontrivial", tc.String())
			if n%13 == 0 {
				c.Sample(map[string]any{"case": tc.String(), "outcome": out})
			}
			if v != "" {
				c.Violation("tcpbig:"+tc.String(), v, tc)
				if c.NumViolations() > 6 {
					return
				}
			}
		}
	}
}
