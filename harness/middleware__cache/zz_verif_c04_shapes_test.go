//go:build verif

package cache

// C04/shapes — the lifetime of ONE stored response, for every shape the resolver
// hands to the cache and every assignment of TTLs to its parts.
//
// Shapes: a plain answer; an answer with authority NS and glue; an alias whose
// target answer came back in the same response; an alias chain ending in a
// NODATA or NXDOMAIN (the answer section holds only the CNAMEs, the authority
// section the target zone's SOA); a plain NODATA / NXDOMAIN; each optionally
// signed (RRSIG over the last answer RRset or over the SOA, with its own expiry).
// Every part takes every value of a small TTL set, the response is admitted
// through the real pipeline, the clock is advanced to each side of every
// boundary the parameters define, and the name is asked again on every serving
// route. Oracle (reference written independently, from the property text):
// lifetime = clamp[5 s, 24 h](min(record TTLs, RRSIG time remaining, and — when
// the response carries a negative part, i.e. an SOA in the authority section —
// min(SOA TTL, SOA MINIMUM))); a reply served without going upstream must fall
// inside it and show no TTL above the time remaining.

import (
	"context"
	"encoding/json"
	"fmt"
	"strings"
	"testing"
	"time"

	"github.com/miekg/dns"
	"github.com/semihalev/sdns/internal/verifshim/vkit"
	"github.com/semihalev/sdns/internal/verifshim/vtime"
	"github.com/semihalev/sdns/middleware"
)

type vkShapeCase struct {
	Shape  string `json:"shape"`            // pos, pos+ns, al+pos, al+nodata, al2+nodata, al+nx, nodata, nx
	A      uint32 `json:"a"`                // TTL of the answer RRset (A) / of the NS+glue for pos+ns
	C      uint32 `json:"c"`                // TTL of the CNAME(s)
	S      uint32 `json:"s"`                // TTL of the SOA record
	M      uint32 `json:"m"`                // SOA MINIMUM
	Sig    int    `json:"sig"`              // seconds until the RRSIG (over the A RRset, or over the SOA) expires; 0 = unsigned
	SigTTL uint32 `json:"sigttl,omitempty"` // the RRSIG records' own header TTL (0 = same as the covered RRset)
	N      uint32 `json:"n,omitempty"`      // negative shapes: TTL of an NSEC record in the authority section (0 = none)
	Cut    int    `json:"cut,omitempty"`    // seconds of delegation lease left when upstream delivers (0 = unbounded); overrides the 5 s floor
	Probe  int    `json:"probe"`            // seconds the clock is advanced before the probes
	QType  uint16 `json:"qtype"`
	result string
}

func (c vkShapeCase) String() string {
	return fmt.Sprintf("%s a=%d c=%d soa=%d/min=%d sig=%d sigttl=%d nsec=%d lease=%d probe@%ds", c.Shape, c.A, c.C, c.S, c.M, c.Sig, c.SigTTL, c.N, c.Cut, c.Probe)
}

func (c vkShapeCase) negative() bool {
	return strings.HasSuffix(c.Shape, "nodata") || strings.HasSuffix(c.Shape, "nx")
}

// lifetime is the reference reading of the property statement.
func (c vkShapeCase) lifetime() time.Duration {
	min := uint32(1 << 30)
	lo := func(v uint32) {
		if v < min {
			min = v
		}
	}
	switch c.Shape {
	case "pos":
		lo(c.A)
	case "pos+ns":
		lo(c.A)
	case "al+pos":
		lo(c.A)
		lo(c.C)
	}
	if strings.HasPrefix(c.Shape, "al") {
		lo(c.C)
	}
	if c.negative() {
		lo(c.S)
		lo(c.M)
	}
	if c.Sig > 0 {
		lo(uint32(c.Sig))
	}
	return clampTTL(time.Duration(min) * time.Second)
}

const (
	vkShName   = "sh.t."
	vkShMid    = "shmid.t."
	vkShTarget = "shtgt.u."
)

func (c vkShapeCase) response(req *dns.Msg, now time.Time) *dns.Msg {
	m := new(dns.Msg)
	m.SetReply(req)
	m.RecursionAvailable = true
	q := req.Question[0]
	hdr := func(name string, t uint16, ttl uint32) dns.RR_Header {
		return dns.RR_Header{Name: name, Rrtype: t, Class: dns.ClassINET, Ttl: ttl}
	}
	a := func(name string) dns.RR {
		return &dns.A{Hdr: hdr(name, dns.TypeA, c.A), A: []byte{192, 0, 2, 55}}
	}
	soa := &dns.SOA{Hdr: hdr("u.", dns.TypeSOA, c.S), Ns: "ns.u.", Mbox: "h.u.", Serial: 1, Refresh: 1, Retry: 1, Expire: 1, Minttl: c.M}
	exp := now.Add(time.Duration(c.Sig) * time.Second)
	vkSig := func(owner string, covered uint16, ttl uint32, exp time.Time) *dns.RRSIG {
		sig := vkSig(owner, covered, ttl, exp)
		if c.SigTTL != 0 {
			sig.Hdr.Ttl = c.SigTTL
		}
		return sig
	}
	defer func() {
		if c.N != 0 && c.negative() {
			m.Ns = append(m.Ns, &dns.NSEC{Hdr: hdr("sh.t.", dns.TypeNSEC, c.N), NextDomain: "si.t.", TypeBitMap: []uint16{dns.TypeTXT, dns.TypeRRSIG, dns.TypeNSEC}})
			if c.Sig > 0 {
				m.Ns = append(m.Ns, vkSig("sh.t.", dns.TypeNSEC, c.N, exp))
			}
		}
	}()
	switch c.Shape {
	case "pos":
		m.Answer = []dns.RR{a(q.Name)}
		if c.Sig > 0 {
			m.Answer = append(m.Answer, vkSig(q.Name, dns.TypeA, c.A, exp))
		}
	case "pos+ns":
		m.Answer = []dns.RR{&dns.A{Hdr: hdr(q.Name, dns.TypeA, 300), A: []byte{192, 0, 2, 55}}}
		m.Ns = []dns.RR{&dns.NS{Hdr: hdr("t.", dns.TypeNS, c.A), Ns: "ns.t."}}
		m.Extra = []dns.RR{&dns.A{Hdr: hdr("ns.t.", dns.TypeA, c.A), A: []byte{192, 0, 2, 1}}}
	case "al+pos":
		m.Answer = []dns.RR{&dns.CNAME{Hdr: hdr(q.Name, dns.TypeCNAME, c.C), Target: vkShTarget}, a(vkShTarget)}
		if c.Sig > 0 {
			m.Answer = append(m.Answer, vkSig(vkShTarget, dns.TypeA, c.A, exp))
		}
	case "al+nodata", "al+nx", "al2+nodata":
		m.Answer = []dns.RR{&dns.CNAME{Hdr: hdr(q.Name, dns.TypeCNAME, c.C), Target: vkShTarget}}
		if c.Shape == "al2+nodata" {
			m.Answer = []dns.RR{&dns.CNAME{Hdr: hdr(q.Name, dns.TypeCNAME, 300), Target: vkShMid},
				&dns.CNAME{Hdr: hdr(vkShMid, dns.TypeCNAME, c.C), Target: vkShTarget}}
		}
		m.Ns = []dns.RR{soa}
		if c.Sig > 0 {
			m.Ns = append(m.Ns, vkSig("u.", dns.TypeSOA, c.S, exp))
		}
		if c.Shape == "al+nx" {
			m.Rcode = dns.RcodeNameError
		}
	case "nodata", "nx":
		soa.Hdr.Name = "t."
		m.Ns = []dns.RR{soa}
		if c.Sig > 0 {
			m.Ns = append(m.Ns, vkSig("t.", dns.TypeSOA, c.S, exp))
		}
		if c.Shape == "nx" {
			m.Rcode = dns.RcodeNameError
		}
	}
	return m
}

// vkShapePiece is one separately expiring part of what upstream delivered.
type vkShapePiece struct {
	life time.Duration
	at   time.Time // latest delivery by upstream
	seen bool
}

// pieceOf maps a record of a reply to the part of the upstream data it came from.
func (c vkShapeCase) pieceOf(rr dns.RR) string {
	h := rr.Header()
	t := h.Rrtype
	if sig, ok := rr.(*dns.RRSIG); ok {
		covered := *sig
		covered.Hdr.Rrtype = sig.TypeCovered
		return "sig:" + c.pieceOf(&dns.RFC3597{Hdr: covered.Hdr})
	}
	switch t {
	case dns.TypeNSEC:
		return "nsec"
	case dns.TypeCNAME:
		return "cname:" + strings.ToLower(h.Name)
	case dns.TypeSOA:
		return "neg"
	case dns.TypeNS:
		return "ns"
	case dns.TypeA:
		if strings.EqualFold(h.Name, "ns.t.") {
			return "ns"
		}
		return "a"
	}
	return "?"
}

// pieceLife is the reference lifetime of each part (property statement: record TTL, covering RRSIG
// expiry, and for the negative part min(SOA TTL, SOA MINIMUM); floored at 5 s, capped at 24 h).
func (c vkShapeCase) pieceLife(piece string) time.Duration {
	lo := func(vs ...uint32) time.Duration {
		m := uint32(1 << 30)
		for _, v := range vs {
			if v < m {
				m = v
			}
		}
		return clampTTL(time.Duration(m) * time.Second)
	}
	sig := uint32(1 << 30)
	if c.Sig > 0 {
		sig = uint32(c.Sig)
	}
	if strings.HasPrefix(piece, "sig:") {
		l := c.pieceLife(strings.TrimPrefix(piece, "sig:"))
		if c.SigTTL != 0 {
			if d := clampTTL(time.Duration(c.SigTTL) * time.Second); d < l {
				l = d
			}
		}
		return l
	}
	switch {
	case piece == "nsec":
		return lo(c.N, sig)
	case piece == "a" && c.Shape == "pos+ns":
		return lo(300)
	case piece == "a":
		return lo(c.A, sig)
	case piece == "ns":
		return lo(c.A)
	case piece == "neg":
		return lo(c.S, c.M, sig)
	case piece == "cname:"+vkShName && c.Shape == "al2+nodata":
		return lo(300)
	case strings.HasPrefix(piece, "cname:"):
		return lo(c.C)
	}
	return 0
}

// vkShapeRun admits the shaped response, advances the clock and probes every route.
func vkShapeRun(cs vkShapeCase) (viol string, outcome string) {
	vtime.SetOffset(0)
	w := vkNewWorld(nil)
	defer w.stop()
	defer vtime.SetOffset(0)
	pieces := map[string]*vkShapePiece{}
	w.stub.answer = func(ctx context.Context, req *dns.Msg) *dns.Msg {
		now := vtime.Now()
		if cs.Cut > 0 {
			// the resolver folds the lease of the delegation chain into the response meta
			if meta := middleware.ResponseMetaFrom(ctx); meta != nil {
				meta.BoundCut(now.Add(time.Duration(cs.Cut) * time.Second))
			}
		}
		var m *dns.Msg
		switch strings.ToLower(req.Question[0].Name) {
		case vkShName:
			m = cs.response(req, now)
		case vkShMid, vkShTarget:
			// the rest of the chain, asked for by the cache's own alias chase: the same data
			full := cs.response(req, now)
			m = new(dns.Msg)
			m.SetReply(req)
			m.RecursionAvailable = true
			m.Rcode = full.Rcode
			m.Ns, m.Extra = full.Ns, full.Extra
			keep := false
			for _, rr := range full.Answer {
				if strings.EqualFold(rr.Header().Name, req.Question[0].Name) {
					keep = true
				}
				if keep {
					m.Answer = append(m.Answer, rr)
				}
			}
		default:
			m = new(dns.Msg)
			m.SetRcode(req, dns.RcodeRefused)
			return m
		}
		for _, sec := range [][]dns.RR{m.Answer, m.Ns, m.Extra} {
			for _, rr := range sec {
				k := cs.pieceOf(rr)
				if pieces[k] == nil {
					pieces[k] = &vkShapePiece{}
				}
				pieces[k].at, pieces[k].life, pieces[k].seen = now, cs.pieceLife(k), true
				if l := time.Duration(cs.Cut) * time.Second; cs.Cut > 0 && l < pieces[k].life {
					pieces[k].life = l // the lease ends it, floor or not
				}
			}
		}
		return m
	}
	q := vkQ{Name: vkShName, Type: cs.QType, Class: dns.ClassINET, DO: cs.Sig > 0}
	first := w.ask(vkRouteMsg, q, 7)
	if first.stubCalls == 0 || first.msg == nil {
		return "harness: the admission did not reach upstream", ""
	}
	vtime.Advance(time.Duration(cs.Probe) * time.Second)
	var outs []string
	for _, route := range []vkRoute{vkRouteWire, vkRouteMsgBytes, vkRouteMsg} { // msg last: it may re-admit
		t := vtime.Now()
		r := w.ask(route, q, 8)
		if r.msg == nil {
			outs = append(outs, "none")
			continue
		}
		if r.stubCalls > 0 {
			outs = append(outs, "upstream") // (partly) fresh: judged when served from cache
			continue
		}
		outs = append(outs, "cache")
		for _, sec := range [][]dns.RR{r.msg.Answer, r.msg.Ns, r.msg.Extra} {
			for _, rr := range sec {
				if rr.Header().Rrtype == dns.TypeOPT {
					continue
				}
				k := cs.pieceOf(rr)
				p := pieces[k]
				if p == nil || !p.seen {
					continue // not upstream data of this case (nothing to hold it to)
				}
				age := t.Sub(p.at)
				what := dns.TypeToString[rr.Header().Rrtype] + " of " + rr.Header().Name
				if k == "neg" {
					what += " (negative part: lifetime min(SOA TTL, SOA MINIMUM))"
				}
				if age >= p.life {
					return fmt.Sprintf("route %s: %v: %s served from cache %.3fs after upstream delivered it, its lifetime is %v: %s",
						route, cs, what, age.Seconds(), p.life, vkMsgStr(r.msg)), "violation"
				}
				if rem := (p.life - age).Seconds(); float64(rr.Header().Ttl) > rem+0.05 {
					return fmt.Sprintf("route %s: %v: %s shown with TTL %d, only %.3fs of its lifetime (%v) remain: %s",
						route, cs, what, rr.Header().Ttl, rem, p.life, vkMsgStr(r.msg)), "violation"
				}
			}
		}
	}
	return "", strings.Join(outs, ",")
}

func TestVerifC04Shapes(t *testing.T) {
	c := vkit.Init("C04/shapes")
	defer c.Close()
	if c.Replay != nil {
		var cs vkShapeCase
		if json.Unmarshal(c.Replay, &cs) != nil {
			c.HarnessError("bad replay")
			return
		}
		if v, _ := vkShapeRun(cs); v != "" {
			c.Violation("shapes:replay", v, cs)
		}
		return
	}
	ttls := []uint32{2, 7, 30}
	if c.Thorough() {
		ttls = []uint32{0, 2, 5, 7, 30, 300}
	}
	sigs := []int{0, 12}
	if c.Thorough() {
		sigs = []int{0, 3, 12, 100}
	}
	shapes := []string{"pos", "pos+ns", "al+pos", "nodata", "nx", "al+nodata", "al2+nodata", "al+nx"}
	var cases []vkShapeCase
	for _, sh := range shapes {
		for _, a := range ttls {
			for _, cn := range ttls {
				for _, s := range ttls {
					for _, m := range ttls {
						for _, sig := range sigs {
							neg := strings.HasSuffix(sh, "nodata") || strings.HasSuffix(sh, "nx")
							al := strings.HasPrefix(sh, "al")
							// parameters a shape does not use are pinned (no duplicate cases)
							if (!neg && (s != ttls[0] || m != ttls[0])) || (!al && cn != ttls[0]) || (neg && a != ttls[0]) {
								continue
							}
							if sh == "pos+ns" && sig != 0 {
								continue
							}
							base := vkShapeCase{Shape: sh, A: a, C: cn, S: s, M: m, Sig: sig, QType: dns.TypeA}
							variants := []vkShapeCase{base}
							if sig != 0 {
								v := base
								v.SigTTL = 2
								variants = append(variants, v)
							}
							for _, cut := range []int{3, 9} {
								v := base
								v.Cut = cut
								variants = append(variants, v)
							}
							if neg {
								for _, n := range []uint32{2, 30} {
									v := base
									v.N = n
									variants = append(variants, v)
								}
							}
							for _, base := range variants {
								// probe on each side of every boundary the parameters define
								seen := map[int]bool{}
								for _, b := range []int{5, int(a), int(cn), int(s), int(m), sig, int(base.N), base.Cut} {
									for _, p := range []int{b - 1, b + 1} {
										if p >= 1 && !seen[p] {
											seen[p] = true
											cs := base
											cs.Probe = p
											cases = append(cases, cs)
										}
									}
								}
							}
						}
					}
				}
			}
		}
	}
	for i, cs := range cases {
		if !c.Mine(i) {
			continue
		}
		if c.OverBudget() {
			c.Cap("time budget")
			break
		}
		v, out := vkShapeRun(cs)
		c.Add("evaluations", 1)
		c.Outcome(cs.Shape + ":" + out)
		if strings.Contains(out, "cache") {
			c.DistinctStr("nontrivial", cs.String())
		}
		if i%997 == 0 {
			c.Sample(map[string]any{"case": cs.String(), "lifetime": cs.lifetime().String(), "routes": out})
		}
		if v == "" {
			continue
		}
		if strings.HasPrefix(v, "harness:") {
			c.HarnessError(v + " in " + cs.String())
			return
		}
		if v2, _ := vkShapeRun(cs); v2 == "" {
			c.Add("dropped_unreproducible", 1)
			continue
		}
		bound := "record-ttl"
		if cs.negative() && cs.M < cs.S && cs.M < cs.C {
			bound = "soa-minimum"
		} else if cs.Sig > 0 && uint32(cs.Sig) < cs.A && uint32(cs.Sig) < cs.S {
			bound = "rrsig-expiry"
		}
		key := "shapes:" + cs.Shape + ":" + bound
		if strings.Contains(v, "shown with TTL") {
			key += ":ttl-shown"
		}
		c.Violation(key, v, cs)
		if c.NumViolations() > 8 {
			break
		}
	}
}
