//go:build verif

package cache

// C03 — a cached response only answers the exact question and audience it was
// stored for, on every lookup route, even under a forged 64-bit key collision.
//
// Enumeration (exhaustive over the alphabet): every ordered pair (S stored,
// Q asked) of the question alphabet x every route. Two seedings per pair:
//   natural : S is admitted through the real pipeline (miss -> stub -> WriteMsg);
//   forged  : S's entry is planted under Q's key (a forced key collision).
// The stub answers every miss with a TRUNCATED fresh marker, which the cache
// never stores, so the world is unchanged by asking.
// Oracle: a reply to Q may carry S's marker only if Q is the same question in
// the same CD partition and (for scoped entries) the client is inside the scope.

import (
	"context"
	"encoding/json"
	"fmt"
	"net/netip"
	"testing"
	"time"

	"github.com/miekg/dns"
	"github.com/semihalev/sdns/config"
	"github.com/semihalev/sdns/internal/verifshim/vkit"
	"github.com/semihalev/sdns/middleware"
)

func vkC03Alphabet() []vkQ {
	names := []string{"a.t.", "A.t.", "b.t.", `a\.t.`, `\000.t.`, "x.a.t.",
		// octets that differ from each other only in bit 0x20 without being letters: no case folding may join them
		"a[.t.", "a{.t.", "a^.t.", "a~.t."}
	var out []vkQ
	for _, n := range names {
		for _, ty := range []uint16{dns.TypeA, dns.TypeAAAA} {
			for _, cl := range []uint16{dns.ClassINET, dns.ClassCHAOS} {
				for _, cd := range []bool{false, true} {
					out = append(out, vkQ{Name: n, Type: ty, Class: cl, CD: cd})
				}
			}
		}
	}
	return out
}

var vkC03Audiences = []string{"", "10.0.0.0/24", "10.0.0.0/25", "10.0.1.0/24", "2001:db8::/56"}

const vkFresh = 9000 // marker id of a fresh (uncached) stub answer

func vkC03World() *vkWorld {
	w := vkNewWorld(func(cfg *config.Config) {
		cfg.ECS.Enabled = true
		cfg.ECS.ForwardV4Max = 25
		cfg.ECS.ForwardV6Max = 56
	})
	w.stub.answer = func(_ context.Context, req *dns.Msg) *dns.Msg {
		q := req.Question[0]
		m := vkAnswer(vkQ{Name: q.Name, Type: q.Qtype, Class: q.Qclass, CD: req.CheckingDisabled}, vkFresh, 60)
		m.Truncated = true // never cached: asking does not change the world
		return m
	}
	return w
}

// vkScopeContains: may a client sending ECS `client` be served an entry scoped to `scope`?
// ("" scope = shared entry, visible to everyone.)
func vkScopeAllows(scope, client string) bool {
	if scope == "" {
		return true
	}
	if client == "" {
		return false
	}
	s, c := netip.MustParsePrefix(scope), netip.MustParsePrefix(client)
	return s.Addr().Is4() == c.Addr().Is4() && s.Bits() <= c.Bits() && s.Contains(c.Addr())
}

type vkC03Case struct {
	Seeding string  `json:"seeding"`
	Route   string  `json:"route"`
	S       vkQ     `json:"s"`
	SScope  string  `json:"s_scope,omitempty"`
	Q       vkQ     `json:"q"`
}

func (c vkC03Case) key() string {
	return fmt.Sprintf("%s|%s|S=%v scope=%q|Q=%v", c.Seeding, c.Route, c.S, c.SScope, c.Q)
}

// vkC03Run executes one case on a fresh world and returns a violation or "".
func vkC03Run(cs vkC03Case) (viol string, outcome string) {
	w := vkC03World()
	defer w.stop()
	return vkC03RunIn(w, cs, true)
}

// vkC03Seed plants S (marker 1) and returns a cleanup.
func vkC03Seed(w *vkWorld, cs vkC03Case) func() {
	sq := cs.S.question()
	resp := vkAnswer(cs.S, 1, 300)
	var scope netip.Prefix
	if cs.SScope != "" {
		scope = netip.MustParsePrefix(cs.SScope)
	}
	switch cs.Seeding {
	case "natural":
		key := CacheKey{Question: sq, CD: cs.S.CD, Scope: scope}.Hash()
		if scope.IsValid() {
			w.c.store.SetFromResponseScoped(key, resp, scope, time.Time{}, 0)
		} else {
			w.c.store.SetFromResponseWithKey(key, resp, time.Time{}, 0)
		}
		return func() { w.c.store.positive.Remove(key) }
	case "forged":
		// S's entry, filed under the key the lookup for Q will probe.
		var keys []uint64
		plant := func(k uint64) {
			var e *CacheEntry
			if scope.IsValid() {
				e = NewScopedCacheEntry(resp, 300*time.Second, 0, scope)
			} else {
				e = NewCacheEntryWithKey(resp, 300*time.Second, 0, k)
			}
			e.cd = cs.S.CD
			w.c.store.positive.Set(k, e)
			keys = append(keys, k)
		}
		plant(CacheKey{Question: cs.Q.question(), CD: cs.Q.CD}.Hash())
		if cs.Q.ECS != "" {
			// every scoped key the longest-prefix probe for Q's client will try
			cp := netip.MustParsePrefix(cs.Q.ECS)
			for bits := cp.Bits(); bits >= 1; bits-- {
				p, _ := cp.Addr().Prefix(bits)
				plant(CacheKey{Question: cs.Q.question(), CD: cs.Q.CD, Scope: p}.Hash())
			}
		}
		return func() {
			for _, k := range keys {
				w.c.store.positive.Remove(k)
			}
		}
	}
	panic("bad seeding")
}

func vkC03RunIn(w *vkWorld, cs vkC03Case, fresh bool) (string, string) {
	cleanup := vkC03Seed(w, cs)
	defer cleanup()
	same := vkEquivalent(cs.S, cs.Q) && vkScopeAllows(cs.SScope, cs.Q.ECS)
	var reply *dns.Msg
	stubCalls := 0
	switch cs.Route {
	case "msg", "msg+bytes", "wire":
		r := w.ask(vkRoute(cs.Route), cs.Q, 4242)
		reply, stubCalls = r.msg, r.stubCalls
	case "store.get":
		m, ok := w.c.store.GetWithContext(context.Background(), cs.Q.msg(4242))
		if ok {
			reply = m
		}
	case "store.lookup":
		if e, ok := w.c.store.Lookup(cs.Q.msg(4242)); ok {
			reply = e.ToMsg(cs.Q.msg(4242))
		}
	default:
		panic("bad route " + cs.Route)
	}
	served := false
	for _, id := range vkMarkersIn(reply) {
		if id == 1 {
			served = true
		}
	}
	if served && !same {
		return fmt.Sprintf("stored answer for S=%v (scope %q) was served to Q=%v via %s/%s: %s", cs.S, cs.SScope, cs.Q, cs.Seeding, cs.Route, vkMsgStr(reply)),
			"served-WRONG"
	}
	if served && reply != nil && len(reply.Question) == 1 {
		rq := reply.Question[0]
		if !vkFoldEq(rq.Name, cs.Q.Name) || rq.Qtype != cs.Q.Type || rq.Qclass != cs.Q.Class {
			return fmt.Sprintf("reply to Q=%v echoes question %v", cs.Q, rq), "served-WRONG-question"
		}
	}
	switch {
	case served:
		return "", "hit"
	case stubCalls > 0:
		return "", "miss->upstream"
	default:
		return "", "miss"
	}
}

func vkC03Cases(thorough bool, visit func(i int, cs vkC03Case) bool) {
	alpha := vkC03Alphabet()
	routes := []string{"msg", "msg+bytes", "wire", "store.get", "store.lookup"}
	i := 0
	for _, seeding := range []string{"natural", "forged"} {
		for _, s := range alpha {
			for _, sscope := range []string{"", "10.0.0.0/24", "2001:db8::/56"} {
				for _, q := range alpha {
					for _, aud := range vkC03Audiences {
						if !thorough && aud != "" && sscope == "" && (q.Type != dns.TypeA || q.Class != dns.ClassINET) {
							continue // quick tier: audiences only on A/IN questions for shared entries
						}
						qq := q
						qq.ECS = aud
						for _, r := range routes {
							if (r == "store.get" || r == "store.lookup") && aud != "" {
								continue // resolver-internal lookups carry no client audience
							}
							if !visit(i, vkC03Case{Seeding: seeding, Route: r, S: s, SScope: sscope, Q: qq}) {
								return
							}
							i++
						}
					}
				}
			}
		}
	}
}

func TestVerifC03Pairs(t *testing.T) {
	c := vkit.Init("C03/pairs")
	defer c.Close()
	if c.Replay != nil {
		var cs vkC03Case
		if err := json.Unmarshal(c.Replay, &cs); err != nil {
			c.HarnessError("bad replay: " + err.Error())
			return
		}
		if v, _ := vkC03Run(cs); v != "" {
			c.Violation(cs.key(), v, cs)
		}
		return
	}
	w := vkC03World()
	defer w.stop()
	vkC03Cases(c.Thorough(), func(i int, cs vkC03Case) bool {
		if !c.Mine(i / 64) {
			return true
		}
		c.Add("evaluations", 1)
		c.Add("transitions", 2)
		c.Add("traces", 1)
		v, outcome := vkC03RunIn(w, cs, false)
		c.Outcome(cs.Seeding + "/" + cs.Route + "/" + outcome)
		c.DistinctStr("states", cs.Seeding+"|"+cs.S.String()+"|"+cs.SScope+"|"+cs.Q.String())
		if outcome == "hit" || (cs.Seeding == "forged" && !vkEquivalent(cs.S, cs.Q)) {
			c.DistinctStr("nontrivial", cs.key())
		}
		if i%40000 == 7 {
			c.Sample(map[string]any{"case": cs.key(), "outcome": outcome})
		}
		if v != "" {
			// confirm on a fresh world before reporting
			if v2, _ := vkC03Run(cs); v2 == "" {
				c.HarnessError("C03 violation did not reproduce on a fresh cache: " + cs.key())
				return false
			}
			// class key: route + which dimension differs
			c.Violation("pairs:"+cs.Seeding+"/"+cs.Route+":"+vkC03Diff(cs), v, cs)
		}
		return c.NumViolations() < 30
	})
	_ = middleware.ErrNoResponse
}

// vkC03Diff names the dimensions in which S and Q differ (stable violation class).
func vkC03Diff(cs vkC03Case) string {
	d := ""
	if !vkFoldEq(cs.S.Name, cs.Q.Name) {
		d += "name,"
	}
	if cs.S.Type != cs.Q.Type {
		d += "type,"
	}
	if cs.S.Class != cs.Q.Class {
		d += "class,"
	}
	if cs.S.CD != cs.Q.CD {
		d += "cd,"
	}
	if !vkScopeAllows(cs.SScope, cs.Q.ECS) {
		d += "scope,"
	}
	if d == "" {
		d = "none"
	}
	return d
}
