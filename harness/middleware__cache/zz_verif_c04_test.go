//go:build verif

package cache

// C04 — nothing is served past its lifetime; composed answers inherit the
// shortest part; a late background refresh never overwrites newer data.
//
// Explicit-state BFS over event histories on the REAL cache pipeline
// (cache -> scripted upstream stub) under the virtual clock (vtime is compiled
// into middleware, middleware/cache, internal/dnsutil). State = history; a
// successor rebuilds a fresh Cache and replays. A boring reference model keeps
// one permissive deadline per stored piece; every reply on every serving route
// is checked against it.

import (
	"bytes"
	"context"
	"encoding/json"
	"fmt"
	"os"
	"runtime/debug"
	"sort"
	"strings"
	"testing"
	"time"

	"github.com/miekg/dns"
	"github.com/semihalev/sdns/internal/verifshim/vkit"
	"github.com/semihalev/sdns/internal/verifshim/vtime"
	"github.com/semihalev/sdns/middleware"
)

// ---------------------------------------------------------------- events

type vkC04Ev struct {
	Kind string `json:"kind"` // p, al, al2, alx, alz, bx, bz, neg, negq, nn, xn, qq, adv, purge, pf-complete, withdraw
	TTL  uint32 `json:"ttl,omitempty"`
	// delegation lease in seconds from now (0 = none). For alx / alz it is the lease of the chain
	// through which the chase LEG (bx.t. / bz.t.) is resolved; the alias's own zone has none.
	Cut int    `json:"cut,omitempty"`
	Sig int    `json:"sig,omitempty"` // RRSIG expiring this many seconds from now (0 = unsigned)
	Min uint32 `json:"min,omitempty"` // SOA minimum (neg)
	Val bool   `json:"val,omitempty"` // neg: locally validated proof (admits subtree cut + RFC 8198 proof)
	D   int    `json:"d,omitempty"`   // adv: seconds
}

func (e vkC04Ev) String() string {
	switch e.Kind {
	case "adv":
		return fmt.Sprintf("adv(%ds)", e.D)
	case "p", "al", "al2":
		return fmt.Sprintf("%s(ttl=%d,cut=%d,sig=%d)", e.Kind, e.TTL, e.Cut, e.Sig)
	case "alx", "alz":
		return fmt.Sprintf("%s(ttl=%d,legcut=%d)", e.Kind, e.TTL, e.Cut)
	case "bx", "bz":
		return fmt.Sprintf("%s(cut=%d)", e.Kind, e.Cut)
	case "neg", "negq":
		return fmt.Sprintf("%s(ttl=%d,min=%d,cut=%d,val=%v)", e.Kind, e.TTL, e.Min, e.Cut, e.Val)
	}
	return e.Kind
}

func vkC04Events(thorough bool) []vkC04Ev {
	evs := []vkC04Ev{
		{Kind: "p", TTL: 1}, {Kind: "p", TTL: 7}, {Kind: "p", TTL: 30, Cut: 3}, {Kind: "p", TTL: 1, Cut: 3}, {Kind: "p", TTL: 300, Sig: 7},
		{Kind: "al", TTL: 7}, {Kind: "al", TTL: 30, Cut: 3}, {Kind: "al", TTL: 30}, {Kind: "al2", TTL: 30},
		{Kind: "neg", TTL: 30, Min: 7}, {Kind: "neg", TTL: 30, Min: 30, Cut: 3, Val: true}, {Kind: "neg", TTL: 30, Min: 7, Val: true},
		{Kind: "negq", TTL: 30, Min: 30, Cut: 3, Val: true}, {Kind: "negq", TTL: 30, Min: 30, Val: true},
		{Kind: "nn"}, {Kind: "xn"}, {Kind: "qq"},
		// record-less terminals: a BARE NXDOMAIN (rcode 3, empty answer and authority) under its own key,
		// and an alias whose chase leg ends in it — answered from the cache when bx.t. is stored, resolved
		// fresh under a 3 s delegation lease otherwise; the same with a bare empty NOERROR
		{Kind: "bx"}, {Kind: "bx", Cut: 3}, {Kind: "alx", TTL: 30, Cut: 3}, {Kind: "bz"}, {Kind: "alz", TTL: 30, Cut: 3},
		{Kind: "adv", D: 1}, {Kind: "adv", D: 4}, {Kind: "adv", D: 6}, {Kind: "adv", D: 10}, {Kind: "adv", D: 25},
		{Kind: "purge"},
	}
	if os.Getenv("VERIF_C04_BARE_FRESH") != "0" { // part of every run since /repo 453d808 (=0 leaves it out)
		// leg resolved fresh WITHOUT a lease (see the note at vkBxName)
		evs = append(evs, vkC04Ev{Kind: "alx", TTL: 30})
	}
	if thorough {
		evs = append(evs, vkC04Ev{Kind: "alx", TTL: 7, Cut: 9}, vkC04Ev{Kind: "bz", Cut: 3}, vkC04Ev{Kind: "alz", TTL: 30})
		evs = append(evs, vkC04Ev{Kind: "p", TTL: 30, Cut: 20}, vkC04Ev{Kind: "p", TTL: 300, Sig: 2}, vkC04Ev{Kind: "p", TTL: 0},
			vkC04Ev{Kind: "al", TTL: 1}, vkC04Ev{Kind: "al2", TTL: 7}, vkC04Ev{Kind: "neg", TTL: 2, Min: 30}, vkC04Ev{Kind: "adv", D: 5})
	}
	return evs
}

// ---------------------------------------------------------------- world

type vkC04World struct {
	*vkWorld
	cur     vkC04Ev // parameters the stub uses for the question an event targets
	nextID  int
	issued  map[string]int // qname -> marker issued by the stub during the current event
	model   map[string]*vkC04Piece
	lastTTL map[string]uint32 // "marker|owner|type" -> last TTL shown
	t0      time.Time
}

// vkC04Piece is the reference model's view of one stored piece.
type vkC04Piece struct {
	marker   int
	deadline time.Time // permissive: latest instant at which serving it is still legal
	what     string
	life     time.Duration // TTL-derived lifetime (floored/capped), counted from admission
	lease    time.Time     // absolute delegation lease handed to the cache (zero = none)
	bare     string        // record-less denial of this name: no TTL in the reply to derive a lifetime from
}

// settle fixes the permissive deadline once the admitting exchange has returned:
// the entry was stamped no later than now, so now+life bounds its real expiry from above.
func (p *vkC04Piece) settle(now time.Time) {
	p.deadline = now.Add(p.life)
	if !p.lease.IsZero() && p.lease.Before(p.deadline) {
		p.deadline = p.lease
	}
}

const (
	vkPName  = "p.t."
	vkAlName = "al.t."
	// al2.t. -> mid.t. -> p.t., where mid.t. is answered with a BARE CNAME by a local
	// handler in front of the cache: the cache's alias chase has to walk two laps itself
	// (a chain the nested pipeline completes in one lap never exercises the later laps).
	vkAl2Name = "al2.t."
	vkMidName = "mid.t."
	vkNName   = "n.t."
	vkNNName  = "nn.t."
	vkXNName  = "x.n.t."
	vkQ5Name  = "q5.t." // second denied name, covered by a DIFFERENT NSEC (q0.t. -> q9.t.) of the same zone
	vkQ7Name  = "q7.t." // probe inside that second span
	// bx.t. answers with a BARE NXDOMAIN, bz.t. with a bare empty NOERROR: no answer, no authority —
	// what filtering upstreams and sloppy authorities of unsigned zones hand out (the resolver fails
	// them under SIGNED zones since 3d9aea3; the cache behind a forwarder still sees them). Such a
	// denial has no record TTL to take: its own entry gets the 5 s floor, or the lease if shorter.
	// alx.t. / alz.t. are bare CNAMEs to them, so the cache's own chase composes alias + denial.
	vkBxName  = "bx.t."
	vkBzName  = "bz.t."
	vkAlxName = "alx.t."
	vkAlzName = "alz.t."
)

// vkC04Leg maps an alias of the alphabet with a record-less terminal to its chase leg.
var vkC04Leg = map[string]string{vkAlxName: vkBxName, vkAlzName: vkBzName}

func vkC04Bare(name string) bool {
	return name == vkBxName || name == vkBzName || name == vkAlxName || name == vkAlzName
}

func vkSig(owner string, covered uint16, ttl uint32, exp time.Time) *dns.RRSIG {
	return &dns.RRSIG{Hdr: dns.RR_Header{Name: owner, Rrtype: dns.TypeRRSIG, Class: dns.ClassINET, Ttl: ttl}, TypeCovered: covered,
		Algorithm: 13, Labels: uint8(dns.CountLabel(owner)), OrigTtl: ttl, Expiration: uint32(exp.Unix()), Inception: uint32(exp.Add(-48 * time.Hour).Unix()),
		KeyTag: 1, SignerName: "t.", Signature: "AAAA"}
}

// vkC04Static is the local answerer in front of the cache (hostsfile/blocklist position).
type vkC04Static struct{}

func (vkC04Static) Name() string { return "vkstatic" }

func (vkC04Static) ServeDNS(ctx context.Context, ch *middleware.Chain) {
	// A wire-born request must stay undecoded on its way to the cache (hostsfile & co. decide on
	// the wire name as well): only mid.t. is looked at in decoded form.
	if ch.Request.Undecoded() {
		want := vkPackName(vkMidName)
		if !bytes.EqualFold(ch.Request.WireName(), want) {
			ch.Next(ctx)
			return
		}
	}
	req := ch.Request.Msg()
	if req == nil || len(req.Question) != 1 || !strings.EqualFold(req.Question[0].Name, vkMidName) {
		ch.Next(ctx)
		return
	}
	m := new(dns.Msg)
	m.SetReply(req)
	m.RecursionAvailable = true
	m.Answer = []dns.RR{&dns.CNAME{Hdr: dns.RR_Header{Name: req.Question[0].Name, Rrtype: dns.TypeCNAME, Class: dns.ClassINET, Ttl: 300}, Target: vkPName}}
	_ = ch.Writer.WriteMsg(m)
	ch.Cancel()
}

func vkPackName(name string) []byte {
	buf := make([]byte, 300)
	n, err := dns.PackDomainName(name, buf, 0, nil, false)
	if err != nil {
		panic(err)
	}
	return buf[:n]
}

// Every replay builds a fresh cache (tens of megabytes of tables). With the collector lagging on a busy machine the
// heap of a thorough-tier shard ran into the 8 GiB address-space limit the driver sets although almost none of it
// was live (each shard died "out of memory" after ~6 minutes, and again when retried alone). A soft limit well
// below that makes the collector keep up instead.
func init() { debug.SetMemoryLimit(3 << 30) }

func clampTTL(d time.Duration) time.Duration {
	if d < 5*time.Second {
		return 5 * time.Second
	}
	if d > 24*time.Hour {
		return 24 * time.Hour
	}
	return d
}

func vkNewC04World(prefetch bool) *vkC04World {
	vtime.SetOffset(0)
	w := &vkC04World{issued: map[string]int{}, model: map[string]*vkC04Piece{}, lastTTL: map[string]uint32{}, nextID: 10}
	w.vkWorld = vkNewWorldPre(vkBaseConfig(), vkC04Static{})
	w.t0 = vtime.Now()
	w.stub.answer = func(ctx context.Context, req *dns.Msg) *dns.Msg {
		q := req.Question[0]
		ev := w.cur
		m := new(dns.Msg)
		m.SetReply(req)
		m.RecursionAvailable = true
		now := vtime.Now()
		bound := func(cut int) {
			if cut > 0 {
				if meta := middleware.ResponseMetaFrom(ctx); meta != nil {
					meta.BoundCut(now.Add(time.Duration(cut) * time.Second))
				}
			}
		}
		switch strings.ToLower(q.Name) {
		case vkPName:
			ttl, cut, sig := uint32(30), 0, 0
			if ev.Kind == "p" {
				ttl, cut, sig = ev.TTL, ev.Cut, ev.Sig
			}
			w.nextID++
			w.issued[vkPName] = w.nextID
			m.Answer = []dns.RR{vkMarkerRR(vkQ{Name: q.Name, Type: dns.TypeA, Class: dns.ClassINET}, w.nextID, ttl)}
			life := clampTTL(time.Duration(ttl) * time.Second)
			if sig > 0 {
				m.Answer = append(m.Answer, vkSig(q.Name, dns.TypeA, ttl, now.Add(time.Duration(sig)*time.Second)))
				if d := clampTTL(time.Duration(sig) * time.Second); d < life {
					life = d
				}
			}
			pc := &vkC04Piece{marker: w.nextID, what: "p", life: life}
			if cut > 0 {
				pc.lease = now.Add(time.Duration(cut) * time.Second)
			}
			w.model["fresh:"+vkPName] = pc
			bound(cut)
		case vkAlName:
			ttl, cut := uint32(30), 0
			if ev.Kind == "al" {
				ttl, cut = ev.TTL, ev.Cut
			}
			m.Answer = []dns.RR{&dns.CNAME{Hdr: dns.RR_Header{Name: q.Name, Rrtype: dns.TypeCNAME, Class: dns.ClassINET, Ttl: ttl}, Target: vkPName}}
			pc := &vkC04Piece{marker: -1, what: "al", life: clampTTL(time.Duration(ttl) * time.Second)}
			if cut > 0 {
				pc.lease = now.Add(time.Duration(cut) * time.Second)
			}
			w.model["fresh:"+vkAlName] = pc
			bound(cut)
		case vkAl2Name:
			ttl, cut := uint32(30), 0
			if ev.Kind == "al2" {
				ttl, cut = ev.TTL, ev.Cut
			}
			m.Answer = []dns.RR{&dns.CNAME{Hdr: dns.RR_Header{Name: q.Name, Rrtype: dns.TypeCNAME, Class: dns.ClassINET, Ttl: ttl}, Target: vkMidName}}
			pc := &vkC04Piece{marker: -1, what: "al2", life: clampTTL(time.Duration(ttl) * time.Second)}
			if cut > 0 {
				pc.lease = now.Add(time.Duration(cut) * time.Second)
			}
			w.model["fresh:"+vkAl2Name] = pc
			bound(cut)
		case vkAlxName, vkAlzName:
			lk := strings.ToLower(q.Name)
			ttl := uint32(30)
			if ev.Kind == strings.TrimSuffix(lk, ".t.") {
				ttl = ev.TTL
			}
			m.Answer = []dns.RR{&dns.CNAME{Hdr: dns.RR_Header{Name: q.Name, Rrtype: dns.TypeCNAME, Class: dns.ClassINET, Ttl: ttl}, Target: vkC04Leg[lk]}}
			w.model["fresh:"+lk] = &vkC04Piece{marker: -1, what: strings.TrimSuffix(lk, ".t."), life: clampTTL(time.Duration(ttl) * time.Second)}
		case vkBxName, vkBzName:
			// header-only reply: rcode, no answer, no authority
			lk := strings.ToLower(q.Name)
			cut := 0
			if (lk == vkBxName && (ev.Kind == "bx" || ev.Kind == "alx")) || (lk == vkBzName && (ev.Kind == "bz" || ev.Kind == "alz")) {
				cut = ev.Cut
			}
			if lk == vkBxName {
				m.Rcode = dns.RcodeNameError
			}
			pc := &vkC04Piece{marker: -2, what: "neg(val=false,fam=bare)", life: clampTTL(0), bare: lk}
			if cut > 0 {
				pc.lease = now.Add(time.Duration(cut) * time.Second)
			}
			w.model["fresh:neg:"+lk] = pc
			bound(cut)
		case vkNName, vkNNName, vkXNName, vkQ5Name, vkQ7Name:
			ttl, min, cut, val := uint32(30), uint32(30), 0, false
			famQ := strings.HasPrefix(strings.ToLower(q.Name), "q")
			if (ev.Kind == "neg" && !famQ) || (ev.Kind == "negq" && famQ) {
				ttl, min, cut, val = ev.TTL, ev.Min, ev.Cut, ev.Val
			}
			m.Rcode = dns.RcodeNameError
			if famQ && strings.ToLower(q.Name) == vkQ5Name {
				m.Rcode = dns.RcodeSuccess // NODATA: q5.t. exists (TXT only)
			}
			exp := now.Add(24 * time.Hour)
			soa := &dns.SOA{Hdr: dns.RR_Header{Name: "t.", Rrtype: dns.TypeSOA, Class: dns.ClassINET, Ttl: ttl}, Ns: "ns.t.", Mbox: "h.t.", Serial: 1, Refresh: 1, Retry: 1, Expire: 1, Minttl: min}
			m.Ns = []dns.RR{soa, vkSig("t.", dns.TypeSOA, ttl, exp)}
			if val {
				span := [2]string{"m.t.", "o.t."}
				bitmap := []uint16{dns.TypeA, dns.TypeRRSIG, dns.TypeNSEC}
				if famQ {
					span = [2]string{vkQ5Name, "q9.t."}
					bitmap = []uint16{dns.TypeTXT, dns.TypeRRSIG, dns.TypeNSEC}
				}
				n1 := &dns.NSEC{Hdr: dns.RR_Header{Name: span[0], Rrtype: dns.TypeNSEC, Class: dns.ClassINET, Ttl: ttl}, NextDomain: span[1], TypeBitMap: bitmap}
				n2 := &dns.NSEC{Hdr: dns.RR_Header{Name: "t.", Rrtype: dns.TypeNSEC, Class: dns.ClassINET, Ttl: ttl}, NextDomain: "a0.t.", TypeBitMap: []uint16{dns.TypeSOA, dns.TypeNS, dns.TypeRRSIG, dns.TypeNSEC, dns.TypeDNSKEY}}
				m.Ns = append(m.Ns, n1, vkSig(span[0], dns.TypeNSEC, ttl, exp))
				if m.Rcode == dns.RcodeNameError {
					m.Ns = append(m.Ns, n2, vkSig("t.", dns.TypeNSEC, ttl, exp))
				}
				m.AuthenticatedData = true
				middleware.MarkValidatedNegativeProofResponse(ctx, m, middleware.ValidatedNegativeProof{
					Subject: strings.ToLower(q.Name), Zone: "t.", Kind: middleware.ValidatedNegativeProofNSEC, Aggressive: true})
			}
			l := time.Duration(ttl) * time.Second
			if d := time.Duration(min) * time.Second; d < l {
				l = d
			}
			fam := "m"
			if famQ {
				fam = "q"
			}
			pc := &vkC04Piece{marker: -2, what: fmt.Sprintf("neg(val=%v,fam=%s)", val, fam), life: clampTTL(l)}
			if cut > 0 {
				pc.lease = now.Add(time.Duration(cut) * time.Second)
			}
			w.model["fresh:neg:"+strings.ToLower(q.Name)] = pc
			bound(cut)
		default:
			m.Rcode = dns.RcodeRefused
		}
		return m
	}
	return w
}

// ---------------------------------------------------------------- oracle

// checkReply judges one reply observed at virtual instant t (taken BEFORE asking).
func (w *vkC04World) checkReply(route vkRoute, qname string, r vkReply, t time.Time) string {
	if r.msg == nil {
		return ""
	}
	m := r.msg
	if r.stubCalls > 0 && m.Rcode != dns.RcodeServerFailure {
		// (partly) fresh: fresh records are judged when they are later served from cache
	}
	judge := func(piece *vkC04Piece, label string, rrs []dns.RR) string {
		if piece == nil {
			return fmt.Sprintf("route %s: reply for %s carries %s but the model holds no such stored piece: %s", route, qname, label, vkMsgStr(m))
		}
		if !t.Before(piece.deadline) {
			return fmt.Sprintf("route %s: %s served %.3fs past its lifetime end (deadline %s, now %s): %s", route, label,
				t.Sub(piece.deadline).Seconds(), piece.deadline.Sub(w.t0), t.Sub(w.t0), vkMsgStr(m))
		}
		rem := piece.deadline.Sub(t).Seconds()
		for _, rr := range rrs {
			if float64(rr.Header().Ttl) > rem+0.05 { // 50 ms slack: real time elapses between the harness clock read and the serve
				return fmt.Sprintf("route %s: %s shown with TTL %d but only %.3fs of lifetime remain: %s", route, label, rr.Header().Ttl, rem, vkMsgStr(m))
			}
			k := fmt.Sprintf("%d|%s|%d", piece.marker, strings.ToLower(rr.Header().Name), rr.Header().Rrtype)
			if piece.marker > 0 {
				if last, ok := w.lastTTL[k]; ok && rr.Header().Ttl > last {
					return fmt.Sprintf("route %s: TTL of %s grew between hits on the same stored entry (%d -> %d)", route, label, last, rr.Header().Ttl)
				}
				w.lastTTL[k] = rr.Header().Ttl
			}
		}
		return ""
	}
	// positive pieces, identified by marker
	byMarker := map[int][]dns.RR{}
	var cnames []dns.RR
	for _, rr := range m.Answer {
		switch x := rr.(type) {
		case *dns.A:
			if ids := vkMarkersIn(&dns.Msg{Answer: []dns.RR{x}}); len(ids) == 1 {
				byMarker[ids[0]] = append(byMarker[ids[0]], rr)
			}
		case *dns.RRSIG:
			// judged with the A it covers (same entry)
		case *dns.CNAME:
			cnames = append(cnames, rr)
		}
	}
	for id, rrs := range byMarker {
		if id == w.issued[vkPName] && r.stubCalls > 0 {
			continue // fresh from upstream in this very exchange
		}
		var piece *vkC04Piece
		if p := w.model[vkPName]; p != nil && p.marker == id {
			piece = p
		}
		if piece == nil {
			return fmt.Sprintf("route %s: reply for %s carries marker %d which is not the current stored entry (superseded or never stored): %s", route, qname, id, vkMsgStr(m))
		}
		if v := judge(piece, fmt.Sprintf("entry p(marker %d)", id), rrs); v != "" {
			return v
		}
	}
	for _, al := range []string{vkAlName, vkAl2Name, vkAlxName, vkAlzName} {
		// an alias entry is judged by the CNAME it owns (mid.t.'s CNAME is the local answerer's)
		var own []dns.RR
		for _, rr := range cnames {
			if strings.EqualFold(rr.Header().Name, al) {
				own = append(own, rr)
			}
		}
		if len(own) > 0 && !(r.stubCalls > 0 && w.model["fresh:"+al] != nil) {
			if v := judge(w.model[al], "alias entry", own); v != "" {
				return v
			}
		}
	}
	if lq := strings.ToLower(qname); vkC04Bare(lq) {
		// record-less terminals: a reply that went nowhere upstream took the denial from the cache —
		// from the leg's own entry (bx.t., bz.t., alz.t. -> bz.t.) or from the composed alias entry (alx.t.)
		if r.stubCalls > 0 || (m.Rcode != dns.RcodeNameError && m.Rcode != dns.RcodeSuccess) {
			return ""
		}
		piece, label := w.model["neg:"+lq], "bare negative state"
		switch lq {
		case vkAlxName:
			piece, label = w.model[vkAlxName], "alias entry (alias + bare NXDOMAIN)"
			if m.Rcode != dns.RcodeNameError {
				piece, label = w.model["neg:"+vkBxName], "bare negative state (leg)"
			}
		case vkAlzName:
			piece, label = w.model["neg:"+vkBzName], "bare negative state (leg)"
		}
		return judge(piece, label, m.Ns)
	}
	if r.stubCalls == 0 && (m.Rcode == dns.RcodeNameError || (m.Rcode == dns.RcodeSuccess && len(m.Answer) == 0 && len(m.Ns) > 0)) {
		// served from the exact negative entry, a subtree cut, or an RFC 8198 proof: the
		// piece is the latest negative admission able to cover this name (permissive: max).
		var best *vkC04Piece
		consider := func(p *vkC04Piece) {
			if p != nil && !p.deadline.IsZero() && (best == nil || p.deadline.After(best.deadline)) {
				best = p
			}
		}
		lq := strings.ToLower(qname)
		consider(w.model["neg:"+lq])
		for k, p := range w.model {
			if strings.HasPrefix(k, "cut:") && vkAtOrBelowC04(lq, strings.TrimPrefix(k, "cut:")) {
				consider(p)
			}
		}
		// a synthesised denial is composed of the SOA, the covering NSEC and the wildcard NSEC:
		// it inherits the SHORTEST lifetime among them
		spanKey := "proof:span:m"
		if strings.HasPrefix(lq, "q") {
			spanKey = "proof:span:q"
		}
		pieces := []*vkC04Piece{w.model["proof:soa"], w.model[spanKey]}
		if m.Rcode == dns.RcodeNameError {
			pieces = append(pieces, w.model["proof:wild"]) // NXDOMAIN also needs the wildcard cover
		}
		comp := &vkC04Piece{marker: -3, what: "synthesised denial"}
		for i, p := range pieces {
			if p == nil {
				comp = nil
				break
			}
			if i == 0 || p.deadline.Before(comp.deadline) {
				comp.deadline = p.deadline
			}
		}
		consider(comp)
		var rrs []dns.RR
		rrs = append(rrs, m.Ns...)
		if v := judge(best, "negative state", rrs); v != "" {
			return v
		}
	}
	return ""
}

func vkAtOrBelowC04(name, zone string) bool {
	return name == zone || strings.HasSuffix(name, "."+zone)
}

// query runs one question: first on the message path (which may admit), then —
// if that was a pure cache serve — on every other serving route.
func (w *vkC04World) query(ev vkC04Ev, qname string) (string, string) {
	w.cur = ev
	for k := range w.issued {
		delete(w.issued, k)
	}
	for k := range w.model {
		if strings.HasPrefix(k, "fresh:") {
			delete(w.model, k)
		}
	}
	q := vkQ{Name: qname, Type: dns.TypeA, Class: dns.ClassINET}
	t := vtime.Now()
	r := w.ask(vkRouteMsg, q, 1)
	// commit what the upstream was asked for into the model
	after := vtime.Now()
	for k, f := range w.model {
		if strings.HasPrefix(k, "fresh:") {
			if f.bare != "" {
				// a record-less denial: the reference for this piece is what its OWN entry was given
				// (sdns: the 5 s floor); the lease comes from the model
				if e := w.rawEntry(f.bare); e != nil {
					f.life = e.ttl
				}
			}
			f.settle(after)
		}
	}
	if f := w.model["fresh:"+vkPName]; f != nil {
		w.model[vkPName] = f
	}
	for _, al := range []string{vkAlName, vkAl2Name} {
		if f := w.model["fresh:"+al]; f != nil {
			// composed at admission: the alias inherits the shortest lifetime among its pieces
			if p := w.model[vkPName]; p != nil && p.deadline.Before(f.deadline) {
				f.deadline = p.deadline
			}
			w.model[al] = f
		}
	}
	for k, f := range w.model {
		if strings.HasPrefix(k, "fresh:neg:") {
			w.model[strings.TrimPrefix(k, "fresh:")] = f
			if strings.Contains(f.what, "val=true") {
				// the subtree cut belongs to the denied name; the RFC 8198 store keeps SOA and each
				// NSEC RRset as separate pieces (same owner => replaced by the newer admission)
				if !strings.Contains(f.what, "fam=q") {
					w.model["cut:"+strings.TrimPrefix(k, "fresh:neg:")] = f
				}
				w.model["proof:soa"] = f
				if strings.Contains(f.what, "fam=q") {
					w.model["proof:span:q"] = f // NODATA proof: SOA + the name's own NSEC only
				} else {
					w.model["proof:span:m"] = f
					w.model["proof:wild"] = f
				}
			}
		}
	}
	for al, leg := range vkC04Leg {
		f := w.model["fresh:"+al]
		if f == nil {
			continue
		}
		if al == vkAlxName {
			// alias + terminal NXDOMAIN is stored whole under the alias key and every later hit on it
			// is terminal (RFC 6604, no new chase): the entry inherits the denial's lifetime — the
			// leg's stored entry when the chase was answered from the cache, the fresh leg's
			// floor / lease otherwise
			if p := w.model["neg:"+leg]; p != nil && p.deadline.Before(f.deadline) {
				f.deadline = p.deadline
			}
		}
		// alz: alias + bare empty NOERROR stores nothing of the leg (the CNAME alone, rcode of the
		// alias's own reply) and every hit chases again; the CNAME is held to its own lifetime and
		// the leg's NODATA to the leg's whenever a reply takes it from the cache (checkReply)
		w.model[al] = f
	}
	if v := w.checkReply(vkRouteMsg, qname, r, t); v != "" {
		return v, "violation"
	}
	outcome := "miss"
	if r.stubCalls == 0 && r.msg != nil {
		outcome = "hit:" + dns.RcodeToString[r.msg.Rcode]
		for _, route := range []vkRoute{vkRouteMsgBytes, vkRouteWire} {
			t2 := vtime.Now()
			r2 := w.ask(route, q, 2)
			if r2.stubCalls > 0 {
				continue // route declined to a miss (route equivalence is C05's business)
			}
			if v := w.checkReply(route, qname, r2, t2); v != "" {
				return v, "violation"
			}
		}
		t3 := vtime.Now()
		if m, ok := w.c.store.GetWithContext(context.Background(), q.msg(3)); ok {
			if v := w.checkReply("store.get", qname, vkReply{msg: m}, t3); v != "" {
				return v, "violation"
			}
		}
	} else if r.msg != nil {
		outcome = "upstream:" + dns.RcodeToString[r.msg.Rcode]
	}
	return "", outcome
}

// rawEntry reads the stored entry of name/A/IN without the expiry-on-read side effect.
func (w *vkC04World) rawEntry(name string) *CacheEntry {
	key := CacheKey{Question: dns.Question{Name: name, Qtype: dns.TypeA, Qclass: dns.ClassINET}}.Hash()
	if v, ok := w.c.store.positive.cache.Get(key); ok {
		return v.(*CacheEntry)
	}
	if v, ok := w.c.store.negative.cache.Get(key); ok {
		return v.(*CacheEntry)
	}
	return nil
}

func (w *vkC04World) apply(ev vkC04Ev) (string, string) {
	switch ev.Kind {
	case "bx":
		return w.query(ev, vkBxName)
	case "bz":
		return w.query(ev, vkBzName)
	case "alx":
		return w.query(ev, vkAlxName)
	case "alz":
		return w.query(ev, vkAlzName)
	case "p":
		return w.query(ev, vkPName)
	case "al":
		return w.query(ev, vkAlName)
	case "al2":
		return w.query(ev, vkAl2Name)
	case "neg":
		return w.query(ev, vkNName)
	case "negq":
		return w.query(ev, vkQ5Name)
	case "qq":
		return w.query(ev, vkQ7Name)
	case "nn":
		return w.query(ev, vkNNName)
	case "xn":
		return w.query(ev, vkXNName)
	case "adv":
		vtime.Advance(time.Duration(ev.D) * time.Second)
		return "", "adv"
	case "purge":
		w.c.Purge(dns.Question{Name: vkPName, Qtype: dns.TypeA, Qclass: dns.ClassINET})
		delete(w.model, vkPName)
		return "", "purge"
	}
	return "harness: unknown event " + ev.Kind, "harness"
}

// digest is the canonical state: per modelled piece, the remaining lifetime in ms buckets of 1s.
func (w *vkC04World) digest() string {
	now := vtime.Now()
	var parts []string
	for k, p := range w.model {
		if strings.HasPrefix(k, "fresh:") {
			continue
		}
		rem := p.deadline.Sub(now)
		if rem <= 0 {
			continue // expired pieces have no future (lookups drop them)
		}
		parts = append(parts, fmt.Sprintf("%s=%d", k, int(rem.Round(time.Second)/time.Second)))
	}
	// the REAL cache's own state for the alphabet (raw, without the expiry-on-read side effect),
	// so that two histories are merged only when the implementation state agrees as well
	for _, n := range []string{vkPName, vkAlName, vkAl2Name, vkNName, vkNNName, vkXNName, vkQ5Name, vkQ7Name} {
		key := CacheKey{Question: dns.Question{Name: n, Qtype: dns.TypeA, Qclass: dns.ClassINET}}.Hash()
		if v, ok := w.c.store.positive.cache.Get(key); ok {
			e := v.(*CacheEntry)
			parts = append(parts, fmt.Sprintf("real:%s=%d/pf%v", n, int(e.remaining(now).Round(time.Second)/time.Second), e.prefetch.Load()))
		}
	}
	for _, n := range []string{vkBxName, vkBzName, vkAlxName, vkAlzName} {
		if e := w.rawEntry(n); e != nil {
			parts = append(parts, fmt.Sprintf("real:%s=%d", n, int(e.remaining(now).Round(time.Second)/time.Second)))
		}
	}
	nc := w.c.store.nxDomainCuts
	nc.mu.RLock()
	for id, e := range nc.entries {
		parts = append(parts, fmt.Sprintf("realcut:%s=%d", id.deniedName, int(e.expires.Sub(now).Round(time.Second)/time.Second)))
	}
	nc.mu.RUnlock()
	parts = append(parts, fmt.Sprintf("realproofs=%d", w.c.store.denialProofs.len()))
	sort.Strings(parts)
	return strings.Join(parts, ",")
}

func vkC04HistStr(h []vkC04Ev) string {
	s := make([]string, len(h))
	for i, e := range h {
		s[i] = e.String()
	}
	return strings.Join(s, " ")
}

// vkC04Replay runs a history on a fresh world.
func vkC04Replay(h []vkC04Ev) (viol string, w *vkC04World, outcomes []string) {
	w = vkNewC04World(false)
	for i, ev := range h {
		v, o := w.apply(ev)
		outcomes = append(outcomes, o)
		if v != "" {
			return fmt.Sprintf("step %d %v: %s", i, ev, v), w, outcomes
		}
	}
	return "", w, outcomes
}

func TestVerifC04Hist(t *testing.T) {
	c := vkit.Init("C04/hist")
	defer c.Close()
	if c.Replay != nil {
		var r struct {
			Hist []vkC04Ev `json:"hist"`
		}
		if err := json.Unmarshal(c.Replay, &r); err != nil {
			c.HarnessError("bad replay: " + err.Error())
			return
		}
		v, w, _ := vkC04Replay(r.Hist)
		w.stop()
		if v != "" {
			c.Violation("hist:"+vkC04HistStr(r.Hist), v, r)
		}
		return
	}
	evs := vkC04Events(c.Thorough())
	maxDepth := 4
	if c.Thorough() {
		maxDepth = 6
	}
	type node struct{ hist []vkC04Ev }
	seen := map[string]bool{"": true}
	frontier := []node{{}}
	for depth := 1; depth <= maxDepth && len(frontier) > 0; depth++ {
		var next []node
		for _, n := range frontier {
			for ei, ev := range evs {
				if depth == 1 && !c.Mine(ei) {
					continue
				}
				if c.OverBudget() {
					c.Cap(fmt.Sprintf("time budget reached at depth %d", depth))
					return
				}
				h := append(append([]vkC04Ev{}, n.hist...), ev)
				viol, w, outs := vkC04Replay(h)
				c.Add("transitions", 1)
				c.Add("evaluations", 1)
				c.Add("traces", 1)
				d := w.digest()
				w.stop()
				if viol != "" {
					if strings.Contains(viol, "harness:") {
						c.HarnessError(viol + " in [" + vkC04HistStr(h) + "]")
						return
					}
					v2, w2, _ := vkC04Replay(h)
					w2.stop()
					if v2 == "" {
						// not reproducible => timing artefact of this run, never reported
						c.Add("dropped_unreproducible", 1)
						c.Note("dropped a non-reproducing observation: " + viol[:min(len(viol), 160)])
						continue
					}
					c.Violation("hist:"+vkC04Class(viol), "after ["+vkC04HistStr(h)+"]: "+viol, map[string]any{"hist": h})
					if c.NumViolations() > 8 {
						return
					}
					continue
				}
				c.Outcome(ev.Kind + "->" + outs[len(outs)-1])
				if seen[d] {
					continue
				}
				seen[d] = true
				c.DistinctStr("states", d)
				if strings.Count(d, "=") >= 2 {
					c.DistinctStr("nontrivial", d)
				}
				c.Max("max_depth", int64(depth))
				if len(seen)%400 == 3 {
					c.Sample(map[string]any{"hist": vkC04HistStr(h), "state": d, "outcomes": outs})
				}
				next = append(next, node{hist: h})
			}
		}
		frontier = next
	}
	if len(frontier) == 0 {
		c.Note("C04/hist: frontier empty — every reachable model state over the alphabet visited")
	} else {
		c.Note(fmt.Sprintf("C04/hist: depth bound %d reached with %d frontier states", maxDepth, len(frontier)))
	}
}

// vkC04Class reduces a violation message to a stable class key.
func vkC04Class(v string) string {
	for _, k := range []string{"past its lifetime end", "shown with TTL", "TTL of", "not the current stored entry", "no such stored piece"} {
		if strings.Contains(v, k) {
			what := "piece"
			for _, p := range []string{"entry p", "alias entry", "negative state"} {
				if strings.Contains(v, p) {
					what = p
				}
			}
			route := ""
			if i := strings.Index(v, "route "); i >= 0 {
				route = strings.Fields(v[i+6:])[0]
			}
			return k + "/" + what + "/" + strings.TrimSuffix(route, ":")
		}
	}
	return "other"
}
