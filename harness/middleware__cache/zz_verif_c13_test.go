//go:build verif

package cache

// C13 — cached failures (RFC 9520) suppress only what failed, for a bounded time.
//
// Explicit-state BFS over histories of failing / succeeding / request-local-
// failing resolutions, authority-zone failure reports and clock advances, on
// the real cache pipeline under the virtual clock. After EVERY event the whole
// lookup alphabet (names at / below / beside the failed names and zones, type,
// CD, ECS audience variants) is probed side-effect-free on the message and wire
// lookups and judged against a reference back-off automaton.

import (
	"context"
	"encoding/json"
	"fmt"
	"net/netip"
	"sort"
	"strings"
	"testing"
	"time"

	"github.com/miekg/dns"
	"github.com/semihalev/sdns/config"
	"github.com/semihalev/sdns/internal/verifshim/vkit"
	"github.com/semihalev/sdns/internal/verifshim/vtime"
	"github.com/semihalev/sdns/middleware"
)

type vkC13Ev struct {
	Kind string `json:"kind"` // ask, store, zonefail, zoneclear, adv
	Q    int    `json:"q,omitempty"`
	Up   string `json:"up,omitempty"` // fail, ok, local-attempt, local-cancel, local-besteffort, local-work, refused
	Zone string `json:"zone,omitempty"`
	D    int    `json:"d,omitempty"`
}

func (e vkC13Ev) String() string {
	switch e.Kind {
	case "ask":
		return fmt.Sprintf("ask(q%d,%s)", e.Q, e.Up)
	case "store":
		return fmt.Sprintf("store(q%d,%s)", e.Q, e.Up)
	case "zonefail", "zoneclear":
		return fmt.Sprintf("%s(%s)", e.Kind, e.Zone)
	case "adv":
		return fmt.Sprintf("adv(%ds)", e.D)
	}
	return e.Kind
}

// the asked-question alphabet
var vkC13Qs = []vkQ{
	{Name: "a.z.t.", Type: dns.TypeA, Class: dns.ClassINET},
	{Name: "a.z.t.", Type: dns.TypeAAAA, Class: dns.ClassINET},
	{Name: "b.z.t.", Type: dns.TypeA, Class: dns.ClassINET},
	{Name: "a.z.t.", Type: dns.TypeA, Class: dns.ClassINET, CD: true},
	{Name: "q.t.", Type: dns.TypeA, Class: dns.ClassINET},
}

// the probe alphabet (read-only lookups after each event)
func vkC13Probes() []vkQ {
	var out []vkQ
	// (`x\.z.t.` is the two-label name ["x.z", "t"]: a sibling of z.t. whose presentation text ends with "z.t.")
	for _, n := range []string{"a.z.t.", "A.Z.t.", "b.z.t.", "x.a.z.t.", "z.t.", "az.t.", "xz.t.", "q.t.", "t.", `x\.z.t.`, `a\.a.z.t.`} {
		for _, ty := range []uint16{dns.TypeA, dns.TypeAAAA} {
			for _, cd := range []bool{false, true} {
				out = append(out, vkQ{Name: n, Type: ty, Class: dns.ClassINET, CD: cd})
			}
		}
	}
	out = append(out, vkQ{Name: "a.z.t.", Type: dns.TypeA, Class: dns.ClassCHAOS})
	out = append(out, vkQ{Name: "a.z.t.", Type: dns.TypeA, Class: dns.ClassINET, ECS: "10.0.0.0/24"})
	return out
}

func vkC13Events(thorough bool) []vkC13Ev {
	var evs []vkC13Ev
	for qi := range vkC13Qs {
		evs = append(evs, vkC13Ev{Kind: "ask", Q: qi, Up: "fail"})
	}
	for qi := range vkC13Qs[:3] {
		evs = append(evs, vkC13Ev{Kind: "ask", Q: qi, Up: "ok"})
	}
	for _, up := range []string{"local-attempt", "local-cancel", "local-besteffort", "local-work"} {
		evs = append(evs, vkC13Ev{Kind: "ask", Q: 0, Up: up})
	}
	// the resolver's write-back of an internal sub-query (DS / DNSKEY / name-server address lookups store their
	// result through middleware.CutStore, not through the client-facing response writer)
	evs = append(evs, vkC13Ev{Kind: "store", Q: 0, Up: "ok"})
	evs = append(evs, vkC13Ev{Kind: "zonefail", Zone: "z.t."}, vkC13Ev{Kind: "zoneclear", Zone: "z.t."})
	for _, d := range []int{1, 2, 3, 5, 9} {
		evs = append(evs, vkC13Ev{Kind: "adv", D: d})
	}
	if thorough {
		evs = append(evs, vkC13Ev{Kind: "zonefail", Zone: "t."}, vkC13Ev{Kind: "ask", Q: 3, Up: "ok"}, vkC13Ev{Kind: "ask", Q: 0, Up: "refused"})
	}
	return evs
}

type vkC13Key struct {
	stamp time.Time // latest instant the current generation may have been recorded (taken AFTER the recording call)
	j     int       // consecutive upstream-observed failures since the last reset
}

type vkC13World struct {
	*vkWorld
	up      string
	min     time.Duration
	max     time.Duration
	enabled bool
	keys    map[string]*vkC13Key // "q|name|type|class|cd|scope" or "z|zone|class"
}

func vkC13Policy() middleware.RecursionWorkPolicy {
	return middleware.RecursionWorkPolicy{Mode: middleware.RecursionWorkEnforce, MaxOutboundQueries: 1, MaxInternalQueries: 1,
		MaxDNSKEYCandidates: 1, MaxRRsetSignatureChecks: 1, MaxSignatureChecks: 1, MaxDSDigests: 1, MaxNSEC3Hashes: 1, MaxConcurrentCrypto: 1}
}

func vkNewC13World(min, max time.Duration, enabled bool) *vkC13World {
	vtime.SetOffset(0)
	w := &vkC13World{min: min, max: max, enabled: enabled, keys: map[string]*vkC13Key{}}
	w.vkWorld = vkNewWorld(func(cfg *config.Config) {
		cfg.RecursionFirewall.FailureCacheMinTTL.Duration = min
		cfg.RecursionFirewall.FailureCacheMaxTTL.Duration = max
		cfg.RecursionFirewall.FailureCacheSize = 64
		if !enabled {
			f := false
			cfg.RFC9520 = &f
		}
	})
	w.stub.answer = func(ctx context.Context, req *dns.Msg) *dns.Msg {
		m := new(dns.Msg)
		m.SetReply(req)
		m.RecursionAvailable = true
		switch w.up {
		case "ok":
			q := req.Question[0]
			// a useful answer: cached for the 5 s floor (later asks within it are plain cache hits)
			m.Answer = []dns.RR{vkMarkerRR(vkQ{Name: q.Name, Type: q.Qtype, Class: q.Qclass}, 1, 1)}
			return m
		case "refused":
			m.Rcode = dns.RcodeRefused
			return m
		case "fail":
			m.Rcode = dns.RcodeServerFailure
			return m
		case "local-attempt":
			m.Rcode = dns.RcodeServerFailure
			ctx, _ = middleware.EnsureResolutionAttemptGuard(ctx)
			middleware.MarkRequestLocalFailureResponse(ctx, m, middleware.ErrResolutionAttemptLimit)
			return m
		case "local-work":
			m.Rcode = dns.RcodeServerFailure
			_, ledger := middleware.EnsureRecursionWork(ctx, vkC13Policy())
			if ledger != nil {
				for i := 0; i < 3; i++ {
					_ = ledger.Debit(middleware.RecursionWorkOutboundQuery)
				}
			}
			return m
		case "local-cancel", "local-besteffort":
			m.Rcode = dns.RcodeServerFailure
			return m
		}
		return nil
	}
	return w
}

func vkC13QKey(q vkQ) string {
	return fmt.Sprintf("q|%s|%d|%d|%v|%s", strings.ToLower(q.Name), q.Type, q.Class, q.CD, q.ECS)
}

func (w *vkC13World) allowed(j int) time.Duration {
	d := w.min
	for i := 1; i < j && d < w.max; i++ {
		d *= 2
	}
	if d > w.max {
		d = w.max
	}
	if d > 5*time.Minute {
		d = 5 * time.Minute
	}
	return d
}

// suppressible reports whether the reference allows a cached-failure answer for q at instant t,
// and names the key that explains it.
func (w *vkC13World) suppressible(q vkQ, t time.Time) (bool, string) {
	if !w.enabled {
		return false, ""
	}
	if k := w.keys[vkC13QKey(q)]; k != nil && k.j > 0 && t.Before(k.stamp.Add(w.allowed(k.j))) {
		return true, vkC13QKey(q)
	}
	for key, k := range w.keys {
		if !strings.HasPrefix(key, "z|") || k.j == 0 {
			continue
		}
		parts := strings.Split(key, "|")
		if parts[2] != fmt.Sprint(q.Class) {
			continue
		}
		if vkAtOrBelow(q.Name, parts[1]) && t.Before(k.stamp.Add(w.allowed(k.j))) {
			return true, key
		}
	}
	return false, ""
}

func (w *vkC13World) recordFailure(key string) {
	k := w.keys[key]
	if k == nil {
		k = &vkC13Key{}
		w.keys[key] = k
	}
	k.j++
	k.stamp = vtime.Now()
}

func (w *vkC13World) resetFor(q vkQ) {
	delete(w.keys, vkC13QKey(q))
	for key := range w.keys {
		if strings.HasPrefix(key, "z|") {
			parts := strings.Split(key, "|")
			if parts[2] == fmt.Sprint(q.Class) && vkAtOrBelow(q.Name, parts[1]) {
				delete(w.keys, key)
			}
		}
	}
}

// judgeReply checks one client-visible reply; t was read before asking.
func (w *vkC13World) judgeReply(route vkRoute, q vkQ, r vkReply, t time.Time, sentOPT bool) string {
	if r.msg == nil || r.stubCalls > 0 {
		return ""
	}
	if r.msg.Rcode != dns.RcodeServerFailure {
		return ""
	}
	ok, _ := w.suppressible(q, t)
	if !ok {
		return fmt.Sprintf("route %s: %v answered SERVFAIL from cached failure state without upstream traffic, but nothing that covers it failed within its back-off window (reference keys: %s): %s",
			route, q, w.keysStr(t), vkMsgStr(r.msg))
	}
	// shape: EDE 13 iff the client spoke EDNS; never an answer
	if len(r.msg.Answer) != 0 {
		return fmt.Sprintf("route %s: cached failure reply carries answer records: %s", route, vkMsgStr(r.msg))
	}
	opt := r.msg.IsEdns0()
	// (on the wire-born route the per-client OPT, EDE included, is appended by the edns layer,
	// which this two-handler pipeline does not contain; C05/C06 judge that route's OPT)
	if sentOPT && route != vkRouteWire {
		has13 := false
		if opt != nil {
			for _, o := range opt.Option {
				if e, ok := o.(*dns.EDNS0_EDE); ok && e.InfoCode == dns.ExtendedErrorCodeCachedError {
					has13 = true
				}
			}
		}
		if !has13 {
			return fmt.Sprintf("route %s: cached failure served to an EDNS client without EDE 13: %s", route, vkMsgStr(r.msg))
		}
	}
	return ""
}

func (w *vkC13World) keysStr(t time.Time) string {
	var s []string
	for k, v := range w.keys {
		s = append(s, fmt.Sprintf("%s:j=%d,left=%.1fs", k, v.j, v.stamp.Add(w.allowed(v.j)).Sub(t).Seconds()))
	}
	sort.Strings(s)
	return strings.Join(s, " ")
}

// probeAll runs the side-effect-free lookups for the whole probe alphabet.
func (w *vkC13World) probeAll() string {
	t := vtime.Now()
	for _, p := range vkC13Probes() {
		var scope netip.Prefix
		if p.ECS != "" {
			scope = netip.MustParsePrefix(p.ECS)
		}
		allowedHit, _ := w.suppressible(p, t)
		if hit, ok := w.c.store.LookupFailure(p.msg(1), scope); ok && !allowedHit {
			return fmt.Sprintf("LookupFailure(%v) hits (kind %d, streak %d, retry in %.2fs) but the reference has no active failure covering it (keys: %s)",
				p, hit.Kind, hit.Streak, hit.RetryAfter.Sub(t).Seconds(), w.keysStr(t))
		}
		if p.ECS == "" {
			if hit, ok := w.c.store.LookupFailureWire(vkWireNameC13(p.Name), p.Type, p.Class, p.CD); ok && !allowedHit {
				return fmt.Sprintf("LookupFailureWire(%v) hits (kind %d, streak %d) but the reference has no active failure covering it (keys: %s)", p, hit.Kind, hit.Streak, w.keysStr(t))
			}
		}
		if m, ok := w.c.store.GetWithContext(context.Background(), p.msg(2)); ok && m.Rcode == dns.RcodeServerFailure && !allowedHit && p.ECS == "" {
			return fmt.Sprintf("Store.Get(%v) returns a cached failure the reference does not allow (keys: %s)", p, w.keysStr(t))
		}
	}
	return ""
}

func vkWireNameC13(name string) []byte {
	buf := make([]byte, 300)
	n, err := dns.PackDomainName(name, buf, 0, nil, false)
	if err != nil {
		panic(err)
	}
	return buf[:n]
}

func (w *vkC13World) apply(ev vkC13Ev) (string, string) {
	switch ev.Kind {
	case "adv":
		vtime.Advance(time.Duration(ev.D) * time.Second)
		return w.probeAll(), "adv"
	case "zonefail":
		w.c.store.RecordZoneFailure(dns.Question{Name: "a." + ev.Zone, Qtype: dns.TypeA, Qclass: dns.ClassINET}, ev.Zone)
		if w.enabled {
			w.recordFailure(fmt.Sprintf("z|%s|%d", ev.Zone, dns.ClassINET))
		}
		return w.probeAll(), "zonefail"
	case "zoneclear":
		w.c.store.ClearZoneFailure(dns.Question{Name: "a." + ev.Zone, Qtype: dns.TypeA, Qclass: dns.ClassINET}, ev.Zone)
		delete(w.keys, fmt.Sprintf("z|%s|%d", ev.Zone, dns.ClassINET))
		return w.probeAll(), "zoneclear"
	case "store":
		q := vkC13Qs[ev.Q]
		req := new(dns.Msg)
		req.SetQuestion(q.Name, q.Type)
		req.Question[0].Qclass = q.Class
		req.CheckingDisabled = q.CD
		m := new(dns.Msg)
		m.SetReply(req)
		m.RecursionAvailable = true
		m.Answer = []dns.RR{vkMarkerRR(vkQ{Name: q.Name, Type: q.Type, Class: q.Class}, 1, 1)}
		var cs middleware.CutStore = w.c.store
		cs.SetFromResponseWithCut(m, false, time.Time{}, 0)
		// a useful answer was obtained for the question: its back-off starts over. (Only the question's: the
		// zone part of a sub-query's success is the resolver's own ClearZoneFailure call — event zoneclear.)
		delete(w.keys, vkC13QKey(q))
		if v := w.probeAll(); v != "" {
			return "after " + ev.String() + ": " + v, "violation"
		}
		return "", "stored-" + ev.Up
	case "ask":
		q := vkC13Qs[ev.Q]
		q.DO = ev.Q%2 == 0 // alternate EDNS / plain clients
		w.up = ev.Up
		ctx := context.Background()
		var cancel context.CancelFunc
		switch ev.Up {
		case "local-cancel":
			ctx, cancel = context.WithCancel(ctx)
			orig := w.stub.answer
			w.stub.answer = func(c context.Context, req *dns.Msg) *dns.Msg { cancel(); return orig(c, req) }
			defer func() { w.stub.answer = orig }()
		case "local-besteffort":
			ctx = middleware.WithBestEffortRecursionWork(ctx)
		}
		t := vtime.Now()
		r := w.askFrom(vkRouteMsg, q, 5, vkClient, ctx)
		if cancel != nil {
			cancel()
		}
		outcome := "suppressed"
		if r.msg != nil && r.msg.Rcode == dns.RcodeSuccess && r.stubCalls == 0 {
			outcome = "answer-cache-hit"
		}
		if r.stubCalls > 0 {
			outcome = "upstream-" + ev.Up
			qq := q
			qq.DO = false
			switch ev.Up {
			case "fail", "refused":
				if w.enabled {
					w.recordFailure(vkC13QKey(qq))
				}
			case "ok":
				w.resetFor(qq)
			}
		}
		if v := w.judgeReply(vkRouteMsg, vkC13Qs[ev.Q], r, t, q.DO); v != "" {
			return v, "violation"
		}
		if r.stubCalls == 0 {
			// the same question on the wire-born route must be judged the same way
			t2 := vtime.Now()
			r2 := w.ask(vkRouteWire, q, 6)
			if r2.stubCalls > 0 {
				// the wire route re-resolved; mirror the bookkeeping
				qq := q
				qq.DO = false
				switch ev.Up {
				case "fail", "refused":
					if w.enabled {
						w.recordFailure(vkC13QKey(qq))
					}
				case "ok":
					w.resetFor(qq)
				}
			}
			if v := w.judgeReply(vkRouteWire, vkC13Qs[ev.Q], r2, t2, q.DO); v != "" {
				return v, "violation"
			}
		}
		if v := w.probeAll(); v != "" {
			return "after " + ev.String() + ": " + v, "violation"
		}
		return "", outcome
	}
	return "harness: unknown event", "harness"
}

func (w *vkC13World) digest() string {
	now := vtime.Now()
	var parts []string
	for k, v := range w.keys {
		left := v.stamp.Add(w.allowed(v.j)).Sub(now)
		parts = append(parts, fmt.Sprintf("%s:j%d:%d", k, v.j, int(left.Round(time.Second)/time.Second)))
	}
	// the implementation's own retained failure state
	w.c.failure.entries.ForEach(func(hash uint64, v any) bool {
		e := v.(*failureEntry)
		name := e.question.Question.Name + fmt.Sprint(e.question.Question.Qtype, e.question.CD)
		if e.kind == FailureKindZone {
			name = "zone:" + e.zone.Zone
		}
		parts = append(parts, fmt.Sprintf("real:%s:s%d:%d", name, e.streak, int(e.retryAfter.Sub(now).Round(time.Second)/time.Second)))
		return true
	})
	sort.Strings(parts)
	return strings.Join(parts, ",")
}

func vkC13HistStr(h []vkC13Ev) string {
	s := make([]string, len(h))
	for i, e := range h {
		s[i] = e.String()
	}
	return strings.Join(s, " ")
}

type vkC13Cfg struct {
	Min, Max int
	Enabled  bool
}

func vkC13Replay(cfg vkC13Cfg, h []vkC13Ev) (string, *vkC13World, []string) {
	w := vkNewC13World(time.Duration(cfg.Min)*time.Second, time.Duration(cfg.Max)*time.Second, cfg.Enabled)
	var outs []string
	for i, ev := range h {
		v, o := w.apply(ev)
		outs = append(outs, o)
		if v != "" {
			return fmt.Sprintf("step %d %v: %s", i, ev, v), w, outs
		}
	}
	return "", w, outs
}

func vkC13Class(v string) string {
	for _, k := range []string{"without upstream traffic", "LookupFailure(", "LookupFailureWire(", "Store.Get(", "without EDE 13", "carries answer records"} {
		if strings.Contains(v, k) {
			return k
		}
	}
	return "other"
}

func TestVerifC13Hist(t *testing.T) {
	c := vkit.Init("C13/hist")
	defer c.Close()
	if c.Replay != nil {
		var r struct {
			Cfg  vkC13Cfg  `json:"cfg"`
			Hist []vkC13Ev `json:"hist"`
		}
		if err := json.Unmarshal(c.Replay, &r); err != nil {
			c.HarnessError("bad replay")
			return
		}
		v, w, _ := vkC13Replay(r.Cfg, r.Hist)
		w.stop()
		if v != "" {
			c.Violation("hist:"+vkC13Class(v), v, r)
		}
		return
	}
	// passes: (config, alphabet, depth). The full alphabet (request-local causes included) runs
	// shallow; the core alphabet (fail/succeed/zone/advance) runs deep enough to walk the
	// streak through min -> 2*min -> max and through a success reset.
	full := vkC13Events(c.Thorough())
	var core []vkC13Ev
	for _, e := range full {
		if (e.Kind != "ask" && e.Kind != "store") || ((e.Up == "fail" || e.Up == "ok") && (e.Q == 0 || e.Q == 2)) {
			if e.Kind == "adv" && (e.D == 1 || e.D == 9) {
				continue
			}
			core = append(core, e)
		}
	}
	type pass struct {
		cfg   vkC13Cfg
		evs   []vkC13Ev
		depth int
	}
	passes := []pass{{vkC13Cfg{2, 8, true}, full, 3}, {vkC13Cfg{2, 8, false}, full, 3}, {vkC13Cfg{2, 3, true}, core, 5}, {vkC13Cfg{2, 8, true}, core, 6}}
	if c.Thorough() {
		passes = []pass{{vkC13Cfg{2, 8, true}, full, 5}, {vkC13Cfg{2, 8, false}, full, 4}, {vkC13Cfg{2, 3, true}, core, 7}, {vkC13Cfg{2, 8, true}, core, 8},
			{vkC13Cfg{5, 300, true}, core, 6}, {vkC13Cfg{1, 1, true}, core, 6}}
	}
	// outage family: ONE key failing again and again, every time right after its back-off has run out, for 80 generations
	// (question failure through the ask path, and zone failure through RecordZoneFailure) — far beyond the streak at which
	// the window reaches its maximum. After every failure the implementation's own entry must hold a window inside
	// [configured minimum, configured maximum (<= 5 min)] that is not shorter than the one before it: a window that
	// collapses (or is born expired) stops suppressing the retries of a zone that is still down.
	if c.Mine(0) {
		for _, oc := range []vkC13Cfg{{5, 300, true}, {1, 300, true}, {2, 8, true}, {1, 1, true}} {
			for _, kind := range []string{"question", "zone"} {
				w := vkNewC13World(time.Duration(oc.Min)*time.Second, time.Duration(oc.Max)*time.Second, true)
				prev := time.Duration(0)
				for gen := 1; gen <= 80; gen++ {
					if kind == "question" {
						if v, _ := w.apply(vkC13Ev{Kind: "ask", Q: 0, Up: "fail"}); v != "" {
							c.Violation("hist:outage:"+vkC13Class(v), fmt.Sprintf("cfg %+v, %s failure, generation %d: %s", oc, kind, gen, v), nil)
							break
						}
					} else {
						w.apply(vkC13Ev{Kind: "zonefail", Zone: "z.t."})
					}
					c.Add("evaluations", 1)
					now := vtime.Now()
					var left time.Duration
					found := false
					w.c.failure.entries.ForEach(func(_ uint64, v any) bool {
						e := v.(*failureEntry)
						if (kind == "zone") == (e.kind == FailureKindZone) {
							left, found = e.retryAfter.Sub(now), true
						}
						return true
					})
					lo, hi := time.Duration(oc.Min)*time.Second, time.Duration(oc.Max)*time.Second
					if hi > 5*time.Minute {
						hi = 5 * time.Minute
					}
					if !found || left < lo-50*time.Millisecond || left > hi+50*time.Millisecond || left < prev-50*time.Millisecond {
						c.Violation("hist:outage:backoff-outside-envelope", fmt.Sprintf("cfg %+v, %s failure: after %d consecutive failures (each right after the previous back-off ran out) the recorded window is %v (entry found=%v), outside [%v, %v] or shorter than the previous one (%v)", oc, kind, gen, left, found, lo, hi, prev), nil)
						break
					}
					prev = left
					c.Outcome(fmt.Sprintf("outage:%s:window=%v", kind, left.Round(time.Second)))
					vtime.Advance(left + time.Second)
				}
				w.stop()
			}
		}
	}
	for _, ps := range passes {
		cfg, evs, maxDepth := ps.cfg, ps.evs, ps.depth
		seen := map[string]bool{}
		type node struct{ hist []vkC13Ev }
		frontier := []node{{}}
		for depth := 1; depth <= maxDepth && len(frontier) > 0; depth++ {
			var next []node
			for _, n := range frontier {
				for ei, ev := range evs {
					if depth == 1 && !c.Mine(ei) {
						continue
					}
					if c.OverBudget() {
						c.Cap(fmt.Sprintf("time budget reached at depth %d (cfg %+v)", depth, cfg))
						return
					}
					h := append(append([]vkC13Ev{}, n.hist...), ev)
					viol, w, outs := vkC13Replay(cfg, h)
					d := fmt.Sprintf("%+v|", cfg) + w.digest()
					w.stop()
					c.Add("transitions", 1)
					c.Add("evaluations", int64(1+len(vkC13Probes())))
					c.Add("traces", 1)
					if viol != "" {
						v2, w2, _ := vkC13Replay(cfg, h)
						w2.stop()
						if v2 == "" {
							c.Add("dropped_unreproducible", 1)
							continue
						}
						c.Violation("hist:"+vkC13Class(viol), fmt.Sprintf("cfg %+v after [%s]: %s", cfg, vkC13HistStr(h), viol), map[string]any{"cfg": cfg, "hist": h})
						if c.NumViolations() > 6 {
							return
						}
						continue
					}
					c.Outcome(fmt.Sprintf("en=%v %s->%s", cfg.Enabled, ev.Kind+ev.Up, outs[len(outs)-1]))
					if seen[d] {
						continue
					}
					seen[d] = true
					c.DistinctStr("states", d)
					if strings.Contains(d, "real:") {
						c.DistinctStr("nontrivial", d)
					}
					c.Max("max_depth", int64(depth))
					if len(seen)%300 == 5 {
						c.Sample(map[string]any{"cfg": cfg, "hist": vkC13HistStr(h), "state": d})
					}
					next = append(next, node{hist: h})
				}
			}
			frontier = next
		}
		c.Note(fmt.Sprintf("C13/hist cfg %+v: %d states, frontier %d at depth bound %d", cfg, len(seen), len(frontier), maxDepth))
	}
}
