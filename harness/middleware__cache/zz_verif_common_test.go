//go:build verif

package cache

// Shared harness pieces for the cache-pipeline checks (C03, C04, C13, C19):
// a real Cache in front of a scripted stub "upstream", driven through the
// real Chain on every serving route (message-born, wire-born, byte fast path).

import (
	"context"
	"fmt"
	"net/netip"
	"strings"
	"time"

	"github.com/miekg/dns"
	"github.com/semihalev/sdns/config"
	"github.com/semihalev/sdns/internal/mock"
	"github.com/semihalev/sdns/middleware"
	"github.com/semihalev/zlog/v2"
)

func init() {
	logger := zlog.NewStructured()
	logger.SetLevel(zlog.LevelFatal)
	zlog.SetDefault(logger)
}

// vkStub is the handler behind the cache: the scripted upstream.
type vkStub struct {
	calls  int
	last   *dns.Msg
	answer func(ctx context.Context, req *dns.Msg) *dns.Msg
}

func (s *vkStub) Name() string { return "vkstub" }

func (s *vkStub) ServeDNS(ctx context.Context, ch *middleware.Chain) {
	req := ch.Request.Msg()
	s.calls++
	if req != nil {
		s.last = req.Copy()
	}
	if s.answer != nil && req != nil {
		if resp := s.answer(ctx, req); resp != nil {
			_ = ch.Writer.WriteMsg(resp)
		}
	}
	ch.Cancel()
}

func vkBaseConfig() *config.Config {
	cfg := &config.Config{
		Expire:    600,
		CacheSize: 4096,
		Prefetch:  0,
		RateLimit: 0,
		Maxdepth:  30,
		DNSSEC:    "on",
	}
	cfg.Timeout.Duration = 2 * time.Second
	return cfg
}

type vkWorld struct {
	c    *Cache
	stub *vkStub
	hs   []middleware.Handler
}

func vkNewWorld(mod func(*config.Config)) *vkWorld {
	cfg := vkBaseConfig()
	if mod != nil {
		mod(cfg)
	}
	return vkNewWorldPre(cfg)
}

// vkNewWorldPre builds the world with extra handlers IN FRONT of the cache
// (hostsfile/blocklist-like local answerers), reached by clients and by the
// cache's own internal sub-queries alike.
func vkNewWorldPre(cfg *config.Config, pre ...middleware.Handler) *vkWorld {
	w := &vkWorld{c: New(cfg), stub: &vkStub{}}
	w.hs = append(append([]middleware.Handler{}, pre...), w.c, w.stub)
	// CNAME chase / internal work goes through the real pipeline queryer over the same handlers.
	w.c.SetQueryer(middleware.NewPipelineQueryer(middleware.VerifNewPipeline(w.hs, middleware.RecursionWorkPolicy{})))
	return w
}

func (w *vkWorld) stop() { w.c.Stop() }

// vkQ is one question + audience.
type vkQ struct {
	Name  string `json:"name"`
	Type  uint16 `json:"type"`
	Class uint16 `json:"class"`
	CD    bool   `json:"cd"`
	// ECS option sent by the client ("" = none), e.g. "10.0.0.0/24".
	ECS string `json:"ecs,omitempty"`
	DO  bool   `json:"do,omitempty"`
}

func (q vkQ) String() string {
	s := fmt.Sprintf("%s/%s/%s", q.Name, dns.TypeToString[q.Type], dns.ClassToString[q.Class])
	if q.CD {
		s += "/CD"
	}
	if q.ECS != "" {
		s += "/ecs=" + q.ECS
	}
	if q.DO {
		s += "/DO"
	}
	return s
}

func (q vkQ) question() dns.Question {
	return dns.Question{Name: q.Name, Qtype: q.Type, Qclass: q.Class}
}

func (q vkQ) msg(id uint16) *dns.Msg {
	m := new(dns.Msg)
	m.Id = id
	m.RecursionDesired = true
	m.CheckingDisabled = q.CD
	m.Question = []dns.Question{q.question()}
	if q.ECS != "" || q.DO {
		opt := &dns.OPT{Hdr: dns.RR_Header{Name: ".", Rrtype: dns.TypeOPT}}
		opt.SetUDPSize(1232)
		opt.SetDo(q.DO)
		if q.ECS != "" {
			p := netip.MustParsePrefix(q.ECS)
			fam := uint16(1)
			if p.Addr().Is6() {
				fam = 2
			}
			opt.Option = append(opt.Option, &dns.EDNS0_SUBNET{Code: dns.EDNS0SUBNET, Family: fam,
				SourceNetmask: uint8(p.Bits()), Address: p.Addr().AsSlice()})
		}
		m.Extra = []dns.RR{opt}
	}
	return m
}

// vkEquivalent is the reference for "same question and CD partition":
// owner name equal under ASCII-only case folding, same type, class and CD.
func vkEquivalent(a, b vkQ) bool {
	return vkFoldEq(a.Name, b.Name) && a.Type == b.Type && a.Class == b.Class && a.CD == b.CD
}

func vkFoldEq(a, b string) bool {
	if len(a) != len(b) {
		return false
	}
	for i := 0; i < len(a); i++ {
		x, y := a[i], b[i]
		if x >= 'A' && x <= 'Z' {
			x += 32
		}
		if y >= 'A' && y <= 'Z' {
			y += 32
		}
		if x != y {
			return false
		}
	}
	return true
}

type vkRoute string

const (
	vkRouteMsg      vkRoute = "msg"       // message-born, transport not a byte sink
	vkRouteMsgBytes vkRoute = "msg+bytes" // message-born on an owned byte sink (handleCacheHit byte fast path)
	vkRouteWire     vkRoute = "wire"      // wire-born strict path (serveWire ladder)
)

type vkReply struct {
	msg       *dns.Msg
	written   bool
	stubCalls int
}

const vkClient = "198.51.100.77:40000"

// ask runs one query through cache->stub on the given route.
func (w *vkWorld) ask(route vkRoute, q vkQ, id uint16) vkReply {
	return w.askFrom(route, q, id, vkClient, context.Background())
}

func (w *vkWorld) askFrom(route vkRoute, q vkQ, id uint16, client string, ctx context.Context) vkReply {
	before := w.stub.calls
	wr := mock.NewWriter("udp", client)
	ch := middleware.NewChain(w.hs)
	req := q.msg(id)
	switch route {
	case vkRouteMsg:
		ch.Reset(wr, req)
	case vkRouteMsgBytes:
		ch.Reset(wr, req)
		ch.AllowDirectPack()
	case vkRouteWire:
		raw, err := req.Pack()
		if err != nil {
			panic("vk: cannot pack query: " + err.Error())
		}
		r := new(middleware.Request)
		if !r.ParseWire(raw, time.Now(), nil) {
			// not strict-eligible: the server would take the decoded entry
			ch.Reset(wr, req)
			ch.AllowDirectPack()
		} else {
			ch.ResetWire(wr, r)
			ch.AllowDirectPack()
		}
	}
	ch.Next(ctx)
	ch.Finish()
	return vkReply{msg: wr.Msg(), written: wr.Written(), stubCalls: w.stub.calls - before}
}

// vkMarkerRR returns the answer record carrying marker id for question q.
// A/AAAA answers encode the id in the address; other types use TXT rdata.
func vkMarkerRR(q vkQ, id int, ttl uint32) dns.RR {
	hdr := dns.RR_Header{Name: q.Name, Rrtype: q.Type, Class: q.Class, Ttl: ttl}
	switch q.Type {
	case dns.TypeA:
		return &dns.A{Hdr: hdr, A: []byte{10, 77, byte(id >> 8), byte(id)}}
	case dns.TypeAAAA:
		ip := make([]byte, 16)
		ip[0], ip[1], ip[14], ip[15] = 0x20, 0x01, byte(id>>8), byte(id)
		return &dns.AAAA{Hdr: hdr, AAAA: ip}
	default:
		hdr.Rrtype = dns.TypeTXT
		return &dns.TXT{Hdr: hdr, Txt: []string{fmt.Sprintf("vk-marker-%d", id)}}
	}
}

// vkMarkersIn extracts every marker id found anywhere in msg.
func vkMarkersIn(m *dns.Msg) []int {
	if m == nil {
		return nil
	}
	var out []int
	for _, sec := range [][]dns.RR{m.Answer, m.Ns, m.Extra} {
		for _, rr := range sec {
			switch r := rr.(type) {
			case *dns.A:
				if ip := r.A.To4(); ip != nil && ip[0] == 10 && ip[1] == 77 {
					out = append(out, int(ip[2])<<8|int(ip[3]))
				}
			case *dns.AAAA:
				if len(r.AAAA) == 16 && r.AAAA[0] == 0x20 && r.AAAA[1] == 0x01 && r.AAAA[2] == 0 {
					out = append(out, int(r.AAAA[14])<<8|int(r.AAAA[15]))
				}
			case *dns.TXT:
				for _, t := range r.Txt {
					var id int
					if _, err := fmt.Sscanf(t, "vk-marker-%d", &id); err == nil {
						out = append(out, id)
					}
				}
			}
		}
	}
	return out
}

// vkAnswer builds an upstream answer for q with one marker record.
func vkAnswer(q vkQ, id int, ttl uint32) *dns.Msg {
	m := new(dns.Msg)
	m.SetReply(q.msg(0))
	m.RecursionAvailable = true
	m.Answer = []dns.RR{vkMarkerRR(q, id, ttl)}
	return m
}

func vkMsgStr(m *dns.Msg) string {
	if m == nil {
		return "<no reply>"
	}
	return strings.ReplaceAll(strings.TrimSpace(m.String()), "\n", " | ")
}
