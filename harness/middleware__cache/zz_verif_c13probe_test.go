//go:build verif

package cache

// C13/probe — schedule exploration of the REAL Cache.ServeDNS around an expired
// RFC 9520 failure entry ("the first retry after a backoff is led by a single
// probe", "answered ... without upstream traffic", quantified over "concurrent
// followers of an expired entry").
//
// World: a real Cache in front of a scripted stub handler, reached through the
// real middleware.Chain. Sequentially (no scheduler) a first failing resolution
// records a question failure (variant "zone": the authority-zone failure is
// reported through Store.RecordZoneFailure, as the resolver does) and the
// virtual clock is moved past its back-off: the entry is expired but retained.
// Then 2 (thorough: also 3) client threads run the real ServeDNS for the same
// question (zone variant: different names of the failed zone) under the
// cooperative scheduler; every lock/atomic/pool operation of middleware/cache,
// internal/waitgroup and internal/cache is a scheduling point and every
// schedule with at most 2 (thorough 3) preemptions is executed.
//
// The follower's wait in ServeDNS is a bare `select` on the generation's Done
// channel. The unit's overlay patch (checks/C13.py) puts ONE verif-only
// statement in front of that select: under an active run the thread is parked
// with sched.Block until generation.Err()!=nil or ctx.Err()!=nil, i.e. until
// the select that follows cannot block any more; the real select then runs.
// Nothing else of ServeDNS is touched.
//
// The upstream stub is one scheduling point long ("the resolution takes
// time"), so other clients can run while a probe is upstream. All bookkeeping
// of the harness is on a logical event counter; it performs no operation on
// the objects under test while the threads run (no extra scheduling points).
//
// Upstream scripts (outcome of the k-th upstream call, last repeats):
// fail (shared SERVFAIL: must be recorded; zone variant: the stub reports the
// zone failure first, as the resolver does), ok (NOERROR answer: recovery),
// fail>ok, local>fail, local>ok (first probe fails request-locally: regroup),
// thorough: local>local>fail|ok with three clients (regroup limit).
//
// Oracle, from the property text only, judged at quiescence on the recorded
// call/reply instants:
//  1. no upstream call STARTS after a failing call for a covering question was
//     written back through the cache (no clock advance happens during a run,
//     the back-off is >= 60 s), unless a useful answer may have reset it in
//     between (judged conservatively: any overlapping "ok" call excuses);
//  2. no upstream call starts while another one of the same expired generation
//     is still resolving, unless a recovery has begun;
//  3. every client gets exactly one reply for its own query; a client that did
//     not go upstream gets an answer only if somebody resolved one, SERVFAIL
//     with EDE 13 only if a covering failure was observed upstream before its
//     reply, the probe-limit shed only after two request-local probe failures,
//     and nothing else;
//  4. the dedup group holds no generation for any involved key afterwards;
//  5. envelope: after failures without recovery an active entry covers every
//     failed question with at most min*2^(k-1) left; after answers without
//     failure no entry is active or retained and (sequential epilogue) the
//     next failure starts at streak 1 with at most the minimum back-off.

import (
	"context"
	"encoding/json"
	"fmt"
	"net"
	"net/netip"
	"os"
	"runtime"
	"sort"
	"strings"
	"testing"
	"time"

	"github.com/miekg/dns"
	"github.com/semihalev/sdns/internal/verifshim/sched"
	"github.com/semihalev/sdns/internal/verifshim/vkit"
	"github.com/semihalev/sdns/internal/verifshim/vtime"
	"github.com/semihalev/sdns/middleware"
)

const (
	vkPBMin    = 60 * time.Second // configured minimum back-off (far above any real time one execution takes)
	vkPBMax    = 300 * time.Second
	vkPBIDBase = 0x5100
	vkPBZone   = "z.t."
)

var vkPBNames = []string{"a.z.t.", "b.z.t.", "a.z.t."} // zone variant: thread i asks vkPBNames[i]

type vkPBScenario struct {
	Name    string   `json:"name"`
	Variant string   `json:"variant"` // question | zone
	Script  []string `json:"script"`  // outcome of the k-th upstream call, last one repeats: fail | ok | local
	Threads int      `json:"threads"`
	Route   string   `json:"route"`           // msg | wire
	Bound   int      `json:"bound,omitempty"` // preemption bound this scenario is explored with (not part of its identity)
}

func (s vkPBScenario) String() string {
	return fmt.Sprintf("%s/%s/%dT/%s", s.Variant, strings.Join(s.Script, ">"), s.Threads, s.Route)
}

func (s vkPBScenario) qname(thread int) string {
	if s.Variant == "zone" {
		return vkPBNames[thread%len(vkPBNames)]
	}
	return vkPBNames[0]
}

// ---- transport (one per client; counts replies and stamps the first one)

type vkPBTransport struct {
	w       *vkPBWorld
	replies []*dns.Msg
	at      []int
	addr    *net.UDPAddr
}

func (t *vkPBTransport) LocalAddr() net.Addr {
	return &net.UDPAddr{IP: net.IPv4(127, 0, 0, 1), Port: 53}
}
func (t *vkPBTransport) RemoteAddr() net.Addr { return t.addr }
func (t *vkPBTransport) Close() error         { return nil }
func (t *vkPBTransport) Proto() string        { return "udp" }
func (t *vkPBTransport) WriteMsg(m *dns.Msg) error {
	t.replies = append(t.replies, m.Copy())
	t.at = append(t.at, t.w.tick())
	return nil
}
func (t *vkPBTransport) Write(b []byte) (int, error) {
	m := new(dns.Msg)
	if err := m.Unpack(b); err != nil {
		m = &dns.Msg{}
		m.Rcode = 0xfff
	}
	t.replies = append(t.replies, m)
	t.at = append(t.at, t.w.tick())
	return len(b), nil
}

// ---- stub upstream

type vkPBCall struct {
	Client   int
	Name     string
	Out      string
	Enter    int // logical instant the call arrived upstream
	Resolved int // instant its outcome was decided (just before it is written back through the cache)
	Exit     int // instant the write-back through the cache's writer returned
}

type vkPBStub struct{ w *vkPBWorld }

func (s *vkPBStub) Name() string { return "vkpbstub" }

func (s *vkPBStub) ServeDNS(ctx context.Context, ch *middleware.Chain) {
	w := s.w
	req := ch.Request.Msg()
	if req == nil || len(req.Question) != 1 {
		w.bad = "stub reached without a decodable single-question request"
		ch.Cancel()
		return
	}
	q := req.Question[0]
	m := new(dns.Msg)
	m.SetReply(req)
	m.RecursionAvailable = true
	if w.pre {
		// sequential preparation: the first, failing resolution
		w.preCalls++
		if w.sc.Variant == "zone" {
			w.c.store.RecordZoneFailure(q, vkPBZone)
		}
		m.Rcode = dns.RcodeServerFailure
		_ = ch.Writer.WriteMsg(m)
		ch.Cancel()
		return
	}
	k := len(w.calls)
	out := w.sc.Script[len(w.sc.Script)-1]
	if k < len(w.sc.Script) {
		out = w.sc.Script[k]
	}
	call := &vkPBCall{Client: int(req.Id) - vkPBIDBase, Name: strings.ToLower(q.Name), Out: out, Enter: w.tick(), Resolved: -1, Exit: -1}
	w.calls = append(w.calls, call)
	if r := sched.Active(); r != nil {
		r.Point("upstream") // the resolution takes time: every other client may run meanwhile
	}
	switch out {
	case "ok":
		m.Answer = []dns.RR{vkMarkerRR(vkQ{Name: q.Name, Type: q.Qtype, Class: q.Qclass}, k+1, 30)}
	case "fail":
		if w.sc.Variant == "zone" {
			// what the resolver does when every server of the zone failed again
			w.c.store.RecordZoneFailure(q, vkPBZone)
		}
		m.Rcode = dns.RcodeServerFailure
	case "local":
		m.Rcode = dns.RcodeServerFailure
		lctx, _ := middleware.EnsureResolutionAttemptGuard(ctx)
		middleware.MarkRequestLocalFailureResponse(lctx, m, middleware.ErrResolutionAttemptLimit)
	}
	call.Resolved = w.tick()
	_ = ch.Writer.WriteMsg(m)
	call.Exit = w.tick()
	ch.Cancel()
}

// ---- world

type vkPBWorld struct {
	sc       vkPBScenario
	c        *Cache
	hs       []middleware.Handler
	stub     *vkPBStub
	pre      bool
	preCalls int
	seq      int
	calls    []*vkPBCall
	tr       []*vkPBTransport
	bad      string
	t0       time.Time // virtual instant the threads were released
}

func (w *vkPBWorld) tick() int { w.seq++; return w.seq }

func vkPBMsg(name string, id uint16) *dns.Msg {
	return vkQ{Name: name, Type: dns.TypeA, Class: dns.ClassINET, DO: true}.msg(id)
}

func (w *vkPBWorld) serve(route string, tr middleware.Transport, req *dns.Msg) {
	ch := middleware.NewChain(w.hs)
	if route == "wire" {
		raw, err := req.Pack()
		if err != nil {
			panic("vk: cannot pack query: " + err.Error())
		}
		r := new(middleware.Request)
		if !r.ParseWire(raw, time.Now(), nil) {
			panic("vk: probe query is not strict-eligible")
		}
		ch.ResetWire(tr, r)
		ch.AllowDirectPack()
	} else {
		ch.Reset(tr, req)
	}
	ch.Next(context.Background())
	ch.Finish()
}

// vkPBNewWorld builds the cache and drives it sequentially into the pre-state:
// one failed resolution, then the clock moved past its back-off.
func vkPBNewWorld(sc vkPBScenario) (*vkPBWorld, string) {
	vtime.SetOffset(0)
	cfg := vkBaseConfig()
	cfg.RecursionFirewall.FailureCacheMinTTL.Duration = vkPBMin
	cfg.RecursionFirewall.FailureCacheMaxTTL.Duration = vkPBMax
	cfg.RecursionFirewall.FailureCacheSize = 64
	w := &vkPBWorld{sc: sc, c: New(cfg)}
	w.stub = &vkPBStub{w: w}
	w.hs = []middleware.Handler{w.c, w.stub}
	w.c.SetQueryer(middleware.NewPipelineQueryer(middleware.VerifNewPipeline(w.hs, middleware.RecursionWorkPolicy{})))
	w.pre = true
	ptr := &vkPBTransport{w: w, addr: &net.UDPAddr{IP: net.IPv4(198, 51, 100, 9), Port: 40009}}
	preName := vkPBNames[0]
	if sc.Variant == "zone" {
		preName = "pre." + vkPBZone // the zone failed while resolving yet another name of it
	}
	w.serve("msg", ptr, vkPBMsg(preName, 7))
	if w.preCalls != 1 || len(ptr.replies) != 1 || ptr.replies[0].Rcode != dns.RcodeServerFailure {
		return w, fmt.Sprintf("pre-state: the first failing resolution made %d upstream calls and %d replies", w.preCalls, len(ptr.replies))
	}
	probe := vkPBMsg(sc.qname(0), 8)
	if _, ok := w.c.store.LookupFailure(probe, netip.Prefix{}); !ok {
		return w, "pre-state: the first failure is not served from the failure cache"
	}
	vtime.Advance(vkPBMin + time.Second)
	if _, ok := w.c.store.LookupFailure(probe, netip.Prefix{}); ok {
		return w, "pre-state: the failure is still active one second after its minimum back-off"
	}
	if _, ok := w.c.store.FailureRetryKey(probe, netip.Prefix{}); !ok {
		return w, "pre-state: the expired failure is not retained (no retry key)"
	}
	w.pre = false
	w.seq = 0
	w.t0 = vtime.Now()
	return w, ""
}

// ---- judgement

func vkPBReplyKind(m *dns.Msg) string {
	if m.Rcode == dns.RcodeSuccess && len(m.Answer) > 0 {
		return "answer"
	}
	if m.Rcode == dns.RcodeServerFailure {
		if opt := m.IsEdns0(); opt != nil {
			for _, o := range opt.Option {
				if ede, ok := o.(*dns.EDNS0_EDE); ok {
					switch {
					case ede.InfoCode == dns.ExtendedErrorCodeCachedError:
						return "servfail-ede13"
					case ede.ExtraText == failureProbeLimitEDEText:
						return "servfail-probelimit"
					default:
						return fmt.Sprintf("servfail-ede%d", ede.InfoCode)
					}
				}
			}
		}
		return "servfail-plain"
	}
	return fmt.Sprintf("rcode%d", m.Rcode)
}

func (w *vkPBWorld) covers(a, b *vkPBCall) bool {
	if w.sc.Variant == "zone" {
		return true // every asked name is at or below the failed zone
	}
	return a.Name == b.Name
}

func (w *vkPBWorld) callsStr() string {
	var s []string
	for i, c := range w.calls {
		s = append(s, fmt.Sprintf("#%d{client %d %s %s enter@%d resolved@%d exit@%d}", i, c.Client, c.Name, c.Out, c.Enter, c.Resolved, c.Exit))
	}
	for i, t := range w.tr {
		k := "none"
		if len(t.replies) > 0 {
			k = fmt.Sprintf("%s@%d", vkPBReplyKind(t.replies[0]), t.at[0])
		}
		s = append(s, fmt.Sprintf("client %d reply %s", i, k))
	}
	return strings.Join(s, " ")
}

// judge runs at quiescence (scheduler no longer active: every read is free).
func (w *vkPBWorld) judge() (string, string) {
	if w.bad != "" {
		return w.bad, "bad"
	}
	sc := w.sc
	obs := w.callsStr()
	// (1) no upstream call starts while an active failure covers its question. Judged at call entry and
	// conservatively: the failure of call A is certainly active when A's write-back through the cache returned
	// before B arrived (no virtual time passes during the run, the back-off is >= 60 s) and no useful answer
	// could have reset it in between (every "ok" call ended before A began, or began after B arrived).
	for bi, b := range w.calls {
		for ai, a := range w.calls {
			if a == b || a.Out != "fail" || a.Exit < 0 || a.Exit > b.Enter || !w.covers(a, b) {
				continue
			}
			reset := false
			for _, c := range w.calls {
				if c.Out == "ok" && !(c.Exit >= 0 && c.Exit < a.Enter) && !(c.Enter >= b.Enter) {
					reset = true
				}
			}
			if !reset {
				return fmt.Sprintf("active-backoff-upstream: upstream call #%d (client %d, %s) started at instant %d inside an ACTIVE back-off: call #%d for %s had failed and its SERVFAIL had been written back through the cache (recorded, back-off >= %v re-armed) at instant %d, no useful answer and no clock advance in between. [%s]",
					bi, b.Client, b.Name, b.Enter, ai, a.Name, vkPBMin, a.Exit, obs), "viol"
			}
		}
	}
	// (2) one probe at a time: no call arrives while another one for the same retry generation is still
	// resolving (between its arrival and its outcome), unless a recovery has begun (then later arrivals are
	// ordinary misses, not probes).
	for bi, b := range w.calls {
		for ai, a := range w.calls {
			if a == b || !(a.Enter < b.Enter && (a.Resolved < 0 || b.Enter < a.Resolved)) {
				continue
			}
			recovering := false
			for _, c := range w.calls {
				if c.Out == "ok" && c.Resolved >= 0 && c.Resolved < b.Enter {
					recovering = true
				}
			}
			if !recovering {
				return fmt.Sprintf("two-probes: upstream call #%d (client %d, %s) started at instant %d while probe #%d (client %d, %s, started at %d) was still upstream: two concurrent probes for one expired failure generation. [%s]",
					bi, b.Client, b.Name, b.Enter, ai, a.Client, a.Name, a.Enter, obs), "viol"
			}
		}
	}
	// (3) exactly one reply per client, of a legal kind
	nFail, nOK, nLocal := 0, 0, 0
	for _, c := range w.calls {
		switch c.Out {
		case "fail":
			nFail++
		case "ok":
			nOK++
		case "local":
			nLocal++
		}
	}
	var kinds []string
	for i, t := range w.tr {
		if len(t.replies) != 1 {
			return fmt.Sprintf("replies: client %d received %d replies. [%s]", i, len(t.replies), obs), "viol"
		}
		m := t.replies[0]
		name := sc.qname(i)
		if m.Id != uint16(vkPBIDBase+i) || !m.Response || len(m.Question) != 1 || !strings.EqualFold(m.Question[0].Name, name) {
			return fmt.Sprintf("replies: client %d received a reply that is not for its query: %s [%s]", i, vkMsgStr(m), obs), "viol"
		}
		kind := vkPBReplyKind(m)
		var own *vkPBCall
		for _, c := range w.calls {
			if c.Client == i {
				if own != nil {
					return fmt.Sprintf("replies: client %d went upstream twice. [%s]", i, obs), "viol"
				}
				own = c
			}
		}
		at := t.at[0]
		if own != nil {
			if (own.Out == "ok") != (kind == "answer") || (own.Out != "ok" && !strings.HasPrefix(kind, "servfail")) {
				return fmt.Sprintf("replies: client %d resolved upstream with outcome %q but received %s. [%s]", i, own.Out, kind, obs), "viol"
			}
			kinds = append(kinds, "up-"+own.Out)
			continue
		}
		if kind == "servfail-plain" && sc.Route == "wire" {
			// on the wire-born route the per-client OPT (EDE 13 included) is appended by the edns layer, which this
			// two-handler pipeline does not contain (C05/C06 judge that route's OPT): judged as a failure-cache answer
			kind = "servfail-ede13"
		}
		switch kind {
		case "answer":
			legal := false
			for _, c := range w.calls {
				if c.Out == "ok" && c.Resolved >= 0 && c.Resolved < at && strings.EqualFold(c.Name, name) {
					legal = true
				}
			}
			if !legal {
				return fmt.Sprintf("replies: client %d received an answer nobody resolved for %s. [%s]", i, name, obs), "viol"
			}
		case "servfail-ede13":
			legal := false
			for _, c := range w.calls {
				if c.Out == "fail" && c.Resolved >= 0 && c.Resolved < at && (sc.Variant == "zone" || c.Name == strings.ToLower(name)) {
					legal = true
				}
			}
			if !legal {
				return fmt.Sprintf("replies: client %d was answered SERVFAIL/EDE 13 from the failure cache although the only failure covering %s had expired and no new one was observed before its reply. [%s]", i, name, obs), "viol"
			}
		case "servfail-probelimit":
			done := 0
			for _, c := range w.calls {
				if c.Out == "local" && c.Exit >= 0 && c.Exit < at {
					done++
				}
			}
			if done < 2 {
				return fmt.Sprintf("replies: client %d was shed with the probe-retry-limit failure after only %d request-local probe failures. [%s]", i, done, obs), "viol"
			}
		default:
			return fmt.Sprintf("replies: client %d never went upstream and received %s: a client answered from the failure cache must get SERVFAIL with EDE 13. [%s]", i, kind, obs), "viol"
		}
		kinds = append(kinds, kind)
	}
	// (4) nothing registered in the dedup group at quiescence
	for i := 0; i < sc.Threads; i++ {
		q := dns.Question{Name: sc.qname(i), Qtype: dns.TypeA, Qclass: dns.ClassINET}
		keys := map[string]uint64{
			"cache key":             CacheKey{Question: q}.Hash(),
			"question failure key":  failureQuestionHash(normalizeFailureQuestionKey(FailureQuestionKey{Question: q})),
			"zone failure key":      failureZoneHash(normalizeFailureZoneKey(FailureZoneKey{Zone: vkPBZone, Qclass: dns.ClassINET})),
			"zone failure key (t.)": failureZoneHash(normalizeFailureZoneKey(FailureZoneKey{Zone: "t.", Qclass: dns.ClassINET})),
		}
		for what, k := range keys {
			if n := w.c.wg.Get(k); n != 0 {
				return fmt.Sprintf("quiescence: the dedup group still holds a generation (%d) for the %s of %s after every client was answered. [%s]", n, what, q.Name, obs), "viol"
			}
		}
	}
	// (5) the failure store at quiescence: the back-off envelope
	now := vtime.Now()
	for i := 0; i < sc.Threads; i++ {
		probe := vkPBMsg(sc.qname(i), 9)
		hit, active := w.c.store.LookupFailure(probe, netip.Prefix{})
		_, retained := w.c.store.FailureRetryKey(probe, netip.Prefix{})
		switch {
		case nFail > 0 && nOK == 0:
			// an upstream-observed shared failure and no recovery: it must be cached, within the envelope
			if sc.Variant == "zone" || w.askedAndFailed(sc.qname(i)) {
				if !active {
					return fmt.Sprintf("envelope: %s failed upstream again (shared failure) but no active cached failure covers it at quiescence. [%s]", sc.qname(i), obs), "viol"
				}
				allowed := vkPBAllowed(1 + nFail)
				if left := hit.RetryAfter.Sub(now); left > allowed {
					return fmt.Sprintf("envelope: back-off of %s has %.1fs left, more than min*2^(k-1) = %v for k = %d consecutive failures. [%s]", sc.qname(i), left.Seconds(), allowed, 1+nFail, obs), "viol"
				}
			}
		case nFail == 0 && nOK > 0:
			// a useful answer and no failure: the back-off is reset
			if active || retained {
				return fmt.Sprintf("envelope: a useful answer was obtained and nothing failed, but failure state covering %s is still held (active=%v retained=%v). [%s]", sc.qname(i), active, retained, obs), "viol"
			}
		}
	}
	if nFail == 0 && nOK > 0 {
		// ... and the next failure starts at the minimum: let the answer's cache entry (30 s TTL) expire, fail once more
		vtime.Advance(31 * time.Second)
		w.pre, w.preCalls = true, 0
		tr := &vkPBTransport{w: w, addr: &net.UDPAddr{IP: net.IPv4(198, 51, 100, 8), Port: 40008}}
		name := sc.qname(0)
		w.serve("msg", tr, vkPBMsg(name, 10))
		hit, active := w.c.store.LookupFailure(vkPBMsg(name, 11), netip.Prefix{})
		if w.preCalls != 1 || !active {
			return fmt.Sprintf("envelope: after the recovery a fresh failing resolution of %s made %d upstream calls and left active=%v. [%s]", name, w.preCalls, active, obs), "viol"
		}
		if left := hit.RetryAfter.Sub(vtime.Now()); hit.Streak != 1 || left > vkPBMin {
			return fmt.Sprintf("envelope: first failure after a recovery has streak %d and %.1fs of back-off (minimum is %v). [%s]", hit.Streak, left.Seconds(), vkPBMin, obs), "viol"
		}
	}
	sort.Strings(kinds)
	var order []string
	for _, c := range w.calls {
		order = append(order, c.Out)
	}
	return "", fmt.Sprintf("replies[%s] upstream[%s]", strings.Join(kinds, ","), strings.Join(order, ","))
}

func (w *vkPBWorld) askedAndFailed(name string) bool {
	for _, c := range w.calls {
		if c.Out == "fail" && c.Name == strings.ToLower(name) {
			return true
		}
	}
	return false
}

func vkPBAllowed(k int) time.Duration {
	d := vkPBMin
	for i := 1; i < k && d < vkPBMax; i++ {
		d *= 2
	}
	if d > vkPBMax {
		d = vkPBMax
	}
	return d
}

// ---- scenario

func vkPBScenarioFn(sc vkPBScenario, keep **vkPBWorld) sched.Scenario {
	return func(r *sched.Run) func() (string, string) {
		w, bad := vkPBNewWorld(sc)
		if keep != nil {
			*keep = w
		}
		if bad == "" {
			for i := 0; i < sc.Threads; i++ {
				i := i
				tr := &vkPBTransport{w: w, addr: &net.UDPAddr{IP: net.IPv4(198, 51, 100, byte(20+i)), Port: 41000 + i}}
				w.tr = append(w.tr, tr)
				r.Go(fmt.Sprintf("C%d", i), func() {
					w.serve(sc.Route, tr, vkPBMsg(sc.qname(i), uint16(vkPBIDBase+i)))
				})
			}
		}
		return func() (string, string) {
			if bad != "" {
				return "harness: " + bad, "bad-prestate"
			}
			v, o := w.judge()
			// how often a client was parked behind a live generation (from the schedule record, not from the cache)
			waits := 0
			for _, p := range r.Points {
				if p.Kind == "blocked:follower-wait" {
					waits++
				}
			}
			first := -1
			if len(w.calls) > 0 {
				first = w.calls[0].Client
			}
			return v, fmt.Sprintf("%s first-upstream=C%d follower-parks=%d", o, first, waits)
		}
	}
}

func vkPBScenarios(thorough bool) []vkPBScenario {
	var out []vkPBScenario
	add := func(variant string, script []string, threads int, route string, bound int) {
		sc := vkPBScenario{Variant: variant, Script: script, Threads: threads, Route: route, Bound: bound}
		sc.Name = sc.String()
		out = append(out, sc)
	}
	scripts := [][]string{{"fail"}, {"ok"}, {"fail", "ok"}, {"local", "fail"}, {"local", "ok"}}
	variants := []string{"question", "zone"}
	// pairs, 2 preemptions
	for _, variant := range variants {
		for _, s := range scripts {
			add(variant, s, 2, "msg", 2)
		}
	}
	add("question", []string{"fail"}, 2, "wire", 2)
	add("question", []string{"ok"}, 2, "wire", 2)
	// three clients: a follower woken by a request-local probe failure races a third client's whole probe
	add("question", []string{"local", "fail"}, 3, "msg", 2)
	if thorough {
		// three clients, 2 preemptions (two request-local probe failures in a row reach the regroup limit)
		long := append(append([][]string{}, scripts...), []string{"local", "local", "fail"}, []string{"local", "local", "ok"})
		for _, s := range long {
			if strings.Join(s, ">") != "local>fail" { // already in the quick list
				add("question", s, 3, "msg", 2)
			}
		}
		for _, s := range [][]string{{"fail"}, {"local", "fail"}, {"local", "local", "fail"}} {
			add("zone", s, 3, "msg", 2)
		}
		// pairs, 3 preemptions (simplest first; the tail is time-capped)
		for _, s := range scripts {
			for _, variant := range variants {
				add(variant, s, 2, "msg", 3)
			}
		}
		for _, s := range [][]string{{"ok"}, {"fail", "ok"}, {"local", "ok"}, {"local", "local", "ok"}} {
			add("zone", s, 3, "msg", 2)
		}
	}
	if only := os.Getenv("VERIF_PB_ONLY"); only != "" { // manual aid: restrict to scenarios whose "name/b<bound>" contains the string
		var f []vkPBScenario
		for _, sc := range out {
			if strings.Contains(fmt.Sprintf("%s/b%d", sc.Name, sc.Bound), only) {
				f = append(f, sc)
			}
		}
		out = f
	}
	return out
}

func vkPBClass(msg string) string {
	if j := strings.Index(msg, ":"); j > 0 {
		return msg[:j]
	}
	return "other"
}

func TestVerifC13Probe(t *testing.T) {
	c := vkit.Init("C13/probe")
	defer c.Close()
	horizon := 20000
	if c.Replay != nil {
		var rp struct {
			Scenario vkPBScenario `json:"scenario"`
			Choices  []int        `json:"choices"`
		}
		if err := json.Unmarshal(c.Replay, &rp); err != nil {
			c.HarnessError("bad replay: " + err.Error())
			return
		}
		var w1, w2 *vkPBWorld
		cfg := sched.Config{Name: rp.Scenario.Name, Horizon: horizon, KeepTrace: true}
		r1, v1, _ := sched.RunOnce(cfg, vkPBScenarioFn(rp.Scenario, &w1), rp.Choices)
		r2, v2, _ := sched.RunOnce(cfg, vkPBScenarioFn(rp.Scenario, &w2), rp.Choices)
		if r1.Diverged != "" || r2.Diverged != "" {
			c.HarnessError("replay diverged: " + r1.Diverged + r2.Diverged)
			return
		}
		if v1 != v2 || w1.callsStr() != w2.callsStr() {
			c.HarnessError(fmt.Sprintf("two runs of the recorded schedule differ: %q [%s] vs %q [%s]", v1, w1.callsStr(), v2, w2.callsStr()))
			return
		}
		if strings.HasPrefix(v1, "harness:") {
			c.HarnessError(v1)
			return
		}
		sched.Debugf("full trace: %s", strings.Join(r1.Trace, " "))
		if v1 != "" {
			c.Violation("probe:"+rp.Scenario.String()+":"+vkPBClass(v1), v1+"\n  schedule="+sched.FormatSchedule(rp.Choices)+"\n  trace: "+vkPBTraceStr(r1.Trace), nil)
		}
		return
	}
	scs := vkPBScenarios(c.Thorough())
	for i, sc := range scs {
		if c.OverBudget() {
			c.Cap(fmt.Sprintf("time budget reached before scenario %d (%s, bound %d)", i, sc, sc.Bound))
			break
		}
		b := sc.Bound
		// Every world's sync.Pools (Cache.writerPool, Pipeline.chainPool) stay registered with the runtime until the
		// second GC after their first use, and pin the whole Cache (3 x 256..1024 map segments) meanwhile. At >1000
		// worlds/s the heap goal then chases its own tail (measured: 120 MB/s, OOM). Collect explicitly instead.
		polls := 0
		stop := func() bool {
			polls++
			runtime.GC()
			if polls%8 == 0 && os.Getenv("VERIF_DEBUG") != "" {
				var ms runtime.MemStats
				runtime.ReadMemStats(&ms)
				sched.Debugf("  poll %d: heap_inuse=%dMB sys=%dMB numgc=%d goroutines=%d", polls, ms.HeapInuse>>20, ms.Sys>>20, ms.NumGC, runtime.NumGoroutine())
			}
			return c.OverBudget()
		}
		// simplest counterexample first: the (tiny) 0- and 1-preemption spaces are swept unsharded by every shard; only
		// when they hold is the full bound explored (sharded). Their schedules are a subset of the full space and are
		// not counted.
		var res sched.Result
		for pb := 0; pb <= b; pb++ {
			cfg := sched.Config{Name: sc.Name, Bound: pb, Horizon: horizon, Stop: stop}
			if pb == b {
				cfg.Shard, cfg.Of, cfg.ShardDepth = c.Shard(), c.Of(), 2
			} else if pb > 1 {
				continue
			}
			res = sched.Explore(cfg, vkPBScenarioFn(sc, nil))
			if res.HarnessErr != "" {
				c.HarnessError(res.HarnessErr)
				return
			}
			if len(res.Violations) > 0 {
				if pb < b && c.Shard() != 0 {
					res.Executions, res.Points = 0, 0 // the unsharded sweep is counted once
				}
				b = pb
				break
			}
		}
		if os.Getenv("VERIF_DEBUG") != "" {
			var ms runtime.MemStats
			runtime.GC()
			runtime.ReadMemStats(&ms)
			sched.Debugf("after %s: executions=%d goroutines=%d heap_inuse=%dMB numgc=%d", sc.Name, res.Executions, runtime.NumGoroutine(), ms.HeapInuse>>20, ms.NumGC)
		}
		c.Add("evaluations", int64(res.Executions))
		c.Add("traces", int64(res.Executions))
		c.Add("transitions", int64(res.Points))
		c.Max("max_points", int64(res.MaxPoints))
		if c.Shard() == 0 {
			c.Add("scenarios", 1)
		}
		if !res.Exhaustive {
			c.Cap(fmt.Sprintf("time budget reached inside %s (bound %d)", sc.Name, b))
		}
		for o, n := range res.Outcomes {
			if strings.HasPrefix(o, "bad") || strings.HasPrefix(o, "viol") || o == "deadlock" || o == "livelock" || o == "panic" || o == "monitor" {
				continue
			}
			_ = n
			c.Outcome(sc.String() + " " + o)
			c.DistinctStr("states", sc.String()+"|"+o)
			if strings.Contains(o, "ede13") || strings.Contains(o, "answer") || strings.Contains(o, "probelimit") || !strings.Contains(o, "follower-parks=0") {
				// somebody was answered without going upstream: a follower or a failure-cache hit really happened
				c.DistinctStr("nontrivial", sc.String()+"|"+o)
			}
		}
		if c.Shard() == 0 {
			c.Sample(map[string]any{"scenario": sc.String(), "schedules_this_shard": res.Executions, "max_points": res.MaxPoints, "distinct_outcomes_this_shard": len(res.Outcomes), "preemption_bound": b})
		}
		for _, v := range res.Violations {
			if strings.HasPrefix(v.Message, "harness:") {
				c.HarnessError(v.Message)
				return
			}
			c.Violation("probe:"+sc.String()+":"+vkPBClass(v.Message), fmt.Sprintf("%s\n  schedule=%s\n  trace: %s", v.Message, sched.FormatSchedule(v.Choices), vkPBTraceStr(v.Trace)),
				map[string]any{"scenario": sc, "choices": v.Choices})
			break
		}
	}
}

// vkPBTraceStr compresses a per-point trace into runs: "C0x68[RWMutex.Lock] C1x60[exit]": thread C0 passed 68
// scheduling points and was switched out when it arrived at the 68th (kind in brackets, operation not yet done).
func vkPBTraceStr(tr []string) string {
	var b strings.Builder
	last, kind, n := "", "", 0
	flush := func() {
		if n > 0 {
			fmt.Fprintf(&b, "%sx%d[%s] ", last, n, kind)
		}
	}
	for _, s := range tr {
		th, k := s, ""
		if j := strings.Index(s, ":"); j > 0 {
			th, k = s[:j], s[j+1:]
		}
		if th != last {
			flush()
			last, n = th, 0
		}
		kind = k
		n++
	}
	flush()
	return strings.TrimSpace(b.String())
}
