//go:build verif

package cache

import (
	"encoding/json"
	"fmt"
	"os"
	"testing"
	"time"

	"github.com/miekg/dns"
	"github.com/semihalev/sdns/internal/mock"
	"github.com/semihalev/sdns/middleware"
	"github.com/semihalev/sdns/internal/verifshim/vtime"
)

func TestVerifC04Dbg(t *testing.T) {
	if os.Getenv("VERIF_DBG") == "" {
		t.Skip()
	}
	w := vkNewC04World(false)
	defer w.stop()
	show := func(tag string) {
		for _, n := range []string{vkAlName, vkPName} {
			key := CacheKey{Question: dns.Question{Name: n, Qtype: dns.TypeA, Qclass: dns.ClassINET}}.Hash()
			if v, ok := w.c.store.positive.cache.Get(key); ok {
				e := v.(*CacheEntry)
				m := e.ToMsg(vkQ{Name: n, Type: dns.TypeA, Class: dns.ClassINET}.msg(9))
				fmt.Printf("%s: entry %s rem=%v wireServe=%b answers=%d\n", tag, n, e.remaining(vtime.Now()).Round(time.Millisecond), e.wireServe, len(m.Answer))
			}
		}
	}
	hist := []vkC04Ev{{Kind: "al", TTL: 30}, {Kind: "purge"}, {Kind: "p", TTL: 7}, {Kind: "adv", D: 1}}
	if h := os.Getenv("VERIF_DBG_HIST"); h != "" {
		// a history of the hist alphabet as JSON; every step prints outcome, verdict and the raw entries
		hist = nil
		if err := json.Unmarshal([]byte(h), &hist); err != nil {
			t.Fatal(err)
		}
	}
	for _, ev := range hist {
		v, o := w.apply(ev)
		fmt.Println(ev, "->", o, v)
		show(ev.String())
		for _, n := range []string{vkBxName, vkBzName, vkAlxName, vkAlzName} {
			if e := w.rawEntry(n); e != nil {
				fmt.Printf("   raw %s rem=%v ttl=%v cutUntil=%v wireServe=%b\n", n, e.remaining(vtime.Now()).Round(time.Millisecond), e.ttl, !e.cutUntil.IsZero(), e.wireServe)
			}
		}
	}
	if os.Getenv("VERIF_DBG_HIST") != "" {
		return
	}
	{
		q := vkQ{Name: vkAlName, Type: dns.TypeA, Class: dns.ClassINET}
		raw, _ := q.msg(7).Pack()
		r := new(middleware.Request)
		ok := r.ParseWire(raw, time.Now(), nil)
		wr := mock.NewWriter("udp", vkClient)
		ch := middleware.NewChain(w.hs)
		ch.ResetWire(wr, r)
		ch.AllowDirectPack()
		_, isWW := ch.Writer.(middleware.WireWriter)
		fmt.Printf("parse ok=%v undecoded=%v rd=%v ecs=%v writerIsWireWriter=%v handlers=%d\n", ok, ch.Request.Undecoded(), r.RD(), r.HasECS(), isWW, len(w.hs))
		if ww, ok2 := ch.Writer.(middleware.WireWriter); ok2 {
			capb, ready := ww.WireReady()
			fmt.Printf("wireReady=%v cap=%+v\n", ready, capb)
		}
	}
	for _, route := range []vkRoute{vkRouteMsg, vkRouteMsgBytes, vkRouteWire} {
		r := w.ask(route, vkQ{Name: vkAlName, Type: dns.TypeA, Class: dns.ClassINET}, 5)
		fmt.Printf("route %s stub=%d: %s\n", route, r.stubCalls, vkMsgStr(r.msg))
		fmt.Printf("   counters: chase=%v skipChase=%v skipEntry=%v skipWriter=%v skipBuild=%v skipSize=%v fallback=%v\n", wireChaseServed.Value(), wireSkipChase.Value(), wireSkipEntry.Value(), wireSkipWriter.Value(), wireSkipBuild.Value(), wireSkipSize.Value(), wireFastFallback.Value())
	}
}
