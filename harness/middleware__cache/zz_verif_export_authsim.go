//go:build verif

package cache

// Export seam for the authsim/h_resolver pipeline helper (overlay-injected,
// never part of a normal build).

import (
	internalcache "github.com/semihalev/sdns/internal/cache"
)

func vkAuthsimClear(c *internalcache.Cache) {
	if c == nil {
		return
	}
	var keys []uint64
	c.ForEach(func(k uint64, _ any) bool { keys = append(keys, k); return true })
	for _, k := range keys {
		c.Remove(k)
	}
}

// VerifResetState empties the answer caches (positive, negative), the RFC 9520
// failure cache, the RFC 8020 subtree cuts and the RFC 8198 denial proofs. It
// must be called only while no request is in flight.
func VerifResetState(c *Cache) {
	vkAuthsimClear(c.positive.cache)
	vkAuthsimClear(c.negative.cache)
	if c.failure != nil {
		vkAuthsimClear(c.failure.entries)
	}
	s := c.store
	if s == nil {
		return
	}
	if s.failure != nil && s.failure != c.failure {
		vkAuthsimClear(s.failure.entries)
	}
	// the two bounded side tables keep intrusive lists and byte accounting:
	// rebuild them with the sizes NewStore derived
	if old := s.nxDomainCuts; old != nil {
		s.nxDomainCuts = newNXDomainCutCacheWithConfig(nxDomainCutCacheConfig{
			MaxEntries: old.maxEntries, MaxEntriesPerZone: old.maxEntriesPerZone,
			MaxBytes: old.maxBytes, MaxBytesPerZone: old.maxBytesPerZone, MaxTTL: old.maxTTL})
	}
	if old := s.denialProofs; old != nil {
		s.denialProofs = newDenialProofCacheWithConfig(denialProofCacheConfig{
			MaxEntries: old.maxEntries, MaxEntriesPerZone: old.maxEntriesPerZone,
			MaxBytes: old.maxBytes, MaxBytesPerZone: old.maxBytesPerZone, MaxTTL: old.maxTTL, Now: old.now})
	}
}

// VerifEntries reports how many positive + negative entries are stored.
func VerifEntries(c *Cache) int { return c.positive.cache.Len() + c.negative.cache.Len() }
