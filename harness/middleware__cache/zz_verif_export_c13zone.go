//go:build verif

package cache

// Export seam for the resolver-level units C12/topo and C13/zone
// (overlay-injected, never part of a normal build): a read-only listing of the
// RFC 9520 failure store of the live cache handler.

import (
	"sort"
	"time"

	"github.com/miekg/dns"
)

// VerifFailure is one retained failure state.
type VerifFailure struct {
	Kind   string `json:"kind"` // "question" | "zone"
	Zone   string `json:"zone,omitempty"`
	QName  string `json:"qname,omitempty"`
	QType  uint16 `json:"qtype,omitempty"`
	CD     bool   `json:"cd,omitempty"`
	Streak uint32 `json:"streak"`
	Active bool   `json:"active"` // retry-after still in the future
	Prov   string `json:"prov,omitempty"`
}

func (f VerifFailure) String() string {
	if f.Kind == "zone" {
		return "zone:" + f.Zone
	}
	return "question:" + f.QName + "/" + dns.TypeToString[f.QType]
}

// VerifFailureEntries lists every entry of the failure cache(s) behind c,
// sorted (zone entries first). Read-only.
func VerifFailureEntries(c *Cache) []VerifFailure {
	var out []VerifFailure
	seen := map[*FailureCache]bool{}
	collect := func(fc *FailureCache) {
		if fc == nil || seen[fc] {
			return
		}
		seen[fc] = true
		now := time.Now()
		fc.entries.ForEach(func(_ uint64, v any) bool {
			e, ok := v.(*failureEntry)
			if !ok || e == nil {
				return true
			}
			f := VerifFailure{Streak: e.streak, Active: now.Before(e.retryAfter), Prov: string(e.provenance)}
			switch e.kind {
			case FailureKindZone:
				f.Kind, f.Zone = "zone", e.zone.Zone
			default:
				f.Kind, f.QName, f.QType, f.CD = "question", e.question.Question.Name, e.question.Question.Qtype, e.question.CD
			}
			out = append(out, f)
			return true
		})
	}
	collect(c.failure)
	if c.store != nil {
		collect(c.store.failure)
	}
	sort.Slice(out, func(i, j int) bool {
		if out[i].Kind != out[j].Kind {
			return out[i].Kind > out[j].Kind
		}
		return out[i].String() < out[j].String()
	})
	return out
}
