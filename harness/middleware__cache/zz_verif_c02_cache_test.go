//go:build verif

package cache

// C02 unit "cache": shared negative-cache state (RFC 8198 denial-proof index)
// synthesises only denials that are TRUE in the zone model.
//
// For every zone of the enumerated family and each of its genuine chains
// (NSEC, NSEC3 without and with opt-out), every ordered pair of proof bundles
// (a bundle = SOA + 1..2 genuine chain records + RRSIGs, i.e. the authority
// section of a truthful negative answer) is admitted into the REAL
// Store.RecordDenialProof; after each admission, and after the first bundle's
// signatures have expired, and after everything has expired, EVERY alphabet
// query name x qtype is looked up through the REAL Store.GetWithContext.
// Oracle: a synthesised NXDOMAIN/NODATA must be true in the model, must be
// built only from live (unexpired) records, must never come from an opt-out
// chain (NXDOMAIN / wildcard NODATA), and CD=1 or ECS-carrying requests must
// never receive one.

import (
	"context"
	"encoding/json"
	"fmt"
	"strings"
	"testing"
	"time"

	"github.com/miekg/dns"
	"github.com/semihalev/sdns/internal/verifshim/vkit"
	"github.com/semihalev/sdns/middleware"
)

type vkC02Limiter struct{}

func (vkC02Limiter) TryAcquire() (func(), bool) { return func() {}, true }

var vkC02Base = time.Unix(1_700_000_000, 0)

type vkC02Chain struct {
	Z     *vkZone
	Kind  string
	Par   int
	Opt   int
	Recs  []dns.RR
	Names [][]string
}

func vkC02NewChain(z *vkZone, kind string, par, opt int) *vkC02Chain {
	ch := &vkC02Chain{Z: z, Kind: kind, Par: par, Opt: opt}
	if kind == "nsec" {
		for _, r := range z.NSECChain() {
			ch.Recs = append(ch.Recs, r)
		}
		for _, n := range z.Auth {
			ch.Names = append(ch.Names, n.Name)
		}
		return ch
	}
	recs := z.NSEC3Chain(vkN3ParamSets[par], opt)
	if recs == nil {
		return nil
	}
	for _, r := range recs {
		ch.Recs = append(ch.Recs, r.RR)
		ch.Names = append(ch.Names, r.Name)
	}
	return ch
}

func vkC02Sig(owner string, covered uint16, expire time.Time) *dns.RRSIG {
	return &dns.RRSIG{
		Hdr:         dns.RR_Header{Name: owner, Rrtype: dns.TypeRRSIG, Class: dns.ClassINET, Ttl: 300},
		TypeCovered: covered, Algorithm: dns.ECDSAP256SHA256, Labels: uint8(dns.CountLabel(owner)), OrigTtl: 300,
		Expiration: uint32(expire.Unix()), Inception: uint32(vkC02Base.Add(-time.Hour).Unix()), KeyTag: 1, SignerName: vkPres(vkApex), Signature: "AAAA",
	}
}

// bundle builds the proof message for chain records idx whose signatures expire at sigExpire.
func (ch *vkC02Chain) bundle(idx []int, sigExpire time.Time) *dns.Msg {
	apex := vkPres(vkApex)
	m := new(dns.Msg)
	m.SetQuestion(apex, dns.TypeA)
	m.Response = true
	m.Rcode = dns.RcodeSuccess
	soa := &dns.SOA{Hdr: dns.RR_Header{Name: apex, Rrtype: dns.TypeSOA, Class: dns.ClassINET, Ttl: 300},
		Ns: "ns." + apex, Mbox: "h." + apex, Serial: 1, Refresh: 3600, Retry: 600, Expire: 86400, Minttl: 300}
	m.Ns = append(m.Ns, soa, vkC02Sig(apex, dns.TypeSOA, vkC02Base.Add(1000*time.Second)))
	for _, i := range idx {
		rr := dns.Copy(ch.Recs[i])
		m.Ns = append(m.Ns, rr, vkC02Sig(rr.Header().Name, rr.Header().Rrtype, sigExpire))
	}
	return m
}

func (ch *vkC02Chain) proofKind() middleware.ValidatedNegativeProofKind {
	if ch.Kind == "nsec" {
		return middleware.ValidatedNegativeProofNSEC
	}
	return middleware.ValidatedNegativeProofNSEC3
}

type vkC02Store struct {
	s   *Store
	now time.Time
}

func vkC02NewStore() *vkC02Store {
	cfg := CacheConfig{Size: 4096, PositiveTTL: time.Hour, NegativeTTL: time.Hour, MinTTL: 0, MaxTTL: time.Hour}
	st := &vkC02Store{now: vkC02Base}
	st.s = NewStore(NewPositiveCache(64, 0, time.Hour, nil), NewNegativeCache(64, 0, time.Hour, nil), cfg)
	st.s.dnssecCryptoLimiter = vkC02Limiter{}
	st.s.denialProofs.now = func() time.Time { return st.now }
	return st
}

func vkC02Req(q string, qtype uint16, mode string) *dns.Msg {
	r := new(dns.Msg)
	r.SetQuestion(q, qtype)
	r.SetEdns0(1232, true)
	switch mode {
	case "cd":
		r.CheckingDisabled = true
	case "ecs":
		opt := r.IsEdns0()
		opt.Option = append(opt.Option, &dns.EDNS0_SUBNET{Code: dns.EDNS0SUBNET, Family: 1, SourceNetmask: 24, Address: []byte{192, 0, 2, 0}})
	}
	return r
}

func vkC02HasType(ts []uint16, t uint16) bool {
	for _, x := range ts {
		if x == t {
			return true
		}
	}
	return false
}

// vkC02JudgeNX / vkC02JudgeNODATA: same soundness oracle as the verifier unit (secure answers).
func vkC02JudgeNX(t vkTruth) string {
	switch {
	case !t.InZone:
		return "out-of-zone"
	case t.Apex:
		return "apex"
	case t.BelowDeleg:
		return "below-delegation"
	case t.AtDeleg:
		return "at-delegation"
	case t.BelowDname:
		return "below-dname"
	case t.Exists:
		return "exists"
	case t.ENT:
		return "ent"
	case t.Wildcard != nil:
		return "wildcard-match"
	case t.WildENT:
		return "wildcard-ent"
	}
	return ""
}

func vkC02JudgeNODATA(t vkTruth, qtype uint16) string {
	switch {
	case !t.InZone:
		return "out-of-zone"
	case t.BelowDeleg:
		return "below-delegation"
	case t.BelowDname:
		return "below-dname"
	case t.Apex && qtype == dns.TypeDS:
		return "ds-at-apex"
	case t.AtDeleg && qtype != dns.TypeDS:
		return "at-delegation-nonds"
	}
	switch {
	case t.Exists:
		if vkC02HasType(t.Node.Types, qtype) {
			return "type-present"
		}
		if vkC02HasType(t.Node.Types, dns.TypeCNAME) {
			return "cname-present"
		}
		return ""
	case t.ENT, t.WildENT:
		return ""
	case t.Wildcard != nil:
		if vkC02HasType(t.Wildcard.Types, qtype) {
			return "wildcard-type-present"
		}
		if vkC02HasType(t.Wildcard.Types, dns.TypeCNAME) {
			return "wildcard-cname-present"
		}
		return ""
	}
	return "nonexistent-name"
}

type vkC02Case struct {
	Zone  []int    `json:"zone"`
	Kind  string   `json:"kind"`
	Par   int      `json:"par"`
	Opt   int      `json:"opt"`
	B1    []int    `json:"b1"`
	B2    []int    `json:"b2"` // may be empty
	AtS   int      `json:"at_s"`
	QL    []string `json:"ql"`
	Qname string   `json:"qname"`
	Qtype uint16   `json:"qtype"`
	Mode  string   `json:"mode"` // "", "cd", "ecs"
}

// vkC02Run executes one history on a fresh store and judges one lookup.
// Returns class ("" = fine), whether a denial was synthesised, and a description.
func vkC02Run(cs vkC02Case) (class string, hit bool, desc string, err error) {
	z := vkBuildZone(cs.Zone)
	ch := vkC02NewChain(z, cs.Kind, cs.Par, cs.Opt)
	if ch == nil {
		return "", false, "", fmt.Errorf("no such chain variant")
	}
	for _, i := range append(append([]int{}, cs.B1...), cs.B2...) {
		if i < 0 || i >= len(ch.Recs) {
			return "", false, "", fmt.Errorf("bad record index")
		}
	}
	st := vkC02NewStore()
	defer st.s.Stop()
	if !st.s.RecordDenialProof(ch.bundle(cs.B1, vkC02Base.Add(100*time.Second)), vkPres(vkApex), ch.proofKind(), time.Time{}) {
		return "", false, "", fmt.Errorf("bundle 1 not admitted")
	}
	if len(cs.B2) > 0 {
		if !st.s.RecordDenialProof(ch.bundle(cs.B2, vkC02Base.Add(200*time.Second)), vkPres(vkApex), ch.proofKind(), time.Time{}) {
			return "", false, "", fmt.Errorf("bundle 2 not admitted")
		}
	}
	st.now = vkC02Base.Add(time.Duration(cs.AtS) * time.Second)
	live := ch.liveOwners(cs.B1, cs.B2, cs.AtS)
	class, hit, detail := ch.lookupAndJudge(st, live, cs.QL, cs.Qtype, cs.Mode, z.Truth(cs.QL))
	var names []string
	for _, i := range cs.B1 {
		names = append(names, strings.Join(strings.Fields(ch.Recs[i].String()), " "))
	}
	b2 := ""
	if len(cs.B2) > 0 {
		var n2 []string
		for _, i := range cs.B2 {
			n2 = append(n2, strings.Join(strings.Fields(ch.Recs[i].String()), " "))
		}
		b2 = "; then bundle2(sigs expire +200s) {" + strings.Join(n2, " | ") + "}"
	}
	desc = fmt.Sprintf("zone %s; admitted bundle1(sigs expire +100s) {%s}%s; at +%ds lookup %s %s mode=%q: %s",
		z.Digest(), strings.Join(names, " | "), b2, cs.AtS, vkPres(cs.QL), dns.TypeToString[cs.Qtype], cs.Mode, detail)
	return class, hit, desc, nil
}

// liveOwners: owner names of the proof records that are still live at +atS seconds.
func (ch *vkC02Chain) liveOwners(b1, b2 []int, atS int) map[string]bool {
	live := map[string]bool{}
	if atS < 100 {
		for _, i := range b1 {
			live[strings.ToLower(ch.Recs[i].Header().Name)] = true
		}
	}
	if atS < 200 {
		for _, i := range b2 {
			live[strings.ToLower(ch.Recs[i].Header().Name)] = true
		}
	}
	return live
}

func (ch *vkC02Chain) lookupAndJudge(st *vkC02Store, live map[string]bool, ql []string, qtype uint16, mode string, t vkTruth) (class string, hit bool, detail string) {
	resp, ok := st.s.GetWithContext(context.Background(), vkC02Req(vkPres(ql), qtype, mode))
	if !ok || resp == nil {
		return "", false, "miss"
	}
	detail = fmt.Sprintf("synthesised %s (AD=%v, %d authority RRs); model truth: %s", dns.RcodeToString[resp.Rcode], resp.AuthenticatedData, len(resp.Ns), t.String())
	if mode == "cd" {
		return "cd-request-served", true, detail
	}
	if mode == "ecs" {
		return "ecs-request-served", true, detail
	}
	if len(resp.Answer) != 0 {
		return "non-empty-answer", true, detail
	}
	proofs := 0
	for _, rr := range resp.Ns {
		if rr.Header().Rrtype == dns.TypeNSEC || rr.Header().Rrtype == dns.TypeNSEC3 {
			proofs++
			if !live[strings.ToLower(rr.Header().Name)] {
				return "expired-record-used", true, detail + "; uses " + rr.Header().Name
			}
		}
	}
	if proofs == 0 {
		return "no-proof-records", true, detail
	}
	optAll := ch.Kind == "nsec3" && ch.Opt == 1
	switch resp.Rcode {
	case dns.RcodeNameError:
		if optAll {
			return "optout-synthesis", true, detail
		}
		return vkC02JudgeNX(t), true, detail
	case dns.RcodeSuccess:
		if optAll && !(t.Exists || t.ENT) {
			return "optout-synthesis", true, detail
		}
		return vkC02JudgeNODATA(t, qtype), true, detail
	}
	return fmt.Sprintf("unexpected-rcode-%d", resp.Rcode), true, detail
}

func vkC02Subsets(n, maxK int) [][]int {
	var out [][]int
	var cur []int
	var rec func(start, k int)
	rec = func(start, k int) {
		if len(cur) == k {
			out = append(out, append([]int(nil), cur...))
			return
		}
		for i := start; i < n; i++ {
			cur = append(cur, i)
			rec(i+1, k)
			cur = cur[:len(cur)-1]
		}
	}
	for k := 1; k <= maxK && k <= n; k++ {
		rec(0, k)
	}
	return out
}

func TestVerifC02Cache(t *testing.T) {
	c := vkit.Init("C02/cache")
	defer c.Close()
	if c.Replay != nil {
		var cs vkC02Case
		if err := json.Unmarshal(c.Replay, &cs); err != nil {
			c.HarnessError("bad replay payload: " + err.Error())
			return
		}
		class, _, desc, err := vkC02Run(cs)
		if err != nil {
			c.HarnessError("replay: " + err.Error())
			return
		}
		if class != "" {
			c.Violation("DenialProofCache/"+class, "denial-proof cache synthesised a wrong answer ["+class+"]: "+desc, cs)
		}
		return
	}
	maxOwners, bundleK := 2, 2
	alpha3 := []string{"a", "b", "*"}
	if c.Thorough() {
		maxOwners, bundleK = 3, 2
	}
	full := []string{"a", "b", "*", "A", "\x00", "a.b"}
	qs := vkQueryNames(full, alpha3, nil)
	qtypes := []uint16{dns.TypeA, dns.TypeNS, dns.TypeDS, dns.TypeCNAME, dns.TypeTXT}
	zones := vkEnumZones(len(vkCands), maxOwners)
	c.Note(fmt.Sprintf("%d zones (<=%d owners), %d query names x %d qtypes, bundles of <=%d records, histories of 1-2 bundles, checkpoints +0s/+150s/+250s", len(zones), maxOwners, len(qs), len(qtypes), bundleK))
	seen := map[string]bool{}
	var evals, hits, histories int64
	oc := map[string]int64{}
	report := func(cs vkC02Case, class string) bool {
		key := "DenialProofCache/" + class
		oc["FALSE:"+key]++
		if seen[key] {
			return true
		}
		seen[key] = true
		class2, _, desc, err := vkC02Run(cs)
		if err != nil || class2 != class {
			c.HarnessError(fmt.Sprintf("violation %s did not reproduce on a fresh store (err=%v class=%q): %s", key, err, class2, desc))
			return false
		}
		c.Violation(key, "denial-proof cache synthesised a wrong answer ["+class+"]: "+desc, cs)
		return true
	}
	for zi, cands := range zones {
		if !c.Mine(zi) {
			continue
		}
		if c.OverBudget() {
			c.Cap("time budget reached (zones are ordered smallest first)")
			break
		}
		z := vkBuildZone(cands)
		truths := make([]vkTruth, len(qs))
		for i := range qs {
			truths[i] = z.Truth(qs[i].Labels)
		}
		par := zi % len(vkN3ParamSets)
		for _, v := range [][3]any{{"nsec", 0, 0}, {"nsec3", par, 0}, {"nsec3", par, 1}} {
			ch := vkC02NewChain(z, v[0].(string), v[1].(int), v[2].(int))
			if ch == nil {
				continue
			}
			bundles := vkC02Subsets(len(ch.Recs), bundleK)
			// histories: single bundle, and every ordered pair of distinct bundles
			type hist struct{ b1, b2 []int }
			var hs []hist
			for _, b := range bundles {
				hs = append(hs, hist{b, nil})
			}
			for i, b1 := range bundles {
				for j, b2 := range bundles {
					if i != j {
						hs = append(hs, hist{b1, b2})
					}
				}
			}
			for _, h := range hs {
				st := vkC02NewStore()
				ok1 := st.s.RecordDenialProof(ch.bundle(h.b1, vkC02Base.Add(100*time.Second)), vkPres(vkApex), ch.proofKind(), time.Time{})
				ok2 := true
				if h.b2 != nil {
					ok2 = st.s.RecordDenialProof(ch.bundle(h.b2, vkC02Base.Add(200*time.Second)), vkPres(vkApex), ch.proofKind(), time.Time{})
				}
				if !ok1 || !ok2 {
					c.HarnessError(fmt.Sprintf("genuine proof bundle refused by RecordDenialProof (zone %s kind %s b1=%v b2=%v ok=%v/%v)", z.Digest(), ch.Kind, h.b1, h.b2, ok1, ok2))
					st.s.Stop()
					return
				}
				histories++
				checkpoints := []int{0}
				if h.b2 != nil {
					checkpoints = []int{0, 150, 250}
				}
				hitAt0 := map[int]bool{}
				for _, at := range checkpoints {
					st.now = vkC02Base.Add(time.Duration(at) * time.Second)
					live := ch.liveOwners(h.b1, h.b2, at)
					for qi := range qs {
						for ti, qt := range qtypes {
							if at == 250 && !hitAt0[qi*8+ti] {
								continue // after full expiry only re-ask what was served before
							}
							class, hit, _ := ch.lookupAndJudge(st, live, qs[qi].Labels, qt, "", truths[qi])
							evals++
							lab := fmt.Sprintf("%s/+%ds/", strings.ToUpper(ch.Kind), at)
							if at == 250 && hit && class == "" {
								class = "served-after-expiry"
							}
							switch {
							case !hit:
								oc[lab+"miss"]++
							case class == "":
								hits++
								oc[lab+"synth-true"]++
								if at == 0 {
									hitAt0[qi*8+ti] = true
								}
								c.Distinct("nontrivial", vkit.Hash(fmt.Sprintf("%d|%s%d%d|%v|%v|%d|%d|%d", zi, ch.Kind, ch.Par, ch.Opt, h.b1, h.b2, at, qi, qt)))
								if hits%50000 == 1 {
									c.Sample(map[string]any{"zone": z.Digest(), "kind": ch.Kind, "b1": h.b1, "b2": h.b2, "at_s": at, "qname": qs[qi].Pres, "qtype": dns.TypeToString[qt], "truth": truths[qi].String()})
								}
							default:
								oc[lab+"synth-FALSE"]++
								if !report(vkC02Case{Zone: cands, Kind: ch.Kind, Par: ch.Par, Opt: ch.Opt, B1: h.b1, B2: h.b2, AtS: at, QL: qs[qi].Labels, Qname: qs[qi].Pres, Qtype: qt}, class) {
									st.s.Stop()
									return
								}
							}
							// whatever was synthesised for a plain request must be withheld from CD / ECS requests
							if hit && at == 0 {
								for _, mode := range []string{"cd", "ecs"} {
									cl, h2, _ := ch.lookupAndJudge(st, live, qs[qi].Labels, qt, mode, truths[qi])
									evals++
									if h2 {
										oc[lab+mode+"-SERVED"]++
										if !report(vkC02Case{Zone: cands, Kind: ch.Kind, Par: ch.Par, Opt: ch.Opt, B1: h.b1, B2: h.b2, AtS: at, QL: qs[qi].Labels, Qname: qs[qi].Pres, Qtype: qt, Mode: mode}, cl) {
											st.s.Stop()
											return
										}
									} else {
										oc[lab+mode+"-withheld"]++
									}
								}
							}
						}
					}
				}
				st.s.Stop()
			}
		}
		c.Add("zones", 1)
	}
	c.Add("evaluations", evals)
	c.Add("histories", histories)
	c.Add("synthesised_true", hits)
	for k, n := range oc {
		c.Outcome(k)
		c.Add("n:"+k, n)
	}
	if histories > 0 && hits == 0 {
		c.HarnessError("vacuous: the denial-proof cache never synthesised anything from genuine proofs")
	}
}
