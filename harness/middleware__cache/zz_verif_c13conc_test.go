//go:build verif

package cache

// C13/conc — the failure cache's back-off state under concurrent recorders,
// recoveries and lookups. Every schedule (preemption-bounded) of 2-3 threads
// running the real FailureCache operations over one zone entry and one exact
// entry is explored (internal/cache's locks and atomics are the scheduling
// points), and each recorded call/return history must be explainable by SOME
// order of the operations' atomic steps on the reference back-off automaton
// (linearizability; compound operations such as ResetMatching and Lookup are
// sequences of single-key steps). "A useful answer resets the back-off" and
// "at most doubles per consecutive failure" must therefore hold for every
// interleaving, not only sequentially.

import (
	"encoding/json"
	"fmt"
	"sort"
	"strings"
	"sync"
	"testing"
	"time"

	"github.com/miekg/dns"
	"github.com/semihalev/sdns/internal/verifshim/sched"
	"github.com/semihalev/sdns/internal/verifshim/vkit"
)

const (
	vkFCInit = 2 // seconds
	vkFCMax  = 8
)

var vkFCBase = time.Unix(1_700_000_000, 0)

type vkFCEnt struct {
	Streak int
	Retry  int // seconds since base
}

// vkFCModel is the reference automaton: key ("Q" exact question, "Z" zone) -> entry.
type vkFCModel map[string]vkFCEnt

func (m vkFCModel) clone() vkFCModel {
	c := vkFCModel{}
	for k, v := range m {
		c[k] = v
	}
	return c
}

func (m vkFCModel) key() string {
	ks := make([]string, 0, len(m))
	for k := range m {
		ks = append(ks, k)
	}
	sort.Strings(ks)
	var b strings.Builder
	for _, k := range ks {
		fmt.Fprintf(&b, "%s{s=%d r=%d} ", k, m[k].Streak, m[k].Retry)
	}
	return b.String()
}

func vkFCBackoff(streak int) int {
	ttl := vkFCInit
	for g := 1; g < streak && ttl < vkFCMax; g++ {
		ttl *= 2
	}
	if ttl > vkFCMax {
		ttl = vkFCMax
	}
	return ttl
}

// micro applies one atomic single-key step and returns its result.
func (m vkFCModel) micro(kind, key string, now int) string {
	e, ok := m[key]
	switch kind {
	case "rec":
		switch {
		case !ok:
			e = vkFCEnt{1, now + vkFCInit}
		case now < e.Retry:
			// active generation: idempotent
		default:
			if now-e.Retry >= vkFCMax {
				e.Streak = 1
			} else {
				e.Streak++
			}
			e.Retry = now + vkFCBackoff(e.Streak)
		}
		m[key] = e
		return fmt.Sprintf("s=%d r=%d", e.Streak, e.Retry)
	case "del":
		if ok {
			delete(m, key)
			return "1"
		}
		return "0"
	case "read":
		if !ok {
			return "-"
		}
		if now < e.Retry {
			return fmt.Sprintf("a:%d", e.Streak)
		}
		return "e"
	}
	panic("bad micro " + kind)
}

type vkFCMicro struct{ Kind, Key string }

func vkFCMicros(op string) []vkFCMicro {
	switch op {
	case "recQ":
		return []vkFCMicro{{"rec", "Q"}}
	case "recZ":
		return []vkFCMicro{{"rec", "Z"}}
	case "resetQ":
		return []vkFCMicro{{"del", "Q"}}
	case "resetZ":
		return []vkFCMicro{{"del", "Z"}}
	case "resetM", "resetMsib":
		if op == "resetMsib" { // recovery of a sibling name below the zone: no exact entry of ours
			return []vkFCMicro{{"del", "Z"}}
		}
		return []vkFCMicro{{"del", "Q"}, {"del", "Z"}}
	case "lookup", "retry":
		return []vkFCMicro{{"read", "Q"}, {"read", "Z"}}
	}
	panic("bad op " + op)
}

// vkFCCombine folds the micro results of one operation into its observable result.
func vkFCCombine(op string, acc []string) string {
	switch op {
	case "recQ", "recZ", "resetQ", "resetZ":
		return acc[0]
	case "resetM", "resetMsib":
		n := 0
		for _, a := range acc {
			if a == "1" {
				n++
			}
		}
		return fmt.Sprint(n)
	case "lookup":
		if strings.HasPrefix(acc[0], "a:") {
			return "Q" + acc[0][1:]
		}
		if strings.HasPrefix(acc[1], "a:") {
			return "Z" + acc[1][1:]
		}
		return "miss"
	case "retry":
		if strings.HasPrefix(acc[0], "a:") || strings.HasPrefix(acc[1], "a:") {
			return "none"
		}
		if acc[1] == "e" {
			return "Z"
		}
		if acc[0] == "e" {
			return "Q"
		}
		return "none"
	}
	panic("bad op " + op)
}

type vkFCCall struct {
	T         int
	Op        string
	Call, Ret int
	Res       string
}

// vkFCLinearizable: is there an order of the calls' atomic steps, respecting
// real-time order between calls, that yields every observed result and final?
func vkFCLinearizable(init vkFCModel, calls []vkFCCall, final vkFCModel, now int) bool {
	n := len(calls)
	mic := make([][]vkFCMicro, n)
	for i, c := range calls {
		mic[i] = vkFCMicros(c.Op)
	}
	prog := make([]int, n)
	acc := make([][]string, n)
	var rec func(m vkFCModel, done int) bool
	rec = func(m vkFCModel, done int) bool {
		if done == n {
			return m.key() == final.key()
		}
		for i := 0; i < n; i++ {
			if prog[i] == len(mic[i]) {
				continue
			}
			ok := true
			for j := 0; j < n; j++ {
				if j != i && prog[j] < len(mic[j]) && calls[j].Ret < calls[i].Call {
					ok = false
					break
				}
			}
			if !ok {
				continue
			}
			m2 := m.clone()
			r := m2.micro(mic[i][prog[i]].Kind, mic[i][prog[i]].Key, now)
			acc[i] = append(acc[i], r)
			prog[i]++
			d := done
			good := true
			if prog[i] == len(mic[i]) {
				d++
				good = vkFCCombine(calls[i].Op, acc[i]) == calls[i].Res
			}
			if good && rec(m2, d) {
				return true
			}
			prog[i]--
			acc[i] = acc[i][:len(acc[i])-1]
		}
		return false
	}
	return rec(init.clone(), 0)
}

// ---- the real thing

type vkFCScenario struct {
	Name    string     `json:"name"`
	Pre     string     `json:"pre"`
	Threads [][]string `json:"threads"`
}

func (s vkFCScenario) String() string {
	var b strings.Builder
	fmt.Fprintf(&b, "pre=%s", s.Pre)
	for i, t := range s.Threads {
		fmt.Fprintf(&b, " T%d=%v", i, t)
	}
	return b.String()
}

type vkFCWorld struct {
	fc    *FailureCache
	now   time.Time
	clock func() int
	mu    sync.Mutex
	hist  []vkFCCall
}

var (
	vkFCQ    = FailureQuestionKey{Question: dns.Question{Name: "a.z.t.", Qtype: dns.TypeA, Qclass: dns.ClassINET}}
	vkFCSib  = FailureQuestionKey{Question: dns.Question{Name: "b.z.t.", Qtype: dns.TypeA, Qclass: dns.ClassINET}}
	vkFCZ    = FailureZoneKey{Zone: "z.t.", Qclass: dns.ClassINET}
	vkFCPad  = FailureZoneKey{Zone: "pad.example.", Qclass: dns.ClassINET}
	vkFCPres = []string{"none", "Zs1-active", "Zs1-expired", "Zs3-expired", "Zs3-idle", "Qs2+Zs2-expired", "Qs1-active+Zs2-expired"}
)

func (w *vkFCWorld) sec(t time.Time) int { return int(t.Sub(vkFCBase) / time.Second) }

func (w *vkFCWorld) hitStr(h FailureHit) string {
	return fmt.Sprintf("s=%d r=%d", h.Streak, w.sec(h.RetryAfter))
}

func (w *vkFCWorld) do(t int, op string) {
	c := vkFCCall{T: t, Op: op, Call: w.clock()}
	switch op {
	case "recQ":
		c.Res = w.hitStr(w.fc.RecordQuestion(vkFCQ, "verif", nil))
	case "recZ":
		c.Res = w.hitStr(w.fc.RecordZone(vkFCZ, "verif", nil))
	case "resetQ":
		c.Res = vkFCBool(w.fc.ResetQuestion(vkFCQ))
	case "resetZ":
		c.Res = vkFCBool(w.fc.ResetZone(vkFCZ))
	case "resetM":
		c.Res = fmt.Sprint(w.fc.ResetMatching(vkFCQ))
	case "resetMsib":
		c.Res = fmt.Sprint(w.fc.ResetMatching(vkFCSib))
	case "lookup":
		h, ok := w.fc.Lookup(vkFCQ)
		switch {
		case !ok:
			c.Res = "miss"
		case h.Kind == FailureKindQuestion:
			c.Res = fmt.Sprintf("Q:%d", h.Streak)
		default:
			c.Res = fmt.Sprintf("Z:%d", h.Streak)
		}
	case "retry":
		k, ok := w.fc.RetryKey(vkFCQ)
		switch {
		case !ok:
			c.Res = "none"
		case k == failureZoneHash(normalizeFailureZoneKey(vkFCZ)):
			c.Res = "Z"
		case k == failureQuestionHash(normalizeFailureQuestionKey(vkFCQ)):
			c.Res = "Q"
		default:
			c.Res = fmt.Sprintf("foreign-key-%x", k)
		}
	default:
		panic("bad op " + op)
	}
	c.Ret = w.clock()
	w.mu.Lock()
	w.hist = append(w.hist, c)
	w.mu.Unlock()
}

func vkFCBool(b bool) string {
	if b {
		return "1"
	}
	return "0"
}

// vkFCBuild constructs the cache in the named pre-state by the same sequential
// record/advance steps on the real cache and on the model.
func vkFCBuild(pre string) (*vkFCWorld, vkFCModel, int, string) {
	w := &vkFCWorld{now: vkFCBase}
	fc, err := NewFailureCache(FailureCacheConfig{Size: 64, InitialTTL: vkFCInit * time.Second, MaxTTL: vkFCMax * time.Second,
		Now: func() time.Time { return w.now }})
	if err != nil {
		panic(err)
	}
	w.fc = fc
	m := vkFCModel{}
	now := 0
	adv := func(s int) { now += s; w.now = vkFCBase.Add(time.Duration(now) * time.Second) }
	recZ := func() { fc.RecordZone(vkFCZ, "verif", nil); m.micro("rec", "Z", now) }
	recQ := func() { fc.RecordQuestion(vkFCQ, "verif", nil); m.micro("rec", "Q", now) }
	switch pre {
	case "none":
	case "Zs1-active":
		recZ()
		adv(1)
	case "Zs1-expired":
		recZ()
		adv(3)
	case "Zs3-expired", "Zs3-idle":
		recZ()
		adv(2)
		recZ()
		adv(4)
		recZ()
		if pre == "Zs3-idle" {
			adv(8 + 8)
		} else {
			adv(8 + 1)
		}
	case "Qs2+Zs2-expired":
		recZ()
		recQ()
		adv(2)
		recZ()
		recQ()
		adv(5)
	case "Qs1-active+Zs2-expired":
		recZ()
		adv(2)
		recZ()
		adv(4)
		recQ()
		adv(1)
	default:
		panic("bad pre " + pre)
	}
	// an unrelated entry keeps Len() above zero (the operations' empty-cache shortcut is a
	// separate read of an approximate counter, not part of the property)
	fc.RecordZone(vkFCPad, "verif", nil)
	if got := w.snapshot(); got.key() != m.key() {
		return w, m, now, fmt.Sprintf("sequential pre-state %q: cache holds %s, reference automaton %s", pre, got.key(), m.key())
	}
	return w, m, now, ""
}

func (w *vkFCWorld) snapshot() vkFCModel {
	m := vkFCModel{}
	if e, ok := w.fc.loadQuestion(normalizeFailureQuestionKey(vkFCQ)); ok {
		m["Q"] = vkFCEnt{int(e.streak), w.sec(e.retryAfter)}
	}
	if e, ok := w.fc.loadZone(vkFCZ); ok {
		m["Z"] = vkFCEnt{int(e.streak), w.sec(e.retryAfter)}
	}
	return m
}

func vkFCHistStr(h []vkFCCall) string {
	var b strings.Builder
	for _, c := range h {
		fmt.Fprintf(&b, "T%d %s->%s@[%d,%d]; ", c.T, c.Op, c.Res, c.Call, c.Ret)
	}
	return b.String()
}

func (w *vkFCWorld) finalCheck(sc vkFCScenario, init vkFCModel, now int) (string, string) {
	final := w.snapshot()
	res := make([]string, 0, len(w.hist))
	for _, c := range w.hist {
		res = append(res, fmt.Sprintf("T%d:%s=%s", c.T, c.Op, c.Res))
	}
	sort.Strings(res)
	outcome := final.key() + "|" + strings.Join(res, ";")
	if !vkFCLinearizable(init, w.hist, final, now) {
		return fmt.Sprintf("no order of the operations explains the back-off state: start {%s} at t=%d, final {%s}: %s", init.key(), now, final.key(), vkFCHistStr(w.hist)), outcome
	}
	return "", outcome
}

func vkFCScenarioFn(sc vkFCScenario) sched.Scenario {
	return func(r *sched.Run) func() (string, string) {
		w, init, now, bad := vkFCBuild(sc.Pre)
		w.clock = r.StepCount
		if bad == "" {
			for ti, ops := range sc.Threads {
				ti, ops := ti, ops
				r.Go(fmt.Sprintf("T%d", ti), func() {
					for _, o := range ops {
						w.do(ti, o)
					}
				})
			}
		}
		return func() (string, string) {
			if bad != "" {
				return bad, "bad-prestate"
			}
			return w.finalCheck(sc, init, now)
		}
	}
}

func vkFCScenarios(thorough bool) []vkFCScenario {
	ops := []string{"recZ", "recQ", "resetM", "resetMsib", "resetZ", "resetQ", "lookup", "retry"}
	mut := func(o string) bool { return o != "lookup" && o != "retry" }
	var out []vkFCScenario
	for _, pre := range vkFCPres {
		for a := 0; a < len(ops); a++ {
			for b := a; b < len(ops); b++ {
				if mut(ops[a]) || mut(ops[b]) {
					out = append(out, vkFCScenario{Pre: pre, Threads: [][]string{{ops[a]}, {ops[b]}}})
				}
				for c := b; c < len(ops); c++ {
					n := 0
					for _, o := range []string{ops[a], ops[b], ops[c]} {
						if mut(o) {
							n++
						}
					}
					if n < 2 {
						continue
					}
					out = append(out, vkFCScenario{Pre: pre, Threads: [][]string{{ops[a]}, {ops[b]}, {ops[c]}}})
				}
			}
		}
		two := [][]string{{"recZ", "lookup"}, {"resetM", "recZ"}, {"recZ", "recZ"}, {"recQ", "retry"}, {"resetMsib", "lookup"}, {"recZ", "resetZ"}}
		for a := 0; a < len(two); a++ {
			for b := a; b < len(two); b++ {
				out = append(out, vkFCScenario{Pre: pre, Threads: [][]string{two[a], two[b]}})
				if thorough {
					out = append(out, vkFCScenario{Pre: pre, Threads: [][]string{two[a], two[b], {"recZ"}}})
					out = append(out, vkFCScenario{Pre: pre, Threads: [][]string{two[a], two[b], {"resetM"}}})
				}
			}
		}
	}
	for i := range out {
		out[i].Name = fmt.Sprintf("fc-conc-%d", i)
	}
	return out
}

func vkFCFreeRun(sc vkFCScenario) {
	w, _, _, _ := vkFCBuild(sc.Pre)
	w.clock = func() int { return 0 }
	var wg sync.WaitGroup
	for ti, ops := range sc.Threads {
		ti, ops := ti, ops
		wg.Add(1)
		go func() {
			defer wg.Done()
			for _, o := range ops {
				w.do(ti, o)
			}
		}()
	}
	wg.Wait()
}

func TestVerifC13Conc(t *testing.T) {
	c := vkit.Init("C13/conc")
	defer c.Close()
	if c.Replay != nil {
		var r struct {
			Scenario vkFCScenario `json:"scenario"`
			Choices  []int        `json:"choices"`
		}
		if err := json.Unmarshal(c.Replay, &r); err != nil {
			c.HarnessError("bad replay: " + err.Error())
			return
		}
		run, v, _ := sched.RunOnce(sched.Config{Name: r.Scenario.Name, KeepTrace: true}, vkFCScenarioFn(r.Scenario), r.Choices)
		if run.Diverged != "" {
			c.HarnessError("replay diverged: " + run.Diverged)
			return
		}
		if v != "" {
			c.Violation("conc:"+r.Scenario.String(), v+"\n  trace: "+strings.Join(run.Trace, " "), nil)
		}
		return
	}
	scs := vkFCScenarios(c.Thorough())
	if vkit.FreeRun() {
		for i, sc := range scs {
			if !c.Mine(i) {
				continue
			}
			for rep := 0; rep < 20; rep++ {
				vkFCFreeRun(sc)
				c.Add("free_executions", 1)
			}
		}
		return
	}
	bound := 2
	if c.Thorough() {
		bound = 3
	}
	for i, sc := range scs {
		if !c.Mine(i) {
			continue
		}
		if c.OverBudget() {
			c.Cap(fmt.Sprintf("time budget reached after %d scenarios of this shard", i))
			break
		}
		res := sched.Explore(sched.Config{Name: sc.Name, Bound: bound, Horizon: 5000, Stop: c.OverBudget}, vkFCScenarioFn(sc))
		if res.HarnessErr != "" {
			c.HarnessError(res.HarnessErr)
			return
		}
		c.Add("evaluations", int64(res.Executions))
		c.Add("traces", int64(res.Executions))
		c.Add("transitions", int64(res.Points))
		c.Add("scenarios", 1)
		c.Max("max_points", int64(res.MaxPoints))
		if !res.Exhaustive {
			c.Cap("execution cap in " + sc.Name)
		}
		for o := range res.Outcomes {
			if c.DistinctStr("states", sc.String()+"|"+o) && len(res.Outcomes) > 1 {
				c.DistinctStr("nontrivial", sc.String()+"|"+o)
			}
		}
		c.Outcome(fmt.Sprintf("outcomes=%d", len(res.Outcomes)))
		if i%97 == 0 {
			c.Sample(map[string]any{"scenario": sc.String(), "schedules": res.Executions, "distinct_outcomes": len(res.Outcomes), "preemption_bound": bound})
		}
		for _, v := range res.Violations {
			msg := v.Message
			if j := strings.Index(msg, ":"); j > 0 {
				msg = msg[:j]
			}
			c.Violation("conc:"+sc.String()+":"+msg, fmt.Sprintf("%s\n  schedule=%v\n  trace: %s", v.Message, v.Choices, strings.Join(v.Trace, " ")),
				map[string]any{"scenario": sc, "choices": v.Choices})
			break
		}
	}
}
