//go:build verif

package cache

import (
	"net"
	"context"
	"encoding/json"
	"fmt"
	"net/netip"
	"strings"
	"testing"
	"time"

	"github.com/miekg/dns"
	"github.com/semihalev/sdns/internal/verifshim/vkit"
	"github.com/semihalev/sdns/internal/verifshim/vtime"
	"github.com/semihalev/sdns/middleware"
)

// ---- C19 "scoped": sequences of clients from different subnets asking the same names.

type vkScClient struct {
	Name string
	Addr string // ip:port
	ECS  string // subnet option sent ("" none)
	CD   bool
}

var vkScClients = []vkScClient{
	{"c1", "10.1.2.3:4000", "10.1.2.0/24", false},
	{"c1b", "10.1.2.200:4000", "10.1.2.128/25", false},
	{"c2", "10.1.3.9:4000", "10.1.3.0/24", false},
	{"c3", "10.9.9.9:4000", "10.9.9.0/24", false},
	{"plain", "10.1.2.77:4000", "", false},
	{"c1cd", "10.1.2.3:4000", "10.1.2.0/24", true},
	{"c16", "10.1.2.9:4000", "10.1.0.0/16", false},
	{"outsider", "192.0.2.1:4000", "192.0.2.0/24", false}, // not in client_networks
	// (echo family only) an IPv6 client far outside 2001:db8:aa00::/56
	{"c6", "[2001:dff:1234:5600::1]:4000", "2001:dff:1234:5600::/56", false},
	// (denial family only) a subnet option with SOURCE PREFIX-LENGTH 0 ("dig +subnet=0"): the query carried ECS
	{"c0", "10.1.2.4:4000", "0.0.0.0/0", false},
}

// vkScMainClients: the clients of the general alphabets (the last two belong to the echo and to the denial family)
var vkScMainClients = len(vkScClients) - 2

type vkScEv struct {
	Kind   string `json:"kind"` // ask, askneg, askbelow, adv, pf (the background refresh worker runs every queued refresh)
	Client int    `json:"client,omitempty"`
	Scope  int    `json:"scope,omitempty"` // authority-declared scope if this ask reaches upstream
	D      int    `json:"d,omitempty"`
	// Echo: what ADDRESS / FAMILY the upstream's subnet option carries in its response: "" the forwarded one (RFC 7871 7.3),
	// "addr" another subnet of the same family (10.9.9.0), "v6" the other family (2001:db8:aa00::)
	Echo string `json:"echo,omitempty"`
}

func (e vkScEv) String() string {
	switch e.Kind {
	case "adv":
		return fmt.Sprintf("adv(%d)", e.D)
	case "pf":
		return fmt.Sprintf("pf(scope=%d)", e.Scope)
	default:
		if e.Echo != "" {
			return fmt.Sprintf("%s(%s,scope=%d,echo=%s)", e.Kind, vkScClients[e.Client].Name, e.Scope, e.Echo)
		}
		return fmt.Sprintf("%s(%s,scope=%d)", e.Kind, vkScClients[e.Client].Name, e.Scope)
	}
}

type vkScStored struct {
	marker int
	scope  netip.Prefix // zero = shared
	cd     bool
	after  time.Time // admission finished no later than this
	ttl    time.Duration
}

type vkScWorld struct {
	*vkECSWorld
	next    int
	scope   int
	stored  []*vkScStored
	pending *vkScStored
	negMode bool
	echo    string
	holdPF  bool // leave claimed refreshes queued for a later "pf" event instead of dropping them
}

var vkScPolicy = vkECSPolicy{Enabled: true, V4: 24, V6: 56, Min4: 20, Nets: []string{"10.0.0.0/8"}, CapTTL: 6}

var vkScPolicies = []vkECSPolicy{
	{Enabled: true, V4: 24, V6: 56, Min4: 20, Nets: []string{"10.0.0.0/8"}, CapTTL: 6},
	{Enabled: true, V4: 24, V6: 56, Nets: []string{"10.0.0.0/8"}, CapTTL: 6}, // floor defaults to the ceiling
	{Enabled: true, V4: 24, V6: 56, Min4: 20, CapTTL: 6},                      // no client_networks: every client may have its subnet forwarded
	{Enabled: true, CapTTL: 6},                                                // the MINIMAL configuration: every length left to its default (ceiling /24 and /56, floor = ceiling)
	// (denial family only) subnet handling switched off, and an invalid policy (fails closed to "off"):
	// a query that CARRIED a subnet is still outside the shared-denial audience
	{Enabled: false, V4: 24, V6: 56, CapTTL: 6},
	{Enabled: true, V4: 24, V6: 56, Nets: []string{"10.0.0.0/33"}, CapTTL: 6},
}

const vkScMainPolicies = 4 // the full-alphabet searches use the first four policies

// vkScRoute: how client queries enter the pipeline in this replay ("msg" = decoded message,
// "wire" = wire-born request, the form the datagram and stream listeners hand over).
var vkScRoute = "msg"

func vkNewScWorld() *vkScWorld {
	vtime.SetOffset(0)
	w := &vkScWorld{vkECSWorld: vkNewECSWorld(vkScPolicy), next: 100}
	ctx, cancel := context.WithCancel(context.Background())
	w.c.config.Prefetch = 50
	w.c.prefetchQueue = &PrefetchQueue{items: make(chan PrefetchRequest, 64), ctx: ctx, cancel: cancel, metrics: w.c.metrics}
	// background refreshes run through the cache-less sub-pipeline (edns -> upstream), as autoWire builds it
	w.c.SetPrefetchQueryer(middleware.NewPipelineQueryer(middleware.VerifNewPipeline([]middleware.Handler{w.e, w.stub}, middleware.RecursionWorkPolicy{})))
	w.respond = nil
	w.stub.answer = func(ctx context.Context, req *dns.Msg) *dns.Msg {
		q := req.Question[0]
		if strings.HasPrefix(strings.ToLower(q.Name), "gone.") || strings.HasSuffix(strings.ToLower(q.Name), ".gone.t.") {
			m := new(dns.Msg)
			m.SetReply(req)
			m.RecursionAvailable = true
			m.Rcode = dns.RcodeNameError
			exp := vtime.Now().Add(24 * time.Hour)
			soa := &dns.SOA{Hdr: dns.RR_Header{Name: "t.", Rrtype: dns.TypeSOA, Class: dns.ClassINET, Ttl: 60}, Ns: "ns.t.", Mbox: "h.t.", Serial: 1, Refresh: 1, Retry: 1, Expire: 1, Minttl: 60}
			n1 := &dns.NSEC{Hdr: dns.RR_Header{Name: "g.t.", Rrtype: dns.TypeNSEC, Class: dns.ClassINET, Ttl: 60}, NextDomain: "h.t.", TypeBitMap: []uint16{dns.TypeA, dns.TypeRRSIG, dns.TypeNSEC}}
			n2 := &dns.NSEC{Hdr: dns.RR_Header{Name: "t.", Rrtype: dns.TypeNSEC, Class: dns.ClassINET, Ttl: 60}, NextDomain: "a0.t.", TypeBitMap: []uint16{dns.TypeSOA, dns.TypeNS, dns.TypeRRSIG, dns.TypeNSEC}}
			m.Ns = []dns.RR{soa, vkSig("t.", dns.TypeSOA, 60, exp), n1, vkSig("g.t.", dns.TypeNSEC, 60, exp), n2, vkSig("t.", dns.TypeNSEC, 60, exp)}
			m.AuthenticatedData = true
			middleware.MarkValidatedNegativeProofResponse(ctx, m, middleware.ValidatedNegativeProof{Subject: "gone.t.", Zone: "t.", Kind: middleware.ValidatedNegativeProofNSEC, Aggressive: true})
			return m
		}
		w.next++
		m := vkAnswer(vkQ{Name: q.Name, Type: q.Qtype, Class: q.Qclass, CD: req.CheckingDisabled}, w.next, 60)
		st := &vkScStored{marker: w.next, cd: req.CheckingDisabled, ttl: 60 * time.Second}
		// the authority echoes the forwarded subnet with its declared scope
		if opt := req.IsEdns0(); opt != nil {
			for _, o := range opt.Option {
				if e, ok := o.(*dns.EDNS0_SUBNET); ok {
					ropt := &dns.OPT{Hdr: dns.RR_Header{Name: ".", Rrtype: dns.TypeOPT}}
					ropt.SetUDPSize(1232)
					echo := &dns.EDNS0_SUBNET{Code: dns.EDNS0SUBNET, Family: e.Family, SourceNetmask: e.SourceNetmask, SourceScope: uint8(w.scope), Address: e.Address}
					switch w.echo {
					case "addr": // a buggy or hostile upstream names ANOTHER subnet of the same family
						echo.Address = net.ParseIP("10.9.9.0").To4()
						if e.Family == 2 {
							echo.Address = net.ParseIP("2001:db8:aa00::")
						}
					case "fam0": // ... or a non-zero SCOPE under a FAMILY it cannot be read with (0, no address)
						echo.Family, echo.SourceNetmask, echo.Address = 0, 0, nil
					case "mapped": // ... or FAMILY 2 with an IPv4-mapped address
						echo.Family, echo.Address = 2, net.ParseIP("::ffff:10.9.9.0")
					case "v6": // ... or the other family
						echo.Family, echo.Address = 2, net.ParseIP("2001:db8:aa00::")
						if e.Family == 2 {
							echo.Family, echo.Address = 1, net.ParseIP("10.9.9.0").To4()
						}
					}
					ropt.Option = append(ropt.Option, echo)
					m.Extra = append(m.Extra, ropt)
					if w.scope > 0 {
						// reference clamp: never more specific than what was forwarded nor than the floor
						bits := w.scope
						if bits > int(e.SourceNetmask) {
							bits = int(e.SourceNetmask)
						}
						if w.echo == "v6" || w.echo == "fam0" || w.echo == "mapped" {
							// the echo names an address of the OTHER family: its scope length says nothing about the
							// forwarded subnet; the audience is exactly what was forwarded
							bits = int(e.SourceNetmask)
						}
						if fl := vkScPolicy.floor(e.Family == 1); bits > fl {
							bits = fl
						}
						a, _ := netip.AddrFromSlice(e.Address)
						st.scope, _ = a.Unmap().Prefix(bits)
						st.ttl = time.Duration(vkScPolicy.CapTTL) * time.Second
					}
				}
			}
		}
		w.pending = st
		return m
	}
	return w
}

func (w *vkScWorld) apply(ev vkScEv) (string, string) {
	if ev.Kind == "adv" {
		vtime.Advance(time.Duration(ev.D) * time.Second)
		return "", "adv"
	}
	if ev.Kind == "pf" {
		// the refresh worker: every claimed refresh is executed by the real processPrefetch;
		// the authority answers the refresh with the event's declared scope
		w.scope = ev.Scope
		n := 0
		for len(w.c.prefetchQueue.items) > 0 {
			req := <-w.c.prefetchQueue.items
			w.pending = nil
			w.c.prefetchQueue.processPrefetch(req)
			if w.pending != nil {
				w.pending.after = vtime.Now()
				w.stored = append(w.stored, w.pending)
				n++
			}
		}
		return "", fmt.Sprintf("pf:%d", n)
	}
	cl := vkScClients[ev.Client]
	w.scope = ev.Scope
	w.echo = ev.Echo
	w.pending = nil
	queued := len(w.c.prefetchQueue.items)
	name := "geo.t."
	switch ev.Kind {
	case "askneg":
		name = "gone.t."
	case "askbelow":
		name = "x.gone.t."
	}
	cs := vkECSCase{Policy: vkScPolicy, Client: cl.Addr, CD: cl.CD}
	if cl.ECS != "" {
		p := netip.MustParsePrefix(cl.ECS)
		fam := uint16(1)
		if p.Addr().Is6() {
			fam = 2
		}
		cs.Opt = &vkECSOpt{Family: fam, Netmask: uint8(p.Bits()), Addr: p.Addr().String()}
	}
	cutsBefore, proofsBefore := w.c.store.NXDomainCutLen(), w.c.store.DenialProofLen()
	t := vtime.Now()
	r, _ := w.ask3(vkScRoute, vkECSRequest(cs, name, 31), cl.Addr)
	after := vtime.Now()
	if v := vkCheckClientReply(r.msg); v != "" {
		return v, "violation"
	}
	if r.stubCalls > 0 {
		if v := vkCheckUpstream(cs, w.stub.last); v != "" {
			return v, "violation"
		}
	}
	clientAddr := netip.MustParseAddrPort(cl.Addr).Addr()
	tainted := cl.CD || cl.ECS != ""
	if ev.Kind == "askneg" || ev.Kind == "askbelow" {
		if tainted && (w.c.store.NXDomainCutLen() > cutsBefore || w.c.store.DenialProofLen() > proofsBefore) {
			return fmt.Sprintf("a query carrying ECS/CD (%s) created shared denial state (cuts %d->%d, proofs %d->%d)", cl.Name, cutsBefore, w.c.store.NXDomainCutLen(), proofsBefore, w.c.store.DenialProofLen()), "violation"
		}
		if ev.Kind == "askbelow" && tainted && r.stubCalls == 0 && r.msg != nil && r.msg.Rcode == dns.RcodeNameError {
			// only an exact entry for x.gone.t. in this client's own partition may answer; a synthesised denial may not
			// an ordinary cached NXDOMAIN for exactly this question and CD partition (admitted by
			// anyone) is a plain cache hit, not a synthesised denial
			found := false
			for _, st := range w.stored {
				if st.marker == -1 && st.cd == cl.CD {
					found = true
				}
			}
			if !found {
				return fmt.Sprintf("a query carrying ECS/CD (%s) consumed a shared denial (answered NXDOMAIN for x.gone.t. without upstream and without an exact entry of its own)", cl.Name), "violation"
			}
		}
		if ev.Kind == "askbelow" && r.stubCalls > 0 {
			w.stored = append(w.stored, &vkScStored{marker: -1, cd: cl.CD})
		}
		out := "neg-upstream"
		if r.stubCalls == 0 {
			out = "neg-local"
		}
		return "", out
	}
	if r.stubCalls > 0 {
		if w.pending != nil {
			w.pending.after = after
			w.stored = append(w.stored, w.pending)
		}
		return "", "upstream"
	}
	// served from cache: which stored answer?
	ids := vkMarkersIn(r.msg)
	if len(ids) == 0 {
		return "", "local-nomarker"
	}
	var st *vkScStored
	for _, s := range w.stored {
		if s.marker == ids[0] {
			st = s
		}
	}
	if st == nil {
		return "harness: served marker unknown to the model", "harness"
	}
	if st.cd != cl.CD {
		return fmt.Sprintf("answer stored in CD=%v partition served to CD=%v client %s", st.cd, cl.CD, cl.Name), "violation"
	}
	if st.scope.IsValid() {
		ok := vkScPolicy.allows(clientAddr) && cl.ECS != ""
		if ok {
			cp := netip.MustParsePrefix(cl.ECS)
			fbits := cp.Bits()
			if cl := vkScPolicy.ceiling(cp.Addr().Is4()); fbits > cl {
				fbits = cl
			}
			fp, _ := cp.Addr().Prefix(fbits)
			ok = st.scope.Bits() <= fp.Bits() && st.scope.Contains(fp.Addr())
		}
		if !ok {
			return fmt.Sprintf("answer scoped to %v served to client %s (%s, ecs %q) outside its scope", st.scope, cl.Name, cl.Addr, cl.ECS), "violation"
		}
		if !t.Before(st.after.Add(st.ttl)) {
			return fmt.Sprintf("scoped answer (scope %v) outlives the scoped TTL cap: served %.1fs after admission, cap %v", st.scope, t.Sub(st.after).Seconds(), st.ttl), "violation"
		}
		for _, rr := range r.msg.Answer {
			if time.Duration(rr.Header().Ttl)*time.Second > st.ttl {
				return fmt.Sprintf("scoped answer shown with TTL %d above the scoped TTL cap %v", rr.Header().Ttl, st.ttl), "violation"
			}
		}
		if n := len(w.c.prefetchQueue.items); n > queued {
			return fmt.Sprintf("a scoped entry (scope %v) was queued for background refresh", st.scope), "violation"
		}
		return "", "hit-scoped"
	}
	// drain prefetch claims of shared entries (legal)
	for !w.holdPF && len(w.c.prefetchQueue.items) > 0 {
		req := <-w.c.prefetchQueue.items
		releasePrefetchClaim(req.Entry)
	}
	return "", "hit-shared"
}

// storedScopesCheck inspects the cache's own entries: no stored scope may be more specific
// than the floor or than the ceiling.
func (w *vkScWorld) storedScopesCheck() string {
	bad := ""
	expected := map[netip.Prefix]bool{}
	for _, st := range w.stored {
		if st.scope.IsValid() {
			expected[st.scope] = true
		}
	}
	w.c.store.ForEach(func(_ bool, _ uint64, e *CacheEntry) bool {
		if !e.scoped() {
			return true
		}
		if e.scope.Addr().Is4() && (e.scope.Bits() > vkScPolicy.floor(true) || e.scope.Bits() > vkScPolicy.ceiling(true)) {
			bad = fmt.Sprintf("stored entry keyed under %v is more specific than the configured floor /%d", e.scope, vkScPolicy.floor(true))
			return false
		}
		if !expected[e.scope] {
			bad = fmt.Sprintf("stored entry keyed under %v: more specific than what was forwarded, or broader than the authority's scope (reference expects one of %v)", e.scope, expected)
			return false
		}
		return true
	})
	return bad
}

func vkScReplay(pi int, h []vkScEv) (string, []string) {
	return vkScReplayR(pi, "msg", h)
}

func vkScReplayR(pi int, route string, h []vkScEv) (string, []string) {
	vkScPolicy = vkScPolicies[pi]
	vkScRoute = route
	defer func() { vkScRoute = "msg" }()
	w := vkNewScWorld()
	defer w.stop()
	for _, ev := range h {
		if ev.Kind == "pf" {
			w.holdPF = true
		}
	}
	var outs []string
	for i, ev := range h {
		v, o := w.apply(ev)
		outs = append(outs, o)
		if v == "" {
			v = w.storedScopesCheck()
		}
		if v != "" {
			return fmt.Sprintf("step %d %v: %s", i, ev, v), outs
		}
	}
	return "", outs
}

func TestVerifC19Scoped(t *testing.T) {
	c := vkit.Init("C19/scoped")
	defer c.Close()
	if c.Replay != nil {
		var r struct {
			Hist   []vkScEv `json:"hist"`
			Policy int      `json:"policy"`
			Route  string   `json:"route"`
		}
		if json.Unmarshal(c.Replay, &r) != nil {
			c.HarnessError("bad replay")
			return
		}
		if r.Route == "" {
			r.Route = "msg"
		}
		if v, _ := vkScReplayR(r.Policy, r.Route, r.Hist); v != "" {
			c.Violation("scoped:replay", v, r)
		}
		return
	}
	var evs []vkScEv
	scopes := []int{0, 16, 24, 33}
	if c.Thorough() {
		scopes = []int{0, 8, 16, 20, 21, 24, 25, 32, 33}
	}
	for ci := 0; ci < vkScMainClients; ci++ {
		for _, s := range scopes {
			evs = append(evs, vkScEv{Kind: "ask", Client: ci, Scope: s})
		}
		evs = append(evs, vkScEv{Kind: "askneg", Client: ci}, vkScEv{Kind: "askbelow", Client: ci})
	}
	evs = append(evs, vkScEv{Kind: "adv", D: 4}, vkScEv{Kind: "adv", D: 7})
	depth := 3
	if c.Thorough() {
		depth = 4
	}
	count := 0
	pi := 0
	var rec func(h []vkScEv)
	rec = func(h []vkScEv) {
		if len(h) > 0 {
			v, outs := vkScReplay(pi, h)
			count++
			c.Add("evaluations", 1)
			sig := strings.Join(outs, ",")
			c.Outcome(outs[len(outs)-1])
			if strings.Contains(sig, "hit-scoped") || strings.Contains(sig, "neg-local") {
				c.DistinctStr("nontrivial", fmt.Sprint(h))
			}
			if count%4000 == 1 {
				c.Sample(map[string]any{"hist": fmt.Sprint(h), "outcomes": sig})
			}
			if v != "" {
				if strings.Contains(v, "harness:") {
					c.HarnessError(v)
					return
				}
				v2, _ := vkScReplay(pi, h)
				if v2 == "" {
					c.Add("dropped_unreproducible", 1)
					return
				}
				c.Violation("scoped:"+vkC19Class(v), fmt.Sprintf("policy %v after %v: %s", vkScPolicies[pi], h, v), map[string]any{"hist": h, "policy": pi})
				return
			}
		}
		if len(h) == depth || c.NumViolations() > 5 {
			return
		}
		for i, ev := range evs {
			if len(h) == 0 && !c.Mine(i) {
				continue
			}
			if c.OverBudget() {
				c.Cap("time budget")
				return
			}
			rec(append(append([]vkScEv{}, h...), ev))
		}
	}
	for pi = 0; pi < vkScMainPolicies; pi++ {
		if pi >= 1 && !c.Thorough() {
			depth = 2 // the other policies only need admission + one probe
		}
		rec(nil)
	}
	// denial family: every history (<= 3, thorough 4) of {askneg, askbelow} x every client x one clock
	// advance, under EVERY policy (including subnet handling off / invalid) and both entry forms.
	{
		var nev []vkScEv
		for ci := 0; ci < vkScMainClients; ci++ {
			nev = append(nev, vkScEv{Kind: "askneg", Client: ci}, vkScEv{Kind: "askbelow", Client: ci})
		}
		nev = append(nev, vkScEv{Kind: "askneg", Client: len(vkScClients) - 1}, vkScEv{Kind: "askbelow", Client: len(vkScClients) - 1})
		nev = append(nev, vkScEv{Kind: "adv", D: 4})
		ndepth := 3
		if c.Thorough() {
			ndepth = 4
		}
		work := 0
		for npi := range vkScPolicies {
			for _, route := range []string{"msg", "wire"} {
				if npi < vkScMainPolicies && route == "msg" && ndepth <= depth {
					continue // already part of the main search
				}
				var nrec func(h []vkScEv)
				nrec = func(h []vkScEv) {
					if c.NumViolations() > 5 {
						return
					}
					if len(h) > 0 && h[len(h)-1].Kind != "adv" {
						v, outs := vkScReplayR(npi, route, h)
						c.Add("evaluations", 1)
						c.Outcome("neg-family:" + route + ":" + outs[len(outs)-1])
						if strings.Contains(strings.Join(outs, ","), "neg-local") {
							c.DistinctStr("nontrivial", fmt.Sprint(npi, route, h))
						}
						if v != "" {
							if strings.Contains(v, "harness:") {
								c.HarnessError(v)
								return
							}
							if v2, _ := vkScReplayR(npi, route, h); v2 == "" {
								c.Add("dropped_unreproducible", 1)
								return
							}
							c.Violation("scoped:"+route+":"+vkC19Class(v), fmt.Sprintf("policy %v, %s-born queries, after %v: %s", vkScPolicies[npi], route, h, v), map[string]any{"hist": h, "policy": npi, "route": route})
							return
						}
					}
					if len(h) == ndepth {
						return
					}
					for _, ev := range nev {
						if len(h) == 0 {
							work++
							if !c.Mine(work) {
								continue
							}
						}
						if c.OverBudget() {
							c.Cap("time budget")
							return
						}
						nrec(append(append([]vkScEv{}, h...), ev))
					}
				}
				nrec(nil)
			}
		}
	}
	// background refresh x client subnet: creator asks, the entry ages into the refresh
	// window, a trigger client hits it (claiming a refresh), the worker runs the refresh while
	// the authority declares a scope, then every client probes. All combinations.
	pfScopes := []int{0, 24}
	if c.Thorough() {
		pfScopes = []int{0, 16, 24, 33}
	}
	n := 0
	for pi = 0; pi < vkScMainPolicies; pi++ {
		for creator := 0; creator < vkScMainClients; creator++ {
			for _, s0 := range pfScopes {
				for trigger := 0; trigger < vkScMainClients; trigger++ {
					for _, s1 := range pfScopes {
						n++
						if !c.Mine(n) {
							continue
						}
						if c.OverBudget() {
							c.Cap("time budget")
							return
						}
						for probe := 0; probe < vkScMainClients; probe++ {
							h := []vkScEv{{Kind: "ask", Client: creator, Scope: s0}, {Kind: "adv", D: 35}, {Kind: "ask", Client: trigger, Scope: s0},
								{Kind: "pf", Scope: s1}, {Kind: "ask", Client: probe, Scope: s1}}
							v, outs := vkScReplay(pi, h)
							c.Add("evaluations", 1)
							sig := strings.Join(outs, ",")
							c.Outcome("pf-family:" + outs[len(outs)-2] + ">" + outs[len(outs)-1])
							if strings.Contains(sig, "pf:1") {
								c.DistinctStr("nontrivial", fmt.Sprint(pi, h))
							}
							if v != "" {
								if strings.Contains(v, "harness:") {
									c.HarnessError(v)
									return
								}
								if v2, _ := vkScReplay(pi, h); v2 == "" {
									c.Add("dropped_unreproducible", 1)
									continue
								}
								c.Violation("scoped:refresh:"+vkC19Class(v), fmt.Sprintf("policy %v after %v: %s", vkScPolicies[pi], h, v), map[string]any{"hist": h, "policy": pi})
								if c.NumViolations() > 5 {
									return
								}
							}
						}
					}
				}
			}
		}
	}
	// echo family: the upstream's subnet option does NOT echo what was forwarded (another subnet of the family, or the other
	// family). The audience of what is stored is still the FORWARDED subnet (the reference takes the address from the
	// request); a client inside the echoed prefix that never asked, of either family, must not be served it.
	echoWork := 0
	for pi = 0; pi < vkScMainPolicies; pi++ {
		for _, echo := range []string{"addr", "v6", "fam0", "mapped"} {
			for _, creator := range []int{0, 2, len(vkScClients) - 2} {
				for _, s0 := range []int{16, 24, 56} {
					echoWork++
					if !c.Mine(echoWork) {
						continue
					}
					for probe := range vkScClients {
						for _, route := range []string{"msg", "wire"} {
							h := []vkScEv{{Kind: "ask", Client: creator, Scope: s0, Echo: echo}, {Kind: "ask", Client: probe, Scope: s0}}
							v, outs := vkScReplayR(pi, route, h)
							c.Add("evaluations", 1)
							c.Outcome("echo-family:" + outs[len(outs)-1])
							c.DistinctStr("nontrivial", fmt.Sprint("echo", pi, route, h))
							if v != "" {
								if strings.Contains(v, "harness:") {
									c.HarnessError(v)
									return
								}
								if v2, _ := vkScReplayR(pi, route, h); v2 == "" {
									c.Add("dropped_unreproducible", 1)
									continue
								}
								c.Violation("scoped:echo-"+echo+":"+vkC19Class(v), fmt.Sprintf("policy %v, %s-born, after %v: %s", vkScPolicies[pi], route, h, v), map[string]any{"hist": h, "policy": pi, "route": route})
								if c.NumViolations() > 8 {
									return
								}
							}
						}
					}
				}
			}
		}
	}
}


// TestVerifC03Audience — the same history search judged for C03's audience clause only: "a cached
// response only answers the exact question and AUDIENCE it was stored for". Every history (<= 3,
// thorough 4) of positive questions by every client x authority scope under the first policy (floor
// /20 below the /24 ceiling, so clamped scopes, shorter sources and out-of-network clients all occur):
// a reply served from cache must come from an entry whose scope contains the client's forwarded
// prefix and is no more specific than it; stored scopes are checked after every step.
func TestVerifC03Audience(t *testing.T) {
	c := vkit.Init("C03/audience")
	defer c.Close()
	if c.Replay != nil {
		var r struct {
			Hist []vkScEv `json:"hist"`
		}
		if json.Unmarshal(c.Replay, &r) != nil {
			c.HarnessError("bad replay")
			return
		}
		if v, _ := vkScReplay(0, r.Hist); v != "" {
			c.Violation("audience:replay", v, r)
		}
		return
	}
	var evs []vkScEv
	scopes := []int{0, 16, 24}
	if c.Thorough() {
		scopes = []int{0, 8, 16, 20, 21, 24, 25, 33}
	}
	for ci := 0; ci < vkScMainClients; ci++ {
		for _, s := range scopes {
			evs = append(evs, vkScEv{Kind: "ask", Client: ci, Scope: s})
		}
	}
	depth := 3
	if c.Thorough() {
		depth = 4
	}
	n := 0
	var rec func(h []vkScEv)
	rec = func(h []vkScEv) {
		if len(h) > 0 {
			v, outs := vkScReplay(0, h)
			n++
			c.Add("evaluations", 1)
			sig := strings.Join(outs, ",")
			c.Outcome(outs[len(outs)-1])
			if strings.Contains(sig, "hit-scoped") {
				c.DistinctStr("nontrivial", fmt.Sprint(h))
			}
			if n%3001 == 1 {
				c.Sample(map[string]any{"hist": fmt.Sprint(h), "outcomes": sig})
			}
			if v != "" {
				if strings.Contains(v, "harness:") {
					c.HarnessError(v)
					return
				}
				cls := vkC19Class(v)
				if cls != "outside its scope" && cls != "more specific than" {
					return // another property's clause (C19/C04 report it)
				}
				if v2, _ := vkScReplay(0, h); v2 == "" {
					c.Add("dropped_unreproducible", 1)
					return
				}
				c.Violation("audience:"+cls, fmt.Sprintf("after %v: %s", h, v), map[string]any{"hist": h})
				return
			}
		}
		if len(h) == depth || c.NumViolations() > 5 {
			return
		}
		for i, ev := range evs {
			if len(h) == 0 && !c.Mine(i) {
				continue
			}
			if c.OverBudget() {
				c.Cap("time budget")
				return
			}
			rec(append(append([]vkScEv{}, h...), ev))
		}
	}
	rec(nil)
}
