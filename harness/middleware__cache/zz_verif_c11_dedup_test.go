//go:build verif

package cache

// C11/dedup — event-level exploration of the real Cache.ServeDNS dedup loop.
//
// World: a real Cache in front of a gated stub handler. Every client is one
// goroutine running the real chain (message-born or wire-born entry). The
// harness owns every event and explores all event orders to a depth bound by
// replaying each sequence on a fresh world:
//
//	new     an identical client arrives            (<= 3/4 clients)
//	other   a client asking a different name arrives (once)
//	rel     release a stub-parked client (lowest / highest index of a
//	        question) with outcome answer | SERVFAIL | request-local failure |
//	        no write
//	cancel  cancel the context of a waiting follower (lowest / highest index)
//	expire  the request deadline of a waiting follower has passed AND its
//	        context has published that (Done() closed, Err() = DeadlineExceeded)
//	dl      the deadline INSTANT of a waiting follower (lowest / highest index)
//	        or of a stub-parked leader passes: Deadline() is now in the past,
//	        Err() is still nil and Done() still open (the context's timer
//	        goroutine has not run yet — the window internal/contextutil's
//	        EffectiveError exists for). A later cancel / expire of the same
//	        client is the separate event "Done() closes".
//	late    an identical client arrives with its deadline instant already
//	        passed and nothing published (queue wait ate the budget)
//
// dl / late exist on the message-born route only: a wire-born request is
// detached onto a LazyDeadline that copies the deadline as a scalar at
// arrival, so the harness context's instant is not what the cache reads.
// VERIF_C11_DEDUP_DL=0 switches the two events off.
//
// Quiescence after each event is exact and uses no sleeps: a consistent
// all-goroutine snapshot (runtime.Stack stops the world) must show every
// client goroutine either finished, blocked in the stub gate (chan receive in
// vkDStub.park), or blocked in the select statement of Cache.ServeDNS, and no
// other goroutine runnable. The snapshot loop is bounded by a 30 s safety
// timeout that is reported as HarnessError.
//
// Not enumerated: the runtime order in which several followers woken by one
// DoneGeneration run (covered on internal/waitgroup by C11/waitgroup). Clients
// woken together with equal history are symmetric, events address roles by
// index extremes, so the abstract outcome is schedule-independent.

import (
	"context"
	"encoding/json"
	"fmt"
	"net"
	"os"
	"runtime"
	"sort"
	"strconv"
	"strings"
	"sync"
	"sync/atomic"
	"testing"
	"time"

	"github.com/miekg/dns"
	"github.com/semihalev/sdns/config"
	"github.com/semihalev/sdns/internal/verifshim/vkit"
	"github.com/semihalev/sdns/middleware"
)

type vkDEv struct {
	Kind string `json:"k"`           // new other rel cancel expire dl late
	Q    int    `json:"q,omitempty"` // rel: 0 same question, 1 other
	Hi   bool   `json:"hi,omitempty"`
	Out  string `json:"o,omitempty"` // rel: ans fail local nowrite
	Who  string `json:"w,omitempty"` // dl: f (waiting follower) | s (stub-parked leader of the same question)
}

func (e vkDEv) String() string {
	s := e.Kind
	if e.Kind == "rel" {
		s += fmt.Sprintf("(q%d,%s", e.Q, e.Out)
		if e.Hi {
			s += ",hi"
		}
		s += ")"
	} else if e.Kind == "dl" {
		s += "(" + e.Who
		if e.Hi {
			s += ",hi"
		}
		s += ")"
	} else if e.Hi {
		s += "(hi)"
	}
	return s
}

type vkDScenario struct {
	Probe bool   `json:"probe"` // an EXPIRED failure entry exists: clients are failure-probe followers
	Route string `json:"route"` // msg | wire
}

func (s vkDScenario) String() string { return fmt.Sprintf("probe=%v route=%s", s.Probe, s.Route) }

// ---- transport

type vkDTransport struct {
	mu      sync.Mutex
	replies []*dns.Msg
	addr    *net.UDPAddr
}

func (t *vkDTransport) LocalAddr() net.Addr {
	return &net.UDPAddr{IP: net.IPv4(127, 0, 0, 1), Port: 53}
}
func (t *vkDTransport) RemoteAddr() net.Addr { return t.addr }
func (t *vkDTransport) Close() error         { return nil }
func (t *vkDTransport) Proto() string        { return "udp" }
func (t *vkDTransport) WriteMsg(m *dns.Msg) error {
	t.mu.Lock()
	t.replies = append(t.replies, m.Copy())
	t.mu.Unlock()
	return nil
}
func (t *vkDTransport) Write(b []byte) (int, error) {
	m := new(dns.Msg)
	if err := m.Unpack(b); err != nil {
		m = &dns.Msg{}
		m.Rcode = 0xfff // undecodable reply: judged as a reply with a bad shape
	}
	t.mu.Lock()
	t.replies = append(t.replies, m)
	t.mu.Unlock()
	return len(b), nil
}

// ---- context whose error the harness controls

//
// Two instants are separate, as in a real deadline context: the deadline
// instant passing (Deadline() is in the past by the wall clock) and the
// context publishing it (Done() closed, Err() non-nil). Deadline() starts one
// hour ahead; pass() moves it behind the clock — for code that compares
// Deadline() with time.Now() on every look (contextutil.EffectiveError; the
// message-born route never copies the deadline) that is the clock reaching it.

type vkDCtx struct {
	context.Context
	cancel  context.CancelFunc
	expired bool         // written before cancel(), read after Done() is closed
	dlNano  atomic.Int64 // the deadline instant (unix ns)
}

func (c *vkDCtx) Deadline() (time.Time, bool) { return time.Unix(0, c.dlNano.Load()), true }

// pass: the deadline instant is now behind the clock; nothing is published.
func (c *vkDCtx) pass() { c.dlNano.Store(time.Now().Add(-time.Millisecond).UnixNano()) }

func (c *vkDCtx) Err() error {
	if err := c.Context.Err(); err != nil {
		if c.expired {
			return context.DeadlineExceeded
		}
		return err
	}
	return nil
}

// ---- gated stub

type vkDPark struct {
	client  int
	release chan string
}

type vkDStub struct {
	mu     sync.Mutex
	calls  []int // client index of every invocation, in order
	parked map[int]*vkDPark
	bad    string
}

func (s *vkDStub) Name() string { return "vkdstub" }

//go:noinline
func (s *vkDStub) park(p *vkDPark) string { return <-p.release }

func (s *vkDStub) ServeDNS(ctx context.Context, ch *middleware.Chain) {
	req := ch.Request.Msg()
	if req == nil || len(req.Question) != 1 {
		s.mu.Lock()
		s.bad = "stub reached without a decodable single-question request"
		s.mu.Unlock()
		ch.Cancel()
		return
	}
	client := int(req.Id) - vkDIDBase
	p := &vkDPark{client: client, release: make(chan string, 1)}
	s.mu.Lock()
	s.calls = append(s.calls, client)
	if _, dup := s.parked[client]; dup {
		s.bad = fmt.Sprintf("client %d is in the stub twice at once", client)
	}
	s.parked[client] = p
	s.mu.Unlock()
	out := s.park(p)
	q := req.Question[0]
	vq := vkQ{Name: q.Name, Type: q.Qtype, Class: q.Qclass}
	switch out {
	case "ans":
		m := vkAnswer(vq, client+1, 60)
		m.Id = req.Id
		_ = ch.Writer.WriteMsg(m)
	case "fail":
		m := new(dns.Msg)
		m.SetReply(req)
		m.RecursionAvailable = true
		m.Rcode = dns.RcodeServerFailure
		_ = ch.Writer.WriteMsg(m)
	case "local":
		m := new(dns.Msg)
		m.SetReply(req)
		m.RecursionAvailable = true
		m.Rcode = dns.RcodeServerFailure
		lctx, _ := middleware.EnsureResolutionAttemptGuard(ctx)
		middleware.MarkRequestLocalFailureResponse(lctx, m, middleware.ErrResolutionAttemptLimit)
		_ = ch.Writer.WriteMsg(m)
	case "nowrite":
	}
	ch.Cancel()
}

// ---- world

const vkDIDBase = 0x4000

type vkDClient struct {
	idx      int
	q        vkQ
	other    bool
	tr       *vkDTransport
	ctx      *vkDCtx
	gid      int
	done     chan struct{}
	role     string // run stub follower done
	arrived  int    // event index of arrival
	stubOut  string // outcome its own stub invocation was released with ("" = never in stub)
	canceled bool
	expired  bool // Err() = DeadlineExceeded published (implies dl)
	dl       bool // deadline instant passed (possibly nothing published yet)
	dlInStub bool // ... while it was parked downstream as leader
	// the instant passed only as part of an expire event (not a dl / late event)
	expiredByExpire bool
	failSeen        int // same-question releases without a usable result since arrival
}

type vkDWorld struct {
	sc       vkDScenario
	c        *Cache
	stub     *vkDStub
	hs       []middleware.Handler
	clients  []*vkDClient
	failRel  [2]int // releases with outcome "fail" per question
	leader   [2]int // client index the model believes holds the generation of question q, -1 none
	log      []string
	stubSeen int
}

var vkDQs = [2]vkQ{
	{Name: "dedup.c11.test.", Type: dns.TypeA, Class: dns.ClassINET, DO: true},
	{Name: "other.c11.test.", Type: dns.TypeA, Class: dns.ClassINET, DO: true},
}

func vkDNewWorld(sc vkDScenario) *vkDWorld {
	cfg := vkBaseConfig()
	cfg.Timeout.Duration = 10 * time.Second
	w := &vkDWorld{sc: sc, c: New(cfg), stub: &vkDStub{parked: map[int]*vkDPark{}}, leader: [2]int{-1, -1}}
	w.hs = []middleware.Handler{w.c, w.stub}
	w.c.SetQueryer(middleware.NewPipelineQueryer(middleware.VerifNewPipeline(w.hs, middleware.RecursionWorkPolicy{})))
	if sc.Probe {
		for _, q := range vkDQs {
			key := normalizeFailureQuestionKey(FailureQuestionKey{Question: q.question()})
			w.c.failure.entries.Add(failureQuestionHash(key), &failureEntry{kind: FailureKindQuestion, provenance: "vk-seed",
				streak: 1, retryAfter: time.Now().Add(-time.Second), question: key})
		}
	}
	return w
}

func vkDGoid() int {
	var buf [64]byte
	n := runtime.Stack(buf[:], false)
	f := strings.Fields(string(buf[:n]))
	if len(f) < 2 {
		return -1
	}
	id, _ := strconv.Atoi(f[1])
	return id
}

func (w *vkDWorld) spawn(other bool, evIdx int, late ...bool) *vkDClient {
	idx := len(w.clients)
	qi := 0
	if other {
		qi = 1
	}
	base, cancel := context.WithCancel(context.Background())
	cl := &vkDClient{idx: idx, q: vkDQs[qi], other: other, done: make(chan struct{}), arrived: evIdx,
		tr:  &vkDTransport{addr: &net.UDPAddr{IP: net.IPv4(198, 51, 100, byte(10+idx)), Port: 40000 + idx}},
		ctx: &vkDCtx{Context: base, cancel: cancel}, role: "run"}
	cl.ctx.dlNano.Store(time.Now().Add(time.Hour).UnixNano())
	if len(late) > 0 && late[0] {
		cl.dl = true
		cl.ctx.pass()
	}
	w.clients = append(w.clients, cl)
	gidc := make(chan int, 1)
	go func() {
		gidc <- vkDGoid()
		defer close(cl.done)
		ch := middleware.NewChain(w.hs)
		req := cl.q.msg(uint16(vkDIDBase + idx))
		if w.sc.Route == "wire" {
			raw, err := req.Pack()
			if err != nil {
				panic(err)
			}
			r := new(middleware.Request)
			if !r.ParseWire(raw, time.Now(), nil) {
				panic("vk: dedup query is not strict-eligible")
			}
			ch.ResetWire(cl.tr, r)
			ch.AllowDirectPack()
		} else {
			ch.Reset(cl.tr, req)
		}
		ch.Next(cl.ctx)
		ch.Finish()
	}()
	cl.gid = <-gidc
	return cl
}

// settle waits for exact quiescence and classifies every client.
func (w *vkDWorld) settle() string {
	deadline := time.Now().Add(30 * time.Second)
	buf := make([]byte, 256<<10)
	self := vkDGoid()
	for spin := 0; ; spin++ {
		// done flags are read BEFORE the snapshot: a client that is not done
		// here must appear in the snapshot, blocked at a known site.
		isDone := make([]bool, len(w.clients))
		for i, cl := range w.clients {
			select {
			case <-cl.done:
				isDone[i] = true
			default:
			}
		}
		n := runtime.Stack(buf, true)
		if n == len(buf) {
			buf = make([]byte, 2*len(buf))
			continue
		}
		gs := vkDParseStacks(string(buf[:n]))
		ok := true
		for id, g := range gs {
			if id == self {
				continue
			}
			for _, p := range []string{"running", "runnable", "GC ", "preempted", "copystack", "waiting", "debug call", "finalizer wait (running"} {
				if strings.HasPrefix(g.state, p) {
					ok = false
				}
			}
		}
		roles := make([]string, len(w.clients))
		if ok {
			for i, cl := range w.clients {
				if isDone[i] {
					roles[i] = "done"
					continue
				}
				g, found := gs[cl.gid]
				switch {
				case !found:
					ok = false
				case strings.HasPrefix(g.state, "chan receive") && strings.Contains(g.top, "vkDStub).park"):
					roles[i] = "stub"
				case strings.HasPrefix(g.state, "select") && strings.HasSuffix(g.top, "cache.(*Cache).ServeDNS"):
					roles[i] = "follower"
				default:
					ok = false
				}
			}
		}
		if ok {
			for i, cl := range w.clients {
				cl.role = roles[i]
			}
		}
		if ok {
			return ""
		}
		if time.Now().After(deadline) {
			return "quiescence not reached within 30s; goroutines:\n" + string(buf[:n])
		}
		if spin > 200 {
			time.Sleep(50 * time.Microsecond) // back off politely; not an oracle
		} else {
			runtime.Gosched()
		}
	}
}

type vkDG struct {
	state string
	top   string // first non-runtime frame's function
}

func vkDParseStacks(dump string) map[int]vkDG {
	out := map[int]vkDG{}
	for _, blk := range strings.Split(dump, "\n\n") {
		lines := strings.Split(blk, "\n")
		if len(lines) == 0 || !strings.HasPrefix(lines[0], "goroutine ") {
			continue
		}
		hdr := lines[0]
		sp := strings.IndexByte(hdr[10:], ' ')
		if sp < 0 {
			continue
		}
		id, err := strconv.Atoi(hdr[10 : 10+sp])
		if err != nil {
			continue
		}
		lb, rb := strings.IndexByte(hdr, '['), strings.LastIndexByte(hdr, ']')
		if lb < 0 || rb < lb {
			continue
		}
		g := vkDG{state: hdr[lb+1 : rb]}
		for _, l := range lines[1:] {
			if strings.HasPrefix(l, "\t") || strings.HasPrefix(l, "created by") {
				continue
			}
			fn := l
			if i := strings.LastIndexByte(fn, '('); i > 0 {
				fn = fn[:i]
			}
			if strings.HasPrefix(fn, "runtime.") {
				continue
			}
			g.top = fn
			break
		}
		out[id] = g
	}
	return out
}

func (w *vkDWorld) byRole(role string, other bool) []*vkDClient {
	var out []*vkDClient
	for _, cl := range w.clients {
		if cl.role == role && cl.other == other {
			out = append(out, cl)
		}
	}
	return out
}

// vkDLive: the clients whose deadline instant has not passed yet.
func vkDLive(l []*vkDClient) []*vkDClient {
	var out []*vkDClient
	for _, cl := range l {
		if !cl.dl {
			out = append(out, cl)
		}
	}
	return out
}

// the dl / late events: on unless VERIF_C11_DEDUP_DL=0; at most vkDDLMax of
// them per sequence (set by the tier)
var (
	vkDDLOn  = os.Getenv("VERIF_C11_DEDUP_DL") != "0"
	vkDDLMax = 1 // quick; thorough 3; VERIF_C11_DEDUP_DLMAX overrides
)

func vkDPick(l []*vkDClient, hi bool) *vkDClient {
	if len(l) == 0 {
		return nil
	}
	if hi {
		return l[len(l)-1]
	}
	return l[0]
}

// enabled lists the events applicable in the current (quiescent) state.
func (w *vkDWorld) enabled(maxSame int) []vkDEv {
	var evs []vkDEv
	same, hasOther := 0, false
	for _, cl := range w.clients {
		if cl.other {
			hasOther = true
		} else {
			same++
		}
	}
	if same < maxSame {
		evs = append(evs, vkDEv{Kind: "new"})
	}
	dlOn := vkDDLOn && w.sc.Route == "msg"
	if dlOn {
		used := 0
		for _, cl := range w.clients {
			if cl.dl && !cl.expiredByExpire {
				used++
			}
		}
		dlOn = used < vkDDLMax
	}
	if dlOn && same < maxSame {
		evs = append(evs, vkDEv{Kind: "late"})
	}
	stubSame := w.byRole("stub", false)
	if len(stubSame) > 0 {
		for _, o := range []string{"ans", "fail", "local", "nowrite"} {
			evs = append(evs, vkDEv{Kind: "rel", Q: 0, Out: o})
		}
		if len(stubSame) > 1 {
			for _, o := range []string{"ans", "local"} {
				evs = append(evs, vkDEv{Kind: "rel", Q: 0, Out: o, Hi: true})
			}
		}
	}
	fol := w.byRole("follower", false)
	if len(fol) > 0 {
		evs = append(evs, vkDEv{Kind: "cancel"})
		if len(fol) > 1 {
			evs = append(evs, vkDEv{Kind: "cancel", Hi: true})
		}
		if w.sc.Route == "msg" {
			evs = append(evs, vkDEv{Kind: "expire"})
			// with followers told apart by a passed instant, "Done() closes" is
			// offered for either end
			if vkDDLOn && len(fol) > 1 && fol[0].dl != fol[len(fol)-1].dl {
				evs = append(evs, vkDEv{Kind: "expire", Hi: true})
			}
		}
	}
	if dlOn {
		if live := vkDLive(fol); len(live) > 0 {
			evs = append(evs, vkDEv{Kind: "dl", Who: "f"})
			if len(live) > 1 {
				evs = append(evs, vkDEv{Kind: "dl", Who: "f", Hi: true})
			}
		}
		if len(vkDLive(stubSame)) > 0 {
			evs = append(evs, vkDEv{Kind: "dl", Who: "s"})
		}
	}
	if !hasOther && same > 0 {
		evs = append(evs, vkDEv{Kind: "other"})
	}
	if len(w.byRole("stub", true)) > 0 {
		for _, o := range []string{"ans", "local"} {
			evs = append(evs, vkDEv{Kind: "rel", Q: 1, Out: o})
		}
	}
	return evs
}

func (w *vkDWorld) stubCallsOf(client int) int {
	w.stub.mu.Lock()
	defer w.stub.mu.Unlock()
	n := 0
	for _, c := range w.stub.calls {
		if c == client {
			n++
		}
	}
	return n
}

// apply performs one event, settles, and checks the per-step invariants.
// It returns (violation, harnessError).
func (w *vkDWorld) apply(ev vkDEv, evIdx int) (string, string) {
	qi := ev.Q
	var released *vkDClient
	switch ev.Kind {
	case "new":
		w.spawn(false, evIdx)
		qi = 0
	case "late":
		w.spawn(false, evIdx, true)
		qi = 0
	case "other":
		w.spawn(true, evIdx)
		qi = 1
	case "dl":
		var cl *vkDClient
		if ev.Who == "s" {
			cl = vkDPick(vkDLive(w.byRole("stub", false)), false)
		} else {
			cl = vkDPick(vkDLive(w.byRole("follower", false)), ev.Hi)
		}
		if cl == nil {
			return "", "event " + ev.String() + " not enabled on replay"
		}
		cl.dl = true
		cl.dlInStub = ev.Who == "s"
		cl.ctx.pass()
		qi = 0
	case "rel":
		cl := vkDPick(w.byRole("stub", ev.Q == 1), ev.Hi)
		if cl == nil {
			return "", "event rel not enabled on replay (schedule-dependent state?) [" + strings.Join(w.log, "; ") + "]"
		}
		w.stub.mu.Lock()
		p := w.stub.parked[cl.idx]
		delete(w.stub.parked, cl.idx)
		w.stub.mu.Unlock()
		if p == nil {
			return "", fmt.Sprintf("client %d classified as stub-parked but has no gate", cl.idx)
		}
		cl.stubOut = ev.Out
		cl.role = "run"
		released = cl
		// a SERVFAIL obtained after the leader's own deadline instant is that
		// request's failure, not shared resolution state: for the cohort it is
		// a request-local failure
		if ev.Out == "fail" && !cl.dl {
			w.failRel[ev.Q]++
		}
		if ev.Out == "local" || ev.Out == "nowrite" || (ev.Out == "fail" && cl.dl) {
			for _, o := range w.clients {
				if o != cl && o.other == cl.other && o.role != "done" {
					o.failSeen++
				}
			}
		}
		p.release <- ev.Out
	case "cancel", "expire":
		cl := vkDPick(w.byRole("follower", false), ev.Hi)
		if cl == nil {
			return "", "event " + ev.Kind + " not enabled on replay"
		}
		if ev.Kind == "expire" {
			cl.expired = true
			cl.ctx.expired = true
			if !cl.dl {
				// Err() = DeadlineExceeded is only ever published after the instant
				cl.dl, cl.expiredByExpire = true, true
				cl.ctx.pass()
			}
		} else {
			cl.canceled = true
		}
		cl.role = "run"
		cl.ctx.cancel()
		qi = 0
	}
	if herr := w.settle(); herr != "" {
		return "", herr
	}
	w.stub.mu.Lock()
	bad := w.stub.bad
	calls := append([]int{}, w.stub.calls...)
	w.stub.mu.Unlock()
	if bad != "" {
		return bad, ""
	}
	entered := calls[w.stubSeen:]
	w.stubSeen = len(calls)
	w.log = append(w.log, fmt.Sprintf("%s -> %s", ev, w.rolesStr()))
	// (e) dedup invariants on who may reach the stub in this step
	if released != nil && w.leader[qi] == released.idx {
		w.leader[qi] = -1
	}
	for _, c := range entered {
		if w.stubCallsOf(c) > 1 {
			return fmt.Sprintf("client %d reached the downstream handler twice", c), ""
		}
	}
	switch ev.Kind {
	case "dl":
		// nothing observes a deadline instant by itself: nobody runs, nobody is answered
		if len(entered) > 0 {
			return fmt.Sprintf("the passing of a deadline instant made clients %v enter the downstream handler", entered), ""
		}
	case "new", "other", "late":
		me := len(w.clients) - 1
		for _, c := range entered {
			if c != me {
				return fmt.Sprintf("arrival of client %d made client %d enter the downstream handler", me, c), ""
			}
		}
		if len(entered) == 1 {
			if w.leader[qi] >= 0 {
				return fmt.Sprintf("client %d went downstream although client %d is still resolving the same question as generation leader (no dedup)", me, w.leader[qi]), ""
			}
			w.leader[qi] = me
		}
	case "rel":
		if w.sc.Probe {
			if len(entered) > 1 {
				return fmt.Sprintf("after one failure-probe leader finished, %d followers went downstream at once (clients %v): more than one probe per generation", len(entered), entered), ""
			}
			if len(entered) == 1 {
				if w.leader[qi] >= 0 {
					return fmt.Sprintf("client %d became a second concurrent failure probe next to client %d", entered[0], w.leader[qi]), ""
				}
				if fs := w.clients[entered[0]].failSeen; fs >= 2 {
					return fmt.Sprintf("client %d waited through %d request-local probe failures and still went downstream as another probe (regroup limit is one: the remaining cohort must be shed locally)", entered[0], fs), ""
				}
				w.leader[qi] = entered[0]
			}
		} else if w.leader[qi] >= 0 && len(entered) > 0 {
			return fmt.Sprintf("clients %v went downstream while generation leader %d is still resolving", entered, w.leader[qi]), ""
		}
	case "cancel", "expire":
		if len(entered) > 0 {
			return fmt.Sprintf("cancelling a follower made clients %v enter the downstream handler", entered), ""
		}
	}
	// (a) never two replies
	for _, cl := range w.clients {
		cl.tr.mu.Lock()
		n := len(cl.tr.replies)
		cl.tr.mu.Unlock()
		if n > 1 {
			return fmt.Sprintf("client %d received %d replies", cl.idx, n), ""
		}
	}
	return "", ""
}

func (w *vkDWorld) rolesStr() string {
	var s []string
	for _, cl := range w.clients {
		r := cl.role
		if r == "done" {
			r = "done:" + w.replyKind(cl)
		} else if cl.dl {
			r += "+dl"
		}
		if cl.other {
			r = "o/" + r
		}
		s = append(s, r)
	}
	return strings.Join(s, " ")
}

// replyKind classifies what a finished client received.
func (w *vkDWorld) replyKind(cl *vkDClient) string {
	cl.tr.mu.Lock()
	defer cl.tr.mu.Unlock()
	if len(cl.tr.replies) == 0 {
		return "none"
	}
	m := cl.tr.replies[0]
	if m.Rcode == dns.RcodeSuccess && len(m.Answer) > 0 {
		return "answer"
	}
	if m.Rcode == dns.RcodeServerFailure {
		if opt := m.IsEdns0(); opt != nil {
			for _, o := range opt.Option {
				if ede, ok := o.(*dns.EDNS0_EDE); ok {
					switch {
					case ede.InfoCode == dns.ExtendedErrorCodeCachedError:
						return "servfail-cached"
					case ede.ExtraText == failureProbeLimitEDEText:
						return "servfail-probelimit"
					case ede.ExtraText == "Query timeout exceeded":
						return "servfail-timeout"
					}
				}
			}
		}
		return "servfail"
	}
	return "rcode" + strconv.Itoa(m.Rcode)
}

// abstract is the symmetric state digest (multiset of roles per question).
func (w *vkDWorld) abstract() string {
	var s []string
	for _, cl := range w.clients {
		r := cl.role
		if r == "done" {
			r += ":" + w.replyKind(cl)
		} else if cl.dl {
			r += "+dl"
		}
		if cl.other {
			r = "o/" + r
		}
		s = append(s, r)
	}
	sort.Strings(s)
	return strings.Join(s, ",") + fmt.Sprintf("|stub=%d|fail=%d", w.stubSeen, w.c.failure.Len())
}

// drain releases every parked leader until nothing is parked in the stub,
// then judges the final state.
func (w *vkDWorld) drain() (string, string) {
	for round := 0; round < 32; round++ {
		var cl *vkDClient
		for _, c := range w.clients {
			if c.role == "stub" {
				cl = c
				break
			}
		}
		if cl == nil {
			break
		}
		q := 0
		if cl.other {
			q = 1
		}
		out := "local"
		if round%2 == 1 {
			out = "ans"
		}
		if v, h := w.apply(vkDEv{Kind: "rel", Q: q, Out: out}, 1000+round); v != "" || h != "" {
			return v, h
		}
	}
	for _, cl := range w.clients {
		switch cl.role {
		case "stub":
			return "", "drain did not empty the stub in 32 rounds"
		case "follower":
			return fmt.Sprintf("client %d is still parked waiting for a leader although no request is being resolved any more (wedged follower) [%s]", cl.idx, strings.Join(w.log, "; ")), ""
		}
	}
	for _, cl := range w.clients {
		cl.tr.mu.Lock()
		reps := append([]*dns.Msg{}, cl.tr.replies...)
		cl.tr.mu.Unlock()
		kind := w.replyKind(cl)
		hist := strings.Join(w.log, "; ")
		switch {
		case len(reps) > 1:
			return fmt.Sprintf("client %d received %d replies [%s]", cl.idx, len(reps), hist), ""
		case len(reps) == 0:
			if !cl.canceled && cl.stubOut != "nowrite" {
				if cl.dl && !cl.expired {
					return fmt.Sprintf("client %d received no reply at all: its deadline instant had passed (Err() not yet published, Done() open, never cancelled) and it was dropped unwritten instead of being answered SERVFAIL \"Query timeout exceeded\" (downstream outcome %q) [%s]", cl.idx, cl.stubOut, hist), ""
				}
				return fmt.Sprintf("client %d received no reply (own context not cancelled, downstream outcome %q) [%s]", cl.idx, cl.stubOut, hist), ""
			}
			continue
		}
		m := reps[0]
		if m.Id != uint16(vkDIDBase+cl.idx) || len(m.Question) != 1 || m.Question[0] != cl.q.question() || !m.Response {
			return fmt.Sprintf("client %d received a reply that is not for its query: %s [%s]", cl.idx, vkMsgStr(m), hist), ""
		}
		qi := 0
		if cl.other {
			qi = 1
		}
		if cl.stubOut == "" && m.Rcode == dns.RcodeServerFailure {
			legal := false
			switch kind {
			case "servfail-timeout":
				legal = cl.expired || cl.dl
			case "servfail-cached":
				legal = w.failRel[qi] > 0
			case "servfail-probelimit":
				legal = w.sc.Probe && cl.failSeen >= 2
			default:
				// no EDE (the wire-born replies carry no OPT without the edns
				// layer): any of the three legal causes is accepted
				legal = cl.expired || w.failRel[qi] > 0 || (w.sc.Probe && cl.failSeen >= 2)
			}
			if !legal {
				return fmt.Sprintf("client %d was failed (%s) without resolving anything itself and without a cacheable upstream failure, own deadline or exhausted probe budget (saw %d request-local leader failures) [%s]",
					cl.idx, kind, cl.failSeen, hist), ""
			}
		}
		if cl.stubOut == "ans" && kind != "answer" {
			return fmt.Sprintf("client %d resolved its question successfully downstream but received %s [%s]", cl.idx, kind, hist), ""
		}
		if kind == "servfail-timeout" && !cl.expired && !cl.dl {
			return fmt.Sprintf("client %d was told its query timed out although only another client's deadline passed [%s]", cl.idx, hist), ""
		}
	}
	return "", ""
}

// vkDRun replays one event sequence on a fresh world.
type vkDResult struct {
	viol, herr string
	enabled    []vkDEv
	state      string
	final      string
	nClients   int
	nontrivial bool
	steps      int
}

func vkDRun(sc vkDScenario, seq []vkDEv, maxSame int) vkDResult {
	w := vkDNewWorld(sc)
	defer w.c.Stop()
	var res vkDResult
	for i, ev := range seq {
		v, h := w.apply(ev, i)
		res.steps++
		if v != "" || h != "" {
			if v != "" {
				v += " [" + strings.Join(w.log, "; ") + "]"
			}
			res.viol, res.herr = v, h
			w.abandon()
			return res
		}
	}
	res.enabled = w.enabled(maxSame)
	res.state = w.abstract()
	res.nClients = len(w.clients)
	res.nontrivial = len(w.byRole("follower", false)) > 0
	res.viol, res.herr = w.drain()
	res.final = w.abstract()
	w.abandon()
	return res
}

// abandon unblocks whatever is still parked so goroutines do not pile up.
func (w *vkDWorld) abandon() {
	for _, cl := range w.clients {
		cl.ctx.cancel()
	}
	w.stub.mu.Lock()
	for _, p := range w.stub.parked {
		select {
		case p.release <- "nowrite":
		default:
		}
	}
	w.stub.parked = map[int]*vkDPark{}
	w.stub.mu.Unlock()
}

func vkDSeqStr(seq []vkDEv) string {
	s := make([]string, len(seq))
	for i, e := range seq {
		s[i] = e.String()
	}
	return strings.Join(s, " ")
}

func TestVerifC11Dedup(t *testing.T) {
	c := vkit.Init("C11/dedup")
	defer c.Close()
	type replay struct {
		Scenario vkDScenario `json:"scenario"`
		Seq      []vkDEv     `json:"seq"`
		MaxSame  int         `json:"max_same"`
	}
	if c.Replay != nil {
		var rp replay
		if err := json.Unmarshal(c.Replay, &rp); err != nil {
			c.HarnessError("bad replay: " + err.Error())
			return
		}
		r := vkDRun(rp.Scenario, rp.Seq, rp.MaxSame)
		if r.herr != "" {
			c.HarnessError(r.herr)
		} else if r.viol != "" {
			c.Violation("dedup:"+rp.Scenario.String()+":"+vkDSeqStr(rp.Seq), r.viol, nil)
		}
		return
	}
	maxDepth, maxSame := 6, 3
	if c.Thorough() {
		maxDepth, maxSame = 8, 4
		vkDDLMax = 3
	}
	if n, err := strconv.Atoi(os.Getenv("VERIF_C11_DEDUP_DLMAX")); err == nil && n > 0 {
		vkDDLMax = n
	}
	if !vkDDLOn {
		c.Note("dl / late events switched off (VERIF_C11_DEDUP_DL=0)")
	}
	scs := []vkDScenario{{Probe: true, Route: "msg"}, {Probe: false, Route: "msg"}, {Probe: true, Route: "wire"}, {Probe: false, Route: "wire"}}
	subtree := 0
	stop := false
	var rec func(sc vkDScenario, seq []vkDEv)
	rec = func(sc vkDScenario, seq []vkDEv) {
		if stop {
			return
		}
		owned := true
		const shardDepth = 3
		if len(seq) < shardDepth {
			owned = c.Shard() == 0
		} else if len(seq) == shardDepth {
			mine := c.Mine(subtree)
			subtree++
			if !mine {
				return
			}
		}
		if c.OverBudget() {
			c.Cap("time budget reached")
			stop = true
			return
		}
		r := vkDRun(sc, seq, maxSame)
		if r.herr != "" {
			c.HarnessError(fmt.Sprintf("%s [%s]: %s", sc, vkDSeqStr(seq), r.herr))
			stop = true
			return
		}
		c.Max("max_goroutines", int64(runtime.NumGoroutine()))
		if owned {
			c.Add("evaluations", 1)
			c.Add("traces", 1)
			c.Add("transitions", int64(r.steps))
			c.DistinctStr("states", sc.String()+"|"+r.state)
			if r.nontrivial {
				c.DistinctStr("nontrivial", sc.String()+"|"+r.state)
			}
			c.Outcome(r.final)
			if len(seq) == maxDepth-1 && subtree%7 == 0 {
				c.Sample(map[string]any{"scenario": sc.String(), "events": vkDSeqStr(seq), "state": r.state, "after_drain": r.final})
			}
			if r.viol != "" {
				r2 := vkDRun(sc, seq, maxSame)
				if r2.viol == "" {
					c.HarnessError(fmt.Sprintf("%s [%s]: violation did not reproduce: %s", sc, vkDSeqStr(seq), r.viol))
					stop = true
					return
				}
				c.Violation("dedup:"+sc.String()+":"+vkDSeqStr(seq), r.viol, replay{Scenario: sc, Seq: seq, MaxSame: maxSame})
			}
		}
		if r.viol != "" || len(seq) >= maxDepth {
			return
		}
		for _, ev := range r.enabled {
			rec(sc, append(append([]vkDEv{}, seq...), ev))
		}
	}
	for _, sc := range scs {
		rec(sc, nil)
	}
}

var _ = config.Config{}
