//go:build verif

package cache

// C04 (late refresh): every order of {admit, clock advance, hit that claims a
// prefetch, client-path write of newer data (withdrawal NXDOMAIN / purge +
// re-admission), completion of the queued refresh with a stale positive answer
// or an NXDOMAIN}. The prefetch queue is built WITHOUT workers: the harness
// owns the moment each queued refresh completes and calls the real
// PrefetchQueue.processPrefetch with a scripted prefetch queryer.

import (
	"context"
	"encoding/json"
	"fmt"
	"strings"
	"testing"
	"time"

	"github.com/miekg/dns"
	"github.com/semihalev/sdns/internal/verifshim/vkit"
	"github.com/semihalev/sdns/internal/verifshim/vtime"
)

type vkPFQueryer struct {
	answer func(req *dns.Msg) *dns.Msg
	calls  int
}

func (q *vkPFQueryer) Query(_ context.Context, req *dns.Msg) (*dns.Msg, error) {
	q.calls++
	return q.answer(req), nil
}

type vkPFWorld struct {
	*vkC04World
	pfq     *vkPFQueryer
	gen     int   // generation of the data currently stored for p (0 = nothing)
	genKind string // "pos:<marker>" or "nx"
	claims  []int // generation each queued refresh was claimed against
}

func vkNewPFWorld() *vkPFWorld {
	w := &vkPFWorld{vkC04World: vkNewC04World(true), pfq: &vkPFQueryer{}}
	ctx, cancel := context.WithCancel(context.Background())
	w.c.config.Prefetch = 50
	w.c.prefetchQueue = &PrefetchQueue{items: make(chan PrefetchRequest, 64), ctx: ctx, cancel: cancel, metrics: w.c.metrics}
	w.c.SetPrefetchQueryer(w.pfq)
	return w
}

var vkPFEvents = []string{"p", "adv16", "adv6", "withdraw-nx", "readmit", "pf-done-pos", "pf-done-nx", "pf-done-pos2"}

func (w *vkPFWorld) key() uint64 {
	return CacheKey{Question: dns.Question{Name: vkPName, Qtype: dns.TypeA, Qclass: dns.ClassINET}}.Hash()
}

// observe asks for p on a route and returns what the cache currently serves: "pos:<marker>", "nx", "fresh" or "none".
func (w *vkPFWorld) observe(route vkRoute) string {
	before := len(w.c.prefetchQueue.items)
	r := w.ask(route, vkQ{Name: vkPName, Type: dns.TypeA, Class: dns.ClassINET}, 9)
	for i := before; i < len(w.c.prefetchQueue.items); i++ {
		w.claims = append(w.claims, w.gen)
	}
	if r.stubCalls > 0 {
		return "fresh"
	}
	if r.msg == nil {
		return "none"
	}
	if r.msg.Rcode == dns.RcodeNameError {
		return "nx"
	}
	if ids := vkMarkersIn(r.msg); len(ids) > 0 {
		return fmt.Sprintf("pos:%d", ids[0])
	}
	return "other"
}

func (w *vkPFWorld) apply(ev string) (string, string) {
	switch ev {
	case "p":
		w.cur = vkC04Ev{Kind: "p", TTL: 30}
		got := w.observe(vkRouteMsg)
		if got == "fresh" {
			w.gen++
			w.genKind = fmt.Sprintf("pos:%d", w.issued[vkPName])
			return "", "admit"
		}
		if w.gen > 0 && got != w.genKind && got != "none" {
			return fmt.Sprintf("cache serves %q for p but the newest stored data is %q (generation %d): a superseded refresh overwrote newer data", got, w.genKind, w.gen), "violation"
		}
		return "", "hit:" + got
	case "adv16":
		vtime.Advance(16 * time.Second)
		return "", "adv"
	case "adv6":
		vtime.Advance(6 * time.Second)
		return "", "adv"
	case "withdraw-nx":
		// the client path stores newer data for the key: the parent withdrew the name
		nx := new(dns.Msg)
		nx.SetReply(vkQ{Name: vkPName, Type: dns.TypeA, Class: dns.ClassINET}.msg(0))
		nx.Rcode = dns.RcodeNameError
		nx.Ns = []dns.RR{&dns.SOA{Hdr: dns.RR_Header{Name: "t.", Rrtype: dns.TypeSOA, Class: dns.ClassINET, Ttl: 60}, Ns: "ns.t.", Mbox: "h.t.", Minttl: 60}}
		w.c.store.SetFromResponseWithKey(w.key(), nx, time.Time{}, 0)
		w.gen++
		w.genKind = "nx"
		return "", "withdrawn"
	case "readmit":
		w.c.Purge(dns.Question{Name: vkPName, Qtype: dns.TypeA, Qclass: dns.ClassINET})
		w.gen++
		w.genKind = "purged"
		return w.apply("p")
	case "pf-done-pos", "pf-done-pos2", "pf-done-nx":
		select {
		case req := <-w.c.prefetchQueue.items:
			claimed := w.claims[0]
			w.claims = w.claims[1:]
			marker := 500 + w.pfq.calls
			w.pfq.answer = func(q *dns.Msg) *dns.Msg {
				if ev == "pf-done-nx" {
					nx := new(dns.Msg)
					nx.SetReply(q)
					nx.Rcode = dns.RcodeNameError
					nx.Ns = []dns.RR{&dns.SOA{Hdr: dns.RR_Header{Name: "t.", Rrtype: dns.TypeSOA, Class: dns.ClassINET, Ttl: 60}, Ns: "ns.t.", Mbox: "h.t.", Minttl: 60}}
					return nx
				}
				a := vkAnswer(vkQ{Name: vkPName, Type: dns.TypeA, Class: dns.ClassINET}, marker, 30)
				return a
			}
			w.c.prefetchQueue.processPrefetch(req)
			if claimed == w.gen && w.genKind != "purged" && !strings.HasPrefix(w.genKind, "expired") {
				// may replace (if the claimed entry is still the live one)
				if e, ok := w.c.store.positive.cache.Get(w.key()); ok && e.(*CacheEntry) != req.Entry {
					w.gen++
					if ev == "pf-done-nx" {
						w.genKind = "nx"
					} else {
						w.genKind = fmt.Sprintf("pos:%d", marker)
					}
					return "", "refreshed"
				}
				return "", "refresh-dropped"
			}
			// superseded: whatever is stored now must still be the newer generation
			got := "none"
			if v, ok := w.c.store.positive.cache.Get(w.key()); ok {
				e := v.(*CacheEntry)
				if m := e.storedMsg(); m != nil {
					if m.Rcode == dns.RcodeNameError {
						got = "nx"
					} else if ids := vkMarkersIn(m); len(ids) > 0 {
						got = fmt.Sprintf("pos:%d", ids[0])
					}
				}
				if e.remaining(vtime.Now()) <= 0 {
					got = "none"
				}
			}
			want := w.genKind
			if want == "purged" {
				want = "none"
			}
			if got != want && got != "none" {
				return fmt.Sprintf("a refresh claimed against generation %d completed at generation %d and the key now holds %q instead of the newer %q", claimed, w.gen, got, want), "violation"
			}
			return "", "late-refresh-dropped"
		default:
			return "", "pf-none-queued"
		}
	}
	return "harness: unknown event", "harness"
}

func vkPFReplay(h []string) (string, *vkPFWorld, []string) {
	w := vkNewPFWorld()
	var outs []string
	for i, ev := range h {
		v, o := w.apply(ev)
		outs = append(outs, o)
		if v != "" {
			return fmt.Sprintf("step %d %s: %s", i, ev, v), w, outs
		}
	}
	// final read-back on every route
	for _, route := range []vkRoute{vkRouteMsg, vkRouteMsgBytes, vkRouteWire} {
		if w.gen == 0 || w.genKind == "purged" {
			break
		}
		got := w.observe(route)
		if got == "fresh" || got == "none" {
			break
		}
		if got != w.genKind {
			return fmt.Sprintf("final read on %s: cache serves %q but the newest stored data is %q", route, got, w.genKind), w, outs
		}
	}
	return "", w, outs
}

func TestVerifC04Prefetch(t *testing.T) {
	c := vkit.Init("C04/prefetch")
	defer c.Close()
	if c.Replay != nil {
		var r struct {
			Hist []string `json:"hist"`
		}
		if err := json.Unmarshal(c.Replay, &r); err != nil {
			c.HarnessError("bad replay")
			return
		}
		v, w, _ := vkPFReplay(r.Hist)
		w.stop()
		if v != "" {
			c.Violation("prefetch:"+strings.Join(r.Hist, " "), v, r)
		}
		return
	}
	maxDepth := 6
	if c.Thorough() {
		maxDepth = 8
	}
	// exhaustive DFS over all event sequences up to maxDepth (no pruning: sequences are cheap)
	var rec func(h []string, idx *int)
	count := 0
	rec = func(h []string, idx *int) {
		if len(h) > 0 {
			if len(h) >= 2 || c.Of() == 1 {
				// shard on the first two events
			}
			viol, w, outs := vkPFReplay(h)
			w.stop()
			count++
			c.Add("evaluations", 1)
			c.Add("transitions", int64(len(h)))
			c.Add("traces", 1)
			sig := strings.Join(outs, ",")
			c.DistinctStr("states", sig)
			if strings.Contains(sig, "late-refresh-dropped") || strings.Contains(sig, "refreshed") {
				c.DistinctStr("nontrivial", sig)
			}
			c.Outcome(outs[len(outs)-1])
			if count%5000 == 1 {
				c.Sample(map[string]any{"hist": strings.Join(h, " "), "outcomes": sig})
			}
			if viol != "" {
				v2, w2, _ := vkPFReplay(h)
				w2.stop()
				if v2 == "" {
					c.HarnessError("prefetch violation did not reproduce: " + strings.Join(h, " "))
					return
				}
				c.Violation("prefetch:late-refresh-overwrites-newer", "after ["+strings.Join(h, " ")+"]: "+viol, map[string]any{"hist": h})
				return
			}
			// prune sequences whose last event was a no-op (no queued refresh) — nothing new follows
			if outs[len(outs)-1] == "pf-none-queued" {
				return
			}
		}
		if len(h) == maxDepth || c.NumViolations() > 3 {
			return
		}
		for i, ev := range vkPFEvents {
			if len(h) == 1 {
				*idx++
				if !c.Mine(*idx) {
					continue
				}
			}
			_ = i
			if c.OverBudget() {
				c.Cap("time budget")
				return
			}
			rec(append(append([]string{}, h...), ev), idx)
		}
	}
	idx := 0
	// depth-1 prefixes are run by every shard (cheap), depth-2 subtrees are partitioned
	rec(nil, &idx)
}
