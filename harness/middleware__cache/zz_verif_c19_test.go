//go:build verif

package cache

// C19 — client subnet data is neither leaked upstream nor across audiences.
//
// Unit "forward": exhaustive product policy x client address x client-sent
// subnet option (family, every netmask, host bits, mismatches) x other client
// options x route through the real edns -> cache -> stub chain; the stub is
// the upstream and records the OPT it is handed; the client's reply is checked.
// Unit "scoped": every sequence of <= 3 clients (different subnets, CD, with /
// without ECS) asking one name against authorities that declare scopes 0..33.

import (
	"context"
	"encoding/json"
	"fmt"
	"net"
	"net/netip"
	"strings"
	"testing"
	"time"

	"github.com/miekg/dns"
	"github.com/semihalev/sdns/config"
	"github.com/semihalev/sdns/internal/mock"
	"github.com/semihalev/sdns/internal/verifshim/vkit"
	"github.com/semihalev/sdns/middleware"
	"github.com/semihalev/sdns/middleware/edns"
)

type vkECSPolicy struct {
	Enabled bool     `json:"enabled"`
	V4      uint8    `json:"v4"`
	V6      uint8    `json:"v6"`
	Min4    uint8    `json:"min4"`
	Min6    uint8    `json:"min6"`
	Nets    []string `json:"nets"`
	CapTTL  int      `json:"cap_ttl"`
}

func (p vkECSPolicy) String() string {
	return fmt.Sprintf("en=%v v4=%d v6=%d min=%d/%d nets=%v cap=%d", p.Enabled, p.V4, p.V6, p.Min4, p.Min6, p.Nets, p.CapTTL)
}

// reference reading of the policy (independent of internal/ecs)
func (p vkECSPolicy) valid() bool {
	if !p.Enabled {
		return false
	}
	if p.V4 > 32 || p.V6 > 128 || p.Min4 > 32 || p.Min6 > 128 {
		return false
	}
	for _, n := range p.Nets {
		if _, err := netip.ParsePrefix(n); err != nil {
			return false
		}
	}
	return true
}

func (p vkECSPolicy) ceiling(v4 bool) int {
	if v4 {
		if p.V4 == 0 {
			return 24
		}
		return int(p.V4)
	}
	if p.V6 == 0 {
		return 56
	}
	return int(p.V6)
}

func (p vkECSPolicy) floor(v4 bool) int {
	if v4 {
		if p.Min4 == 0 {
			return p.ceiling(true)
		}
		return int(p.Min4)
	}
	if p.Min6 == 0 {
		return p.ceiling(false)
	}
	return int(p.Min6)
}

func (p vkECSPolicy) allows(client netip.Addr) bool {
	if !p.valid() {
		return false
	}
	client = client.Unmap()
	if len(p.Nets) == 0 {
		return true
	}
	for _, n := range p.Nets {
		if netip.MustParsePrefix(n).Contains(client) {
			return true
		}
	}
	return false
}

type vkECSWorld struct {
	*vkWorld
	e       *edns.EDNS
	hs3     []middleware.Handler
	pol     vkECSPolicy
	respond func(req *dns.Msg) *dns.Msg
}

func vkNewECSWorld(p vkECSPolicy) *vkECSWorld {
	var cfgCopy *config.Config
	w := &vkECSWorld{pol: p}
	w.vkWorld = vkNewWorld(func(cfg *config.Config) {
		cfg.ECS.Enabled = p.Enabled
		cfg.ECS.ForwardV4Max, cfg.ECS.ForwardV6Max = p.V4, p.V6
		cfg.ECS.MinScopeV4, cfg.ECS.MinScopeV6 = p.Min4, p.Min6
		cfg.ECS.ClientNetworks = p.Nets
		cfg.ECS.CacheLimitTTL.Duration = time.Duration(p.CapTTL) * time.Second
		cfg.CookieSecret = "6c6f6f6b61686172646c6f6f6b6168617264"
		cfg.NSID = "vk"
		cfgCopy = cfg
	})
	w.e = edns.New(cfgCopy)
	w.hs3 = []middleware.Handler{w.e, w.c, w.stub}
	w.c.SetQueryer(middleware.NewPipelineQueryer(middleware.VerifNewPipeline([]middleware.Handler{w.e, w.c, w.stub}, middleware.RecursionWorkPolicy{})))
	w.stub.answer = func(_ context.Context, req *dns.Msg) *dns.Msg {
		if w.respond != nil {
			return w.respond(req)
		}
		q := req.Question[0]
		m := vkAnswer(vkQ{Name: q.Name, Type: q.Qtype, Class: q.Qclass, CD: req.CheckingDisabled}, vkFresh, 60)
		m.Truncated = true
		return m
	}
	return w
}

// vkECSOpt is a client-sent subnet option.
type vkECSOpt struct {
	Family  uint16 `json:"family"`
	Netmask uint8  `json:"netmask"`
	Addr    string `json:"addr"`
}

type vkECSCase struct {
	Policy vkECSPolicy `json:"policy"`
	Client string      `json:"client"`
	Opt    *vkECSOpt   `json:"opt,omitempty"`
	Extra  string      `json:"extra,omitempty"` // other client options: "", "cookie", "nsid", "padding", "keepalive", "unknown", "all"
	Route  string      `json:"route"`
	CD     bool        `json:"cd,omitempty"`
	Ver    uint8       `json:"ver,omitempty"`
}

func (c vkECSCase) key() string {
	o := "none"
	if c.Opt != nil {
		o = fmt.Sprintf("fam%d/%d@%s", c.Opt.Family, c.Opt.Netmask, c.Opt.Addr)
	}
	return fmt.Sprintf("%v|%s|%s|extra=%s|%s|cd=%v|ver=%d", c.Policy, c.Client, o, c.Extra, c.Route, c.CD, c.Ver)
}

func vkECSRequest(cs vkECSCase, name string, id uint16) *dns.Msg {
	m := new(dns.Msg)
	m.Id = id
	m.RecursionDesired = true
	m.CheckingDisabled = cs.CD
	m.Question = []dns.Question{{Name: name, Qtype: dns.TypeA, Qclass: dns.ClassINET}}
	if cs.Opt == nil && cs.Extra == "" && cs.Ver == 0 {
		return m
	}
	opt := &dns.OPT{Hdr: dns.RR_Header{Name: ".", Rrtype: dns.TypeOPT}}
	opt.SetUDPSize(1232)
	opt.SetVersion(cs.Ver)
	if cs.Opt != nil {
		opt.Option = append(opt.Option, &dns.EDNS0_SUBNET{Code: dns.EDNS0SUBNET, Family: cs.Opt.Family, SourceNetmask: cs.Opt.Netmask, Address: net.ParseIP(cs.Opt.Addr)})
	}
	add := func(k string) {
		switch k {
		case "cookie":
			opt.Option = append(opt.Option, &dns.EDNS0_COOKIE{Code: dns.EDNS0COOKIE, Cookie: "0123456789abcdef"})
		case "nsid":
			opt.Option = append(opt.Option, &dns.EDNS0_NSID{Code: dns.EDNS0NSID})
		case "padding":
			opt.Option = append(opt.Option, &dns.EDNS0_PADDING{Padding: []byte{1, 2, 3, 4}})
		case "keepalive":
			opt.Option = append(opt.Option, &dns.EDNS0_TCP_KEEPALIVE{Code: dns.EDNS0TCPKEEPALIVE})
		case "unknown":
			opt.Option = append(opt.Option, &dns.EDNS0_LOCAL{Code: 65001, Data: []byte("secret-client-token")})
		}
	}
	if cs.Extra == "all" || cs.Extra == "twoopt" || cs.Extra == "twoopt-rev" || cs.Extra == "strayopt-ns" || cs.Extra == "strayopt-an" {
		for _, k := range []string{"cookie", "nsid", "padding", "keepalive", "unknown"} {
			add(k)
		}
	} else if cs.Extra != "" {
		add(cs.Extra)
	}
	m.Extra = []dns.RR{opt}
	// a query carrying TWO OPT records: the option-laden one first / last, an empty one beside it
	// (code that looks at "the" OPT of a message sees only one of them)
	empty := &dns.OPT{Hdr: dns.RR_Header{Name: ".", Rrtype: dns.TypeOPT}}
	empty.SetUDPSize(1232)
	switch cs.Extra {
	case "twoopt":
		m.Extra = []dns.RR{opt, empty}
	case "twoopt-rev":
		m.Extra = []dns.RR{empty, opt}
	case "strayopt-ns":
		// the option-laden OPT sits in the AUTHORITY section of the query, a plain one in the additional section
		m.Ns, m.Extra = []dns.RR{opt}, []dns.RR{empty}
	case "strayopt-an":
		m.Answer, m.Extra = []dns.RR{opt}, []dns.RR{empty}
	}
	return m
}

// ask3 runs a request through edns->cache->stub.
func (w *vkECSWorld) ask3(route string, req *dns.Msg, client string) (vkReply, bool) {
	before := w.stub.calls
	w.stub.last = nil
	wr := mock.NewWriter("udp", client)
	ch := middleware.NewChain(w.hs3)
	switch route {
	case "msg":
		ch.Reset(wr, req.Copy())
	case "wire":
		raw, err := req.Pack()
		if err != nil {
			return vkReply{}, false
		}
		r := new(middleware.Request)
		if !r.ParseWire(raw, time.Now(), nil) {
			m := new(dns.Msg)
			if m.Unpack(raw) != nil {
				return vkReply{}, false
			}
			ch.Reset(wr, m)
		} else {
			ch.ResetWire(wr, r)
		}
		ch.AllowDirectPack()
	}
	ch.Next(context.Background())
	ch.Finish()
	return vkReply{msg: wr.Msg(), written: wr.Written(), stubCalls: w.stub.calls - before}, true
}

func vkOptOf(m *dns.Msg) *dns.OPT {
	if m == nil {
		return nil
	}
	return m.IsEdns0()
}

// vkCheckUpstream judges the OPT the upstream (stub) was handed.
func vkCheckUpstream(cs vkECSCase, up *dns.Msg) string {
	clientAddr := netip.MustParseAddrPort(cs.Client).Addr()
	allowed := cs.Policy.allows(clientAddr)
	var ecsSeen []*dns.EDNS0_SUBNET
	// EVERY OPT record of the upstream query counts (what goes on the wire is the whole additional section)
	var upRRs []dns.RR // an OPT is an OPT wherever it sits in the upstream query
	upRRs = append(append(append(upRRs, up.Answer...), up.Ns...), up.Extra...)
	for _, rr := range upRRs {
		opt, isOpt := rr.(*dns.OPT)
		if !isOpt {
			continue
		}
		for _, o := range opt.Option {
			switch v := o.(type) {
			case *dns.EDNS0_SUBNET:
				ecsSeen = append(ecsSeen, v)
			default:
				if !(allowed && cs.Opt != nil) {
					return fmt.Sprintf("client-supplied EDNS option %s (code %d) reached the upstream query", o.String(), o.Option())
				}
				// (when ECS is being forwarded the statement only constrains the subnet option; sdns strips the rest too)
				return fmt.Sprintf("client-supplied EDNS option %s (code %d) reached the upstream query alongside forwarded ECS", o.String(), o.Option())
			}
		}
	}
	if len(ecsSeen) == 0 {
		return ""
	}
	if !allowed {
		return fmt.Sprintf("client subnet %s forwarded upstream although forwarding is not permitted (policy valid=%v, client allowed=%v)", ecsSeen[0].String(), cs.Policy.valid(), allowed)
	}
	if cs.Opt == nil {
		return "a subnet option was sent upstream although the client supplied none: " + ecsSeen[0].String()
	}
	if len(ecsSeen) > 1 {
		return "more than one subnet option sent upstream"
	}
	e := ecsSeen[0]
	ip, ok := netip.AddrFromSlice(e.Address)
	if !ok {
		return "forwarded subnet option has no usable address"
	}
	ip = ip.Unmap()
	v4 := e.Family == 1
	if (v4 && !ip.Is4()) || (e.Family == 2 && !ip.Is6()) || (e.Family != 1 && e.Family != 2) {
		return fmt.Sprintf("forwarded subnet option has inconsistent family %d / address %s", e.Family, ip)
	}
	if int(e.SourceNetmask) > cs.Policy.ceiling(v4) {
		return fmt.Sprintf("forwarded source prefix /%d exceeds the configured ceiling /%d", e.SourceNetmask, cs.Policy.ceiling(v4))
	}
	pfx, err := ip.Prefix(int(e.SourceNetmask))
	if err != nil || pfx.Addr() != ip {
		return fmt.Sprintf("forwarded subnet %s/%d has host bits set", ip, e.SourceNetmask)
	}
	if e.SourceScope != 0 {
		return fmt.Sprintf("forwarded subnet carries scope %d in a query", e.SourceScope)
	}
	return ""
}

func vkCheckClientReply(m *dns.Msg) string {
	if opt := vkOptOf(m); opt != nil {
		for _, o := range opt.Option {
			if _, ok := o.(*dns.EDNS0_SUBNET); ok {
				return "an ECS option was returned to the client: " + vkMsgStr(m)
			}
		}
	}
	return ""
}

func vkECSPolicies(thorough bool) []vkECSPolicy {
	var out []vkECSPolicy
	out = append(out, vkECSPolicy{Enabled: false})
	v4s := []uint8{0, 16, 24, 32, 33}
	v6s := []uint8{0, 64, 129}
	nets := [][]string{nil, {"10.0.0.0/8"}, {"10.0.0.0/8", "not-a-cidr"}}
	for _, v4 := range v4s {
		for _, v6 := range v6s {
			for _, n := range nets {
				if !thorough && v6 != 0 && v4 != 24 {
					continue
				}
				out = append(out, vkECSPolicy{Enabled: true, V4: v4, V6: v6, Nets: n})
			}
		}
	}
	out = append(out, vkECSPolicy{Enabled: true, V4: 24, V6: 56, Min4: 20, Min6: 48}, vkECSPolicy{Enabled: true, V4: 24, Min4: 40})
	// unparsable client_networks entries of every shape: blank, whitespace, out-of-range prefix length,
	// padded with spaces, alone or next to a valid one — each makes the whole configuration invalid
	for _, n := range [][]string{{""}, {"  "}, {"10.0.0.0/8", ""}, {"", "10.0.0.0/8"}, {"10.0.0.0/33"}, {" 10.0.0.0/8"}, {"10.0.0.0/8 "}, {"10.0.0.0"}, {"::/129"}} {
		out = append(out, vkECSPolicy{Enabled: true, V4: 24, V6: 56, Nets: n})
	}
	return out
}

func vkECSOptions() []*vkECSOpt {
	out := []*vkECSOpt{nil}
	for nm := 0; nm <= 33; nm++ {
		out = append(out, &vkECSOpt{Family: 1, Netmask: uint8(nm), Addr: "10.1.2.255"})
	}
	for _, nm := range []int{0, 1, 55, 56, 57, 64, 127, 128, 129} {
		out = append(out, &vkECSOpt{Family: 2, Netmask: uint8(nm), Addr: "2001:db8:1:2:3:4:5:ffff"})
	}
	out = append(out,
		&vkECSOpt{Family: 0, Netmask: 24, Addr: "10.1.2.255"}, &vkECSOpt{Family: 3, Netmask: 24, Addr: "10.1.2.255"},
		&vkECSOpt{Family: 1, Netmask: 24, Addr: "2001:db8::1"}, &vkECSOpt{Family: 2, Netmask: 56, Addr: "10.1.2.3"},
		&vkECSOpt{Family: 1, Netmask: 24, Addr: "192.0.2.77"})
	return out
}

func TestVerifC19Forward(t *testing.T) {
	c := vkit.Init("C19/forward")
	defer c.Close()
	run := func(w *vkECSWorld, cs vkECSCase) (string, string) {
		req := vkECSRequest(cs, "fwd.t.", 77)
		r, ok := w.ask3(cs.Route, req, cs.Client)
		if !ok {
			return "", "unpackable"
		}
		if v := vkCheckClientReply(r.msg); v != "" {
			return v, "violation"
		}
		if r.stubCalls == 0 {
			if r.msg != nil {
				return "", "local:" + dns.RcodeToString[r.msg.Rcode]
			}
			return "", "dropped"
		}
		if v := vkCheckUpstream(cs, w.stub.last); v != "" {
			return v, "violation"
		}
		fw := "stripped"
		if opt := vkOptOf(w.stub.last); opt != nil {
			for _, o := range opt.Option {
				if e, ok := o.(*dns.EDNS0_SUBNET); ok {
					fw = fmt.Sprintf("forwarded/%d", e.SourceNetmask)
				}
			}
		}
		return "", fw
	}
	if c.Replay != nil {
		var cs vkECSCase
		if json.Unmarshal(c.Replay, &cs) != nil {
			c.HarnessError("bad replay")
			return
		}
		w := vkNewECSWorld(cs.Policy)
		defer w.stop()
		if v, _ := run(w, cs); v != "" {
			c.Violation("forward:"+cs.key(), v, cs)
		}
		return
	}
	clients := []string{"10.1.2.3:4000", "192.0.2.9:4000", "[2001:db8::9]:4000", "[::ffff:10.1.2.3]:4000"}
	extras := []string{"", "cookie", "all", "twoopt", "twoopt-rev", "strayopt-ns", "strayopt-an"}
	if c.Thorough() {
		extras = []string{"", "cookie", "nsid", "padding", "keepalive", "unknown", "all", "twoopt", "twoopt-rev", "strayopt-ns", "strayopt-an"}
	}
	i := 0
	for pi, p := range vkECSPolicies(c.Thorough()) {
		if !c.Mine(pi) {
			continue
		}
		w := vkNewECSWorld(p)
		for _, cl := range clients {
			for _, o := range vkECSOptions() {
				for _, ex := range extras {
					for _, route := range []string{"msg", "wire"} {
						for _, cd := range []bool{false, true} {
							for _, ver := range []uint8{0, 1} {
								if ver == 1 && (ex != "" || cd) {
									continue
								}
								cs := vkECSCase{Policy: p, Client: cl, Opt: o, Extra: ex, Route: route, CD: cd, Ver: ver}
								i++
								c.Add("evaluations", 1)
								v, outcome := run(w, cs)
								c.Outcome(fmt.Sprintf("valid=%v %s", p.valid(), strings.SplitN(outcome, "/", 2)[0]))
								if strings.HasPrefix(outcome, "forwarded") {
									c.DistinctStr("nontrivial", cs.key())
								}
								if i%9000 == 1 {
									c.Sample(map[string]any{"case": cs.key(), "outcome": outcome})
								}
								if v != "" {
									w2 := vkNewECSWorld(p)
									v2, _ := run(w2, cs)
									w2.stop()
									if v2 == "" {
										c.HarnessError("C19 forward violation did not reproduce: " + cs.key())
										return
									}
									c.Violation("forward:"+vkC19Class(v)+fmt.Sprintf("/ver%d/%s", cs.Ver, cs.Route), v+"  [case "+cs.key()+"]", cs)
								}
							}
						}
					}
				}
			}
		}
		w.stop()
	}
}

func vkC19Class(v string) string {
	for _, k := range []string{"reached the upstream query alongside", "reached the upstream query", "not permitted", "exceeds the configured ceiling", "host bits set",
		"returned to the client", "although the client supplied none", "inconsistent family", "more than one", "carries scope",
		"outside its scope", "outlives the scoped TTL cap", "queued for background refresh", "more specific than", "shared denial"} {
		if strings.Contains(v, k) {
			return k
		}
	}
	return "other"
}
