//go:build verif

package cache

// C03, further lookup routes: RFC 9520 failure lookups (exact + zone), RFC 8020
// subtree cuts, cache-contained alias chase, and purge. Same scheme: natural and
// forged-collision seeding, every (S, Q) pair, reference decides.

import (
	"encoding/json"
	"fmt"
	"net/netip"
	"strings"
	"testing"
	"time"

	"github.com/miekg/dns"
	internalcache "github.com/semihalev/sdns/internal/cache"
	"github.com/semihalev/sdns/internal/verifshim/vkit"
)

// vkAtOrBelow: name is at or below zone on whole labels (ASCII fold).
func vkAtOrBelow(name, zone string) bool {
	if zone == "." {
		return true
	}
	nl, zl := dns.SplitDomainName(name), dns.SplitDomainName(zone)
	if len(zl) > len(nl) {
		return false
	}
	off := len(nl) - len(zl)
	for i := range zl {
		if !vkFoldEq(nl[off+i], zl[i]) {
			return false
		}
	}
	return true
}

type vkC03RCase struct {
	Kind    string `json:"kind"` // failure-exact, failure-zone, cut, chase, purge
	Seeding string `json:"seeding"`
	Route   string `json:"route"`
	S       vkQ    `json:"s"`
	SScope  string `json:"s_scope,omitempty"`
	Zone    string `json:"zone,omitempty"`
	Q       vkQ    `json:"q"`
}

func (c vkC03RCase) key() string {
	return fmt.Sprintf("%s|%s|%s|S=%v scope=%q zone=%q|Q=%v", c.Kind, c.Seeding, c.Route, c.S, c.SScope, c.Zone, c.Q)
}

// vkCutProof builds an NXDOMAIN message the cut index admits: SOA + NSEC, both "signed" by zone.
func vkCutProof(denied, zone string, class uint16) *dns.Msg {
	m := new(dns.Msg)
	m.Response = true
	m.Rcode = dns.RcodeNameError
	m.AuthenticatedData = true
	m.Question = []dns.Question{{Name: denied, Qtype: dns.TypeA, Qclass: class}}
	exp := uint32(time.Now().Add(24 * time.Hour).Unix())
	inc := uint32(time.Now().Add(-time.Hour).Unix())
	sig := func(owner string, covered uint16) *dns.RRSIG {
		return &dns.RRSIG{Hdr: dns.RR_Header{Name: owner, Rrtype: dns.TypeRRSIG, Class: class, Ttl: 300}, TypeCovered: covered,
			Algorithm: 13, Labels: uint8(dns.CountLabel(owner)), OrigTtl: 300, Expiration: exp, Inception: inc, KeyTag: 1, SignerName: zone, Signature: "AAAA"}
	}
	soa := &dns.SOA{Hdr: dns.RR_Header{Name: zone, Rrtype: dns.TypeSOA, Class: class, Ttl: 300}, Ns: "ns." + zone, Mbox: "h." + zone, Serial: 1, Refresh: 1, Retry: 1, Expire: 1, Minttl: 300}
	nsec := &dns.NSEC{Hdr: dns.RR_Header{Name: zone, Rrtype: dns.TypeNSEC, Class: class, Ttl: 300}, NextDomain: "zz." + zone, TypeBitMap: []uint16{dns.TypeSOA, dns.TypeNSEC, dns.TypeRRSIG}}
	m.Ns = []dns.RR{soa, sig(zone, dns.TypeSOA), nsec, sig(zone, dns.TypeNSEC)}
	return m
}

func vkWireName(name string) []byte {
	buf := make([]byte, 300)
	n, err := dns.PackDomainName(name, buf, 0, nil, false)
	if err != nil {
		panic(err)
	}
	return buf[:n]
}

func vkC03RRunIn(w *vkWorld, cs vkC03RCase) (string, string) {
	now := time.Now()
	var cleanup []func()
	defer func() {
		for _, f := range cleanup {
			f()
		}
	}()
	allowed := false
	detect := func(r vkReply) bool { return false }
	var sscope netip.Prefix
	if cs.SScope != "" {
		sscope = netip.MustParsePrefix(cs.SScope)
	}
	switch cs.Kind {
	case "failure-exact":
		skey := normalizeFailureQuestionKey(FailureQuestionKey{Question: cs.S.question(), CD: cs.S.CD, Scope: sscope})
		ent := &failureEntry{kind: FailureKindQuestion, provenance: "response", streak: 1, retryAfter: now.Add(time.Minute), question: skey}
		var hash uint64
		if cs.Seeding == "natural" {
			hash = failureQuestionHash(skey)
		} else {
			var qscope netip.Prefix
			if cs.Q.ECS != "" {
				qscope = netip.MustParsePrefix(cs.Q.ECS)
			}
			hash = failureQuestionHash(normalizeFailureQuestionKey(FailureQuestionKey{Question: cs.Q.question(), CD: cs.Q.CD, Scope: qscope}))
		}
		w.c.failure.entries.Add(hash, ent)
		cleanup = append(cleanup, func() { w.c.failure.entries.Remove(hash) })
		allowed = vkEquivalent(cs.S, cs.Q) && cs.SScope == cs.Q.ECS
		detect = func(r vkReply) bool { return r.msg != nil && r.msg.Rcode == dns.RcodeServerFailure && r.stubCalls == 0 }
	case "failure-zone":
		zkey := normalizeFailureZoneKey(FailureZoneKey{Zone: cs.Zone, Qclass: cs.S.Class})
		ent := &failureEntry{kind: FailureKindZone, provenance: "authority", streak: 1, retryAfter: now.Add(time.Minute), zone: zkey}
		if cs.Seeding == "natural" {
			hash := failureZoneHash(zkey)
			w.c.failure.entries.Add(hash, ent)
			cleanup = append(cleanup, func() { w.c.failure.entries.Remove(hash) })
		} else {
			// planted under the zone hash of every suffix of Q's name
			walkFailureZones(cs.Q.Name, func(z string) bool {
				hash := failureZoneHash(normalizeFailureZoneKey(FailureZoneKey{Zone: z, Qclass: cs.Q.Class}))
				w.c.failure.entries.Add(hash, ent)
				cleanup = append(cleanup, func() { w.c.failure.entries.Remove(hash) })
				return true
			})
		}
		allowed = vkAtOrBelow(cs.Q.Name, cs.Zone) && cs.S.Class == cs.Q.Class
		detect = func(r vkReply) bool { return r.msg != nil && r.msg.Rcode == dns.RcodeServerFailure && r.stubCalls == 0 }
	case "cut":
		if !w.c.store.nxDomainCuts.record(vkCutProof(cs.S.Name, "t.", cs.S.Class), cs.S.Name, "t.", time.Time{}) {
			return "", "cut-not-admitted"
		}
		ent := w.c.store.nxDomainCuts.entries[nxDomainCutID{deniedName: dns.CanonicalName(cs.S.Name), qclass: cs.S.Class}]
		cleanup = append(cleanup, func() { w.c.store.nxDomainCuts.purge(cs.S.question()) })
		if cs.Seeding == "forged" && ent != nil {
			nc := w.c.store.nxDomainCuts
			wn := vkWireName(cs.Q.Name)
			walkWireSuffixes(wn, func(z []byte) bool {
				if h, ok := internalcache.KeyWire(z, 0, cs.Q.Class, false); ok {
					hh := h ^ nxDomainCutHashSalt
					nc.mu.Lock()
					if nc.byHash[hh] == nil {
						nc.byHash[hh] = ent
						cleanup = append(cleanup, func() { nc.mu.Lock(); delete(nc.byHash, hh); nc.mu.Unlock() })
					}
					nc.mu.Unlock()
				}
				return true
			})
		}
		allowed = vkAtOrBelow(cs.Q.Name, cs.S.Name) && cs.S.Class == cs.Q.Class && !cs.Q.CD && cs.Q.ECS == ""
		detect = func(r vkReply) bool { return r.msg != nil && r.msg.Rcode == dns.RcodeNameError && r.stubCalls == 0 }
	case "chase":
		// alias Q -> b.t. admitted under Q's own key; S planted/admitted at the target's key
		if cs.Q.Type != dns.TypeA && cs.Q.Type != dns.TypeAAAA {
			return "", "skip"
		}
		alias := new(dns.Msg)
		alias.SetReply(cs.Q.msg(0))
		alias.RecursionAvailable = true
		alias.Answer = []dns.RR{&dns.CNAME{Hdr: dns.RR_Header{Name: cs.Q.Name, Rrtype: dns.TypeCNAME, Class: cs.Q.Class, Ttl: 300}, Target: "b.t."}}
		akey := CacheKey{Question: cs.Q.question(), CD: cs.Q.CD}.Hash()
		w.c.store.SetFromResponseWithKey(akey, alias, time.Time{}, 0)
		cleanup = append(cleanup, func() { w.c.store.positive.Remove(akey) })
		tq := vkQ{Name: "b.t.", Type: cs.Q.Type, Class: cs.Q.Class, CD: cs.Q.CD}
		var tkey uint64
		if cs.Seeding == "natural" {
			tkey = CacheKey{Question: cs.S.question(), CD: cs.S.CD}.Hash()
		} else {
			tkey = CacheKey{Question: tq.question(), CD: tq.CD}.Hash()
		}
		if tkey == akey {
			return "", "skip"
		}
		e := NewCacheEntryWithKey(vkAnswer(cs.S, 1, 300), 300*time.Second, 0, tkey)
		e.cd = cs.S.CD
		w.c.store.positive.Set(tkey, e)
		cleanup = append(cleanup, func() { w.c.store.positive.Remove(tkey) })
		allowed = vkEquivalent(cs.S, tq)
		detect = func(r vkReply) bool {
			for _, id := range vkMarkersIn(r.msg) {
				if id == 1 {
					return true
				}
			}
			return false
		}
	case "purge":
		key := CacheKey{Question: cs.S.question(), CD: cs.S.CD, Scope: sscope}.Hash()
		if sscope.IsValid() {
			w.c.store.SetFromResponseScoped(key, vkAnswer(cs.S, 1, 300), sscope, time.Time{}, 0)
		} else {
			w.c.store.SetFromResponseWithKey(key, vkAnswer(cs.S, 1, 300), time.Time{}, 0)
		}
		cleanup = append(cleanup, func() { w.c.store.positive.Remove(key) })
		w.c.Purge(cs.Q.question())
		_, still := w.c.store.positive.Get(key)
		matches := vkFoldEq(cs.S.Name, cs.Q.Name) && cs.S.Type == cs.Q.Type && cs.S.Class == cs.Q.Class
		if !still && !matches {
			return fmt.Sprintf("Purge(%v) removed the entry of a different question S=%v (scope %q)", cs.Q.question(), cs.S, cs.SScope), "purge-WRONG"
		}
		if still {
			if matches {
				return "", "purge-left-matching"
			}
			return "", "purge-kept-other"
		}
		return "", "purged"
	default:
		panic("bad kind")
	}
	r := w.ask(vkRoute(cs.Route), cs.Q, 777)
	hit := detect(r)
	if hit && !allowed {
		return fmt.Sprintf("%s state stored for S=%v (scope %q zone %q) answered Q=%v via %s/%s: %s", cs.Kind, cs.S, cs.SScope, cs.Zone, cs.Q, cs.Seeding, cs.Route, vkMsgStr(r.msg)), "served-WRONG"
	}
	if hit {
		return "", "hit"
	}
	return "", "miss"
}

func vkC03RCases(thorough bool, visit func(i int, cs vkC03RCase) bool) {
	alpha := vkC03Alphabet()
	i := 0
	emit := func(cs vkC03RCase) bool {
		ok := visit(i, cs)
		i++
		return ok
	}
	routes := []string{"msg", "wire"}
	for _, seeding := range []string{"natural", "forged"} {
		for _, s := range alpha {
			for _, q := range alpha {
				for _, r := range routes {
					for _, ss := range []string{"", "10.0.0.0/24"} {
						for _, aud := range []string{"", "10.0.0.0/24", "10.0.0.0/25"} {
							if !thorough && (ss != "" || aud != "") && (q.Class != dns.ClassINET || s.Class != dns.ClassINET) {
								continue
							}
							qq := q
							qq.ECS = aud
							if !emit(vkC03RCase{Kind: "failure-exact", Seeding: seeding, Route: r, S: s, SScope: ss, Q: qq}) {
								return
							}
						}
					}
					if !s.CD && s.Type == dns.TypeA {
						for _, zone := range []string{"t.", "a.t.", "b.t.", `a\.t.`} {
							if !emit(vkC03RCase{Kind: "failure-zone", Seeding: seeding, Route: r, S: s, Zone: zone, Q: q}) {
								return
							}
						}
						for _, aud := range []string{"", "10.0.0.0/24"} {
							qq := q
							qq.ECS = aud
							if !emit(vkC03RCase{Kind: "cut", Seeding: seeding, Route: r, S: s, Q: qq}) {
								return
							}
						}
					}
					if !emit(vkC03RCase{Kind: "chase", Seeding: seeding, Route: r, S: s, Q: q}) {
						return
					}
				}
				if seeding == "natural" {
					for _, ss := range []string{"", "10.0.0.0/24", "2001:db8::/56"} {
						if !emit(vkC03RCase{Kind: "purge", Seeding: seeding, Route: "api", S: s, SScope: ss, Q: q}) {
							return
						}
					}
				}
			}
		}
	}
}

func TestVerifC03Routes(t *testing.T) {
	c := vkit.Init("C03/routes")
	defer c.Close()
	if c.Replay != nil {
		var cs vkC03RCase
		if err := json.Unmarshal(c.Replay, &cs); err != nil {
			c.HarnessError("bad replay: " + err.Error())
			return
		}
		w := vkC03World()
		defer w.stop()
		if v, _ := vkC03RRunIn(w, cs); v != "" {
			c.Violation(cs.key(), v, cs)
		}
		return
	}
	w := vkC03World()
	defer w.stop()
	vkC03RCases(c.Thorough(), func(i int, cs vkC03RCase) bool {
		if !c.Mine(i / 64) {
			return true
		}
		c.Add("evaluations", 1)
		c.Add("transitions", 2)
		c.Add("traces", 1)
		v, outcome := vkC03RRunIn(w, cs)
		c.Outcome(cs.Kind + "/" + cs.Seeding + "/" + cs.Route + "/" + outcome)
		c.DistinctStr("states", cs.Kind+"|"+cs.Seeding+"|"+cs.S.String()+cs.SScope+cs.Zone+"|"+cs.Q.String())
		if outcome == "hit" || outcome == "purged" || cs.Seeding == "forged" {
			c.DistinctStr("nontrivial", cs.key())
		}
		if i%30000 == 11 {
			c.Sample(map[string]any{"case": cs.key(), "outcome": outcome})
		}
		if v != "" {
			w2 := vkC03World()
			v2, _ := vkC03RRunIn(w2, cs)
			w2.stop()
			if v2 == "" {
				c.HarnessError("C03 route violation did not reproduce on a fresh cache: " + cs.key())
				return false
			}
			d := vkC03Diff(vkC03Case{S: cs.S, SScope: cs.SScope, Q: cs.Q})
			c.Violation("routes:"+cs.Kind+"/"+cs.Seeding+"/"+cs.Route+":"+d, v, cs)
		}
		return c.NumViolations() < 30
	})
	_ = strings.TrimSpace
}
