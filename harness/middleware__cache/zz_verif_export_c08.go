//go:build verif

package cache

// Export seam for check C08 (overlay-injected, never part of a normal build).
// Read-only views of the answer cache and of the prefetch machinery.

import (
	"time"

	"github.com/miekg/dns"
)

// VerifC08Entry is the raw view of one stored answer-cache entry.
type VerifC08Entry struct {
	Found     bool
	Stored    time.Time
	TTL       time.Duration
	CutUntil  time.Time
	Remaining time.Duration // effective remaining lifetime at now (may be <= 0)
	Prefetch  bool          // a background refresh currently claims the entry
	Rcode     int
	Handle    any // opaque: pass to VerifC08Claimed
}

// VerifC08Peek returns the stored positive-cache entry for (q, cd) without the
// expiry-on-read side effect.
func VerifC08Peek(c *Cache, q dns.Question, cd bool, now time.Time) VerifC08Entry {
	key := CacheKey{Question: q, CD: cd}.Hash()
	v, ok := c.positive.cache.Get(key)
	if !ok {
		return VerifC08Entry{}
	}
	e, ok := v.(*CacheEntry)
	if !ok || e == nil {
		return VerifC08Entry{}
	}
	out := VerifC08Entry{Found: true, Stored: e.stored, TTL: e.ttl, CutUntil: e.cutUntil, Remaining: e.remaining(now), Prefetch: e.prefetch.Load(), Rcode: -1, Handle: e}
	if m := e.storedMsg(); m != nil {
		out.Rcode = m.Rcode
	}
	return out
}

// VerifC08Claimed reports whether the entry behind handle is still claimed by a background refresh. The claim is taken
// on the hit path before the refresh is queued and released by the worker's last deferred call, i.e. after the refreshed
// entry AND its denial-proof / subtree-cut side effects have been stored.
func VerifC08Claimed(handle any) bool {
	e, ok := handle.(*CacheEntry)
	return ok && e != nil && e.prefetch.Load()
}

// VerifC08PrefetchBusy reports whether a background refresh is queued or running.
func VerifC08PrefetchBusy(c *Cache) bool {
	if c.prefetchQueue == nil {
		return false
	}
	if len(c.prefetchQueue.items) > 0 {
		return true
	}
	busy := false
	c.positive.cache.ForEach(func(_ uint64, v any) bool {
		if e, ok := v.(*CacheEntry); ok && e != nil && e.prefetch.Load() {
			busy = true
			return false
		}
		return true
	})
	return busy
}

// VerifC08Stats returns the cache's own hit / miss / prefetch counters.
func VerifC08Stats(c *Cache) (hits, misses, prefetches int64) {
	h, m, _, p := c.metrics.Stats()
	return h, m, p
}

// VerifC08SideTables reports the sizes of the negative-side tables.
func VerifC08SideTables(c *Cache) (negative, cuts, proofs int) {
	return c.negative.cache.Len(), c.store.NXDomainCutLen(), c.store.DenialProofLen()
}
