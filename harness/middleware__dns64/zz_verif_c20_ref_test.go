//go:build verif

package dns64

// Reference RFC 6052 implementation for check C20, written on bit strings and
// independent of synth.go: an address is a [128]byte of 0/1 values.
//
// RFC 6052 §2.2: the IPv4-embedded IPv6 address is the n-bit prefix, followed
// by the 32 bits of the IPv4 address laid out from bit n onwards, skipping
// bits 64..71 (the reserved octet "u", always zero), followed by a zero
// suffix.

import (
	"fmt"
	"net"
	"strings"
)

type vkBits [128]byte

func vkBitsOf(ip net.IP) vkBits {
	var b vkBits
	ip16 := ip.To16()
	for i := 0; i < 128; i++ {
		if ip16[i/8]&(0x80>>uint(i%8)) != 0 {
			b[i] = 1
		}
	}
	return b
}

func (b vkBits) ip() net.IP {
	out := make(net.IP, 16)
	for i := 0; i < 128; i++ {
		if b[i] != 0 {
			out[i/8] |= 0x80 >> uint(i%8)
		}
	}
	return out
}

var vkLegalLens = []int{32, 40, 48, 56, 64, 96}

func vkLegal(n int) bool {
	for _, l := range vkLegalLens {
		if l == n {
			return true
		}
	}
	return false
}

// vkRefEmbed lays v4 (4 bytes) into prefix/n.
func vkRefEmbed(prefix vkBits, n int, v4 [4]byte) vkBits {
	var out vkBits
	copy(out[:n], prefix[:n])
	pos := n
	for i := 0; i < 32; i++ {
		if pos >= 64 && pos <= 71 {
			pos = 72
		}
		if v4[i/8]&(0x80>>uint(i%8)) != 0 {
			out[pos] = 1
		}
		pos++
	}
	return out
}

// vkRefExtract inverts vkRefEmbed; ok=false if addr is not a well-formed
// embedding under prefix/n.
func vkRefExtract(prefix vkBits, n int, addr vkBits) ([4]byte, bool) {
	var v4 [4]byte
	for i := 0; i < n; i++ {
		if addr[i] != prefix[i] {
			return v4, false
		}
	}
	used := [128]bool{}
	for i := 0; i < n; i++ {
		used[i] = true
	}
	pos := n
	for i := 0; i < 32; i++ {
		if pos >= 64 && pos <= 71 {
			pos = 72
		}
		if addr[pos] != 0 {
			v4[i/8] |= 0x80 >> uint(i%8)
		}
		used[pos] = true
		pos++
	}
	for i := 0; i < 128; i++ {
		if !used[i] && addr[i] != 0 {
			return v4, false
		}
	}
	return v4, true
}

// vkRefIP6Arpa renders the reverse name of addr, nibble by nibble from the
// least significant.
func vkRefIP6Arpa(addr vkBits, upper bool) string {
	const hexl = "0123456789abcdef"
	const hexu = "0123456789ABCDEF"
	var sb strings.Builder
	for nib := 31; nib >= 0; nib-- {
		v := 0
		for k := 0; k < 4; k++ {
			v = v<<1 | int(addr[nib*4+k])
		}
		if upper {
			sb.WriteByte(hexu[v])
		} else {
			sb.WriteByte(hexl[v])
		}
		sb.WriteByte('.')
	}
	if upper {
		sb.WriteString("IP6.ARPA.")
	} else {
		sb.WriteString("ip6.arpa.")
	}
	return sb.String()
}

func vkRefInAddrArpa(v4 [4]byte) string {
	return fmt.Sprintf("%d.%d.%d.%d.in-addr.arpa.", v4[3], v4[2], v4[1], v4[0])
}

func vkMaskBits(b vkBits, n int) vkBits {
	for i := n; i < 128; i++ {
		b[i] = 0
	}
	return b
}
