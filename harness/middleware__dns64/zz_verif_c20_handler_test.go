//go:build verif

package dns64

// C20 unit "handler" — the real DNS64 handler (ServeDNS + its response
// writer) between a scripted client and a scripted downstream.
//
// Enumerated: configurations (1-2 prefixes incl. 64:ff9b::/96, client
// networks, excluded zones, excluded A / AAAA ranges) x client (address,
// query name) x client flags (RD, CD, EDNS/DO, AD, class, internal sink) x
// downstream AAAA response shape x A sub-query response shape (x entry path
// in the thorough tier).
//
// Oracle (an independent decision function over the scripted inputs, nothing
// is taken from dns64.go):
//   forged  = AAAA records in the client's reply whose address the downstream
//             AAAA response did not contain.
//   If forged is non-empty the reply is a synthesis, and then
//     * the query had RD=1 and CD=0, the client is inside the configured
//       client networks (if any), the name is not under an excluded zone,
//       the downstream AAAA response had no usable (non-excluded) AAAA, was
//       not NXDOMAIN, was not SERVFAIL with a DNSSEC-failure EDE (5..12), was
//       not a cached failure (EDE 13 or the request-tree cached-failure
//       mark) and carried no request-local failure mark;
//     * forged == { RFC6052(a, p) : a in A-records of the A sub-response,
//       p in configured prefixes, not (p is 64:ff9b::/96 and a in an excluded
//       IPv4 range) }   (reference embedding on bit strings);
//     * every forged record is owned by the last name of the A sub-response's
//       alias chain starting at the query name;
//     * its TTL <= the TTL of the A record it embeds and <= min(SOA TTL,
//       SOA MINIMUM) of the downstream AAAA response when that carries a SOA;
//     * AD is clear.
//   If the reply lost some of the downstream's AAAA records (AAAA-filtered)
//   AD is clear.
//   Everything else (pass-through shape, exact TTL, record order, EDE 4,
//   whether synthesis happens when it may) is not judged.
// PTR: an ip6.arpa query for RFC6052(v4, p): if the handler answers with a
// CNAME into in-addr.arpa, it is the reverse name of the same v4.

import (
	"bytes"
	"context"
	"encoding/json"
	"fmt"
	"net"
	"sort"
	"strings"
	"testing"
	"time"

	"github.com/miekg/dns"
	"github.com/semihalev/sdns/config"
	"github.com/semihalev/sdns/internal/verifshim/vkit"
	"github.com/semihalev/sdns/middleware"
	"github.com/semihalev/zlog/v2"
)

const vkWKP = "64:ff9b::/96"

// ------------------------------------------------------------------ configurations

type vkCfg struct {
	Name        string   `json:"name"`
	Prefixes    []string `json:"prefixes"` // the EFFECTIVE prefixes (what synthesis must use)
	// Raw, when UseRaw is set, is what is written into the configuration instead: nothing, or only
	// illegal entries — sdns then falls back to the well-known prefix (RFC 6147 5.2), which Prefixes names.
	Raw    []string `json:"raw,omitempty"`
	UseRaw bool     `json:"use_raw,omitempty"`
	ClientNets  []string `json:"client_nets"`
	ExclZones   []string `json:"excl_zones"`
	ExclA       []string `json:"excl_a"`    // explicit (never nil -> no built-in defaults involved)
	ExclAAAA    []string `json:"excl_aaaa"` // explicit
	prefixNets  []*net.IPNet
	clientNets  []*net.IPNet
	exclANets   []*net.IPNet
	exclAAAANet []*net.IPNet
}

func vkConfigs() []*vkCfg {
	mapped := []string{"::ffff:0:0/96"}
	cs := []*vkCfg{
		{Name: "wkp", Prefixes: []string{vkWKP}, ExclA: []string{"10.0.0.0/8"}, ExclAAAA: mapped},
		{Name: "nsp96", Prefixes: []string{"2001:db8:64::/96"}, ExclA: []string{"10.0.0.0/8"}, ExclAAAA: mapped},
		{Name: "wkp+56", Prefixes: []string{vkWKP, "2001:db8:100::/56"}, ExclA: []string{"10.0.0.0/8", "192.168.0.0/16"}, ExclAAAA: mapped},
		{Name: "40+64", Prefixes: []string{"2001:db8:100::/40", "2001:db8:200:64::/64"}, ExclA: []string{}, ExclAAAA: []string{"2001:db8:bad::/48"}},
		{Name: "32+clients", Prefixes: []string{"2001:db8::/32"}, ClientNets: []string{"198.51.100.0/24", "2001:db8:c::/48"}, ExclA: []string{}, ExclAAAA: mapped},
		{Name: "wkp+zones", Prefixes: []string{vkWKP}, ExclZones: []string{"excluded.example", "Other.Example."}, ExclA: []string{}, ExclAAAA: []string{}},
		{Name: "48", Prefixes: []string{"2001:db8:4800::/48"}, ExclA: []string{"10.0.0.0/8"}, ExclAAAA: mapped, ClientNets: []string{"203.0.113.0/24"}, ExclZones: []string{"excluded.example."}},
		// one prefix inside another (every AAAA synthesised from either must still reverse)
		{Name: "nested48+96", Prefixes: []string{"2001:db8:64::/48", "2001:db8:64::/96"}, ExclA: []string{}, ExclAAAA: mapped},
		{Name: "nested96+48", Prefixes: []string{"2001:db8:64::/96", "2001:db8:64::/48"}, ExclA: []string{}, ExclAAAA: mapped},
		{Name: "fallback-none", Prefixes: []string{vkWKP}, UseRaw: true, Raw: nil, ExclA: []string{"10.0.0.0/8"}, ExclAAAA: mapped},
		{Name: "fallback-illegal", Prefixes: []string{vkWKP}, UseRaw: true, Raw: []string{"2001:db8:100::/49", "not-a-prefix", "2001:db8::/72"}, ExclA: []string{"10.0.0.0/8", "192.168.0.0/16"}, ExclAAAA: mapped},
	}
	for _, c := range cs {
		for _, s := range c.Prefixes {
			_, n, _ := net.ParseCIDR(s)
			c.prefixNets = append(c.prefixNets, n)
		}
		for _, s := range c.ClientNets {
			_, n, _ := net.ParseCIDR(s)
			c.clientNets = append(c.clientNets, n)
		}
		for _, s := range c.ExclA {
			_, n, _ := net.ParseCIDR(s)
			c.exclANets = append(c.exclANets, n)
		}
		for _, s := range c.ExclAAAA {
			_, n, _ := net.ParseCIDR(s)
			c.exclAAAANet = append(c.exclAAAANet, n)
		}
	}
	return cs
}

func (c *vkCfg) build() *DNS64 {
	return New(&config.Config{DNS64: config.DNS64Config{
		Enabled:             true,
		Prefixes:            c.configuredPrefixes(),
		ClientNetworks:      append([]string(nil), c.ClientNets...),
		ExcludeZones:        append([]string(nil), c.ExclZones...),
		ExcludeANetworks:    append([]string{}, c.ExclA...),
		ExcludeAAAANetworks: append([]string{}, c.ExclAAAA...),
	}})
}

func (c *vkCfg) configuredPrefixes() []string {
	if c.UseRaw {
		return append([]string(nil), c.Raw...)
	}
	return append([]string(nil), c.Prefixes...)
}

// oracle-side predicates (plain stdlib containment on the hand-written config)
func (c *vkCfg) clientEligible(ip net.IP) bool {
	if len(c.clientNets) == 0 {
		return true
	}
	for _, n := range c.clientNets {
		if n.Contains(ip) {
			return true
		}
	}
	return false
}

func (c *vkCfg) zoneExcluded(qname string) bool {
	q := strings.ToLower(qname)
	for _, z := range c.ExclZones {
		z = strings.ToLower(z)
		if !strings.HasSuffix(z, ".") {
			z += "."
		}
		if q == z || strings.HasSuffix(q, "."+z) {
			return true
		}
	}
	return false
}

func (c *vkCfg) aaaaExcluded(ip net.IP) bool {
	for _, n := range c.exclAAAANet {
		if n.Contains(ip) {
			return true
		}
	}
	return false
}

func (c *vkCfg) aExcluded(ip net.IP) bool {
	for _, n := range c.exclANets {
		if n.Contains(ip) {
			return true
		}
	}
	return false
}

// ------------------------------------------------------------------ scripted shapes

const (
	vkNative1 = "2001:db8:aaaa::1"
	vkNative2 = "2001:db8:aaaa::2"
	vkMapped  = "::ffff:192.0.2.1"
	vkBadNet  = "2001:db8:bad::7"
)

type vkAAAAShape struct {
	Name  string
	Rcode int
	AD    bool
	TC    bool
	// answer RRs as text with %s for the query name
	Answer []string
	// SOA in authority: ttl, minimum (ttl<0 => none)
	SOATTL, SOAMin int
	EDE            int   // -1 none
	EDEFirst       []int // further EDE options placed BEFORE EDE in the OPT
	CookieFirst    bool  // a COOKIE option placed before any EDE
	OPT            bool  // attach OPT even without EDE
	CachedMark     bool  // request-tree cached-failure mark around the write
	LocalMark      string
}

func vkAAAAShapes() []vkAAAAShape {
	no := -1
	s := []vkAAAAShape{
		{Name: "nodata", SOATTL: no, EDE: no},
		{Name: "nodata+soa300/60", SOATTL: 300, SOAMin: 60, EDE: no},
		{Name: "nodata+soa30/300+AD", SOATTL: 30, SOAMin: 300, EDE: no, AD: true, OPT: true},
		{Name: "native", Answer: []string{"%s 300 IN AAAA " + vkNative1}, SOATTL: no, EDE: no},
		{Name: "native+AD", Answer: []string{"%s 300 IN AAAA " + vkNative1}, SOATTL: no, EDE: no, AD: true, OPT: true},
		{Name: "native+mapped+AD", Answer: []string{"%s 300 IN AAAA " + vkNative1, "%s 300 IN AAAA " + vkMapped}, SOATTL: no, EDE: no, AD: true, OPT: true},
		{Name: "native+mapped", Answer: []string{"%s 300 IN AAAA " + vkMapped, "%s 300 IN AAAA " + vkNative2}, SOATTL: no, EDE: no},
		{Name: "native+badnet+AD", Answer: []string{"%s 300 IN AAAA " + vkBadNet, "%s 300 IN AAAA " + vkNative1}, SOATTL: no, EDE: no, AD: true},
		{Name: "only-mapped", Answer: []string{"%s 300 IN AAAA " + vkMapped}, SOATTL: no, EDE: no},
		{Name: "only-mapped+AD+soa", Answer: []string{"%s 300 IN AAAA " + vkMapped}, SOATTL: 200, SOAMin: 100, EDE: no, AD: true, OPT: true},
		{Name: "only-badnet+AD", Answer: []string{"%s 300 IN AAAA " + vkBadNet}, SOATTL: no, EDE: no, AD: true, OPT: true},
		{Name: "nxdomain", Rcode: dns.RcodeNameError, SOATTL: 300, SOAMin: 60, EDE: no},
		{Name: "nxdomain+AD", Rcode: dns.RcodeNameError, SOATTL: 300, SOAMin: 60, EDE: no, AD: true, OPT: true},
		{Name: "servfail", Rcode: dns.RcodeServerFailure, SOATTL: no, EDE: no},
		{Name: "servfail+opt", Rcode: dns.RcodeServerFailure, SOATTL: no, EDE: no, OPT: true},
		{Name: "servfail+ede22", Rcode: dns.RcodeServerFailure, SOATTL: no, EDE: 22},
		{Name: "servfail+ede13", Rcode: dns.RcodeServerFailure, SOATTL: no, EDE: 13},
		{Name: "servfail+cached-mark", Rcode: dns.RcodeServerFailure, SOATTL: no, EDE: no, CachedMark: true},
		{Name: "servfail+local-attempt", Rcode: dns.RcodeServerFailure, SOATTL: no, EDE: no, LocalMark: "attempt"},
		{Name: "servfail+local-deadline", Rcode: dns.RcodeServerFailure, SOATTL: no, EDE: no, LocalMark: "deadline", OPT: true},
		{Name: "refused", Rcode: dns.RcodeRefused, SOATTL: no, EDE: no},
		{Name: "cname->native", Answer: []string{"%s 300 IN CNAME t6.example.net.", "t6.example.net. 300 IN AAAA " + vkNative1}, SOATTL: no, EDE: no},
		{Name: "cname->nodata+soa", Answer: []string{"%s 300 IN CNAME t6.example.net."}, SOATTL: 120, SOAMin: 90, EDE: no},
		{Name: "dname->nodata", Answer: []string{"example.org. 300 IN DNAME example.net.", "%s 300 IN CNAME www.example.net."}, SOATTL: no, EDE: no},
		{Name: "nodata+TC", SOATTL: no, EDE: no, TC: true},
		{Name: "nodata+AD", SOATTL: 300, SOAMin: 300, EDE: no, AD: true, OPT: true},
	}
	for _, code := range []int{1, 2, 5, 6, 7, 8, 9, 10, 11, 12, 27} {
		s = append(s, vkAAAAShape{Name: fmt.Sprintf("servfail+ede%d", code), Rcode: dns.RcodeServerFailure, SOATTL: no, EDE: code})
	}
	// the DNSSEC EDE is not the first option of the OPT
	s = append(s,
		vkAAAAShape{Name: "servfail+ede22,6", Rcode: dns.RcodeServerFailure, SOATTL: no, EDE: 6, EDEFirst: []int{22}},
		vkAAAAShape{Name: "servfail+ede23,0,9", Rcode: dns.RcodeServerFailure, SOATTL: no, EDE: 9, EDEFirst: []int{23, 0}},
		vkAAAAShape{Name: "servfail+cookie,ede7", Rcode: dns.RcodeServerFailure, SOATTL: no, EDE: 7, CookieFirst: true},
		vkAAAAShape{Name: "servfail+ede22,13", Rcode: dns.RcodeServerFailure, SOATTL: no, EDE: 13, EDEFirst: []int{22}},
	)
	return s
}

// vkSOAZeroShapes: negative TTL of zero (SOA MINIMUM 0, or SOA TTL 0).
func vkSOAZeroShapes() []vkAAAAShape {
	return []vkAAAAShape{
		{Name: "soa-minimum-0", SOATTL: 300, SOAMin: 0, EDE: -1},
		{Name: "soa-ttl-0", SOATTL: 0, SOAMin: 300, EDE: -1},
	}
}

type vkAShape struct {
	Name   string
	Rcode  int
	AD     bool
	Answer []string // %s = query name
	Err    string   // "noresponse" | "nil"
	SOA    bool
}

func vkAShapes(thorough bool) []vkAShape {
	s := []vkAShape{
		{Name: "1A", Answer: []string{"%s 120 IN A 93.184.216.34"}},
		{Name: "2A-ttl120/40-one-private", Answer: []string{"%s 120 IN A 93.184.216.34", "%s 40 IN A 10.1.2.3"}},
		{Name: "2A-ttl20/500+AD", Answer: []string{"%s 20 IN A 198.51.100.200", "%s 500 IN A 93.184.216.35"}, AD: true},
		{Name: "only-private", Answer: []string{"%s 77 IN A 10.1.2.3"}},
		{Name: "cname-chain", Answer: []string{"%s 500 IN CNAME t4.example.net.", "t4.example.net. 90 IN A 93.184.216.36"}},
		{Name: "nodata", SOA: true},
		{Name: "servfail", Rcode: dns.RcodeServerFailure},
		{Name: "noresponse", Err: "noresponse"},
	}
	if thorough {
		s = append(s,
			vkAShape{Name: "dname-chain", Answer: []string{"example.org. 400 IN DNAME example.net.", "%s 400 IN CNAME www.example.net.", "www.example.net. 55 IN A 93.184.216.37", "www.example.net. 65 IN A 192.168.7.7"}},
			vkAShape{Name: "cname-cname", Answer: []string{"%s 500 IN CNAME m.example.net.", "m.example.net. 30 IN CNAME t4.example.net.", "t4.example.net. 90 IN A 93.184.216.36"}},
			vkAShape{Name: "nxdomain", Rcode: dns.RcodeNameError, SOA: true},
			vkAShape{Name: "nil", Err: "nil"},
			vkAShape{Name: "1A-edge", Answer: []string{"%s 1 IN A 255.255.255.255"}},
		)
	}
	return s
}

type vkClient struct {
	Name string
	IP   string
}

var vkClients = []vkClient{{"c4-in", "198.51.100.7"}, {"c4-out", "192.0.2.77"}, {"c6-in", "2001:db8:c::1"}, {"c4-203", "203.0.113.9"}}

var vkQNames = []string{"www.example.org.", "host.excluded.example.", "EXCLUDED.Example.", "notexcluded.example.", "a.other.example."}

type vkFlags struct {
	RD, CD, AD bool
	EDNS       int // 0 none, 1 OPT DO=0, 2 OPT DO=1
	Class      uint16
	Internal   bool
}

func vkAllFlags() []vkFlags {
	var out []vkFlags
	for _, internal := range []bool{false, true} {
		for _, class := range []uint16{dns.ClassINET, dns.ClassCHAOS} {
			for _, rd := range []bool{true, false} {
				for _, cd := range []bool{false, true} {
					for _, ad := range []bool{false, true} {
						for edns := 0; edns < 3; edns++ {
							out = append(out, vkFlags{RD: rd, CD: cd, AD: ad, EDNS: edns, Class: class, Internal: internal})
						}
					}
				}
			}
		}
	}
	return out
}

func (f vkFlags) String() string {
	return fmt.Sprintf("rd=%v,cd=%v,ad=%v,edns=%d,class=%d,internal=%v", f.RD, f.CD, f.AD, f.EDNS, f.Class, f.Internal)
}

// ------------------------------------------------------------------ machinery

type vkTransport struct {
	remote   net.Addr
	internal bool
	msgs     []*dns.Msg
}

func (t *vkTransport) LocalAddr() net.Addr {
	return &net.UDPAddr{IP: net.IPv4(192, 0, 2, 53), Port: 53}
}
func (t *vkTransport) RemoteAddr() net.Addr      { return t.remote }
func (t *vkTransport) WriteMsg(m *dns.Msg) error { t.msgs = append(t.msgs, m); return nil }
func (t *vkTransport) Write(b []byte) (int, error) {
	m := new(dns.Msg)
	if err := m.Unpack(b); err == nil {
		t.msgs = append(t.msgs, m)
	}
	return len(b), nil
}
func (t *vkTransport) Close() error   { return nil }
func (t *vkTransport) Internal() bool { return t.internal }

func vkRRs(tmpl []string, qname string) []dns.RR {
	var out []dns.RR
	for _, s := range tmpl {
		if strings.Contains(s, "%s") {
			s = fmt.Sprintf(s, qname)
		}
		rr, err := dns.NewRR(s)
		if err != nil || rr == nil {
			panic("vk: bad RR template " + s)
		}
		out = append(out, rr)
	}
	return out
}

func vkSOA(qname string, ttl, min int) dns.RR {
	zone := "example.org."
	if i := strings.Index(qname, "."); i >= 0 && i+1 < len(qname) {
		zone = qname[i+1:]
	}
	return &dns.SOA{Hdr: dns.RR_Header{Name: zone, Rrtype: dns.TypeSOA, Class: dns.ClassINET, Ttl: uint32(ttl)},
		Ns: "ns." + zone, Mbox: "h." + zone, Serial: 1, Refresh: 3600, Retry: 600, Expire: 86400, Minttl: uint32(min)}
}

// vkBuildAAAA builds the downstream reply to req.
func vkBuildAAAA(sh vkAAAAShape, req *dns.Msg) *dns.Msg {
	m := new(dns.Msg)
	m.SetReply(req)
	m.RecursionAvailable = true
	m.Rcode = sh.Rcode
	m.AuthenticatedData = sh.AD
	m.Truncated = sh.TC
	qname := req.Question[0].Name
	m.Answer = vkRRs(sh.Answer, qname)
	if sh.SOATTL >= 0 {
		m.Ns = []dns.RR{vkSOA(qname, sh.SOATTL, sh.SOAMin)}
	}
	if sh.OPT || sh.EDE >= 0 {
		m.SetEdns0(1232, false)
		if sh.EDE >= 0 {
			opt := m.IsEdns0()
			if sh.CookieFirst {
				opt.Option = append(opt.Option, &dns.EDNS0_COOKIE{Code: dns.EDNS0COOKIE, Cookie: "0123456789abcdef0123456789abcdef"})
			}
			for _, c := range sh.EDEFirst {
				opt.Option = append(opt.Option, &dns.EDNS0_EDE{InfoCode: uint16(c), ExtraText: "scripted-first"})
			}
			opt.Option = append(opt.Option, &dns.EDNS0_EDE{InfoCode: uint16(sh.EDE), ExtraText: "scripted"})
		}
	}
	return m
}

type vkNext struct {
	shape vkAAAAShape
	calls int
	sent  *dns.Msg
}

func (n *vkNext) Name() string { return "vknext" }
func (n *vkNext) ServeDNS(ctx context.Context, ch *middleware.Chain) {
	n.calls++
	req := ch.Request.Msg()
	if req == nil {
		return
	}
	m := vkBuildAAAA(n.shape, req)
	n.sent = m.Copy()
	switch {
	case n.shape.CachedMark:
		if meta := middleware.ResponseMetaFrom(ctx); meta != nil {
			release := meta.MarkCachedFailureResponse(m)
			_ = ch.Writer.WriteMsg(m)
			release()
		} else {
			panic("vk: no ResponseMeta in handler context")
		}
	case n.shape.LocalMark != "":
		gctx, _ := middleware.EnsureResolutionAttemptGuard(ctx)
		var err error = context.DeadlineExceeded
		if n.shape.LocalMark == "attempt" {
			err = &middleware.ResolutionAttemptLimitError{Question: req.Question[0], Endpoint: "192.0.2.53:53", Transport: "udp"}
		}
		middleware.MarkRequestLocalFailureResponse(gctx, m, err)
		if middleware.RequestLocalFailureForResponse(ctx, m) == nil {
			panic("vk: request-local mark is not visible on the handler context")
		}
		_ = ch.Writer.WriteMsg(m)
	default:
		_ = ch.Writer.WriteMsg(m)
	}
	ch.Cancel()
}

type vkQueryer struct {
	shape vkAShape
	calls int
	reqs  []*dns.Msg
	sent  *dns.Msg
	ptr   map[string]string // PTR answers by owner
}

func (q *vkQueryer) Query(ctx context.Context, req *dns.Msg) (*dns.Msg, error) {
	q.calls++
	q.reqs = append(q.reqs, req.Copy())
	if len(req.Question) == 1 && req.Question[0].Qtype == dns.TypePTR {
		m := new(dns.Msg)
		m.SetReply(req)
		if t, ok := q.ptr[strings.ToLower(req.Question[0].Name)]; ok {
			rr, _ := dns.NewRR(req.Question[0].Name + " 300 IN PTR " + t)
			m.Answer = []dns.RR{rr}
		}
		return m, nil
	}
	switch q.shape.Err {
	case "noresponse":
		return nil, middleware.ErrNoResponse
	case "nil":
		return nil, nil
	}
	m := new(dns.Msg)
	m.SetReply(req)
	m.RecursionAvailable = true
	m.Rcode = q.shape.Rcode
	m.AuthenticatedData = q.shape.AD
	qname := req.Question[0].Name
	m.Answer = vkRRs(q.shape.Answer, qname)
	if q.shape.SOA {
		m.Ns = []dns.RR{vkSOA(qname, 900, 900)}
	}
	q.sent = m.Copy()
	return m, nil
}

type vkCase struct {
	Cfg    string  `json:"cfg"`
	Client string  `json:"client"`
	QName  string  `json:"qname"`
	Flags  vkFlags `json:"flags"`
	AAAA   string  `json:"aaaa"`
	A      string  `json:"a"`
	Entry  string  `json:"entry"`
}

func (k vkCase) key() string {
	return fmt.Sprintf("handler:cfg=%s client=%s q=%s %s aaaa=%s a=%s entry=%s", k.Cfg, k.Client, k.QName, k.Flags, k.AAAA, k.A, k.Entry)
}

type vkRun struct {
	reply    *dns.Msg
	replies  int
	aaaaSent *dns.Msg
	aSent    *dns.Msg
	aQueries int
	nextRan  int
}

func vkExec(cfg *vkCfg, d *DNS64, client vkClient, qname string, fl vkFlags, sa vkAAAAShape, sq vkAShape, entry string, qtype uint16, ptr map[string]string) (vkRun, string) {
	q := &vkQueryer{shape: sq, ptr: ptr}
	d.SetQueryer(q)
	next := &vkNext{shape: sa}
	ch := middleware.NewChain([]middleware.Handler{d, next})
	ip := net.ParseIP(client.IP)
	if v4 := ip.To4(); v4 != nil && entry == "wire" {
		ip = v4
	}
	tr := &vkTransport{remote: &net.UDPAddr{IP: ip, Port: 40000}}
	if fl.Internal {
		tr = &vkTransport{remote: &net.TCPAddr{IP: net.IPv4(127, 0, 0, 255), Port: 0}, internal: true}
	}
	req := new(dns.Msg)
	req.SetQuestion(qname, qtype)
	req.Question[0].Qclass = fl.Class
	req.RecursionDesired = fl.RD
	req.CheckingDisabled = fl.CD
	req.AuthenticatedData = fl.AD
	if fl.EDNS > 0 {
		req.SetEdns0(1232, fl.EDNS == 2)
	}
	if entry == "wire" {
		raw, err := req.Pack()
		if err != nil {
			return vkRun{}, "pack: " + err.Error()
		}
		r := new(middleware.Request)
		if !r.ParseWire(raw, time.Now(), nil) {
			return vkRun{}, "ParseWire refused the query"
		}
		ch.ResetWire(tr, r)
	} else {
		ch.Reset(tr, req)
	}
	ch.Next(context.Background())
	ch.Finish()
	out := vkRun{replies: len(tr.msgs), aaaaSent: next.sent, aSent: q.sent, aQueries: q.calls, nextRan: next.calls}
	if len(tr.msgs) > 0 {
		out.reply = tr.msgs[len(tr.msgs)-1]
	}
	return out, ""
}

// ------------------------------------------------------------------ oracle

var vkDNSSECFailEDE = map[int]bool{5: true, 6: true, 7: true, 8: true, 9: true, 10: true, 11: true, 12: true}

func vkKey16(ip net.IP) string { return string(ip.To16()) }

// vkTerminal follows CNAMEs in answer from qname.
func vkTerminal(qname string, answer []dns.RR) string {
	name := strings.ToLower(qname)
	for hop := 0; hop < 16; hop++ {
		moved := false
		for _, rr := range answer {
			if c, ok := rr.(*dns.CNAME); ok && strings.ToLower(c.Hdr.Name) == name {
				name = strings.ToLower(c.Target)
				moved = true
				break
			}
		}
		if !moved {
			break
		}
	}
	return name
}

type vkExp struct {
	addr string // 16-byte key
	aTTL uint32
	text string
}

// vkJudge returns "" or the violated clause; label is the outcome label.
func vkJudge(cfg *vkCfg, client vkClient, qname string, fl vkFlags, sa vkAAAAShape, r vkRun) (viol string, label string) {
	if r.replies != 1 || r.reply == nil {
		// not judged by C20 (exactly-one-reply is C11), but nothing to look at either
		return "", fmt.Sprintf("replies=%d", r.replies)
	}
	reply := r.reply
	down := r.aaaaSent
	native := map[string]bool{}
	usable := 0
	if down != nil {
		for _, rr := range down.Answer {
			if a, ok := rr.(*dns.AAAA); ok {
				native[vkKey16(a.AAAA)] = true
				if !cfg.aaaaExcluded(a.AAAA) {
					usable++
				}
			}
		}
	}
	var forged []*dns.AAAA
	kept := map[string]bool{}
	for _, rr := range reply.Answer {
		if a, ok := rr.(*dns.AAAA); ok {
			if native[vkKey16(a.AAAA)] {
				kept[vkKey16(a.AAAA)] = true
			} else {
				forged = append(forged, a)
			}
		}
	}
	if len(forged) == 0 {
		if len(kept) < len(native) {
			if reply.AuthenticatedData {
				cls := ""
				if len(kept) == 0 {
					cls = "[class:all-AAAA-filtered-reply-keeps-AD] "
				}
				return fmt.Sprintf("%sthe reply lost %d of the downstream's %d AAAA records (AAAA-filtered) but still carries AD", cls, len(native)-len(kept), len(native)), "filtered"
			}
			return "", "filtered:AD-clear"
		}
		lbl := "passthrough:" + strings.ToLower(dns.RcodeToString[reply.Rcode])
		if r.aQueries > 0 {
			lbl = "no-synthesis-after-A-lookup:" + strings.ToLower(dns.RcodeToString[reply.Rcode])
		}
		return "", lbl
	}

	// ---- the reply is a synthesis
	why := ""
	switch {
	case !fl.RD:
		why = "the query did not ask for recursion (RD=0)"
	case fl.CD:
		why = "the query had CD=1"
	case !fl.Internal && !cfg.clientEligible(net.ParseIP(client.IP)):
		why = "the client " + client.IP + " is outside the configured client networks"
	case cfg.zoneExcluded(qname):
		why = "the name is under an excluded zone"
	case usable > 0:
		why = "the name has a usable native AAAA"
	case sa.Rcode == dns.RcodeNameError:
		why = "the downstream answer was NXDOMAIN"
	case sa.Rcode == dns.RcodeServerFailure && vkDNSSECFailEDE[sa.EDE]:
		why = fmt.Sprintf("the downstream answer was a DNSSEC validation failure (SERVFAIL, EDE %d)", sa.EDE)
	case sa.Rcode == dns.RcodeServerFailure && (sa.EDE == 13 || sa.CachedMark):
		why = "the downstream answer was a cached failure"
	case sa.LocalMark != "":
		why = "the downstream answer carried a request-local failure mark"
	}
	if why != "" && !(fl.Internal || fl.Class != dns.ClassINET) {
		return fmt.Sprintf("synthesised %d AAAA record(s) (%s ...) although %s", len(forged), forged[0].AAAA, why), "synth"
	}
	if why != "" {
		// internal sinks / non-IN classes are outside the statement; still require correctness below
		_ = why
	}
	if r.aSent == nil {
		return fmt.Sprintf("reply carries AAAA %s that neither the downstream answer nor any A sub-response explains", forged[0].AAAA), "synth"
	}
	// expected set
	exp := map[string]vkExp{}
	for _, rr := range r.aSent.Answer {
		a, ok := rr.(*dns.A)
		if !ok {
			continue
		}
		v := a.A.To4()
		var v4 [4]byte
		copy(v4[:], v)
		for _, pn := range cfg.prefixNets {
			n, _ := pn.Mask.Size()
			if pn.String() == vkWKP && cfg.aExcluded(v) {
				continue
			}
			e := vkRefEmbed(vkMaskBits(vkBitsOf(pn.IP), n), n, v4).ip()
			k := vkKey16(e)
			if old, dup := exp[k]; !dup || a.Hdr.Ttl > old.aTTL {
				exp[k] = vkExp{addr: k, aTTL: a.Hdr.Ttl, text: fmt.Sprintf("%s<-%s in %s", e, v, pn)}
			}
		}
	}
	got := map[string]bool{}
	for _, f := range forged {
		k := vkKey16(f.AAAA)
		got[k] = true
		if _, ok := exp[k]; !ok {
			var want []string
			for _, e := range exp {
				want = append(want, e.text)
			}
			sort.Strings(want)
			return fmt.Sprintf("synthesised AAAA %s is not the RFC 6052 embedding of any permitted (A, prefix) pair; permitted: %v", f.AAAA, want), "synth"
		}
	}
	for k, e := range exp {
		if !got[k] {
			return fmt.Sprintf("synthesis omits %s (every A record must be embedded into every configured prefix)", e.text), "synth"
		}
	}
	term := vkTerminal(qname, r.aSent.Answer)
	negTTL, hasNeg := uint32(0), false
	if down != nil {
		for _, rr := range down.Ns {
			if soa, ok := rr.(*dns.SOA); ok {
				negTTL, hasNeg = soa.Hdr.Ttl, true
				if soa.Minttl < negTTL {
					negTTL = soa.Minttl
				}
				break
			}
		}
	}
	for _, f := range forged {
		if strings.ToLower(f.Hdr.Name) != term {
			return fmt.Sprintf("synthesised AAAA %s is owned by %q, want the end of the alias chain %q", f.AAAA, f.Hdr.Name, term), "synth"
		}
		e := exp[vkKey16(f.AAAA)]
		if f.Hdr.Ttl > e.aTTL {
			return fmt.Sprintf("synthesised AAAA %s has TTL %d, larger than the TTL %d of the A record it embeds", f.AAAA, f.Hdr.Ttl, e.aTTL), "synth"
		}
		if hasNeg && f.Hdr.Ttl > negTTL {
			cls := ""
			if negTTL == 0 {
				cls = "[class:synth-ttl-exceeds-zero-negative-ttl:" + sa.Name + "] "
			}
			return fmt.Sprintf("%ssynthesised AAAA %s has TTL %d, larger than the AAAA negative TTL %d = min(SOA TTL %d, SOA MINIMUM %d) of the downstream answer", cls, f.AAAA, f.Hdr.Ttl, negTTL, sa.SOATTL, sa.SOAMin), "synth:ttl>negttl"
		}
	}
	if reply.AuthenticatedData {
		return "synthesised reply carries AD", "synth"
	}
	lbl := "synth"
	if len(cfg.prefixNets) > 1 {
		lbl += ":2prefixes"
	}
	if term != strings.ToLower(qname) {
		lbl += ":alias"
	}
	if fl.Internal {
		lbl += ":internal-sink"
	}
	return "", lbl
}

// ------------------------------------------------------------------ PTR

func vkPTRCase(cfg *vkCfg, pi int, v4 [4]byte, upper bool) string {
	d := cfg.build()
	pn := cfg.prefixNets[pi]
	n, _ := pn.Mask.Size()
	emb := vkRefEmbed(vkMaskBits(vkBitsOf(pn.IP), n), n, v4)
	qname := vkRefIP6Arpa(emb, upper)
	want := vkRefInAddrArpa(v4)
	fl := vkFlags{RD: true, Class: dns.ClassINET}
	client := vkClient{"any", "198.51.100.7"}
	if len(cfg.clientNets) > 0 && !cfg.clientEligible(net.ParseIP(client.IP)) {
		client = vkClient{"any", "203.0.113.9"}
	}
	r, e := vkExec(cfg, d, client, qname, fl, vkAAAAShape{Name: "nodata", SOATTL: -1, EDE: -1}, vkAShape{Name: "nodata"}, "msg", dns.TypePTR,
		map[string]string{want: "host.example.net."})
	if e != "" {
		return "HARNESS:" + e
	}
	if r.reply == nil {
		return ""
	}
	for _, rr := range r.reply.Answer {
		if c, ok := rr.(*dns.CNAME); ok && strings.HasSuffix(strings.ToLower(c.Target), ".in-addr.arpa.") {
			if strings.ToLower(c.Target) != want {
				return fmt.Sprintf("PTR %s (= %s embedded in %s) was redirected to %s, want %s", qname, net.IP(v4[:]), pn, c.Target, want)
			}
			if !strings.EqualFold(c.Hdr.Name, qname) {
				return fmt.Sprintf("PTR redirect for %s is owned by %s", qname, c.Hdr.Name)
			}
			return "ok:translated"
		}
	}
	// An address synthesis WOULD emit for this configuration (the pair is not under the well-known
	// prefix's excluded IPv4 ranges) has to map back: falling through to ordinary recursion for the
	// ip6.arpa name is not "maps back to the same IPv4 address".
	if !(pn.String() == vkWKP && cfg.aExcluded(net.IP(v4[:]))) {
		return fmt.Sprintf("PTR %s (= %s embedded in %s, an AAAA this configuration synthesises) was not mapped back to %s: the query fell through to ordinary resolution", qname, net.IP(v4[:]), pn, want)
	}
	return "ok:fallthrough"
}

// ------------------------------------------------------------------ test entry

func TestVerifC20Handler(t *testing.T) {
	c := vkit.Init("C20/handler")
	defer c.Close()
	zlog.SetLevel(zlog.LevelFatal)

	cfgs := vkConfigs()
	cfgBy := map[string]*vkCfg{}
	for _, x := range cfgs {
		cfgBy[x.Name] = x
	}
	aaaaShapes := append(vkAAAAShapes(), vkSOAZeroShapes()...)
	aaaaBy := map[string]vkAAAAShape{}
	for _, s := range aaaaShapes {
		aaaaBy[s.Name] = s
	}
	aShapes := vkAShapes(true)
	aBy := map[string]vkAShape{}
	for _, s := range aShapes {
		aBy[s.Name] = s
	}
	clientBy := map[string]vkClient{}
	for _, x := range vkClients {
		clientBy[x.Name] = x
	}

	if c.Replay != nil {
		var k vkCase
		if err := json.Unmarshal(c.Replay, &k); err != nil {
			c.HarnessError("bad replay: " + err.Error())
			return
		}
		if k.Entry == "ptr" {
			var p struct {
				Cfg   string  `json:"cfg"`
				PI    int     `json:"pi"`
				V4    [4]byte `json:"v4"`
				Upper bool    `json:"upper"`
			}
			_ = json.Unmarshal(c.Replay, &p)
			if v := vkPTRCase(cfgBy[p.Cfg], p.PI, p.V4, p.Upper); !strings.HasPrefix(v, "ok") && v != "" {
				c.Violation(fmt.Sprintf("ptr:cfg=%s p%d %v", p.Cfg, p.PI, p.V4), v, nil)
			}
			return
		}
		cfg, ok := cfgBy[k.Cfg]
		sa, ok2 := aaaaBy[k.AAAA]
		sq, ok3 := aBy[k.A]
		cl, ok4 := clientBy[k.Client]
		if !ok || !ok2 || !ok3 || !ok4 {
			c.HarnessError("unknown replay case " + k.key())
			return
		}
		r, e := vkExec(cfg, cfg.build(), cl, k.QName, k.Flags, sa, sq, k.Entry, dns.TypeAAAA, nil)
		if e != "" {
			c.HarnessError(e)
			return
		}
		if v, _ := vkJudge(cfg, cl, k.QName, k.Flags, sa, r); v != "" {
			c.Violation(vkViolKey(k, v), k.key()+": "+v, nil)
		}
		return
	}

	flags := vkAllFlags()
	entries := []string{"msg"}
	as := vkAShapes(false)
	if c.Thorough() {
		entries = []string{"msg", "wire"}
		as = vkAShapes(true)
	}
	c.Note(fmt.Sprintf("handler: %d configs x %d clients x %d names x %d flag sets x %d AAAA shapes x %d A shapes x %d entry paths (+ PTR cases)",
		len(cfgs), len(vkClients), len(vkQNames), len(flags), len(aaaaShapes), len(as), len(entries)))

	var evals int64
	work := 0
	nviol := 0
	for _, cfg := range cfgs {
		for _, sa := range aaaaShapes {
			mine := c.Mine(work)
			work++
			if !mine {
				continue
			}
			if c.OverBudget() {
				c.Cap("handler: time budget hit")
				c.Add("evaluations", evals)
				return
			}
			d := cfg.build()
			if d == nil || len(d.cfg.prefixes) != len(cfg.Prefixes) {
				c.HarnessError("config " + cfg.Name + " did not compile to the configured prefixes")
				return
			}
			sampled := false
			for _, client := range vkClients {
				for _, qname := range vkQNames {
					// names only differ in zone-exclusion behaviour; skip the variants for configs without zones
					if len(cfg.ExclZones) == 0 && qname != vkQNames[0] {
						continue
					}
					for _, fl := range flags {
						for _, sq := range as {
							ens := entries
							if len(ens) == 1 && (sa.CachedMark || sa.LocalMark != "" || sa.EDE == 13 || sa.Name == "nodata" || sa.Name == "native") {
								// quick tier: the wire-born entry for the shapes whose recognition hangs on the request
								// tree's context (failure marks set by handlers below) and for the two plain shapes
								ens = []string{"msg", "wire"}
							}
							for _, en := range ens {
								if en == "wire" && fl.Internal {
									continue
								}
								r, e := vkExec(cfg, d, client, qname, fl, sa, sq, en, dns.TypeAAAA, nil)
								if e != "" {
									c.HarnessError(e)
									return
								}
								evals++
								v, lbl := vkJudge(cfg, client, qname, fl, sa, r)
								if v != "" {
									k := vkCase{Cfg: cfg.Name, Client: client.Name, QName: qname, Flags: fl, AAAA: sa.Name, A: sq.Name, Entry: en}
									r2, _ := vkExec(cfg, cfg.build(), client, qname, fl, sa, sq, en, dns.TypeAAAA, nil)
									if v2, _ := vkJudge(cfg, client, qname, fl, sa, r2); v2 == "" {
										c.HarnessError("handler violation did not reproduce: " + k.key() + ": " + v)
										return
									}
									vk := vkViolKey(k, v)
									c.Violation(vk, k.key()+": "+v, k)
									if vk == k.key() {
										nviol++ // class-keyed violations collapse by key and do not consume the cap
									}
									if nviol >= 2 {
										c.Add("evaluations", evals)
										return
									}
									continue
								}
								c.Outcome(lbl)
								if strings.HasPrefix(lbl, "synth") || strings.HasPrefix(lbl, "filtered") {
									c.DistinctStr("nontrivial", fmt.Sprintf("%s|%s|%s|%s|%s|%s|%s", cfg.Name, client.Name, qname, fl, sa.Name, sq.Name, en))
									if !sampled && len(r.reply.Answer) > 0 {
										sampled = true
										var ans []string
										for _, rr := range r.reply.Answer {
											ans = append(ans, rr.String())
										}
										c.Sample(map[string]any{"cfg": cfg.Prefixes, "aaaa_shape": sa.Name, "a_shape": sq.Name, "flags": fl.String(), "outcome": lbl, "reply_answer": ans})
									}
								}
							}
						}
					}
				}
			}
		}
	}

	// PTR translation
	for _, cfg := range cfgs {
		for pi := range cfg.prefixNets {
			mine := c.Mine(work)
			work++
			if !mine {
				continue
			}
			for _, v4 := range [][4]byte{{93, 184, 216, 34}, {10, 1, 2, 3}, {0, 0, 0, 0}, {255, 255, 255, 255}, {1, 2, 3, 4}, {192, 168, 7, 7}} {
				for _, upper := range []bool{false, true} {
					evals++
					v := vkPTRCase(cfg, pi, v4, upper)
					switch {
					case strings.HasPrefix(v, "HARNESS:"):
						c.HarnessError(v)
						return
					case strings.HasPrefix(v, "ok:"):
						c.Outcome("ptr:" + v[3:])
						c.DistinctStr("nontrivial", fmt.Sprintf("ptr|%s|%d|%v|%v", cfg.Name, pi, v4, upper))
					case v != "":
						c.Violation(fmt.Sprintf("ptr:cfg=%s p%d %v", cfg.Name, pi, v4), v,
							map[string]any{"entry": "ptr", "cfg": cfg.Name, "pi": pi, "v4": v4, "upper": upper})
					}
				}
			}
		}
	}
	c.Add("evaluations", evals)
}

// vkViolKey: a stable key for a handler violation. Two narrow classes that
// do not depend on client flags or configuration get a short class key (a
// reply from which EVERY upstream AAAA was filtered keeps AD; a zero AAAA
// negative TTL does not bound the synthesised TTL); every other violation is
// keyed by its full case, so a change that breaks the property elsewhere is
// never absorbed by those keys.
func vkViolKey(k vkCase, msg string) string {
	if strings.HasPrefix(msg, "[class:") {
		if i := strings.Index(msg, "] "); i > 0 {
			return "handler:" + msg[len("[class:"):i]
		}
	}
	return k.key()
}

var _ = bytes.Equal
