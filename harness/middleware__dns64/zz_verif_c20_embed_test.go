//go:build verif

package dns64

// C20 unit "embed" — synthesised addresses are exactly the RFC 6052 embedding,
// reversible, reserved octet and suffix zero, and the matching ip6.arpa name
// maps back to the same IPv4 address.
//
// Bounded-exhaustive: every legal prefix length x {all-zero, all-ones,
// pattern, pattern-with-host-bits} prefixes (taken through the real config
// path dns64.New) x IPv4 addresses where each of the four octets independently
// takes all 256 values, plus walking-bit and multiplicative pattern addresses
// (thorough: all 65,536 values of the high and of the low half-word). The
// embedding is byte-wise in every layout, so per-octet exhaustiveness covers
// byte placement completely. Every prefix length 0..128 is offered to the
// config; exactly the six legal ones may be accepted (and /96 only with a zero
// reserved octet). Every nibble position x every nibble value round-trips
// through the ip6.arpa parser.

import (
	"bytes"
	"encoding/json"
	"fmt"
	"net"
	"testing"

	"github.com/miekg/dns"
	"github.com/semihalev/sdns/config"
	"github.com/semihalev/sdns/internal/verifshim/vkit"
	"github.com/semihalev/zlog/v2"
)

type vkPfx struct {
	Cfg string `json:"cfg"` // as written in the config
	N   int    `json:"n"`
}

func vkEmbedPrefixes() []vkPfx {
	var out []vkPfx
	for _, n := range vkLegalLens {
		out = append(out, vkPfx{fmt.Sprintf("::/%d", n), n})
		if n == 96 {
			// the reserved octet (byte 8) must be zero in a /96
			out = append(out, vkPfx{"ffff:ffff:ffff:ffff:ff:ffff::/96", n})
			out = append(out, vkPfx{"2001:db8:1234:5678:9a:bcde::/96", n})
			out = append(out, vkPfx{"64:ff9b::/96", n})
			out = append(out, vkPfx{"2001:db8:1234:5678:9a:bcde:f012:3456/96", n}) // host bits set
		} else {
			out = append(out, vkPfx{fmt.Sprintf("ffff:ffff:ffff:ffff:ffff:ffff:ffff:ffff/%d", n), n}) // all ones incl. host bits and byte 8
			out = append(out, vkPfx{fmt.Sprintf("2001:db8:1234:5678:9abc:def0:1234:5678/%d", n), n})  // pattern, host bits and byte 8 set
			out = append(out, vkPfx{fmt.Sprintf("a5a5:5a5a:c3c3:3c3c::/%d", n), n})
		}
	}
	return out
}

func vkV4Set(thorough bool) [][4]byte {
	var out [][4]byte
	base := [4]byte{0xa5, 0x5a, 0xc3, 0x3c}
	for oct := 0; oct < 4; oct++ {
		for v := 0; v < 256; v++ {
			a := base
			a[oct] = byte(v)
			out = append(out, a)
		}
	}
	out = append(out, [4]byte{0, 0, 0, 0}, [4]byte{255, 255, 255, 255})
	for i := 0; i < 32; i++ { // walking one / walking zero
		x := uint32(1) << uint(i)
		out = append(out, [4]byte{byte(x >> 24), byte(x >> 16), byte(x >> 8), byte(x)})
		x = ^x
		out = append(out, [4]byte{byte(x >> 24), byte(x >> 16), byte(x >> 8), byte(x)})
	}
	for i := uint32(1); i <= 4096; i++ {
		x := i * 2654435761
		out = append(out, [4]byte{byte(x >> 24), byte(x >> 16), byte(x >> 8), byte(x)})
	}
	if thorough {
		for v := 0; v < 65536; v++ {
			out = append(out, [4]byte{byte(v >> 8), byte(v), 0xc3, 0x3c})
			out = append(out, [4]byte{0xa5, 0x5a, byte(v >> 8), byte(v)})
			out = append(out, [4]byte{0xa5, byte(v >> 8), byte(v), 0x3c})
		}
	}
	return out
}

func vkCompile(prefixes ...string) *DNS64 {
	return New(&config.Config{DNS64: config.DNS64Config{Enabled: true, Prefixes: prefixes,
		ExcludeANetworks: []string{}, ExcludeAAAANetworks: []string{}}})
}

// vkEmbedOne checks one (prefix, v4) pair on the real code; "" or a divergence.
func vkEmbedOne(pn *net.IPNet, pbits vkBits, n int, v4 [4]byte) string {
	want := vkRefEmbed(pbits, n, v4)
	wantIP := want.ip()
	got := embedIPv4(pn, net.IP(v4[:]))
	if !bytes.Equal(got.To16(), wantIP) {
		return fmt.Sprintf("embedIPv4(%s, %s) = %s, RFC 6052 says %s", pn, net.IP(v4[:]), got, wantIP)
	}
	if got.To16()[8] != 0 {
		return fmt.Sprintf("embedIPv4(%s, %s) = %s has a non-zero reserved octet (bits 64-71)", pn, net.IP(v4[:]), got)
	}
	// through the record constructor, with the 16-byte form miekg/dns hands out
	rr := synthesizeAAAA("x.example.", &dns.A{A: net.IPv4(v4[0], v4[1], v4[2], v4[3])}, pn, 60)
	if rr == nil || !bytes.Equal(rr.AAAA.To16(), wantIP) {
		return fmt.Sprintf("synthesizeAAAA(%s, %s) = %v, RFC 6052 says %s", pn, net.IP(v4[:]), rr, wantIP)
	}
	back, ok := extractIPv4(pn, got)
	if !ok || !bytes.Equal(back.To4(), v4[:]) {
		return fmt.Sprintf("extractIPv4(%s, %s) = (%v,%v), want %s: the embedding is not reversible", pn, got, back, ok, net.IP(v4[:]))
	}
	if rv, rok := vkRefExtract(pbits, n, vkBitsOf(got)); !rok || rv != v4 {
		return fmt.Sprintf("reference extraction of %s under %s gives (%v,%v), want %v", got, pn, rv, rok, v4)
	}
	// the PTR name of the synthesised address maps back to the same IPv4
	name := vkRefIP6Arpa(want, false)
	parsed, pok := parseIP6ArpaName(name)
	if !pok || !bytes.Equal(parsed.To16(), wantIP) {
		return fmt.Sprintf("parseIP6ArpaName(%s) = (%v,%v), want %s", name, parsed, pok, wantIP)
	}
	back2, ok2 := extractIPv4(pn, parsed)
	if !ok2 || !bytes.Equal(back2.To4(), v4[:]) {
		return fmt.Sprintf("ip6.arpa name of %s maps back to (%v,%v), want %s", wantIP, back2, ok2, net.IP(v4[:]))
	}
	if ia := inAddrArpa(back2); ia != vkRefInAddrArpa(v4) {
		return fmt.Sprintf("inAddrArpa(%s) = %s, want %s", back2, ia, vkRefInAddrArpa(v4))
	}
	// NOT an embedding: the same address with a non-zero reserved octet (bits 64-71; outside the prefix for every
	// length but /96, where the configuration already demands a zero octet). It must not map back: otherwise two
	// distinct ip6.arpa names translate to one IPv4 address and the embedding is not reversible.
	if n <= 64 {
		for _, u := range []byte{0x01, 0x80, 0xff} {
			bad := append(net.IP(nil), wantIP...)
			bad[8] = u
			if v, ok := extractIPv4(pn, bad); ok {
				return fmt.Sprintf("extractIPv4(%s, %s) = (%v, true) although the reserved octet (bits 64-71) is %#02x: not an RFC 6052 embedding", pn, bad, v, u)
			}
			if _, rok := vkRefExtract(pbits, n, vkBitsOf(bad)); rok {
				return fmt.Sprintf("harness: the reference extraction accepts %s under %s", bad, pn)
			}
		}
	}
	return ""
}

// vkConfigLen offers "<addr>/n" to the config and reports whether it was accepted as a Pref64.
func vkConfigLen(addr string, n int) (accepted bool, detail string) {
	s := fmt.Sprintf("%s/%d", addr, n)
	d := vkCompile(s)
	if d == nil {
		return false, "New returned nil"
	}
	for _, p := range d.cfg.prefixes {
		bits, _ := p.net.Mask.Size()
		if bits == n && !(n == 96 && p.wellKnown) {
			return true, p.net.String()
		}
	}
	return false, ""
}

func TestVerifC20Embed(t *testing.T) {
	c := vkit.Init("C20/embed")
	defer c.Close()
	zlog.SetLevel(zlog.LevelFatal)

	pfx := vkEmbedPrefixes()
	if c.Replay != nil {
		var r struct {
			Scenario string  `json:"scenario"`
			Pfx      vkPfx   `json:"pfx"`
			V4       [4]byte `json:"v4"`
			Addr     string  `json:"addr"`
			N        int     `json:"n"`
			Nibble   int     `json:"nibble"`
			Val      int     `json:"val"`
		}
		if err := json.Unmarshal(c.Replay, &r); err != nil {
			c.HarnessError("bad replay: " + err.Error())
			return
		}
		switch r.Scenario {
		case "embed":
			d := vkCompile(r.Pfx.Cfg)
			pn := d.cfg.prefixes[0].net
			_, ref, _ := net.ParseCIDR(r.Pfx.Cfg)
			if v := vkEmbedOne(pn, vkMaskBits(vkBitsOf(ref.IP), r.Pfx.N), r.Pfx.N, r.V4); v != "" {
				c.Violation(fmt.Sprintf("embed:%s:%v", r.Pfx.Cfg, r.V4), v, nil)
			}
		case "length":
			if v := vkLengthCase(r.Addr, r.N); v != "" {
				c.Violation(fmt.Sprintf("length:%s/%d", r.Addr, r.N), v, nil)
			}
		case "nibble":
			if v := vkNibbleCase(r.Nibble, r.Val); v != "" {
				c.Violation(fmt.Sprintf("nibble:%d=%x", r.Nibble, r.Val), v, nil)
			}
		default:
			c.HarnessError("unknown replay scenario " + r.Scenario)
		}
		return
	}

	v4s := vkV4Set(c.Thorough())
	c.Note(fmt.Sprintf("embed: %d prefixes over lengths %v x %d IPv4 addresses; prefix lengths 0..128 x 3 base addresses offered to the config; 32 nibble positions x 16 values x 2 cases",
		len(pfx), vkLegalLens, len(v4s)))

	work := 0
	var evals int64
	for _, p := range pfx {
		mine := c.Mine(work)
		work++
		if !mine {
			continue
		}
		d := vkCompile(p.Cfg)
		_, ref, err := net.ParseCIDR(p.Cfg)
		if err != nil {
			c.HarnessError("bad harness prefix " + p.Cfg)
			return
		}
		if d == nil || len(d.cfg.prefixes) != 1 {
			c.HarnessError("config did not yield exactly one prefix for " + p.Cfg)
			return
		}
		pn := d.cfg.prefixes[0].net
		if bits, _ := pn.Mask.Size(); bits != p.N || !pn.IP.Equal(ref.IP) {
			c.Violation("accept:"+p.Cfg, fmt.Sprintf("legal Pref64 %s was not taken over as configured: compiled prefix is %s", p.Cfg, pn), map[string]any{"scenario": "length", "addr": ref.IP.String(), "n": p.N})
			continue
		}
		pbits := vkMaskBits(vkBitsOf(ref.IP), p.N)
		bad := 0
		for _, v4 := range v4s {
			evals++
			if v := vkEmbedOne(pn, pbits, p.N, v4); v != "" {
				if vkEmbedOne(vkCompile(p.Cfg).cfg.prefixes[0].net, pbits, p.N, v4) == "" {
					c.HarnessError("embed divergence did not reproduce: " + v)
					return
				}
				c.Violation(fmt.Sprintf("embed:%s:%v", p.Cfg, v4), v, map[string]any{"scenario": "embed", "pfx": p, "v4": v4})
				bad++
				if bad >= 3 {
					break
				}
			}
		}
		c.DistinctStr("nontrivial", "embed|"+p.Cfg)
		c.Outcome(fmt.Sprintf("embed:/%d:matches-rfc6052+reversible+ptr", p.N))
		c.Sample(map[string]any{"prefix": p.Cfg, "v4": "165.90.195.60", "embedded": embedIPv4(pn, net.IP{0xa5, 0x5a, 0xc3, 0x3c}).String(),
			"ptr": vkRefIP6Arpa(vkRefEmbed(pbits, p.N, [4]byte{0xa5, 0x5a, 0xc3, 0x3c}), false)})
	}

	// every prefix length 0..128
	for _, addr := range []string{"2001:db8:1234:5678::", "::", "2001:db8:1234:5678:9a:bcde::"} {
		for n := 0; n <= 128; n++ {
			mine := c.Mine(work)
			work++
			if !mine {
				continue
			}
			evals++
			if v := vkLengthCase(addr, n); v != "" {
				c.Violation(fmt.Sprintf("length:%s/%d", addr, n), v, map[string]any{"scenario": "length", "addr": addr, "n": n})
				continue
			}
			if vkLegal(n) {
				c.Outcome("config:legal-length-accepted")
			} else {
				c.Outcome("config:illegal-length-rejected")
				c.DistinctStr("nontrivial", fmt.Sprintf("length|%s|%d", addr, n))
			}
		}
	}
	// /96 with a non-zero reserved octet, and an IPv4 "prefix"
	if c.Mine(work) {
		for _, s := range []string{"2001:db8:1234:5678:ff00::/96", "2001:db8:0:0:100::/96", "10.0.0.0/8", "192.0.2.0/32"} {
			evals++
			d := vkCompile(s)
			for _, p := range d.cfg.prefixes {
				if !p.wellKnown {
					c.Violation("reserved:"+s, fmt.Sprintf("config accepted %s as a Pref64 (compiled %s): reserved octet must be zero / prefix must be IPv6", s, p.net), nil)
				}
			}
			c.Outcome("config:bad-prefix-rejected")
		}
	}
	work++

	// ip6.arpa parser: every nibble position x every value, lower and upper case
	for nib := 0; nib < 32; nib++ {
		mine := c.Mine(work)
		work++
		if !mine {
			continue
		}
		for val := 0; val < 16; val++ {
			evals += 2
			if v := vkNibbleCase(nib, val); v != "" {
				c.Violation(fmt.Sprintf("nibble:%d=%x", nib, val), v, map[string]any{"scenario": "nibble", "nibble": nib, "val": val})
				continue
			}
			c.DistinctStr("nontrivial", fmt.Sprintf("nibble|%d|%d", nib, val))
		}
		c.Outcome("ip6.arpa:nibble-roundtrip")
	}
	c.Add("evaluations", evals)
}

// vkLengthCase: exactly the six RFC 6052 lengths are accepted.
func vkLengthCase(addr string, n int) string {
	acc, det := vkConfigLen(addr, n)
	legal := vkLegal(n)
	if n == 96 {
		// acceptance at /96 additionally needs a zero reserved octet; the addresses used here have one
		ip := net.ParseIP(addr).To16()
		if ip[8] != 0 {
			legal = false
		}
	}
	if acc && !legal {
		return fmt.Sprintf("config accepted %s/%d as a Pref64 (compiled %s); RFC 6052 allows only /32 /40 /48 /56 /64 /96", addr, n, det)
	}
	if !acc && legal {
		return fmt.Sprintf("config rejected the legal Pref64 %s/%d", addr, n)
	}
	return ""
}

// vkNibbleCase: an address whose nibble #nib is val (others patterned) survives name -> parse.
func vkNibbleCase(nib, val int) string {
	var b vkBits
	pat := net.ParseIP("2001:db8:1234:5678:9abc:def0:1357:9bdf").To16()
	b = vkBitsOf(pat)
	for k := 0; k < 4; k++ {
		b[nib*4+k] = byte(val>>uint(3-k)) & 1
	}
	for _, upper := range []bool{false, true} {
		name := vkRefIP6Arpa(b, upper)
		got, ok := parseIP6ArpaName(name)
		if !ok || !bytes.Equal(got.To16(), b.ip()) {
			return fmt.Sprintf("parseIP6ArpaName(%s) = (%v,%v), want %s", name, got, ok, b.ip())
		}
	}
	return ""
}
