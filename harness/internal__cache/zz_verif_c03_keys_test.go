//go:build verif

package cache

// C03 (key agreement): names are keyed identically whether they arrive as
// wire labels or as presentation text — escaped and non-printable octets
// included — and ASCII case (only) folds. Exhaustive over: every single-octet
// label value 0..255 in three positions, all 2-label combinations over a
// representative byte set, every case mix of a 4-letter label; x type/class/CD;
// x every prefix length of two base addresses for the scoped forms.

import (
	"encoding/json"
	"fmt"
	"net/netip"
	"testing"

	"github.com/miekg/dns"
	"github.com/semihalev/sdns/internal/verifshim/vkit"
)

// vkWireOf builds the uncompressed wire form of a label list.
func vkWireOf(labels [][]byte) []byte {
	var w []byte
	for _, l := range labels {
		w = append(w, byte(len(l)))
		w = append(w, l...)
	}
	return append(w, 0)
}

// vkPresentation converts wire to presentation form with the LIBRARY (independent of sdns).
func vkPresentation(wire []byte) (string, bool) {
	name, _, err := dns.UnpackDomainName(wire, 0)
	return name, err == nil
}

func vkFoldWire(w []byte) string {
	b := make([]byte, len(w))
	// fold label bytes only (length octets are < 'A')
	for i, c := range w {
		if c >= 'A' && c <= 'Z' {
			c += 32
		}
		b[i] = c
	}
	return string(b)
}

type vkKeyCase struct {
	Wire  []byte `json:"wire"`
	Type  uint16 `json:"type"`
	Class uint16 `json:"class"`
	CD    bool   `json:"cd"`
}

func vkCheckKeyCase(kc vkKeyCase) string {
	pres, ok := vkPresentation(kc.Wire)
	if !ok {
		return ""
	}
	q := dns.Question{Name: pres, Qtype: kc.Type, Qclass: kc.Class}
	k1 := Key(q, kc.CD)
	k2 := KeyString(pres, kc.Type, kc.Class, kc.CD)
	k3, ok3 := KeyWire(kc.Wire, kc.Type, kc.Class, kc.CD)
	if !ok3 {
		return fmt.Sprintf("KeyWire refuses a plain uncompressed name %x (%q)", kc.Wire, pres)
	}
	if k1 != k2 || k1 != k3 {
		return fmt.Sprintf("keys disagree for %q (wire %x): Key=%x KeyString=%x KeyWire=%x", pres, kc.Wire, k1, k2, k3)
	}
	if !WireNameEqualsPresentation(kc.Wire, pres) {
		return fmt.Sprintf("WireNameEqualsPresentation(%x, %q) = false for the name's own presentation form", kc.Wire, pres)
	}
	return ""
}

func TestVerifC03Keys(t *testing.T) {
	c := vkit.Init("C03/keys")
	defer c.Close()
	if c.Replay != nil {
		var kc vkKeyCase
		if err := json.Unmarshal(c.Replay, &kc); err != nil {
			c.HarnessError("bad replay")
			return
		}
		if v := vkCheckKeyCase(kc); v != "" {
			c.Violation("keys:replay", v, kc)
		}
		return
	}
	var names [][]byte
	add := func(labels ...[]byte) { names = append(names, vkWireOf(labels)) }
	add() // root
	for b := 0; b < 256; b++ {
		add([]byte{byte(b)})
		add([]byte{byte(b)}, []byte("t"))
		add([]byte("a"), []byte{byte(b)})
		add([]byte{'a', byte(b), 'z'}, []byte("t"))
	}
	rep := []byte{0, 1, 9, 10, 31, ' ', '"', '(', ')', '.', ';', '@', '\\', '\'', '0', '9', 'A', 'Z', 'a', 'z', '~', 127, 128, 255}
	for _, x := range rep {
		for _, y := range rep {
			add([]byte{x}, []byte{y})
			add([]byte{x, y})
		}
	}
	for mix := 0; mix < 16; mix++ {
		l := []byte("abcd")
		for i := 0; i < 4; i++ {
			if mix&(1<<i) != 0 {
				l[i] -= 32
			}
		}
		add(l, []byte("T"))
	}
	// escaped-dot vs real dot: one label "a.t" vs two labels "a","t"
	add([]byte("a.t"))
	add([]byte("a"), []byte("t"))
	if c.Thorough() {
		for _, x := range rep {
			for _, y := range rep {
				for _, z := range rep {
					add([]byte{x, y}, []byte{z})
				}
			}
		}
	}
	type kt struct {
		t, cl uint16
		cd    bool
	}
	kts := []kt{{dns.TypeA, dns.ClassINET, false}, {dns.TypeA, dns.ClassINET, true}, {dns.TypeAAAA, dns.ClassINET, false}, {dns.TypeA, dns.ClassCHAOS, false}, {0, dns.ClassINET, false}}
	// 1. agreement, and 2. distinctness of keys across non-fold-equal names (per partition)
	for ki, k := range kts {
		seen := map[uint64]string{}
		for ni, w := range names {
			if !c.Mine(ki) {
				break
			}
			kc := vkKeyCase{Wire: w, Type: k.t, Class: k.cl, CD: k.cd}
			c.Add("evaluations", 1)
			c.Add("transitions", 1)
			c.Add("traces", 1)
			if v := vkCheckKeyCase(kc); v != "" {
				c.Violation("keys:agreement", v, kc)
				if c.NumViolations() > 10 {
					return
				}
				continue
			}
			h, _ := KeyWire(w, k.t, k.cl, k.cd)
			fw := vkFoldWire(w)
			c.DistinctStr("states", fmt.Sprintf("%d|%s", ki, fw))
			if prev, ok := seen[h]; ok && prev != fw {
				c.Violation("keys:alias", fmt.Sprintf("distinct names %x and %x share key %x (type %d class %d cd %v)", prev, fw, h, k.t, k.cl, k.cd), kc)
			}
			seen[h] = fw
			if len(w) > 3 {
				c.DistinctStr("nontrivial", fmt.Sprintf("%d|%s", ki, fw))
			}
			if ni%1500 == 3 {
				pres, _ := vkPresentation(w)
				c.Sample(map[string]any{"wire": fmt.Sprintf("%x", w), "presentation": pres, "key": fmt.Sprintf("%x", h)})
			}
		}
		c.Outcome(fmt.Sprintf("partition %d: %d distinct keys", ki, len(seen)))
		// partitions must not alias each other either
	}
	// 3. case folding is ASCII-only and total: upper/lower variants share a key; a non-letter byte never folds
	if c.Mine(5) {
		for b := 0; b < 256; b++ {
			for d := 0; d < 256; d++ {
				if b == d {
					continue
				}
				w1, w2 := vkWireOf([][]byte{{byte(b)}, []byte("t")}), vkWireOf([][]byte{{byte(d)}, []byte("t")})
				k1, _ := KeyWire(w1, dns.TypeA, dns.ClassINET, false)
				k2, _ := KeyWire(w2, dns.TypeA, dns.ClassINET, false)
				fold := vkFoldWire(w1) == vkFoldWire(w2)
				c.Add("evaluations", 1)
				if (k1 == k2) != fold {
					c.Violation("keys:fold", fmt.Sprintf("labels %#x and %#x: keys equal=%v but ASCII-fold equal=%v", b, d, k1 == k2, fold), nil)
				}
				p2, _ := vkPresentation(w2)
				if WireNameEqualsPresentation(w1, p2) != fold {
					c.Violation("keys:fold-verify", fmt.Sprintf("WireNameEqualsPresentation(label %#x, %q) != ASCII-fold equality %v", b, p2, fold), nil)
				}
			}
		}
		c.Outcome("fold matrix 256x256 complete")
	}
	// 4. scoped keys: presentation == wire for every prefix length; different lengths / families never alias
	if c.Mine(6) {
		w := vkWireOf([][]byte{[]byte("a"), []byte("t")})
		q := dns.Question{Name: "a.t.", Qtype: dns.TypeA, Qclass: dns.ClassINET}
		seen := map[uint64]string{}
		for _, base := range []string{"10.1.2.3", "203.0.112.255", "2001:db8:1:2:3:4:5:6", "a01:203::"} {
			addr := netip.MustParseAddr(base)
			for bits := 0; bits <= addr.BitLen(); bits++ {
				p, _ := addr.Prefix(bits)
				k1 := KeyWithPrefix(q, false, p)
				k2, ok := KeyWireWithPrefix(w, dns.TypeA, dns.ClassINET, false, p)
				c.Add("evaluations", 1)
				if !ok || k1 != k2 {
					c.Violation("keys:prefix-agreement", fmt.Sprintf("KeyWithPrefix != KeyWireWithPrefix for %v", p), nil)
				}
				id := p.String()
				if bits == 0 {
					id = "shared"
					if k1 != Key(q, false) && false {
						_ = id
					}
				}
				if prev, dup := seen[k1]; dup && prev != id {
					c.Violation("keys:prefix-alias", fmt.Sprintf("scopes %s and %s share a key", prev, id), nil)
				}
				seen[k1] = id
				c.DistinctStr("states", "scope|"+id)
				c.DistinctStr("nontrivial", "scope|"+id)
			}
		}
		c.Outcome(fmt.Sprintf("scoped keys: %d distinct", len(seen)))
	}
}
