//go:build verif

package cache

import (
	"encoding/json"
	"fmt"
	"sort"
	"strings"
	"sync"
	"testing"

	"github.com/semihalev/sdns/internal/verifshim/sched"
	"github.com/semihalev/sdns/internal/verifshim/vkit"
	"github.com/semihalev/sdns/internal/verifshim/vsync"
)

// One recorded call of a concurrent history.
type vkCall struct {
	T        int
	Op       vkCOp
	Call     int // logical time of invocation
	Ret      int // logical time of return
	ResOK    bool
	ResVal   int
	Iterated [][2]int // foreach: (key index, value index)
}

type vkConcScenario struct {
	Name     string    `json:"name"`
	Capacity int       `json:"capacity"`
	Prefill  []vkCOp   `json:"prefill"`
	Threads  [][]vkCOp `json:"threads"`
}

func (s vkConcScenario) String() string {
	var b strings.Builder
	fmt.Fprintf(&b, "cap=%d pre=[%s]", s.Capacity, vkCHistStr(s.Prefill))
	for i, t := range s.Threads {
		fmt.Fprintf(&b, " T%d=[%s]", i, vkCHistStr(t))
	}
	return b.String()
}

type vkConcWorld struct {
	c        *Cache
	keys     []uint64
	sc       vkConcScenario
	hist     []vkCall
	mu       sync.Mutex // protects hist in free-running mode only
	clock    func() int
	inAdd    []bool
	held     []int            // locks held per thread
	lockUse  map[any]map[int]bool // lock -> set of segments-of-op-key that write-locked it
	curSeg   []int
	nested   string
}

func (w *vkConcWorld) physCount() int {
	n := 0
	for _, s := range w.c.data.data.segments {
		n += s.data.size
	}
	return n
}

func (w *vkConcWorld) do(t int, o vkCOp) {
	call := vkCall{T: t, Op: o, Call: w.clock()}
	k := w.keys[o.K]
	if w.curSeg != nil {
		w.curSeg[t] = int(w.c.data.data.getSegmentIndex(k))
	}
	switch o.Op {
	case "add":
		w.inAdd[t] = true
		w.c.Add(k, vkVals[o.V])
		w.inAdd[t] = false
	case "rem":
		w.c.Remove(k)
	case "get":
		v, ok := w.c.Get(k)
		call.ResOK = ok
		call.ResVal = vkValIdx(v)
	case "cas":
		call.ResOK = w.c.CompareAndSwap(k, vkOld(o.Old), vkVals[o.V])
	case "cad":
		call.ResOK = w.c.CompareAndDelete(k, vkOld(o.Old))
	case "foreach":
		w.c.ForEach(func(key uint64, v any) bool {
			ki := -1
			for i, kk := range w.keys {
				if kk == key {
					ki = i
				}
			}
			call.Iterated = append(call.Iterated, [2]int{ki, vkValIdx(v)})
			return true
		})
	case "len":
		call.ResVal = w.c.Len()
	case "clear": // the table's own Clear (exported by the table type behind Cache; documented as segment-by-segment)
		if w.curSeg != nil {
			w.curSeg[t] = -1 // touches every segment by design: not a writer "to one segment"
		}
		w.c.data.Clear()
	}
	call.Ret = w.clock()
	w.mu.Lock()
	w.hist = append(w.hist, call)
	w.mu.Unlock()
}

var vkFresh = new(int)

func vkOld(i int) any {
	if i >= 0 {
		return vkVals[i]
	}
	return vkFresh
}

// ---- linearizability against a map with an eviction wildcard (brute force).

type vkLinState map[int]int

func (s vkLinState) key() string {
	ks := make([]int, 0, len(s))
	for k := range s {
		ks = append(ks, k)
	}
	sort.Ints(ks)
	var b strings.Builder
	for _, k := range ks {
		fmt.Fprintf(&b, "%d=%d,", k, s[k])
	}
	return b.String()
}

func (s vkLinState) clone() vkLinState {
	c := vkLinState{}
	for k, v := range s {
		c[k] = v
	}
	return c
}

// vkStep applies call to state, returning the set of possible successor states
// (eviction makes add nondeterministic) or nil when the observed result is impossible.
func vkStep(s vkLinState, c vkCall, evict bool) []vkLinState {
	switch c.Op.Op {
	case "add":
		n := s.clone()
		n[c.Op.K] = c.Op.V
		return []vkLinState{n}
	case "evict":
		// one unit of the eviction toll of an add: at most ONE other key, at any moment between
		// the insert and the add's return (never the writer's own key). An add pays up to two
		// units and they need not be simultaneous (own segment first, spill segments later).
		out := []vkLinState{s}
		for k := range s {
			if k != c.Op.K {
				a := s.clone()
				delete(a, k)
				out = append(out, a)
			}
		}
		return out
	case "rem":
		n := s.clone()
		delete(n, c.Op.K)
		return []vkLinState{n}
	case "clrkey":
		// Clear works segment by segment: every key is removed (or, when it was stored after its segment
		// had been passed, not) at some moment of its own inside the call's interval
		n := s.clone()
		delete(n, c.Op.K)
		return []vkLinState{s, n}
	case "get":
		v, ok := s[c.Op.K]
		if ok != c.ResOK || (ok && v != c.ResVal) {
			return nil
		}
		return []vkLinState{s}
	case "cas":
		v, ok := s[c.Op.K]
		want := ok && c.Op.Old >= 0 && v == c.Op.Old
		if want != c.ResOK {
			return nil
		}
		if want {
			n := s.clone()
			n[c.Op.K] = c.Op.V
			return []vkLinState{n}
		}
		return []vkLinState{s}
	case "cad":
		v, ok := s[c.Op.K]
		want := ok && c.Op.Old >= 0 && v == c.Op.Old
		if want != c.ResOK {
			return nil
		}
		if want {
			n := s.clone()
			delete(n, c.Op.K)
			return []vkLinState{n}
		}
		return []vkLinState{s}
	}
	return []vkLinState{s} // foreach / len: not linearised (documented non-atomic)
}

// vkLinearizable searches for a linearisation whose final state can equal final.
func vkLinearizable(init vkLinState, calls0 []vkCall, final vkLinState, evict bool) bool {
	calls := append([]vkCall{}, calls0...)
	after := map[int]int{} // pseudo-call index -> index of the add it belongs to
	if evict {
		for i, c := range calls0 {
			if c.Op.Op == "add" {
				for unit := 0; unit < 2; unit++ {
					e := c
					e.Op.Op = "evict"
					after[len(calls)] = i
					calls = append(calls, e)
				}
			}
		}
	}
	for _, c := range calls0 {
		if c.Op.Op == "clear" {
			for k := 0; k < 6; k++ {
				e := c
				e.Op.Op = "clrkey"
				e.Op.K = k
				calls = append(calls, e)
			}
		}
	}
	n := len(calls)
	used := make([]bool, n)
	// Whether the remaining calls can be ordered depends only on WHICH calls remain and on the set of reference
	// states reached: a (remaining, states) pair that failed once fails always. Without this memo a history of
	// many mutually overlapping pseudo-calls (clear = 6 per-key removals, evictions) costs a factorial.
	failed := map[string]bool{}
	memoKey := func(states []vkLinState) string {
		var mask uint64
		for i, u := range used {
			if u {
				mask |= 1 << uint(i)
			}
		}
		ks := make([]string, len(states))
		for i, s := range states {
			ks[i] = s.key()
		}
		sort.Strings(ks)
		return fmt.Sprintf("%x|%s", mask, strings.Join(ks, ";"))
	}
	var rec func(states []vkLinState, done int) bool
	rec = func(states []vkLinState, done int) bool {
		if done == n {
			fk := final.key()
			for _, s := range states {
				if s.key() == fk {
					return true
				}
			}
			return false
		}
		mk := ""
		if n <= 64 {
			mk = memoKey(states)
			if failed[mk] {
				return false
			}
		}
		for i := 0; i < n; i++ {
			if used[i] {
				continue
			}
			// i may be next only if no other pending call returned before i was invoked
			ok := true
			if a, isEv := after[i]; isEv && !used[a] {
				continue
			}
			for j := 0; j < n; j++ {
				if !used[j] && j != i && calls[j].Ret < calls[i].Call {
					ok = false
					break
				}
			}
			if !ok {
				continue
			}
			var next []vkLinState
			seen := map[string]bool{}
			for _, s := range states {
				for _, s2 := range vkStep(s, calls[i], evict) {
					if k := s2.key(); !seen[k] {
						seen[k] = true
						next = append(next, s2)
					}
				}
			}
			if len(next) == 0 {
				continue
			}
			used[i] = true
			if rec(next, done+1) {
				used[i] = false
				return true
			}
			used[i] = false
		}
		if mk != "" {
			failed[mk] = true
		}
		return false
	}
	return rec([]vkLinState{init}, 0)
}

func vkHistString(h []vkCall) string {
	var b strings.Builder
	for _, c := range h {
		fmt.Fprintf(&b, "T%d %v", c.T, c.Op)
		switch c.Op.Op {
		case "get":
			fmt.Fprintf(&b, "->(v%d,%v)", c.ResVal, c.ResOK)
		case "cas", "cad":
			fmt.Fprintf(&b, "->%v", c.ResOK)
		case "foreach":
			fmt.Fprintf(&b, "->%v", c.Iterated)
		}
		fmt.Fprintf(&b, "@[%d,%d]; ", c.Call, c.Ret)
	}
	return b.String()
}

// vkFinalCheck runs at quiescence.
func (w *vkConcWorld) finalCheck(init vkLinState) (string, string) {
	final := vkLinState{}
	for ki, k := range w.keys {
		if v, ok := w.c.Get(k); ok {
			final[ki] = vkValIdx(v)
		}
	}
	outcome := final.key() + "|" + vkResults(w.hist)
	if w.nested != "" {
		return w.nested, outcome
	}
	if w.c.Len() != len(final) {
		return fmt.Sprintf("at quiescence Len()=%d but %d entries are reachable (%s); history: %s", w.c.Len(), len(final), final.key(), vkHistString(w.hist)), outcome
	}
	n := 0
	w.c.ForEach(func(uint64, any) bool { n++; return true })
	if n != len(final) || w.physCount() != len(final) {
		return fmt.Sprintf("at quiescence ForEach yields %d / tables hold %d entries but %d are reachable; history: %s", n, w.physCount(), len(final), vkHistString(w.hist)), outcome
	}
	if w.c.Len() > w.sc.Capacity {
		return fmt.Sprintf("at quiescence Len()=%d exceeds capacity %d; history: %s", w.c.Len(), w.sc.Capacity, vkHistString(w.hist)), outcome
	}
	// ever-stored values per key, for ForEach results
	stored := map[[2]int]bool{}
	for k, v := range init {
		stored[[2]int{k, v}] = true
	}
	for _, c := range w.hist {
		if c.Op.Op == "add" || c.Op.Op == "cas" {
			stored[[2]int{c.Op.K, c.Op.V}] = true
		}
	}
	for _, c := range w.hist {
		if c.Op.Op != "foreach" {
			continue
		}
		dup := map[int]bool{}
		for _, kv := range c.Iterated {
			if dup[kv[0]] {
				return fmt.Sprintf("ForEach yielded key k%d twice; history: %s", kv[0], vkHistString(w.hist)), outcome
			}
			dup[kv[0]] = true
			if !stored[kv] {
				return fmt.Sprintf("ForEach yielded (k%d,v%d) which was never stored; history: %s", kv[0], kv[1], vkHistString(w.hist)), outcome
			}
		}
	}
	evict := w.sc.Capacity < 50
	if !vkLinearizable(init, w.hist, final, evict) {
		return fmt.Sprintf("history is not linearizable w.r.t. a map (eviction wildcard=%v), final={%s}: %s", evict, final.key(), vkHistString(w.hist)), outcome
	}
	return "", outcome
}

func vkResults(h []vkCall) string {
	// order-insensitive summary of per-thread results
	s := make([]string, 0, len(h))
	for _, c := range h {
		switch c.Op.Op {
		case "get":
			s = append(s, fmt.Sprintf("T%d:%v=%d/%v", c.T, c.Op, c.ResVal, c.ResOK))
		case "cas", "cad":
			s = append(s, fmt.Sprintf("T%d:%v=%v", c.T, c.Op, c.ResOK))
		}
	}
	sort.Strings(s)
	return strings.Join(s, ";")
}

func vkConcBuild(sc vkConcScenario) (*vkConcWorld, vkLinState) {
	// 16 segments (the constructor's minimum) instead of New()'s fixed 256 keeps
	// ForEach / the spill loop at 16 lock pairs; same code, same per-segment tables.
	w := &vkConcWorld{c: &Cache{data: &SyncUInt64Map[any]{data: NewSegmentUInt64Map[any](4, 128)}, maxSize: int64(sc.Capacity)}, sc: sc}
	w.keys = vkCacheKeys(w.c)
	init := vkLinState{}
	for _, o := range sc.Prefill {
		w.c.Add(w.keys[o.K], vkVals[o.V])
		init[o.K] = o.V
	}
	for ki := range init {
		if _, ok := w.c.Get(w.keys[ki]); !ok {
			delete(init, ki)
		}
	}
	w.inAdd = make([]bool, len(sc.Threads))
	return w, init
}

// vkConcScenarioFn adapts a scenario to the scheduler.
func vkConcScenarioFn(sc vkConcScenario) sched.Scenario {
	return func(r *sched.Run) func() (string, string) {
		w, init := vkConcBuild(sc)
		w.clock = r.StepCount
		w.held = make([]int, len(sc.Threads))
		w.curSeg = make([]int, len(sc.Threads))
		w.lockUse = map[any]map[int]bool{}
		vsync.LockMonitor = func(ev string, obj any) {
			t := r.Current().ID
			switch ev {
			case "lock", "rlock":
				w.held[t]++
				if w.held[t] > 1 && w.nested == "" {
					w.nested = fmt.Sprintf("thread T%d holds two segment locks at once (%s)", t, sc)
				}
				if ev == "lock" && sc.Capacity >= 50 && w.curSeg[t] >= 0 {
					m := w.lockUse[obj]
					if m == nil {
						m = map[int]bool{}
						w.lockUse[obj] = m
					}
					m[w.curSeg[t]] = true
					if len(m) > 1 && w.nested == "" {
						w.nested = fmt.Sprintf("writers to different segments queue on one lock (global lock) (%s)", sc)
					}
				}
			case "unlock", "runlock":
				w.held[t]--
			}
		}
		r.Monitor = func() string {
			writers := 0
			for _, b := range w.inAdd {
				if b {
					writers++
				}
			}
			if n := w.physCount(); n > sc.Capacity+writers {
				return fmt.Sprintf("occupancy %d exceeds capacity %d + %d writers in flight", n, sc.Capacity, writers)
			}
			return ""
		}
		for ti, ops := range sc.Threads {
			ti, ops := ti, ops
			r.Go(fmt.Sprintf("T%d", ti), func() {
				for _, o := range ops {
					w.do(ti, o)
				}
			})
		}
		return func() (string, string) {
			vsync.LockMonitor = nil
			return w.finalCheck(init)
		}
	}
}

// vkConcOps is the per-thread operation alphabet.
func vkConcOps() []vkCOp {
	return []vkCOp{
		{Op: "add", K: 0, V: 1}, {Op: "add", K: 1, V: 1}, {Op: "add", K: 3, V: 1}, {Op: "add", K: 5, V: 1},
		{Op: "rem", K: 0}, {Op: "get", K: 0}, {Op: "get", K: 1},
		{Op: "cas", K: 0, Old: 0, V: 2}, {Op: "cad", K: 0, Old: 0}, {Op: "cad", K: 1, Old: 0},
		{Op: "foreach"},
	}
}

func vkConcScenarios(thorough bool) []vkConcScenario {
	ops := vkConcOps()
	var out []vkConcScenario
	prefills := []struct {
		cap int
		pre []vkCOp
	}{
		{2, []vkCOp{{Op: "add", K: 0, V: 0}, {Op: "add", K: 1, V: 0}}},
		{100, []vkCOp{{Op: "add", K: 0, V: 0}, {Op: "add", K: 1, V: 0}}},
	}
	if thorough {
		prefills = append(prefills, struct {
			cap int
			pre []vkCOp
		}{3, []vkCOp{{Op: "add", K: 0, V: 0}, {Op: "add", K: 3, V: 0}}}, struct {
			cap int
			pre []vkCOp
		}{1, []vkCOp{{Op: "add", K: 0, V: 0}}})
	}
	// all multisets of 3 single-op threads with at least one writer
	for _, p := range prefills {
		for a := 0; a < len(ops); a++ {
			for b := a; b < len(ops); b++ {
				for c := b; c < len(ops); c++ {
					w := 0
					for _, o := range []vkCOp{ops[a], ops[b], ops[c]} {
						if o.Op == "add" || o.Op == "rem" || o.Op == "cas" || o.Op == "cad" || o.Op == "clear" {
							w++
						}
					}
					if w == 0 {
						continue
					}
					out = append(out, vkConcScenario{Capacity: p.cap, Prefill: p.pre,
						Threads: [][]vkCOp{{ops[a]}, {ops[b]}, {ops[c]}}})
				}
			}
		}
	}
	// 2 threads x 2 ops: writer pairs followed by reads
	two := [][]vkCOp{
		{{Op: "add", K: 0, V: 1}, {Op: "get", K: 0}},
		{{Op: "add", K: 1, V: 1}, {Op: "get", K: 0}},
		{{Op: "rem", K: 0}, {Op: "add", K: 0, V: 2}},
		{{Op: "cas", K: 0, Old: 0, V: 2}, {Op: "get", K: 0}},
		{{Op: "cad", K: 0, Old: 0}, {Op: "add", K: 3, V: 1}},
		{{Op: "add", K: 3, V: 1}, {Op: "add", K: 5, V: 1}},
		{{Op: "get", K: 0}, {Op: "cad", K: 0, Old: 1}},
	}
	for _, p := range prefills {
		for a := 0; a < len(two); a++ {
			for b := a; b < len(two); b++ {
				out = append(out, vkConcScenario{Capacity: p.cap, Prefill: p.pre, Threads: [][]vkCOp{two[a], two[b]}})
				if thorough {
					out = append(out, vkConcScenario{Capacity: p.cap, Prefill: p.pre, Threads: [][]vkCOp{two[a], two[b], {{Op: "add", K: 1, V: 2}}}})
				}
			}
		}
	}
	// the table's own Clear (segment by segment) against one and two writers / readers
	clr := []vkCOp{{Op: "add", K: 0, V: 1}, {Op: "add", K: 3, V: 1}, {Op: "add", K: 5, V: 1}, {Op: "rem", K: 0}, {Op: "get", K: 0},
		{Op: "cas", K: 0, Old: 0, V: 2}, {Op: "cad", K: 1, Old: 0}}
	for _, p := range prefills {
		for a := 0; a < len(clr); a++ {
			out = append(out, vkConcScenario{Capacity: p.cap, Prefill: p.pre, Threads: [][]vkCOp{{{Op: "clear"}}, {clr[a]}}})
			for b := a; b < len(clr); b++ {
				if !thorough && b > a+2 {
					continue
				}
				out = append(out, vkConcScenario{Capacity: p.cap, Prefill: p.pre, Threads: [][]vkCOp{{{Op: "clear"}}, {clr[a]}, {clr[b]}}})
			}
		}
	}
	for i := range out {
		out[i].Name = fmt.Sprintf("conc-%d", i)
	}
	return out
}

// vkFreeRun executes a scenario with real goroutines (no scheduler) — used by
// the separate -race pass; its only oracle is the race detector.
func vkFreeRun(sc vkConcScenario) {
	w, _ := vkConcBuild(sc)
	w.clock = func() int { return 0 }
	var wg sync.WaitGroup
	for ti, ops := range sc.Threads {
		ti, ops := ti, ops
		wg.Add(1)
		go func() {
			defer wg.Done()
			for _, o := range ops {
				w.do(ti, o)
			}
		}()
	}
	wg.Wait()
}

func TestVerifC16Conc(t *testing.T) {
	c := vkit.Init("C16/conc")
	defer c.Close()
	if c.Replay != nil {
		var r struct {
			Scenario vkConcScenario `json:"scenario"`
			Choices  []int          `json:"choices"`
			Bound    int            `json:"bound"`
		}
		if err := json.Unmarshal(c.Replay, &r); err != nil {
			c.HarnessError("bad replay: " + err.Error())
			return
		}
		run, v, _ := sched.RunOnce(sched.Config{Name: r.Scenario.Name, KeepTrace: true}, vkConcScenarioFn(r.Scenario), r.Choices)
		if run.Diverged != "" {
			c.HarnessError("replay diverged: " + run.Diverged)
			return
		}
		if v != "" {
			c.Violation("conc:"+r.Scenario.String(), v+"\n  trace: "+strings.Join(run.Trace, " "), nil)
		}
		return
	}
	scs := vkConcScenarios(c.Thorough())
	if vkit.FreeRun() {
		for i, sc := range scs {
			if !c.Mine(i) {
				continue
			}
			for rep := 0; rep < 20; rep++ {
				vkFreeRun(sc)
				c.Add("free_executions", 1)
			}
		}
		return
	}
	bound := 2
	if c.Thorough() {
		bound = 3
	}
	for i, sc := range scs {
		if !c.Mine(i) {
			continue
		}
		if c.OverBudget() {
			c.Cap(fmt.Sprintf("time budget reached after %d scenarios of this shard", i))
			break
		}
		res := sched.Explore(sched.Config{Name: sc.Name, Bound: bound, Horizon: 5000, Stop: c.OverBudget}, vkConcScenarioFn(sc))
		if res.HarnessErr != "" {
			c.HarnessError(res.HarnessErr)
			return
		}
		c.Add("evaluations", int64(res.Executions))
		c.Add("traces", int64(res.Executions))
		c.Add("transitions", int64(res.Points))
		c.Add("scenarios", 1)
		c.Max("max_points", int64(res.MaxPoints))
		if !res.Exhaustive {
			c.Cap("execution cap in " + sc.Name)
		}
		for o := range res.Outcomes {
			if c.DistinctStr("states", sc.String()+"|"+o) && len(res.Outcomes) > 1 {
				c.DistinctStr("nontrivial", sc.String()+"|"+o)
			}
		}
		c.Outcome(fmt.Sprintf("outcomes=%d", len(res.Outcomes)))
		if i%97 == 0 {
			c.Sample(map[string]any{"scenario": sc.String(), "schedules": res.Executions, "distinct_outcomes": len(res.Outcomes), "preemption_bound": bound})
		}
		for _, v := range res.Violations {
			c.Violation("conc:"+sc.String()+":"+firstLine(v.Message), fmt.Sprintf("%s\n  schedule=%v\n  trace: %s", v.Message, v.Choices, strings.Join(v.Trace, " ")),
				map[string]any{"scenario": sc, "choices": v.Choices, "bound": bound})
			break
		}
	}
}

func firstLine(s string) string {
	if i := strings.IndexAny(s, ";\n"); i > 0 {
		s = s[:i]
	}
	if len(s) > 120 {
		s = s[:120]
	}
	return s
}
