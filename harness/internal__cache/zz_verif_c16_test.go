//go:build verif

package cache

// C16 — bounded concurrent tables behave as maps and stay within capacity.
//
// Unit "seq": explicit-state BFS over the REAL UInt64Map (state = exact physical
// table contents, cloned by value), every mutating op of the alphabet applied
// in every reached state, lock-step against a Go map; and BFS by history
// replay over the real Cache (SegmentUInt64Map underneath) with capacity.
// Unit "conc": every interleaving (preemption bounded) of 3 threads operating
// on the real Cache through the vsync/vatomic shims.

import (
	"encoding/json"
	"fmt"
	"sort"
	"strings"
	"testing"

	"github.com/semihalev/sdns/internal/verifshim/vkit"
)

// ---------------------------------------------------------------- key alphabet

// vkKeysForTable finds keys (from the code's own hash) for an 8-slot table:
// three colliding on one slot, two on the last slot (wrap-around), key 0,
// a sequential neighbour and one further key.
func vkKeysForTable() []uint64 {
	m := NewUInt64Map[int](8)
	slot := func(k uint64) int { return m.primaryIndex(k) }
	var coll []uint64
	var wrap []uint64
	target := -1
	for k := uint64(1); k < 4096 && (len(coll) < 3 || len(wrap) < 2); k++ {
		s := slot(k)
		if s == 7 {
			if len(wrap) < 2 {
				wrap = append(wrap, k)
			}
			continue
		}
		if target == -1 && s == 3 {
			target = s
		}
		if s == target && len(coll) < 3 {
			coll = append(coll, k)
		}
	}
	keys := append([]uint64{}, coll...)
	keys = append(keys, wrap...)
	keys = append(keys, 0)
	has := func(k uint64) bool {
		for _, x := range keys {
			if x == k {
				return true
			}
		}
		return false
	}
	// one key whose ideal slot is target+1 (sits inside the cluster), one at target-1, one just
	// before the wrap-around pair (slot 6: its deletion shifts entries displaced across the array
	// end) and one homed at slot 0 (lives where the wrapped entries land)
	for _, want := range []int{target + 1, target - 1, 6, 0} {
		for k := uint64(1); k < 4096; k++ {
			if slot(k) == want && !has(k) {
				keys = append(keys, k)
				break
			}
		}
	}
	return keys
}

type vkOp struct {
	Op   string `json:"op"`
	K    uint64 `json:"k,omitempty"`
	V    int    `json:"v,omitempty"`
	Off  int    `json:"off,omitempty"`
	N    int    `json:"n,omitempty"`
	Skip uint64 `json:"skip,omitempty"`
}

func (o vkOp) String() string {
	switch o.Op {
	case "put", "pine":
		return fmt.Sprintf("%s(%d,%d)", o.Op, o.K, o.V)
	case "del":
		return fmt.Sprintf("del(%d)", o.K)
	case "evict":
		return fmt.Sprintf("evict(off=%d,n=%d,skip=%d)", o.Off, o.N, o.Skip)
	}
	return o.Op
}

func vkCloneMap(m *UInt64Map[int]) *UInt64Map[int] {
	c := *m
	c.data = append([]Pair[int](nil), m.data...)
	return &c
}

func vkPhysDigest(m *UInt64Map[int]) string {
	var b strings.Builder
	fmt.Fprintf(&b, "%d/%d/%v/%d|", len(m.data), m.size, m.hasZeroKey, m.zeroVal)
	for _, p := range m.data {
		fmt.Fprintf(&b, "%d:%d,", p.Key, p.Value)
	}
	return b.String()
}

// vkCheckMap compares the real table with the model on every alphabet key.
func vkCheckMap(m *UInt64Map[int], model map[uint64]int, keys []uint64) string {
	for _, k := range keys {
		v, ok := m.Get(k)
		mv, mok := model[k]
		if ok != mok || (ok && v != mv) {
			return fmt.Sprintf("Get(%d) = (%d,%v), map says (%d,%v)", k, v, ok, mv, mok)
		}
		if m.Has(k) != mok {
			return fmt.Sprintf("Has(%d) = %v, map says %v", k, m.Has(k), mok)
		}
	}
	if m.Len() != len(model) {
		return fmt.Sprintf("Len() = %d, reachable entries = %d", m.Len(), len(model))
	}
	seen := map[uint64]bool{}
	bad := ""
	m.ForEach(func(k uint64, v int) bool {
		if seen[k] {
			bad = fmt.Sprintf("ForEach yields key %d twice", k)
			return false
		}
		seen[k] = true
		if mv, ok := model[k]; !ok || mv != v {
			bad = fmt.Sprintf("ForEach yields (%d,%d) but map says (%d,%v)", k, v, mv, ok)
			return false
		}
		return true
	})
	if bad != "" {
		return bad
	}
	if len(seen) != len(model) {
		return fmt.Sprintf("ForEach yields %d entries, map has %d", len(seen), len(model))
	}
	return ""
}

// vkApplyMap applies op to the real table and to the model; returns a violation or "".
func vkApplyMap(m *UInt64Map[int], model map[uint64]int, o vkOp) string {
	switch o.Op {
	case "put":
		m.Put(o.K, o.V)
		model[o.K] = o.V
	case "pine":
		got, ins := m.PutIfNotExists(o.K, o.V)
		if old, ok := model[o.K]; ok {
			if ins || got != old {
				return fmt.Sprintf("PutIfNotExists(%d,%d) = (%d,%v) but key present with %d", o.K, o.V, got, ins, old)
			}
		} else {
			if !ins || got != o.V {
				return fmt.Sprintf("PutIfNotExists(%d,%d) = (%d,%v) but key absent", o.K, o.V, got, ins)
			}
			model[o.K] = o.V
		}
	case "del":
		got := m.Del(o.K)
		_, ok := model[o.K]
		if got != ok {
			return fmt.Sprintf("Del(%d) = %v, map says present=%v", o.K, got, ok)
		}
		delete(model, o.K)
	case "clear":
		m.Clear()
		for k := range model {
			delete(model, k)
		}
	case "evict":
		before := len(model)
		d := m.EvictKeysAt(o.Off, o.N, o.Skip)
		if d < 0 || d > o.N {
			return fmt.Sprintf("EvictKeysAt(%d,%d,%d) returned %d", o.Off, o.N, o.Skip, d)
		}
		// what is left must be a sub-map of the model, exactly d smaller, skip retained
		left := map[uint64]int{}
		dup := ""
		m.ForEach(func(k uint64, v int) bool {
			if _, ok := left[k]; ok {
				dup = fmt.Sprintf("after evict ForEach yields key %d twice", k)
			}
			left[k] = v
			return true
		})
		if dup != "" {
			return dup
		}
		for k, v := range left {
			if mv, ok := model[k]; !ok || mv != v {
				return fmt.Sprintf("after %v entry (%d,%d) appeared/changed (map: %d,%v)", o, k, v, mv, ok)
			}
		}
		if before-len(left) != d {
			return fmt.Sprintf("%v returned %d but %d entries disappeared", o, d, before-len(left))
		}
		if _, had := model[o.Skip]; had {
			if _, still := left[o.Skip]; !still {
				return fmt.Sprintf("%v removed the protected key", o)
			}
		}
		for k := range model {
			if _, ok := left[k]; !ok {
				delete(model, k)
			}
		}
	}
	return ""
}

type vkMapState struct {
	m     *UInt64Map[int]
	model map[uint64]int
	hist  []vkOp
}

func vkCloneModel(m map[uint64]int) map[uint64]int {
	c := make(map[uint64]int, len(m))
	for k, v := range m {
		c[k] = v
	}
	return c
}

func vkMapOps(keys []uint64) []vkOp {
	var ops []vkOp
	for _, k := range keys {
		ops = append(ops, vkOp{Op: "put", K: k, V: 1})
	}
	for _, k := range keys {
		ops = append(ops, vkOp{Op: "del", K: k})
	}
	for _, k := range keys[:4] {
		ops = append(ops, vkOp{Op: "put", K: k, V: 2})
	}
	for _, k := range keys {
		ops = append(ops, vkOp{Op: "pine", K: k, V: 3})
	}
	for _, off := range []int{0, 3, 7} {
		for _, n := range []int{1, 2} {
			for _, skip := range []uint64{keys[0], 0, keys[3]} {
				ops = append(ops, vkOp{Op: "evict", Off: off, N: n, Skip: skip})
			}
		}
	}
	ops = append(ops, vkOp{Op: "clear"})
	return ops
}

func vkHistStr(h []vkOp) string {
	s := make([]string, len(h))
	for i, o := range h {
		s[i] = o.String()
	}
	return strings.Join(s, " ")
}

// vkReplayMapHist replays a history on a fresh table (plain unit-test style replay).
func vkReplayMapHist(h []vkOp, keys []uint64) string {
	m := NewUInt64Map[int](8)
	model := map[uint64]int{}
	for i, o := range h {
		if v := vkApplyMap(m, model, o); v != "" {
			return fmt.Sprintf("step %d %v: %s", i, o, v)
		}
		if v := vkCheckMap(m, model, keys); v != "" {
			return fmt.Sprintf("after step %d %v: %s", i, o, v)
		}
	}
	return ""
}

func vkBFSMap(c *vkit.Ctx, maxDepth int, maxStates int) {
	keys := vkKeysForTable()
	ops := vkMapOps(keys)
	c.Note(fmt.Sprintf("UInt64Map key alphabet %v (3 colliding on slot 3, 2 on the last slot, zero, slots 4, 2, 6, 0), %d mutating ops", keys, len(ops)))
	init := &vkMapState{m: NewUInt64Map[int](8), model: map[uint64]int{}}
	seen := map[string]bool{vkPhysDigest(init.m): true}
	c.DistinctStr("states", "map|"+vkPhysDigest(init.m))
	frontier := []*vkMapState{init}
	// shard by first op
	for depth := 1; depth <= maxDepth && len(frontier) > 0; depth++ {
		var next []*vkMapState
		for _, st := range frontier {
			for oi, o := range ops {
				if depth == 1 && !c.Mine(oi) {
					continue
				}
				m2 := vkCloneMap(st.m)
				mod2 := vkCloneModel(st.model)
				c.Add("transitions", 1)
				c.Add("evaluations", 1)
				viol := vkApplyMap(m2, mod2, o)
				if viol == "" {
					viol = vkCheckMap(m2, mod2, keys)
				}
				if viol != "" {
					h := append(append([]vkOp{}, st.hist...), o)
					// confirm on a fresh object by pure replay
					rep := vkReplayMapHist(h, keys)
					if rep == "" {
						c.HarnessError("map violation did not reproduce by replay: " + vkHistStr(h) + ": " + viol)
						return
					}
					c.Violation("map-seq:"+vkHistStr(h), "UInt64Map diverges from map after ["+vkHistStr(h)+"]: "+rep,
						map[string]any{"scenario": "map-seq", "hist": h})
					continue
				}
				d := vkPhysDigest(m2)
				if seen[d] {
					continue
				}
				seen[d] = true
				c.DistinctStr("states", "map|"+d)
				if len(mod2) >= 3 {
					c.DistinctStr("nontrivial", "map|"+d)
				}
				c.Max("max_depth", int64(depth))
				h := append(append([]vkOp{}, st.hist...), o)
				if len(seen)%50000 == 1 {
					c.Sample(map[string]any{"scenario": "map-seq", "hist": vkHistStr(h), "entries": len(mod2), "slots": len(m2.data)})
				}
				next = append(next, &vkMapState{m: m2, model: mod2, hist: h})
				if len(seen) >= maxStates {
					c.Cap(fmt.Sprintf("map-seq: state cap %d reached at depth %d", maxStates, depth))
					return
				}
			}
			if c.NumViolations() > 20 {
				return
			}
		}
		frontier = next
		c.Outcome(fmt.Sprintf("map-seq depth %d complete", depth))
	}
	if len(frontier) > 0 {
		c.Note(fmt.Sprintf("map-seq: depth bound %d reached with %d frontier states (bounded, all depths below fully covered)", maxDepth, len(frontier)))
	} else {
		c.Note("map-seq: state space closed (frontier empty) — every reachable physical table state over the alphabet was visited")
	}
}

// ---------------------------------------------------------------- Cache (segmented) sequential BFS

type vkCOp struct {
	Op  string `json:"op"`
	K   int    `json:"k"`   // key index
	V   int    `json:"v"`   // value index
	Old int    `json:"old"` // value index for cas/cad (-1 = a value never stored)
}

func (o vkCOp) String() string {
	switch o.Op {
	case "add":
		return fmt.Sprintf("add(k%d,v%d)", o.K, o.V)
	case "rem":
		return fmt.Sprintf("rem(k%d)", o.K)
	case "cas":
		return fmt.Sprintf("cas(k%d,old=v%d,new=v%d)", o.K, o.Old, o.V)
	case "cad":
		return fmt.Sprintf("cad(k%d,old=v%d)", o.K, o.Old)
	}
	return o.Op
}

// vkCacheKeys: k0,k1,k2 share a segment AND a primary slot; k3 lives in the next
// segment (spill path), k4 in the one after, k5 is the zero key.
func vkCacheKeys(c *Cache) []uint64 {
	sm := c.data.data
	seg0 := -1
	var a []uint64
	var k3, k4 uint64
	inner := NewUInt64Map[any](8)
	for k := uint64(1); k < 1<<22 && (len(a) < 3 || k3 == 0 || k4 == 0); k++ {
		si := int(sm.getSegmentIndex(k))
		if seg0 == -1 {
			seg0 = si
		}
		switch {
		case si == seg0 && len(a) < 3:
			if len(a) == 0 || inner.primaryIndex(k) == inner.primaryIndex(a[0]) {
				a = append(a, k)
			}
		case si == (seg0+1)&sm.segmentMask && k3 == 0:
			k3 = k
		case si == (seg0+2)&sm.segmentMask && k4 == 0:
			k4 = k
		}
	}
	return append(a, k3, k4, 0)
}

var vkVals = []*int{new(int), new(int), new(int)}

func vkValIdx(v any) int {
	for i, p := range vkVals {
		if v == any(p) {
			return i
		}
	}
	return -9
}

type vkCacheModel map[int]int // key index -> value index

// vkApplyCache applies one op to the real cache and the model.
func vkApplyCache(c *Cache, keys []uint64, capacity int, model vkCacheModel, o vkCOp) string {
	k := keys[o.K]
	switch o.Op {
	case "add":
		c.Add(k, vkVals[o.V])
		model[o.K] = o.V
		// eviction wildcard: other keys may have disappeared, never the key written
		for ki := range model {
			if ki == o.K {
				continue
			}
			if _, ok := c.Get(keys[ki]); !ok {
				delete(model, ki)
			}
		}
		if _, ok := c.Get(k); !ok {
			return fmt.Sprintf("%v evicted the key it was writing", o)
		}
		if c.Len() > capacity {
			return fmt.Sprintf("after %v (single writer) Len()=%d exceeds capacity %d", o, c.Len(), capacity)
		}
	case "rem":
		c.Remove(k)
		delete(model, o.K)
	case "cas":
		var old any
		if o.Old >= 0 {
			old = vkVals[o.Old]
		} else {
			old = new(int)
		}
		got := c.CompareAndSwap(k, old, vkVals[o.V])
		cur, ok := model[o.K]
		want := ok && o.Old >= 0 && cur == o.Old
		if got != want {
			return fmt.Sprintf("%v = %v, but current value is v%d present=%v", o, got, cur, ok)
		}
		if want {
			model[o.K] = o.V
		}
	case "cad":
		var old any
		if o.Old >= 0 {
			old = vkVals[o.Old]
		} else {
			old = new(int)
		}
		got := c.CompareAndDelete(k, old)
		cur, ok := model[o.K]
		want := ok && o.Old >= 0 && cur == o.Old
		if got != want {
			return fmt.Sprintf("%v = %v, but current value is v%d present=%v", o, got, cur, ok)
		}
		if want {
			delete(model, o.K)
		}
	}
	return ""
}

func vkCheckCache(c *Cache, keys []uint64, model vkCacheModel) string {
	for ki, k := range keys {
		v, ok := c.Get(k)
		mv, mok := model[ki]
		if ok != mok || (ok && vkValIdx(v) != mv) {
			return fmt.Sprintf("Get(k%d) = (v%d,%v), map says (v%d,%v)", ki, vkValIdx(v), ok, mv, mok)
		}
	}
	if c.Len() != len(model) {
		return fmt.Sprintf("Len() = %d but %d entries are reachable", c.Len(), len(model))
	}
	n := 0
	bad := ""
	seen := map[uint64]bool{}
	c.ForEach(func(k uint64, v any) bool {
		n++
		if seen[k] {
			bad = fmt.Sprintf("ForEach yields key %d twice", k)
		}
		seen[k] = true
		return true
	})
	if bad != "" {
		return bad
	}
	if n != len(model) {
		return fmt.Sprintf("ForEach yields %d entries but %d are reachable", n, len(model))
	}
	return ""
}

func vkCacheDigest(model vkCacheModel) string {
	ks := make([]int, 0, len(model))
	for k := range model {
		ks = append(ks, k)
	}
	sort.Ints(ks)
	var b strings.Builder
	for _, k := range ks {
		fmt.Fprintf(&b, "%d=%d,", k, model[k])
	}
	return b.String()
}

// vkCachePhys is the exact physical digest of the non-empty segments + count.
func vkCachePhys(c *Cache) string {
	var b strings.Builder
	fmt.Fprintf(&b, "n=%d|", c.data.data.count.Peek())
	for i, s := range c.data.data.segments {
		if s.data.size == 0 && len(s.data.data) == 8 {
			continue
		}
		fmt.Fprintf(&b, "s%d[", i)
		fmt.Fprintf(&b, "%d/%v/%d:", len(s.data.data), s.data.hasZeroKey, vkValIdx(s.data.zeroVal))
		for _, p := range s.data.data {
			if p.Key != 0 {
				fmt.Fprintf(&b, "%d=%d,", p.Key, vkValIdx(p.Value))
			} else {
				b.WriteByte('.')
			}
		}
		b.WriteByte(']')
	}
	return b.String()
}

func vkCHistStr(h []vkCOp) string {
	s := make([]string, len(h))
	for i, o := range h {
		s[i] = o.String()
	}
	return strings.Join(s, " ")
}

func vkReplayCacheHist(capacity int, h []vkCOp) (string, *Cache, vkCacheModel) {
	c := New(capacity)
	keys := vkCacheKeys(c)
	model := vkCacheModel{}
	for i, o := range h {
		if v := vkApplyCache(c, keys, capacity, model, o); v != "" {
			return fmt.Sprintf("step %d: %s", i, v), c, model
		}
		if v := vkCheckCache(c, keys, model); v != "" {
			return fmt.Sprintf("after step %d %v: %s", i, o, v), c, model
		}
	}
	return "", c, model
}

func vkCacheOps() []vkCOp {
	var ops []vkCOp
	for k := 0; k < 6; k++ {
		ops = append(ops, vkCOp{Op: "add", K: k, V: 0})
	}
	for k := 0; k < 6; k++ {
		ops = append(ops, vkCOp{Op: "rem", K: k})
	}
	for _, k := range []int{0, 1, 3, 5} {
		ops = append(ops, vkCOp{Op: "add", K: k, V: 1})
		ops = append(ops, vkCOp{Op: "cas", K: k, Old: 0, V: 1})
		ops = append(ops, vkCOp{Op: "cas", K: k, Old: 1, V: 0})
		ops = append(ops, vkCOp{Op: "cas", K: k, Old: -1, V: 2})
		ops = append(ops, vkCOp{Op: "cad", K: k, Old: 0})
		ops = append(ops, vkCOp{Op: "cad", K: k, Old: 1})
	}
	return ops
}

func vkBFSCache(c *vkit.Ctx, capacity, maxDepth int) {
	ops := vkCacheOps()
	type st struct{ hist []vkCOp }
	seen := map[string]bool{}
	frontier := []st{{}}
	scn := fmt.Sprintf("cache-seq-cap%d", capacity)
	for depth := 1; depth <= maxDepth && len(frontier) > 0; depth++ {
		var next []st
		for _, s := range frontier {
			for oi, o := range ops {
				if depth == 1 && !c.Mine(oi) {
					continue
				}
				h := append(append([]vkCOp{}, s.hist...), o)
				c.Add("transitions", 1)
				c.Add("evaluations", 1)
				viol, real, model := vkReplayCacheHist(capacity, h)
				c.Add("traces", 1)
				if viol != "" {
					v2, _, _ := vkReplayCacheHist(capacity, h)
					if v2 == "" {
						c.HarnessError("cache-seq violation did not reproduce: " + vkCHistStr(h))
						return
					}
					c.Violation(scn+":"+vkCHistStr(h), fmt.Sprintf("Cache(capacity %d) diverges from map after [%s]: %s", capacity, vkCHistStr(h), viol),
						map[string]any{"scenario": "cache-seq", "capacity": capacity, "hist": h})
					continue
				}
				d := vkCachePhys(real)
				if seen[d] {
					continue
				}
				seen[d] = true
				c.DistinctStr("states", scn+"|"+d)
				if len(model) >= 2 {
					c.DistinctStr("nontrivial", scn+"|"+d)
				}
				c.Max("max_depth", int64(depth))
				if len(seen)%3000 == 1 {
					c.Sample(map[string]any{"scenario": scn, "hist": vkCHistStr(h), "reachable": vkCacheDigest(model)})
				}
				next = append(next, st{hist: h})
			}
			if c.NumViolations() > 20 {
				return
			}
		}
		frontier = next
	}
	if len(frontier) == 0 {
		c.Note(scn + ": state space closed (every reachable physical state visited)")
	} else {
		c.Note(fmt.Sprintf("%s: depth bound %d reached, %d frontier states", scn, maxDepth, len(frontier)))
	}
}

func TestVerifC16Seq(t *testing.T) {
	c := vkit.Init("C16/seq")
	defer c.Close()
	if c.Replay != nil {
		var r struct {
			Scenario string   `json:"scenario"`
			Hist     json.RawMessage `json:"hist"`
			Capacity int      `json:"capacity"`
		}
		if err := json.Unmarshal(c.Replay, &r); err != nil {
			c.HarnessError("bad replay: " + err.Error())
			return
		}
		switch r.Scenario {
		case "map-seq":
			var h []vkOp
			_ = json.Unmarshal(r.Hist, &h)
			if v := vkReplayMapHist(h, vkKeysForTable()); v != "" {
				c.Violation("map-seq:"+vkHistStr(h), v, nil)
			}
		case "cache-seq":
			var h []vkCOp
			_ = json.Unmarshal(r.Hist, &h)
			if v, _, _ := vkReplayCacheHist(r.Capacity, h); v != "" {
				c.Violation(fmt.Sprintf("cache-seq-cap%d:%s", r.Capacity, vkCHistStr(h)), v, nil)
			}
		default:
			c.HarnessError("unknown replay scenario " + r.Scenario)
		}
		return
	}
	if c.Quick() {
		vkBFSMap(c, 5, 400000)
		vkBFSCache(c, 2, 4)
		vkBFSCache(c, 3, 4)
	} else {
		vkBFSMap(c, 9, 6000000)
		vkBFSCache(c, 1, 6)
		vkBFSCache(c, 2, 6)
		vkBFSCache(c, 3, 6)
		vkBFSCache(c, 4, 6)
		vkBFSCache(c, 100, 5)
	}
}
