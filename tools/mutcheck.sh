#!/bin/bash
# usage: mutcheck.sh <CHECK-ID> <diff>...   — applies each mutant in a scratch worktree, runs `vk mutate`, prints a one-line verdict
set -u
export GOFLAGS=-mod=mod GOPROXY=off
ID=$1; shift
WT=/tmp/wt-mutcheck-$ID-$$
git -C /repo worktree add --detach $WT HEAD -q || exit 2
for d in "$@"; do
  ( cd $WT && git checkout -q -- . && git apply --check "$d" 2>/dev/null ) || { echo "$(basename $d): DOES NOT APPLY"; continue; }
  out=$(cd /verif && VERIF_REPO=$WT ./vk mutate $ID "$d" 2>&1); rc=$?
  nk=$(echo "$out" | grep -c "^VIOLATION")
  echo "$(basename $d): exit=$rc violations=$nk $(echo "$out" | grep -m1 'key:' | cut -c1-160)"
done
git -C /repo worktree remove --force $WT
