#!/usr/bin/env python3
"""seedstore.py <dest-id e.g. C16-2> <property> <seedout-dir> <package_dir> <status> <change> <needs> <our_check>"""
import json, os, shutil, subprocess, sys
dest, prop, sd, pkg, status, change, needs, ours = sys.argv[1:9]
d = os.path.join("/verif/seeded", dest)
os.makedirs(d, exist_ok=True)
for f in ("patch.diff", "zz_seed_demo_test.go", "notes.md"):
    shutil.copy(os.path.join(sd, f), d)
base = subprocess.check_output(["git", "-C", "/repo", "rev-parse", "--short", "HEAD"], text=True).strip()
json.dump({
    "property": prop,
    "origin": "fresh sub-agent given only the property text and its own scratch worktree (no access to /verif)",
    "base_commit": base,
    "change": change,
    "needs_to_manifest": needs,
    "demonstration": {"file": "zz_seed_demo_test.go", "package_dir": pkg,
                      "run": "go test -vet=off -count=1 -run TestSeedDemo ./%s/" % pkg},
    "confirmed_by_lead": "tools/seedcheck.sh in a fresh scratch worktree: demo passes without the patch, fails with it; go build ./... ok; existing tests of the touched packages pass with the patch",
    "our_check": ours,
    "status": status,
}, open(os.path.join(d, "meta.json"), "w"), indent=1)
print("stored", d)
