#!/bin/bash
# usage: seedcheck.sh <CHECK-ID> <seedout-dir> <demo-pkg-dir> <touched pkgs...>
# Confirms an independently written breaking change in a scratch worktree and runs our check against it.
set -u
export GOFLAGS=-mod=mod GOPROXY=off
ID=$1; SD=$2; PKG=$3; shift 3; TOUCHED="$@"
WT=/tmp/wt-seedcheck-$ID
git -C /repo worktree remove --force $WT 2>/dev/null
git -C /repo worktree add --detach $WT HEAD -q || exit 2
cd $WT
echo "## demo WITHOUT the change"
cp $SD/zz_seed_demo_test.go $PKG/
go test -vet=off -count=1 -run "TestSeed" ./$PKG/ 2>&1 | tail -3
echo "## apply patch"
git apply $SD/patch.diff || { echo "PATCH DOES NOT APPLY"; exit 2; }
go build ./... || { echo "BUILD FAILS"; exit 2; }
echo "## demo WITH the change"
go test -vet=off -count=1 -run "TestSeed" ./$PKG/ 2>&1 | tail -4
rm -f $PKG/zz_seed_demo_test.go
echo "## existing tests of touched packages WITH the change"
for p in $TOUCHED; do go test -vet=off -count=1 ./$p/ 2>&1 | tail -1; done
echo "## our check against the change"
cd /verif && VERIF_REPO=$WT ./vk check $ID --tier quick 2>&1 | grep -E "VIOLATION|key:|$ID quick|HARNESS|BUILD" | cut -c1-260 | head -8
git -C /repo worktree remove --force $WT
