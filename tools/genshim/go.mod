module genshim

go 1.23
