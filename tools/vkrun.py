#!/usr/bin/env python3
"""Build one unit of a check exactly as `vk check` does and run its test binary with
free-form arguments (manual aid: smoke tests, single replays, debugging).

  [VERIF_REPO=<worktree>] tools/vkrun.py C01 tamper [ENV=VAL ...] -- -test.run TestVerifC01Smoke -test.v
"""
import importlib.machinery, importlib.util, os, subprocess, sys
here = os.path.dirname(os.path.dirname(os.path.abspath(__file__)))
loader = importlib.machinery.SourceFileLoader("vk", os.path.join(here, "vk"))
spec = importlib.util.spec_from_loader("vk", loader)
vk = importlib.util.module_from_spec(spec)
argv = sys.argv[1:]
sys.argv = ["vk"]
loader.exec_module(vk)
sys.path.insert(0, here)
import checks
cid, uname = argv[0], argv[1]
rest = argv[2:]
env = dict(os.environ)
while rest and rest[0] != "--":
    k, v = rest.pop(0).split("=", 1)
    env[k] = v
rest = rest[1:]
unit = checks.CHECKS[cid]["units"][uname]
binpath, secs = vk.build_unit(unit, "%s_%s" % (cid, uname))
print("built %s in %.1fs" % (binpath, secs), file=sys.stderr)
wd = os.path.join(vk.BUILD, "run_manual")
os.makedirs(wd, exist_ok=True)
sys.exit(subprocess.call([binpath] + rest, cwd=wd, env=env))
