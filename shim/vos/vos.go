// Package vos replaces package os in rewritten sdns sources. Everything is a
// generated pass-through except the file-mutation API, which (when a Plan is
// installed) logs every operation with its payload — the crash/fault points —
// and can make the k-th operation fail. With no Plan installed it is an exact
// pass-through. Under sched every logged operation is also a scheduling point.
package vos

import (
	"errors"
	"io"
	stdos "os"
	"sync"

	"github.com/semihalev/sdns/internal/verifshim/sched"
)

// Op is one logged file-system operation.
type Op struct {
	Kind   string `json:"kind"` // create, write, sync, close, rename, remove, syncdir, mkdir, chmod, truncate
	Path   string `json:"path"`
	Path2  string `json:"path2,omitempty"`
	Data   []byte `json:"data,omitempty"`
	Fail   bool   `json:"fail,omitempty"`
	Thread int    `json:"thread,omitempty"`
}

// PlanT controls logging and fault injection.
type PlanT struct {
	mu         sync.Mutex
	Log        []Op
	FailAt     int             // index of the logged operation that must fail (-1 = none)
	FailKinds  map[string]bool // if non-nil, only ops of these kinds count toward FailAt
	failN      int
	Err        error // error returned by the failing op
	ShortWrite bool  // a failing write first writes half of its payload
}

// Plan is the active plan (nil = pass-through).
var Plan *PlanT

// ErrInjected is the default injected error.
var ErrInjected = errors.New("vos: injected I/O error")

func NewPlan() *PlanT { return &PlanT{FailAt: -1, Err: ErrInjected} }

// step logs op and reports whether it must fail.
func step(op Op) bool {
	if r := sched.Active(); r != nil {
		r.Point("os." + op.Kind)
		op.Thread = r.Current().ID
	}
	p := Plan
	if p == nil {
		return false
	}
	p.mu.Lock()
	defer p.mu.Unlock()
	fail := false
	if p.FailKinds == nil || p.FailKinds[op.Kind] {
		if p.failN == p.FailAt {
			fail = true
		}
		p.failN++
	}
	op.Fail = fail
	p.Log = append(p.Log, op)
	return fail
}

func perr() error {
	if Plan != nil && Plan.Err != nil {
		return Plan.Err
	}
	return ErrInjected
}

// File wraps *os.File so that Write/Sync/Close are observable.
type File struct {
	*stdos.File
	dir bool
}

func wrap(f *stdos.File, err error) (*File, error) {
	if err != nil {
		return nil, err
	}
	return &File{File: f}, nil
}

func (f *File) Write(b []byte) (int, error) {
	if step(Op{Kind: "write", Path: f.File.Name(), Data: append([]byte(nil), b...)}) {
		if Plan.ShortWrite && len(b) > 1 {
			n, _ := f.File.Write(b[:len(b)/2])
			return n, perr()
		}
		return 0, perr()
	}
	return f.File.Write(b)
}

func (f *File) WriteString(s string) (int, error) { return f.Write([]byte(s)) }

func (f *File) ReadFrom(r io.Reader) (int64, error) {
	return io.Copy(struct{ io.Writer }{f}, r)
}

func (f *File) Sync() error {
	kind := "sync"
	if st, err := f.File.Stat(); err == nil && st.IsDir() {
		kind = "syncdir"
	}
	if step(Op{Kind: kind, Path: f.File.Name()}) {
		return perr()
	}
	return f.File.Sync()
}

func (f *File) Close() error {
	if Plan == nil && sched.Active() == nil {
		return f.File.Close()
	}
	if st, err := f.File.Stat(); err == nil && st.IsDir() {
		return f.File.Close()
	}
	if step(Op{Kind: "close", Path: f.File.Name()}) {
		_ = f.File.Close()
		return perr()
	}
	return f.File.Close()
}

func (f *File) Truncate(n int64) error {
	if step(Op{Kind: "truncate", Path: f.File.Name(), Data: []byte{byte(n)}}) {
		return perr()
	}
	return f.File.Truncate(n)
}

func Open(name string) (*File, error) { return wrap(stdos.Open(name)) }

func Create(name string) (*File, error) {
	if step(Op{Kind: "create", Path: name}) {
		return nil, perr()
	}
	return wrap(stdos.Create(name))
}

func OpenFile(name string, flag int, perm FileMode) (*File, error) {
	if flag&(stdos.O_WRONLY|stdos.O_RDWR|stdos.O_CREATE|stdos.O_TRUNC|stdos.O_APPEND) != 0 {
		if step(Op{Kind: "create", Path: name}) {
			return nil, perr()
		}
	}
	return wrap(stdos.OpenFile(name, flag, perm))
}

func CreateTemp(dir, pattern string) (*File, error) {
	if Plan != nil || sched.Active() != nil {
		// decide failure before the name exists; log with the real name afterwards
		p := Plan
		if p != nil {
			p.mu.Lock()
			fail := false
			if p.FailKinds == nil || p.FailKinds["create"] {
				fail = p.failN == p.FailAt
				p.failN++
			}
			p.mu.Unlock()
			if fail {
				if r := sched.Active(); r != nil {
					r.Point("os.create")
				}
				p.mu.Lock()
				p.Log = append(p.Log, Op{Kind: "create", Path: dir + "/" + pattern, Fail: true})
				p.mu.Unlock()
				return nil, perr()
			}
		}
		if r := sched.Active(); r != nil {
			r.Point("os.create")
		}
		f, err := stdos.CreateTemp(dir, pattern)
		if err == nil && p != nil {
			p.mu.Lock()
			p.Log = append(p.Log, Op{Kind: "create", Path: f.Name()})
			p.mu.Unlock()
		}
		return wrap(f, err)
	}
	return wrap(stdos.CreateTemp(dir, pattern))
}

func Rename(oldpath, newpath string) error {
	if step(Op{Kind: "rename", Path: oldpath, Path2: newpath}) {
		return perr()
	}
	return stdos.Rename(oldpath, newpath)
}

func Remove(name string) error {
	if step(Op{Kind: "remove", Path: name}) {
		return perr()
	}
	return stdos.Remove(name)
}

func WriteFile(name string, data []byte, perm FileMode) error {
	if step(Op{Kind: "create", Path: name}) {
		return perr()
	}
	if step(Op{Kind: "write", Path: name, Data: append([]byte(nil), data...)}) {
		return perr()
	}
	err := stdos.WriteFile(name, data, perm)
	step(Op{Kind: "close", Path: name})
	return err
}

func Mkdir(name string, perm FileMode) error {
	if step(Op{Kind: "mkdir", Path: name}) {
		return perr()
	}
	return stdos.Mkdir(name, perm)
}

func MkdirAll(name string, perm FileMode) error {
	if step(Op{Kind: "mkdir", Path: name}) {
		return perr()
	}
	return stdos.MkdirAll(name, perm)
}

// NewFile mirrors os.NewFile.
func NewFile(fd uintptr, name string) *File {
	f := stdos.NewFile(fd, name)
	if f == nil {
		return nil
	}
	return &File{File: f}
}
