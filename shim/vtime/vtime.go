// Package vtime replaces package time in rewritten sdns sources: everything is
// a pass-through (generated aliases) except Now/Since/Until, which read a
// virtual clock = real clock + a settable, forward-only offset. Timers and
// sleeps stay real: harnesses never wait on them for an oracle.
package vtime

import (
	"sync/atomic"
	stdtime "time"
)

var offset atomic.Int64 // nanoseconds

// Now returns the virtual time (monotonic reading preserved).
func Now() Time { return stdtime.Now().Add(Duration(offset.Load())) }

// Since returns the virtual time elapsed since t.
func Since(t Time) Duration { return Now().Sub(t) }

// Until returns the virtual duration until t.
func Until(t Time) Duration { return t.Sub(Now()) }

// Advance moves the virtual clock forward by d (harness use).
func Advance(d Duration) { offset.Add(int64(d)) }

// SetOffset sets the absolute offset (harness use; e.g. reset to 0 between runs).
func SetOffset(d Duration) { offset.Store(int64(d)) }

// Offset returns the current offset.
func Offset() Duration { return Duration(offset.Load()) }
