// Package vatomic replaces sync/atomic in rewritten sdns sources: identical
// semantics, but every operation is a scheduling point under sched.
package vatomic

import (
	"sync/atomic"
	"unsafe"

	"github.com/semihalev/sdns/internal/verifshim/sched"
)

func pt(kind string) {
	if r := sched.Active(); r != nil {
		r.Point(kind)
	}
}

type Int32 struct{ v atomic.Int32 }

func (x *Int32) Load() int32        { pt("Int32.Load"); return x.v.Load() }
func (x *Int32) Store(v int32)      { pt("Int32.Store"); x.v.Store(v) }
func (x *Int32) Swap(v int32) int32 { pt("Int32.Swap"); return x.v.Swap(v) }
func (x *Int32) Add(d int32) int32  { pt("Int32.Add"); return x.v.Add(d) }
func (x *Int32) And(m int32) int32  { pt("Int32.And"); return x.v.And(m) }
func (x *Int32) Or(m int32) int32   { pt("Int32.Or"); return x.v.Or(m) }
func (x *Int32) CompareAndSwap(o, n int32) bool {
	pt("Int32.CAS")
	return x.v.CompareAndSwap(o, n)
}

type Int64 struct{ v atomic.Int64 }

func (x *Int64) Load() int64        { pt("Int64.Load"); return x.v.Load() }
func (x *Int64) Store(v int64)      { pt("Int64.Store"); x.v.Store(v) }
func (x *Int64) Swap(v int64) int64 { pt("Int64.Swap"); return x.v.Swap(v) }
func (x *Int64) Add(d int64) int64  { pt("Int64.Add"); return x.v.Add(d) }
func (x *Int64) And(m int64) int64  { pt("Int64.And"); return x.v.And(m) }
func (x *Int64) Or(m int64) int64   { pt("Int64.Or"); return x.v.Or(m) }
func (x *Int64) CompareAndSwap(o, n int64) bool {
	pt("Int64.CAS")
	return x.v.CompareAndSwap(o, n)
}

type Uint32 struct{ v atomic.Uint32 }

func (x *Uint32) Load() uint32         { pt("Uint32.Load"); return x.v.Load() }
func (x *Uint32) Store(v uint32)       { pt("Uint32.Store"); x.v.Store(v) }
func (x *Uint32) Swap(v uint32) uint32 { pt("Uint32.Swap"); return x.v.Swap(v) }
func (x *Uint32) Add(d uint32) uint32  { pt("Uint32.Add"); return x.v.Add(d) }
func (x *Uint32) And(m uint32) uint32  { pt("Uint32.And"); return x.v.And(m) }
func (x *Uint32) Or(m uint32) uint32   { pt("Uint32.Or"); return x.v.Or(m) }
func (x *Uint32) CompareAndSwap(o, n uint32) bool {
	pt("Uint32.CAS")
	return x.v.CompareAndSwap(o, n)
}

type Uint64 struct{ v atomic.Uint64 }

func (x *Uint64) Load() uint64         { pt("Uint64.Load"); return x.v.Load() }
func (x *Uint64) Store(v uint64)       { pt("Uint64.Store"); x.v.Store(v) }
func (x *Uint64) Swap(v uint64) uint64 { pt("Uint64.Swap"); return x.v.Swap(v) }
func (x *Uint64) Add(d uint64) uint64  { pt("Uint64.Add"); return x.v.Add(d) }
func (x *Uint64) And(m uint64) uint64  { pt("Uint64.And"); return x.v.And(m) }
func (x *Uint64) Or(m uint64) uint64   { pt("Uint64.Or"); return x.v.Or(m) }
func (x *Uint64) CompareAndSwap(o, n uint64) bool {
	pt("Uint64.CAS")
	return x.v.CompareAndSwap(o, n)
}

type Uintptr struct{ v atomic.Uintptr }

func (x *Uintptr) Load() uintptr          { pt("Uintptr.Load"); return x.v.Load() }
func (x *Uintptr) Store(v uintptr)        { pt("Uintptr.Store"); x.v.Store(v) }
func (x *Uintptr) Swap(v uintptr) uintptr { pt("Uintptr.Swap"); return x.v.Swap(v) }
func (x *Uintptr) Add(d uintptr) uintptr  { pt("Uintptr.Add"); return x.v.Add(d) }
func (x *Uintptr) CompareAndSwap(o, n uintptr) bool {
	pt("Uintptr.CAS")
	return x.v.CompareAndSwap(o, n)
}

type Bool struct{ v atomic.Bool }

func (x *Bool) Load() bool       { pt("Bool.Load"); return x.v.Load() }
func (x *Bool) Store(v bool)     { pt("Bool.Store"); x.v.Store(v) }
func (x *Bool) Swap(v bool) bool { pt("Bool.Swap"); return x.v.Swap(v) }
func (x *Bool) CompareAndSwap(o, n bool) bool {
	pt("Bool.CAS")
	return x.v.CompareAndSwap(o, n)
}

type Pointer[T any] struct{ v atomic.Pointer[T] }

func (x *Pointer[T]) Load() *T     { pt("Pointer.Load"); return x.v.Load() }
func (x *Pointer[T]) Store(v *T)   { pt("Pointer.Store"); x.v.Store(v) }
func (x *Pointer[T]) Swap(v *T) *T { pt("Pointer.Swap"); return x.v.Swap(v) }
func (x *Pointer[T]) CompareAndSwap(o, n *T) bool {
	pt("Pointer.CAS")
	return x.v.CompareAndSwap(o, n)
}

type Value struct{ v atomic.Value }

func (x *Value) Load() any      { pt("Value.Load"); return x.v.Load() }
func (x *Value) Store(v any)    { pt("Value.Store"); x.v.Store(v) }
func (x *Value) Swap(v any) any { pt("Value.Swap"); return x.v.Swap(v) }
func (x *Value) CompareAndSwap(o, n any) bool {
	pt("Value.CAS")
	return x.v.CompareAndSwap(o, n)
}

// function forms
func AddInt32(a *int32, d int32) int32                 { pt("AddInt32"); return atomic.AddInt32(a, d) }
func AddInt64(a *int64, d int64) int64                 { pt("AddInt64"); return atomic.AddInt64(a, d) }
func AddUint32(a *uint32, d uint32) uint32             { pt("AddUint32"); return atomic.AddUint32(a, d) }
func AddUint64(a *uint64, d uint64) uint64             { pt("AddUint64"); return atomic.AddUint64(a, d) }
func AddUintptr(a *uintptr, d uintptr) uintptr         { pt("AddUintptr"); return atomic.AddUintptr(a, d) }
func LoadInt32(a *int32) int32                         { pt("LoadInt32"); return atomic.LoadInt32(a) }
func LoadInt64(a *int64) int64                         { pt("LoadInt64"); return atomic.LoadInt64(a) }
func LoadUint32(a *uint32) uint32                      { pt("LoadUint32"); return atomic.LoadUint32(a) }
func LoadUint64(a *uint64) uint64                      { pt("LoadUint64"); return atomic.LoadUint64(a) }
func LoadUintptr(a *uintptr) uintptr                   { pt("LoadUintptr"); return atomic.LoadUintptr(a) }
func LoadPointer(a *unsafe.Pointer) unsafe.Pointer     { pt("LoadPointer"); return atomic.LoadPointer(a) }
func StoreInt32(a *int32, v int32)                     { pt("StoreInt32"); atomic.StoreInt32(a, v) }
func StoreInt64(a *int64, v int64)                     { pt("StoreInt64"); atomic.StoreInt64(a, v) }
func StoreUint32(a *uint32, v uint32)                  { pt("StoreUint32"); atomic.StoreUint32(a, v) }
func StoreUint64(a *uint64, v uint64)                  { pt("StoreUint64"); atomic.StoreUint64(a, v) }
func StoreUintptr(a *uintptr, v uintptr)               { pt("StoreUintptr"); atomic.StoreUintptr(a, v) }
func StorePointer(a *unsafe.Pointer, v unsafe.Pointer) { pt("StorePointer"); atomic.StorePointer(a, v) }
func SwapInt32(a *int32, v int32) int32                { pt("SwapInt32"); return atomic.SwapInt32(a, v) }
func SwapInt64(a *int64, v int64) int64                { pt("SwapInt64"); return atomic.SwapInt64(a, v) }
func SwapUint32(a *uint32, v uint32) uint32            { pt("SwapUint32"); return atomic.SwapUint32(a, v) }
func SwapUint64(a *uint64, v uint64) uint64            { pt("SwapUint64"); return atomic.SwapUint64(a, v) }
func SwapUintptr(a *uintptr, v uintptr) uintptr        { pt("SwapUintptr"); return atomic.SwapUintptr(a, v) }
func SwapPointer(a *unsafe.Pointer, v unsafe.Pointer) unsafe.Pointer {
	pt("SwapPointer")
	return atomic.SwapPointer(a, v)
}
func CompareAndSwapInt32(a *int32, o, n int32) bool {
	pt("CASInt32")
	return atomic.CompareAndSwapInt32(a, o, n)
}
func CompareAndSwapInt64(a *int64, o, n int64) bool {
	pt("CASInt64")
	return atomic.CompareAndSwapInt64(a, o, n)
}
func CompareAndSwapUint32(a *uint32, o, n uint32) bool {
	pt("CASUint32")
	return atomic.CompareAndSwapUint32(a, o, n)
}
func CompareAndSwapUint64(a *uint64, o, n uint64) bool {
	pt("CASUint64")
	return atomic.CompareAndSwapUint64(a, o, n)
}
func CompareAndSwapUintptr(a *uintptr, o, n uintptr) bool {
	pt("CASUintptr")
	return atomic.CompareAndSwapUintptr(a, o, n)
}
func CompareAndSwapPointer(a *unsafe.Pointer, o, n unsafe.Pointer) bool {
	pt("CASPointer")
	return atomic.CompareAndSwapPointer(a, o, n)
}
func AndInt32(a *int32, m int32) int32     { pt("AndInt32"); return atomic.AndInt32(a, m) }
func AndUint32(a *uint32, m uint32) uint32 { pt("AndUint32"); return atomic.AndUint32(a, m) }
func AndInt64(a *int64, m int64) int64     { pt("AndInt64"); return atomic.AndInt64(a, m) }
func AndUint64(a *uint64, m uint64) uint64 { pt("AndUint64"); return atomic.AndUint64(a, m) }
func OrInt32(a *int32, m int32) int32      { pt("OrInt32"); return atomic.OrInt32(a, m) }
func OrUint32(a *uint32, m uint32) uint32  { pt("OrUint32"); return atomic.OrUint32(a, m) }
func OrInt64(a *int64, m int64) int64      { pt("OrInt64"); return atomic.OrInt64(a, m) }
func OrUint64(a *uint64, m uint64) uint64  { pt("OrUint64"); return atomic.OrUint64(a, m) }

// Peek methods read the value WITHOUT a scheduling point (for harness monitors only).
func (x *Int32) Peek() int32   { return x.v.Load() }
func (x *Int64) Peek() int64   { return x.v.Load() }
func (x *Uint32) Peek() uint32 { return x.v.Load() }
func (x *Uint64) Peek() uint64 { return x.v.Load() }
func (x *Bool) Peek() bool     { return x.v.Load() }
func (x *Pointer[T]) Peek() *T { return x.v.Load() }
