// Package vsync is a drop-in replacement for package sync used by rewritten
// copies of sdns sources. With no controlled run active every type behaves
// exactly like its sync counterpart; under sched every operation is a
// scheduling point and blocking is modelled explicitly.
package vsync

import (
	"sync"

	"github.com/semihalev/sdns/internal/verifshim/sched"
)

type Locker = sync.Locker

// LockMonitor, when set by a harness, observes lock acquisitions (lock-set monitors).
var LockMonitor func(ev string, obj any)

// ---------------------------------------------------------------- Mutex

type Mutex struct {
	mu   sync.Mutex
	held bool
}

func (m *Mutex) Lock() {
	if r := sched.Active(); r != nil {
		r.Point("Mutex.Lock")
		r.Block("Mutex.Lock", func() bool { return !m.held })
		m.held = true
		if LockMonitor != nil {
			LockMonitor("lock", m)
		}
		return
	}
	m.mu.Lock()
}

func (m *Mutex) TryLock() bool {
	if r := sched.Active(); r != nil {
		r.Point("Mutex.TryLock")
		if m.held {
			return false
		}
		m.held = true
		if LockMonitor != nil {
			LockMonitor("lock", m)
		}
		return true
	}
	return m.mu.TryLock()
}

func (m *Mutex) Unlock() {
	if r := sched.Active(); r != nil {
		r.Point("Mutex.Unlock")
		if !m.held {
			panic("vsync: unlock of unlocked mutex")
		}
		m.held = false
		if LockMonitor != nil {
			LockMonitor("unlock", m)
		}
		return
	}
	m.mu.Unlock()
}

// ---------------------------------------------------------------- RWMutex

type RWMutex struct {
	mu      sync.RWMutex
	writer  bool
	readers int
	wwait   int // writers waiting (Go blocks new readers behind a waiting writer)
}

func (m *RWMutex) Lock() {
	if r := sched.Active(); r != nil {
		r.Point("RWMutex.Lock")
		m.wwait++
		r.Block("RWMutex.Lock", func() bool { return !m.writer && m.readers == 0 })
		m.wwait--
		m.writer = true
		if LockMonitor != nil {
			LockMonitor("lock", m)
		}
		return
	}
	m.mu.Lock()
}

func (m *RWMutex) TryLock() bool {
	if r := sched.Active(); r != nil {
		r.Point("RWMutex.TryLock")
		if m.writer || m.readers > 0 {
			return false
		}
		m.writer = true
		if LockMonitor != nil {
			LockMonitor("lock", m)
		}
		return true
	}
	return m.mu.TryLock()
}

func (m *RWMutex) Unlock() {
	if r := sched.Active(); r != nil {
		r.Point("RWMutex.Unlock")
		if !m.writer {
			panic("vsync: Unlock of unlocked RWMutex")
		}
		m.writer = false
		if LockMonitor != nil {
			LockMonitor("unlock", m)
		}
		return
	}
	m.mu.Unlock()
}

func (m *RWMutex) RLock() {
	if r := sched.Active(); r != nil {
		r.Point("RWMutex.RLock")
		r.Block("RWMutex.RLock", func() bool { return !m.writer })
		m.readers++
		if LockMonitor != nil {
			LockMonitor("rlock", m)
		}
		return
	}
	m.mu.RLock()
}

func (m *RWMutex) TryRLock() bool {
	if r := sched.Active(); r != nil {
		r.Point("RWMutex.TryRLock")
		if m.writer {
			return false
		}
		m.readers++
		if LockMonitor != nil {
			LockMonitor("rlock", m)
		}
		return true
	}
	return m.mu.TryRLock()
}

func (m *RWMutex) RUnlock() {
	if r := sched.Active(); r != nil {
		r.Point("RWMutex.RUnlock")
		if m.readers <= 0 {
			panic("vsync: RUnlock of unlocked RWMutex")
		}
		m.readers--
		if LockMonitor != nil {
			LockMonitor("runlock", m)
		}
		return
	}
	m.mu.RUnlock()
}

type rlocker RWMutex

func (r *rlocker) Lock()   { (*RWMutex)(r).RLock() }
func (r *rlocker) Unlock() { (*RWMutex)(r).RUnlock() }

func (m *RWMutex) RLocker() Locker { return (*rlocker)(m) }

// ---------------------------------------------------------------- WaitGroup

type WaitGroup struct {
	wg sync.WaitGroup
	n  int
}

func (w *WaitGroup) Add(delta int) {
	if r := sched.Active(); r != nil {
		r.Point("WaitGroup.Add")
		w.n += delta
		if w.n < 0 {
			panic("sync: negative WaitGroup counter")
		}
		return
	}
	w.wg.Add(delta)
}

func (w *WaitGroup) Done() { w.Add(-1) }

// ModelCount is the counter as maintained under controlled runs (Add/Done
// executed while a run was active); harness end-state checks read it.
func (w *WaitGroup) ModelCount() int { return w.n }

func (w *WaitGroup) Wait() {
	if r := sched.Active(); r != nil {
		r.Point("WaitGroup.Wait")
		r.Block("WaitGroup.Wait", func() bool { return w.n == 0 })
		return
	}
	w.wg.Wait()
}

func (w *WaitGroup) Go(f func()) {
	if sched.Active() != nil {
		panic("vsync: WaitGroup.Go under controlled scheduler is not supported")
	}
	w.wg.Go(f)
}

// ---------------------------------------------------------------- Once

type Once struct {
	o    sync.Once
	done bool
	m    Mutex
}

func (o *Once) Do(f func()) {
	if r := sched.Active(); r != nil {
		r.Point("Once.Do")
		if o.done {
			return
		}
		o.m.Lock()
		defer o.m.Unlock()
		if !o.done {
			defer func() { o.done = true }()
			f()
		}
		return
	}
	o.o.Do(f)
}

func OnceFunc(f func()) func() {
	var once Once
	return func() { once.Do(f) }
}

func OnceValue[T any](f func() T) func() T {
	var once Once
	var v T
	return func() T {
		once.Do(func() { v = f() })
		return v
	}
}

func OnceValues[T1, T2 any](f func() (T1, T2)) func() (T1, T2) {
	var once Once
	var v1 T1
	var v2 T2
	return func() (T1, T2) {
		once.Do(func() { v1, v2 = f() })
		return v1, v2
	}
}

// ---------------------------------------------------------------- Pool

// PoolLIFO, when true, makes every Pool a deterministic LIFO stack so that an
// object Put by one request is ALWAYS the next one handed out (forced reuse).
var PoolLIFO bool

type Pool struct {
	p     sync.Pool
	once  sync.Once
	New   func() any
	mu    sync.Mutex
	stack []any
}

func (p *Pool) Get() any {
	if r := sched.Active(); r != nil {
		r.Point("Pool.Get")
	}
	if PoolLIFO {
		p.mu.Lock()
		if n := len(p.stack); n > 0 {
			x := p.stack[n-1]
			p.stack = p.stack[:n-1]
			p.mu.Unlock()
			return x
		}
		p.mu.Unlock()
		if p.New != nil {
			return p.New()
		}
		return nil
	}
	p.once.Do(func() {
		p.p.New = func() any {
			if p.New != nil {
				return p.New()
			}
			return nil
		}
	})
	return p.p.Get()
}

func (p *Pool) Put(x any) {
	if r := sched.Active(); r != nil {
		r.Point("Pool.Put")
	}
	if PoolLIFO {
		if x == nil {
			return
		}
		p.mu.Lock()
		p.stack = append(p.stack, x)
		p.mu.Unlock()
		return
	}
	p.p.Put(x)
}

// ---------------------------------------------------------------- Map

type Map struct {
	m sync.Map
}

func pt(kind string) {
	if r := sched.Active(); r != nil {
		r.Point(kind)
	}
}

func (m *Map) Load(key any) (any, bool) { pt("Map.Load"); return m.m.Load(key) }
func (m *Map) Store(key, value any)     { pt("Map.Store"); m.m.Store(key, value) }
func (m *Map) Clear()                   { pt("Map.Clear"); m.m.Clear() }
func (m *Map) LoadOrStore(key, value any) (any, bool) {
	pt("Map.LoadOrStore")
	return m.m.LoadOrStore(key, value)
}
func (m *Map) LoadAndDelete(key any) (any, bool) {
	pt("Map.LoadAndDelete")
	return m.m.LoadAndDelete(key)
}
func (m *Map) Delete(key any)                  { pt("Map.Delete"); m.m.Delete(key) }
func (m *Map) Swap(key, value any) (any, bool) { pt("Map.Swap"); return m.m.Swap(key, value) }
func (m *Map) CompareAndSwap(key, old, new any) bool {
	pt("Map.CompareAndSwap")
	return m.m.CompareAndSwap(key, old, new)
}
func (m *Map) CompareAndDelete(key, old any) bool {
	pt("Map.CompareAndDelete")
	return m.m.CompareAndDelete(key, old)
}
func (m *Map) Range(f func(key, value any) bool) { pt("Map.Range"); m.m.Range(f) }

// ---------------------------------------------------------------- Cond

type Cond struct {
	L    Locker
	c    *sync.Cond
	once sync.Once
	gen  int
}

func NewCond(l Locker) *Cond { return &Cond{L: l} }

func (c *Cond) real() *sync.Cond {
	c.once.Do(func() { c.c = sync.NewCond(c.L) })
	return c.c
}

func (c *Cond) Wait() {
	if r := sched.Active(); r != nil {
		g := c.gen
		c.L.Unlock()
		r.Block("Cond.Wait", func() bool { return c.gen != g })
		c.L.Lock()
		return
	}
	c.real().Wait()
}

func (c *Cond) Signal() {
	if r := sched.Active(); r != nil {
		r.Point("Cond.Signal")
		c.gen++ // over-approximation: wakes all waiters (spurious wakeups are legal)
		return
	}
	c.real().Signal()
}

func (c *Cond) Broadcast() {
	if r := sched.Active(); r != nil {
		r.Point("Cond.Broadcast")
		c.gen++
		return
	}
	c.real().Broadcast()
}
