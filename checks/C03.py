"""C03 — a cached response only answers the exact question and audience it was stored for."""

_H = {"middleware/cache": ["zz_verif_common_test.go", "zz_verif_c03_*.go"], "middleware": ["zz_verif_export.go"]}

CHECK = {
    "level": "model_checking",
    "engines": ["space"],
    "technique": "exhaustive (stored, asked) question-pair enumeration x seeding (natural / forged 64-bit key collision) x serving route on the real cache pipeline, against a reference equivalence; exhaustive key-agreement enumeration over label bytes",
    "level_text": "Every ordered pair of the question alphabet (6 names incl. case variant, escaped dot, NUL label, subdomain x A/AAAA x IN/CH x CD x 5 ECS audiences x 3 stored scopes) is run through the real Cache on every route (message path, byte fast path, wire-born strict path, Store.Get, Store.Lookup, failure exact/zone, subtree cut, wire alias chase, purge) with the stored entry admitted naturally and planted under the asked question's own 64-bit key; the reply may carry the stored marker only if the reference says same question, CD partition and audience.",
    "level_note": "Trusted: the reference equivalence (ASCII fold, type, class, CD, scope containment) transcribes the property; alphabet is finite (names outside it, longer chains of operations are not explored); real 64-bit collisions are simulated by planting entries under the probed key.",
    "rule": "cases = seeding x S x stored-scope x Q x audience x route, enumerated completely; 'nontrivial' = distinct cases that produced a hit or were a forged collision between non-equivalent questions (the cases where the verifier, not the hash, decides)",
    "assumptions": ["stub upstream answers misses with TC=1 so that asking never changes cache state"],
    "bounds": {"quick": "full pair alphabet; ECS audiences only for A/IN on shared entries", "thorough": "full product"},
    "units": {
        "pairs": {"pkg": "middleware/cache", "run": "TestVerifC03Pairs", "harness": _H, "stub_tests": ["middleware/cache"]},
        "keys": {"pkg": "internal/cache", "run": "TestVerifC03Keys", "harness": {"internal/cache": ["zz_verif_c03_*.go"]}, "shards": 7},
        "routes": {"pkg": "middleware/cache", "run": "TestVerifC03Routes", "harness": _H, "stub_tests": ["middleware/cache"]},
    },
}
