"""C03 — a cached response only answers the exact question and audience it was stored for."""

_H = {"middleware/cache": ["zz_verif_common_test.go", "zz_verif_c03_*.go"], "middleware": ["zz_verif_export.go"]}

CHECK = {
    "level": "model_checking",
    "engines": ["space"],
    "technique": "exhaustive (stored, asked) question-pair enumeration x seeding (natural / forged 64-bit key collision) x serving route on the real cache pipeline, against a reference equivalence; exhaustive key-agreement enumeration over label bytes; explicit history search (clients of different subnets and source lengths asking in sequence) against a reference scope-containment model",
    "level_text": "Every ordered pair of the question alphabet (6 names incl. case variant, escaped dot, NUL label, subdomain x A/AAAA x IN/CH x CD x 5 ECS audiences x 3 stored scopes) is run through the real Cache on every route (message path, byte fast path, wire-born strict path, Store.Get, Store.Lookup, failure exact/zone, subtree cut, wire alias chase, purge) with the stored entry admitted naturally and planted under the asked question's own 64-bit key; the reply may carry the stored marker only if the reference says same question, CD partition and audience. audience: every history of <=3 (thorough <=4) positive questions by 8 clients (sources /16, /24, /25, none, out-of-network, CD) x authority scope {0,16,24} (thorough 8 values) under a policy whose floor (/20) is below its ceiling (/24): a reply served from cache must come from an entry whose scope contains the client's forwarded prefix and is no more specific than it; no stored scope may be more specific than the floor or the forwarded source.",
    "level_note": "Trusted: the reference equivalence (ASCII fold, type, class, CD, scope containment) transcribes the property; alphabet is finite (names outside it, longer chains of operations are not explored); real 64-bit collisions are simulated by planting entries under the probed key.",
    "rule": "cases = seeding x S x stored-scope x Q x audience x route, enumerated completely; 'nontrivial' = distinct cases that produced a hit or were a forged collision between non-equivalent questions (the cases where the verifier, not the hash, decides)",
    "assumptions": ["stub upstream answers misses with TC=1 so that asking never changes cache state"],
    "bounds": {"quick": "full pair alphabet; ECS audiences only for A/IN on shared entries", "thorough": "full product"},
    "units": {
        # the DoH JSON API: the presentation text a client types reaches the pipeline in the wire decoder's spelling
        "jsonentry": {"pkg": "server/doh", "run": "TestVerifC03JSONEntry", "harness": {"server/doh": ["zz_verif_c03_json_test.go"]},
                      "stub_tests": ["server/doh"], "shards": 2, "budget_s": {"quick": 20, "thorough": 40}},
        "pairs": {"pkg": "middleware/cache", "run": "TestVerifC03Pairs", "harness": _H, "stub_tests": ["middleware/cache"]},
        "keys": {"pkg": "internal/cache", "run": "TestVerifC03Keys", "harness": {"internal/cache": ["zz_verif_c03_*.go"]}, "shards": 7},
        # audiences across client HISTORIES (sources shorter / longer than the floor, clamped scopes): the C19 scoped-history
        # search judged for the audience clause only
        "audience": {"pkg": "middleware/cache", "run": "TestVerifC03Audience",
                     "harness": {"middleware/cache": ["zz_verif_common_test.go", "zz_verif_c03_test.go", "zz_verif_c03_routes_test.go", "zz_verif_c04_test.go", "zz_verif_c19_*.go"], "middleware": ["zz_verif_export.go"]},
                     "rewrite": {"middleware/cache": ["time"], "middleware": ["time"], "internal/dnsutil": ["time"]},
                     "stub_tests": ["middleware/cache"], "budget_s": {"quick": 40, "thorough": 300}},
        "routes": {"pkg": "middleware/cache", "run": "TestVerifC03Routes", "harness": _H, "stub_tests": ["middleware/cache"]},
    },
}
