"""C14 — in-house DNSSEC primitives agree with an independent reference."""

CHECK = {
    "level": "exploration",
    "engines": ["space"],
    "technique": "bounded-exhaustive differential enumeration of a key/RRset/signature/DS grammar: real sdns primitives vs miekg/dns (KeyTag, ToDS, RRSIG.Verify) and an independent math/big EMSA-PKCS1-v1_5 verifier for wide RSA exponents",
    "level_text": "Every element of a stated finite grammar is executed on the real KeyTag, dsDigestMatches/VerifyDS, verifySignature/cryptoVerify/VerifyRRSIG and compared with the library (and, for RSA exponents the library cannot load, with plain modular exponentiation over an independently built RFC 4034 canonical form): keys are real RSA (512-4097 bit, exponents 3..2^64+13), P-256, P-384 and Ed25519 keys under every algorithm number, several flag/protocol values and malformed base64 encodings; signatures are produced by the library's RRSIG.Sign over an independent signer and then mutated by every single-bit flip, every truncation, +-1 octet, arithmetic aliases (s+n, n-s, r+n, padded r/s) and malformed PKCS#1 blocks; DS digests for types 0-255 with every bit flip and truncation.",
    "level_note": "Input enumeration, not all byte strings. The 'no super-linear time' clause is covered only as operation counts through the SignatureWork/DSDigestWork seam (duplicated signatures/keys/DS must not multiply public-key or digest operations) and as verdicts on the size limits (moduli >4096 bit, exponents >64 bit, key material >4092 octets are refused); wall-clock behaviour of a single modexp is not measured. ECDSA/Ed25519 arithmetic itself is the standard library's on both sides (the library is the reference there); RSA has a fully independent math/big reference which is cross-checked against the library on every narrow-exponent case.",
    "rule": "cases = (material x algorithm x flags x protocol x base64 manipulation) for key tags; (key x digest type 0-255 x digest mutation) for DS; (key x RRset x structural mutation) + (key x RRset x every bit flip / truncation / arithmetic alias of the signature) for RRSIGs; message-level arrangements for VerifyRRSIG/VerifyDS; 'nontrivial' = distinct cases in which the reference ACCEPTS, or whose input differs from a reference-accepted input by one bit, one octet or one field step (key tags: distinct cases with a non-zero tag or a valid encoding)",
    "known_divergence": "names compared with strings.EqualFold/ToLower (Unicode folding) instead of ASCII folding: cases sig|unicode-fold|* are genuine, reported violations on the pinned tree",
    "assumptions": ["miekg/dns v1.1.72 KeyTag/ToDS/RRSIG.Verify and Go's crypto/ecdsa, crypto/ed25519 are the reference for everything except wide-exponent RSA",
                    "signatures carry inception 0 / expiration 2^32-1 so VerifyRRSIG's wall-clock validity check is constant for decades; two arrangements use a 1970 window as 'expired'",
                    "keys are frozen embedded material (6 RSA moduli, 2 keys per curve)"],
    "bounds": {"quick": "58 keys x 20 RRsets = 1160 bases x (61 structural + 6 PKCS#1-block mutations); every bit flip and every truncation of the signature on 10 RRsets per key (stride 8 for 4096-bit and P-384 keys except on the first RRset); algorithms 0-255 through the dispatcher for 5 materials; 35 key materials x ~87 base64 manipulations x 10 algorithms + algorithms 0-255 x 8 flag values x 3 protocol values on every valid encoding; 64 DS keys x digest types 0-255 x digest mutations; 28-31 VerifyDS and 17 VerifyRRSIG arrangements per key; duplicate-work counts 1..32",
               "thorough": "all 6 moduli (512/1023/1024/2048/4096/4097 bit) x 8 exponents x 4 RSA algorithms (~250 keys) x 20 RRsets, every bit flip on 20/10/4 RRsets for <=1024 / 2048,P-384 / >=4096-bit keys; 64 materials x every base64 position <= 1040 x algorithms 0-255"},
    "units": {
        "diff": {"pkg": "middleware/resolver/dnssec", "run": "TestVerifC14",
                 "harness": {"middleware/resolver/dnssec": ["zz_verif_c14_*.go"]},
                 "budget_s": {"quick": 150, "thorough": 780}, "timeout_s": {"quick": 400, "thorough": 1500}},
    },
}
