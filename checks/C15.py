"""C15 — the pooled packer is byte-identical to the library and side-effect free."""

_H = {"internal/wire": ["zz_verif_c15_*.go"]}
_RW = {"internal/wire": ["sync", "sync/atomic"]}

CHECK = {
    "level": "exploration",
    "engines": ["space", "sched"],
    "technique": "bounded-exhaustive differential enumeration of a message grammar through the real TryPack/PackClone against dns.Msg.Pack on an alias-preserving deep copy, with forced LIFO reuse of the pooled state; plus preemption-bounded schedule DFS of concurrent packs whose consume callback yields while holding the pooled buffer",
    "level_text": "Every message of a stated grammar (headers, rcodes, 0-2 questions, every dns.TypeToRR constructor in 3 fillings x section x context, every EDNS0 option kind, OPT multiplicity/placement/aliasing, every SVCB parameter kind, nil/typed-nil/private/foreign records, names up to 255 octets, uncompressed sizes across 4096, Compress on/off) is packed by the real packer three times through one reused pooled state (as left by the previous case, after a name-sharing 3 KiB message, after a >64-name extended-rcode message) and through PackClone; handled => bytes equal the library's, message deep-dump unchanged, cap==len; declined => consume never ran; no panic. Unit conc runs every schedule (<=2/3 preemptions) of 2-3 threads packing through the shared pool with a yielding consumer.",
    "level_note": "Message shapes are enumerated, not all messages; record fillings are 3 per type (as constructed, two reflection-driven fillings) plus 43 canned presentation-format records. The consumers named in the property (responseWriter.WriteMsg, cache entries) are not driven: the check is on TryPack/PackClone, which is where they obtain bytes. Concurrency: sync.Pool is replaced by the vsync LIFO pool (forced reuse, sequential consistency).",
    "rule": "cases = the message grammar in harness/internal__wire/zz_verif_c15_grammar_test.go, each judged on fresh objects; 'nontrivial' = distinct message shapes the packer HANDLED (bytes compared with the library), and in unit conc scenarios with more than one schedule",
    "assumptions": ["miekg/dns v1.1.72 dns.Msg.Pack on a deep copy that preserves record aliasing is the reference",
                    "vsync.Pool in LIFO mode models sync.Pool reuse (the worst case: the state just released is always the next one handed out)"],
    "bounds": {"quick": "22 headers x 11 rcodes x 10 shapes; 80 types x 3 fillings x contexts; 16 option kinds x 3 fillings x 4 TTL patterns x 6 rcodes, all option pairs, 20 OPT placements; 10 SVCB kinds; 13^3 name triples; sizes 4080-4112; 8 foreign kinds x 3 sections x 3 positions; sequences of 2 (all) and 3 (6x6xall); schedules: preemption bound 2",
               "thorough": "8 owner names per record case, sizes 3990-4200, all sequences of 3 over 14 representative messages; schedules: preemption bound 3, 3 threads"},
    "units": {
        "diff": {"pkg": "internal/wire", "run": "TestVerifC15", "harness": _H, "rewrite": _RW,
                 "budget_s": {"quick": 150, "thorough": 700}},
        "conc": {"pkg": "internal/wire", "run": "TestVerifC15Conc", "harness": _H, "rewrite": _RW, "gomaxprocs": 1,
                 "budget_s": {"quick": 60, "thorough": 300}},
    },
}
