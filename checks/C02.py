"""C02 — denial of existence is accepted, cached or synthesised only when actually proven."""

_DN = {"middleware/resolver/dnssec": ["zz_verif_c02_*_test.go"]}
_CA = {"middleware/cache": ["zz_verif_c02_*_test.go"]}

CHECK = {
    "level": "exploration",
    "engines": ["zonemodel"],
    "technique": "bounded-exhaustive input enumeration of the real NSEC/NSEC3 denial verifiers and of the real RFC 8198 denial-proof store against an independent zone model (ground truth); soundness-only oracle",
    "level_text": "A reference zone model (own canonical ordering, RFC 4592 closest-encloser/wildcard logic, empty non-terminals, one delegation with/without DS and occluded names below it, one DNAME owner, case-variant/binary/escaped-dot labels) generates each zone's GENUINE NSEC chain and NSEC3 chains (4 salt/iteration tuples, no opt-out / opt-out flag on all records / opt-out flag only on spans that skip an insecure delegation). Every subset of <=3 chain records (plus the full chain), optionally polluted with one foreign record (second parameter tuple, child-zone or sibling-zone record, class-flipped copy, child-apex NSEC), is handed to the real VerifyNameErrorNSEC, VerifyNODATANSEC, VerifyDelegationNSEC, VerifyNameErrorForZoneWithWork, VerifyNODATAForZoneWithWork, VerifyDelegationForZoneWithWork, VerifyWildcardAnswerForZoneWithWork, EvaluateAggressiveNSEC / NSECSet / NSECPrepared and EvaluateAggressiveNSEC3 for every query name of the alphabet x qtype x claimed result; every acceptance is judged against the model. Unit 'cache' admits every ordered pair of genuine proof bundles into the real Store.RecordDenialProof and asks Store.GetWithContext for every alphabet name x qtype at three instants (all live / first bundle expired / all expired), plus CD=1 and ECS variants.",
    "level_note": "Soundness only: rejections are never judged. Trusted: miekg dns.HashName (NSEC3 hash) and the model itself; RRSIG validity is out of scope (C01), so the NSEC exact-answer verifiers are called the way Resolver.authority calls them (ValidateSigner + FilterRRsToZone first). SHA-1 collisions, names outside the label alphabet, DNAME-in-answer rewriting of the question and the RFC 8020 cut admission path (cache.ResponseWriter) are not enumerated.",
    "rule": "zones = all subsets (size cap per tier) of 14 candidate owners without duplicate owner names, smallest first; inputs = all <=3-subsets of the genuine chain (+ full chain) x pollution variants x all query names x {A,NS,DS,CNAME,TXT} x {NXDOMAIN, NODATA, insecure delegation, wildcard-expanded answer, aggressive synthesis}; 'nontrivial' = distinct (zone, chain variant, record subset, pollution, qname, qtype, claim) cases in which the real verifier ACCEPTED (cache unit: distinct (history, instant, qname, qtype) lookups answered from the proof index); sanity counter complete_proofs_accepted = genuine full-chain proofs of model-true claims accepted by the real code (must be > 0 per verifier family, else harness error)",
    "assumptions": ["signatures are checked elsewhere: every record fed in is a genuine record of the modelled zone (or an explicitly labelled foreign one)",
                    "one delegation owner and one DNAME owner per zone, depth <= 3 below the apex"],
    "bounds": {"quick": "zones of <=3 owners out of the first 13 candidates (all but the upper-case owner; 332 zones) plus the apex-DNAME candidate and the delegation at 'a' (owners after its subtree), each alone and next to every other quick candidate; 91 query names (depth<=2 full 6-label alphabet, depth 3 over {a,b,*}, depth 4 over {a,b}, apex, 5 out-of-zone); NSEC + 1 NSEC3 tuple (rotating per zone) x 3 opt-out modes; record subsets <=3 + full chain; pollution on subsets <=2. cache unit: zones of <=2 owners, bundles of <=2 records, histories of 1-2 bundles",
               "thorough": "zones of <=4 owners out of 16 candidates (incl. an apex DNAME and a second delegation); 105 query names (7-label alphabet incl. c at depth<=2); otherwise as quick, + EvaluateAggressiveNSECPrepared. cache unit: zones of <=3 owners"},
    "units": {
        "verifiers": {"pkg": "middleware/resolver/dnssec", "run": "TestVerifC02Verifiers", "harness": _DN,
                      "budget_s": {"quick": 120, "thorough": 840},
                      "timeout_s": {"quick": 300, "thorough": 1500}},
        "cache": {"pkg": "middleware/cache", "run": "TestVerifC02Cache", "harness": _CA,
                  "budget_s": {"quick": 100, "thorough": 600},
                  "timeout_s": {"quick": 300, "thorough": 1200}},
    },
}
