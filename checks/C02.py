"""C02 — denial of existence is accepted or synthesised only when actually proven."""

CHECK = {
    "level": "exploration",
    "engines": ["zonemodel"],
    "technique": "bounded-exhaustive input enumeration of the real NSEC/NSEC3 denial verifiers against an independent zone model (ground truth), soundness oracle",
    "level_text": "PLACEHOLDER",
    "level_note": "PLACEHOLDER",
    "rule": "PLACEHOLDER",
    "assumptions": [],
    "bounds": {"quick": "", "thorough": ""},
    "units": {
        "verifiers": {"pkg": "middleware/resolver/dnssec", "run": "TestVerifC02Verifiers",
                      "harness": {"middleware/resolver/dnssec": ["zz_verif_c02_*_test.go"]},
                      "budget_s": {"quick": 80, "thorough": 780},
                      "timeout_s": {"quick": 300, "thorough": 1500}},
    },
}
