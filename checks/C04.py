"""C04 — nothing is served past its lifetime; composed answers inherit the shortest part."""

_H = {"middleware/cache": ["zz_verif_common_test.go", "zz_verif_c04_*.go"], "middleware": ["zz_verif_export.go"]}
_RW = {"middleware/cache": ["time"], "middleware": ["time"], "internal/dnsutil": ["time"]}

CHECK = {
    "level": "model_checking",
    "engines": ["space"],
    "technique": "explicit-state BFS over admission/hit/advance/purge/prefetch event histories on the real cache pipeline under a virtual clock, lock-step against a reference lifetime model; every serving route checked in every state; exhaustive enumeration of single stored responses of every shape x TTL assignment x probe instants around each boundary against a per-record reference lifetime",
    "level_text": "Breadth-first search over event histories (admissions of positive / signed / alias / two-lap alias (middle name answered with a bare CNAME by a local handler in front of the cache, so the cache's own chase walks two laps) / negative / locally validated negative answers with TTL, RRSIG-expiry, SOA-minimum and delegation-lease parameters; clock advances around every boundary; purge; prefetch start/complete/withdrawal orders), each history replayed on a fresh real Cache with time.Now swapped for a virtual clock; in every reached state every cached piece is read through the message path, byte fast path, wire-born strict path and Store.Get and judged against the reference deadline (min of floored TTLs, RRSIG expiry, SOA minimum, lease; composed alias inherits its pieces), TTL shown <= remaining, TTL non-increasing per stored entry. shapes: one upstream response of every shape the resolver hands over {answer; answer + authority NS + glue; alias + target answer; alias -> NODATA; two-link alias -> NODATA; alias -> NXDOMAIN; NODATA; NXDOMAIN} x every assignment of {2,7,30} s (thorough {0,2,5,7,30,300}) to answer TTL / CNAME TTL / SOA TTL / SOA MINIMUM x RRSIG expiry {none, 12 s} (thorough {none,3,12,100}) is admitted through the real pipeline; the clock is advanced to 1 s before and after every boundary the parameters define and the name is asked again on the wire-born, byte-sink and message routes (the rest of the chain is answerable upstream with the same data). Every record of a reply served without an upstream call is held to its own part's lifetime clamp[5 s,24 h](min(record TTL, covering RRSIG time left, and for the SOA min(SOA TTL, SOA MINIMUM))) counted from the last time upstream delivered that part: not served past it, TTL shown <= time remaining.",
    "level_note": "Trusted: the reference model's reading that the 5 s floor applies to every TTL-derived bound (incl. RRSIG expiry and SOA minimum) and that only the delegation lease overrides it; the scripted stub stands in for the resolver (it folds the lease into ResponseMeta the way the resolver does). Wall-clock steps (NTP) are outside the virtual clock.",
    "rule": "state = (reference pieces with remaining lifetime) + (real cache raw entries/cuts/proofs with remaining lifetime), 100 ms resolution; transitions = one event applied by replaying the history on a fresh Cache; 'nontrivial' = states holding >= 2 live pieces",
    "assumptions": ["virtual clock only moves forward; real elapsed time inside one history (milliseconds) is far below the 1 s event granularity"],
    "bounds": {"quick": "shapes: 8 shapes x {2,7,30}^k x 2 signature settings x probes around each boundary (1.5k cases); 23-event alphabet, BFS depth 4; prefetch orders depth 5", "thorough": "shapes: TTL set {0,2,5,7,30,300}, 4 signature settings (20k cases); 30-event alphabet, BFS depth 6 (time-capped)"},
    "units": {
        # one stored response of every shape the resolver hands over x every TTL assignment x probes around each boundary
        "shapes": {"pkg": "middleware/cache", "run": "TestVerifC04Shapes", "harness": _H, "rewrite": _RW, "stub_tests": ["middleware/cache"],
                   "budget_s": {"quick": 40, "thorough": 300}},
        "hist": {"pkg": "middleware/cache", "run": "TestVerifC04Hist", "harness": _H, "rewrite": _RW, "stub_tests": ["middleware/cache"],
                 "budget_s": {"quick": 70, "thorough": 800}},
        "prefetch": {"pkg": "middleware/cache", "run": "TestVerifC04Prefetch", "harness": _H, "rewrite": _RW, "stub_tests": ["middleware/cache"],
                     "budget_s": {"quick": 60, "thorough": 600}},
    },
}
