"""C20 — DNS64 synthesises only RFC 6052 addresses, only when allowed, never with AD."""

CHECK = {
    "level": "exploration",
    "engines": ["space"],
    "technique": "bounded-exhaustive enumeration of (prefix, IPv4 address) and of (config, client, flags, downstream AAAA shape, A sub-response shape) on the real dns64 code against a reference RFC 6052 implementation on bit strings and an independent decision function",
    "level_text": "embed: every legal Pref64 length (/32 /40 /48 /56 /64 /96) x all-zero / all-ones / patterned prefixes (with host bits and reserved-octet bits set in the configured string, taken through the real config path) x IPv4 addresses in which each octet independently takes all 256 values plus walking-bit and multiplicative patterns (thorough: all 65,536 values of each half-word) are embedded by the real embedIPv4/synthesizeAAAA, compared bit for bit with the reference, extracted back, and taken through the ip6.arpa name parser and in-addr.arpa renderer; every length 0..128 is offered to the config; every nibble position x value round-trips through the ip6.arpa parser. handler: the real DNS64.ServeDNS and its response writer run between a scripted client transport and a scripted downstream handler + scripted sub-query Queryer for every combination of 7 configurations (1-2 prefixes incl. 64:ff9b::/96, client networks, excluded zones, excluded A / AAAA ranges), 4 clients, query names inside/outside excluded zones, 96 flag sets (RD, CD, EDNS/DO, AD, class, internal sink), 43 downstream AAAA shapes (native / excluded / mixed AAAA, NODATA with SOA TTL/MINIMUM variants, NXDOMAIN, SERVFAIL plain / each DNSSEC EDE / EDE not first in the OPT / EDE 13 / request-tree cached-failure mark / request-local failure marks, REFUSED, CNAME and DNAME chains, AD on/off, TC) and 8/13 A sub-response shapes (1-2 A with different TTLs, private addresses, alias chains, NODATA, SERVFAIL, NXDOMAIN, no response).",
    "level_note": "The oracle is one-sided where the statement is ('synthesis happens only ...'): a reply counts as a synthesis iff it carries an AAAA the downstream answer did not contain; then every stated precondition must hold and the forged set must equal {RFC6052(a,p)} minus exclusions under the well-known prefix, be owned by the end of the A sub-response's alias chain, have TTL <= its A record's TTL and <= min(SOA TTL, SOA MINIMUM) of the downstream answer when that carries a SOA, and AD must be clear; a reply that lost downstream AAAA records must not carry AD. Whether synthesis happens when it may, exact TTLs, record order, EDE 4 and pass-through shape are not judged. DNSSEC validation failure = SERVFAIL with EDE 5..12 (EDE 1, 2, 27 'unsupported algorithm/digest/iterations' are enumerated but not required to block synthesis).",
    "rule": "embed: every (prefix, IPv4) pair of the stated sets; non-trivial = each prefix / each rejected illegal length / each nibble case. handler: full cross product of the stated dimensions (zone-name variants only for configurations that exclude zones; wire-born entry only in the thorough tier); non-trivial = distinct cases whose reply was a synthesis or an AAAA-filtered reply. Outcome labels: synth[:2prefixes][:alias], filtered:AD-clear, passthrough:<rcode>, no-synthesis-after-A-lookup:<rcode>, ptr:translated|fallthrough.",
    "assumptions": [
        "exclude_a_networks / exclude_aaaa_networks are always given explicitly (possibly empty): the built-in default lists are not part of the statement",
        "eligibility of internal sinks and non-IN classes is outside the statement: synthesis there is not an error, but a synthesised reply must still be a correct embedding without AD",
        "the A sub-query is answered by a scripted Queryer (the production one is the internal sub-pipeline); the downstream AAAA answer is scripted, including the request-tree marks set through the public middleware API",
    ],
    "bounds": {"quick": "embed: 25 prefixes x 5,186 IPv4 addresses + 387 length cases + 1,024 nibble cases; handler: 7 configs x 4 clients x 1|5 names x 96 flag sets x 43 AAAA shapes x 8 A shapes, decoded entry (1.9 M handler runs) + 120 PTR cases",
               "thorough": "embed: 25 prefixes x 201,794 IPv4 addresses; handler: 13 A shapes and both entry paths (4.8 M handler runs)"},
    "units": {
        "embed": {"pkg": "middleware/dns64", "run": "TestVerifC20Embed",
                  "harness": {"middleware/dns64": ["zz_verif_c20_*_test.go"]}},
        "handler": {"pkg": "middleware/dns64", "run": "TestVerifC20Handler",
                    "harness": {"middleware/dns64": ["zz_verif_c20_*_test.go"]}},
    },
}

# ---- unit e2e: the real default chain WITH dns64 (… edns … dns64 … cache … resolver …, validation on) against a signed
# zonemodel universe on loopback, side by side with the same chain without dns64 as the reference.
_E2E_H = {
    "middleware": ["zz_verif_export.go"],
    "middleware/resolver": ["zz_verif_export_authsim.go"],
    "middleware/cache": ["zz_verif_export_authsim.go"],
    "internal/authority": ["zz_verif_export_authsim.go"],
}
# the answer cache, the delegation table and every TTL move together under vtime.Advance (history 'stale'); sockets, request
# deadlines and signature windows stay on real time (as in C08)
_E2E_RW = {"internal/authority": ["time"], "internal/dnsutil": ["time"], "middleware": ["time"],
           "middleware/cache": ["time"], "middleware/resolver": ["time"]}
_E2E_UNIT = {"pkg": "internal/verifshim/h_c20", "run": "TestVerifC20E2E", "harness": _E2E_H, "rewrite": _E2E_RW,
             "shards": 16, "gomaxprocs": 2, "budget_s": {"quick": 75, "thorough": 600}}

# The unit is SWITCHED OFF by default: on the unchanged tree (/repo 38c0d11) it reports genuine findings — DNS64 synthesises
# over an AAAA lookup whose RRSIG does not verify (the resolver's SERVFAIL carries EDE 0 "dns: bad signature", which
# dns64.isDNSSECFailure does not list): keys C20:e2e/synth-over-validation-failure|reference=SERVFAIL {EDE 0, without OPT}|
# tampered={answer,negative,dnskey,referral}, and C20:e2e/synth-over-validation-failure/alias-target|tampered=… (dangling-alias
# reply of the resolver). See mutants/C20/RESULTS.md "Unit e2e"; enable with VERIF_C20_E2E=1 once the lead has decided fix
# vs. known finding.
import os as _os
if _os.environ.get("VERIF_C20_E2E", "1") != "0":  # both findings repaired in /repo (bf0810a, 48664ac): part of every run
    CHECK["units"]["e2e"] = _E2E_UNIT
    CHECK["engines"] = CHECK["engines"] + ["authsim"]
    CHECK["level_text"] += (" e2e: the real default chain with dns64 (prefix 64:ff9b::/96, exclude_a_networks 10/8; validation on) and, as "
                            "the reference, the same chain without dns64, both resolving over loopback against a signed zonemodel universe "
                            "(root, t., s.t. NSEC, h.t. NSEC3, unsigned u.t., signed island i.t.): names with A only (TTL above / below the "
                            "negative TTL), in-zone and cross-zone aliases onto them, a dual-stack name, a name whose only A is excluded, "
                            "NXDOMAIN x 16 flag sets (RD, CD, DO, AD) x history {cold; A answer cached just before; A answer cached and the "
                            "virtual clock advanced past every DNSKEY TTL} x every upstream exchange of the reference chain's resolution "
                            "(the AAAA-side exchanges: AAAA referrals / answers and the DNSKEY / DS exchanges made for them) x the C01 "
                            "tamper alphabet, one rewritten response per scenario. Oracle: a dns64 reply with an AAAA inside the prefix "
                            "is a synthesis; then RD and not CD, the reference reply is neither NXDOMAIN nor a SERVFAIL (or dangling alias) "
                            "that appears only because the tamper rewrote DNSSEC material of a secure zone, AD clear, and the forged set "
                            "= RFC 6052 embedding of the zone's A RRset at the end of the alias chain minus excluded addresses, owned by "
                            "that name, TTL <= A TTL and <= the zone's negative TTL when the reference reply carries the SOA; the PTR "
                            "question of every synthesised address of a baseline maps back to the same IPv4 address.")
    CHECK["bounds"] = {"quick": CHECK["bounds"]["quick"] + "; e2e: 10 names x 16 flag sets x 3 histories = 480 baselines, 1-9 positions x 39 kinds (6 kinds for CD / RD=0 clients): 9.9 k scenarios, each run on both chains from a cold state",
                       "thorough": CHECK["bounds"]["thorough"] + "; e2e: 12 names, 41 kinds for every flag set, 3 algorithm rotations: 60.5 k scenarios"}

# VERIF_C20_E2E_ANCHORS=1 (read by the harness, lib/h_c20/zz_verif_c20_xkinds_test.go) adds to unit e2e the histories 'noanchors' /
# 'noanchors-stale' (A answer cached, [clock +3700 s,] then the chain loses its trust anchors, then the AAAA question; 320 scenarios),
# the kinds forge-bare-nodata / strip-negative, and the family "a tamper provokes DS sub-queries, one of them is answered with
# nothing but a header" (3.3 k scenarios). OFF by default: on /repo 192514c they report 6 keys
# C20:e2e/synth-over-validation-failure|reference=SERVFAIL {EDE 0, without OPT}|{trust-anchors-removed, tampered=referral|then=
# {forge-bare-nodata,strip-negative}@ds} — dnssec.ErrTrustAnchorsUnavailable (EDE code 0 on purpose) and the untyped
# "DS or NSEC records not found" of resolver.lookupDS reach DNS64 as EDE 0. Candidate repair:
# lib/h_c20/candidate_fix_untyped_validation_errors.diff (green with it). See mutants/C20/RESULTS.md.
