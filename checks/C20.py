"""C20 — DNS64 synthesises only RFC 6052 addresses, only when allowed, never with AD."""

CHECK = {
    "level": "exploration",
    "engines": ["space"],
    "technique": "placeholder",
    "level_text": "placeholder",
    "level_note": "placeholder",
    "rule": "placeholder",
    "assumptions": [],
    "bounds": {"quick": "", "thorough": ""},
    "units": {
        "embed": {"pkg": "middleware/dns64", "run": "TestVerifC20Embed",
                  "harness": {"middleware/dns64": ["zz_verif_c20_*_test.go"]}},
        "handler": {"pkg": "middleware/dns64", "run": "TestVerifC20Handler",
                    "harness": {"middleware/dns64": ["zz_verif_c20_*_test.go"]}},
    },
}
