"""C16 — bounded concurrent tables behave as maps and stay within capacity."""

CHECK = {
    "level": "model_checking",
    "engines": ["space", "sched"],
    "technique": "explicit-state BFS over real tables vs Go map + preemption-bounded schedule DFS (controlled scheduler) with linearizability oracle",
    "level_text": "Every mutating operation of the alphabet is applied in every reachable physical state of the real open-addressing table (cloned by value) and compared with a Go map on every alphabet key; the real bounded Cache is explored by history replay; every schedule (<=2/3 preemptions) of 2-3 threads on forced-colliding keys is executed on the real code and its call/return history checked for linearizability, capacity, lock nesting and count==reachable. Unit limiter also judges the 'no global lock' clause on the limiter store (with ample capacity, which threads' Get of a new key take the store's exclusive lock): a known finding, see KNOWN_FINDINGS.json.",
    "level_note": "Trusted: the vsync/vatomic shims model Go's sync semantics (sequential consistency); table sizes 8/16 slots, 16 segments in scheduled scenarios; a free-running -race pass of the same bodies guards unsynchronised accesses.",
    "rule": "explicit-state BFS over the real UInt64Map (state = exact physical table, every mutating op applied in every reached state, lock-step vs Go map) and over the real bounded Cache by history replay; 'nontrivial' = distinct physical states holding >=3 (map) / >=2 (cache) entries; plus preemption-bounded DFS of 3-thread scenarios on the real Cache under the vsync/vatomic controlled scheduler",
    "assumptions": ["sequential consistency (Go race detector pass is the only guard for weaker orderings)",
                    "tables of 8 and 16 slots; the 1.5x growth branch (>=1M slots) is not reached"],
    "bounds": {"quick": "map BFS depth 5; cache BFS depth 4 at capacity 2,3; schedules: preemption bound 2",
               "thorough": "map BFS depth 9 (state cap 6M); cache BFS depth 6 at capacity 1-4,100; schedules: preemption bound 3"},
    "units": {
        "seq": {"pkg": "internal/cache", "run": "TestVerifC16Seq", "harness": ["internal/cache"],
                "rewrite": {"internal/cache": ["sync", "sync/atomic"]}},
        "conc": {"pkg": "internal/cache", "run": "TestVerifC16Conc", "harness": ["internal/cache"],
                 "rewrite": {"internal/cache": ["sync", "sync/atomic"]}, "race_pass": True, "gomaxprocs": 1,
                 "budget_s": {"quick": 60, "thorough": 420}},
        # the per-client limiter store (another table of the property's list): map semantics under schedules
        "limiter": {"pkg": "middleware/ratelimit", "run": "TestVerifC16Limiter", "harness": {"middleware/ratelimit": ["zz_verif_c16_limiter_test.go"]},
                    "rewrite": {"middleware/ratelimit": ["sync", "sync/atomic"]}, "stub_tests": ["middleware/ratelimit"],
                    "race_pass": True, "gomaxprocs": 1, "budget_s": {"quick": 40, "thorough": 240}},
    },
}
