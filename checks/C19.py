"""C19 — client subnet data is neither leaked upstream nor across audiences."""

_H = {"middleware/cache": ["zz_verif_common_test.go", "zz_verif_c03_test.go", "zz_verif_c03_routes_test.go", "zz_verif_c04_test.go", "zz_verif_c19_*.go"], "middleware": ["zz_verif_export.go"]}
_RW = {"middleware/cache": ["time"], "middleware": ["time"], "internal/dnsutil": ["time"]}

CHECK = {
    "level": "exploration",
    "engines": ["space", "authsim"],
    "technique": "bounded-exhaustive product policy x client x subnet option x options x route through the real edns->cache->upstream chain (upstream OPT and client reply judged), plus exhaustive <=3-client histories against scoped authorities",
    "level_text": "Shared: the real chain edns -> cache -> resolver with ECS forwarding on resolves against a scripted universe whose geo.t. authority tailors the answer by the forwarded subnet and declares scope 0/16/24; every order of {client arrives, its upstream exchange goes on the wire, the authority releases a held reply} for every ordered pair and triple of audiences {10.1.2.0/24, 10.1.3.0/24, 10.1.0.0/16, no subnet} is executed (exact settling between events by goroutine snapshots), then every client plus two outsiders ask again from the cache: no reply made for S/len with scope > 0 reaches a client outside S/min(scope,len), cache-served scoped replies carry at most the scoped TTL limit. The full product of ECS policies (enabled/disabled, v4 ceilings 0/16/24/32/33, v6 0/64/129, client networks none/10.0.0.0/8/with a malformed entry, floors) x 4 client addresses (incl. v4-mapped) x 49 client subnet options (every v4 netmask 0-33 with host bits set, v6 boundary netmasks, families 0/3, family/address mismatches) x other client options x {message, wire} route x CD x EDNS version is driven through the real edns and cache handlers; the scripted upstream records the OPT it receives. Then every sequence of <=3 clients against authorities declaring scopes is replayed and every served reply judged against a reference scope/TTL/denial model.",
    "level_note": "Trusted: reference policy reading (ceilings default 24/56, floor defaults to ceiling, any malformed value disables forwarding); the stub stands in for resolver/forwarder as the only upstream sink.",
    "rule": "cases enumerated as a full product; 'nontrivial' = distinct cases in which a subnet option was actually forwarded upstream (forward unit) or a scoped entry was stored and later probed by another audience (scoped unit)",
    "assumptions": [],
    "bounds": {"quick": "reduced v6/extra-option product", "thorough": "full product"},
    "units": {
        "scoped": {"pkg": "middleware/cache", "run": "TestVerifC19Scoped", "harness": _H, "rewrite": _RW, "stub_tests": ["middleware/cache"],
                   "budget_s": {"quick": 70, "thorough": 700}},
        "forward": {"pkg": "middleware/cache", "run": "TestVerifC19Forward", "harness": _H, "rewrite": _RW, "stub_tests": ["middleware/cache"]},
        # the real chain edns -> cache -> resolver against a tailoring authority: every order of client arrivals /
        # wire events / released replies for pairs and triples of audiences, then cache-served re-asks
        "shared": {"pkg": "internal/verifshim/h_c19sf", "run": "TestVerifC19Shared",
                   "harness": {"middleware": ["zz_verif_export.go"],
                               "middleware/resolver": ["zz_verif_export_authsim.go", "zz_verif_export_c12topo.go"],
                               "middleware/cache": ["zz_verif_export_authsim.go"],
                               "internal/authority": ["zz_verif_export_authsim.go"]},
                   "shards": 16, "gomaxprocs": 2, "budget_s": {"quick": 40, "thorough": 400}},
    },
}
