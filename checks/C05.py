"""C05 — wire fast path and decoded path are observationally equivalent."""

_H = {"server": ["zz_verif_srv_*.go", "zz_verif_c05_test.go", "zz_verif_c05_limiter_test.go", "zz_verif_c05_casesize_test.go", "zz_verif_c06_test.go"], "middleware": ["zz_verif_export.go"]}

CHECK = {
    "level": "exploration",
    "engines": ["space"],
    "technique": "bounded-exhaustive differential enumeration (config x cache state x packet shape x transport) of the real Server entry paths: strict wire-born vs reader-inline+replay vs decoded entry vs ServeMsg, replies compared as decoded messages plus upstream hand-off",
    "level_text": "For every configuration, every cached/uncached target (A hit, cached CNAME chain, alias with uncached target, signed answer, NXDOMAIN with proof, descendant of a denied name, NODATA, EDE-bearing, >1232 B, ~512 B, cached SERVFAIL, REFUSED, miss, hosts-file name, empty zone, root) and every packet shape of the alphabet (each header flag, opcodes, section counts 0-3, name forms incl. pointer/truncated/upper-case, qtypes/classes incl. unknown, OPT shapes: sizes 0-65535, version 1, ext-rcode, non-root owner, second OPT, bad rdlen, trailing bytes, 15 option kinds and mixes) on UDP and TCP, the packet is served by the real Server through the real udpJob/tcpJob strict path, the reader-inline path with worker replay, the decoded entry and ServeMsg; the replies must decode to the same message (header bits, rcode, question, sorted sections with TTLs, EDNS version/size/DO/option multiset), agree on drop vs reply, and agree on whether resolution was reached. casesize: cached answers with every record count in a window around each datagram limit (22-34 A records for 512 without OPT, 66-78 for 1232 with OPT) x query-name spelling {as stored, upper case, alternating case} x OPT on/off, on every UDP entry path incl. the message path (ServeMsg): the paths must agree on (rcode, TC, records per section) - the property allows differences in compression and owner-name case only.",
    "level_note": "Trusted: miekg Unpack as the decoder of both replies; the harness' re-implementation of the engines' 12-line header accept step (the real acceptHeader/rejectInPlace are called); real sockets, readers and batching are out of scope here (C10/C11). Limiter-token side effects are compared only through replies (rate-limit configs in thorough).",
    "rule": "cases = config x target x transport x packet; 'nontrivial' = distinct cases that produced a reply on the reference path",
    "assumptions": ["the scripted upstream answers unscripted names with TC=1 so that serving a packet does not change cache state between the paths"],
    "bounds": {"quick": "3 configs x 16 targets x 2 transports x ~150 packets x 3-4 paths, each packet also right after another client's EDNS query on the same recycled slab; limiter unit: every sequence of <= 3 cookie-shaped queries (2 transports x 7 cookie forms) + 7 plain probes, per entry path with its own client bucket", "thorough": "5 configs, + all option pairs and all 128 flag combinations"},
    "units": {
        "sweep": {"pkg": "server", "run": "TestVerifC05", "harness": _H, "stub_tests": ["server"], "budget_s": {"quick": 80, "thorough": 700}},
        # truncation decision at the datagram limit for queries spelled in another case than the stored answer (0x20)
        "casesize": {"pkg": "server", "run": "TestVerifC05CaseSize", "harness": _H, "stub_tests": ["server"], "shards": 4, "budget_s": {"quick": 40, "thorough": 60}},
        # side effects later queries can see: limiter tokens and the remembered cookie, per entry path
        "limiter": {"pkg": "server", "run": "TestVerifC05Limiter", "harness": _H, "stub_tests": ["server"], "budget_s": {"quick": 60, "thorough": 300}},
    },
}
