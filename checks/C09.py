"""C09 — root trust anchors change only as RFC 5011 permits, across crashes and faults."""

_H = {"middleware/resolver": ["zz_verif_c09_*.go"]}
_RW = {"middleware/resolver": ["time", "os"], "middleware/resolver/dnssec": ["time"],
       "internal/dnsutil": ["time"], "middleware": ["time"]}

CHECK = {
    "level": "model_checking",
    "engines": ["space", "crash"],
    "technique": "TODO",
    "level_text": "TODO",
    "level_note": "TODO",
    "rule": "TODO",
    "assumptions": [],
    "bounds": {"quick": "TODO", "thorough": "TODO"},
    "units": {
        "hist": {"pkg": "middleware/resolver", "run": "TestVerifC09Hist", "harness": _H, "rewrite": _RW,
                 "budget_s": {"quick": 50, "thorough": 420}},
        "crash": {"pkg": "middleware/resolver", "run": "TestVerifC09Crash", "harness": _H, "rewrite": _RW,
                  "budget_s": {"quick": 30, "thorough": 280}},
    },
}
