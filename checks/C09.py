"""C09 — root trust anchors change only as RFC 5011 permits, across crashes and faults."""

_H = {"middleware/resolver": ["zz_verif_c09_*.go"]}
_RW = {"middleware/resolver": ["time", "os"], "middleware/resolver/dnssec": ["time"],
       "internal/dnsutil": ["time"], "middleware": ["time"]}

CHECK = {
    "level": "model_checking",
    "engines": ["space", "crash"],
    "technique": "explicit-state BFS over refresh/advance/restart/fault event histories on the real (*Resolver).AutoTA() (fresh directory and NewResolver per history, scripted root on loopback, virtual clock, every persistence file operation logged and failable through vos), lock-step against an RFC 5011 reference automaton; crash-prefix and power-loss image enumeration of the persistence log of every refresh reachable within a smaller depth, each image restarted on and refreshed again",
    "level_text": "Breadth-first search over event histories: refresh(publication) for 19 root DNSKEY publications (honest, new key introduced / co-signed / signed only by the new key, anchor removed, self-signed revocation with and without a trusted co-signer, revocation-only-authenticated set carrying a new key, REVOKE bit without self-signature, key-tag collisions K1/K3 in plain and revoked form and in both record orders, forged, unsigned, revocation of the new key), advance(1/29/31/89/91 days), restart (NewResolver on the same directory, configuration still lists K1), refresh with one file operation of either atomic write failing (every operation kind of both files), with both writes failing, with the tombstone store unopenable, and corruption of either file (empty / truncated / flipped header / foreign gob type). Every history is replayed on a fresh directory and Resolver; after every refresh the live trust set (Resolver.rootKeys), the decoded state and tombstone files and AutoTA's own refresh-result metric are compared with a per-key RFC 5011 reference automaton (Start/AddPend/Valid/Missing/Revoked with the 30 d add and 90 d remove hold-downs) that is stepped only with publications its own trusted non-revoked set authenticates: a key with an accepted revocation is never trusted again (restart, configuration, tag collision, stale state file), a new key is trusted only after >= 30 d of uninterrupted presence in accepted refreshes, an unauthenticated response leaves the files byte-identical, revocation-only authentication changes nothing but that key, a missing key stays trusted 90 d and returns to valid, corrupt tombstones / a doubly failed new revocation / an unopenable store must leave the trust set empty. Crash unit: for every fault-free state within depth 3 and every refresh that persists anything, the vos log of the two atomic writes is expanded into every process-crash prefix (thorough: also every power-loss image: unsynced tails cut, un-dirsynced renames lost; and the refreshes with one failing file operation), each image is materialised, a new Resolver (K1 still configured) started on it and refreshed with the honest and with the same publication; a revocation whose first record was reported complete (crash between or after the two writes) must have survived.",
    "level_note": "Trusted: the reference automaton's reading of RFC 5011 (promotion at day 30 and removal at day 90 are permitted, never demanded; MUST-trust demands only in histories without injected fault); the vos shim and the crashfs power-loss model; a tmpfs scratch directory; RRSIGs carry one fixed validity window that contains the real clock and every reachable virtual instant (miekg's ValidityPeriod reads the real clock); 'both writes fail' is injected by moving the directory away between AutoTA's reads and writes (both CreateTemp fail), 'unopenable store' by a symlink loop (ELOOP). After 500 NewResolver calls per process (its run() goroutine cannot be stopped) instances are recycled with the start-up fields rebuilt exactly as NewResolver does. The trust set is judged after refreshes, not between NewResolver and the first AutoTA.",
    "rule": "state = reference automaton state + live anchor set + decoded state file (key, RFC 5011 state, pending/missing age in days capped past 30/90) + tombstone set + file error class + fresh-process and fault flags; transition = one event applied by replaying the whole history on a fresh directory and Resolver; at most one injected fault per history (a crash may follow); 'nontrivial' = states whose trust set differs from the initial {K1} or that were reached through a fault/crash",
    "assumptions": [
        "one root server, answers fit one UDP datagram; the loopback exchange is reliable (a failed exchange, visible in AutoTA's own result metric, makes the history replay again)",
        "virtual clock only moves forward; real elapsed time inside one history (milliseconds) is far below the one-day event granularity",
        "Ed25519 keys; K3 found by search so that KeyTag(K3)==KeyTag(K1) and KeyTag(K3 revoked)==KeyTag(K1 revoked)",
    ],
    "bounds": {
        "quick": "hist: 19 publications + 5 advances + restart + 4 publications x (7 operation kinds x 2 files + both-fail + unopenable) + 4 corruptions = 93 events, BFS depth 5 (time-capped at 50 s); crash: base states within depth 3 of the fault-free alphabet, refreshes completing a revocation, all process-crash prefixes x 2 recovery publications",
        "thorough": "hist: 7 fault publications x (11 operations x 2 files + both-fail + unopenable) + 8 corruptions = 201 events, BFS depth 7 (time-capped at 420 s); crash: base states within depth 3, every refresh that persists (with and without one failing file operation), process-crash prefixes + power-loss images x 2 recovery publications (time-capped at 280 s)",
    },
    "units": {
        "hist": {"pkg": "middleware/resolver", "run": "TestVerifC09Hist", "harness": _H, "rewrite": _RW,
                 "budget_s": {"quick": 50, "thorough": 420}},
        "crash": {"pkg": "middleware/resolver", "run": "TestVerifC09Crash", "harness": _H, "rewrite": _RW,
                  "budget_s": {"quick": 30, "thorough": 280}},
        # the history search in a universe whose K1/K2 key tags do not move by exactly 128 under the REVOKE bit
        "carry": {"pkg": "middleware/resolver", "run": "TestVerifC09Carry", "harness": _H, "rewrite": _RW,
                  "budget_s": {"quick": 30, "thorough": 200}},
    },
}
