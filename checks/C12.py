"""C12 — bounded work per request: resolution always terminates within its budgets."""

_HM = {"middleware": ["zz_verif_export.go", "zz_verif_c12_*.go"]}
_HT = {"middleware": ["zz_verif_export.go", "zz_verif_export_c12topo.go"],
       "middleware/resolver": ["zz_verif_export_authsim.go", "zz_verif_export_c12topo.go"],
       "middleware/cache": ["zz_verif_export_authsim.go", "zz_verif_export_c13zone.go"],
       "internal/authority": ["zz_verif_export_authsim.go", "zz_verif_export_c12topo.go"]}

CHECK = {
    "level": "model_checking",
    "engines": ["sched", "space", "authsim"],
    "technique": "preemption-bounded schedule DFS of 3 concurrent debit/retain/finish threads on the real work ledger and attempt guard; explicit-state BFS of every attempt-guard begin sequence across the slot/overflow boundary; adversarial-topology enumeration against a scripted DNS universe with the upstream packet log as oracle",
    "level_text": "Ledger: every interleaving (<=2/3 preemptions) of three threads each doing two of {Debit, DebitBestEffort, Retain+release, finish, EnforcementError/Snapshot, attempt-guard begin} at limits 1 and 2 in enforce and shadow mode on the real RecursionWorkLedger compiled against the controlled-scheduler shims: accepted work never exceeds the limit at any scheduling point, exactly min(attempts, limit) debits are accepted, the latched first rejection names a really rejected dimension, best-effort rejections do not latch, references never go negative, publication happens exactly once. Guard: BFS closes the whole state space of begin sequences over 10 symmetric tuples (per-tuple counts in first-seen order), so every way of crossing from the 8 inline slots into the overflow map is visited; endpoint/transport spelling variants must hit the same tuple.",
    "level_note": "Trusted: vsync/vatomic model Go's sync semantics under sequential consistency; the ledger's Prometheus side effects are not judged. Topology unit: see level_text of that unit in DESIGN.md.",
    "rule": "ledger: scenarios = all multisets of 3 two-operation threads x mode x limit; states = distinct (scenario, outcome); guard: states = distinct per-tuple count vectors; 'nontrivial' = scenarios with >1 outcome / guard states using the overflow map",
    "assumptions": ["sequential consistency"],
    "bounds": {"quick": "preemption bound 2; guard 10 tuples", "thorough": "preemption bound 3; guard 11 tuples"},
    "units": {
        "ledger": {"pkg": "middleware", "run": "TestVerifC12Ledger", "harness": _HM, "stub_tests": ["middleware"],
                   "rewrite": {"middleware": ["sync", "sync/atomic"]}, "gomaxprocs": 1, "budget_s": {"quick": 60, "thorough": 600}},
        "guard": {"pkg": "middleware", "run": "TestVerifC12Guard", "harness": _HM, "stub_tests": ["middleware"], "shards": 1,
                  "rewrite": {"middleware": ["sync", "sync/atomic"]}},
        "topo": {"pkg": "internal/verifshim/h_c12", "run": "TestVerifC12Topo", "harness": _HT,
                 "shards": 16, "gomaxprocs": 2, "budget_s": {"quick": 75, "thorough": 660}},
    },
}
