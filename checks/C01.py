"""C01 — DNSSEC: validating clients get only authenticated data; AD implies authentic."""

_H = {
    "middleware": ["zz_verif_export.go"],
    "middleware/resolver": ["zz_verif_export_authsim.go"],
    "middleware/cache": ["zz_verif_export_authsim.go"],
    "internal/authority": ["zz_verif_export_authsim.go"],
}

CHECK = {
    "level": "exploration",
    "engines": ["space", "authsim"],
    "technique": "TODO",
    "level_text": "TODO",
    "level_note": "TODO",
    "rule": "TODO",
    "assumptions": [],
    "bounds": {"quick": "TODO", "thorough": "TODO"},
    "units": {
        "tamper": {"pkg": "internal/verifshim/h_c01", "run": "TestVerifC01Tamper", "harness": _H,
                   "shards": 16, "gomaxprocs": 2, "budget_s": {"quick": 85, "thorough": 660}},
    },
}
