"""C01 — DNSSEC: validating clients get only authenticated data; AD implies authentic."""

_H = {
    "middleware": ["zz_verif_export.go"],
    "middleware/resolver": ["zz_verif_export_authsim.go"],
    "middleware/cache": ["zz_verif_export_authsim.go"],
    "internal/authority": ["zz_verif_export_authsim.go"],
}

CHECK = {
    "level": "exploration",
    "engines": ["space", "authsim"],
    "technique": "bounded-exhaustive tamper enumeration on the real default chain (… edns … cache … resolver …) resolving over loopback UDP/TCP against a scripted signed hierarchy (zonemodel + authsim); every client-visible reply judged against zone ground truth",
    "level_text": "A fixed universe (root -> t. -> {s.t. NSEC with wildcard/CNAMEs/ENT, h.t. NSEC3 with a same-key-tag clone key, o.t. NSEC3 opt-out with an unsigned child, u.t. proven insecure, p.t.+c.p.t. on one server with c unsigned, d.t. with DNAMEs into s.t. and into the insecure u.t.}; RSASHA256 / ECDSAP256 / ED25519 rotated over the levels) is signed with miekg/dns and served by one socket per server. For every query (name x {A,AAAA,TXT,DS,DNSKEY,CNAME} x DO x CD x AD-requested) the untampered resolution path (3-9 upstream exchanges incl. DS/DNSKEY sub-queries) is recorded from the server log; then for EVERY position on that path and EVERY tamper kind (33; thorough 35: rdata flip in answer/authority, RRSIG byte flip, signer -> sibling / descendant / qname / ancestor(+garbage, replaced or injected ahead), labels +-1, window expired / not yet valid, genuine-but-expired / not-yet-valid replayed signatures over altered data, all RRSIGs dropped, DS dropped / swapped for a sibling's, NSEC/NSEC3 dropped / replaced by a foreign zone's, out-of-zone answer / authority injection, same-tag clone key first, wildcard RRSIG replayed over an existing name, full downgrade, unsigned forgery, partial unsigned forgery, forged NXDOMAIN / NODATA / positive, attacker key added to a DNSKEY RRset, data re-signed with an attacker key, altered data whose RRSIGs name the query name as signer) exactly that one response is rewritten and the query re-resolved from a cold resolver+cache; plus the two-step families attacker-key x attacker-resign (same zone) and stripped referral x later unsigned forgery; plus a run with the trust anchors removed. After each run the same query and two related ones are asked again (cache-served history). Oracle: CD=0 and model status secure => reply is SERVFAIL (+EDE when the query had OPT) or the model's truth (rcode, answer chain RRsets as sets, TTL <= signed TTL; a NOERROR prefix of the alias chain is accepted); every answer-chain RRset owned under an unbroken signed chain equals the zone's data even when the final status is insecure; AD=1 => reply is the truth (or an alias prefix), every RRset in answer and authority is authentic secure zone data, status secure when the reply asserts the terminal step, and DO or AD was requested and CD=0; no anchors => SERVFAIL for every CD=0 query.",
    "level_note": "A reply that ends in an alias without the target's data although the model's chain continues under secure zones is a violation (class alias-without-target) since /repo 48664ac; before that repair the oracle accepted it as a prefix of the truth. Trusted: zonemodel's authoritative answers and oracle (unit 'model' re-verifies every signature, DS and denial with miekg/dns only). The attacker owns no key of the path: tampers rewrite responses, they never re-sign with zone keys (except the 'replay' kinds, which present signatures the zone itself made for another validity window). One NS and one address per zone make the fan-out sequential; a run in which an ask waited out an upstream timeout although nothing was scripted to be dropped (lost loopback datagram / starved process) is discarded and repeated; every violation is re-run 5x from a cold state and reduced (a violating pair is replaced by one of its tampers when that alone violates) before it is reported. SERVFAIL is always an allowed answer (liveness is not judged): the unchanged tree answers SERVFAIL for NSEC empty-non-terminal NODATA and for wildcard NODATA of type DS under NSEC3.",
    "rule": "cases = (query, position on its untampered path, tamper kind) [+ the two pair families; thorough: all pairs of single tampers on distinct positions for every name x {A,DS} with DO]; 'nontrivial' = the scripted exchange was reached and the response actually sent differs from the honest one",
    "assumptions": [
        "one fixed hierarchy family (depth 3, one NS/address per zone, QNAME minimisation off), not all hierarchies",
        "on-path attacker without zone keys; at most two tampered responses per resolution",
        "records in the reply's answer section that are not on the answer chain of the question are judged only when AD=1 (bailiwick hygiene is C07)",
        "a NOERROR reply that stops at an alias asserts only the alias RRsets it carries",
    ],
    "bounds": {"quick": "1 algorithm rotation; 22 names x 6 types x 8 flag sets = 1056 queries; 33 kinds at every path position + 2 pair families + no-anchor run; each scenario = 1 cold resolution + 3 history asks",
               "thorough": "3 algorithm rotations; 30 names (4320 queries); 35 kinds; plus every pair of single tampers on distinct positions for 30 names x {A,DS}"},
    "units": {
        "model": {"pkg": "internal/verifshim/zonemodel", "run": "TestVerifZoneModel", "harness": {}, "shards": 1},
        "tamper": {"pkg": "internal/verifshim/h_c01", "run": "TestVerifC01Tamper", "harness": _H,
                   "shards": 16, "gomaxprocs": 2, "budget_s": {"quick": 100, "thorough": 660}},
    },
}
